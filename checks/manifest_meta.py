"""Texts for MANIFEST.json. A property is listed in CLAIMED only once its check is silent on the unchanged tree."""
HOOK_COMMITS = []
NOTES = "All checks: ./check <id> --tier quick|thorough. Lean theorems are about hand-written models; the correspondence run ties them to /repo's working tree on every run. See DESIGN.md."
NOTE = ("theorem about a hand-written Lean model; tied to /repo's working tree by the differential correspondence run of the same check "
        "(its reach is its generators' reach); Lean kernel + propext/Classical.choice/Quot.sound only; harness + cfg(redb_verif) hooks trusted")
CLAIMED = {
    "C04": {
        "text": "Lean theorems: the specification Spec (strictly sorted association list under the key comparator) satisfies the sorted-map laws "
                "for every comparator with CmpLaws (proved for all built-in key types in C15), every map, key and value: insert/remove keep "
                "sortedness, get-after-insert/remove, returned old values, len bookkeeping, first/last are min/max, range/retain are sorted "
                "sublists, extract_if removes exactly what it yields; and any well-formed B+tree (the conditions checked on committed images) "
                "answers lookups exactly as its sorted entry list. The real Table API (every operation named in the property, three key "
                "families, values 0..5 pages, page sizes 512..16384, cache 0.., several transactions, abort, reopen) is compared answer by "
                "answer and by committed contents with Spec executed by the Lean driver; a sorted-vector oracle ordered by the "
                "implementation's own compare evaluates the property without the model.",
        "note": NOTE + "; the B-tree mutators (split/merge policy of btree_mutator.rs) are not yet modelled in Lean: that the real mutators refine Spec rests on the correspondence run, not on a theorem",
        "technique": "Lean 4 proof (spec laws, B+tree routing refinement) + differential correspondence against the real Table API",
        "design_ref": "DESIGN.md §6 C04",
    },
    "C09": {
        "text": "Lean theorems about MultiSpec (sorted map from keys to non-empty strictly sorted value sets), for all built-in key and value "
                "types (comparator laws instantiated from C15), all maps and pairs: well-formedness preserved by insert/remove/remove_all, the "
                "returned flag is exactly pair presence and re-inserting a present pair changes nothing (no duplicate pairs), values of a key "
                "are strictly sorted, len counts pairs, a key disappears exactly with its last value, other keys untouched. The real "
                "MultimapTable (inline and subtree representations: bulk inserts of up to 3000 values per key and bulk removals force both "
                "transitions) is compared answer by answer and by committed contents with MultiSpec executed by the Lean driver; nested "
                "sorted-vector oracle evaluates the property on the implementation alone.",
        "note": NOTE + "; the inline/subtree representation switch of multimap_btree.rs is not modelled in Lean, both representations are held to the same spec by the correspondence run",
        "technique": "Lean 4 proof (multimap spec laws) + differential correspondence against the real MultimapTable API",
        "design_ref": "DESIGN.md §6 C09",
    },
    "C17": {
        "text": "Lean theorems stating the catalog's decision logic outright, for all catalogs, names and requests: wrong kind -> is-multimap/"
                "not-multimap regardless of types; same kind but different key/value type name -> type-mismatch, same names with different "
                "fixed width/alignment -> type-definition-changed, never ok; open succeeds iff absent-and-created or everything matches and the "
                "name is not already open; open twice -> already-open while a handle lives, ok after drop (over arbitrary operation "
                "sequences); rename/delete/list semantics; abort restores the committed catalog and commit publishes the staged one; the "
                "invariant (names unique and sorted, kinds disjoint, live handles name staged tables) holds after every operation sequence. The "
                "real API (write and read paths, both kinds, 14 types incl. user-defined and colliding names, files written by redb 3.0.0) is "
                "compared answer by answer; storage release after delete is checked on the implementation (allocated pages return to level).",
        "note": NOTE + "; 'deleting a table releases all of its storage' is proved only for the model's abstract rows (c17_delete_releases_rows_partial); page-level release is judged by the harness oracle and by the C06 page accounting",
        "technique": "Lean 4 proof (catalog decision logic + inductive invariant) + differential correspondence against the real API",
        "design_ref": "DESIGN.md §6 C17",
    },
    "C18": {
        "text": "Lean theorems about the zipper specification CursorSpec for every built-in key type, map, bound and key: lower/upper bound put "
                "the gap exactly where a sorted map would, peek/next/prev return and step over the neighbours, insert_before/insert_after are "
                "accepted iff the key is strictly between the gap's neighbours and then the map equals Spec.insert with the gap after/before the "
                "new entry, remove_next/prev equal Spec.remove of the neighbour, and a whole session (any batching) equals the fold of the "
                "corresponding Spec edits. The real CursorMut/Cursor API is compared answer by answer and by committed contents with the "
                "spec (separate harness crate built with the experimental_cursor feature).",
        "note": NOTE + "; tree-level splice of buffered insert runs is not modelled (held to the spec by the correspondence run)",
        "technique": "Lean 4 proof (zipper cursor laws) + differential correspondence against the real cursor API",
        "design_ref": "DESIGN.md §6 C18",
    },
    "C14": {
        "text": "Lean theorems over all allocator states satisfying the invariant (page free at one order at most, free buddies merged, "
                "shape), all orders and indexes, with no bound on sizes: a fresh allocator satisfies it; alloc hands out an in-range block of "
                "free pages only and removes exactly those (so it is disjoint from every live block); alloc refuses only when no aligned block "
                "of that order is entirely free; alloc_lowest additionally returns the least such index; free gives back exactly the block, "
                "merges (invariant) and returns the merged order; record_alloc succeeds iff order admissible, block in range and entirely free; "
                "resize grow/shrink preserve the invariant; serialize/deserialize round trip. The model equals the real BuddyAllocator op by op "
                "(answers, free/len/trailing/highest counters, serialized bytes) on every op sequence of fixed depth over small capacities and "
                "random contract-respecting programs; disjointness/completeness/merge order are also evaluated on the implementation alone.",
        "note": NOTE + "; the multi-region layer (RegionTracker never hides free space, allocate retry loop, free_helper mark_free) is observed through the history harness snapshots (C06) and not yet a Lean theorem; 64-way summary levels of BtreeBitmap are modelled only through the serialized bytes",
        "technique": "Lean 4 proof (inductive invariant of the buddy allocator) + differential correspondence incl. exhaustive small op sequences",
        "design_ref": "DESIGN.md §6 C14",
    },
    "C15": {
        "text": "Lean theorems over ALL key-type descriptors (nested arbitrarily) and all valid encodings: the comparator is a total preorder "
                "respecting equality (pairs and triples), the separator of a<b is a valid encoding s with a<=s<b and len(s)<=len(a), branch "
                "separators of fixed-width types are never shortened, min_encoded_key is least. The model's compare/fixed_width/min key are "
                "compared exactly with the real functions on generated values of 40 concrete types; real separators are judged by the "
                "proved decidable contract. Proof is the right level because the quantifier is over all inputs of pure functions.",
        "note": NOTE + "; chrono types, f32/f64 and user-defined Key impls are out of scope; value-level decode(encode v)=v and compare==Ord are checked by the harness oracle on the implementation (not yet a Lean theorem)",
        "technique": "Lean 4 proof (induction over key-type descriptors) + differential correspondence",
        "design_ref": "DESIGN.md §6 C15",
    },
}
NOT_YET = {}
