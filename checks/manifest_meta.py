"""Texts for MANIFEST.json. A property is listed in CLAIMED only once its check is silent on the unchanged tree."""
HOOK_COMMITS = []
NOTES = "All checks: ./check <id> --tier quick|thorough. Lean theorems are about hand-written models; the correspondence run ties them to /repo's working tree on every run. See DESIGN.md."
CLAIMED = {}
NOT_YET = {}
