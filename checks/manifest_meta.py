"""Texts for MANIFEST.json. A property is listed in CLAIMED only once its check is silent on the unchanged tree."""
HOOK_COMMITS = []
NOTES = "All checks: ./check <id> --tier quick|thorough. Lean theorems are about hand-written models; the correspondence run ties them to /repo's working tree on every run. See DESIGN.md."
NOTE = ("theorem about a hand-written Lean model; tied to /repo's working tree by the differential correspondence run of the same check "
        "(its reach is its generators' reach); Lean kernel + propext/Classical.choice/Quot.sound only; harness + cfg(redb_verif) hooks trusted")
CLAIMED = {
    "C15": {
        "text": "Lean theorems over ALL key-type descriptors (nested arbitrarily) and all valid encodings: the comparator is a total preorder "
                "respecting equality (pairs and triples), the separator of a<b is a valid encoding s with a<=s<b and len(s)<=len(a), branch "
                "separators of fixed-width types are never shortened, min_encoded_key is least. The model's compare/fixed_width/min key are "
                "compared exactly with the real functions on generated values of 40 concrete types; real separators are judged by the "
                "proved decidable contract. Proof is the right level because the quantifier is over all inputs of pure functions.",
        "note": NOTE + "; chrono types, f32/f64 and user-defined Key impls are out of scope; value-level decode(encode v)=v and compare==Ord are checked by the harness oracle on the implementation (not yet a Lean theorem)",
        "technique": "Lean 4 proof (induction over key-type descriptors) + differential correspondence",
        "design_ref": "DESIGN.md §6 C15",
    },
}
NOT_YET = {}
