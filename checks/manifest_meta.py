"""Texts for MANIFEST.json. A property is listed in CLAIMED only once its check is silent on the unchanged tree."""
HOOK_COMMITS = ['b792287', '8f86a84', '459984f', 'fd5a20d', '85697c7', 'bb47e22', '702fe54', '9bdec69', 'e1cb83e', '7918ed9']
NOTES = "All checks: ./check <id> --tier quick|thorough. Lean theorems are about hand-written models; the correspondence run ties them to /repo's working tree on every run. See DESIGN.md."
NOTE = ("theorem about a hand-written Lean model; tied to /repo's working tree by the differential correspondence run of the same check "
        "(its reach is its generators' reach); Lean kernel + propext/Classical.choice/Quot.sound only; harness + cfg(redb_verif) hooks trusted")
CLAIMED = {
    "C19": {
        "text": "Lean theorems: on any tree that passes the format checker, a reader that only compares routing keys finds exactly the sorted "
                "entries (so the shortened separators this version writes are legal for an older reader), a shortened separator is a valid "
                "encoding of the key type between its neighbours, fixed-width keys are never shortened. Correspondence by a second "
                "implementation: generated programs are written by this code and opened by redb 3.0.0 (from the offline registry) and the "
                "reverse - clean and crash-left files - with identical contents, passing check_integrity, then continued by the other version "
                "and read back by the first; every image also passes the Lean format checker.",
        "note": NOTE + "; only release 3.0.0 and 4 KiB pages; type-name compatibility of composite user types is covered by C17's legacy cases; one known finding (3.0.0 reports a repair on a completely full file written by this code; cause in 3.0.0; see known_findings.json / DESIGN 0.3 F5)",
        "technique": "Lean 4 proof (routing with shortened separators) + cross-version differential testing against redb 3.0.0",
        "category": "proof",
        "design_ref": "DESIGN.md §6 C19",
    },
    "C03": {
        "text": "Lean theorems about an interleaving model of the write slot, root publication and reader registration (any number of threads): "
                "one writer at a time; a commit becomes visible by one atomic publish and commits are published in version order; a reader "
                "registered after a writer's release reads that version or a newer one; a thread's reads and the roots handed to successive "
                "readers never go backwards; aborted or unpublished versions are never read; the monitor is sound (an accepted event stream is "
                "the projection of a model execution). Correspondence: forced schedules through named pause points inside begin_read, "
                "durable and non-durable commit, the root swap, the epilogue and the drops (thread T1 parked at each point it passes while "
                "each of eight calls runs on T2); every merged event stream must be accepted by the monitor; implementation-only oracle: "
                "three tables updated together are read back consistent, final version = last completed commit.",
        "note": NOTE + "; two threads and one preemption per schedule at hand-placed pause points: preemption inside a lock-protected block, weak-memory reordering and three-way races are not exhibited; the theorems are about the model's atomic actions",
        "technique": "Lean 4 proof (interleaving model: invariants over all executions, monitor soundness) + forced schedules of the real code through pause-point hooks",
    },
    "C16": {
        "text": "Lean theorems: operations on different tables of one transaction commute and each table ends as the fold of its own stream; "
                "page sets of different tables stay disjoint under every interleaving; under the `tables` lock a savepoint can exist only "
                "while allocation tracking is on, and without the lock a three-step counter-example is reachable. Correspondence: forced "
                "schedules through the pause points in set_dirty and ephemeral_savepoint answer as the locked model; random transactions "
                "whose tables are driven by one thread each (plus a savepoint thread) are followed by per-table contents comparison and by "
                "the exact page-accounting / ownership monitor of the history harness.",
        "note": NOTE + "; apart from the set_dirty / ephemeral_savepoint window the interleavings are whatever the OS schedules (16 cores, many short transactions): races on the sharded allocation sets, the tracking flag and the striped write buffer are sampled, not enumerated; data races below the lock level are out of this technique's reach",
        "technique": "Lean 4 proof (commutation / disjointness / lock atomicity) + multi-threaded runs of the real code with forced and OS-chosen schedules, judged by the proven ownership monitor",
    },
    "C20": {
        "text": "Lean theorems: the contract automaton accepts a call stream iff close occurs exactly once and as the last call, and (read-only) "
                "no write/set_len/sync_data occurs; layout arithmetic: every in-range page lies entirely inside the file, pages of different "
                "regions are disjoint. The recording backend checks on the implementation, in every harness run, that all reads and writes lie "
                "inside the current length, that the file is never shorter than a page in use, close count and calls after close; dedicated "
                "scenarios cover every failing open (bad magic/geometry, truncated/extended, aborted repair, an I/O error at each call of the "
                "open path), read-only databases, a Database dropped with a live write transaction and readers outliving it. A genuine "
                "defect found by this check (read beyond the end of a file truncated inside the header) was fixed (known_findings.json). Forced "
                "schedules park a reader between the closed-latch test and each of its backend reads while another thread drops the Database: "
                "the second genuine defect (a backend read reaching the backend after close()) was reproduced this way and fixed. The fix is "
                "modelled as an interleaving state machine (Model/CloseGuard.lean: any number of caller threads, shared / exclusive guard, "
                "latch flags) with theorems for every reachable state: no call after or overlapping close, close at most once, callers "
                "arriving after the flags are refused, the closer is eventually enabled; the unguarded and the partially guarded variant "
                "have reachable executions with a call after close (by decide). The forced schedules are replayed on that model.",
        "note": NOTE + "; bounds are observed, not proved about the code; of all thread interleavings only the close-versus-in-flight-read schedules are forced",
        "technique": "Lean 4 proof (contract automaton, layout arithmetic) + recording backend on the real code",
        "design_ref": "DESIGN.md §6 C20",
    },
    "C04": {
        "text": "Lean theorems: the specification Spec (strictly sorted association list under the key comparator) satisfies the sorted-map laws "
                "for every comparator with CmpLaws (proved for all built-in key types in C15), every map, key and value: insert/remove keep "
                "sortedness, get-after-insert/remove, returned old values, len bookkeeping, first/last are min/max, range/retain are sorted "
                "sublists, extract_if removes exactly what it yields; and any well-formed B+tree (the conditions checked on committed images) "
                "answers lookups exactly as its sorted entry list. The real Table API (every operation named in the property, three key "
                "families, values 0..5 pages, page sizes 512..16384, cache 0.., several transactions, abort, reopen) is compared answer by "
                "answer and by committed contents with Spec executed by the Lean driver; a sorted-vector oracle ordered by the "
                "implementation's own compare evaluates the property without the model.",
        "note": NOTE + "; the B-tree mutators (split/merge policy of btree_mutator.rs) are not yet modelled in Lean: that the real mutators refine Spec rests on the correspondence run, not on a theorem",
        "technique": "Lean 4 proof (spec laws, B+tree routing refinement) + differential correspondence against the real Table API",
        "design_ref": "DESIGN.md §6 C04",
    },
    "C09": {
        "text": "Lean theorems about MultiSpec (sorted map from keys to non-empty strictly sorted value sets), for all built-in key and value "
                "types (comparator laws instantiated from C15), all maps and pairs: well-formedness preserved by insert/remove/remove_all, the "
                "returned flag is exactly pair presence and re-inserting a present pair changes nothing (no duplicate pairs), values of a key "
                "are strictly sorted, len counts pairs, a key disappears exactly with its last value, other keys untouched. The real "
                "MultimapTable (inline and subtree representations: bulk inserts of up to 3000 values per key and bulk removals force both "
                "transitions) is compared answer by answer and by committed contents with MultiSpec executed by the Lean driver; nested "
                "sorted-vector oracle evaluates the property on the implementation alone.",
        "note": NOTE + "; the inline/subtree representation switch of multimap_btree.rs is not modelled in Lean, both representations are held to the same spec by the correspondence run",
        "technique": "Lean 4 proof (multimap spec laws) + differential correspondence against the real MultimapTable API",
        "design_ref": "DESIGN.md §6 C09",
    },
    "C06": {
        "text": "Algorithmic model with an inductive proof (Model/Life2.lean, Props/Life2.lean): a state machine of redb's page bookkeeping "
                "at transaction granularity (commit pipeline with merge / release / publish / epilogue, non-durable reclaim, unpersisted "
                "records, readers and internal pins, savepoints incl. restore and deletion, abort, reopen, crash) whose invariant - every "
                "allocated page has exactly one owner, every page of every pin and of the durable image is allocated and held - holds initially, "
                "is preserved by every guarded step and therefore in every reachable state; corollaries: no page of a pin is handed out by a "
                "commit or its epilogue, abort leaves no trace, crash yields the durable image with allocated = owned, three empty durable "
                "commits drain every record (tight). Tied to the code by prediction: from each observed step and tree diff the model computes "
                "the next allocated set, pending-free records, pins and tracker counts, which must equal what the read-only hooks show. "
                "In addition the proven monitor. Lean theorems for all states and traces: ownOk is exactly 'every allocated page has exactly one owner (latest "
                "data tree, latest system tree, or one pending-free record) and every other page is free'; under ownOk+pinOk every page of every "
                "pin (live reader, savepoint, last durable root) and of the durable system tree is allocated; over any accepted trace a pinned "
                "page stays allocated and is only ever owned by the data tree or a pending-free record of a later transaction (never released, "
                "never handed out again); a page that is released was not reachable from any surviving pin nor from an unchanged durable root. "
                "Every state and transition of the real database observed after every step of generated histories (all durabilities, commit "
                "strategies, aborts, savepoints, readers, reopen, crash-reopen, compaction, check_integrity) is fed to the monitor; the harness "
                "also checks exact accounting, pinned bytes unchanged, return to level at quiescence, and the region tracker.",
        "note": NOTE + "; two layers: the algorithmic model Life2 (invariant proved for every reachable state of the model; its inputs are the observed tree diffs - the B-tree layer is not modelled there - and it is tied to the code by predicting every observed state of the generated histories, about 96% of states, the rest - first state of a case, completed compact() - resynchronised under a checked postcondition) and the ownership monitor (proven-monitor correspondence: `accept trace` implies the property for that trace); that the real system behaves as the model on histories that were not generated is not proved; the monitor works on page ownership, byte-level immutability of pinned pages and table contents are judged by the harness oracles (fingerprints, re-reads, recorded commit points); single-threaded histories",
        "technique": "Lean 4 proof by invariant induction over an algorithmic model (prediction correspondence) + proven trace monitor + observation of the real system through read-only hooks",
        "design_ref": "DESIGN.md §6 C06",
    },
    "C01": {
        "text": "Lean theorem c01_crash_recover, for every event stream accepted by the protocol monitor, every prefix (crash instant) and every "
                "crash outcome of the durable disk and the pending writes (any subset, each page write whole or torn to garbage, header writes "
                "torn field-wise with an atomic god byte, each set_len applied or not): the recovery function returns a slot that is valid, "
                "whose whole tree verifies, and that is either the commit served before or the commit in flight - never an error, never a "
                "mixture (c01_never_mixture), never older than a completed durable commit (c01_durable_not_lost), and again after a crash "
                "during the repair commit (c01_recovery_idempotent). The monitor conditions (copy-on-write w.r.t. the served tree, header write "
                "discipline, 2-phase flip only after the sync, length rules) are checked on recorded real storage streams; the recovery model "
                "is compared with the real recovery on crash images; and the real recovery is run on ~38,000 crash images per quick run "
                "(incl. torn writes and second-generation crashes) against the allowed commit window.",
        "note": NOTE + "; idealisations (explicit in Model/Storage.lean, no axiom): changed page bytes fail verification and a torn slot is invalid (XXH3-128 collision freedom), single-byte atomicity; the abstraction of byte-level writes into events is trusted driver code; only the recorded histories' streams are known to be accepted by the monitor",
        "technique": "Lean 4 proof (invariant over an abstract disk with crash outcomes) + recorded-stream monitor + crash-image enumeration with the real recovery",
        "design_ref": "DESIGN.md §6 C01",
    },
    "C08": {
        "text": "Lean theorems about the transcription of the I/O error latch: once a required backend call has failed every later request is "
                "refused without reaching the backend (sticky over any request sequence), success is never reported unless the backend did "
                "the work, after close every request is refused; and the storage left behind by a run cut short after any prefix of an "
                "accepted stream is covered by C01's crash theorem (failing commit applied entirely or not at all). On the implementation a "
                "failure is injected at every (quick: sampled) index of the backend-call stream of generated workloads, once and permanently: "
                "no panic, no acknowledged commit lost, reads correct or error, writes refused after a reported error, nothing but close() "
                "reaches the backend after the latch, close exactly once, reopened contents inside the allowed window.",
        "note": NOTE + "; an absorbed best-effort eviction write failure (no caller sees an error, page stays buffered) is not counted as a storage failure; crash states of the failed run's storage beyond 'as left' are covered by C01's enumeration",
        "technique": "Lean 4 proof (latch automaton + reuse of the crash theorem) + exhaustive-by-index fault injection on the real code",
        "design_ref": "DESIGN.md §6 C08",
    },
    "C02": {
        "text": "Proven monitor (shared with C06): over any accepted trace the pages of a live reader's snapshot stay allocated and never change "
                "owner except into pending-free records of later transactions (c02_pinned_never_released / never_reused, c02_step_keeps_pinned). "
                "On the implementation every live read transaction is re-read completely after every later step (commits of every durability, "
                "aborts, restores, page reuse, resize, compaction attempts, cache sizes from 0) and compared with the contents at its begin_read; "
                "the byte fingerprint of its tree must not change; a reader begun after a commit must show that commit.",
        "note": NOTE + "; two layers: the algorithmic model Life2 (invariant proved for every reachable state of the model; its inputs are the observed tree diffs - the B-tree layer is not modelled there - and it is tied to the code by predicting every observed state of the generated histories, about 96% of states, the rest - first state of a case, completed compact() - resynchronised under a checked postcondition) and the ownership monitor (proven-monitor correspondence: `accept trace` implies the property for that trace); that the real system behaves as the model on histories that were not generated is not proved; the monitor works on page ownership, byte-level immutability of pinned pages and table contents are judged by the harness oracles (fingerprints, re-reads, recorded commit points); single-threaded histories" + "; owned guards/iterators outliving the transaction handle and thread interleavings are not yet exercised (C03 pause points planned)",
        "technique": "Lean 4 proof of a trace monitor + re-reading of live snapshots after every step",
        "design_ref": "DESIGN.md §6 C02",
    },
    "C05": {
        "text": "Lean theorems: an abandoned write transaction accepted by abortOk leaves the allocated set, every page's owner, the "
                "pending-free records and the committed/durable ids unchanged, keeps every pin valid and is a legal step. On the "
                "implementation, transactions are abandoned by abort(), drop, and commit() of a transaction poisoned by a panicking predicate, "
                "after arbitrary bodies (table writes, delete table, savepoint create/delete/restore, durability changes); the next contents, "
                "persistent-savepoint list, savepoint validity and the full page accounting must equal the state before.",
        "note": NOTE + "; two layers: the algorithmic model Life2 (invariant proved for every reachable state of the model; its inputs are the observed tree diffs - the B-tree layer is not modelled there - and it is tied to the code by predicting every observed state of the generated histories, about 96% of states, the rest - first state of a case, completed compact() - resynchronised under a checked postcondition) and the ownership monitor (proven-monitor correspondence: `accept trace` implies the property for that trace); that the real system behaves as the model on histories that were not generated is not proved; the monitor works on page ownership, byte-level immutability of pinned pages and table contents are judged by the harness oracles (fingerprints, re-reads, recorded commit points); single-threaded histories" + "; failures injected inside rename/delete/restore are covered by C08's fault sweep, not here",
        "technique": "Lean 4 proof (abandoned transactions in the ownership monitor) + before/after comparison on the real database",
        "design_ref": "DESIGN.md §6 C05",
    },
    "C07": {
        "text": "Lean theorems: pages pinned by a savepoint are kept over whole accepted traces; a page can come back from a pending-free record "
                "into the data tree only through a savepoint that still pins it (restore) or when nothing pins it. On the implementation: "
                "restore+commit of ephemeral and persistent savepoints gives exactly the contents recorded at creation, later savepoints become "
                "unusable, restore+abort changes nothing, persistent savepoints stay listed across clean reopen and crash (thorough tier: every "
                "crash image of C01's enumeration), any order of create/restore/delete/drop leaves no leak at quiescence.",
        "note": NOTE + "; two layers: the algorithmic model Life2 (invariant proved for every reachable state of the model; its inputs are the observed tree diffs - the B-tree layer is not modelled there - and it is tied to the code by predicting every observed state of the generated histories, about 96% of states, the rest - first state of a case, completed compact() - resynchronised under a checked postcondition) and the ownership monitor (proven-monitor correspondence: `accept trace` implies the property for that trace); that the real system behaves as the model on histories that were not generated is not proved; the monitor works on page ownership, byte-level immutability of pinned pages and table contents are judged by the harness oracles (fingerprints, re-reads, recorded commit points); single-threaded histories",
        "technique": "Lean 4 proof of a trace monitor + savepoint histories on the real database",
        "design_ref": "DESIGN.md §6 C07",
    },
    "C10": {
        "text": "Lean theorems: soundness of the executable format checker for all images: checkImage = ok implies the primary slot checksum is "
                "valid, and for both master trees, every user table (normal and multimap incl. inline and subtree value sets) and every "
                "internal table: every stored checksum from the root header down to each leaf equals the hash of the bytes it covers, keys "
                "strictly increasing, routing keys bound their subtrees, all leaves at one depth, stored lengths equal the entries present, no "
                "page referenced twice and no two pages overlapping; routing through the stored separators equals lookup in the sorted entry "
                "list. The checker follows only the documented format (own decoder, own XXH3-128) and is run on every image the C04/C09 "
                "generators produce after durable commits and clean closes, where its decoded contents must equal what the API returned.",
        "note": NOTE + "; here the Lean decoder IS the specification of the format; 'for every history' rests on the sampled images; only the primary slot is checked",
        "technique": "Lean 4 proof (soundness of an executable format validator) run on real committed images",
        "design_ref": "DESIGN.md §6 C10",
    },
    "C11": {
        "text": "Lean theorems: every state the monitor accepts after an open satisfies the exactly-one-owner accounting with all pins and the "
                "durable trees allocated; across a crash only durable-id monotonicity is required. On the implementation: after clean reopen, "
                "crash-reopen (full repair and quick-repair paths) and check_integrity the allocator bits equal the owner sets exactly, "
                "check_integrity returns Ok(true) with unchanged contents, and further transactions run under the same monitor. A genuine "
                "defect found by this check (check_integrity Ok(false) after an aborted growing transaction) was fixed (known_findings.json).",
        "note": NOTE + "; two layers: the algorithmic model Life2 (invariant proved for every reachable state of the model; its inputs are the observed tree diffs - the B-tree layer is not modelled there - and it is tied to the code by predicting every observed state of the generated histories, about 96% of states, the rest - first state of a case, completed compact() - resynchronised under a checked postcondition) and the ownership monitor (proven-monitor correspondence: `accept trace` implies the property for that trace); that the real system behaves as the model on histories that were not generated is not proved; the monitor works on page ownership, byte-level immutability of pinned pages and table contents are judged by the harness oracles (fingerprints, re-reads, recorded commit points); single-threaded histories" + "; 'a saved allocation snapshot is used only if it belongs to the commit being opened' is observed through the accounting after quick-repair opens, not proved",
        "technique": "Lean 4 proof of a trace monitor + exact allocator-vs-owner comparison after every kind of open",
        "design_ref": "DESIGN.md §6 C11",
    },
    "C12": {
        "text": "Lean theorems: under the explicit hypothesis that XXH3-128 is injective, two files in which a slot with the same checksum "
                "verifies have the same covered slot bytes, and two files that decode the same root page under the same root checksum decode to "
                "the same tree (induction over the checksum chain) - so a certificate can only be given for exactly the contents of one commit "
                "point; and the slot served by the recovery function is valid with a fully verifying tree. On the implementation every header "
                "byte and sampled bytes, bits, byte runs and page swaps of closed images are altered; the real open + check_integrity verdict "
                "is accepted only if Ok(_) comes with the contents of a recorded commit point and a second check after a repair is clean.",
        "note": NOTE + "; one known finding (snapshots of persistent savepoints are not verified: known_findings.json / DESIGN 0.3 F9); hash idealisation as explicit hypothesis; panics on altered files (observation O1) are counted as 'not certified'; the classification of each byte as covered or slack is not itself proved (covered_or_harmless of DESIGN remains open)",
        "technique": "Lean 4 proof (Merkle binding under hash injectivity) + corruption sweep against recorded commit points",
        "design_ref": "DESIGN.md §6 C12",
    },
    "C13": {
        "text": "Lean theorems: accounting and pin safety hold across compaction's commits, ids never go backwards. On the implementation: "
                "compact() is refused exactly when readers or savepoints exist, leaves every table's contents unchanged, never makes the file "
                "larger, and leaves exact accounting; thorough tier adds crash images inside compaction (C01's enumeration). A genuine defect "
                "found earlier (compact() could grow the file) was fixed (known_findings.json).",
        "note": NOTE + "; two layers: the algorithmic model Life2 (invariant proved for every reachable state of the model; its inputs are the observed tree diffs - the B-tree layer is not modelled there - and it is tied to the code by predicting every observed state of the generated histories, about 96% of states, the rest - first state of a case, completed compact() - resynchronised under a checked postcondition) and the ownership monitor (proven-monitor correspondence: `accept trace` implies the property for that trace); that the real system behaves as the model on histories that were not generated is not proved; the monitor works on page ownership, byte-level immutability of pinned pages and table contents are judged by the harness oracles (fingerprints, re-reads, recorded commit points); single-threaded histories" + "; 'finishes in a bounded number of passes' is only observed (the call returns), relocation is not modelled in Lean",
        "technique": "Lean 4 proof of a trace monitor + compaction histories on the real database",
        "design_ref": "DESIGN.md §6 C13",
    },
    "C17": {
        "text": "Lean theorems stating the catalog's decision logic outright, for all catalogs, names and requests: wrong kind -> is-multimap/"
                "not-multimap regardless of types; same kind but different key/value type name -> type-mismatch, same names with different "
                "fixed width/alignment -> type-definition-changed, never ok; open succeeds iff absent-and-created or everything matches and the "
                "name is not already open; open twice -> already-open while a handle lives, ok after drop (over arbitrary operation "
                "sequences); rename/delete/list semantics; abort restores the committed catalog and commit publishes the staged one; the "
                "invariant (names unique and sorted, kinds disjoint, live handles name staged tables) holds after every operation sequence. The "
                "real API (write and read paths, both kinds, 14 types incl. user-defined and colliding names, files written by redb 3.0.0) is "
                "compared answer by answer; storage release after delete is checked on the implementation (allocated pages return to level).",
        "note": NOTE + "; 'deleting a table releases all of its storage' is proved only for the model's abstract rows (c17_delete_releases_rows_partial); page-level release is judged by the harness oracle and by the C06 page accounting",
        "technique": "Lean 4 proof (catalog decision logic + inductive invariant) + differential correspondence against the real API",
        "design_ref": "DESIGN.md §6 C17",
    },
    "C18": {
        "text": "Lean theorems about the zipper specification CursorSpec for every built-in key type, map, bound and key: lower/upper bound put "
                "the gap exactly where a sorted map would, peek/next/prev return and step over the neighbours, insert_before/insert_after are "
                "accepted iff the key is strictly between the gap's neighbours and then the map equals Spec.insert with the gap after/before the "
                "new entry, remove_next/prev equal Spec.remove of the neighbour, and a whole session (any batching) equals the fold of the "
                "corresponding Spec edits. The real CursorMut/Cursor API is compared answer by answer and by committed contents with the "
                "spec (separate harness crate built with the experimental_cursor feature).",
        "note": NOTE + "; tree-level splice of buffered insert runs is not modelled (held to the spec by the correspondence run)",
        "technique": "Lean 4 proof (zipper cursor laws) + differential correspondence against the real cursor API",
        "design_ref": "DESIGN.md §6 C18",
    },
    "C14": {
        "text": "Lean theorems over all allocator states satisfying the invariant (page free at one order at most, free buddies merged, "
                "shape), all orders and indexes, with no bound on sizes: a fresh allocator satisfies it; alloc hands out an in-range block of "
                "free pages only and removes exactly those (so it is disjoint from every live block); alloc refuses only when no aligned block "
                "of that order is entirely free; alloc_lowest additionally returns the least such index; free gives back exactly the block, "
                "merges (invariant) and returns the merged order; record_alloc succeeds iff order admissible, block in range and entirely free; "
                "resize grow/shrink preserve the invariant; serialize/deserialize round trip. The model equals the real BuddyAllocator op by op "
                "(answers, free/len/trailing/highest counters, serialized bytes) on every op sequence of fixed depth over small capacities and "
                "random contract-respecting programs; disjointness/completeness/merge order are also evaluated on the implementation alone. Region level (Model/Region.lean): a model of RegionTracker + Allocators with the allocate retry loop, free, resize_to (grow and shrink), grow, try_shrink and load; the invariant TrackerSound - the tracker never reports a region full that has a free block of that order or larger, reports every index beyond the existing regions full, every region allocator satisfies the buddy invariant - holds initially and in every reachable state of every operation sequence; allocation succeeds without growing whenever some region has a suitable block, what it returns was free and lies in an existing region, freed space can be allocated again; the two defect shapes seeded at this level are counter-examples of the corresponding variants. After every state of multi-region histories the serialized tracker and allocators are decoded and judged by a checker proved equivalent to TrackerSound.",
        "note": NOTE + "; the multi-region layer (RegionTracker never hides free space, allocate retry loop, free_helper mark_free) is observed through the history harness snapshots (C06) and not yet a Lean theorem; 64-way summary levels of BtreeBitmap are modelled only through the serialized bytes",
        "technique": "Lean 4 proof (inductive invariant of the buddy allocator) + differential correspondence incl. exhaustive small op sequences",
        "design_ref": "DESIGN.md §6 C14",
    },
    "C15": {
        "text": "Lean theorems over ALL key-type descriptors (nested arbitrarily) and all valid encodings: the comparator is a total preorder "
                "respecting equality (pairs and triples), the separator of a<b is a valid encoding s with a<=s<b and len(s)<=len(a), branch "
                "separators of fixed-width types are never shortened, min_encoded_key is least. Value level: for every well-typed value v of every "
                "descriptor encode v is valid, decode (encode v) = v, byte comparison of encodings equals the natural order of the values "
                "(integers numerically, UTF-8 byte order = scalar order for strings, Option None < Some, arrays and tuples lexicographic), hence "
                "iteration order = value order, and the separator / routing contract restated over values. The model's encode / compare / "
                "fixed_width / min key are compared exactly with the real as_bytes / compare / Ord on generated values of 40 concrete types "
                "(values are passed in a canonical text form, the model's own encoder must reproduce the bytes); real separators are judged by "
                "the proved decidable contract. Proof is the right level because the quantifier is over all inputs of pure functions.",
        "note": NOTE + "; chrono types, f32/f64 and user-defined Key impls are out of scope; wellTyped carries the Rust encoder's own no-panic bounds (elements and variable arrays below 2^32 bytes); the converse 'every valid encoding is the encoding of a value' is not proved (non-canonical varints are valid)",
        "technique": "Lean 4 proof (induction over key-type descriptors) + differential correspondence",
        "design_ref": "DESIGN.md §6 C15",
    },
}
NOT_YET = {}
