"""Per-property configuration of ./check."""

BASE_TRUST = [
    "Lean 4.33.0 kernel; axioms limited to propext, Classical.choice, Quot.sound (audited by #print axioms on every run)",
    "hand-written Lean model of the named Rust code; tied to /repo only by the differential correspondence run (testing: reach = generators' reach)",
    "Rust harness /verif/harness and the cfg(redb_verif) hook layer in /repo",
    "compiled Lean driver (Lean compiler + runtime) executes the model; no theorem depends on it",
]

PROPS = {
    "C14": {
        "props_module": "RedbModel.Props.C14",
        "streams": [("alloc", [], "alloc"), ("history", ["--focus", "c14"], "history")],
        "rule": "cases = (a) every op sequence of fixed depth over a small alphabet for all capacities/initial sizes up to a bound, "
                "(b) random contract-respecting programs (alloc/alloc_lowest/free/record_alloc incl. malformed/resize/serialize round trip); "
                "a case is distinct by the hash of its request+answer lines and non-trivial if at least one allocation succeeded; second stream (region level): whole-database "
                "histories with 64 KiB regions that grow over several regions, free, shrink (compaction / close) and grow again; after every step the allocator state and the "
                "region tracker are read through the snapshot hook: a region with a free block is never reported full, a region that does not exist is never offered, exact page accounting",
        "trusted_base": BASE_TRUST + ["modelled, not verified: buddy_allocator.rs, bitmap.rs (leaf level exact; 64-way summary levels only through to_vec bytes), region.rs and its use by page_manager.rs (allocate retry loop, free, resize_to, grow, try_shrink, load) as Model/Region.lean; the region model is tied to the code at state level (decoded snapshots satisfy TrackerSound), not operation by operation"],
        "assumptions": ["client contract of the allocator: free() only for blocks handed out and not yet freed; resize never below a live block"],
        "explanation": "Lean theorems (invariant preservation, alloc soundness/completeness, free/record_alloc specs; region level: TrackerSound in every reachable state, cross-region allocation complete and sound, freed space reusable; counter-examples for the two seeded defect shapes) about the model; region-level correspondence: `rg state` lines (serialized tracker + allocators of every state of the c14 histories) decoded and judged by the proven-exact checker firstViolation; "
                       "model == implementation checked op by op incl. serialized bytes; property predicate also evaluated on the implementation alone",
    },
    "C15": {
        "props_module": "RedbModel.Props.C15",
        "streams": [("pure", [], "pure")],
        "rule": "per registered concrete key type (40 descriptors: all integer widths/signs, bool, char, (), &str, String, &[u8], &[u8;N], Uuid, "
                "Option/array/tuple nestings two deep): sorted triples of generated values (edge values, shared prefixes, multi-byte UTF-8 "
                "straddling the cut, None/Some mixes, 3- and 5-byte varint length prefixes); each case = one type; distinct by hash of its "
                "lines, non-trivial if at least one strictly ordered pair (separator exercised)",
        "trusted_base": BASE_TRUST + ["modelled, not verified: types.rs, tuple_types.rs, complex_types.rs (varint), types/uuid.rs, btree_base.rs::branch_separator"],
        "assumptions": ["chrono types, f32/f64 (not keys) and user-defined Key impls are out of scope"],
        "explanation": "Lean theorems: comparator laws on valid encodings, separator contract, min-key; value level: encode valid, decode∘encode = id, "
                       "byte order of encodings = value order (Model/KeyVal.lean); model == implementation on as_bytes (`key enc`: the model encodes the "
                       "value given as text), native Ord (`key vcmp`), compare / fixed_width / min_encoded_key exactly, separators judged by the decidable "
                       "contract sepOk (byte equality is a statistic)",
    },
    "C04": {
        "props_module": "RedbModel.Props.C04",
        "streams": [("table", [], "table")],
        "rule": "cases = (a) page 512: every insert/remove sequence of fixed depth over six byte keys whose value sizes sit on the split and "
                "merge thresholds, across two transactions; (b) random programs over three key families (u64, &[u8] with shared prefixes/empty/"
                "multi-page keys, &str with multi-byte UTF-8) using every table API of the property (insert, insert_reserve, get, get_mut, entry, "
                "remove, pop_first/last, range both directions + alternating, first/last, len, retain/retain_in, extract_if/extract_from_if with "
                "partial consumption), value sizes 0..5 pages around 1/3, 1/2 and 1 page, page sizes 512..16384, region sizes, cache sizes incl. 0, "
                "1-8 transactions with abort and reopen; distinct by hash of the lines; non-trivial if the program completed",
        "trusted_base": BASE_TRUST + ["modelled, not verified: the observable behaviour of table.rs / btree*.rs as the sorted-map Spec; the abstract B+tree routing (linear scan stands for the binary search of child_for_key)"],
        "assumptions": ["inverted ranges (lo > hi) are not generated (caller error in std collections)"],
        "explanation": "Lean: Spec is a sorted map (laws for every comparator satisfying CmpLaws), a well-formed B+tree answers lookups as its "
                       "sorted entry list; correspondence: every returned value and committed contents (hash) equal Spec; oracle: sorted vector "
                       "ordered by the implementation's own compare",
    },
    "C09": {
        "props_module": "RedbModel.Props.C09",
        "streams": [("mm", [], "mm")],
        "rule": "random programs on MultimapTable over (bytes,bytes), (u64,u64), (str,bytes): insert, bulk insert of 3..3000 values per key "
                "(inline -> subtree spill), remove, bulk remove (subtree -> inline collapse), remove_all, get with MultimapValue::len and "
                "iteration forwards/backwards/alternating, range both ways, len; value sizes 0, 8, around and above half a page; page sizes "
                "512..4096; 1-6 transactions with abort/reopen; full dump through a read transaction; distinct by hash of lines, "
                "non-trivial if the program completed",
        "trusted_base": BASE_TRUST + ["modelled, not verified: observable behaviour of multimap_table.rs / multimap_btree.rs as MultiSpec (inline vs subtree representation is not modelled; both are held to the same spec)"],
        "assumptions": ["inverted ranges are not generated"],
        "explanation": "Lean: MultiSpec laws (WF preserved, no duplicate pairs, values sorted, len = number of pairs, key vanishes with its last "
                       "value) for all comparators satisfying CmpLaws (proved for all built-in types); correspondence: every answer and the "
                       "committed contents equal MultiSpec; oracle: nested sorted vectors ordered by the implementation's compare",
    },
    "C18": {
        "props_module": "RedbModel.Props.C18",
        "harness_dir": "harness-cursor",
        "harness_bin": "vhc",
        "streams": [("cursor", [], "cursor")],
        "rule": "systematic: page 512, for every gap of a small table an ascending insert_before run and a descending insert_after run followed "
                "by an equal key (must be rejected), remove_next/remove_prev then re-insert, close or drop; random programs over u64/bytes/str "
                "keys, pages 512..4096, values 0..several pages: cursor sessions opened at every bound kind (lower/upper x Included/Excluded/"
                "Unbounded) with random peek/next/prev/insert_before/insert_after (valid, unordered and equal keys, long single-direction runs "
                "crossing the flush threshold)/remove_next/remove_prev, ended by close or drop, commit or abort, read-only cursors, ordinary "
                "table calls in between, dump after each transaction; distinct by hash of lines, non-trivial if completed without panic",
        "trusted_base": BASE_TRUST + ["modelled, not verified: observable behaviour of CursorMut/Cursor (table.rs, btree_cursor.rs) as the zipper CursorSpec; the tree-level splice (splice_insert_run) is not modelled"],
        "assumptions": ["I/O-error and poisoning paths of cursors are not exercised here (C08)"],
        "explanation": "Lean: bound gap laws, peek/next/prev laws, insert accepted iff strictly between neighbours and then equals Spec.insert, "
                       "remove_next/prev equal Spec.remove, a whole session equals the fold of Spec edits (batching unobservable); "
                       "correspondence on every cursor answer and the committed contents; sorted-vector + gap-index oracle",
    },
    "C17": {
        "props_module": "RedbModel.Props.C17",
        "streams": [("catalog", [], "catalog")],
        "rule": "cases = (a) decision table: every stored (kind, key/value pair) of 24 pairs x every requested pair x both kinds, on the write path (incl. open while still open) and the read path (typed, untyped), plus 8 pairs x 2 kinds created by redb 3.0.0 (legacy spellings) against all 24 requests; "
                "(b) random programs over 6 names x 14 types (built-in, user-defined, colliding user/built-in names, same name with different fixed width, Option/tuple/array composites of both) x both kinds: "
                "open (3 handle slots: open twice, reopen after drop), put/fill/del/len, drop, rename and delete by name and through the open handle, list, commit/abort, reopen, a read transaction held across a write transaction, read-back of every table, wrong-kind/wrong-type reads; "
                "every 5th case starts from a redb-3.0.0 file; leak probes (150-500 rows of 1.5-6 KB created, modified, renamed, deleted) and delete-everything at the end of each case; distinct by hash of lines; non-trivial if the program completed",
        "trusted_base": BASE_TRUST + ["modelled, not verified: TableNamespace/TableTreeMut (transactions.rs, table_tree.rs), InternalTableDefinition::check_match (table_tree_base.rs), TypeName and the type_name()/fixed_width() impls of the 14 types; table contents abstracted to row sets; page release judged on the implementation only"],
        "assumptions": ["stored alignment != 1 cannot be produced through the API (modelled and proved, not exercised)", "error payloads are not compared, only the variant", "durable commits only; savepoints and storage-error poisoning out of scope"],
        "explanation": "Lean: decision logic of open/rename/delete/list for all catalogs, names and requests; invariant (names unique and sorted, live handles name staged tables) by induction over arbitrary operation sequences; transaction atomicity. Correspondence: every answer incl. type names/widths, listings and committed contents equals the model. Oracle: BTreeMap catalog + allocated_pages() returning to its earlier level after delete+commit+drain (tolerance 2 pages)",
    },
    "C06": {
        "props_module": "RedbModel.Props.C06",
        "props_modules_extra": ["RedbModel.Props.Life2"],
        "streams": [("history", ["--focus", "c06"], "history")],
        "rule": 'a case is one random history of whole-database steps (write transactions of every durability / two-phase / quick-repair mix with table, multimap, delete-table and savepoint create/restore/delete operations, ending in commit, abort or drop; begin_read / drop reader; drop savepoint; clean reopen; crash-reopen; compact; check_integrity; list savepoints), page 512..4096, region 64 KiB..default, cache 0..1 GiB; after every step: committed contents vs recorded commit point, every live reader re-read vs its start contents, page accounting from the snapshot hooks, fingerprints of every pinned tree, `hist state` line for the Lean monitor; histories end with a quiescence check; distinct by hash of lines, non-trivial if completed' + " (generator weighted for C06)",
        "trusted_base": BASE_TRUST + ["modelled, not verified: the page life-cycle of transactions.rs / transaction_tracker.rs / page_manager.rs twice: as the ownership monitor Model/Lifecycle.lean (ownOk, pinOk, moveOk, stepOk, abortOk) and as the algorithmic state machine Model/Life2.lean (commit pipeline beginWrite / savepoint ops / data step / merge / release / publish / epilogue, non-durable reclaim, abort, readers, savepoints, reopen, crash) whose inputs are the observed tree diffs (the B-tree layer is an input, under a stated guard) and one oracle input (which lost system pages a quick-repair commit recorded before the allocator snapshot); owner sets are computed with redb's own tree traversal through the read-only hook (the Lean format decoder checks the same images independently in C10)"],
        "assumptions": ["single-threaded histories (interleavings are C03/C16)", "preemption inside lock-protected blocks and weak-memory effects are not modelled"],
        "explanation": 'Lean: algorithmic model (Props/Life2.lean): Inv holds initially and is preserved by every guarded step, hence in every reachable state (life2_inv_reachable); one owner per allocated page, pinned snapshots frozen, durable image intact, no page of a pin is ever handed out by a commit or its epilogue, three empty durable commits drain every record (bound tight); correspondence by prediction: the model computes the next allocated set, records, pins and tracker counts from the step and the observed tree diff and must equal what the hooks show; the proven monitor (exactly-one-owner reading of ownOk, pinned pages stay allocated and are never re-owned over any accepted trace, released pages are unpinned); every observed state/transition of the real database is fed to the monitor; oracle: exact page accounting, pins inside the allocated set, pinned page bytes unchanged, return to level at quiescence, region tracker never hides free space',
        "timeout": 7000,
    },
    "C02": {
        "props_module": "RedbModel.Props.C02",
        "props_modules_extra": ["RedbModel.Props.Life2"],
        "streams": [("history", ["--focus", "c02"], "history"), ("sched", ["--focus", "c02"], "sched")],
        "rule": 'a case is one random history of whole-database steps (write transactions of every durability / two-phase / quick-repair mix with table, multimap, delete-table and savepoint create/restore/delete operations, ending in commit, abort or drop; begin_read / drop reader; drop savepoint; clean reopen; crash-reopen; compact; check_integrity; list savepoints), page 512..4096, region 64 KiB..default, cache 0..1 GiB; after every step: committed contents vs recorded commit point, every live reader re-read vs its start contents, page accounting from the snapshot hooks, fingerprints of every pinned tree, `hist state` line for the Lean monitor; histories end with a quiescence check; distinct by hash of lines, non-trivial if completed' + " (generator weighted for C02); every third reader drops its transaction and table handles at once and lives on only through an owned range iterator (consumed three entries per later step and compared with the snapshot) and an owned value guard; second stream: the forced two-thread schedules of C03 restricted to pairs in which one call is a read or a reader drop (each schedule one evaluation)",
        "trusted_base": BASE_TRUST + ["modelled, not verified: the page life-cycle of transactions.rs / transaction_tracker.rs / page_manager.rs twice: as the ownership monitor Model/Lifecycle.lean (ownOk, pinOk, moveOk, stepOk, abortOk) and as the algorithmic state machine Model/Life2.lean (commit pipeline beginWrite / savepoint ops / data step / merge / release / publish / epilogue, non-durable reclaim, abort, readers, savepoints, reopen, crash) whose inputs are the observed tree diffs (the B-tree layer is an input, under a stated guard) and one oracle input (which lost system pages a quick-repair commit recorded before the allocator snapshot); owner sets are computed with redb's own tree traversal through the read-only hook (the Lean format decoder checks the same images independently in C10)"],
        "assumptions": ["histories are single-threaded; thread interleavings of reader and writer calls are covered by the forced schedules of the C03 harness restricted to reader-vs-anything pairs (one preemption per schedule)", "preemption inside lock-protected blocks and weak-memory effects are not modelled"],
        "explanation": 'Lean: algorithmic model: life2_pinned_frozen / life2_no_early_reuse for every reachable state (pages of the snapshot of a reader stay allocated and are not handed out); pinned snapshot pages never change owner except into later pending-free records, over whole traces; harness: every live read transaction is re-read completely after every later step of any kind and compared with the contents at its begin_read; byte fingerprint of its tree unchanged',
        "timeout": 7000,
    },
    "C05": {
        "props_module": "RedbModel.Props.C05",
        "props_modules_extra": ["RedbModel.Props.Life2"],
        "streams": [("history", ["--focus", "c05"], "history")],
        "rule": 'a case is one random history of whole-database steps (write transactions of every durability / two-phase / quick-repair mix with table, multimap, delete-table and savepoint create/restore/delete operations, ending in commit, abort or drop; begin_read / drop reader; drop savepoint; clean reopen; crash-reopen; compact; check_integrity; list savepoints), page 512..4096, region 64 KiB..default, cache 0..1 GiB; after every step: committed contents vs recorded commit point, every live reader re-read vs its start contents, page accounting from the snapshot hooks, fingerprints of every pinned tree, `hist state` line for the Lean monitor; histories end with a quiescence check; distinct by hash of lines, non-trivial if completed' + " (generator weighted for C05)",
        "trusted_base": BASE_TRUST + ["modelled, not verified: the page life-cycle of transactions.rs / transaction_tracker.rs / page_manager.rs twice: as the ownership monitor Model/Lifecycle.lean (ownOk, pinOk, moveOk, stepOk, abortOk) and as the algorithmic state machine Model/Life2.lean (commit pipeline beginWrite / savepoint ops / data step / merge / release / publish / epilogue, non-durable reclaim, abort, readers, savepoints, reopen, crash) whose inputs are the observed tree diffs (the B-tree layer is an input, under a stated guard) and one oracle input (which lost system pages a quick-repair commit recorded before the allocator snapshot); owner sets are computed with redb's own tree traversal through the read-only hook (the Lean format decoder checks the same images independently in C10)"],
        "assumptions": ["single-threaded histories (interleavings are C03/C16)", "preemption inside lock-protected blocks and weak-memory effects are not modelled"],
        "explanation": 'Lean: algorithmic model: life2_abort_no_trace (abort restores all 18 bookkeeping fields); an abandoned transaction (abortOk) leaves allocation, owners, records and ids unchanged and keeps pins valid; harness: abort / drop / poisoned commit (panicking predicate) after arbitrary bodies incl. savepoint operations; next contents, savepoint list and page accounting equal the state before',
        "timeout": 7000,
    },
    "C07": {
        "props_module": "RedbModel.Props.C07",
        "props_modules_extra": ["RedbModel.Props.Life2"],
        "streams": [("history", ["--focus", "c07"], "history"), ("crash", [], "crash", ("thorough",))],
        "rule": 'a case is one random history of whole-database steps (write transactions of every durability / two-phase / quick-repair mix with table, multimap, delete-table and savepoint create/restore/delete operations, ending in commit, abort or drop; begin_read / drop reader; drop savepoint; clean reopen; crash-reopen; compact; check_integrity; list savepoints), page 512..4096, region 64 KiB..default, cache 0..1 GiB; after every step: committed contents vs recorded commit point, every live reader re-read vs its start contents, page accounting from the snapshot hooks, fingerprints of every pinned tree, `hist state` line for the Lean monitor; histories end with a quiescence check; distinct by hash of lines, non-trivial if completed' + " (generator weighted for C07)",
        "trusted_base": BASE_TRUST + ["modelled, not verified: the page life-cycle of transactions.rs / transaction_tracker.rs / page_manager.rs twice: as the ownership monitor Model/Lifecycle.lean (ownOk, pinOk, moveOk, stepOk, abortOk) and as the algorithmic state machine Model/Life2.lean (commit pipeline beginWrite / savepoint ops / data step / merge / release / publish / epilogue, non-durable reclaim, abort, readers, savepoints, reopen, crash) whose inputs are the observed tree diffs (the B-tree layer is an input, under a stated guard) and one oracle input (which lost system pages a quick-repair commit recorded before the allocator snapshot); owner sets are computed with redb's own tree traversal through the read-only hook (the Lean format decoder checks the same images independently in C10)"],
        "assumptions": ["single-threaded histories (interleavings are C03/C16)", "preemption inside lock-protected blocks and weak-memory effects are not modelled"],
        "explanation": 'Lean: algorithmic model: life2_restore (restore + commit: data tree = the pages of the savepoint, later savepoints invalid, the pages of the savepoint still held); savepoint-pinned pages are kept over whole traces and can re-enter the data tree only through a restore of a savepoint that still pins them; harness: contents after restore+commit equal the contents recorded at creation, later savepoints invalid, persistent savepoints listed across reopen and crash, no leak at quiescence',
        "timeout": 7000,
    },
    "C11": {
        "props_module": "RedbModel.Props.C11",
        "props_modules_extra": ["RedbModel.Props.Life2"],
        "streams": [("history", ["--focus", "c11"], "history"), ("crash", [], "crash", ("thorough",))],
        "rule": 'a case is one random history of whole-database steps (write transactions of every durability / two-phase / quick-repair mix with table, multimap, delete-table and savepoint create/restore/delete operations, ending in commit, abort or drop; begin_read / drop reader; drop savepoint; clean reopen; crash-reopen; compact; check_integrity; list savepoints), page 512..4096, region 64 KiB..default, cache 0..1 GiB; after every step: committed contents vs recorded commit point, every live reader re-read vs its start contents, page accounting from the snapshot hooks, fingerprints of every pinned tree, `hist state` line for the Lean monitor; histories end with a quiescence check; distinct by hash of lines, non-trivial if completed' + " (generator weighted for C11)",
        "trusted_base": BASE_TRUST + ["modelled, not verified: the page life-cycle of transactions.rs / transaction_tracker.rs / page_manager.rs twice: as the ownership monitor Model/Lifecycle.lean (ownOk, pinOk, moveOk, stepOk, abortOk) and as the algorithmic state machine Model/Life2.lean (commit pipeline beginWrite / savepoint ops / data step / merge / release / publish / epilogue, non-durable reclaim, abort, readers, savepoints, reopen, crash) whose inputs are the observed tree diffs (the B-tree layer is an input, under a stated guard) and one oracle input (which lost system pages a quick-repair commit recorded before the allocator snapshot); owner sets are computed with redb's own tree traversal through the read-only hook (the Lean format decoder checks the same images independently in C10)"],
        "assumptions": ["single-threaded histories (interleavings are C03/C16)", "preemption inside lock-protected blocks and weak-memory effects are not modelled"],
        "explanation": 'Lean: algorithmic model: life2_crash (crash-reopen yields the durable image with allocated = owned, nothing unpersisted left); after any open the accepted state satisfies the exactly-one-owner accounting and all pins/durable pages are allocated; crash transitions only need the durable id to be monotone; harness: clean reopen, crash-reopen (repair paths), check_integrity Ok(true) and contents unchanged, further transactions after reopen under the same monitor',
        "timeout": 7000,
    },
    "C13": {
        "props_module": "RedbModel.Props.C13",
        "props_modules_extra": ["RedbModel.Props.Life2"],
        "streams": [("history", ["--focus", "c13"], "history"), ("crash", ["--focus", "c13"], "crash")],
        "rule": 'a case is one random history of whole-database steps (write transactions of every durability / two-phase / quick-repair mix with table, multimap, delete-table and savepoint create/restore/delete operations, ending in commit, abort or drop; begin_read / drop reader; drop savepoint; clean reopen; crash-reopen; compact; check_integrity; list savepoints), page 512..4096, region 64 KiB..default, cache 0..1 GiB; after every step: committed contents vs recorded commit point, every live reader re-read vs its start contents, page accounting from the snapshot hooks, fingerprints of every pinned tree, `hist state` line for the Lean monitor; histories end with a quiescence check; distinct by hash of lines, non-trivial if completed' + " (generator weighted for C13)",
        "trusted_base": BASE_TRUST + ["modelled, not verified: the page life-cycle of transactions.rs / transaction_tracker.rs / page_manager.rs twice: as the ownership monitor Model/Lifecycle.lean (ownOk, pinOk, moveOk, stepOk, abortOk) and as the algorithmic state machine Model/Life2.lean (commit pipeline beginWrite / savepoint ops / data step / merge / release / publish / epilogue, non-durable reclaim, abort, readers, savepoints, reopen, crash) whose inputs are the observed tree diffs (the B-tree layer is an input, under a stated guard) and one oracle input (which lost system pages a quick-repair commit recorded before the allocator snapshot); owner sets are computed with redb's own tree traversal through the read-only hook (the Lean format decoder checks the same images independently in C10)"],
        "assumptions": ["single-threaded histories (interleavings are C03/C16)", "preemption inside lock-protected blocks and weak-memory effects are not modelled"],
        "explanation": 'Lean: algorithmic model: life2_compact (Inv and no-pins preserved by the abort / durable-commit sequences; a completed compact() is checked by its postcondition, not predicted step by step); accounting and pin safety across the compaction commits; harness: compact() refused iff readers/savepoints exist, contents unchanged, file not larger, accounting exact afterwards',
        "timeout": 7000,
    },
    "C01": {
        "props_module": "RedbModel.Props.C01",
        "streams": [("crash", [], "crash")],
        "rule": "a case = one recorded history (write transactions of every durability / 2-phase / quick-repair mix, savepoints, compaction, clean reopen, growth and shrink; pages 512/1024, regions 64 KiB/1 MiB); "
                "crash images = every sampled cut of the storage stream x {no pending write, all, header only, all but header, torn header (god byte / one slot / layout fields), set_len lost / alone, single writes, all-but-one, torn prefixes and suffixes, random subsets, all 2^W subsets when W<=10 (thorough)}; "
                "each image is reopened with the real recovery, read back completely (tables, persistent savepoints), check_integrity'd and compared with the allowed commit window; surviving images are crashed again inside their own recovery run (second generation); "
                "`st` lines replay recorded streams through the Lean protocol monitor, `img recover` lines compare the Lean recovery model with the real recovery on crash images",
        "trusted_base": BASE_TRUST + ["modelled, not verified: TransactionalMemory::{new,commit,grow,begin_writable,...}, header finalize/select_primary_slot, Database::do_repair as Model/Recovery.lean (slot choice) and Model/Storage.lean (abstract disk, crash outcomes, protocol monitor)",
                                      "idealisations stated in Model/Storage.lean: a page whose bytes differ from what the slot's checksum chain covers fails verification, and a torn slot image is not a valid slot (stand for XXH3-128 collision freedom); a single byte (god byte) is written atomically",
                                      "the driver's abstraction of byte-level writes into abstract events (Driver/Storage.lean) and that Outcome over-approximates the harness's crash-image builder"],
        "assumptions": ["crash model of the property: any subset of the writes since the last completed sync_data, byte-granular tearing, each pending set_len persisted or not"],
        "explanation": "Lean: c01_crash_recover (every crash outcome at every prefix of every accepted stream recovers to the served commit or the commit in flight), never_mixture, durable_not_lost, recovery_idempotent; "
                       "correspondence: recorded real streams are accepted by the monitor, the recovery model agrees with the real recovery on crash images; oracle: ~38k crash images per quick run against the allowed window",
        "timeout": 7000,
    },
    "C08": {
        "props_module": "RedbModel.Props.C08",
        "streams": [("fault", [], "fault")],
        "rule": "a case = one workload (3-7 transactions mixing durability, 2-phase, quick repair, table/multimap operations, commit/abort; pages 512/1024, cache 0..1 GiB); for every sampled index k of its backend-call stream (thorough: every k) the k-th call fails once / permanently; "
                "each injected run is classified: panic, error-free commit of lost work, wrong read, begin_write accepted after a reported error, backend calls after the latch, close count, reopened contents outside the window",
        "trusted_base": BASE_TRUST + ["modelled, not verified: CheckedBackend (cached_file.rs) as Model/Latch.lean; the storage protocol as in C01"],
        "assumptions": ["a failed best-effort eviction write that is absorbed (no caller sees an error, the page stays buffered and is written later) does not count as a storage failure"],
        "explanation": "Lean: latch theorems (sticky, never reports success without the backend having done the work, refuses after close) and failed-prefix-is-crash (C01's theorem applies to the storage a failed run leaves behind); harness: exhaustive-by-index fault injection with API-level oracles; `latch` lines record what reached the backend after the failure",
        "timeout": 7000,
    },
    "C10": {
        "props_module": "RedbModel.Props.C10",
        "streams": [("table", [], "table"), ("mm", [], "mm"), ("history", ["--focus", "c10"], "history")],
        "rule": "images of the storage after durable commits and clean closes of the C04 and C09 program generators (normal tables with u64/bytes/str keys incl. shortened separators and multi-page values; multimaps with inline and subtree value sets; page sizes 512..16384) are decoded by the Lean format checker following only the documented format; each `img check` line is one evaluation; other lines of the streams are the C04/C09 correspondence; third stream: whole-database histories (focus c10: tables and a multimap, savepoints, non-durable commits, reopen, crash-reopen, compaction attempts that relocate pages and restage catalog entries) whose image after every completed compaction, every reopen and a third of the durable commits goes to the Lean checker together with the expected contents and entry counts",
        "trusted_base": BASE_TRUST + ["the Lean decoder Model/Format.lean is itself the specification of the file format (written from docs/design.md and the accessors); XXH3-128 is the Lean port Model/Xxh3.lean validated against the real function on 1109 inputs"],
        "assumptions": ["only the primary commit slot is checked; type names inside table definitions are decoded but not compared"],
        "explanation": "Lean: soundness of the executable checker (checkImage = ok implies checksums match from slot to leaves, keys strictly increasing, separators bound subtrees, uniform depth, counts match, no page twice / overlapping), routing = sorted-list lookup; correspondence: every committed image of the generators passes the checker and decodes to the contents the API returned",
    },
    "C19": {
        "props_module": "RedbModel.Props.C19",
        "streams": [("compat", [], "compat")],
        "rule": "a case = one program (u64 keys, str keys with long shared prefixes so that routing keys are shortened, multimap with subtrees, persistent savepoints, values up to 9000 bytes, 4 KiB pages) written by this code and opened by redb 3.0.0 or the reverse, cleanly closed or crash-left, then continued by the other version and read back by the first; both images also pass the Lean format checker",
        "trusted_base": BASE_TRUST + ["redb 3.0.0 from the offline cargo registry as second implementation"],
        "assumptions": ["only release 3.0.0; 4 KiB pages (3.0.0 has no page-size setter)"],
        "explanation": "Lean: routing by comparison alone finds exactly the entries on any checked tree (shortened separators are legal for an old reader), separators are valid encodings, fixed-width keys never shortened; correspondence: files cross both ways with identical contents and passing integrity checks",
    },
    "C03": {
        "props_module": "RedbModel.Props.C03",
        "streams": [("sched", [], "sched")],
        "rule": "a case = one first call (Read, WriteNone, WriteImm, Write2pc, WriteQuick, Abort, SavepointCycle, DropReader) on thread T1; evaluations = forced schedules: "
                "T1 is parked at each pause point it passes (begin_read.registered, commit stages of durable / non-durable commit, mem.commit between headers and before the "
                "root swap, epilogue, guard/savepoint/transaction drops; backend read/write occurrences sampled in quick, all in thorough) while each of the eight calls runs "
                "to completion (or blocks) on T2, then T1 resumes; writers update three tables together (version, a, b) so that a reader can tell a torn or stale state; the "
                "merged event stream (semantic events + pause points in real-time order) goes to the Lean monitor; cache 0 for even seeds, 1 MiB for odd",
        "trusted_base": BASE_TRUST + ["modelled, not verified: the write slot, root publication and reader registration of transaction_tracker.rs / page_manager.rs / db.rs as the "
                "interleaving model Model/Conc.lean (atomic actions register, readRoot, read, drop, acquire, body, publish, release; unbounded threads)",
                "pause points are placed by hand between lock acquisitions (hook H3): a preemption inside a lock-protected block or a weak-memory reordering cannot be exhibited"],
        "assumptions": ["two threads per schedule, one preemption per schedule (thorough: every pause-point occurrence)", "the harness' event order is real-time order under its own mutex"],
        "explanation": "Lean: in every execution of the model there is one writer at a time, commits become visible by one atomic publish, in version order; a reader registered after a "
                       "release reads that version or newer; reads never go backwards; monitor soundness: an accepted event stream is the projection of a model execution. "
                       "Correspondence: every forced schedule's event stream is accepted by the monitor; oracle (implementation only): cross-table invariant per read, final "
                       "version = last completed commit, pinned reader unchanged, backend contract",
        "timeout": 7000,
    },
    "C16": {
        "props_module": "RedbModel.Props.C16",
        "streams": [("mt", [], "mt")],
        "rule": "a case = one database; evaluations = (a) write transactions whose 2-4 tables are opened and modified by one thread each (random per-table streams of insert / remove / "
                "bulk ops, multimap included), with a further thread calling ephemeral_savepoint() and dropping savepoints, ending in commit or abort, each followed by the exact "
                "contents comparison per table against the stream applied alone and by the page-accounting / ownership check of the history harness (`hist state` line for the Lean "
                "monitor: no page owned twice, none leaked); (b) forced schedules through the pause points in TableNamespace::set_dirty and WriteTransaction::ephemeral_savepoint "
                "(before the lock, after the dirty check) against the other call",
        "trusted_base": BASE_TRUST + ["modelled, not verified: the `tables` lock discipline of transactions.rs as Model/Conc.lean (namespace Tables) and the per-table page ownership as namespace Multi",
                "OS-chosen interleavings inside the random transactions: which ones occur is not controlled (only the set_dirty / ephemeral_savepoint window is forced)"],
        "assumptions": ["races on the sharded UncommittedPages sets, PageTracker.tracking and the striped write buffer are exercised only by OS scheduling, not by forced preemption; data races below the lock level are out of reach of this technique"],
        "explanation": "Lean: operations on different tables commute and a table's contents are the fold of its own stream; page sets of different tables stay disjoint; with the lock, "
                       "savepoint-exists implies allocation tracking on, and the unlocked variant has a reachable counter-example (so the lock is what the property rests on). "
                       "Correspondence: forced schedules answer as the locked model; after every multi-threaded transaction the ownership monitor accepts the state; oracle: per-table contents, "
                       "savepoint usability, page accounting",
        "timeout": 7000,
    },
    "C20": {
        "props_module": "RedbModel.Props.C20",
        "streams": [("contract", [], "contract")],
        "rule": "scenarios per base database: history then drop; read-only open of clean / unclean file; failing opens (bad magic, bad geometry, 4 truncations, 3 extensions, aborted repair, an I/O error at every sampled call index of the open path of a clean and an unclean file, once / permanently); Database dropped while a write transaction is live (commit/abort/drop); read transaction outliving the Database; forced schedules: a reader parked (pause point backend.read, cache 0) before its k-th backend read while another thread drops the Database (DESIGN F1, fixed); every scenario's call stream goes through the Lean contract automaton",
        "trusted_base": BASE_TRUST + ["bounds (read/write inside the current length, never shorter than a page in use) are checked by the recording backend and the history harness on the implementation, not by a theorem about the code"],
        "assumptions": ["schedules: only the close-vs-in-flight-read race is forced (reader parked between the closed-latch test and each of its backend reads while another thread drops the Database); the other scenarios are single-threaded"],
        "explanation": "Lean: close-guard interleaving model (no call after / overlapping close in any reachable state, for any number of threads; counter-examples for the unguarded variants), automaton theorems (accepted stream = exactly one close, as the last call; read-only stream has no mutation), layout arithmetic (an in-range page lies inside the file; regions disjoint); correspondence: recorded call streams accepted; oracle: backend monitor (bounds, close count, call after close, read-only mutation)",
    },
    "C12": {
        "props_module": "RedbModel.Props.C12",
        "streams": [("corrupt", [], "corrupt")],
        "rule": "a case = one cleanly closed base image (page 512, all commit points of its history recorded); alterations: every header byte (xor 0xff; +1), every bit of the god byte, bits of the layout fields, per non-empty page sampled bytes (xor / +1, biased to the checksummed prefix), the page-type and count bytes, a run of 2-64 bytes, swaps of page pairs; "
                "each altered file is opened, check_integrity'd (twice after Ok(false)) and read back under catch_unwind; an evaluation is one alteration; accepted images are also given to the Lean recovery model",
        "trusted_base": BASE_TRUST + ["XXH3-128 is idealised as injective (explicit hypothesis of the binding theorems, never an axiom)"],
        "assumptions": ["a panic during open/check is neither a certificate nor a report: counted separately (observation O1), never a C12 violation by itself"],
        "explanation": "Lean: checksum binding (same verified slot / root checksum implies same covered bytes and same decoded tree), served slot is one whole commit point; harness: Ok(true)/Ok(false) only with the contents of a recorded commit point, second check after a repair returns Ok(true); counts per verdict class in the evidence",
        "timeout": 7000,
    },
}
