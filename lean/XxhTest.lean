import RedbModel.Model.Xxh3

/-!
Test runner for `Redb.Xxh3`: reads lines `xxh <hex | -> => <32 hex digits>` and compares
`Redb.Xxh3.checksum` against the expected little-endian bytes.
-/

def hexVal (c : UInt8) : UInt8 :=
  if c ≥ 48 && c ≤ 57 then c - 48
  else if c ≥ 97 && c ≤ 102 then c - 87
  else if c ≥ 65 && c ≤ 70 then c - 55
  else 0

/-- decode hex digits `buf[s .. e)` -/
def decodeHex (buf : ByteArray) (s e : Nat) : ByteArray := Id.run do
  let n := (e - s) / 2
  let mut out := ByteArray.emptyWithCapacity n
  for i in [0:n] do
    out := out.push ((hexVal (buf.get! (s + 2 * i)) <<< 4) ||| hexVal (buf.get! (s + 2 * i + 1)))
  return out

def main (args : List String) : IO UInt32 := do
  let path := args.headD "/verif/.cache/xxh.ops"
  let buf ← IO.FS.readBinFile path
  let t0 ← IO.monoNanosNow
  let mut pos := 0
  let mut total := 0
  let mut mismatches := 0
  let mut bad : Array Nat := #[]
  let mut maxLen := 0
  let mut maxLenNs := 0
  let mut hashNs := 0
  while pos < buf.size do
    -- find end of line
    let mut eol := pos
    while eol < buf.size && buf.get! eol != 10 do
      eol := eol + 1
    -- lines of interest start with "xxh "
    if eol ≥ pos + 4 && buf.get! pos == 120 && buf.get! (pos + 1) == 120
        && buf.get! (pos + 2) == 104 && buf.get! (pos + 3) == 32 then
      let s := pos + 4
      let mut e := s
      while e < eol && buf.get! e != 32 do
        e := e + 1
      let input := if e == s + 1 && buf.get! s == 45 then ByteArray.empty else decodeHex buf s e
      -- expect " => " then 32 hex digits
      let expected := (decodeHex buf (e + 4) eol).toList
      let h0 ← IO.monoNanosNow
      let got := Redb.Xxh3.checksum input
      let ok := got == expected && expected.length == 16
      let h1 ← IO.monoNanosNow
      hashNs := hashNs + (h1 - h0)
      if input.size ≥ maxLen then
        maxLen := input.size
        maxLenNs := h1 - h0
      total := total + 1
      if !ok then
        mismatches := mismatches + 1
        if bad.size < 10 then bad := bad.push input.size
    pos := eol + 1
  let t1 ← IO.monoNanosNow
  IO.println s!"lines: {total}  mismatches: {mismatches}"
  if mismatches > 0 then
    IO.println s!"first mismatching lengths: {bad}"
  IO.println s!"total time: {(t1 - t0) / 1000} us  (hashing only: {hashNs / 1000} us)"
  IO.println s!"longest input: {maxLen} bytes, hashed in {maxLenNs / 1000} us"
  return (if mismatches == 0 && total > 0 then 0 else 1)
