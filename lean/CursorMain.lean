import Driver.Cursor
/-! Stand-alone test entry for the C18 line driver: dispatches only `cur` lines to `curStep`.
Same loop conventions as Main.lean (lines starting with `#` and empty lines are skipped; one
output line per other input line).
`cd /verif/lean && lake env lean --run CursorMain.lean < ops | sort | uniq -c` -/
open Redb.Driver

def dispatchCur (st : CurState) (line : String) : CurState × String :=
  let (req, obs) := splitLine line
  match req with
  | "cur" :: rest => curStep st rest obs
  | _ => (st, "bad-op")

partial def loopCur (h : IO.FS.Stream) (out : IO.FS.Stream) (st : CurState) : IO Unit := do
  let line ← h.getLine
  if line.isEmpty then return ()
  if line.trimAscii.toString.isEmpty || line.startsWith "#" then
    loopCur h out st
  else
    let (st', o) := dispatchCur st line
    out.putStrLn o
    loopCur h out st'

def main : IO Unit := do
  let out ← IO.getStdout
  loopCur (← IO.getStdin) out {}
