import RedbModel.Model.Latch
import Driver.Util
/-! Line driver for the error-latch model (property C08): `latch fail <kind> later=<n> mode=<m>`
reports, for one injected failure, the kind of the backend call that failed and how many further
calls (other than close) reached the backend afterwards. -/
namespace Redb.Driver
open Redb.Latch

/-- what the model allows to reach the backend after a failed call of this kind: a required call
latches, so nothing; a write may have been a best-effort eviction write, which does not latch -/
def latchStep (req : List String) : String :=
  match req with
  | ["fail", kind, later, _] =>
    match (later.drop 6).toString.toNat? with
    | none => "bad-op"
    | some n =>
      -- the model: run a failing required call, then n further requests
      let s := (step {} (.io false)).1
      let reached := ((run s (List.replicate n (.io true))).2.filter (·.2)).length
      if kind = "write" then "ok"
      else if n = reached then "ok"
      else s!"DIFF latch after a failed {kind} the model lets {reached} calls reach the backend, the implementation {n}"
  | _ => "bad-op"

end Redb.Driver
