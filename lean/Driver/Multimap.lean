import RedbModel.Model.MultiSpec
import Driver.Table
/-! Line driver for the multimap spec (property C09). -/
namespace Redb.Driver
open Redb.Key Redb.MultiSpec

def setHash (s : VSet) : UInt64 := s.foldl (fun h v => rotl5 h ^^^ fnv64 [v]) 0

def setRepr (s : VSet) : String :=
  if s.length ≤ 4 then "(" ++ String.intercalate "|" (s.map repr) ++ ")"
  else s!"#{s.length}:{hex16 (setHash s)}"

def rotl (x : UInt64) (n : UInt64) : UInt64 := (x <<< n) ||| (x >>> (64 - n))

def mmDumpHash (m : MMap) : UInt64 :=
  m.foldl (fun h e => rotl h 7 ^^^ fnv64 [e.1] ^^^ rotl (setHash e.2) 13) 0

def natBE8 (n : Nat) : Bytes := (List.range 8).reverse.map (fun i => UInt8.ofNat (n / 256 ^ i % 256))

def nthValue (vt : KT) (n vlen : Nat) : Bytes :=
  match vt with
  | .uint 8 => natLe 8 n
  | _ => let v := natBE8 n; if vlen > 8 then v ++ List.replicate (vlen - 8) 0x2e else v

def takeMode {α : Type} (l : List α) (mode : Spec.Mode) (limit : Nat) : List α :=
  match mode with
  | .fwd => l.take limit
  | .rev => l.reverse.take limit
  | .alt =>
    let rec go (fuel : Nat) (front : Bool) (l : List α) (acc : List α) : List α :=
      match fuel with
      | 0 => acc.reverse
      | fuel + 1 =>
        match l with
        | [] => acc.reverse
        | e :: rest =>
          if front then go fuel false rest (e :: acc)
          else match l.getLast? with
            | none => acc.reverse
            | some x => go fuel true l.dropLast (x :: acc)
    go limit true l []

structure MmState where
  kt : KT := .bytes
  vt : KT := .bytes
  cur : MMap := []
  committed : MMap := []

def mmStep (st : MmState) (req obs : List String) : MmState × String :=
  let kt := st.kt
  let vt := st.vt
  let obsS := String.intercalate " " obs
  let ans (m what : String) : String := if obsS = m then "ok" else s!"DIFF {what} model={m} impl={obsS}"
  match req with
  | ["cfg", k, v, _, _, _] =>
    match parseType k, parseType v with
    | some k, some v => ({ kt := k, vt := v, cur := [], committed := [] }, "ok")
    | _, _ => (st, "bad-op")
  | ["begin"] => (st, "ok")
  | ["reopen"] => (st, "ok")
  | ["commit"] => ({ st with committed := st.cur }, "ok")
  | ["abort"] => ({ st with cur := st.committed }, "ok")
  | ["insert", k, v] =>
    match expand k, expand v with
    | some k, some v =>
      if !(valid kt k && valid vt v) then (st, "bad-op") else
      let r := insert kt vt st.cur k v
      ({ st with cur := r.1 }, ans (if r.2 then "1" else "0") "insert")
    | _, _ => (st, "bad-op")
  | ["remove", k, v] =>
    match expand k, expand v with
    | some k, some v =>
      let r := remove kt vt st.cur k v
      ({ st with cur := r.1 }, ans (if r.2 then "1" else "0") "remove")
    | _, _ => (st, "bad-op")
  | ["removeall", k] =>
    match expand k with
    | some k =>
      let r := removeAll kt st.cur k
      ({ st with cur := r.1 }, ans (setRepr r.2) "removeall")
    | none => (st, "bad-op")
  | ["get", k, mode, limit] =>
    match expand k, parseMode mode, limit.toNat? with
    | some k, some mode, some limit =>
      let s := get kt st.cur k
      (st, ans s!"{s.length} {setRepr (takeMode s mode limit)}" "get")
    | _, _, _ => (st, "bad-op")
  | ["range", lo, hi, mode, limit] =>
    match parseBound lo, parseBound hi, parseMode mode, limit.toNat? with
    | some lo, some hi, some mode, some limit =>
      let got := takeMode (range kt st.cur lo hi) mode limit
      let m := if got.isEmpty then "-" else String.intercalate "," (got.map (fun e => s!"{repr e.1}={setRepr e.2}"))
      (st, ans m "range")
    | _, _, _, _ => (st, "bad-op")
  | [which, k, start, count, vlen] =>
    if which ≠ "insertn" ∧ which ≠ "removen" then (st, "bad-op") else
    match expand k, start.toNat?, count.toNat?, vlen.toNat? with
    | some k, some start, some count, some vlen =>
      let r := (List.range count).foldl (fun (s : MMap × Nat) i =>
        let v := nthValue vt (start + i) vlen
        let x := if which = "insertn" then insert kt vt s.1 k v else remove kt vt s.1 k v
        (x.1, s.2 + (if x.2 then 1 else 0))) (st.cur, 0)
      ({ st with cur := r.1 }, ans (toString r.2) which)
    | _, _, _, _ => (st, "bad-op")
  | ["len"] => (st, ans (toString (len st.cur)) "len")
  | ["dump"] =>
    (st, ans s!"{st.committed.length} {len st.committed} {hex16 (mmDumpHash st.committed)}" "dump")
  | _ => (st, "bad-op")

end Redb.Driver
