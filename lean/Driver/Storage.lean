import Std.Data.HashMap
import RedbModel.Model.Format
import RedbModel.Model.Storage
import Driver.Recover
/-!
Protocol monitor on recorded storage streams (property C01).

    st begin <page_size> <hex of the first 320 bytes>
    st image <path.rimg>          the complete storage right after database creation (all durable)
    st h <640 hex digits>         write of the 320-byte database header at offset 0
    st w <offset> <hex bytes>     any other write
    st setlen <n>
    st sync                       a completed sync_data
    st close | st mark <text>     no storage effect
    st end

The driver keeps the byte image of the storage (all writes applied), abstracts every real
operation into an event `Redb.Storage.Ev` and runs the monitor `Redb.Storage.step` -- the same
definitions the theorems of `Props/C01.lean` are about -- on it.

Abstraction:
  * tags: the contents of order-0 pages are interned (equal bytes ⇔ equal tag; exact, no hashing
    idealisation on this side);
  * a non-header write must be page aligned and inside the file; it becomes
    `write [(page, tag of the new contents), ...]`;
  * a header write is decoded with `Format.decodeHeader`; a slot whose checksum verifies becomes
    `good id tree`, where `tree` lists the order-0 pages of all its trees (`slotPages`: master
    trees, table trees, multimap value subtrees, every page checksum verified) with the tags they
    hold in the image at the END of the sync epoch in which these slot bytes first appear (the
    write buffer flushes the header before the pages); equal slot bytes always give the same
    image (cache keyed by the 128 bytes). A valid slot whose trees cannot be decoded at that
    time (a stale slot) gets the tree `[(0, 0)]`, which never verifies. An invalid slot is `torn`;
  * `set_len n`: `n` must map onto a region layout; it becomes `setLen (n / page_size)`.
Events are buffered until the next `st sync` / `st end`, so the answers of one epoch are printed
when its sync arrives: one line per input line, `ok` or `DIFF st <condition> <detail>` for the first
violated condition (every later line of that stream answers `DIFF st rejected`).
-/
namespace Redb.Driver
open Redb.Key Redb.Format Redb.Storage Redb.Recovery

inductive RawEv where
  | hdr (bytes : ByteArray)
  | wr (off : Nat) (data : ByteArray)
  | setLen (n : Nat)
  | noop

structure StState where
  ps : Nat := 0
  img : ByteArray := ByteArray.empty
  geo : Layout := default
  intern : Std.HashMap ByteArray Nat := {}
  slots : Std.HashMap ByteArray SlotImg := {}
  mon : Option St := none
  dead : Bool := false
  buf : Array RawEv := #[]

def StState.tagOf (s : StState) (b : ByteArray) : StState × Nat :=
  match s.intern.get? b with
  | some t => (s, t)
  | none => ({ s with intern := s.intern.insert b (s.intern.size + 1) }, s.intern.size + 1)

/-- tags of the order-0 pages `first .. first + n - 1` as they are in the image -/
def StState.pageTags (s : StState) (first n : Nat) : StState × List (Nat × Nat) :=
  (List.range n).foldl (fun (acc : StState × List (Nat × Nat)) k =>
    let (s', t) := acc.1.tagOf (acc.1.img.extract ((first + k) * s.ps) ((first + k + 1) * s.ps))
    (s', acc.2 ++ [(first + k, t)])) (s, [])

/-- the abstract image of 128 slot bytes (cached) -/
def StState.slotImg (s : StState) (b : Bytes) : StState × SlotImg :=
  let key := b.toByteArray
  match s.slots.get? key with
  | some si => (s, si)
  | none =>
    let (s', si) : StState × SlotImg :=
      if !slotChecksumOk b then (s, .torn) else
      match decodeSlot b with
      | none => (s, .torn)
      | some sl =>
        let lay := (recalcLayout s.geo s.img.size).getD s.geo
        match slotPages s.img lay sl with
        | .error _ => (s, .good sl.txnId [(0, 0)])
        | .ok pages =>
          let (s', tree) := pages.foldl (fun (acc : StState × List (Nat × Nat)) p =>
            let (s', ts) := acc.1.pageTags ((lay.pageAddr p).1 / s.ps) (2 ^ p.order)
            (s', acc.2 ++ ts)) (s, [])
          (s', .good sl.txnId tree)
    ({ s' with slots := s'.slots.insert key si }, si)

def StState.headerImg (s : StState) (bytes : ByteArray) : Option (StState × HeaderImg) :=
  match decodeHeader bytes with
  | none => none
  | some h =>
    let (s1, i0) := s.slotImg h.slot0
    let (s2, i1) := s1.slotImg h.slot1
    some (s2, { god := { primary := h.primarySlot, rr := h.recoveryRequired, tp := h.twoPhaseCommit }
                slot0 := i0, slot1 := i1
                layLen := h.layout.fileLen / s.ps })

/-- apply a raw event to the byte image -/
def applyRaw (img : ByteArray) : RawEv → ByteArray
  | .hdr b => b.copySlice 0 img 0 b.size
  | .wr off d => d.copySlice 0 img off d.size
  | .setLen n => if n ≤ img.size then img.extract 0 n else img ++ zeros (n - img.size)
  | .noop => img

def slotDescr : SlotImg → String
  | .good id t => s!"good id {id} ({t.length} pages)"
  | .torn => "torn"

/-- the first violated conjunct of `evOk`, for the diagnostics -/
def evDiag (D : Disk) (i : Nat) (r : List Ev) : Ev → String
  | .sync => "sync-in-pending"
  | .write ws =>
    if !evSafe (D.hdr.slot i).pages (.write ws) then
      s!"M1-write-into-served-tree pages {(ws.map (·.1)).filter (fun p => (D.hdr.slot i).pages.contains p)} belong to the tree of the served slot {i}"
    else s!"M1-write-into-promoted-tree pages {(ws.map (·.1)).filter (fun p => (flipPages D i r).contains p)} belong to the tree of slot {other i} whose 2-phase promotion is pending"
  | .setLen n =>
    if !evSafe (D.hdr.slot i).pages (.setLen n) then s!"M4-truncates-served-tree set_len to {n} pages cuts the tree of the served slot {i}"
    else if !evSafe (flipPages D i r) (.setLen n) then s!"M4-truncates-promoted-tree set_len to {n} pages"
    else "L3-set_len-while-recovery-flag-clear"
  | .header h =>
    if !(pendHdr r).isNone then "H0-second-header-write-in-one-sync-epoch"
    else if !(h.god.primary < 2) then "H0-primary-bit"
    else if !(h.slot i = D.hdr.slot i) then
      s!"H1-served-slot-bytes-changed slot {i}: durable {slotDescr (D.hdr.slot i)}, written {slotDescr (h.slot i)}"
    else if !(decide (h.slot (other i) = D.hdr.slot (other i)) || newer (h.slot (other i)) (D.hdr.slot i).id) then
      s!"H2-new-slot-not-newer slot {other i}: written {slotDescr (h.slot (other i))}, served id {(D.hdr.slot i).id}"
    else if flips h (other i) && !(decide (h.slot (other i) = D.hdr.slot (other i))) then
      s!"H3-flip-changes-slot-bytes slot {other i}"
    else if flips h (other i) && !(newer (D.hdr.slot (other i)) (D.hdr.slot i).id) then
      s!"H3-flip-to-older-commit slot {other i}: {slotDescr (D.hdr.slot (other i))}, served id {(D.hdr.slot i).id}"
    else if flips h (other i) && !(verifiesImg D.pages D.len (D.hdr.slot (other i))) then
      s!"H3-flip-before-sync the 2-phase flip to slot {other i} is issued but its trees do not verify on the durable disk"
    else if flips h (other i) && !(r.all (evSafe (D.hdr.slot (other i)).pages)) then
      s!"H3-pending-write-into-promoted-tree slot {other i}"
    else if !(h.god.rr || (!hasSetLen r && decide (h.layLen = D.hdr.layLen) && decide (D.hdr.layLen ≤ D.len))) then
      s!"L1-recovery-flag-cleared-unsafely layLen {h.layLen} durable layLen {D.hdr.layLen} durable len {D.len} pending set_len {hasSetLen r}"
    else s!"L2-layout-changed-while-recovery-flag-clear layLen {h.layLen} durable {D.hdr.layLen}"

/-- abstract one buffered raw event (the image already holds the whole epoch) -/
def StState.abstractEv (s : StState) : RawEv → Except String (StState × Option Ev)
  | .noop => .ok (s, none)
  | .setLen n =>
    if n % s.ps != 0 || (recalcLayout s.geo n).isNone then
      .error s!"bad-length set_len {n} does not map onto a region layout"
    else .ok (s, some (.setLen (n / s.ps)))
  | .wr off d =>
    if off % s.ps != 0 || d.size % s.ps != 0 || d.size == 0 then
      .error s!"unaligned-write offset {off} length {d.size}"
    else
      let (s', ws) := (List.range (d.size / s.ps)).foldl (fun (acc : StState × List (Nat × Nat)) k =>
        let (s', t) := acc.1.tagOf (d.extract (k * s.ps) ((k + 1) * s.ps))
        (s', acc.2 ++ [(off / s.ps + k, t)])) (s, [])
      .ok (s', some (.write ws))
  | .hdr b =>
    match s.headerImg b with
    | none => .error "header-undecodable"
    | some (s', h) => .ok (s', some (.header h))

/-- process the buffered epoch (and the closing sync if `sync`): the answers, one per line -/
def StState.processEpoch (s : StState) (sync : Bool) : StState × Array String := Id.run do
  let raws := s.buf
  let mut s := { s with buf := #[] }
  let mut out : Array String := #[]
  if s.dead || s.mon.isNone then
    return (s, (Array.replicate (raws.size + (if sync then 1 else 0)) "DIFF st rejected (no live monitor state)"))
  -- writes beyond the end of the file are a violation of their own
  let mut img := s.img
  let mut bad : Option (Nat × String) := none
  let mut idx := 0
  for r in raws do
    match r with
    | .wr off d =>
      if off + d.size > img.size && bad.isNone then
        bad := some (idx, s!"write-beyond-eof offset {off} length {d.size} file length {img.size}")
    | _ => pure ()
    img := applyRaw img r
    idx := idx + 1
  s := { s with img := img }
  idx := 0
  for r in raws do
    if s.dead then
      out := out.push "DIFF st rejected (earlier violation)"
    else if bad.any (·.1 == idx) then
      s := { s with dead := true }
      out := out.push s!"DIFF st {(bad.map (·.2)).getD ""}"
    else
      match s.abstractEv r with
      | .error e =>
        s := { s with dead := true }
        out := out.push s!"DIFF st {e}"
      | .ok (s', none) =>
        s := s'
        out := out.push "ok"
      | .ok (s', some ev) =>
        s := s'
        match s.mon with
        | none => out := out.push "DIFF st rejected (no live monitor state)"
        | some m =>
          match step m ev with
          | some m' =>
            s := { s with mon := some m' }
            out := out.push "ok"
          | none =>
            s := { s with dead := true }
            out := out.push s!"DIFF st {evDiag m.D m.i m.P ev}"
    idx := idx + 1
  if sync then
    if s.dead then out := out.push "DIFF st rejected (earlier violation)"
    else match s.mon with
      | none => out := out.push "DIFF st rejected (no live monitor state)"
      | some m =>
        match step m .sync with
        | some m' =>
          s := { s with mon := some m' }
          out := out.push "ok"
        | none =>
          s := { s with dead := true }
          out := out.push s!"DIFF st S0-durable-disk-not-servable after this sync the model of the recovery fails on the durable disk"
  return (s, out)

/-- initial monitor state from the creation image -/
def StState.init (s : StState) (img : ByteArray) : StState × String :=
  match decodeHeader img with
  | none => ({ s with dead := true }, "DIFF st init header of the image undecodable")
  | some h =>
    if s.ps == 0 || h.layout.pageSize != s.ps || img.size % s.ps != 0 then
      ({ s with dead := true }, "DIFF st init page size")
    else
      let s := { s with img := img, geo := h.layout, intern := {}, slots := {}, buf := #[], dead := false }
      match s.headerImg (img.extract 0 320) with
      | none => ({ s with dead := true }, "DIFF st init header")
      | some (s, hi) =>
        let pages : PageMap := (hi.slot0.tree ++ hi.slot1.tree).map (fun e => (e.1, some e.2))
        let D : Disk := { hdr := hi, pages := pages, len := img.size / s.ps }
        match start D with
        | some m => ({ s with mon := some m }, "ok")
        | none => ({ s with dead := true, mon := none },
            s!"DIFF st init the creation image is not servable (slots {slotDescr hi.slot0} / {slotDescr hi.slot1}, primary {hi.god.primary}, layLen {hi.layLen}, len {D.len})")

def hexBytes (s : String) : Option ByteArray := (ofHex s).map (·.toByteArray)

/-- one `st` line; answers may be delayed until the epoch's sync -/
def stStep (s : StState) (req : List String) : IO (StState × Array String) := do
  match req with
  | ["begin", ps, _] =>
    match ps.toNat? with
    | some ps => pure ({ ps := ps }, #["ok"])
    | none => pure (s, #["bad-op"])
  | ["image", path] =>
    let raw ← try (some <$> IO.FS.readBinFile path) catch _ => pure none
    match raw.bind expandImage with
    | none => pure ({ s with dead := true }, #["DIFF st init malformed image container"])
    | some img =>
      let (s', o) := s.init img
      pure (s', #[o])
  | ["h", hx] =>
    match hexBytes hx with
    | some b => if b.size == 320 then pure ({ s with buf := s.buf.push (.hdr b) }, #[]) else pure (s, #["bad-op"])
    | none => pure (s, #["bad-op"])
  | ["w", off, hx] =>
    match off.toNat?, hexBytes hx with
    | some off, some b => pure ({ s with buf := s.buf.push (.wr off b) }, #[])
    | _, _ => pure (s, #["bad-op"])
  | ["setlen", n] =>
    match n.toNat? with
    | some n => pure ({ s with buf := s.buf.push (.setLen n) }, #[])
    | none => pure (s, #["bad-op"])
  | ["sync"] => pure (s.processEpoch true)
  | ["close"] => pure ({ s with buf := s.buf.push .noop }, #[])
  | "mark" :: _ => pure ({ s with buf := s.buf.push .noop }, #[])
  | ["end"] =>
    let (s', o) := s.processEpoch false
    pure ({ s' with mon := none, dead := false, img := ByteArray.empty, intern := {}, slots := {} }, o.push "ok")
  | _ => pure (s, #["bad-op"])

/-- at end of input: answers still buffered -/
def stFinish (s : StState) : Array String :=
  if s.buf.isEmpty then #[] else (s.processEpoch false).2

end Redb.Driver
