import RedbModel.Model.Conc
import Driver.Util
/-! Line driver for the interleaving monitor (properties C03 / C16), `Redb.Conc.feed`.

    sch begin first=<Call> second=<Call> park=<point>#<n>|none      → ok   (monitor reset to `mon0`)
    sch ev <T1|T2|ctl> …                                            → ok | DIFF sch <rule> <detail>
                                                                      | skip (after a DIFF of this schedule)
    sch end first=<result> second=<result> blocked=<0|1>            → ok | DIFF sch schedule …

One output line per input line. The monitor itself is `Redb.Conc.accept` run incrementally: a
schedule's `sch end` is `ok` iff `accept` of its events is `true` and the harness reported no
violation of its own. -/
namespace Redb.Driver
open Redb.Conc

structure SchState where
  mon : Mon := mon0
  /-- description of the schedule (the `sch begin` line) -/
  desc : String := ""
  /-- first rejection of this schedule -/
  bad : Option String := none
  idx : Nat := 0

def parsePoint (s : String) : Option Point :=
  match s with
  | "begin_read.registered" => some .beginReadRegistered
  | "set_dirty" => some .setDirty
  | "durable.horizon" => some .durableHorizon
  | "durable.freed" => some .durableFreed
  | "durable.before_commit" => some .durableBeforeCommit
  | "mem.commit.between_headers" => some .memBetweenHeaders
  | "mem.commit.before_swap" => some .memBeforeSwap
  | "durable.after_commit" => some .durableAfterCommit
  | "durable.before_epilogue" => some .durableBeforeEpilogue
  | "epilogue.horizon" => some .epilogueHorizon
  | "nondurable.horizon" => some .ndHorizon
  | "nondurable.before_publish" => some .ndBeforePublish
  | "nondurable.after_publish" => some .ndAfterPublish
  | "ephemeral_savepoint.enter" => some .spEnter
  | "ephemeral_savepoint.checked" => some .spChecked
  | "savepoint.drop" => some .spDrop
  | "guard.drop_read" => some .guardDropRead
  | "write.drop" => some .writeDrop
  | "db.drop" => some .dbDrop
  | _ => none

def parseTid (s : String) : Option Tid :=
  match s with
  | "T1" => some 1
  | "T2" => some 2
  | _ => none

/-- `key=<nat>` -/
def kvNat (key : String) (tok : String) : Option Nat :=
  if tok.startsWith (key ++ "=") then (tok.drop (key.length + 1)).toString.toNat? else none

def parseEvent (toks : List String) : Option Event :=
  match toks with
  | ["ctl", "release", b] => (kvNat "second-blocked" b).map fun n => .ctlRelease (n != 0)
  | th :: rest =>
    match parseTid th with
    | none => none
    | some t =>
      match rest with
      | ["read-begin", f] => (kvNat "floor" f).map (.readBegin t)
      | ["at", p] => (parsePoint p).map (.at t)
      | ["read-end", "error"] => some (.readError t)
      | ["read-end", v, v2, c, k] =>
        match kvNat "v" v, kvNat "v2" v2, kvNat "ceiling" c, kvNat "consistent" k with
        | some v, some v2, some c, some k => some (.readEnd t v v2 c (k != 0))
        | _, _, _, _ => none
      | ["write-begin"] => some (.writeBegin t)
      | ["write-started", v] => (kvNat "version" v).map (.writeStarted t)
      | ["write-end", "committed", v] => (kvNat "version" v).map fun v => .writeEnd t (.committed v)
      | ["write-end", "aborted", v] => (kvNat "version" v).map fun v => .writeEnd t (.aborted v)
      | ["write-end", "no-change"] => some (.writeEnd t .noChange)
      | ["write-end", "error"] => some (.writeEnd t .error)
      | ["drop-reader", p] => (kvNat "pinned" p).map (.dropReader t)
      | _ => none
  | _ => none

def ruleName : Rule → String
  | .protocol => "protocol"
  | .twoWriters => "two-writers"
  | .versionOrder => "version-order"
  | .floorNotCompleted => "floor-not-completed"
  | .staleRead => "stale-read"
  | .abortedRead => "aborted-read"
  | .unpublishedRead => "unpublished-read"
  | .snapshotMoved => "snapshot-moved"
  | .tornRead => "torn-read"
  | .readError => "read-error"
  | .writeError => "write-error"
  | .commitNotPublished => "commit-not-published"
  | .abortPublished => "abort-published"
  | .savepointOnDirty => "savepoint-on-dirty"
  | .unfinished => "unfinished"

def ruleText : Rule → String
  | .protocol => "this event cannot occur at this point of the thread's call in any execution of the model"
  | .twoWriters => "a write transaction started while another write transaction held the write slot"
  | .versionOrder => "the version started is not the next version"
  | .floorNotCompleted => "a commit is reported as completed that no execution of the model has released"
  | .staleRead => "the reader saw a version older than one that was certainly visible before it read its root"
  | .abortedRead => "the reader saw a version that was aborted"
  | .unpublishedRead => "the reader saw a version whose writer cannot have executed the publishing state swap"
  | .snapshotMoved => "two reads through the same read transaction saw different versions"
  | .tornRead => "the tables of one snapshot do not belong to one version"
  | .readError => "a read failed"
  | .writeError => "a write transaction failed"
  | .commitNotPublished => "commit() returned but the version is not published in any execution of the model"
  | .abortPublished => "abort() returned but the version is not aborted in any execution of the model"
  | .savepointOnDirty => "an ephemeral savepoint passed the dirty check in a transaction that had opened a table"
  | .unfinished => "a call of T1 or T2 cannot have ended in any execution of the model"

/-- field `key=` of the `sch end` line -/
def findField (key : String) (toks : List String) : String :=
  match toks.find? (·.startsWith (key ++ "=")) with
  | some t => (t.drop (key.length + 1)).toString
  | none => ""

def schStep (st : SchState) (req : List String) : SchState × String :=
  match req with
  | "begin" :: rest => ({ mon := mon0, desc := " ".intercalate rest, bad := none, idx := 0 }, "ok")
  | "ev" :: rest =>
    match st.bad with
    | some _ => ({ st with idx := st.idx + 1 }, "skip")
    | none =>
      match parseEvent rest with
      | none =>
        let msg := s!"DIFF sch parse unknown event `{" ".intercalate rest}` ({st.desc})"
        ({ st with bad := some msg, idx := st.idx + 1 }, msg)
      | some e =>
        match feed st.mon e with
        | .ok m => ({ st with mon := m, idx := st.idx + 1 }, "ok")
        | .error r =>
          let msg := s!"DIFF sch {ruleName r} event {st.idx} `{" ".intercalate rest}`: {ruleText r} ({st.desc})"
          ({ st with bad := some msg, idx := st.idx + 1 }, msg)
  | "end" :: rest =>
    let first := findField "first" rest
    let second := findField "second" rest
    let out :=
      match st.bad with
      | some msg => s!"DIFF sch schedule rejected: {msg}"
      | none =>
        if first.startsWith "VIOLATION" || second.startsWith "VIOLATION" then
          s!"DIFF sch schedule harness-violation first={first} second={second} ({st.desc})"
        else if !st.mon.finished then
          s!"DIFF sch schedule unfinished: {ruleText .unfinished} ({st.desc})"
        else "ok"
    ({}, out)
  | _ => (st, "bad-op")

end Redb.Driver
