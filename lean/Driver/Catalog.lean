import RedbModel.Model.Catalog
import Driver.Util
/-! Line driver for the table catalog model (property C17): replays the `cat` lines of
`harness/src/catalog.rs` on `Redb.Catalog` and compares every answer. -/
namespace Redb.Driver
open Redb.Catalog

namespace Cat

def fnv64 (bs : List UInt8) : UInt64 :=
  bs.foldl (fun (h : UInt64) b => (h ^^^ b.toUInt64) * 0x00000100000001b3) 0xcbf29ce484222325

def hex16 (x : UInt64) : String :=
  let n := x.toNat
  String.ofList ((List.range 16).reverse.map (fun i => hexDigit (n / 16 ^ i % 16)))

def le8 (n : Nat) : List UInt8 := (List.range 8).map (fun i => UInt8.ofNat (n / 256 ^ i % 256))

def rowsHash (c : Contents) : UInt64 :=
  fnv64 (c.flatMap (fun r => le8 r.1 ++ le8 r.2.1 ++ le8 r.2.2))

def nameOf (s : String) : Name := s.toUTF8.toList
def showName (n : Name) : String := String.fromUTF8! (ByteArray.mk n.toArray)

def namesRepr (l : List Name) : String :=
  if l.isEmpty then "-" else String.intercalate "," (l.map showName)

def parseKind (s : String) : Option Kind :=
  if s = "normal" then some .normal else if s = "multimap" then some .multimap else none

/-- the type tokens of the harness -/
def parseTy (s : String) : Option Ty :=
  match s with
  | "u64" => some .u64
  | "u32" => some .u32
  | "bytes" => some .bytes
  | "str" => some .str
  | "string" => some .string
  | "user" => some (.user "UserT" (some 8))
  | "user4" => some (.user "UserT" (some 4))
  | "userv" => some (.user "UserT" none)
  | "useru32" => some (.user "u32" (some 4))
  | "optu32" => some (.option .u32)
  | "optuser" => some (.option (.user "u32" (some 4)))
  | "tupf" => some (.tuple2 .u64 .u32)
  | "tupuser" => some (.tuple2 .u64 (.user "u32" (some 4)))
  | "tupv" => some (.tuple2 .u64 .bytes)
  | "arr4" => some (.array .u8 4)
  | "arr4r" => some (.bytesRef 4)
  | _ => none

def parseReq (kind kt vt : String) : Option Request :=
  match parseKind kind, parseTy kt, parseTy vt with
  | some k, some a, some b => some { kind := k, key := a.desc, val := b.desc }
  | _, _, _ => none

def outcomeTag : Outcome → String
  | .ok => "ok"
  | .typeMismatch => "type-mismatch"
  | .isMultimap => "is-multimap"
  | .notMultimap => "not-multimap"
  | .typeDefinitionChanged => "type-definition-changed"
  | .doesNotExist => "does-not-exist"
  | .tableExists => "exists"
  | .alreadyOpen => "already-open"

def delTag : DelResult → String
  | .removed => "true"
  | .absent => "false"
  | .refused e => outcomeTag e

def fillW (i : Nat) : Nat := i * 2654435761 % 16777216

def optWidth : Option Nat → String
  | some w => toString w
  | none => "-"

def oldRepr : List Row → String
  | [] => "none"
  | r :: _ => s!"{r.2.1}:{r.2.2}"

/-- one `put` on the contents of a table: new contents and the answer -/
def putRow (info : TableInfo) (c : Contents) (i w l : Nat) : Contents × String :=
  let l := if info.valWidth.isSome then 0 else l
  match info.kind with
  | .multimap =>
    let p := rowInsert c (i, w, l)
    (p.1, if p.2 then "new" else "dup")
  | .normal =>
    let old := rowsOfKey c i
    ((rowInsert (dropKey c i) (i, w, l)).1, oldRepr old)

def fillRows (info : TableInfo) (c : Contents) (start count l : Nat) : Contents × Nat :=
  (List.range count).foldl (fun (acc : Contents × Nat) j =>
    let i := start + j
    let p := putRow info acc.1 i (fillW i) l
    (p.1, acc.2 + (if p.2 = "none" || p.2 = "new" then 1 else 0))) (c, 0)

end Cat
open Cat

structure CatState where
  st : State := {}
  slots : List (Option Name) := [none, none, none]
  /-- the committed catalog when the held read transaction began -/
  snapshot : Catalog := []

def catAnswer (obs : List String) (m : String) (what : String) : String :=
  if String.intercalate " " obs = m then "ok" else s!"DIFF {what} model={m} impl={String.intercalate " " obs}"

def slotName (cs : CatState) (s : Nat) : Option Name := (cs.slots.getD s none)

def setSlot (cs : CatState) (s : Nat) (v : Option Name) : CatState :=
  { cs with slots := cs.slots.set s v }

/-- drop the handle held in a slot (if any) -/
def closeSlot (cs : CatState) (s : Nat) : CatState × Bool :=
  match slotName cs s with
  | some n => ({ (setSlot cs s none) with st := closeHandle cs.st n }, true)
  | none => (cs, false)

def withContents (cs : CatState) (slot : String)
    (f : TableInfo → Contents → Contents × String) (what : String) (obs : List String) : CatState × String :=
  match slot.toNat? with
  | none => (cs, "bad-op")
  | some s =>
    match slotName cs s with
    | none => (cs, catAnswer obs "noslot" what)
    | some n =>
      match lookup cs.st.staged n with
      | none => (cs, s!"DIFF {what} model=<open name missing from the catalog>")
      | some info =>
        let r := f info info.contents
        ({ cs with st := modifyContents cs.st n (fun _ => r.1) }, catAnswer obs r.2 what)

/-- `list_tables` of a read transaction on the catalog it pins -/
def readList (cs : CatState) (c : Catalog) (kind : String) (obs : List String) : CatState × String :=
  match parseKind kind with
  | some k => (cs, catAnswer obs (namesRepr (listOf c k)) "rlist")
  | none => (cs, "bad-op")

/-- typed open + full read of a read transaction on the catalog it pins -/
def readTyped (cs : CatState) (c : Catalog) (name kind kt vt : String) (obs : List String) : CatState × String :=
  match parseReq kind kt vt with
  | some r =>
    let m :=
      match readOpen c (nameOf name) r, lookup c (nameOf name) with
      | .ok, some info => s!"{info.contents.length} {hex16 (rowsHash info.contents)}"
      | e, _ => outcomeTag e
    (cs, catAnswer obs m "ropen")
  | none => (cs, "bad-op")

def catStep (cs : CatState) (req obs : List String) : CatState × String :=
  match req with
  | "new" :: _ => ({}, "ok")
  | ["typedef", t] =>
    match parseTy t with
    | some ty => (cs, catAnswer obs s!"{toHex ty.typeName.name.toUTF8.toList} {optWidth ty.fixedWidth}" "typedef")
    | none => (cs, "bad-op")
  | ["legacy", name, kind, kt, vt, n] =>
    match parseKind kind, parseTy kt, parseTy vt, n.toNat? with
    | some k, some a, some b, some n =>
      let info : TableInfo :=
        { kind := k, keyType := a.legacyDesc.tn, valType := b.legacyDesc.tn,
          keyWidth := a.fixedWidth, valWidth := b.fixedWidth,
          contents := (List.range n).map (fun i => (i, fillW i, 0)) }
      let c := insert cs.st.committed (nameOf name) info
      ({ cs with st := { committed := c, staged := c, openNames := [] } }, "ok")
    | _, _, _, _ => (cs, "bad-op")
  | ["begin"] | ["reopen"] | ["drain"] | ["rrelease"] => (cs, "ok")
  | ["rhold"] => ({ cs with snapshot := cs.st.committed }, "ok")
  | "stat" :: _ => (cs, "ok")
  | ["open", slot, name, kind, kt, vt] =>
    match slot.toNat?, parseReq kind kt vt with
    | some s, some r =>
      let cs := (closeSlot cs s).1
      let res := openTable cs.st (nameOf name) r
      let cs := { cs with st := res.1 }
      let cs := if res.2 = .ok then setSlot cs s (some (nameOf name)) else cs
      (cs, catAnswer obs (outcomeTag res.2) "open")
    | _, _ => (cs, "bad-op")
  | ["drop", slot] =>
    match slot.toNat? with
    | some s =>
      let r := closeSlot cs s
      (r.1, catAnswer obs (if r.2 then "ok" else "noslot") "drop")
    | none => (cs, "bad-op")
  | ["put", slot, i, w, l] =>
    match i.toNat?, w.toNat?, l.toNat? with
    | some i, some w, some l => withContents cs slot (fun info c => putRow info c i w l) "put" obs
    | _, _, _ => (cs, "bad-op")
  | ["fill", slot, start, count, l] =>
    match start.toNat?, count.toNat?, l.toNat? with
    | some start, some count, some l =>
      withContents cs slot (fun info c => let r := fillRows info c start count l; (r.1, toString r.2)) "fill" obs
    | _, _, _ => (cs, "bad-op")
  | ["del", slot, i] =>
    match i.toNat? with
    | some i =>
      withContents cs slot (fun info c =>
        let old := rowsOfKey c i
        (dropKey c i, if info.kind = .multimap then toString old.length else oldRepr old)) "del" obs
    | none => (cs, "bad-op")
  | ["len", slot] => withContents cs slot (fun _ c => (c, toString c.length)) "len" obs
  | ["rename", kind, a, b] =>
    match parseKind kind with
    | some k =>
      let r := rename cs.st k (nameOf a) (nameOf b)
      ({ cs with st := r.1 }, catAnswer obs (outcomeTag r.2) "rename")
    | none => (cs, "bad-op")
  | ["renameh", slot, b] =>
    match slot.toNat? with
    | some s =>
      match slotName cs s with
      | none => (cs, catAnswer obs "noslot" "renameh")
      | some n =>
        let kind := ((lookup cs.st.staged n).map (·.kind)).getD .normal
        let cs := (closeSlot cs s).1
        let r := rename cs.st kind n (nameOf b)
        ({ cs with st := r.1 }, catAnswer obs (outcomeTag r.2) "renameh")
    | none => (cs, "bad-op")
  | ["delete", kind, a] =>
    match parseKind kind with
    | some k =>
      let r := delete cs.st k (nameOf a)
      ({ cs with st := r.1 }, catAnswer obs (delTag r.2) "delete")
    | none => (cs, "bad-op")
  | ["deleteh", slot] =>
    match slot.toNat? with
    | some s =>
      match slotName cs s with
      | none => (cs, catAnswer obs "noslot" "deleteh")
      | some n =>
        let kind := ((lookup cs.st.staged n).map (·.kind)).getD .normal
        let cs := (closeSlot cs s).1
        let r := delete cs.st kind n
        ({ cs with st := r.1 }, catAnswer obs (delTag r.2) "deleteh")
    | none => (cs, "bad-op")
  | ["list", kind] =>
    match parseKind kind with
    | some k => (cs, catAnswer obs (namesRepr (list cs.st k)) "list")
    | none => (cs, "bad-op")
  | ["commit"] => ({ cs with st := commit cs.st, slots := [none, none, none] }, catAnswer obs "ok" "commit")
  | ["abort"] => ({ cs with st := abort cs.st, slots := [none, none, none] }, catAnswer obs "ok" "abort")
  | ["rlist", kind] => readList cs cs.st.committed kind obs
  | ["hlist", kind] => readList cs cs.snapshot kind obs
  | ["ropen", name, kind, kt, vt] => readTyped cs cs.st.committed name kind kt vt obs
  | ["hopen", name, kind, kt, vt] => readTyped cs cs.snapshot name kind kt vt obs
  | ["ruopen", name, kind] =>
    match parseKind kind with
    | some k =>
      let m :=
        match readOpenUntyped cs.st.committed (nameOf name) k, lookup cs.st.committed (nameOf name) with
        | .ok, some info => toString info.contents.length
        | e, _ => outcomeTag e
      (cs, catAnswer obs m "ruopen")
    | none => (cs, "bad-op")
  | _ => (cs, "bad-op")

end Redb.Driver
