import RedbModel.Model.Format
import Driver.Table
import Driver.Multimap
/-!
Line driver for the file-format decoder (property C10).

    img check <path> <page_size> <when> <tablespec> [<tablespec> ...]

`<path>` is a sparse image: `RIMG` ‖ total_len u64 ‖ n u32 ‖ n × (offset u64 ‖ len u32 ‖ bytes);
bytes not covered are zero. Tablespecs:
  `name:normal:<ktype>:<vtype>:<count>:<hash16>`            (hash = `dumpHash`)
  `name:multimap:<ktype>:<vtype>:<nkeys>:<npairs>:<hash16>` (hash = `mmDumpHash`)
Answer: `ok` or `DIFF img <conjunct> <detail>`.
-/
namespace Redb.Driver
open Redb.Key Redb.Format

def parseHex16 (s : String) : Option UInt64 :=
  if s.length != 16 then none else
  s.toList.foldl (fun acc c =>
    match acc, hexVal c with
    | some a, some v => some (a * 16 + UInt64.ofNat v)
    | _, _ => none) (some 0)

def parseTableSpec (tok : String) : Option TableSpec :=
  match tok.splitOn ":" with
  | [name, "normal", k, v, count, hash] =>
    match parseType k, parseType v, count.toNat?, parseHex16 hash with
    | some kt, some vt, some n, some h =>
      some { name := name, multimap := false, kt := kt, vt := vt, descr := tok
             contentsOk := fun c =>
               match c with
               | .normal es => es.length == n && dumpHash es == h
               | .multimap _ => false }
    | _, _, _, _ => none
  | [name, "multimap", k, v, nkeys, npairs, hash] =>
    match parseType k, parseType v, nkeys.toNat?, npairs.toNat?, parseHex16 hash with
    | some kt, some vt, some nk, some np, some h =>
      some { name := name, multimap := true, kt := kt, vt := vt, descr := tok
             contentsOk := fun c =>
               match c with
               | .multimap es => es.length == nk && MultiSpec.len es == np && mmDumpHash es == h
               | .normal _ => false }
    | _, _, _, _, _ => none
  | _ => none

def leU (b : ByteArray) (off n : Nat) : Nat := leNat (b.extract off (off + n)).toList

/-- `n` zero bytes, by doubling -/
partial def zeros (n : Nat) : ByteArray :=
  let rec go (z : ByteArray) : ByteArray := if z.size ≥ n then z.extract 0 n else go (z ++ z)
  if n = 0 then ByteArray.empty else go (ByteArray.mk #[0])

/-- expand the sparse image into the full byte string -/
partial def expandImage (raw : ByteArray) : Option ByteArray :=
  if raw.size < 16 || (raw.extract 0 4).toList != [0x52, 0x49, 0x4D, 0x47] then none else
  let total := leU raw 4 8
  let n := leU raw 12 4
  let rec go (i off : Nat) (img : ByteArray) : Option ByteArray :=
    if i = n then (if off = raw.size then some img else none) else
    if off + 12 > raw.size then none else
    let o := leU raw off 8
    let len := leU raw (off + 8) 4
    if off + 12 + len > raw.size || o + len > total then none
    else go (i + 1) (off + 12 + len) (raw.copySlice (off + 12) img o len)
  go 0 16 (zeros total)

def imgStep (req : List String) : IO String := do
  match req with
  | "check" :: path :: ps :: when_ :: specs =>
    match ps.toNat?, specs.mapM parseTableSpec with
    | some pageSize, some specs =>
      let raw ← try (some <$> IO.FS.readBinFile path) catch _ => pure none
      match raw with
      | none => pure "bad-op"
      | some raw =>
        match expandImage raw with
        | none => pure s!"DIFF img decode {path}: malformed image container"
        | some img =>
          match checkImage img pageSize specs with
          | .error e => pure e
          | .ok () =>
            -- a clean close clears the recovery_required bit of the god byte (header.rs)
            if when_ == "close" && ((decodeHeader img).map (·.recoveryRequired)).getD true then
              pure "DIFF img decode page 0: recovery_required is set after a clean close"
            else pure "ok"
    | _, _ => pure "bad-op"
  | _ => pure "bad-op"

end Redb.Driver
