import RedbModel.Model.Spec
import Driver.Util
import Driver.Key
/-! Line driver for the table spec (property C04). -/
namespace Redb.Driver
open Redb.Key Redb.Spec

def fnv64 (parts : List Bytes) : UInt64 :=
  parts.foldl (fun h p => p.foldl (fun (h : UInt64) b => (h ^^^ b.toUInt64) * 0x00000100000001b3) h)
    0xcbf29ce484222325

def hex16 (x : UInt64) : String :=
  let n := x.toNat
  String.ofList ((List.range 16).reverse.map (fun i => hexDigit (n / 16 ^ i % 16)))

def repr (b : Bytes) : String :=
  if b.length ≤ 24 then hexOrDash b else s!"L{b.length}H{hex16 (fnv64 [b])}"

/-- hex, "-" or a pattern `p<len>x<seed>` -/
def expand (tok : String) : Option Bytes :=
  if tok.startsWith "p" then
    match (tok.drop 1).toString.splitOn "x" with
    | [l, s] =>
      match l.toNat?, s.toNat? with
      | some len, some seed => some ((List.range len).map (fun i => UInt8.ofNat ((i * 31 + seed) % 256)))
      | _, _ => none
    | _ => none
  else ofHex tok

def parseBound (tok : String) : Option Bound :=
  if tok = "u" then some .unb
  else if tok.startsWith "i" then (ofHex (tok.drop 1).toString).map .incl
  else if tok.startsWith "e" then (ofHex (tok.drop 1).toString).map .excl
  else none

def parseMode (s : String) : Option Mode :=
  if s = "fwd" then some .fwd else if s = "rev" then some .rev else if s = "alt" then some .alt else none

def optRepr : Option Bytes → String
  | some b => repr b
  | none => "none"
def pairRepr : Option Entry → String
  | some (k, v) => s!"{repr k}={repr v}"
  | none => "none"
def listRepr (l : List Entry) : String :=
  if l.isEmpty then "-" else String.intercalate "," (l.map (fun e => s!"{repr e.1}={repr e.2}"))

def predOf (m r : Nat) (k v : Bytes) : Bool := (fnv64 [k, v]).toNat % m < r

def rotl5 (x : UInt64) : UInt64 := (x <<< 5) ||| (x >>> 59)

def dumpHash (l : List Entry) : UInt64 :=
  l.foldl (fun h e => rotl5 h ^^^ fnv64 [e.1, [61], e.2]) 0

structure TblState where
  kt : KT := .bytes
  cur : Map := []
  committed : Map := []

def answer (obs : List String) (m : String) (what : String) : String :=
  if obs = [m] then "ok" else s!"DIFF {what} model={m} impl={String.intercalate " " obs}"

def tblStep (st : TblState) (req obs : List String) : TblState × String :=
  let t := st.kt
  match req with
  | ["cfg", kt, _, _, _] =>
    match parseType kt with
    | some k => ({ kt := k, cur := [], committed := [] }, "ok")
    | none => (st, "bad-op")
  | ["begin"] => (st, "ok")
  | ["reopen"] => (st, "ok")
  | ["commit"] => ({ st with committed := st.cur }, "ok")
  | ["abort"] => ({ st with cur := st.committed }, "ok")
  | ["insert", k, v] =>
    match expand k, expand v with
    | some k, some v =>
      if !valid t k then (st, "bad-op") else
      let r := insert t st.cur k v
      ({ st with cur := r.1 }, answer obs (optRepr r.2) "insert")
    | _, _ => (st, "bad-op")
  | ["getmut", k, v] =>
    match expand k, expand v with
    | some k, some v =>
      match get t st.cur k with
      | some _ => ({ st with cur := (insert t st.cur k v).1 }, answer obs "found" "getmut")
      | none => (st, answer obs "none" "getmut")
    | _, _ => (st, "bad-op")
  | ["reserve", k, len, seed] =>
    match expand k, expand s!"p{len}x{seed}" with
    | some k, some v => ({ st with cur := (insert t st.cur k v).1 }, answer obs "ok" "reserve")
    | _, _ => (st, "bad-op")
  | ["get", k] =>
    match expand k with
    | some k => (st, answer obs (optRepr (get t st.cur k)) "get")
    | none => (st, "bad-op")
  | ["remove", k] =>
    match expand k with
    | some k =>
      let r := remove t st.cur k
      ({ st with cur := r.1 }, answer obs (optRepr r.2) "remove")
    | none => (st, "bad-op")
  | ["popfirst"] =>
    let r := popFirst st.cur
    ({ st with cur := r.1 }, answer obs (pairRepr r.2) "popfirst")
  | ["poplast"] =>
    let r := popLast st.cur
    ({ st with cur := r.1 }, answer obs (pairRepr r.2) "poplast")
  | ["first"] => (st, answer obs (pairRepr st.cur.head?) "first")
  | ["last"] => (st, answer obs (pairRepr st.cur.getLast?) "last")
  | ["len"] => (st, answer obs (toString st.cur.length) "len")
  | ["range", lo, hi, mode, limit] =>
    match parseBound lo, parseBound hi, parseMode mode, limit.toNat? with
    | some lo, some hi, some mode, some limit =>
      (st, answer obs (listRepr (consume (range t st.cur lo hi) mode limit)) "range")
    | _, _, _, _ => (st, "bad-op")
  | ["retain", lo, hi, m, r] =>
    match parseBound lo, parseBound hi, m.toNat?, r.toNat? with
    | some lo, some hi, some m, some r =>
      ({ st with cur := retainIn t st.cur lo hi (predOf m r) }, answer obs "ok" "retain")
    | _, _, _, _ => (st, "bad-op")
  | ["extract", lo, hi, m, r, mode, limit] =>
    match parseBound lo, parseBound hi, m.toNat?, r.toNat?, parseMode mode, limit.toNat? with
    | some lo, some hi, some m, some r, some mode, some limit =>
      let res := extractIf t st.cur lo hi (predOf m r) mode limit
      ({ st with cur := res.1 }, answer obs (listRepr res.2) "extract")
    | _, _, _, _, _, _ => (st, "bad-op")
  | ["entry", k, "orinsert", v] =>
    match expand k, expand v with
    | some k, some v =>
      match get t st.cur k with
      | some old => (st, answer obs (repr old) "entry-orinsert")
      | none => ({ st with cur := (insert t st.cur k v).1 }, answer obs (repr v) "entry-orinsert")
    | _, _ => (st, "bad-op")
  | ["entry", k, "modify", v] =>
    match expand k, expand v with
    | some k, some v =>
      match get t st.cur k with
      | some _ => ({ st with cur := (insert t st.cur k v).1 }, answer obs "occupied" "entry-modify")
      | none => (st, answer obs "vacant" "entry-modify")
    | _, _ => (st, "bad-op")
  | ["entry", k, "remove"] =>
    match expand k with
    | some k =>
      let r := remove t st.cur k
      ({ st with cur := r.1 }, answer obs (match r.2 with | some v => repr v | none => "vacant") "entry-remove")
    | none => (st, "bad-op")
  | ["dump"] =>
    (st, answer [String.intercalate " " obs] s!"{st.committed.length} {hex16 (dumpHash st.committed)}" "dump")
  | _ => (st, "bad-op")

end Redb.Driver
