/-! Shared helpers of the line-protocol driver (no imports beyond core). -/
namespace Redb.Driver

def hexDigit (n : Nat) : Char :=
  if n < 10 then Char.ofNat (48 + n) else Char.ofNat (87 + n)

def toHex (bs : List UInt8) : String :=
  String.ofList (bs.flatMap (fun b => [hexDigit (b.toNat / 16), hexDigit (b.toNat % 16)]))

def hexVal (c : Char) : Option Nat :=
  if '0' ≤ c ∧ c ≤ '9' then some (c.toNat - 48)
  else if 'a' ≤ c ∧ c ≤ 'f' then some (c.toNat - 87)
  else if 'A' ≤ c ∧ c ≤ 'F' then some (c.toNat - 55)
  else none

/-- "-" denotes the empty byte string -/
def ofHex (s : String) : Option (List UInt8) :=
  if s = "-" then some [] else
  let rec go (cs : List Char) (acc : List UInt8) : Option (List UInt8) :=
    match cs with
    | [] => some acc.reverse
    | [_] => none
    | a :: b :: rest =>
      match hexVal a, hexVal b with
      | some x, some y => go rest (UInt8.ofNat (16 * x + y) :: acc)
      | _, _ => none
  go s.toList []

def hexOrDash (bs : List UInt8) : String := if bs.isEmpty then "-" else toHex bs

def optNat (o : Option Nat) : String :=
  match o with
  | some n => toString n
  | none => "none"

def parseOptNat (s : String) : Option (Option Nat) :=
  if s = "none" then some none else s.toNat?.map some

/-- split a line at " => " into request tokens and observed tokens -/
def splitLine (line : String) : List String × List String :=
  let toks := (line.trimAscii.toString.splitOn " ").filter (· ≠ "")
  let req := toks.takeWhile (· ≠ "=>")
  let obs := (toks.dropWhile (· ≠ "=>")).drop 1
  (req, obs)

end Redb.Driver
