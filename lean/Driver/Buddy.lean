import RedbModel.Model.Buddy
import Driver.Util
/-! Line driver for the buddy allocator model (property C14). -/
namespace Redb.Driver
open Redb.Buddy

def bitsStr (f : List Bits) : String :=
  String.intercalate "/" (f.map (fun bs => String.ofList (bs.map (fun b => if b then '1' else '0'))))

def buddyStep (st : Option Buddy) (req obs : List String) : Option Buddy × String :=
  match req, st with
  | ["new", n, c], _ =>
    match n.toNat?, c.toNat? with
    | some n, some c => if c = 0 ∨ n > c then (st, "bad-op") else (some (Buddy.new n c), "ok")
    | _, _ => (st, "bad-op")
  | ["alloc", o], some b =>
    match o.toNat?, obs with
    | some o, [r] =>
      match parseOptNat r with
      | none => (st, "bad-op")
      | some none =>
        match b.alloc o with
        | none => (st, "ok")
        | some (i, _) => (st, s!"DIFF alloc-refused model={i} impl=none")
      | some (some i) =>
        match b.alloc o with
        | some (j, b') =>
          if i = j then (some b', "ok")
          else match b.recordAlloc i o with
            | some b'' => (some b'', "ok-alt")
            | none => (st, s!"DIFF alloc-illegal model={j} impl={i}")
        | none => (st, s!"DIFF alloc-from-nothing model=none impl={i}")
    | _, _ => (st, "bad-op")
  | ["lowest", o], some b =>
    match o.toNat?, obs with
    | some o, [r] =>
      match b.allocLowest o with
      | none => (st, if r = "none" then "ok" else s!"DIFF lowest model=none impl={r}")
      | some (j, b') => (some b', if r = toString j then "ok" else s!"DIFF lowest model={j} impl={r}")
    | _, _ => (st, "bad-op")
  | ["free", p, o], some b =>
    match p.toNat?, o.toNat?, obs with
    | some p, some o, [r] =>
      if o > b.maxOrder ∨ p ≥ lenAt b.free o ∨ !getBit b.free o p then (st, "bad-op") else
      let (b', ord) := b.freeBlock p o
      (some b', if r = toString ord then "ok" else s!"DIFF free-order model={ord} impl={r}")
    | _, _, _ => (st, "bad-op")
  | ["record", p, o], some b =>
    match p.toNat?, o.toNat?, obs with
    | some p, some o, [r] =>
      match b.recordAlloc p o with
      | none => (st, if r = "0" then "ok" else s!"DIFF record model=0 impl={r}")
      | some b' => (some b', if r = "1" then "ok" else s!"DIFF record model=1 impl={r}")
    | _, _, _ => (st, "bad-op")
  | ["resize", n], some b =>
    match n.toNat? with
    | some n =>
      if n > b.cap then (st, "bad-op") else
      match b.resize n with
      | some b' => (some b', "ok")
      | none => (st, "DIFF resize model-assertion")
    | none => (st, "bad-op")
  | ["stat"], some b =>
    let m := s!"{b.len} {b.countFree} {b.trailingFree} {optNat b.highestFreeOrder}"
    let i := String.intercalate " " obs
    (st, if m = i then "ok" else s!"DIFF stat model={m} impl={i}")
  | ["bytes"], some b =>
    match obs with
    | [h] =>
      let m := toHex b.toBytes
      if m = h then (st, "ok") else
      match ofHex h with
      | none => (st, "bad-op")
      | some d =>
        let b2 := Buddy.fromBytes d b.cap
        (st, s!"DIFF bytes model-bits={bitsStr b.free} impl-bits={bitsStr b2.free} lens={b.len}/{b2.len}")
    | _ => (st, "bad-op")
  | ["reload"], some b =>
    let b2 := Buddy.fromBytes b.toBytes b.cap
    (some b2, if b2 == b then "ok" else "DIFF reload model-roundtrip")
  | _, _ => (st, "bad-op")

end Redb.Driver
