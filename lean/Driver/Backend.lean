import RedbModel.Model.Backend
import Driver.Util
/-! Line driver for the backend-contract automaton (property C20). -/
namespace Redb.Driver
open Redb.Backend

structure BkState where
  readOnly : Bool := false
  calls : List (Call × Nat) := []

def parseCall (s : String) : Option Call :=
  let k := (s.splitOn ":").headD ""
  if k = "len" then some .len else if k = "read" then some .read else if k = "write" then some .write
  else if k = "setlen" then some .setLen else if k = "sync_data" then some .sync
  else if k = "close" then some .close else none

def bkStep (st : BkState) (req obs : List String) : BkState × String :=
  match req with
  | ["begin", _, ro] => ({ readOnly := ro = "ro=1", calls := [] }, "ok")
  | ["call", c] =>
    match parseCall c with
    | some c => ({ st with calls := st.calls ++ [(c, 1)] }, "ok")
    | none => (st, "bad-op")
  | ["calls", c, n] =>
    match parseCall c, n.toNat? with
    | some c, some n => ({ st with calls := st.calls ++ [(c, n)] }, "ok")
    | _, _ => (st, "bad-op")
  | "scenario" :: _ => (st, if obs.isEmpty then "bad-op" else "ok")
  | ["end", _, expect] =>
    if expect = "expect=1" then
      let s := run st.calls
      if accept st.readOnly st.calls then (st, "ok")
      else (st, s!"DIFF backend-contract closes={s.closes} calls-after-close={s.afterClose} mutations={s.mutations} read-only={st.readOnly}")
    else (st, "ok")
  | _ => (st, "bad-op")

end Redb.Driver
