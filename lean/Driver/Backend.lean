import RedbModel.Model.Backend
import RedbModel.Model.CloseGuard
import Driver.Util
/-! Line driver for the backend-contract automaton (property C20). -/
namespace Redb.Driver
open Redb.Backend

structure BkState where
  readOnly : Bool := false
  calls : List (Call × Nat) := []

def parseCall (s : String) : Option Call :=
  let k := (s.splitOn ":").headD ""
  if k = "len" then some .len else if k = "read" then some .read else if k = "write" then some .write
  else if k = "setlen" then some .setLen else if k = "sync_data" then some .sync
  else if k = "close" then some .close else none

/-- `bk scenario close-race-<variant>-<kind>-<k>of<n> => <result>:parked=<p>:drop-ok=<d>:close-waited=<w>`:
the forced schedule of the contract harness (reader parked between the latch test and the backend
call while another thread drops the `Database`) replayed on the guarded interleaving model
(`Redb.CloseGuard.raceReplay`, Props/C20.lean `c20_race_replay_guarded`). The model predicts: the
closer has to wait iff the reader is parked, it can go on once the reader has left the backend, the
reader's next call is refused (`err:DatabaseClosed`/`err:Storage…`, or `served:` if the parked call
was its last one), nobody panics, and the backend sees no call after close (checked on the recorded
stream that follows the scenario line). -/
def closeRaceStep (name : String) (obs : List String) : String :=
  let o := " ".intercalate obs
  let fs := o.splitOn ":"
  let flag (k : String) : Option Bool :=
    if fs.contains (k ++ "=1") then some true else if fs.contains (k ++ "=0") then some false else none
  match flag "parked", flag "drop-ok", flag "close-waited" with
  | some parked, some dropOk, some waited =>
    let m := Redb.CloseGuard.raceReplay .guarded parked
    let modelOk := m.ran && m.closeRan && m.nextRefused && !Redb.CloseGuard.callAfterClose m.log
    let resOk := o.startsWith "err:DatabaseClosed" || o.startsWith "err:Storage" || o.startsWith "served:"
    if modelOk && waited == m.closeWaited && dropOk && resOk then "ok"
    else s!"DIFF bk close-race {name}: model close-waited={if m.closeWaited then 1 else 0} next-call-refused={m.nextRefused} drop-ok=1, observed {o}"
  | _, _, _ => "bad-op"

def bkStep (st : BkState) (req obs : List String) : BkState × String :=
  match req with
  | ["begin", _, ro] => ({ readOnly := ro = "ro=1", calls := [] }, "ok")
  | ["call", c] =>
    match parseCall c with
    | some c => ({ st with calls := st.calls ++ [(c, 1)] }, "ok")
    | none => (st, "bad-op")
  | ["calls", c, n] =>
    match parseCall c, n.toNat? with
    | some c, some n => ({ st with calls := st.calls ++ [(c, n)] }, "ok")
    | _, _ => (st, "bad-op")
  | "scenario" :: name :: _ =>
    if name.startsWith "close-race-" then (st, closeRaceStep name obs)
    else (st, if obs.isEmpty then "bad-op" else "ok")
  | "scenario" :: _ => (st, if obs.isEmpty then "bad-op" else "ok")
  | ["end", _, expect] =>
    if expect = "expect=1" then
      let s := run st.calls
      if accept st.readOnly st.calls then (st, "ok")
      else (st, s!"DIFF backend-contract closes={s.closes} calls-after-close={s.afterClose} mutations={s.mutations} read-only={st.readOnly}")
    else (st, "ok")
  | _ => (st, "bad-op")

end Redb.Driver
