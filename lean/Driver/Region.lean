import RedbModel.Model.Region
import Driver.Util
/-!
Line driver for the region level of the page allocator (property C14).

`rg state <num_regions> <tracker hex> <alloc0 hex> <alloc1 hex> ...`: a snapshot of the
implementation (bytes of `RegionTracker::to_vec` and of every `BuddyAllocator::to_vec`). The
driver decodes it and evaluates the invariant `Redb.Region.TrackerSound` through its checkable form
`Redb.Region.firstViolation` (`Lemmas/RegionCheck.lean`: `firstViolation s = none ↔ TrackerSound s`).
In addition the tracker bytes must be the canonical serialization of the decoded bits (this
covers the 64-way summary levels that `find_free` walks and the model does not carry).
-/
namespace Redb.Driver
open Redb.Buddy Redb.Region

/-! linear-time versions of `Redb.Buddy.levelWords` / `summary` / `bitmapToBytes` (rows of the
tracker have 1000+ bits and there are 21 of them per snapshot) -/

def packBytes : Nat → Bits → List UInt8
  | 0, _ => []
  | n + 1, bs => byteOfBits (bs.take 8) :: packBytes n (bs.drop 8)

def levelWordsLin (bs : Bits) : List UInt8 := packBytes ((bs.length + 63) / 64 * 8) bs

def summaryLin : Nat → Bits → Bits
  | 0, _ => []
  | n + 1, bs => (bs.take 64).all id :: summaryLin n (bs.drop 64)

def levelsLin : Nat → Bits → List Bits → List Bits
  | 0, _, acc => acc
  | n + 1, cur, acc => levelsLin n (summaryLin ((cur.length + 63) / 64) cur) (cur :: acc)

def bitmapToBytesLin (leaf : Bits) (height : Nat) : List UInt8 :=
  let lv := levelsLin height leaf []
  let datas := lv.map (fun l => u32le l.length ++ levelWordsLin l)
  let start := 4 + 4 * lv.length
  let ends := (datas.foldl (fun (s : Nat × List Nat) d => (s.1 + d.length, (s.1 + d.length) :: s.2))
    (start, [])).2.reverse
  u32le lv.length ++ (ends.map u32le).flatten ++ datas.flatten

def trackerToBytesLin (t : List Bits) (height : Nat) : List UInt8 :=
  let ser := t.map (fun row => bitmapToBytesLin row height)
  u32le t.length ++ (ser.map (fun d => u32le d.length)).flatten ++ ser.flatten

def describeViolation (s : St) : Violation → String
  | .shape =>
    s!"shape: tracker has {s.tracker.length} order bitmaps of lengths {(s.tracker.map List.length).eraseDups} for {s.regions.length} regions"
  | .buddy r => s!"clause 3 (buddy invariant) region {r}"
  | .hides r o =>
    let h := match s.regions[r]? with
      | some b => optNat b.highestFreeOrder
      | none => "?"
    s!"clause 1 (tracker hides space) region {r} order {o}: reported full, highest free order {h}"
  | .ghost r o => s!"clause 2 (tracker offers a missing region) region {r} order {o}: reported not full, but there are {s.regions.length} regions"

def rgStep (req : List String) : String :=
  match req with
  | "state" :: n :: trk :: allocs =>
    match n.toNat?, ofHex trk, allocs.mapM ofHex with
    | some n, some t, some as =>
      if n ≠ as.length then s!"DIFF rg region count {n} but {as.length} allocators" else
      let tracker := trackerFromBytes t
      let s : St := { regions := as.map (fun d => Buddy.fromBytes d 0), tracker := tracker,
                      cap := 0, layout := { numFull := 0, trailing := none } }
      match firstViolation s with
      | some v => "DIFF rg " ++ describeViolation s v
      | none =>
        if trackerToBytesLin tracker (rdU32 (t.drop (4 + 4 * rdU32 t 0)) 0) == t then "ok"
        else "DIFF rg tracker bytes are not the canonical serialization of their leaf bits (summary levels)"
    | _, _, _ => "bad-op"
  | _ => "bad-op"

end Redb.Driver
