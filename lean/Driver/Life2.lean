import RedbModel.Model.Life2
/-! Correspondence by prediction for the algorithmic page-bookkeeping model `Redb.Life2`: from the
previous model state, the step the harness reports and the trees read off the next observed state,
compute `step` and compare everything the model predicts with what the hooks show. -/
namespace Redb.Driver.L2
open Redb.Life2

/-- an observed state (`hist state` line with the extended fields) -/
structure Obs where
  id : Nat
  dur : Nat
  next : Nat
  nsp : Nat
  alloc : List Nat
  data : List Nat
  sys : List Nat
  dsys : List Nat
  /-- persisted and in-memory data-freed records together (as the monitor sees them) -/
  dfreedAll : List (Nat × Nat)
  sfreed : List (Nat × Nat)
  udfreed : List (Nat × Nat)
  dalloc : List (Nat × Nat)
  ualloc : List (Nat × Nat)
  unp : List Nat
  pca : List Nat
  /-- live_read_transactions as a multiset -/
  live : List Nat
  /-- valid_savepoints: (savepoint id, transaction id, persistent) -/
  vsp : List (Nat × Nat × Bool)
  pend : List (Nat × Nat)
  unproc : List Nat
  /-- readers held by the harness: (transaction id, pages) -/
  rpins : List (Nat × List Nat)
  /-- savepoints held by the harness: (savepoint id, transaction id, pages) -/
  spins : List (Nat × Nat × List Nat)
  /-- pages of the durable data tree -/
  ddata : List Nat

def sameSet {α} [DecidableEq α] (a b : List α) : Bool :=
  a.all (fun x => decide (x ∈ b)) && b.all (fun x => decide (x ∈ a))

def count {α} [DecidableEq α] (x : α) (l : List α) : Nat := (l.filter (fun y => decide (y = x))).length

def sameMultiset {α} [DecidableEq α] (a b : List α) : Bool :=
  a.length == b.length && a.all (fun x => count x a == count x b)

/-- the model state that an observation determines, for (re)synchronisation. Not observable and
taken from `prev` (or 0): the persisted savepoint counter. The durable image is taken to be the
current state, which is exact when no non-durable commit is pending. -/
def fromObs (o : Obs) (prev : Option St) : St :=
  let dfreed := o.dfreedAll.filter (fun e => decide (e ∉ o.udfreed))
  let sps : List Sp := o.vsp.map (fun (sid, id, p) =>
    { sid := sid, id := id, persistent := p, valid := true,
      pages := match o.spins.find? (fun x => x.1 = sid) with
        | some x => x.2.2
        | none => [] })
  let counter := match prev with
    | some p => p.pspCounter
    | none => 0
  { nextId := o.next, lastId := o.id, durId := o.dur, alloc := o.alloc, data := o.data, sys := o.sys,
    dfreed := dfreed, sfreed := o.sfreed, dalloc := o.dalloc, upages := o.unp, ualloc := o.ualloc,
    udfreed := o.udfreed, pca := o.pca,
    readers := o.rpins.map (fun (id, pages) => { id := id, pages := pages }),
    sps := sps, nextSp := o.nsp, pspCounter := counter, pend := o.pend, unproc := o.unproc,
    img := { id := o.dur, data := o.ddata, sys := o.dsys, dfreed := dfreed, sfreed := o.sfreed,
             dalloc := o.dalloc, psps := sps.filter (·.persistent), pspCounter := counter, qr := false } }

/-- first component in which the model state and the observation differ -/
def firstDiff (m : St) (o : Obs) : Option String :=
  let chk (name : String) (b : Bool) (rest : Unit → Option String) : Option String :=
    if b then rest () else some name
  chk s!"latest transaction id (model {m.lastId}, observed {o.id})" (m.lastId == o.id) fun _ =>
  chk s!"durable transaction id (model {m.durId}, observed {o.dur})" (m.durId == o.dur) fun _ =>
  chk s!"transaction id counter (model {m.nextId}, observed {o.next})" (m.nextId == o.next) fun _ =>
  chk "data tree" (sameSet m.data o.data) fun _ =>
  chk "system tree" (sameSet m.sys o.sys) fun _ =>
  chk s!"allocated set (model-only {diff m.alloc o.alloc}, observed-only {diff o.alloc m.alloc})"
    (sameSet m.alloc o.alloc) fun _ =>
  chk s!"data-freed records (model {m.dfreed ++ m.udfreed}, observed {o.dfreedAll})"
    (sameSet (m.dfreed ++ m.udfreed) o.dfreedAll) fun _ =>
  chk s!"in-memory data-freed records (model {m.udfreed}, observed {o.udfreed})" (sameSet m.udfreed o.udfreed) fun _ =>
  chk s!"system-freed records (model {m.sfreed}, observed {o.sfreed})" (sameSet m.sfreed o.sfreed) fun _ =>
  chk s!"data-allocated records (model {m.dalloc}, observed {o.dalloc})" (sameSet m.dalloc o.dalloc) fun _ =>
  chk s!"in-memory data-allocated records (model {m.ualloc}, observed {o.ualloc})" (sameSet m.ualloc o.ualloc) fun _ =>
  chk s!"unpersisted pages (model {m.upages}, observed {o.unp})" (sameSet m.upages o.unp) fun _ =>
  chk s!"post-commit allocations (model {m.pca}, observed {o.pca})" (sameSet m.pca o.pca) fun _ =>
  chk s!"live read references (model {liveIds m}, observed {o.live})" (sameMultiset (liveIds m) o.live) fun _ =>
  chk s!"pending non-durable commits (model {m.pend}, observed {o.pend})" (sameSet m.pend o.pend) fun _ =>
  chk s!"unprocessed non-durable commits (model {m.unproc}, observed {o.unproc})" (sameSet m.unproc o.unproc) fun _ =>
  chk s!"valid savepoints (observed {o.vsp})"
    (sameSet ((m.sps.filter (·.valid)).map (fun sp => (sp.sid, sp.id, sp.persistent))) o.vsp) fun _ =>
  chk s!"savepoint id counter (model {m.nextSp}, observed {o.nsp})" (m.nextSp == o.nsp) fun _ =>
  chk "reader snapshots" (sameMultiset (m.readers.map (·.id)) (o.rpins.map (·.1)) &&
      o.rpins.all (fun (id, pages) => m.readers.any (fun r => r.id == id && sameSet r.pages pages))) fun _ =>
  chk "savepoint snapshots" (o.spins.all (fun (sid, id, pages) =>
      m.sps.any (fun sp => sp.sid == sid && sp.id == id && sameSet sp.pages pages))) fun _ =>
  chk "durable image" (m.img.id == o.dur && sameSet m.img.data o.ddata && sameSet m.img.sys o.dsys) fun _ =>
  none

def dropAll (m : St) : List Op :=
  m.readers.map (fun r => Op.dropReader r.id) ++
  (m.sps.filter (fun sp => !sp.persistent)).map (fun sp => Op.dropSp sp.sid)

/-- pages of the record of transaction `n` -/
def recordOf (r : List (Nat × Nat)) (n : Nat) : List Nat := pagesOf (r.filter (fun e => e.1 = n))

def parseSpx (s : String) : Option (List SpOp) :=
  if s = "-" then some [] else
  (s.splitOn ",").foldlM (fun (acc : List SpOp) part =>
    let k := (part.take 1).toString
    match (part.drop 1).toNat? with
    | none => none
    | some n =>
      if k = "e" then some (acc ++ [SpOp.eph])
      else if k = "p" then some (acc ++ [SpOp.pers])
      else if k = "d" then some (acc ++ [SpOp.del n])
      else if k = "r" then some (acc ++ [SpOp.restore n])
      else none) []

def field (toks : List String) (key : String) : Option String :=
  (toks.find? (fun t => t.startsWith (key ++ "="))).map (fun t => (t.drop (key.length + 1)).toString)

inductive Plan where
  /-- apply these operations and compare -/
  | ops (l : List Op)
  /-- a composite step whose intermediate trees are not observable (compaction): check the
  postcondition and take the observed state -/
  | drained
  /-- not a step the model follows: take the observed state -/
  | resync

/-- a durable commit without savepoint operations that keeps the data tree (close, promote) -/
def plainDurable (m : St) (o : Obs) (qr : Bool) : Txn :=
  let n := m.nextId + 1
  { durable := true, qr := qr, epilogue := false, spOps := [], data := m.data, sys := o.dsys,
    sysRec := if qr then inter (recordOf o.sfreed n) (diff m.sys o.dsys) else [], sys2 := o.dsys }

/-- the model operations of one reported step. `req` are the tokens of the `hist step` line before
`=>`, `res` those after it. -/
def plan (m : St) (req res : List String) (o : Obs) : Plan :=
  let result := res.headD ""
  match req with
  | "txn" :: rest =>
    match parseSpx ((field res "spx").getD "?") with
    | none => .resync
    | some spOps =>
      let created := (spOps.filter (fun x => x == SpOp.eph || x == SpOp.pers)).length
      if result.startsWith "err:begin" then .ops []
      else if result != "ok" || !(rest.any (· = "end=Commit")) then .ops [Op.abort created]
      else
        let durable := rest.any (· = "dur=imm")
        let qr := durable && rest.any (· = "qr=1")
        let n := m.nextId + 1
        let t : Txn :=
          if durable then
            { durable := true, qr := qr, epilogue := true, spOps := spOps, data := o.data, sys := o.dsys,
              sysRec := if qr then inter (recordOf o.sfreed n) (diff m.sys o.dsys) else [],
              sys2 := o.sys }
          else
            { durable := false, qr := false, epilogue := true, spOps := spOps, data := o.data, sys := o.sys,
              sysRec := [], sys2 := o.sys }
        -- the handles of the ephemeral savepoints a restore invalidated stay alive until the
        -- harness has probed them (step `ProbeDead`)
        .ops [Op.commit t]
  | ["BeginRead"] => if result = "ok" then .ops [Op.beginRead] else .ops []
  | [what] =>
    if what.startsWith "DropReader" then
      match (field res "rid").bind (·.toNat?) with
      | some id => .ops [Op.dropReader id]
      | none => if result = "none" then .ops [] else .resync
    else if what.startsWith "DropSavepoint" then
      match (field res "sid").bind (·.toNat?) with
      | some sid => .ops [Op.dropSp sid]
      | none => if result = "none" then .ops [] else .resync
    else if what = "ListPsp" then .ops [Op.abort 0]
    else if what = "ProbeDead" then
      -- an empty write transaction in which every invalidated savepoint is offered to
      -- restore_savepoint (and refused), aborted; then the handles are dropped
      .ops (Op.abort 0 :: (m.sps.filter (fun sp => !sp.persistent && !sp.valid)).map (fun sp => Op.dropSp sp.sid))
    else if what = "quiesce-drop" then .ops (dropAll m)
    else if what = "quiesce" then .ops []
    else if what = "Reopen" then
      if result = "ok" then
        let m1 := run m (dropAll m)
        .ops (dropAll m ++ [Op.commit (plainDurable m1 o true), Op.reopen, Op.abort 0])
      else .resync
    else if what = "CrashReopen" then
      if result.startsWith "ok" then .ops (dropAll m ++ [Op.crash, Op.abort 0]) else .resync
    else if what = "CheckIntegrity" then
      if result = "skipped" then .ops []
      else if result = "ok:1" then
        if m.lastId = m.durId then .ops [] else .ops [Op.commit (plainDurable m o false)]
      else .resync
    else if what = "Compact" then
      if result.startsWith "ok" then .drained
      else if result.startsWith "err" then .ops []
      else .resync
    else .resync
  | _ => .resync

structure L2State where
  model : Option St := none
  /-- the `hist step` lines since the last state line -/
  steps : List (List String × List String) := []
  /-- set by a `hist relax` line: states were withheld from the driver (the window in which a
  panic-dropped transaction's pages are leaked by design), so the persisted savepoint counter -
  not observable - is no longer known; from then on the observed counter is adopted -/
  counterUnknown : Bool := false

/-- verdict of the algorithmic model for an observed state: `none` = agrees (or not applicable) -/
def onState (st : L2State) (o : Obs) : L2State × Option String :=
  let resync : L2State := { model := some (fromObs o st.model), steps := [], counterUnknown := st.counterUnknown }
  match st.model, st.steps with
  | some m, [(req, res)] =>
    -- after a `hist relax` the parts of the durable image that cannot be observed (persisted
    -- savepoint counter, whether an allocator snapshot was saved) are unknown: steps whose outcome
    -- depends on them are not predicted, the observed state is adopted
    if st.counterUnknown && (req.head?.any fun w => w.startsWith "CheckIntegrity" || w.startsWith "Reopen" || w.startsWith "CrashReopen") then
      (resync, none)
    else
    match plan m req res o with
    | .resync => (resync, none)
    | .drained =>
      if o.dfreedAll.isEmpty && o.sfreed.isEmpty && sameSet o.alloc (o.data ++ o.sys) && o.id == o.dur
          && o.pend.isEmpty && o.unp.isEmpty then (resync, none)
      else (resync, some "after a completed compaction pending-free records, unpersisted pages or a non-durable commit remain")
    | .ops ops =>
      if !guardAll m ops then
        (resync, some s!"the step is not enabled in the model state (guard): {repr ops}")
      else
        let m0 := run m ops
        -- with an unknown persisted counter the observed savepoint counter is adopted
        let m' := if st.counterUnknown then { m0 with nextSp := o.nsp, pspCounter := o.nsp, img := { m0.img with pspCounter := o.nsp } } else m0
        match firstDiff m' o with
        | none => ({ model := some m', steps := [], counterUnknown := st.counterUnknown }, none)
        | some d => (resync, some d)
  | _, _ => (resync, none)

def onStep (st : L2State) (req res : List String) : L2State :=
  { st with steps := st.steps ++ [(req, res)] }

end Redb.Driver.L2
