import RedbModel.Model.Format
import RedbModel.Model.Recovery
import Driver.Image
/-!
Function correspondence of the recovery model (property C01).

    img recover <path.rimg> <page_size> <tablespec> [<tablespec> ...]

`<path.rimg>` is a crash image (same sparse container as `img check`), the tablespecs describe
the contents the REAL recovery served for this image. The driver computes the `HeaderView` of the
image with the decoders of `Model/Format.lean`, runs `Redb.Recovery.recover`, and compares the user
tables of the slot the model chose with the tablespecs (same functions as `img check`; the
clean-shutdown bit is not required). Answer: `ok` or `DIFF recover <why>`.
-/
namespace Redb.Driver
open Redb.Key Redb.Format Redb.BTree Redb.Recovery

/-- `UnrepairedDatabaseHeader::layout_from_file_len` + `DatabaseLayout::recalculate`: the region
counts rebuilt from the file length and the immutable geometry; `none` when the length maps onto
no layout -/
def recalcLayout (l : Layout) (fileLen : Nat) : Option Layout :=
  let full := (l.regionHeaderPages + l.regionMaxDataPages) * l.pageSize
  if full = 0 || l.pageSize = 0 then none else
  if fileLen > l.pageSize + 2 ^ 20 * full then none else
  if fileLen < l.pageSize * (l.regionHeaderPages + 2) then none else
  let remaining := fileLen - l.pageSize
  let fullRegions := remaining / full
  let rest := remaining - fullRegions * full
  let trailing := if rest ≥ (l.regionHeaderPages + 1) * l.pageSize
    then (rest - l.regionHeaderPages * l.pageSize) / l.pageSize else 0
  let r : Layout := { l with numFullRegions := fullRegions, trailingPages := trailing }
  if r.fileLen = fileLen then some r else none

/-- `from_bytes` geometry checks and `finalize`'s layout reconciliation: the layout to use -/
def reconcileLayout (h : Header) (pageSize fileLen : Nat) : Option Layout :=
  let l := h.layout
  if l.pageSize != pageSize then none
  else if l.regionMaxDataPages == 0 || l.regionMaxDataPages > 2 ^ 20 then none
  else if l.regionHeaderPages > 2 ^ 20 then none
  else if h.recoveryRequired then recalcLayout l fileLen
  else if l.trailingPages > l.regionMaxDataPages then none
  else if l.numRegions == 0 || l.numRegions > 2 ^ 20 then none
  else if fileLen < l.fileLen then none
  else if l.fileLen != fileLen then recalcLayout l fileLen
  else some l

/-- the subtrees of the value sets of a multimap table: value byte 0 = 3 ‖ `BtreeHeader` -/
def subtreeRoots (pt : PTree) : List BtreeHeader :=
  (flatten pt.erase).filterMap (fun e =>
    if byteAt e.2 0 == 3 && e.2.length ≥ 33 then some (decodeBtreeHeader (slice e.2 1 33)) else none)

/-- all pages of one master tree and of the tables it names (for multimap tables including the
value subtrees); fails when a page is out of range, undecodable or its checksum does not verify.
This is `TableTree::verify_checksums` plus the page collection of `visit_all_pages`. -/
def masterPages (img : ByteArray) (lay : Layout) (root : Option BtreeHeader)
    (seen : List PageNumber) : Except String (List PageNumber) :=
  match root with
  | none => .ok seen
  | some h => do
    let m ← decodeTree img lay none none 128 h.root h.checksum seen
    (flatten m.1.erase).foldlM (fun (seen : List PageNumber) e =>
      match decodeTableDef e.2 with
      | none => .error s!"malformed definition of table {nameOf e.1}"
      | some d =>
        match d.root with
        | none => .ok seen
        | some r =>
          if d.kind == 4 then do
            let t ← decodeTree img lay d.fixedKey none 128 r.root r.checksum seen
            (subtreeRoots t.1).foldlM (fun (seen : List PageNumber) s => do
              let st ← decodeTree img lay d.fixedValue (some 0) 128 s.root s.checksum seen
              pure st.2) t.2
          else do
            let t ← decodeTree img lay d.fixedKey d.fixedValue 128 r.root r.checksum seen
            pure t.2) m.2

/-- all pages of the trees of one commit slot -/
def slotPages (img : ByteArray) (lay : Layout) (s : Slot) : Except String (List PageNumber) := do
  let seen ← masterPages img lay s.userRoot []
  masterPages img lay s.systemRoot seen

/-- `Database::get_allocator_state_table` + `is_valid_allocator_state`: the system master tree
has a table `allocator_state` whose entry with key tag 5 (`AllocatorStateKey::TransactionId`)
stores the slot's transaction id -/
def quickOk (img : ByteArray) (lay : Layout) (s : Slot) : Bool :=
  match decodeMaster img lay "system master tree" s.systemRoot [] with
  | .error _ => false
  | .ok sm =>
    match sm.1.find? (fun e => e.1 == "allocator_state".toUTF8.toList) with
    | none => false
    | some (_, d) =>
      match d.root with
      | none => false
      | some r =>
        match decodeTree img lay d.fixedKey d.fixedValue 128 r.root r.checksum [] with
        | .error _ => false
        | .ok t =>
          match (flatten t.1.erase).find? (fun e => e.1 == [5, 0, 0, 0, 0]) with
          | none => false
          | some e => e.2.length == 8 && leNat e.2 == s.txnId

structure ImageView where
  view : HeaderView
  lay : Layout
  slot0 : Slot
  slot1 : Slot

def ImageView.slot (v : ImageView) (i : Nat) : Slot := if i = 0 then v.slot0 else v.slot1

/-- the `HeaderView` of a byte image -/
def imageView (img : ByteArray) (pageSize : Nat) : Except String ImageView :=
  match decodeHeader img with
  | none => .error "page 0: bad magic number or short header"
  | some h =>
    match decodeSlot h.slot0, decodeSlot h.slot1 with
    | some s0, some s1 =>
      let lay := reconcileLayout h pageSize img.size
      .ok { view := { primary := h.primarySlot
                      recoveryRequired := h.recoveryRequired
                      twoPhase := h.twoPhaseCommit
                      valid0 := slotChecksumOk h.slot0
                      valid1 := slotChecksumOk h.slot1
                      id0 := s0.txnId
                      id1 := s1.txnId
                      wellFormed := lay.isSome && s0.version == 3 && s1.version == 3 }
            lay := lay.getD h.layout
            slot0 := s0
            slot1 := s1 }
    | _, _ => .error "page 0: commit slots"

/-- run the model of the recovery on an image: the chosen slot -/
def recoverImage (img : ByteArray) (v : ImageView) : Except Err Nat :=
  recover v.view (fun i => (slotPages img v.lay (v.slot i)).isOk)
    (match selectSlot v.view with
     | .ok s => quickOk img v.lay (v.slot s)
     | .error _ => false)

/-- the user tables of slot `s` against the tablespecs: exactly these tables (empty ones may be
absent), with the contents checks of `img check` -/
def checkSlotContents (img : ByteArray) (lay : Layout) (s : Slot) (specs : List TableSpec) :
    Except String Unit := do
  let um ← decodeMaster img lay "data master tree" s.userRoot []
  let _ ← um.1.foldlM (fun (seen : List PageNumber) e =>
    match specs.find? (fun sp => sp.name.toUTF8.toList == e.1) with
    | none => fail "table-set" s!"unexpected user table {nameOf e.1}"
    | some spec => checkUserTable img lay spec e.2 seen) um.2
  specs.forM (fun sp =>
    if um.1.any (fun e => e.1 == sp.name.toUTF8.toList) then pure ()
    else if sp.contentsOk (if sp.multimap then .multimap [] else .normal []) then pure ()
    else fail "table-set" s!"missing user table {sp.name}, expected {sp.descr}")

def errName : Err → String
  | .malformed => "malformed"
  | .primaryCorrupt2PC => "primary-corrupt-2pc"
  | .bothSlotsCorrupt => "both-slots-corrupt"
  | .primaryTree2PC => "primary-tree-2pc"
  | .allRootsCorrupt => "all-roots-corrupt"

def recoverStep (req : List String) : IO String := do
  match req with
  | path :: ps :: specs =>
    match ps.toNat?, specs.mapM parseTableSpec with
    | some pageSize, some specs =>
      let raw ← try (some <$> IO.FS.readBinFile path) catch _ => pure none
      match raw with
      | none => pure "bad-op"
      | some raw =>
        match expandImage raw with
        | none => pure s!"DIFF recover decode {path}: malformed image container"
        | some img =>
          match imageView img pageSize with
          | .error e => pure s!"DIFF recover decode {e}"
          | .ok v =>
            match recoverImage img v with
            | .error e =>
              pure s!"DIFF recover model-error the model fails with {errName e} (god byte: primary {v.view.primary} rr {v.view.recoveryRequired} 2pc {v.view.twoPhase}; valid {v.view.valid0}/{v.view.valid1}; ids {v.view.id0}/{v.view.id1}) but the real recovery served contents"
            | .ok i =>
              match checkSlotContents img v.lay (v.slot i) specs with
              | .ok () => pure "ok"
              | .error e =>
                pure s!"DIFF recover contents model chose slot {i} (god byte: primary {v.view.primary} rr {v.view.recoveryRequired} 2pc {v.view.twoPhase}; valid {v.view.valid0}/{v.view.valid1}; ids {v.view.id0}/{v.view.id1}): {e}"
    | _, _ => pure "bad-op"
  | _ => pure "bad-op"

end Redb.Driver
