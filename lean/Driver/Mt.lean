import RedbModel.Model.Conc
import Driver.Util
/-! Line driver for the `tables`-lock model of property C16:
`mt forced first=<call> parked-at=<point> second-blocked=<0|1> dirtier=<call> => savepoint=<ok|err:…>`.
One thread is parked at a pause point of `open_table` (set_dirty) or `ephemeral_savepoint` while a
second thread makes the other call. The model (`Conc.Tables`, where both calls are atomic because
they run under the transaction's `tables` lock) determines the order in which the two calls take
effect from where the first is parked, hence whether the savepoint is granted and whether the second
call has to wait. -/
namespace Redb.Driver
open Redb.Conc

def mtStep (req : List String) : String :=
  match req with
  | ["forced", first, parked, blocked, _dirtier, "=>", res] =>
    let inLock : Option Bool :=
      if parked = "parked-at=set_dirty" then some true
      else if parked = "parked-at=ephemeral_savepoint.checked" then some true
      else if parked = "parked-at=ephemeral_savepoint.enter" then some false
      else none
    -- which call is "first": the model's own table of calls decides what it does to the state
    let firstOp : Option Tables.Op :=
      if first.startsWith "first=" then (Tables.Call.ofName (first.drop 6).toString).map Tables.Call.op else none
    match inLock, firstOp with
    | some l, some f =>
      let other : Tables.Op := if f = .setDirty then .ephemeralSavepoint else .setDirty
      -- parked inside the lock: the first call takes effect first; parked before it: the second
      let order := if l then [f, other] else [other, f]
      let s := Tables.run Tables.init order
      let wantSp := if s.savepointExists then "savepoint=ok" else "savepoint=err:InvalidSavepoint"
      let wantBlocked := if l then "second-blocked=1" else "second-blocked=0"
      if s.savepointExists && !s.trackingOn then "DIFF mt model reached a savepoint without allocation tracking"
      else if res ≠ wantSp then s!"DIFF mt forced {first} {parked}: model {wantSp}, implementation {res}"
      -- "blocked" is observed through a grace period: a call that the model lets run may still
      -- be reported as blocked on a slow machine, so only the other direction is a disagreement
      -- (the model says the call has to wait for the lock, the implementation did not wait)
      else if l && blocked ≠ wantBlocked then s!"DIFF mt forced {first} {parked}: model {wantBlocked}, implementation {blocked}"
      else "ok"
    | _, _ => "bad-op"
  | _ => "bad-op"

end Redb.Driver
