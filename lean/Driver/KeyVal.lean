import RedbModel.Model.KeyVal
import Driver.Util
/-!
Value-level lines of the key-type driver (property C15):

  key enc  <desc> <valtext> => <hex of Value::as_bytes>
  key vcmp <desc> <valtext> <valtext> => lt|eq|gt      (the native Rust `Ord` of the two values)

Value text (no blanks):
  n:            ()                       b:0 b:1       bool
  c:<hex>       char (scalar value)      u:<dec>       unsigned integer      i:<dec>   signed integer
  s:[h,h,..]    str as its scalar values in hex (`s:[]` empty)
  y:<hex>|y:-   byte slice, byte array, Uuid
  o:-  o:(V)    Option                   a:[V;V;..]    array                 t:(V;V;..) tuple
-/
namespace Redb.Driver
open Redb.Key

def hexNat (cs : List Char) : Option Nat :=
  if cs.isEmpty then none else
  cs.foldl (fun acc c => match acc, hexVal c with
    | some a, some d => some (16 * a + d)
    | _, _ => none) (some 0)

def valStop (c : Char) : Bool := c == ';' || c == ')' || c == ']'

/-- split at top-level commas (no nesting inside `s:[..]`) -/
def splitCommas (cs : List Char) : List (List Char) :=
  let (cur, acc) := cs.foldl (fun (s : List Char × List (List Char)) c =>
    if c == ',' then ([], s.1.reverse :: s.2) else (c :: s.1, s.2)) ([], [])
  (cur.reverse :: acc).reverse

partial def parseVal (cs : List Char) : Option (Val × List Char) :=
  let atom (r : List Char) : List Char × List Char :=
    let tok := r.takeWhile (fun c => !valStop c)
    (tok, r.drop tok.length)
  let rec seq (l : List Char) (close : Char) (acc : List Val) : Option (List Val × List Char) :=
    match parseVal l with
    | some (v, c :: r) =>
      if c == ';' then seq r close (v :: acc)
      else if c == close then some ((v :: acc).reverse, r)
      else none
    | _ => none
  match cs with
  | 'n' :: ':' :: r => some (.unit, r)
  | 'b' :: ':' :: '0' :: r => some (.bool false, r)
  | 'b' :: ':' :: '1' :: r => some (.bool true, r)
  | 'c' :: ':' :: r =>
    let (tok, rest) := atom r
    (hexNat tok).map (fun n => (.char n, rest))
  | 'u' :: ':' :: r =>
    let (tok, rest) := atom r
    (String.ofList tok).toNat?.map (fun n => (.uint n, rest))
  | 'i' :: ':' :: r =>
    let (tok, rest) := atom r
    (String.ofList tok).toInt?.map (fun n => (.sint n, rest))
  | 's' :: ':' :: '[' :: r =>
    let body := r.takeWhile (· != ']')
    match r.drop body.length with
    | ']' :: rest =>
      if body.isEmpty then some (.str [], rest)
      else ((splitCommas body).mapM hexNat).map (fun l => (.str l, rest))
    | _ => none
  | 'y' :: ':' :: r =>
    let (tok, rest) := atom r
    (ofHex (String.ofList tok)).map (fun b => (.bytes b, rest))
  | 'o' :: ':' :: '-' :: r => some (.none, r)
  | 'o' :: ':' :: '(' :: r =>
    match parseVal r with
    | some (v, ')' :: rest) => some (.some v, rest)
    | _ => none
  | 'a' :: ':' :: '[' :: r => (seq r ']' []).map (fun (vs, rest) => (.arr vs, rest))
  | 't' :: ':' :: '(' :: r => (seq r ')' []).map (fun (vs, rest) => (.tup vs, rest))
  | _ => none

def parseValue (s : String) : Option Val :=
  match parseVal s.toList with
  | some (v, []) => some v
  | _ => none

def ordStrV : Ordering → String
  | .lt => "lt" | .eq => "eq" | .gt => "gt"

/-- `key enc`: the model encodes the value to the bytes the implementation produced, accepts
them as valid, and decodes them back to the value -/
def encStep (k : KT) (vt : String) (obs : List String) : String :=
  match parseValue vt, obs with
  | some v, [h] =>
    if !wellTyped k v then "bad-op" else
    match ofHex h with
    | none => s!"DIFF key enc impl={h}"
    | some d =>
      let m := encode k v
      if m ≠ d then s!"DIFF key enc model={hexOrDash m} impl={h}"
      else if !valid k d then "DIFF key enc model rejects the encoding as invalid"
      else if !(decode k d == some v) then "DIFF key enc decode(encode v) != v in the model"
      else "ok"
  | _, _ => "bad-op"

/-- `key vcmp`: the model's value order against the native `Ord` of the Rust values -/
def vcmpStep (k : KT) (at' bt : String) (obs : List String) : String :=
  match parseValue at', parseValue bt with
  | some a, some b =>
    if !(wellTyped k a && wellTyped k b) then "bad-op" else
    let m := ordStrV (vcmp k a b)
    if [m] = obs then "ok" else s!"DIFF key vcmp model={m} impl={obs}"
  | _, _ => "bad-op"

end Redb.Driver
