import RedbModel.Model.Lifecycle
import Driver.Util
/-! Line driver for the page life-cycle monitor (properties C06, C02, C05, C07, C11, C13). -/
namespace Redb.Driver
open Redb.Life

def parseRanges (s : String) : Option (List Nat) :=
  if s = "-" then some [] else
  (s.splitOn ",").foldlM (fun (acc : List Nat) part =>
    match part.splitOn "-" with
    | [a] => a.toNat?.map (fun x => acc ++ [x])
    | [a, b] =>
      match a.toNat?, b.toNat? with
      | some x, some y => if x ≤ y then some (acc ++ (List.range (y - x + 1)).map (· + x)) else none
      | _, _ => none
    | _ => none) []

def parseRecords (s : String) : Option (List (Nat × List Nat)) :=
  if s = "-" then some [] else
  (s.splitOn ";").foldlM (fun (acc : List (Nat × List Nat)) part =>
    match part.splitOn ":" with
    | [t, r] =>
      match t.toNat?, parseRanges r with
      | some t, some l => some (acc ++ [(t, l)])
      | _, _ => none
    | _ => none) []

def parsePins (s : String) : Option (List Pin) :=
  if s = "-" then some [] else
  (s.splitOn ";").foldlM (fun (acc : List Pin) part =>
    match part.splitOn ":" with
    | [id, k, r] =>
      let kind := if k = "r" then some PinKind.reader else if k = "s" then some PinKind.savepoint
        else if k = "d" then some PinKind.durable else none
      match id.toNat?, kind, parseRanges r with
      | some id, some kind, some l => some (acc ++ [{ id := id, kind := kind, pages := l }])
      | _, _, _ => none
    | _ => none) []

def field (toks : List String) (key : String) : Option String :=
  (toks.find? (fun t => t.startsWith (key ++ "="))).map (fun t => (t.drop (key.length + 1)).toString)

def parseState (toks : List String) : Option St := do
  let id ← (← field toks "id").toNat?
  let dur ← (← field toks "dur").toNat?
  let alloc ← parseRanges (← field toks "alloc")
  let data ← parseRanges (← field toks "data")
  let sys ← parseRanges (← field toks "sys")
  let dfreed ← parseRecords (← field toks "dfreed")
  let sfreed ← parseRecords (← field toks "sfreed")
  let dsys ← parseRanges (← field toks "dsys")
  let pins ← parsePins (← field toks "pins")
  pure { id, dur, alloc, data, sys, dfreed, sfreed, dsys, pins }

structure HistState where
  prev : Option St := none
  crashed : Bool := false
  /-- the last step was a write transaction that ended without a successful commit -/
  abandoned : Bool := false

/-- the first page violating `moveOk`, for the report -/
def firstBadMove (s s' : St) : Option Nat := s.alloc.find? (fun p => !moveOk s s' p)

def histStep (st : HistState) (req : List String) : HistState × String :=
  match req with
  | "cfg" :: _ => ({ prev := none, crashed := false, abandoned := false }, "ok")
  | "step" :: what :: rest =>
    let isTxn := what = "txn"
    let ended := rest.any (fun t => t = "end=Abort" || t = "end=Drop")
    let refused := rest.any (fun t => t.startsWith "err:commit")
    ({ st with crashed := st.crashed || what.startsWith "CrashReopen",
               abandoned := isTxn && (ended || refused) }, "ok")
  | "state" :: toks =>
    match parseState toks with
    | none => (st, "bad-op")
    | some s =>
      let next : HistState := { prev := some s, crashed := false, abandoned := false }
      if !ownOk s then (next, "DIFF own: some page has no owner, two owners, or an owner but no allocation")
      else if !pinOk s then (next, "DIFF pin: a pinned snapshot reaches a page that is neither in the latest tree nor in a later pending-free record")
      else match st.prev with
        | none => (next, "ok")
        | some p =>
          if st.abandoned && !abortOk p s then
            (next, "DIFF abort: an abandoned write transaction changed the page accounting (allocated set, owners, pending-free records or committed ids)")
          else if stepOk st.crashed p s then (next, "ok")
          else match firstBadMove p s with
            | some pg => (next, s!"DIFF step: page {pg} changed owner or was released while a surviving pin or the durable root still reaches it")
            | none => (next, "DIFF step: transaction ids went backwards")
  | _ => (st, "bad-op")

end Redb.Driver
