import RedbModel.Model.Lifecycle
import Driver.Util
import Driver.Life2
/-! Line driver for the page life-cycle monitor (properties C06, C02, C05, C07, C11, C13). -/
namespace Redb.Driver
open Redb.Life

def parseRanges (s : String) : Option (List Nat) :=
  if s = "-" then some [] else
  (s.splitOn ",").foldlM (fun (acc : List Nat) part =>
    match part.splitOn "-" with
    | [a] => a.toNat?.map (fun x => acc ++ [x])
    | [a, b] =>
      match a.toNat?, b.toNat? with
      | some x, some y => if x ≤ y then some (acc ++ (List.range (y - x + 1)).map (· + x)) else none
      | _, _ => none
    | _ => none) []

def parseRecords (s : String) : Option (List (Nat × List Nat)) :=
  if s = "-" then some [] else
  (s.splitOn ";").foldlM (fun (acc : List (Nat × List Nat)) part =>
    match part.splitOn ":" with
    | [t, r] =>
      match t.toNat?, parseRanges r with
      | some t, some l => some (acc ++ [(t, l)])
      | _, _ => none
    | _ => none) []

def parsePins (s : String) : Option (List Pin) :=
  if s = "-" then some [] else
  (s.splitOn ";").foldlM (fun (acc : List Pin) part =>
    match part.splitOn ":" with
    | [id, k, r] =>
      let kind := if k = "r" then some PinKind.reader else if k = "s" then some PinKind.savepoint
        else if k = "d" then some PinKind.durable else none
      match id.toNat?, kind, parseRanges r with
      | some id, some kind, some l => some (acc ++ [{ id := id, kind := kind, pages := l }])
      | _, _, _ => none
    | _ => none) []

def field (toks : List String) (key : String) : Option String :=
  (toks.find? (fun t => t.startsWith (key ++ "="))).map (fun t => (t.drop (key.length + 1)).toString)

def parseState (toks : List String) : Option St := do
  let id ← (← field toks "id").toNat?
  let dur ← (← field toks "dur").toNat?
  let alloc ← parseRanges (← field toks "alloc")
  let data ← parseRanges (← field toks "data")
  let sys ← parseRanges (← field toks "sys")
  let dfreed ← parseRecords (← field toks "dfreed")
  let sfreed ← parseRecords (← field toks "sfreed")
  let dsys ← parseRanges (← field toks "dsys")
  let pins ← parsePins (← field toks "pins")
  pure { id, dur, alloc, data, sys, dfreed, sfreed, dsys, pins }

structure HistState where
  prev : Option St := none
  crashed : Bool := false
  /-- the last step was a write transaction that ended without a successful commit -/
  abandoned : Bool := false
  /-- the algorithmic model `Redb.Life2` run alongside the monitor (Driver/Life2.lean) -/
  l2 : L2.L2State := {}

/-- the first page violating `moveOk`, for the report -/
def firstBadMove (s s' : St) : Option Nat := s.alloc.find? (fun p => !moveOk s s' p)

/-- verdict of the trace monitor `Redb.Life` -/
def histStepMon (st : HistState) (req : List String) : HistState × String :=
  match req with
  | "cfg" :: _ => ({ prev := none, crashed := false, abandoned := false, l2 := {} }, "ok")
  | "relax" :: _ =>
    -- states were withheld (leak window after a panic-dropped transaction): both monitors start
    -- again from the next state; the algorithmic model keeps what it knows of the hidden state
    ({ prev := none, crashed := false, abandoned := false,
       l2 := { model := st.l2.model, steps := [], counterUnknown := true } }, "ok")
  | "step" :: what :: rest =>
    let isTxn := what = "txn"
    let ended := rest.any (fun t => t = "end=Abort" || t = "end=Drop")
    let refused := rest.any (fun t => t.startsWith "err:commit")
    ({ st with crashed := st.crashed || what.startsWith "CrashReopen",
               abandoned := isTxn && (ended || refused) }, "ok")
  | "state" :: toks =>
    match parseState toks with
    | none => (st, "bad-op")
    | some s =>
      let next : HistState := { prev := some s, crashed := false, abandoned := false, l2 := st.l2 }
      if !ownOk s then (next, "DIFF own: some page has no owner, two owners, or an owner but no allocation")
      else if !pinOk s then (next, "DIFF pin: a pinned snapshot reaches a page that is neither in the latest tree nor in a later pending-free record")
      else match st.prev with
        | none => (next, "ok")
        | some p =>
          if st.abandoned && !abortOk p s then
            (next, "DIFF abort: an abandoned write transaction changed the page accounting (allocated set, owners, pending-free records or committed ids)")
          else if stepOk st.crashed p s then (next, "ok")
          else match firstBadMove p s with
            | some pg => (next, s!"DIFF step: page {pg} changed owner or was released while a surviving pin or the durable root still reaches it")
            | none => (next, "DIFF step: transaction ids went backwards")
  | _ => (st, "bad-op")

/-! ### the algorithmic model alongside (extended `hist state` / `hist step` lines) -/

def parsePairs (s : String) : Option (List (Nat × Nat)) :=
  if s = "-" then some [] else
  (s.splitOn ",").foldlM (fun (acc : List (Nat × Nat)) part =>
    match part.splitOn ":" with
    | [a, b] =>
      match a.toNat?, b.toNat? with
      | some a, some b => some (acc ++ [(a, b)])
      | _, _ => none
    | _ => none) []

def parseNats (s : String) : Option (List Nat) :=
  if s = "-" then some [] else (s.splitOn ",").mapM (·.toNat?)

/-- `id*count,...` as a multiset of ids -/
def parseLive (s : String) : Option (List Nat) :=
  if s = "-" then some [] else
  (s.splitOn ",").foldlM (fun (acc : List Nat) part =>
    match part.splitOn "*" with
    | [a, b] =>
      match a.toNat?, b.toNat? with
      | some a, some b => some (acc ++ List.replicate b a)
      | _, _ => none
    | _ => none) []

def parseVsp (s : String) : Option (List (Nat × Nat × Bool)) :=
  if s = "-" then some [] else
  (s.splitOn ",").foldlM (fun (acc : List (Nat × Nat × Bool)) part =>
    match part.splitOn ":" with
    | [a, b, k] =>
      match a.toNat?, b.toNat? with
      | some a, some b => if k = "p" then some (acc ++ [(a, b, true)]) else if k = "e" then some (acc ++ [(a, b, false)]) else none
      | _, _ => none
    | _ => none) []

def parseSpp (s : String) : Option (List (Nat × Nat × List Nat)) :=
  if s = "-" then some [] else
  (s.splitOn ";").foldlM (fun (acc : List (Nat × Nat × List Nat)) part =>
    match part.splitOn ":" with
    | [a, b, r] =>
      match a.toNat?, b.toNat?, parseRanges r with
      | some a, some b, some l => some (acc ++ [(a, b, l)])
      | _, _, _ => none
    | _ => none) []

def flatRecords (r : List (Nat × List Nat)) : List (Nat × Nat) := r.flatMap (fun e => e.2.map (fun p => (e.1, p)))

/-- the extended observation; `none` if the line does not carry the additional fields -/
def parseObs (toks : List String) (s : St) : Option L2.Obs := do
  let next ← (← field toks "next").toNat?
  let nsp ← (← field toks "nsp").toNat?
  let udfreed ← parseRecords (← field toks "udfreed")
  let dalloc ← parseRecords (← field toks "dalloc")
  let ualloc ← parseRecords (← field toks "ualloc")
  let unp ← parseRanges (← field toks "unp")
  let pca ← parseRanges (← field toks "pca")
  let live ← parseLive (← field toks "live")
  let vsp ← parseVsp (← field toks "vsp")
  let pend ← parsePairs (← field toks "pend")
  let unproc ← parseNats (← field toks "unproc")
  let spins ← parseSpp (← field toks "spp")
  let ddata := match s.pins.find? (fun π => π.kind == .durable) with
    | some π => π.pages
    | none => []
  pure { id := s.id, dur := s.dur, next, nsp, alloc := s.alloc, data := s.data, sys := s.sys, dsys := s.dsys,
         dfreedAll := flatRecords s.dfreed, sfreed := flatRecords s.sfreed, udfreed := flatRecords udfreed,
         dalloc := flatRecords dalloc, ualloc := flatRecords ualloc, unp, pca, live, vsp, pend, unproc,
         rpins := (s.pins.filter (fun π => π.kind == .reader)).map (fun π => (π.id, π.pages)),
         spins, ddata }

/-- one answer per line: the monitor's verdict, and where that is `ok`, the verdict of the
algorithmic model (`DIFF life2 ...` if its prediction differs from the observed state) -/
def histStep (st : HistState) (req : List String) : HistState × String :=
  let (st1, out) := histStepMon st req
  match req with
  | "cfg" :: _ => (st1, out)
  | "relax" :: _ => (st1, out)
  | "step" :: rest =>
    let toks := rest.takeWhile (· ≠ "=>")
    let res := (rest.dropWhile (· ≠ "=>")).drop 1
    ({ st1 with l2 := L2.onStep st.l2 toks res }, out)
  | "state" :: toks =>
    match parseState toks with
    | none => (st1, out)
    | some s =>
      match parseObs toks s with
      | none => ({ st1 with l2 := {} }, out)
      | some o =>
        let (l2, verdict) := L2.onState st.l2 o
        let st2 := { st1 with l2 := l2 }
        match verdict with
        | some d => if out = "ok" then (st2, "DIFF life2 " ++ d) else (st2, out)
        | none => (st2, out)
  | _ => (st1, out)

end Redb.Driver
