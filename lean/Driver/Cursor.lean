import RedbModel.Model.CursorSpec
import Driver.Table
/-! Line driver for the gap-cursor spec (property C18): lines `cur ...` written by
`/verif/harness-cursor` (`vhc cursor`). -/
namespace Redb.Driver
open Redb.Key Redb.Spec Redb.CursorSpec

structure CurState where
  kt : KT := .bytes
  cur : Map := []
  committed : Map := []
  /-- the open `CursorMut`; while it is open it owns the contents and `cur` is stale -/
  zc : Option Cursor := none
  /-- the open read-only `Cursor` -/
  rc : Option Cursor := none
  /-- inside `rbegin .. rend`: reads see the committed contents -/
  inRead : Bool := false

def CurState.view (st : CurState) : Map := if st.inRead then st.committed else st.cur

def curParseSide (s : String) : Option Bool :=
  if s = "lower" then some false else if s = "upper" then some true else none

def curOpenAt (t : KT) (m : Map) (upper : Bool) (b : Bound) : Cursor :=
  if upper then upperBound t m b else lowerBound t m b

def curContents (m : Map) : String := s!"{m.length} {hex16 (dumpHash m)}"

/-- an operation of the open mutable cursor -/
def curWithCursor (st : CurState) (f : Cursor → CurState × String) : CurState × String :=
  match st.zc with
  | some c => f c
  | none => (st, "bad-op")

def curWithRo (st : CurState) (f : Cursor → CurState × String) : CurState × String :=
  match st.rc with
  | some c => f c
  | none => (st, "bad-op")

def curStep (st : CurState) (req obs : List String) : CurState × String :=
  let t := st.kt
  match req with
  | ["cfg", kt, _, _, _] =>
    match parseType kt with
    | some k => ({ kt := k }, "ok")
    | none => (st, "bad-op")
  | ["begin"] => if st.zc.isSome || st.inRead then (st, "bad-op") else (st, "ok")
  | ["reopen"] => (st, "ok")
  | ["commit"] => if st.zc.isSome then (st, "bad-op") else ({ st with committed := st.cur }, "ok")
  | ["abort"] => if st.zc.isSome then (st, "bad-op") else ({ st with cur := st.committed }, "ok")
  | ["rbegin"] => ({ st with inRead := true }, "ok")
  | ["rend"] => ({ st with inRead := false, rc := none }, "ok")
  | ["dump"] => (st, answer [String.intercalate " " obs] (curContents st.committed) "dump")
  -- plain table requests between cursor sessions
  | ["insert", k, v] =>
    if st.zc.isSome || st.inRead then (st, "bad-op") else
    match expand k, expand v with
    | some k, some v =>
      if !valid t k then (st, "bad-op") else
      let r := insert t st.cur k v
      ({ st with cur := r.1 }, answer obs (optRepr r.2) "insert")
    | _, _ => (st, "bad-op")
  | ["remove", k] =>
    if st.zc.isSome || st.inRead then (st, "bad-op") else
    match expand k with
    | some k =>
      let r := remove t st.cur k
      ({ st with cur := r.1 }, answer obs (optRepr r.2) "remove")
    | none => (st, "bad-op")
  | ["get", k] =>
    match expand k with
    | some k => (st, answer obs (optRepr (get t st.view k)) "get")
    | none => (st, "bad-op")
  | ["len"] => (st, answer obs (toString st.view.length) "len")
  | ["scan"] => (st, answer [String.intercalate " " obs] (curContents st.view) "scan")
  | ["range", lo, hi, mode, limit] =>
    match parseBound lo, parseBound hi, parseMode mode, limit.toNat? with
    | some lo, some hi, some mode, some limit =>
      (st, answer obs (listRepr (consume (range t st.view lo hi) mode limit)) "range")
    | _, _, _, _ => (st, "bad-op")
  -- mutable cursor
  | ["open", side, b] =>
    if st.zc.isSome || st.inRead then (st, "bad-op") else
    match curParseSide side, parseBound b with
    | some upper, some b => ({ st with zc := some (curOpenAt t st.cur upper b) }, answer obs "ok" "open")
    | _, _ => (st, "bad-op")
  | ["close"] => curWithCursor st fun c => ({ st with cur := c.toMap, zc := none }, answer obs "ok" "close")
  -- dropping the cursor applies its pending inserts as well
  | ["drop"] => curWithCursor st fun c => ({ st with cur := c.toMap, zc := none }, answer obs "ok" "drop")
  | ["peeknext"] => curWithCursor st fun c => (st, answer obs (pairRepr (peekNext c)) "peeknext")
  | ["peekprev"] => curWithCursor st fun c => (st, answer obs (pairRepr (peekPrev c)) "peekprev")
  | ["next"] => curWithCursor st fun c =>
    let r := next c
    ({ st with zc := some r.1 }, answer obs (pairRepr r.2) "next")
  | ["prev"] => curWithCursor st fun c =>
    let r := prev c
    ({ st with zc := some r.1 }, answer obs (pairRepr r.2) "prev")
  | ["insb", k, v] => curWithCursor st fun c =>
    match expand k, expand v with
    | some k, some v =>
      if !valid t k then (st, "bad-op") else
      match insertBefore t c k v with
      | some c' => ({ st with zc := some c' }, answer obs "ok" "insb")
      | none => (st, answer obs "unordered" "insb")
    | _, _ => (st, "bad-op")
  | ["insa", k, v] => curWithCursor st fun c =>
    match expand k, expand v with
    | some k, some v =>
      if !valid t k then (st, "bad-op") else
      match insertAfter t c k v with
      | some c' => ({ st with zc := some c' }, answer obs "ok" "insa")
      | none => (st, answer obs "unordered" "insa")
    | _, _ => (st, "bad-op")
  | ["rmnext"] => curWithCursor st fun c =>
    let r := removeNext c
    ({ st with zc := some r.1 }, answer obs (pairRepr r.2) "rmnext")
  | ["rmprev"] => curWithCursor st fun c =>
    let r := removePrev c
    ({ st with zc := some r.1 }, answer obs (pairRepr r.2) "rmprev")
  -- read-only cursor
  | ["ropen", side, b] =>
    if st.zc.isSome then (st, "bad-op") else
    match curParseSide side, parseBound b with
    | some upper, some b => ({ st with rc := some (curOpenAt t st.view upper b) }, answer obs "ok" "ropen")
    | _, _ => (st, "bad-op")
  | ["rclose"] => curWithRo st fun _ => ({ st with rc := none }, answer obs "ok" "rclose")
  | ["rpeeknext"] => curWithRo st fun c => (st, answer obs (pairRepr (peekNext c)) "rpeeknext")
  | ["rpeekprev"] => curWithRo st fun c => (st, answer obs (pairRepr (peekPrev c)) "rpeekprev")
  | ["rnext"] => curWithRo st fun c =>
    let r := next c
    ({ st with rc := some r.1 }, answer obs (pairRepr r.2) "rnext")
  | ["rprev"] => curWithRo st fun c =>
    let r := prev c
    ({ st with rc := some r.1 }, answer obs (pairRepr r.2) "rprev")
  | _ => (st, "bad-op")

end Redb.Driver
