import RedbModel.Model.KeyType
import Driver.Util
import Driver.KeyVal
/-! Line driver for the key-type model (property C15). -/
namespace Redb.Driver
open Redb.Key

/-- type descriptors: u8..u128 i8..i128 bool char unit str bytes uuid fb<N> opt(T) arr<N>(T) tup(T;T;...) -/
partial def parseKT (cs : List Char) : Option (KT × List Char) :=
  let startsWith (p : String) := p.toList.isPrefixOf cs
  let after (p : String) := cs.drop p.length
  let takeNum (l : List Char) : Nat × List Char :=
    let ds := l.takeWhile Char.isDigit
    ((String.ofList ds).toNat!, l.drop ds.length)
  if startsWith "opt(" then
    match parseKT (after "opt(") with
    | some (t, ')' :: rest) => some (.option t, rest)
    | _ => none
  else if startsWith "arr" then
    let (n, rest) := takeNum (after "arr")
    match rest with
    | '(' :: r =>
      match parseKT r with
      | some (t, ')' :: rest') => some (.array n t, rest')
      | _ => none
    | _ => none
  else if startsWith "tup(" then
    let rec elems (l : List Char) (acc : List KT) : Option (List KT × List Char) :=
      match parseKT l with
      | some (t, ';' :: r) => elems r (acc ++ [t])
      | some (t, ')' :: r) => some (acc ++ [t], r)
      | _ => none
    match elems (after "tup(") [] with
    | some (ts, rest) => some (.tuple ts, rest)
    | none => none
  else if startsWith "fb" then
    let (n, rest) := takeNum (after "fb")
    some (.fixedBytes n, rest)
  else if startsWith "u128" then some (.uint 16, after "u128")
  else if startsWith "u64" then some (.uint 8, after "u64")
  else if startsWith "u32" then some (.uint 4, after "u32")
  else if startsWith "u16" then some (.uint 2, after "u16")
  else if startsWith "uuid" then some (.fixedBytes 16, after "uuid")
  else if startsWith "unit" then some (.unit, after "unit")
  else if startsWith "u8" then some (.uint 1, after "u8")
  else if startsWith "i128" then some (.sint 16, after "i128")
  else if startsWith "i64" then some (.sint 8, after "i64")
  else if startsWith "i32" then some (.sint 4, after "i32")
  else if startsWith "i16" then some (.sint 2, after "i16")
  else if startsWith "i8" then some (.sint 1, after "i8")
  else if startsWith "bool" then some (.bool, after "bool")
  else if startsWith "char" then some (.char, after "char")
  else if startsWith "str" then some (.str, after "str")
  else if startsWith "bytes" then some (.bytes, after "bytes")
  else none

def parseType (s : String) : Option KT :=
  match parseKT s.toList with
  | some (t, []) => some t
  | _ => none

def ordStr : Ordering → String
  | .lt => "lt" | .eq => "eq" | .gt => "gt"

def keyStep (req obs : List String) : String :=
  match req with
  | ["fw", t] =>
    match parseType t with
    | none => "bad-op"
    | some k =>
      let m := optNat (fixedWidth k)
      if [m] = obs then "ok" else s!"DIFF fw model={m} impl={obs}"
  | ["min", t] =>
    match parseType t with
    | none => "bad-op"
    | some k =>
      let m := match minKey k with | some b => hexOrDash b | none => "none"
      if [m] = obs then "ok" else s!"DIFF min model={m} impl={obs}"
  | ["valid", t, h] =>
    match parseType t, ofHex h with
    | some k, some d => if valid k d then "ok" else s!"DIFF valid model rejects an encoding the implementation produced"
    | _, _ => "bad-op"
  | ["cmp", t, a, b] =>
    match parseType t, ofHex a, ofHex b with
    | some k, some x, some y =>
      if !(valid k x && valid k y) then "bad-op" else
      let m := ordStr (cmp k x y)
      if [m] = obs then "ok" else s!"DIFF cmp model={m} impl={obs}"
    | _, _, _ => "bad-op"
  -- value level (Driver/KeyVal.lean): `key enc <desc> <valtext> => <hex>`, `key vcmp <desc> <valtext> <valtext> => lt|eq|gt`
  | ["enc", t, v] =>
    match parseType t with
    | some k => encStep k v obs
    | none => "bad-op"
  | ["vcmp", t, a, b] =>
    match parseType t with
    | some k => vcmpStep k a b obs
    | none => "bad-op"
  | [which, t, a, b] =>
    if which ≠ "sep" ∧ which ≠ "bsep" then "bad-op" else
    match parseType t, ofHex a, ofHex b, obs with
    | some k, some x, some y, [sh] =>
      if !(valid k x && valid k y && cmp k x y == .lt) then "bad-op" else
      match ofHex sh with
      | none => s!"DIFF {which} impl={sh}"
      | some s =>
        let m := if which = "sep" then sep k x y else branchSeparator k x y
        if m = s then "ok"
        else if sepOk k x y s && (which = "sep" || (fixedWidth k).isNone) then "ok-alt"
        else s!"DIFF {which} contract model={hexOrDash m} impl={sh}"
    | _, _, _, _ => "bad-op"
  | _ => "bad-op"

end Redb.Driver
