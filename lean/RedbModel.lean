-- root of the library: every property module (and through them all models and lemmas)
import RedbModel.Props.C02
import RedbModel.Props.C04
import RedbModel.Props.C05
import RedbModel.Props.C06
import RedbModel.Props.C07
import RedbModel.Props.C09
import RedbModel.Props.C10
import RedbModel.Props.C11
import RedbModel.Props.C13
import RedbModel.Props.C14
import RedbModel.Props.C15
import RedbModel.Props.C17
import RedbModel.Props.C18
import RedbModel.Props.Life
import RedbModel.Model.Format
