-- This module serves as the root of the `RedbModel` library.
-- Import modules here that should be built as part of the library.
import RedbModel.Basic
