import Driver.Buddy
import Driver.Region
import Driver.Key
import Driver.Table
import Driver.Multimap
import Driver.Hist
import Driver.Image
import Driver.Cursor
import Driver.Catalog
import Driver.Backend
import Driver.Latch
import Driver.Recover
import Driver.Storage
import Driver.Sched
import Driver.Mt
/-! Line-protocol driver. First token of each line selects the model. -/
open Redb.Driver

structure DState where
  buddy : Option Redb.Buddy.Buddy := none
  tbl : TblState := {}
  mm : MmState := {}
  hist : HistState := {}
  cur : CurState := {}
  cat : CatState := {}
  stor : StState := {}
  bk : BkState := {}
  sch : SchState := {}

def dispatch (st : DState) (line : String) : DState × String :=
  let (req, obs) := splitLine line
  match req with
  | "buddy" :: rest =>
    let (b, out) := buddyStep st.buddy rest obs
    ({ st with buddy := b }, out)
  | "rg" :: rest =>
    -- snapshots of the region level of the allocator (C14), Driver/Region.lean
    (st, rgStep rest)
  | "key" :: rest => (st, keyStep rest obs)
  | "tbl" :: rest =>
    let (t, out) := tblStep st.tbl rest obs
    ({ st with tbl := t }, out)
  | "hist" :: rest =>
    let (t, out) := histStep st.hist (rest ++ (if obs.isEmpty then [] else "=>" :: obs))
    ({ st with hist := t }, out)
  | "cur" :: rest =>
    let (t, out) := curStep st.cur rest obs
    ({ st with cur := t }, out)
  | "cat" :: rest =>
    let (c, out) := catStep st.cat rest obs
    ({ st with cat := c }, out)
  | "bk" :: rest =>
    let (b, out) := bkStep st.bk rest obs
    ({ st with bk := b }, out)
  | "latch" :: rest => (st, latchStep rest)
  | "mt" :: rest => (st, mtStep (rest ++ "=>" :: obs))
  | "crash" :: _ => (st, "skip")
  | "fault" :: _ => (st, "skip")
  | "corrupt" :: _ => (st, "skip")
  | "mm" :: rest =>
    let (t, out) := mmStep st.mm rest obs
    ({ st with mm := t }, out)
  | "sch" :: rest =>
    -- forced schedules replayed on the interleaving model (C03 / C16), Driver/Sched.lean
    let (t, out) := schStep st.sch rest
    ({ st with sch := t }, out)
  | _ => (st, "bad-op")

partial def loop (h : IO.FS.Stream) (out : IO.FS.Stream) (st : DState) : IO Unit := do
  let line ← h.getLine
  if line.isEmpty then
    -- answers of a storage stream (C01) still buffered at end of input
    for o in stFinish st.stor do out.putStrLn o
    return ()
  if line.trimAscii.toString.isEmpty || line.startsWith "#" then
    loop h out st
  else
    match (splitLine line).1 with
    | "st" :: rest =>
      -- recorded storage stream for the protocol monitor (C01), Driver/Storage.lean; `st image`
      -- reads a file; answers are printed when the sync closing the epoch arrives
      let (stor, outs) ← stStep st.stor rest
      for o in outs do out.putStrLn o
      loop h out { st with stor := stor }
    | "img" :: "recover" :: rest =>
      -- function correspondence of the recovery model (C01), Driver/Recover.lean
      out.putStrLn (← recoverStep rest)
      loop h out st
    | "img" :: rest =>
      -- the image checker reads a file, so it is handled here rather than in the pure `dispatch`
      out.putStrLn (← imgStep rest)
      loop h out st
    | _ =>
      let (st', o) := dispatch st line
      out.putStrLn o
      loop h out st'

def main : IO Unit := do
  let out ← IO.getStdout
  loop (← IO.getStdin) out {}
