import RedbModel.Model.Format
import RedbModel.Lemmas.BTree
import RedbModel.Lemmas.KeyType
/-!
Soundness of the executable on-disk format validator `Redb.Format.checkImage` (property C10) and
the binding property of page checksums (C12).

The declarative predicates are stated as `Prop`s here; the theorems say that a successful run of an
executable check implies the predicate, for all images, layouts, page numbers, key types and fuel.
The hash function occurs only as `Redb.Xxh3.checksum` and is never unfolded.
-/
namespace Redb.Format
open Redb.Key Redb.Spec Redb.BTree

/-! ## generic helpers -/

theorem fail_ne_ok {α : Type} (c d : String) (x : α) : (fail c d : Except String α) ≠ .ok x := by
  intro h; cases h

theorem pageNumber_beq_iff (a b : PageNumber) : (a == b) = true ↔ a = b := by
  cases a; cases b
  simp [BEq.beq, instBEqPageNumber.beq]

instance : LawfulBEq PageNumber where
  eq_of_beq := fun h => (pageNumber_beq_iff _ _).1 h
  rfl := (pageNumber_beq_iff _ _).2 rfl

/-! ## 3. well-formedness: `checkTree` decides `BTree.wf` -/

/-- a successful `checkTree` means `BTree.wf` holds at the height of the leftmost leaf -/
theorem checkTree_ok {kt : KT} {what : String} {pt : PTree} (h : checkTree kt what pt = .ok ()) :
    wf kt none none (depthLeft 129 pt.erase) pt.erase = true := by
  unfold checkTree at h
  split at h
  · assumption
  · split at h
    · cases h
    · split at h
      · exact absurd h (fail_ne_ok _ _ _)
      · exact absurd h (fail_ne_ok _ _ _)

mutual
/-- all leaves of the tree are exactly `d` levels below the root -/
def depthIs : Nat → Tree → Prop
  | 0, .leaf _ => True
  | d + 1, .branch cs _ => depthIsAll d cs
  | _ + 1, .leaf _ => False
  | 0, .branch _ _ => False
/-- `depthIs d` for every tree of the list -/
def depthIsAll (d : Nat) : List Tree → Prop
  | [] => True
  | c :: cs => depthIs d c ∧ depthIsAll d cs
end

theorem depthIsAll_iff (d : Nat) (cs : List Tree) : depthIsAll d cs ↔ ∀ c ∈ cs, depthIs d c := by
  induction cs with
  | nil => simp [depthIsAll]
  | cons c cs ih => simp [depthIsAll, ih]

/-- the declarative reading of `depthIs`: a leaf has depth 0, a branch has depth `d + 1` iff every
child has depth `d` -/
theorem depthIs_leaf (d : Nat) (es : List Entry) : depthIs d (.leaf es) ↔ d = 0 := by
  cases d <;> simp [depthIs]

theorem depthIs_branch (d : Nat) (cs : List Tree) (ks : List Bytes) :
    depthIs d (.branch cs ks) ↔ ∃ d', d = d' + 1 ∧ ∀ c ∈ cs, depthIs d' c := by
  cases d with
  | zero => simp [depthIs]
  | succ d => simp [depthIs, depthIsAll_iff]

theorem wfChildren_depth {kt : KT} (d : Nat)
    (ih : ∀ lo hi tr, wf kt lo hi d tr = true → depthIs d tr) :
    ∀ (cs : List Tree) (keys : List Bytes) (lo hi : Option Bytes),
      wfChildren kt lo hi d cs keys = true → depthIsAll d cs := by
  intro cs
  induction cs with
  | nil => intro keys lo hi h; cases keys <;> simp [wfChildren] at h
  | cons c cs ihc =>
    intro keys lo hi h
    cases keys with
    | nil =>
      cases cs with
      | nil =>
        simp only [wfChildren] at h
        exact ⟨ih _ _ _ h, trivial⟩
      | cons c' cs' => simp [wfChildren] at h
    | cons s rest =>
      have hw' : wf kt lo (some s) d c = true ∧ wfChildren kt (some s) hi d cs rest = true := by
        cases cs with
        | nil => cases rest <;> simp [wfChildren] at h
        | cons c' cs' => simpa [wfChildren] using h
      exact ⟨ih _ _ _ hw'.1, ihc _ _ _ hw'.2⟩

/-- `wf` at height `d` forces every leaf to be at depth `d` -/
theorem wf_depthIs {kt : KT} (d : Nat) :
    ∀ (lo hi : Option Bytes) (tr : Tree), wf kt lo hi d tr = true → depthIs d tr := by
  induction d with
  | zero =>
    intro lo hi tr h
    cases tr with
    | leaf es => trivial
    | branch cs ks => simp [wf] at h
  | succ d ih =>
    intro lo hi tr h
    cases tr with
    | leaf es => simp [wf] at h
    | branch cs ks =>
      simp only [wf, Bool.and_eq_true] at h
      exact wfChildren_depth d ih cs ks lo hi h.2

/-! ## the declarative decoding relation -/

/-- the step function of the fold over the children of a branch page in `decodeTree` -/
abbrev Dec := PageNumber → Bytes → List PageNumber → Except String (PTree × List PageNumber)

/-- `DecodeList dec cs s ts s'`: decoding the children `cs` (page, stored checksum) one after the
other with `dec`, threading the list of pages seen, yields the trees `ts` and the final list `s'` -/
inductive DecodeList (dec : Dec) :
    List (PageNumber × Bytes) → List PageNumber → List PTree → List PageNumber → Prop
  | nil (s : List PageNumber) : DecodeList dec [] s [] s
  | cons {c : PageNumber × Bytes} {cs : List (PageNumber × Bytes)} {s s' s'' : List PageNumber}
      {t : PTree} {ts : List PTree} :
      dec c.1 c.2 s = .ok (t, s') → DecodeList dec cs s' ts s'' →
      DecodeList dec (c :: cs) s (t :: ts) s''

theorem foldlM_decode (dec : Dec) (cs : List (PageNumber × Bytes)) :
    ∀ (acc r : List PTree × List PageNumber),
      cs.foldlM (fun (acc : List PTree × List PageNumber) c => do
          let t ← dec c.1 c.2 acc.2
          pure (t.1 :: acc.1, t.2)) acc = .ok r →
      ∃ ts, r.1 = ts.reverse ++ acc.1 ∧ DecodeList dec cs acc.2 ts r.2 := by
  induction cs with
  | nil =>
    intro acc r h
    simp only [List.foldlM_nil, pure, Except.pure, Except.ok.injEq] at h
    subst h
    exact ⟨[], by simp, .nil _⟩
  | cons c cs ih =>
    intro acc r h
    simp only [List.foldlM_cons, bind, Except.bind] at h
    split at h
    · cases h
    · rename_i x hx
      split at hx
      · cases hx
      · rename_i t ht
        simp only [pure, Except.pure, Except.ok.injEq] at hx
        subst hx
        obtain ⟨ts, h1, h2⟩ := ih _ _ h
        refine ⟨t.1 :: ts, by simp [h1], .cons (t := t.1) (s' := t.2) ht h2⟩

/-- inversion of one step of `decodeTree` -/
theorem decodeTree_inv {img : ByteArray} {lay : Layout} {kw vw : Option Nat} {fuel : Nat}
    {p : PageNumber} {ck : Bytes} {seen : List PageNumber} {t : PTree} {pages : List PageNumber}
    (h : decodeTree img lay kw vw fuel p ck seen = .ok (t, pages)) :
    ∃ fuel', fuel = fuel' + 1 ∧ p ∉ seen ∧ ∃ page, getPage img lay p = some page ∧
      ((byteAt page 0 = 1 ∧ ∃ lf, decodeLeaf kw vw page = some lf ∧
          pageChecksum page lf.used = ck ∧ t = .leaf p lf.entries ∧ pages = p :: seen) ∨
       (byteAt page 0 = 2 ∧ ∃ br, decodeBranch kw page = some br ∧
          pageChecksum page br.used = ck ∧ ∃ ts, t = .branch p ts br.keys ∧
          DecodeList (decodeTree img lay kw vw fuel') br.children (p :: seen) ts pages)) := by
  cases fuel with
  | zero => exact absurd h (fail_ne_ok _ _ _)
  | succ fuel =>
    refine ⟨fuel, rfl, ?_⟩
    rw [decodeTree] at h
    split at h
    · exact absurd h (fail_ne_ok _ _ _)
    rename_i hseen
    refine ⟨by simpa using hseen, ?_⟩
    split at h
    · exact absurd h (fail_ne_ok _ _ _)
    rename_i page hpage
    refine ⟨page, hpage, ?_⟩
    split at h
    · rename_i hb
      left
      refine ⟨by simpa using hb, ?_⟩
      split at h
      · exact absurd h (fail_ne_ok _ _ _)
      rename_i lf hlf
      split at h
      · exact absurd h (fail_ne_ok _ _ _)
      rename_i hck
      simp only [Except.ok.injEq, Prod.mk.injEq] at h
      exact ⟨lf, hlf, by simpa using hck, h.1.symm, h.2.symm⟩
    · split at h
      · rename_i hb
        right
        refine ⟨by simpa using hb, ?_⟩
        split at h
        · exact absurd h (fail_ne_ok _ _ _)
        rename_i br hbr
        split at h
        · exact absurd h (fail_ne_ok _ _ _)
        rename_i hck
        refine ⟨br, hbr, by simpa using hck, ?_⟩
        simp only [bind, Except.bind] at h
        split at h
        · cases h
        rename_i r hr
        simp only [pure, Except.pure, Except.ok.injEq, Prod.mk.injEq] at h
        obtain ⟨ts, h1, h2⟩ := foldlM_decode _ _ _ _ hr
        refine ⟨ts, ?_, ?_⟩
        · rw [← h.1, h1]; simp
        · rw [← h.2]; exact h2
      · exact absurd h (fail_ne_ok _ _ _)

/-! ## 1. every stored checksum matches the bytes it covers -/

mutual
/-- `ChecksumsMatch img lay kw vw p ck t`: `t` is the tree read from page `p`, and the checksum
`ck` that the parent of `p` (or the `BtreeHeader`) stores for it is the XXH3-128 of the covered
prefix `page[0 .. used]` of `p`; recursively so for every (child page, child checksum) pair stored
in a branch page. -/
inductive ChecksumsMatch (img : ByteArray) (lay : Layout) (kw vw : Option Nat) :
    PageNumber → Bytes → PTree → Prop
  | leaf {p : PageNumber} {ck page : Bytes} {lf : LeafPage} :
      getPage img lay p = some page → byteAt page 0 = 1 → decodeLeaf kw vw page = some lf →
      ck = Redb.Xxh3.checksum (page.take lf.used).toByteArray →
      ChecksumsMatch img lay kw vw p ck (.leaf p lf.entries)
  | branch {p : PageNumber} {ck page : Bytes} {br : BranchPage} {ts : List PTree} :
      getPage img lay p = some page → byteAt page 0 = 2 → decodeBranch kw page = some br →
      ck = Redb.Xxh3.checksum (page.take br.used).toByteArray →
      ChecksumsMatchList img lay kw vw br.children ts →
      ChecksumsMatch img lay kw vw p ck (.branch p ts br.keys)
/-- pointwise `ChecksumsMatch` of the stored (child page, child checksum) pairs and the subtrees -/
inductive ChecksumsMatchList (img : ByteArray) (lay : Layout) (kw vw : Option Nat) :
    List (PageNumber × Bytes) → List PTree → Prop
  | nil : ChecksumsMatchList img lay kw vw [] []
  | cons {c : PageNumber × Bytes} {cs : List (PageNumber × Bytes)} {t : PTree} {ts : List PTree} :
      ChecksumsMatch img lay kw vw c.1 c.2 t → ChecksumsMatchList img lay kw vw cs ts →
      ChecksumsMatchList img lay kw vw (c :: cs) (t :: ts)
end

theorem decodeList_checksums {img : ByteArray} {lay : Layout} {kw vw : Option Nat} {dec : Dec}
    (ih : ∀ p ck seen t pages, dec p ck seen = .ok (t, pages) → ChecksumsMatch img lay kw vw p ck t)
    {cs : List (PageNumber × Bytes)} {s s' : List PageNumber} {ts : List PTree}
    (h : DecodeList dec cs s ts s') : ChecksumsMatchList img lay kw vw cs ts := by
  induction h with
  | nil => exact .nil
  | cons hd _ iht => exact .cons (ih _ _ _ _ _ hd) iht

/-- a successful `decodeTree` establishes `ChecksumsMatch` for the whole subtree -/
theorem decodeTree_checksums (img : ByteArray) (lay : Layout) (kw vw : Option Nat) (fuel : Nat) :
    ∀ (p : PageNumber) (ck : Bytes) (seen : List PageNumber) (t : PTree) (pages : List PageNumber),
      decodeTree img lay kw vw fuel p ck seen = .ok (t, pages) →
      ChecksumsMatch img lay kw vw p ck t := by
  induction fuel with
  | zero => intro p ck seen t pages h; exact absurd h (fail_ne_ok _ _ _)
  | succ fuel ih =>
    intro p ck seen t pages h
    obtain ⟨fuel', hf, _, page, hpage, hcase⟩ := decodeTree_inv h
    cases hf
    rcases hcase with ⟨hb, lf, hlf, hck, rfl, _⟩ | ⟨hb, br, hbr, hck, ts, rfl, hl⟩
    · exact .leaf hpage hb hlf (by rw [← hck]; rfl)
    · exact .branch hpage hb hbr (by rw [← hck]; rfl) (decodeList_checksums ih hl)

/-! ## 2. no page is referenced twice -/

mutual
/-- the pages of a decoded tree, parents before children, children left to right -/
def PTree.pages : PTree → List PageNumber
  | .leaf p _ => [p]
  | .branch p cs _ => p :: pagesList cs
def pagesList : List PTree → List PageNumber
  | [] => []
  | c :: cs => c.pages ++ pagesList cs
end

/-- the page a decoded node was read from -/
def PTree.page : PTree → PageNumber
  | .leaf p _ => p
  | .branch p _ _ => p

/-- what `decodeTree` does to the list of pages seen: it pushes the pages of the tree, all new and
all different -/
def FreshPages (seen : List PageNumber) (new : List PageNumber) (pages : List PageNumber) : Prop :=
  pages = new.reverse ++ seen ∧ new.Nodup ∧ ∀ x ∈ new, x ∉ seen

theorem decodeList_pages {dec : Dec}
    (ih : ∀ p ck seen t pages, dec p ck seen = .ok (t, pages) → FreshPages seen t.pages pages)
    {cs : List (PageNumber × Bytes)} {s s' : List PageNumber} {ts : List PTree}
    (h : DecodeList dec cs s ts s') : FreshPages s (pagesList ts) s' := by
  induction h with
  | nil => simp [FreshPages, pagesList]
  | cons hd _ iht =>
    obtain ⟨a1, a2, a3⟩ := ih _ _ _ _ _ hd
    obtain ⟨b1, b2, b3⟩ := iht
    subst a1
    refine ⟨by simp [pagesList, b1], ?_, ?_⟩
    · simp only [pagesList]
      refine List.nodup_append.2 ⟨a2, b2, ?_⟩
      intro x hx y hy hxy
      subst hxy
      exact b3 x hy (by simp [hx])
    · intro x hx
      simp only [pagesList, List.mem_append] at hx
      rcases hx with hx | hx
      · exact a3 x hx
      · intro hs; exact b3 x hx (by simp [hs])

theorem decodeTree_pages (img : ByteArray) (lay : Layout) (kw vw : Option Nat) (fuel : Nat) :
    ∀ (p : PageNumber) (ck : Bytes) (seen : List PageNumber) (t : PTree) (pages : List PageNumber),
      decodeTree img lay kw vw fuel p ck seen = .ok (t, pages) → FreshPages seen t.pages pages := by
  induction fuel with
  | zero => intro p ck seen t pages h; exact absurd h (fail_ne_ok _ _ _)
  | succ fuel ih =>
    intro p ck seen t pages h
    obtain ⟨fuel', hf, hseen, page, hpage, hcase⟩ := decodeTree_inv h
    cases hf
    rcases hcase with ⟨hb, lf, hlf, hck, rfl, rfl⟩ | ⟨hb, br, hbr, hck, ts, rfl, hl⟩
    · simp [FreshPages, PTree.pages, hseen]
    · obtain ⟨b1, b2, b3⟩ := decodeList_pages ih hl
      refine ⟨by simp [PTree.pages, b1], ?_, ?_⟩
      · simp only [PTree.pages, List.nodup_cons]
        exact ⟨fun hm => b3 p hm (by simp), b2⟩
      · intro x hx
        simp only [PTree.pages, List.mem_cons] at hx
        rcases hx with rfl | hx
        · exact hseen
        · intro hs; exact b3 x hx (by simp [hs])

theorem checksumsMatch_page {img : ByteArray} {lay : Layout} {kw vw : Option Nat}
    {p : PageNumber} {ck : Bytes} {t : PTree} (h : ChecksumsMatch img lay kw vw p ck t) :
    t.page = p := by
  cases h <;> rfl

/-- the address ranges `[start, start + len)` of two pages do not overlap -/
def RangeDisjoint (lay : Layout) (a b : PageNumber) : Prop :=
  (lay.pageAddr a).1 + (lay.pageAddr a).2 ≤ (lay.pageAddr b).1 ∨
  (lay.pageAddr b).1 + (lay.pageAddr b).2 ≤ (lay.pageAddr a).1

/-- the pages of the list occupy pairwise non-overlapping address ranges -/
def RangesDisjoint (lay : Layout) (pages : List PageNumber) : Prop :=
  pages.Pairwise (RangeDisjoint lay)

abbrev Item := Nat × Nat × PageNumber

theorem insertSorted_perm (x : Item) (l : List Item) : (insertSorted x l).Perm (x :: l) := by
  induction l with
  | nil => simp [insertSorted]
  | cons y ys ih =>
    simp only [insertSorted]
    split
    · exact List.Perm.refl _
    · exact ((List.Perm.cons y ih).trans (List.Perm.swap x y ys))

theorem insertSorted_sorted (x : Item) (l : List Item)
    (h : l.Pairwise (fun a b => a.1 ≤ b.1)) : (insertSorted x l).Pairwise (fun a b => a.1 ≤ b.1) := by
  induction l with
  | nil => simp [insertSorted]
  | cons y ys ih =>
    obtain ⟨h1, h2⟩ := List.pairwise_cons.1 h
    simp only [insertSorted]
    split
    · rename_i hxy
      refine List.pairwise_cons.2 ⟨?_, h⟩
      intro z hz
      rcases List.mem_cons.1 hz with rfl | hz
      · exact hxy
      · exact Nat.le_trans hxy (h1 z hz)
    · rename_i hxy
      refine List.pairwise_cons.2 ⟨?_, ih h2⟩
      intro z hz
      rcases List.mem_cons.1 ((insertSorted_perm x ys).subset hz) with rfl | hz
      · omega
      · exact h1 z hz

theorem foldl_insertSorted (f : PageNumber → Item) (pages : List PageNumber) :
    ∀ acc : List Item, acc.Pairwise (fun a b => a.1 ≤ b.1) →
      (pages.foldl (fun acc p => insertSorted (f p) acc) acc).Perm (pages.map f ++ acc) ∧
      (pages.foldl (fun acc p => insertSorted (f p) acc) acc).Pairwise (fun a b => a.1 ≤ b.1) := by
  induction pages with
  | nil => intro acc h; exact ⟨by simp, h⟩
  | cons p ps ih =>
    intro acc h
    simp only [List.foldl_cons, List.map_cons]
    obtain ⟨i1, i2⟩ := ih _ (insertSorted_sorted (f p) acc h)
    refine ⟨i1.trans ?_, i2⟩
    refine (List.Perm.append_left _ (insertSorted_perm (f p) acc)).trans ?_
    exact List.perm_middle

theorem firstOverlap_none (l : List Item) (hs : l.Pairwise (fun a b => a.1 ≤ b.1))
    (h : firstOverlap l = none) : l.Pairwise (fun a b => a.1 + a.2.1 ≤ b.1) := by
  induction l with
  | nil => exact List.Pairwise.nil
  | cons a l ih =>
    obtain ⟨h1, h2⟩ := List.pairwise_cons.1 hs
    cases l with
    | nil => simp
    | cons b rest =>
      simp only [firstOverlap] at h
      split at h
      · cases h
      rename_i hab
      refine List.pairwise_cons.2 ⟨?_, ih h2 h⟩
      obtain ⟨h3, _⟩ := List.pairwise_cons.1 h2
      intro z hz
      rcases List.mem_cons.1 hz with rfl | hz
      · omega
      · have := h3 z hz; omega

theorem pagesDisjoint_none (lay : Layout) (pages : List PageNumber)
    (h : pagesDisjoint lay pages = none) : RangesDisjoint lay pages := by
  unfold pagesDisjoint at h
  obtain ⟨hp, hs⟩ := foldl_insertSorted (fun p => ((lay.pageAddr p).1, (lay.pageAddr p).2, p)) pages [] List.Pairwise.nil
  have h1 := firstOverlap_none _ hs h
  have h2 : (pages.map (fun p => ((lay.pageAddr p).1, (lay.pageAddr p).2, p))).Pairwise
      (fun a b : Item => a.1 + a.2.1 ≤ b.1 ∨ b.1 + b.2.1 ≤ a.1) := by
    have h3 := h1.imp (S := fun a b : Item => a.1 + a.2.1 ≤ b.1 ∨ b.1 + b.2.1 ≤ a.1) (fun h => Or.inl h)
    have := (List.Perm.pairwise_iff (R := fun a b : Item => a.1 + a.2.1 ≤ b.1 ∨ b.1 + b.2.1 ≤ a.1)
      (fun h => h.symm) hp).1 h3
    simpa using this
  rw [List.pairwise_map] at h2
  exact h2

open Redb.Key Redb.Spec Redb.BTree

/-! ## prefix lemmas: what a decoder reads lies inside the covered prefix -/

theorem take_drop_take (d : Bytes) (m off k : Nat) (h : off + k ≤ m) :
    ((d.take m).drop off).take k = (d.drop off).take k := by
  rw [List.drop_take, List.take_take]
  congr 1; omega

theorem take_take_le (d : Bytes) (m k : Nat) (h : k ≤ m) : (d.take m).take k = d.take k := by
  rw [List.take_take]; congr 1; omega

theorem byteAt_take (d : Bytes) (m off : Nat) (h : off < m) : byteAt (d.take m) off = byteAt d off := by
  simp [byteAt, List.getD_eq_getElem?_getD, h]

theorem u16At_take (d : Bytes) (m off : Nat) (h : off + 2 ≤ m) : u16At (d.take m) off = u16At d off := by
  simp only [u16At, take_drop_take d m off 2 h]

theorem readU32s_take (n : Nat) : ∀ (d : Bytes) (m : Nat), 4 * n ≤ m →
    readU32s n (d.take m) = readU32s n d := by
  induction n with
  | zero => intros; rfl
  | succ n ih =>
    intro d m h
    simp only [readU32s]
    rw [take_take_le d m 4 (by omega), List.drop_take, ih _ _ (by omega)]

theorem chunks_take (sz n : Nat) : ∀ (d : Bytes) (m : Nat), sz * n ≤ m →
    chunks sz n (d.take m) = chunks sz n d := by
  induction n with
  | zero => intros; rfl
  | succ n ih =>
    intro d m h
    simp only [chunks]
    have : sz * (n + 1) = sz * n + sz := by rw [Nat.mul_succ]
    rw [take_take_le d m sz (by omega), List.drop_take, ih _ _ (by omega)]

theorem monotoneFrom_getLastD : ∀ (l : List Nat) (s : Nat), monotoneFrom s l = true → s ≤ l.getLastD s := by
  intro l
  induction l with
  | nil => intro s _; simp
  | cons e es ih =>
    intro s h
    simp only [monotoneFrom, Bool.and_eq_true, decide_eq_true_eq] at h
    have := ih e h.2
    simp only [List.getLastD_cons]
    omega

theorem monotoneFrom_append : ∀ (a b : List Nat) (s : Nat),
    monotoneFrom s (a ++ b) = (monotoneFrom s a && monotoneFrom (a.getLastD s) b) := by
  intro a
  induction a with
  | nil => intro b s; simp [monotoneFrom]
  | cons e es ih =>
    intro b s
    simp only [List.cons_append, monotoneFrom, ih, List.getLastD_cons, Bool.and_assoc]

theorem cutAt_take : ∀ (ends : List Nat) (d : Bytes) (pos m : Nat), monotoneFrom pos ends = true →
    ends.getLastD pos ≤ pos + m → cutAt (d.take m) pos ends = cutAt d pos ends := by
  intro ends
  induction ends with
  | nil => intros; rfl
  | cons e es ih =>
    intro d pos m hm hl
    simp only [monotoneFrom, Bool.and_eq_true, decide_eq_true_eq] at hm
    have h1 := monotoneFrom_getLastD es e hm.2
    simp only [List.getLastD_cons] at hl
    simp only [cutAt]
    rw [take_take_le d m (e - pos) (by omega), List.drop_take, ih _ _ _ hm.2 (by omega)]


open Redb.Key Redb.Spec Redb.BTree

/-! ## leaf pages: the decoder in named pieces -/

/-- start of the key section of a leaf with `n` pairs -/
def leafKss (kw vw : Option Nat) (n : Nat) : Nat :=
  4 + (if kw.isNone then 4 * n else 0) + (if vw.isNone then 4 * n else 0)

def leafKeyEnds (kw vw : Option Nat) (page : Bytes) : List Nat :=
  match kw with
  | some w => fixedEnds (leafKss kw vw (u16At page 2)) w (u16At page 2)
  | none => readU32s (u16At page 2) (page.drop 4)

def leafKeyEndLast (kw vw : Option Nat) (page : Bytes) : Nat :=
  (leafKeyEnds kw vw page).getLastD (leafKss kw vw (u16At page 2))

def leafValEnds (kw vw : Option Nat) (page : Bytes) : List Nat :=
  match vw with
  | some v => fixedEnds (leafKeyEndLast kw vw page) v (u16At page 2)
  | none => readU32s (u16At page 2) (page.drop (4 + (if kw.isNone then 4 * u16At page 2 else 0)))

def leafUsed (kw vw : Option Nat) (page : Bytes) : Nat :=
  (leafValEnds kw vw page).getLastD (leafKeyEndLast kw vw page)

def leafEntries (kw vw : Option Nat) (page : Bytes) : List Entry :=
  (cutAt (page.drop (leafKss kw vw (u16At page 2))) (leafKss kw vw (u16At page 2)) (leafKeyEnds kw vw page)).zip
    (cutAt (page.drop (leafKeyEndLast kw vw page)) (leafKeyEndLast kw vw page) (leafValEnds kw vw page))

theorem decodeLeaf_eq (kw vw : Option Nat) (page : Bytes) :
    decodeLeaf kw vw page =
      if page.length < 4 || byteAt page 0 != 1 then none else
      if u16At page 2 == 0 || page.length < leafKss kw vw (u16At page 2) then none else
      if !(monotoneFrom (leafKss kw vw (u16At page 2)) (leafKeyEnds kw vw page ++ leafValEnds kw vw page))
          || leafUsed kw vw page > page.length then none else
      some { entries := leafEntries kw vw page, used := leafUsed kw vw page } := by
  cases kw <;> cases vw <;> rfl

/-- the conditions under which a leaf page decodes -/
structure LeafOk (kw vw : Option Nat) (page : Bytes) : Prop where
  len : 4 ≤ page.length
  type : byteAt page 0 = 1
  nonempty : u16At page 2 ≠ 0
  kss : leafKss kw vw (u16At page 2) ≤ page.length
  mono : monotoneFrom (leafKss kw vw (u16At page 2)) (leafKeyEnds kw vw page ++ leafValEnds kw vw page) = true
  used : leafUsed kw vw page ≤ page.length

theorem decodeLeaf_some_iff (kw vw : Option Nat) (page : Bytes) (lf : LeafPage) :
    decodeLeaf kw vw page = some lf ↔
      LeafOk kw vw page ∧ lf = { entries := leafEntries kw vw page, used := leafUsed kw vw page } := by
  rw [decodeLeaf_eq]
  constructor
  · intro h
    split at h
    · cases h
    rename_i h1
    split at h
    · cases h
    rename_i h2
    split at h
    · cases h
    rename_i h3
    simp only [Bool.or_eq_true, decide_eq_true_eq, bne_iff_ne, ne_eq, not_or, Nat.not_lt,
      Decidable.not_not, beq_iff_eq, Bool.not_eq_true', Bool.not_eq_false, gt_iff_lt] at h1 h2 h3
    exact ⟨⟨h1.1, h1.2, h2.1, h2.2, h3.1, h3.2⟩, by cases h; rfl⟩
  · rintro ⟨⟨a, b, c, d, e, f⟩, rfl⟩
    rw [if_neg, if_neg, if_neg]
    · simp [e]; omega
    · simp [c]; omega
    · simp [b]; omega


open Redb.Key Redb.Spec Redb.BTree

theorem leafKss_ge (kw vw : Option Nat) (n : Nat) : 4 ≤ leafKss kw vw n := by
  unfold leafKss; omega

/-- the order facts a decodable leaf satisfies: `4 ≤ kss ≤ key_end(last) ≤ used` -/
theorem LeafOk.bounds {kw vw : Option Nat} {page : Bytes} (h : LeafOk kw vw page) :
    monotoneFrom (leafKss kw vw (u16At page 2)) (leafKeyEnds kw vw page) = true ∧
    monotoneFrom (leafKeyEndLast kw vw page) (leafValEnds kw vw page) = true ∧
    leafKss kw vw (u16At page 2) ≤ leafKeyEndLast kw vw page ∧
    leafKeyEndLast kw vw page ≤ leafUsed kw vw page := by
  have hm := h.mono
  rw [monotoneFrom_append, Bool.and_eq_true] at hm
  exact ⟨hm.1, hm.2, monotoneFrom_getLastD _ _ hm.1, monotoneFrom_getLastD _ _ hm.2⟩

theorem leafKeyEnds_take (kw vw : Option Nat) (page : Bytes) (m : Nat)
    (hm : leafKss kw vw (u16At page 2) ≤ m) :
    leafKeyEnds kw vw (page.take m) = leafKeyEnds kw vw page := by
  have h4 := leafKss_ge kw vw (u16At page 2)
  have hn : u16At (page.take m) 2 = u16At page 2 := u16At_take _ _ _ (by omega)
  cases kw with
  | some w => simp only [leafKeyEnds, hn]
  | none =>
    simp only [leafKeyEnds, hn]
    rw [List.drop_take, readU32s_take]
    simp [leafKss] at hm; omega

theorem leafValEnds_take (kw vw : Option Nat) (page : Bytes) (m : Nat)
    (hm : leafKss kw vw (u16At page 2) ≤ m) :
    leafValEnds kw vw (page.take m) = leafValEnds kw vw page := by
  have h4 := leafKss_ge kw vw (u16At page 2)
  have hn : u16At (page.take m) 2 = u16At page 2 := u16At_take _ _ _ (by omega)
  have hk := leafKeyEnds_take kw vw page m hm
  cases vw with
  | some v => simp only [leafValEnds, leafKeyEndLast, hn, hk]
  | none =>
    simp only [leafValEnds, hn]
    rw [List.drop_take, readU32s_take]
    cases kw <;> simp [leafKss] at hm ⊢ <;> omega

theorem leaf_take {kw vw : Option Nat} {page : Bytes} (h : LeafOk kw vw page) (m : Nat)
    (hm : leafUsed kw vw page ≤ m) (hl : m ≤ page.length) :
    LeafOk kw vw (page.take m) ∧ leafEntries kw vw (page.take m) = leafEntries kw vw page ∧
    leafUsed kw vw (page.take m) = leafUsed kw vw page := by
  obtain ⟨b1, b2, b3, b4⟩ := h.bounds
  have h4 := leafKss_ge kw vw (u16At page 2)
  have hkm : leafKss kw vw (u16At page 2) ≤ m := by omega
  have hn : u16At (page.take m) 2 = u16At page 2 := u16At_take _ _ _ (by omega)
  have hk := leafKeyEnds_take kw vw page m hkm
  have hv := leafValEnds_take kw vw page m hkm
  have hkl : leafKeyEndLast kw vw (page.take m) = leafKeyEndLast kw vw page := by
    simp only [leafKeyEndLast, hn, hk]
  have hu : leafUsed kw vw (page.take m) = leafUsed kw vw page := by
    simp only [leafUsed, hkl, hv]
  have hlen : (page.take m).length = m := by simp [hl]
  refine ⟨⟨by omega, ?_, ?_, by rw [hn, hlen]; omega, ?_, by rw [hu, hlen]; omega⟩, ?_, hu⟩
  · rw [byteAt_take _ _ _ (by omega)]; exact h.type
  · rw [hn]; exact h.nonempty
  · rw [hn, hk, hv]; exact h.mono
  · simp only [leafEntries, hn, hk, hv, hkl, List.drop_take]
    rw [cutAt_take _ _ _ _ b1 (by unfold leafKeyEndLast at b3 b4; omega),
      cutAt_take _ _ _ _ b2 (by unfold leafUsed at hm b4; omega)]

/-- a leaf decodes from the covered prefix `page[0 .. used]` alone, to the same result -/
theorem decodeLeaf_take {kw vw : Option Nat} {page : Bytes} {lf : LeafPage}
    (h : decodeLeaf kw vw page = some lf) : decodeLeaf kw vw (page.take lf.used) = some lf := by
  obtain ⟨hok, rfl⟩ := (decodeLeaf_some_iff _ _ _ _).1 h
  obtain ⟨a, b, c⟩ := leaf_take hok (leafUsed kw vw page) (Nat.le_refl _) hok.used
  exact (decodeLeaf_some_iff _ _ _ _).2 ⟨a, by simp only [b, c]⟩

theorem decodeLeaf_used_le {kw vw : Option Nat} {page : Bytes} {lf : LeafPage}
    (h : decodeLeaf kw vw page = some lf) : 4 ≤ lf.used ∧ lf.used ≤ page.length := by
  obtain ⟨hok, rfl⟩ := (decodeLeaf_some_iff _ _ _ _).1 h
  obtain ⟨b1, b2, b3, b4⟩ := hok.bounds
  have h4 := leafKss_ge kw vw (u16At page 2)
  exact ⟨by simp only; omega, hok.used⟩


open Redb.Key Redb.Spec Redb.BTree

/-! ## branch pages: the decoder in named pieces -/

/-- start of the key section of a branch with `n` routing keys -/
def branchKss (kw : Option Nat) (n : Nat) : Nat :=
  8 + 24 * (n + 1) + (if kw.isNone then 4 * n else 0)

def branchKeyEnds (kw : Option Nat) (page : Bytes) : List Nat :=
  match kw with
  | some w => fixedEnds (branchKss kw (u16At page 2)) w (u16At page 2)
  | none => readU32s (u16At page 2) (page.drop (8 + 24 * (u16At page 2 + 1)))

def branchUsed (kw : Option Nat) (page : Bytes) : Nat :=
  (branchKeyEnds kw page).getLastD (branchKss kw (u16At page 2))

def branchChildren (page : Bytes) : List (PageNumber × Bytes) :=
  ((chunks 8 (u16At page 2 + 1) (page.drop (8 + 16 * (u16At page 2 + 1)))).map
      (fun b => PageNumber.ofNat (leNat b))).zip (chunks 16 (u16At page 2 + 1) (page.drop 8))

def branchKeys (kw : Option Nat) (page : Bytes) : List Bytes :=
  cutAt (page.drop (branchKss kw (u16At page 2))) (branchKss kw (u16At page 2)) (branchKeyEnds kw page)

theorem decodeBranch_eq (kw : Option Nat) (page : Bytes) :
    decodeBranch kw page =
      if page.length < 8 || byteAt page 0 != 2 then none else
      if u16At page 2 == 0 || page.length < branchKss kw (u16At page 2) then none else
      if !(monotoneFrom (branchKss kw (u16At page 2)) (branchKeyEnds kw page))
          || branchUsed kw page > page.length then none else
      some { children := branchChildren page, keys := branchKeys kw page, used := branchUsed kw page } := by
  cases kw <;> rfl

/-- the conditions under which a branch page decodes -/
structure BranchOk (kw : Option Nat) (page : Bytes) : Prop where
  len : 8 ≤ page.length
  type : byteAt page 0 = 2
  nonempty : u16At page 2 ≠ 0
  kss : branchKss kw (u16At page 2) ≤ page.length
  mono : monotoneFrom (branchKss kw (u16At page 2)) (branchKeyEnds kw page) = true
  used : branchUsed kw page ≤ page.length

theorem decodeBranch_some_iff (kw : Option Nat) (page : Bytes) (br : BranchPage) :
    decodeBranch kw page = some br ↔
      BranchOk kw page ∧
      br = { children := branchChildren page, keys := branchKeys kw page, used := branchUsed kw page } := by
  rw [decodeBranch_eq]
  constructor
  · intro h
    split at h
    · cases h
    rename_i h1
    split at h
    · cases h
    rename_i h2
    split at h
    · cases h
    rename_i h3
    simp only [Bool.or_eq_true, decide_eq_true_eq, bne_iff_ne, ne_eq, not_or, Nat.not_lt,
      Decidable.not_not, beq_iff_eq, Bool.not_eq_true', Bool.not_eq_false, gt_iff_lt] at h1 h2 h3
    exact ⟨⟨h1.1, h1.2, h2.1, h2.2, h3.1, h3.2⟩, by cases h; rfl⟩
  · rintro ⟨⟨a, b, c, d, e, f⟩, rfl⟩
    rw [if_neg, if_neg, if_neg]
    · simp [e]; omega
    · simp [c]; omega
    · simp [b]; omega

theorem branchKss_ge (kw : Option Nat) (n : Nat) : 8 + 24 * (n + 1) ≤ branchKss kw n := by
  unfold branchKss; omega

theorem branchKeyEnds_take (kw : Option Nat) (page : Bytes) (m : Nat)
    (hm : branchKss kw (u16At page 2) ≤ m) :
    branchKeyEnds kw (page.take m) = branchKeyEnds kw page := by
  have h4 := branchKss_ge kw (u16At page 2)
  have hn : u16At (page.take m) 2 = u16At page 2 := u16At_take _ _ _ (by omega)
  cases kw with
  | some w => simp only [branchKeyEnds, hn]
  | none =>
    simp only [branchKeyEnds, hn]
    rw [List.drop_take, readU32s_take]
    simp [branchKss] at hm; omega

theorem branch_take {kw : Option Nat} {page : Bytes} (h : BranchOk kw page) (m : Nat)
    (hm : branchUsed kw page ≤ m) (hl : m ≤ page.length) :
    BranchOk kw (page.take m) ∧ branchChildren (page.take m) = branchChildren page ∧
    branchKeys kw (page.take m) = branchKeys kw page ∧
    branchUsed kw (page.take m) = branchUsed kw page := by
  have b1 := h.mono
  have b2 : branchKss kw (u16At page 2) ≤ branchUsed kw page := monotoneFrom_getLastD _ _ b1
  have h4 := branchKss_ge kw (u16At page 2)
  have hkm : branchKss kw (u16At page 2) ≤ m := by omega
  have hn : u16At (page.take m) 2 = u16At page 2 := u16At_take _ _ _ (by omega)
  have hk := branchKeyEnds_take kw page m hkm
  have hu : branchUsed kw (page.take m) = branchUsed kw page := by
    simp only [branchUsed, hn, hk]
  have hlen : (page.take m).length = m := by simp [hl]
  refine ⟨⟨by omega, ?_, ?_, by rw [hn, hlen]; omega, ?_, by rw [hu, hlen]; omega⟩, ?_, ?_, hu⟩
  · rw [byteAt_take _ _ _ (by omega)]; exact h.type
  · rw [hn]; exact h.nonempty
  · rw [hn, hk]; exact h.mono
  · simp only [branchChildren, hn, List.drop_take]
    rw [chunks_take _ _ _ _ (by omega), chunks_take _ _ _ _ (by omega)]
  · simp only [branchKeys, hn, hk, List.drop_take]
    rw [cutAt_take _ _ _ _ b1 (by unfold branchUsed at hm b2; omega)]

/-- a branch decodes from the covered prefix `page[0 .. used]` alone, to the same result -/
theorem decodeBranch_take {kw : Option Nat} {page : Bytes} {br : BranchPage}
    (h : decodeBranch kw page = some br) : decodeBranch kw (page.take br.used) = some br := by
  obtain ⟨hok, rfl⟩ := (decodeBranch_some_iff _ _ _).1 h
  obtain ⟨a, b, c, d⟩ := branch_take hok (branchUsed kw page) (Nat.le_refl _) hok.used
  exact (decodeBranch_some_iff _ _ _).2 ⟨a, by simp only [b, c, d]⟩

theorem decodeBranch_used_le {kw : Option Nat} {page : Bytes} {br : BranchPage}
    (h : decodeBranch kw page = some br) : 8 ≤ br.used ∧ br.used ≤ page.length := by
  obtain ⟨hok, rfl⟩ := (decodeBranch_some_iff _ _ _).1 h
  have b2 : branchKss kw (u16At page 2) ≤ branchUsed kw page := monotoneFrom_getLastD _ _ hok.mono
  have h4 := branchKss_ge kw (u16At page 2)
  exact ⟨by simp only; omega, hok.used⟩


open Redb.Key Redb.Spec Redb.BTree

/-! ## 6. binding (C12): equal checksums ⇒ equal covered bytes ⇒ equal trees -/

/-- the standard idealisation of the hash: no two byte strings share a checksum. Always an explicit
hypothesis, never assumed globally. -/
abbrev HashInjective : Prop := Function.Injective (fun (b : ByteArray) => Redb.Xxh3.checksum b)

/-- the bytes of page `pn` covered by its checksum: `page[0 .. used]`, where `used` is
`value_end(last)` of a leaf and `key_end(last)` of a branch -/
def coveredPrefix (img : ByteArray) (lay : Layout) (kw vw : Option Nat) (pn : PageNumber) :
    Option Bytes :=
  match getPage img lay pn with
  | none => none
  | some page =>
    if byteAt page 0 = 1 then (decodeLeaf kw vw page).map (fun lf => page.take lf.used)
    else if byteAt page 0 = 2 then (decodeBranch kw page).map (fun br => page.take br.used)
    else none

theorem checksum_binding (hinj : HashInjective) {page page' : Bytes} {u u' : Nat}
    (hu : u ≤ page.length) (hu' : u' ≤ page'.length)
    (h : pageChecksum page u = pageChecksum page' u') : u = u' ∧ page.take u = page'.take u' := by
  have h1 : (page.take u).toByteArray = (page'.take u').toByteArray := hinj h
  have h2 : page.take u = page'.take u' := List.toByteArray_inj.1 h1
  have h3 := congrArg List.length h2
  simp only [List.length_take] at h3
  exact ⟨by omega, h2⟩

/-- the node-level consequence: two successful decodings of a page under the same stored checksum
read the same covered bytes and produce the same node -/
theorem node_binding (hinj : HashInjective) {kw vw : Option Nat} {page page' : Bytes} :
    (∀ lf lf', decodeLeaf kw vw page = some lf → decodeLeaf kw vw page' = some lf' →
      pageChecksum page lf.used = pageChecksum page' lf'.used →
      lf = lf' ∧ page.take lf.used = page'.take lf'.used) ∧
    (∀ br br', decodeBranch kw page = some br → decodeBranch kw page' = some br' →
      pageChecksum page br.used = pageChecksum page' br'.used →
      br = br' ∧ page.take br.used = page'.take br'.used) ∧
    (∀ lf br', byteAt page 0 = 1 → byteAt page' 0 = 2 → decodeLeaf kw vw page = some lf →
      decodeBranch kw page' = some br' →
      pageChecksum page lf.used ≠ pageChecksum page' br'.used) := by
  refine ⟨?_, ?_, ?_⟩
  · intro lf lf' h h' hck
    obtain ⟨hu, hp⟩ := checksum_binding hinj (decodeLeaf_used_le h).2 (decodeLeaf_used_le h').2 hck
    have e := decodeLeaf_take h
    have e' := decodeLeaf_take h'
    rw [hp, e'] at e
    exact ⟨(Option.some.inj e).symm, hp⟩
  · intro br br' h h' hck
    obtain ⟨hu, hp⟩ := checksum_binding hinj (decodeBranch_used_le h).2 (decodeBranch_used_le h').2 hck
    have e := decodeBranch_take h
    have e' := decodeBranch_take h'
    rw [hp, e'] at e
    exact ⟨(Option.some.inj e).symm, hp⟩
  · intro lf br' hb hb' h h' hck
    obtain ⟨hu, hp⟩ := checksum_binding hinj (decodeLeaf_used_le h).2 (decodeBranch_used_le h').2 hck
    have h4 := (decodeLeaf_used_le h).1
    have h8 := (decodeBranch_used_le h').1
    have e1 := byteAt_take page lf.used 0 (by omega)
    have e2 := byteAt_take page' br'.used 0 (by omega)
    rw [hp, e2, hb'] at e1
    omega

/-- C12 for one page: if page `pn` decodes in two images (layouts may differ) under the SAME stored
checksum `ck`, the covered prefixes of the page are the same bytes in both images. -/
theorem page_binding (hinj : HashInjective) {img img' : ByteArray} {lay lay' : Layout}
    {kw vw : Option Nat} {fuel fuel' : Nat} {pn : PageNumber} {ck : Bytes}
    {seen seen' pages pages' : List PageNumber} {t t' : PTree}
    (h : decodeTree img lay kw vw fuel pn ck seen = .ok (t, pages))
    (h' : decodeTree img' lay' kw vw fuel' pn ck seen' = .ok (t', pages')) :
    ∃ bytes, coveredPrefix img lay kw vw pn = some bytes ∧
      coveredPrefix img' lay' kw vw pn = some bytes ∧ ck = Redb.Xxh3.checksum bytes.toByteArray := by
  obtain ⟨_, _, _, page, hpage, hc⟩ := decodeTree_inv h
  obtain ⟨_, _, _, page', hpage', hc'⟩ := decodeTree_inv h'
  obtain ⟨n1, n2, n3⟩ := node_binding hinj (kw := kw) (vw := vw) (page := page) (page' := page')
  obtain ⟨m1, m2, m3⟩ := node_binding hinj (kw := kw) (vw := vw) (page := page') (page' := page)
  rcases hc with ⟨hb, lf, hlf, hck, _, _⟩ | ⟨hb, br, hbr, hck, _⟩ <;>
  rcases hc' with ⟨hb', lf', hlf', hck', _, _⟩ | ⟨hb', br', hbr', hck', _⟩
  · obtain ⟨e1, e2⟩ := n1 lf lf' hlf hlf' (hck.trans hck'.symm)
    refine ⟨page.take lf.used, ?_, ?_, hck.symm⟩
    · simp [coveredPrefix, hpage, hb, hlf]
    · simp [coveredPrefix, hpage', hb', hlf', e2]
  · exact absurd (hck.trans hck'.symm) (n3 lf br' hb hb' hlf hbr')
  · exact absurd (hck'.trans hck.symm) (m3 lf' br hb' hb hlf' hbr)
  · obtain ⟨e1, e2⟩ := n2 br br' hbr hbr' (hck.trans hck'.symm)
    refine ⟨page.take br.used, ?_, ?_, hck.symm⟩
    · simp [coveredPrefix, hpage, hb, hbr]
    · simp [coveredPrefix, hpage', hb', hbr', e2]

theorem decodeList_binding {dec dec' : Dec}
    (ih : ∀ p ck seen seen' t t' pages pages', dec p ck seen = .ok (t, pages) →
      dec' p ck seen' = .ok (t', pages') → t = t')
    {cs : List (PageNumber × Bytes)} {s s1 : List PageNumber} {ts : List PTree}
    (h : DecodeList dec cs s ts s1) :
    ∀ {s' s1' : List PageNumber} {ts' : List PTree}, DecodeList dec' cs s' ts' s1' → ts = ts' := by
  induction h with
  | nil => intro s' s1' ts' h'; cases h'; rfl
  | cons hd _ iht =>
    intro s' s1' ts' h'
    cases h' with
    | cons hd' hl' => rw [ih _ _ _ _ _ _ _ _ hd hd', iht hl']

/-- C12 for trees: same root page, same root checksum, both decode ⇒ the same tree -/
theorem tree_binding (hinj : HashInjective) (img img' : ByteArray) (lay lay' : Layout)
    (kw vw : Option Nat) (fuel : Nat) :
    ∀ (fuel' : Nat) (p : PageNumber) (ck : Bytes) (seen seen' : List PageNumber) (t t' : PTree)
      (pages pages' : List PageNumber),
      decodeTree img lay kw vw fuel p ck seen = .ok (t, pages) →
      decodeTree img' lay' kw vw fuel' p ck seen' = .ok (t', pages') → t = t' := by
  induction fuel with
  | zero => intro fuel' p ck seen seen' t t' pages pages' h; exact absurd h (fail_ne_ok _ _ _)
  | succ fuel ih =>
    intro fuel' p ck seen seen' t t' pages pages' h h'
    obtain ⟨f1, hf1, _, page, hpage, hc⟩ := decodeTree_inv h
    obtain ⟨f2, hf2, _, page', hpage', hc'⟩ := decodeTree_inv h'
    cases hf1
    obtain ⟨n1, n2, n3⟩ := node_binding hinj (kw := kw) (vw := vw) (page := page) (page' := page')
    obtain ⟨m1, m2, m3⟩ := node_binding hinj (kw := kw) (vw := vw) (page := page') (page' := page)
    rcases hc with ⟨hb, lf, hlf, hck, rfl, _⟩ | ⟨hb, br, hbr, hck, ts, rfl, hl⟩ <;>
    rcases hc' with ⟨hb', lf', hlf', hck', rfl, _⟩ | ⟨hb', br', hbr', hck', ts', rfl, hl'⟩
    · obtain ⟨e1, _⟩ := n1 lf lf' hlf hlf' (hck.trans hck'.symm)
      rw [e1]
    · exact absurd (hck.trans hck'.symm) (n3 lf br' hb hb' hlf hbr')
    · exact absurd (hck'.trans hck.symm) (m3 lf' br hb' hb hlf' hbr)
    · obtain ⟨e1, _⟩ := n2 br br' hbr hbr' (hck.trans hck'.symm)
      subst e1
      rw [decodeList_binding (ih f2) hl hl']


open Redb.Key Redb.Spec Redb.BTree

/-! ## the list of pages seen only grows, by fresh pages -/

/-- `pages` extends `seen` by pages that are new and pairwise different -/
def Extends (seen pages : List PageNumber) : Prop := ∃ new, FreshPages seen new pages

theorem Extends.refl (s : List PageNumber) : Extends s s := ⟨[], by simp [FreshPages]⟩

theorem FreshPages.extends {s n p : List PageNumber} (h : FreshPages s n p) : Extends s p := ⟨n, h⟩

theorem FreshPages.mem {s n p : List PageNumber} (h : FreshPages s n p) : ∀ x ∈ n, x ∈ p := by
  intro x hx; rw [h.1]; simp [hx]

theorem Extends.subset {a b : List PageNumber} (h : Extends a b) : ∀ x ∈ a, x ∈ b := by
  obtain ⟨n, h1, _, _⟩ := h
  intro x hx; rw [h1]; simp [hx]

theorem Extends.trans {a b c : List PageNumber} (h1 : Extends a b) (h2 : Extends b c) :
    Extends a c := by
  obtain ⟨n1, a1, a2, a3⟩ := h1
  obtain ⟨n2, b1, b2, b3⟩ := h2
  refine ⟨n1 ++ n2, by simp [b1, a1], ?_, ?_⟩
  · refine List.nodup_append.2 ⟨a2, b2, ?_⟩
    intro x hx y hy hxy
    subst hxy
    exact b3 x hy (by rw [a1]; simp [hx])
  · intro x hx
    rcases List.mem_append.1 hx with hx | hx
    · exact a3 x hx
    · intro hs; exact b3 x hx (by rw [a1]; simp [hs])

theorem Extends.nodup {s : List PageNumber} (h : Extends [] s) : s.Nodup := by
  obtain ⟨n, h1, h2, _⟩ := h
  rw [h1, List.append_nil, List.Nodup, List.pairwise_reverse]
  exact h2.imp (fun h => Ne.symm h)

/-- a successful fold in `Except` whose steps are related by a preorder `R`: start and result are
related, and every element was processed successfully from some intermediate state -/
theorem foldlM_ok {α β : Type} (R : β → β → Prop) (hrefl : ∀ b, R b b)
    (htrans : ∀ a b c, R a b → R b c → R a c) (f : β → α → Except String β)
    (hstep : ∀ b a b', f b a = .ok b' → R b b') (l : List α) :
    ∀ (b r : β), l.foldlM f b = .ok r →
      R b r ∧ ∀ a ∈ l, ∃ s s', R b s ∧ f s a = .ok s' ∧ R s' r := by
  induction l with
  | nil =>
    intro b r h
    simp only [List.foldlM_nil, pure, Except.pure, Except.ok.injEq] at h
    subst h
    exact ⟨hrefl _, by simp⟩
  | cons a l ih =>
    intro b r h
    simp only [List.foldlM_cons, bind, Except.bind] at h
    split at h
    · cases h
    rename_i b' hb'
    obtain ⟨i1, i2⟩ := ih _ _ h
    have hR := hstep _ _ _ hb'
    refine ⟨htrans _ _ _ hR i1, ?_⟩
    intro x hx
    rcases List.mem_cons.1 hx with rfl | hx
    · exact ⟨b, b', hrefl _, hb', i1⟩
    · obtain ⟨s, s', j1, j2, j3⟩ := i2 x hx
      exact ⟨s, s', htrans _ _ _ hR j1, j2, j3⟩

/-! ## 3 + 4. checked trees: well-formed, checksummed, stored length = entries present -/

/-- conjuncts 1, 3, 4 of C10 for the tree `pt` decoded from the `BtreeHeader` `hd` -/
structure TreeOk (img : ByteArray) (lay : Layout) (kt : KT) (kw vw : Option Nat) (hd : BtreeHeader)
    (pt : PTree) : Prop where
  /-- every stored checksum, from the header down to each leaf, matches the bytes it covers -/
  checksums : ChecksumsMatch img lay kw vw hd.root hd.checksum pt
  /-- keys increasing, routing keys bound the subtrees, leaves at one depth -/
  wf : wf kt none none (depthLeft 129 pt.erase) pt.erase = true
  /-- `BtreeHeader.length` = number of pairs present -/
  length : (flatten pt.erase).length = hd.length

/-- what `decodeCheckedTree` establishes for an optional root -/
def RootChecked (img : ByteArray) (lay : Layout) (kt : KT) (kw vw : Option Nat)
    (root : Option BtreeHeader) (seen : List PageNumber) (r : Option PTree)
    (pages : List PageNumber) : Prop :=
  match root with
  | none => r = none ∧ pages = seen
  | some hd => ∃ pt, r = some pt ∧ TreeOk img lay kt kw vw hd pt ∧ FreshPages seen pt.pages pages

/-- the pairs of an optional tree -/
def entriesOf : Option PTree → List Entry
  | some pt => flatten pt.erase
  | none => []

theorem decodeCheckedTree_sound {img : ByteArray} {lay : Layout} {kt : KT} {kw vw : Option Nat}
    {what : String} {root : Option BtreeHeader} {seen : List PageNumber}
    {r : Option PTree × List PageNumber}
    (h : decodeCheckedTree img lay kt kw vw what root seen = .ok r) :
    RootChecked img lay kt kw vw root seen r.1 r.2 := by
  unfold decodeCheckedTree at h
  split at h
  · cases h; exact ⟨rfl, rfl⟩
  rename_i hd
  split at h
  · cases h
  rename_i x hx
  simp only [bind, Except.bind] at h
  split at h
  · cases h
  rename_i u hu
  split at h
  · exact absurd h (fail_ne_ok _ _ _)
  rename_i hlen
  simp only [pure, Except.pure, Except.ok.injEq] at h
  subst h
  obtain ⟨t, pg⟩ := x
  refine ⟨t, rfl, ⟨decodeTree_checksums _ _ _ _ _ _ _ _ _ _ hx, checkTree_ok hu, by simpa using hlen⟩,
    decodeTree_pages _ _ _ _ _ _ _ _ _ _ hx⟩

theorem RootChecked.extends {img : ByteArray} {lay : Layout} {kt : KT} {kw vw : Option Nat}
    {root : Option BtreeHeader} {seen : List PageNumber} {r : Option PTree} {pages : List PageNumber}
    (h : RootChecked img lay kt kw vw root seen r pages) : Extends seen pages := by
  cases root with
  | none => obtain ⟨_, rfl⟩ := h; exact Extends.refl _
  | some hd => obtain ⟨pt, _, _, hf⟩ := h; exact hf.extends

/-- normal table: the tree over (K, V) is checked and `table_length` = number of pairs -/
def NormalTableOk (img : ByteArray) (lay : Layout) (kt : KT) (d : TableDef) (seen : List PageNumber)
    (es : List Entry) (pages : List PageNumber) : Prop :=
  ∃ r, RootChecked img lay kt d.fixedKey d.fixedValue d.root seen r pages ∧ es = entriesOf r ∧
    d.tableLength = es.length

theorem checkNormalTable_sound {img : ByteArray} {lay : Layout} {name : String} {kt : KT}
    {d : TableDef} {seen : List PageNumber} {r : List Entry × List PageNumber}
    (h : checkNormalTable img lay name kt d seen = .ok r) :
    NormalTableOk img lay kt d seen r.1 r.2 := by
  unfold checkNormalTable at h
  simp only [bind, Except.bind] at h
  split at h
  · cases h
  rename_i x hx
  have hr := decodeCheckedTree_sound hx
  obtain ⟨r1, pg⟩ := x
  cases r1 with
  | none =>
    simp only at h
    split at h
    · exact absurd h (fail_ne_ok _ _ _)
    rename_i hlen
    simp only [pure, Except.pure, Except.ok.injEq] at h
    subst h
    exact ⟨none, hr, rfl, by simpa using hlen⟩
  | some pt =>
    simp only at h
    split at h
    · exact absurd h (fail_ne_ok _ _ _)
    rename_i hlen
    simp only [pure, Except.pure, Except.ok.injEq] at h
    subst h
    exact ⟨some pt, hr, rfl, by simpa using hlen⟩


open Redb.Key Redb.Spec Redb.BTree

/-! ## multimap tables -/

/-- keys valid and strictly increasing, declaratively -/
def StrictIncr (t : KT) (ks : List Bytes) : Prop :=
  (∀ k ∈ ks, valid t k = true) ∧ ks.Pairwise (fun a b => cmp t a b = .lt)

theorem strictlyIncreasing_sound (t : KT) : ∀ ks : List Bytes,
    strictlyIncreasing t ks = true → StrictIncr t ks := by
  intro ks
  induction ks with
  | nil => intro _; exact ⟨by simp, List.Pairwise.nil⟩
  | cons a l ih =>
    cases l with
    | nil => intro h; simp only [strictlyIncreasing] at h; exact ⟨by simpa using h, by simp⟩
    | cons b rest =>
      intro h
      simp only [strictlyIncreasing, Bool.and_eq_true, beq_iff_eq] at h
      obtain ⟨⟨ha, hab⟩, hr⟩ := h
      obtain ⟨i1, i2⟩ := ih hr
      have hb : valid t b = true := i1 b (by simp)
      obtain ⟨i3, _⟩ := List.pairwise_cons.1 i2
      refine ⟨?_, List.pairwise_cons.2 ⟨?_, i2⟩⟩
      · intro k hk
        rcases List.mem_cons.1 hk with rfl | hk
        · exact ha
        · exact i1 k hk
      · intro x hx
        rcases List.mem_cons.1 hx with rfl | hx
        · exact hab
        · exact (cmp_laws t).trans_lt a b x ha hb (i1 x (by simp [hx])) (by simp [hab]) (i3 x hx)

/-- what `decodeCollection` establishes for the value `v` of a multimap key: an inline sorted
value set, or a checked subtree over (V, ()) -/
inductive CollectionOk (img : ByteArray) (lay : Layout) (vt : KT) (v : Bytes)
    (seen : List PageNumber) (vs : List Bytes) (pages : List PageNumber) : Prop
  | inline (lf : LeafPage) : byteAt v 0 = 1 →
      decodeLeaf (fixedWidth vt) (some 0) (v.drop 1) = some lf → vs = lf.entries.map (·.1) →
      StrictIncr vt vs → pages = seen → CollectionOk img lay vt v seen vs pages
  | subtree (r : Option PTree) : byteAt v 0 = 3 → 33 ≤ v.length →
      RootChecked img lay vt (fixedWidth vt) (some 0) (some (decodeBtreeHeader (slice v 1 33)))
        seen r pages →
      vs = (entriesOf r).map (·.1) → CollectionOk img lay vt v seen vs pages

theorem decodeCollection_sound {img : ByteArray} {lay : Layout} {name : String} {vt : KT}
    {p : PageNumber} {key v : Bytes} {seen : List PageNumber} {r : List Bytes × List PageNumber}
    (h : decodeCollection img lay name vt p key v seen = .ok r) :
    CollectionOk img lay vt v seen r.1 r.2 := by
  unfold decodeCollection at h
  split at h
  · rename_i hc
    simp only [Bool.and_eq_true, beq_iff_eq, decide_eq_true_eq] at hc
    split at h
    · exact absurd h (fail_ne_ok _ _ _)
    rename_i lf hlf
    split at h
    · exact absurd h (fail_ne_ok _ _ _)
    rename_i hs
    simp only [Except.ok.injEq] at h
    subst h
    exact .inline lf hc.1 hlf rfl (strictlyIncreasing_sound _ _ (by simpa using hs)) rfl
  · split at h
    · rename_i hc
      simp only [Bool.and_eq_true, beq_iff_eq, decide_eq_true_eq] at hc
      simp only [bind, Except.bind] at h
      split at h
      · cases h
      rename_i x hx
      have hr := decodeCheckedTree_sound hx
      obtain ⟨r1, pg⟩ := x
      cases r1 with
      | none =>
        simp only [pure, Except.pure, Except.ok.injEq] at h
        subst h
        exact .subtree none hc.1 hc.2 hr rfl
      | some pt =>
        simp only [pure, Except.pure, Except.ok.injEq] at h
        subst h
        exact .subtree (some pt) hc.1 hc.2 hr rfl
    · exact absurd h (fail_ne_ok _ _ _)

theorem CollectionOk.extends {img : ByteArray} {lay : Layout} {vt : KT} {v : Bytes}
    {seen : List PageNumber} {vs : List Bytes} {pages : List PageNumber}
    (h : CollectionOk img lay vt v seen vs pages) : Extends seen pages := by
  cases h with
  | inline lf _ _ _ _ hp => subst hp; exact Extends.refl _
  | subtree r _ _ hr _ => exact hr.extends

/-- the value set of every key is strictly increasing in the value order (no duplicate pairs) -/
theorem CollectionOk.strictIncr {img : ByteArray} {lay : Layout} {vt : KT} {v : Bytes}
    {seen : List PageNumber} {vs : List Bytes} {pages : List PageNumber}
    (h : CollectionOk img lay vt v seen vs pages) : StrictIncr vt vs := by
  cases h with
  | inline lf _ _ _ hs _ => exact hs
  | subtree r _ _ hr hv =>
    obtain ⟨pt, rfl, hok, _⟩ := hr
    obtain ⟨g1, g2, _, _⟩ := flatten_good (cmp_laws vt) _ none none _ hok.wf
    subst hv
    refine ⟨?_, ?_⟩
    · intro k hk
      obtain ⟨e, he, rfl⟩ := List.mem_map.1 hk
      exact g2 e he
    · simpa [entriesOf, PSorted, List.pairwise_map] using g1

/-- the collections of the entries of a multimap tree, decoded one after the other, threading the
list of pages seen -/
inductive CollectList (img : ByteArray) (lay : Layout) (vt : KT) :
    List Entry → List PageNumber → List (Bytes × List Bytes) → List PageNumber → Prop
  | nil (s : List PageNumber) : CollectList img lay vt [] s [] s
  | cons {e : Entry} {es : List Entry} {s s' s'' : List PageNumber} {vs : List Bytes}
      {cs : List (Bytes × List Bytes)} :
      CollectionOk img lay vt e.2 s vs s' → vs ≠ [] → CollectList img lay vt es s' cs s'' →
      CollectList img lay vt (e :: es) s ((e.1, vs) :: cs) s''

theorem CollectList.append {img : ByteArray} {lay : Layout} {vt : KT} {a b : List Entry}
    {s s' s'' : List PageNumber} {c1 c2 : List (Bytes × List Bytes)}
    (h1 : CollectList img lay vt a s c1 s') (h2 : CollectList img lay vt b s' c2 s'') :
    CollectList img lay vt (a ++ b) s (c1 ++ c2) s'' := by
  induction h1 with
  | nil => exact h2
  | cons hc hne _ ih => exact .cons hc hne (ih h2)

theorem CollectList.extends {img : ByteArray} {lay : Layout} {vt : KT} {a : List Entry}
    {s s' : List PageNumber} {cs : List (Bytes × List Bytes)}
    (h : CollectList img lay vt a s cs s') : Extends s s' := by
  induction h with
  | nil => exact Extends.refl _
  | cons hc _ _ ih => exact hc.extends.trans ih

theorem CollectList.keys {img : ByteArray} {lay : Layout} {vt : KT} {a : List Entry}
    {s s' : List PageNumber} {cs : List (Bytes × List Bytes)}
    (h : CollectList img lay vt a s cs s') : cs.map (·.1) = a.map (·.1) := by
  induction h with
  | nil => rfl
  | cons _ _ _ ih => simp [ih]

theorem CollectList.values {img : ByteArray} {lay : Layout} {vt : KT} {a : List Entry}
    {s s' : List PageNumber} {cs : List (Bytes × List Bytes)}
    (h : CollectList img lay vt a s cs s') : ∀ c ∈ cs, c.2 ≠ [] ∧ StrictIncr vt c.2 := by
  induction h with
  | nil => simp
  | cons hc hne _ ih =>
    intro c hc'
    rcases List.mem_cons.1 hc' with rfl | hc'
    · exact ⟨hne, hc.strictIncr⟩
    · exact ih c hc'

/-- the inner fold of `checkMultimapTable`: the entries of one leaf -/
theorem foldlM_collect_leaf {img : ByteArray} {lay : Layout} {name : String} {vt : KT}
    (p : PageNumber) (es : List Entry) :
    ∀ (acc res : List (Bytes × List Bytes) × List PageNumber),
      es.foldlM (fun (acc : List (Bytes × List Bytes) × List PageNumber) e => do
        let c ← decodeCollection img lay name vt p e.1 e.2 acc.2
        if c.1.isEmpty then fail "decode" s!"page {p}: empty value set for key {hex e.1} [table {name}]"
        else pure ((e.1, c.1) :: acc.1, c.2)) acc = .ok res →
      ∃ cs, res.1 = cs.reverse ++ acc.1 ∧ CollectList img lay vt es acc.2 cs res.2 := by
  induction es with
  | nil =>
    intro acc res h
    simp only [List.foldlM_nil, pure, Except.pure, Except.ok.injEq] at h
    subst h
    exact ⟨[], by simp, .nil _⟩
  | cons e es ih =>
    intro acc res h
    simp only [List.foldlM_cons, bind, Except.bind] at h
    split at h
    · cases h
    rename_i x hx
    split at hx
    · cases hx
    rename_i c hc
    split at hx
    · exact absurd hx (fail_ne_ok _ _ _)
    rename_i hne
    simp only [pure, Except.pure, Except.ok.injEq] at hx
    subst hx
    obtain ⟨cs, h1, h2⟩ := ih _ _ h
    refine ⟨(e.1, c.1) :: cs, by simp [h1], .cons (decodeCollection_sound hc) ?_ h2⟩
    intro h0; simp [h0] at hne

/-- the outer fold of `checkMultimapTable`: all leaves -/
theorem foldlM_collect_leaves {img : ByteArray} {lay : Layout} {name : String} {vt : KT}
    (leaves : List (PageNumber × List Entry)) :
    ∀ (acc res : List (Bytes × List Bytes) × List PageNumber),
      leaves.foldlM (fun (acc : List (Bytes × List Bytes) × List PageNumber) lf =>
        lf.2.foldlM (fun (acc : List (Bytes × List Bytes) × List PageNumber) e => do
          let c ← decodeCollection img lay name vt lf.1 e.1 e.2 acc.2
          if c.1.isEmpty then fail "decode" s!"page {lf.1}: empty value set for key {hex e.1} [table {name}]"
          else pure ((e.1, c.1) :: acc.1, c.2)) acc) acc = .ok res →
      ∃ cs, res.1 = cs.reverse ++ acc.1 ∧
        CollectList img lay vt (leaves.flatMap (·.2)) acc.2 cs res.2 := by
  induction leaves with
  | nil =>
    intro acc res h
    simp only [List.foldlM_nil, pure, Except.pure, Except.ok.injEq] at h
    subst h
    exact ⟨[], by simp, .nil _⟩
  | cons lf leaves ih =>
    intro acc res h
    simp only [List.foldlM_cons, bind, Except.bind] at h
    split at h
    · cases h
    rename_i x hx
    obtain ⟨c1, a1, a2⟩ := foldlM_collect_leaf lf.1 lf.2 _ _ hx
    obtain ⟨c2, b1, b2⟩ := ih _ _ h
    refine ⟨c1 ++ c2, by simp [b1, a1], ?_⟩
    simp only [List.flatMap_cons]
    exact a2.append b2

mutual
theorem leaves_flatten : ∀ pt : PTree, pt.leaves.flatMap (·.2) = flatten pt.erase
  | .leaf p es => by simp [PTree.leaves, PTree.erase, flatten]
  | .branch p cs ks => by
    simp only [PTree.leaves, PTree.erase, flatten]
    exact leavesList_flatten cs
theorem leavesList_flatten : ∀ cs : List PTree,
    (leavesList cs).flatMap (·.2) = flattenList (eraseList cs)
  | [] => by simp [leavesList, eraseList, flattenList]
  | c :: cs => by
    simp only [leavesList, eraseList, flattenList, List.flatMap_append]
    rw [leaves_flatten c, leavesList_flatten cs]
end

/-- number of (key, value) pairs of a multimap -/
def pairCount (es : List (Bytes × List Bytes)) : Nat := (es.map (·.2.length)).sum

theorem foldl_pairCount (es : List (Bytes × List Bytes)) :
    ∀ a, es.foldl (fun a e => a + e.2.length) a = a + pairCount es := by
  induction es with
  | nil => intro a; simp [pairCount]
  | cons e es ih => intro a; simp only [List.foldl_cons, ih, pairCount, List.map_cons, List.sum_cons]; omega

/-- multimap table: the tree over (K, collection) is checked, every collection is a non-empty
strictly increasing value set (inline or a checked subtree), and `table_length` = number of
(key, value) pairs -/
def MultimapTableOk (img : ByteArray) (lay : Layout) (kt vt : KT) (d : TableDef)
    (seen : List PageNumber) (es : List (Bytes × List Bytes)) (pages : List PageNumber) : Prop :=
  ∃ r p1, RootChecked img lay kt d.fixedKey none d.root seen r p1 ∧
    CollectList img lay vt (entriesOf r) p1 es pages ∧ d.tableLength = pairCount es

theorem checkMultimapTable_sound {img : ByteArray} {lay : Layout} {name : String} {kt vt : KT}
    {d : TableDef} {seen : List PageNumber} {r : List (Bytes × List Bytes) × List PageNumber}
    (h : checkMultimapTable img lay name kt vt d seen = .ok r) :
    MultimapTableOk img lay kt vt d seen r.1 r.2 := by
  unfold checkMultimapTable at h
  simp only [bind, Except.bind] at h
  split at h
  · cases h
  rename_i x hx
  have hr := decodeCheckedTree_sound hx
  split at h
  · cases h
  rename_i res hres
  obtain ⟨cs, h1, h2⟩ := foldlM_collect_leaves _ _ _ hres
  split at h
  · exact absurd h (fail_ne_ok _ _ _)
  rename_i hlen
  simp only [pure, Except.pure, Except.ok.injEq] at h
  subst h
  simp only [List.append_nil] at h1
  have h2' : CollectList img lay vt (entriesOf x.1) x.2 cs res.2 := by
    obtain ⟨r1, pg⟩ := x
    cases r1 with
    | none => exact h2
    | some pt =>
      show CollectList img lay vt (flatten pt.erase) _ _ _
      rw [← leaves_flatten pt]; exact h2
  refine ⟨x.1, x.2, hr, ?_, ?_⟩
  · simpa [h1] using h2'
  · have := foldl_pairCount res.1.reverse 0
    simp only [Nat.zero_add] at this
    rw [← this]
    simpa using hlen


open Redb.Key Redb.Spec Redb.BTree

/-! ## master trees, user and system tables -/

theorem NormalTableOk.extends {img : ByteArray} {lay : Layout} {kt : KT} {d : TableDef}
    {seen : List PageNumber} {es : List Entry} {pages : List PageNumber}
    (h : NormalTableOk img lay kt d seen es pages) : Extends seen pages := by
  obtain ⟨r, hr, _, _⟩ := h; exact hr.extends

theorem MultimapTableOk.extends {img : ByteArray} {lay : Layout} {kt vt : KT} {d : TableDef}
    {seen : List PageNumber} {es : List (Bytes × List Bytes)} {pages : List PageNumber}
    (h : MultimapTableOk img lay kt vt d seen es pages) : Extends seen pages := by
  obtain ⟨r, p1, hr, hc, _⟩ := h; exact hr.extends.trans hc.extends

theorem mapM_ok {α β : Type} (f : α → Except String β) (l : List α) :
    ∀ r, l.mapM f = .ok r → r.map some = l.map (fun a => (f a).toOption) := by
  induction l with
  | nil => intro r h; simp only [List.mapM_nil, pure, Except.pure, Except.ok.injEq] at h; subst h; rfl
  | cons a l ih =>
    intro r h
    simp only [List.mapM_cons, bind, Except.bind] at h
    split at h
    · cases h
    rename_i b hb
    split at h
    · cases h
    rename_i bs hbs
    simp only [pure, Except.pure, Except.ok.injEq] at h
    subst h
    simp [ih _ hbs, hb, Except.toOption]

/-- a master tree: checked B-tree over (`&str` name, `InternalTableDefinition`) whose values all
decode; `defs` are (name bytes, definition) in key order -/
def MasterOk (img : ByteArray) (lay : Layout) (root : Option BtreeHeader) (seen : List PageNumber)
    (defs : List (Bytes × TableDef)) (pages : List PageNumber) : Prop :=
  ∃ r, RootChecked img lay .str none none root seen r pages ∧
    defs.map some = (entriesOf r).map (fun e => (decodeTableDef e.2).map (fun d => (e.1, d)))

theorem decodeMaster_sound {img : ByteArray} {lay : Layout} {what : String}
    {root : Option BtreeHeader} {seen : List PageNumber}
    {r : List (Bytes × TableDef) × List PageNumber}
    (h : decodeMaster img lay what root seen = .ok r) : MasterOk img lay root seen r.1 r.2 := by
  unfold decodeMaster at h
  simp only [bind, Except.bind] at h
  split at h
  · cases h
  rename_i x hx
  have hr := decodeCheckedTree_sound hx
  split at h
  · cases h
  rename_i defs hdefs
  simp only [pure, Except.pure, Except.ok.injEq] at h
  subst h
  refine ⟨x.1, hr, ?_⟩
  have hm : defs.map some = (entriesOf x.1).map _ := mapM_ok _ _ _ hdefs
  rw [hm]
  apply List.map_congr_left
  intro e _
  cases hd : decodeTableDef e.2 <;> simp [Except.toOption, fail, pure, Except.pure]

theorem MasterOk.extends {img : ByteArray} {lay : Layout} {root : Option BtreeHeader}
    {seen : List PageNumber} {defs : List (Bytes × TableDef)} {pages : List PageNumber}
    (h : MasterOk img lay root seen defs pages) : Extends seen pages := by
  obtain ⟨r, hr, _⟩ := h; exact hr.extends

/-- a system table: one of the known names, a normal table with the key type of that name -/
def SystemTableOk (img : ByteArray) (lay : Layout) (name : String) (d : TableDef)
    (seen pages : List PageNumber) : Prop :=
  ∃ kt isPageList es, systemTableType name = some (kt, isPageList) ∧ d.kind = 3 ∧
    d.fixedKey = fixedWidth kt ∧ NormalTableOk img lay kt d seen es pages ∧
    (isPageList = true → ∀ e ∈ es, pageListOk e.2 = true)

theorem checkSystemTable_sound {img : ByteArray} {lay : Layout} {name : String} {d : TableDef}
    {seen pages : List PageNumber} (h : checkSystemTable img lay name d seen = .ok pages) :
    SystemTableOk img lay name d seen pages := by
  unfold checkSystemTable at h
  split at h
  · exact absurd h (fail_ne_ok _ _ _)
  rename_i kt isPL hty
  split at h
  · exact absurd h (fail_ne_ok _ _ _)
  rename_i hkind
  split at h
  · exact absurd h (fail_ne_ok _ _ _)
  rename_i hfk
  simp only [bind, Except.bind] at h
  split at h
  · cases h
  rename_i x hx
  split at h
  · exact absurd h (fail_ne_ok _ _ _)
  rename_i hpl
  simp only [pure, Except.pure, Except.ok.injEq] at h
  subst h
  refine ⟨kt, isPL, x.1, hty, by simpa using hkind, by simpa using hfk, checkNormalTable_sound hx, ?_⟩
  intro hi
  simpa [hi] using hpl

theorem SystemTableOk.extends {img : ByteArray} {lay : Layout} {name : String} {d : TableDef}
    {seen pages : List PageNumber} (h : SystemTableOk img lay name d seen pages) :
    Extends seen pages := by
  obtain ⟨_, _, _, _, _, _, hn, _⟩ := h; exact hn.extends

/-- a user table against its spec: stored type and widths match, the table is checked, and the
decoded contents are the expected ones -/
def UserTableOk (img : ByteArray) (lay : Layout) (spec : TableSpec) (d : TableDef)
    (seen pages : List PageNumber) : Prop :=
  (d.kind == 4) = spec.multimap ∧ d.fixedKey = fixedWidth spec.kt ∧ d.fixedValue = fixedWidth spec.vt ∧
  d.keyAlign = 1 ∧ d.valueAlign = 1 ∧
  ((spec.multimap = true ∧ ∃ es, MultimapTableOk img lay spec.kt spec.vt d seen es pages ∧
      spec.contentsOk (.multimap es) = true) ∨
   (spec.multimap = false ∧ ∃ es, NormalTableOk img lay spec.kt d seen es pages ∧
      spec.contentsOk (.normal es) = true))

theorem checkUserTable_sound {img : ByteArray} {lay : Layout} {spec : TableSpec} {d : TableDef}
    {seen pages : List PageNumber} (h : checkUserTable img lay spec d seen = .ok pages) :
    UserTableOk img lay spec d seen pages := by
  unfold checkUserTable at h
  split at h
  · exact absurd h (fail_ne_ok _ _ _)
  rename_i hkind
  split at h
  · exact absurd h (fail_ne_ok _ _ _)
  rename_i hfix
  split at h
  · exact absurd h (fail_ne_ok _ _ _)
  rename_i hal
  simp only [Bool.or_eq_true, bne_iff_ne, ne_eq, not_or, Decidable.not_not] at hkind hfix hal
  refine ⟨hkind, hfix.1, hfix.2, hal.1, hal.2, ?_⟩
  split at h
  · rename_i hmm
    left
    simp only [bind, Except.bind] at h
    split at h
    · cases h
    rename_i x hx
    split at h
    · exact absurd h (fail_ne_ok _ _ _)
    rename_i hco
    simp only [pure, Except.pure, Except.ok.injEq] at h
    subst h
    exact ⟨hmm, x.1, checkMultimapTable_sound hx, by simpa using hco⟩
  · rename_i hmm
    right
    simp only [bind, Except.bind] at h
    split at h
    · cases h
    rename_i x hx
    split at h
    · exact absurd h (fail_ne_ok _ _ _)
    rename_i hco
    simp only [pure, Except.pure, Except.ok.injEq] at h
    subst h
    exact ⟨by simpa using hmm, x.1, checkNormalTable_sound hx, by simpa using hco⟩

theorem UserTableOk.extends {img : ByteArray} {lay : Layout} {spec : TableSpec} {d : TableDef}
    {seen pages : List PageNumber} (h : UserTableOk img lay spec d seen pages) :
    Extends seen pages := by
  obtain ⟨_, _, _, _, _, h | h⟩ := h
  · obtain ⟨_, _, hm, _⟩ := h; exact hm.extends
  · obtain ⟨_, _, hn, _⟩ := h; exact hn.extends


open Redb.Key Redb.Spec Redb.BTree

/-! ## 5. commit slot checksum and the whole image -/

/-- the stored bytes 112.. of a commit slot are the XXH3-128 of its first 112 bytes -/
def SlotChecksumValid (d : Bytes) : Prop :=
  d.drop 112 = Redb.Xxh3.checksum (d.take 112).toByteArray

theorem slotChecksumOk_iff (d : Bytes) : slotChecksumOk d = true ↔ SlotChecksumValid d := by
  unfold slotChecksumOk SlotChecksumValid
  rw [beq_iff_eq]
  exact eq_comm

/-- for a 128-byte slot the stored bytes are the `checksum` field of the decoded slot -/
theorem decodeSlot_checksum {d : Bytes} {slot : Slot} (h : decodeSlot d = some slot) :
    d.length = 128 ∧ slot.checksum = d.drop 112 := by
  unfold decodeSlot at h
  split at h
  · cases h
  rename_i hl
  have hl : d.length = 128 := by simpa using hl
  cases h
  exact ⟨hl, by simp [slice, List.take_of_length_le (Nat.le_of_eq hl)]⟩

theorem forM_ok {α : Type} (f : α → Except String PUnit) (l : List α)
    (h : l.forM f = .ok ⟨⟩) : ∀ a ∈ l, f a = .ok ⟨⟩ := by
  induction l with
  | nil => simp
  | cons a l ih =>
    simp only [List.forM, bind, Except.bind] at h
    split at h
    · cases h
    rename_i u hu
    intro x hx
    rcases List.mem_cons.1 hx with rfl | hx
    · exact hu
    · exact ih h x hx

/-- Property C10 for one image, declaratively. `all` is the list of every page referenced from
the primary commit slot. -/
structure ImageOk (img : ByteArray) (pageSize : Nat) (specs : List TableSpec) : Prop where
  ex : ∃ (h : Header) (slot : Slot) (um sm : List (Bytes × TableDef)) (p1 s1 p2 all : List PageNumber),
    decodeHeader img = some h ∧ h.layout.pageSize = pageSize ∧ h.layout.fileLen ≤ img.size ∧
    -- the primary commit slot: checksum and version
    SlotChecksumValid h.primary ∧ decodeSlot h.primary = some slot ∧ slot.version = 3 ∧
    -- data master tree and every user table named in it
    MasterOk img h.layout slot.userRoot [] um p1 ∧
    (∀ e ∈ um, ∃ spec s s', spec ∈ specs ∧ spec.name.toUTF8.toList = e.1 ∧ Extends p1 s ∧
      UserTableOk img h.layout spec e.2 s s' ∧ Extends s' s1) ∧
    Extends p1 s1 ∧
    -- a user table that is absent is expected to be empty
    (∀ spec ∈ specs, (∃ e ∈ um, e.1 = spec.name.toUTF8.toList) ∨
      spec.contentsOk (if spec.multimap then .multimap [] else .normal []) = true) ∧
    -- system master tree and every system table named in it
    MasterOk img h.layout slot.systemRoot s1 sm p2 ∧
    (∀ e ∈ sm, ∃ s s', Extends p2 s ∧ SystemTableOk img h.layout (nameOf e.1) e.2 s s' ∧
      Extends s' all) ∧
    Extends p2 all ∧
    -- no page referenced twice, no two referenced pages overlap
    all.Nodup ∧ RangesDisjoint h.layout all

theorem checkImage_sound {img : ByteArray} {pageSize : Nat} {specs : List TableSpec}
    (h : checkImage img pageSize specs = .ok ()) : ImageOk img pageSize specs := by
  unfold checkImage at h
  split at h
  · exact absurd h (fail_ne_ok _ _ _)
  rename_i hd hhd
  split at h
  · exact absurd h (fail_ne_ok _ _ _)
  rename_i hps
  split at h
  · exact absurd h (fail_ne_ok _ _ _)
  split at h
  · exact absurd h (fail_ne_ok _ _ _)
  rename_i hlen
  split at h
  · exact absurd h (fail_ne_ok _ _ _)
  rename_i hck
  split at h
  · exact absurd h (fail_ne_ok _ _ _)
  rename_i slot hslot
  split at h
  · exact absurd h (fail_ne_ok _ _ _)
  rename_i hver
  simp only [bind, Except.bind] at h
  split at h
  · cases h
  rename_i um hum
  split at h
  · cases h
  rename_i s1 hs1
  split at h
  · cases h
  rename_i u hu
  split at h
  · cases h
  rename_i sm hsm
  split at h
  · cases h
  rename_i all hall
  split at h
  · exact absurd h (fail_ne_ok _ _ _)
  rename_i hdis
  have hmu := decodeMaster_sound hum
  have hms := decodeMaster_sound hsm
  -- user tables
  obtain ⟨e1, e2⟩ := foldlM_ok Extends Extends.refl (fun _ _ _ => Extends.trans) _ (by
    intro b a b' hb
    split at hb
    · exact absurd hb (fail_ne_ok _ _ _)
    · exact (checkUserTable_sound hb).extends) _ _ _ hs1
  -- system tables
  obtain ⟨f1, f2⟩ := foldlM_ok Extends Extends.refl (fun _ _ _ => Extends.trans) _ (by
    intro b a b' hb
    exact (checkSystemTable_sound hb).extends) _ _ _ hall
  have hext : Extends [] all :=
    (hmu.extends.trans e1).trans ((hms.extends.trans f1))
  refine ⟨hd, slot, um.1, sm.1, um.2, s1, sm.2, all, hhd, by simpa using hps, by simpa using hlen,
    (slotChecksumOk_iff _).1 (by simpa using hck), hslot, by simpa using hver, hmu, ?_, e1, ?_, hms,
    ?_, f1, hext.nodup, pagesDisjoint_none _ _ hdis⟩
  · intro e he
    obtain ⟨s, s', a1, a2, a3⟩ := e2 e he
    split at a2
    · exact absurd a2 (fail_ne_ok _ _ _)
    rename_i spec hspec
    have hp := List.find?_some hspec
    exact ⟨spec, s, s', List.mem_of_find?_eq_some hspec, by simpa using hp, a1,
      checkUserTable_sound a2, a3⟩
  · intro spec hspec
    have := forM_ok _ _ hu spec hspec
    by_cases hany : (um.1.any (fun e => e.1 == spec.name.toUTF8.toList)) = true
    · left
      obtain ⟨e, he, heq⟩ := List.any_eq_true.1 hany
      exact ⟨e, he, by simpa using heq⟩
    · right
      rw [if_neg hany] at this
      by_cases hco : spec.contentsOk (if spec.multimap then .multimap [] else .normal []) = true
      · exact hco
      · rw [if_neg hco] at this
        exact absurd this (fail_ne_ok _ _ _)
  · intro e he
    obtain ⟨s, s', a1, a2, a3⟩ := f2 e he
    exact ⟨s, s', a1, checkSystemTable_sound a2, a3⟩


open Redb.Key Redb.Spec Redb.BTree

/-! ## consequences packaged for the headline theorems -/

/-- the root-level reading of `ChecksumsMatch`: the stored checksum is the hash of the covered prefix -/
theorem checksumsMatch_covered {img : ByteArray} {lay : Layout} {kw vw : Option Nat}
    {p : PageNumber} {ck : Bytes} {t : PTree} (h : ChecksumsMatch img lay kw vw p ck t) :
    ∃ bytes, coveredPrefix img lay kw vw p = some bytes ∧
      ck = Redb.Xxh3.checksum bytes.toByteArray := by
  cases h with
  | leaf hp hb hl hck => exact ⟨_, by simp [coveredPrefix, hp, hb, hl], hck⟩
  | branch hp hb hbr hck _ => exact ⟨_, by simp [coveredPrefix, hp, hb, hbr], hck⟩

/-- everything `BTree.wf` buys, for the tree under a checked root -/
theorem wf_consequences (kt : KT) (d : Nat) (tr : Tree) (h : wf kt none none d tr = true) :
    Sorted kt (flatten tr) ∧ KeysValid kt (flatten tr) ∧ depthIs d tr ∧
    ∀ k, valid kt k = true → lookup kt tr k = Spec.get kt (flatten tr) k := by
  obtain ⟨s1, s2⟩ := flatten_sorted_nobounds kt (cmp_laws kt) none none d tr h
  exact ⟨s1, s2, wf_depthIs d none none tr h,
    fun k hk => lookup_of_wf kt (cmp_laws kt) none none d tr h k hk⟩

theorem RootChecked.pages_mem {img : ByteArray} {lay : Layout} {kt : KT} {kw vw : Option Nat}
    {root : Option BtreeHeader} {seen : List PageNumber} {pt : PTree} {pages : List PageNumber}
    (h : RootChecked img lay kt kw vw root seen (some pt) pages) : ∀ x ∈ pt.pages, x ∈ pages := by
  cases root with
  | none => obtain ⟨h1, _⟩ := h; cases h1
  | some hd =>
    obtain ⟨pt', h1, _, hf⟩ := h
    cases h1
    exact hf.mem


/-! ## `ByteArray.toList` in terms of lists (used by the concrete examples) -/

theorem toList_loop (bs : ByteArray) (i : Nat) (r : List UInt8) :
    ByteArray.toList.loop bs i r = r.reverse ++ bs.data.toList.drop i := by
  fun_induction ByteArray.toList.loop bs i r with
  | case1 i r h ih =>
    rw [ih]
    have hi : i < bs.data.toList.length := h
    rw [List.drop_eq_getElem_cons hi]
    have hg : bs.get! i = bs.data.toList[i] := by
      show bs.data[i]! = _
      rw [getElem!_pos bs.data i h]
      rfl
    rw [hg, List.reverse_cons, List.append_assoc]
    rfl
  | case2 i r h =>
    have : bs.data.toList.length ≤ i := Nat.le_of_not_lt h
    rw [List.drop_eq_nil_of_le this, List.append_nil]

theorem byteArray_toList (bs : ByteArray) : bs.toList = bs.data.toList := by
  rw [ByteArray.toList, toList_loop]; rfl

theorem extract_toByteArray_toList (l : Bytes) (a b : Nat) :
    ((l.toByteArray).extract a b).toList = (l.take b).drop a := by
  rw [byteArray_toList, ByteArray.data_extract, List.data_toByteArray]
  simp only [List.extract_toArray, List.extract_eq_take_drop, List.toList_toArray]
  rw [List.drop_take]

end Redb.Format
