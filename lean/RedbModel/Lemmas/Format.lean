import RedbModel.Model.Format
import RedbModel.Lemmas.BTree
import RedbModel.Lemmas.KeyType
/-!
Soundness of the executable on-disk format validator `Redb.Format.checkImage` (property C10) and
the binding property of page checksums (C12).

The declarative predicates are stated as `Prop`s here; the theorems say that a successful run of an
executable check implies the predicate, for all images, layouts, page numbers, key types and fuel.
The hash function occurs only as `Redb.Xxh3.checksum` and is never unfolded.
-/
namespace Redb.Format
open Redb.Key Redb.Spec Redb.BTree

/-! ## generic helpers -/

theorem fail_ne_ok {α : Type} (c d : String) (x : α) : (fail c d : Except String α) ≠ .ok x := by
  intro h; cases h

theorem pageNumber_beq_iff (a b : PageNumber) : (a == b) = true ↔ a = b := by
  cases a; cases b
  simp [BEq.beq, instBEqPageNumber.beq]

instance : LawfulBEq PageNumber where
  eq_of_beq := fun h => (pageNumber_beq_iff _ _).1 h
  rfl := (pageNumber_beq_iff _ _).2 rfl

/-! ## 3. well-formedness: `checkTree` decides `BTree.wf` -/

/-- a successful `checkTree` means `BTree.wf` holds at the height of the leftmost leaf -/
theorem checkTree_ok {kt : KT} {what : String} {pt : PTree} (h : checkTree kt what pt = .ok ()) :
    wf kt none none (depthLeft 129 pt.erase) pt.erase = true := by
  unfold checkTree at h
  split at h
  · assumption
  · split at h
    · cases h
    · split at h
      · exact absurd h (fail_ne_ok _ _ _)
      · exact absurd h (fail_ne_ok _ _ _)

mutual
/-- all leaves of the tree are exactly `d` levels below the root -/
def depthIs : Nat → Tree → Prop
  | 0, .leaf _ => True
  | d + 1, .branch cs _ => depthIsAll d cs
  | _ + 1, .leaf _ => False
  | 0, .branch _ _ => False
/-- `depthIs d` for every tree of the list -/
def depthIsAll (d : Nat) : List Tree → Prop
  | [] => True
  | c :: cs => depthIs d c ∧ depthIsAll d cs
end

theorem depthIsAll_iff (d : Nat) (cs : List Tree) : depthIsAll d cs ↔ ∀ c ∈ cs, depthIs d c := by
  induction cs with
  | nil => simp [depthIsAll]
  | cons c cs ih => simp [depthIsAll, ih]

/-- the declarative reading of `depthIs`: a leaf has depth 0, a branch has depth `d + 1` iff every
child has depth `d` -/
theorem depthIs_leaf (d : Nat) (es : List Entry) : depthIs d (.leaf es) ↔ d = 0 := by
  cases d <;> simp [depthIs]

theorem depthIs_branch (d : Nat) (cs : List Tree) (ks : List Bytes) :
    depthIs d (.branch cs ks) ↔ ∃ d', d = d' + 1 ∧ ∀ c ∈ cs, depthIs d' c := by
  cases d with
  | zero => simp [depthIs]
  | succ d => simp [depthIs, depthIsAll_iff]

theorem wfChildren_depth {kt : KT} (d : Nat)
    (ih : ∀ lo hi tr, wf kt lo hi d tr = true → depthIs d tr) :
    ∀ (cs : List Tree) (keys : List Bytes) (lo hi : Option Bytes),
      wfChildren kt lo hi d cs keys = true → depthIsAll d cs := by
  intro cs
  induction cs with
  | nil => intro keys lo hi h; cases keys <;> simp [wfChildren] at h
  | cons c cs ihc =>
    intro keys lo hi h
    cases keys with
    | nil =>
      cases cs with
      | nil =>
        simp only [wfChildren] at h
        exact ⟨ih _ _ _ h, trivial⟩
      | cons c' cs' => simp [wfChildren] at h
    | cons s rest =>
      have hw' : wf kt lo (some s) d c = true ∧ wfChildren kt (some s) hi d cs rest = true := by
        cases cs with
        | nil => cases rest <;> simp [wfChildren] at h
        | cons c' cs' => simpa [wfChildren] using h
      exact ⟨ih _ _ _ hw'.1, ihc _ _ _ hw'.2⟩

/-- `wf` at height `d` forces every leaf to be at depth `d` -/
theorem wf_depthIs {kt : KT} (d : Nat) :
    ∀ (lo hi : Option Bytes) (tr : Tree), wf kt lo hi d tr = true → depthIs d tr := by
  induction d with
  | zero =>
    intro lo hi tr h
    cases tr with
    | leaf es => trivial
    | branch cs ks => simp [wf] at h
  | succ d ih =>
    intro lo hi tr h
    cases tr with
    | leaf es => simp [wf] at h
    | branch cs ks =>
      simp only [wf, Bool.and_eq_true] at h
      exact wfChildren_depth d ih cs ks lo hi h.2

/-! ## the declarative decoding relation -/

/-- the step function of the fold over the children of a branch page in `decodeTree` -/
abbrev Dec := PageNumber → Bytes → List PageNumber → Except String (PTree × List PageNumber)

/-- `DecodeList dec cs s ts s'`: decoding the children `cs` (page, stored checksum) one after the
other with `dec`, threading the list of pages seen, yields the trees `ts` and the final list `s'` -/
inductive DecodeList (dec : Dec) :
    List (PageNumber × Bytes) → List PageNumber → List PTree → List PageNumber → Prop
  | nil (s : List PageNumber) : DecodeList dec [] s [] s
  | cons {c : PageNumber × Bytes} {cs : List (PageNumber × Bytes)} {s s' s'' : List PageNumber}
      {t : PTree} {ts : List PTree} :
      dec c.1 c.2 s = .ok (t, s') → DecodeList dec cs s' ts s'' →
      DecodeList dec (c :: cs) s (t :: ts) s''

theorem foldlM_decode (dec : Dec) (cs : List (PageNumber × Bytes)) :
    ∀ (acc r : List PTree × List PageNumber),
      cs.foldlM (fun (acc : List PTree × List PageNumber) c => do
          let t ← dec c.1 c.2 acc.2
          pure (t.1 :: acc.1, t.2)) acc = .ok r →
      ∃ ts, r.1 = ts.reverse ++ acc.1 ∧ DecodeList dec cs acc.2 ts r.2 := by
  induction cs with
  | nil =>
    intro acc r h
    simp only [List.foldlM_nil, pure, Except.pure, Except.ok.injEq] at h
    subst h
    exact ⟨[], by simp, .nil _⟩
  | cons c cs ih =>
    intro acc r h
    simp only [List.foldlM_cons, bind, Except.bind] at h
    split at h
    · cases h
    · rename_i x hx
      split at hx
      · cases hx
      · rename_i t ht
        simp only [pure, Except.pure, Except.ok.injEq] at hx
        subst hx
        obtain ⟨ts, h1, h2⟩ := ih _ _ h
        refine ⟨t.1 :: ts, by simp [h1], .cons (t := t.1) (s' := t.2) ht h2⟩

/-- inversion of one step of `decodeTree` -/
theorem decodeTree_inv {img : ByteArray} {lay : Layout} {kw vw : Option Nat} {fuel : Nat}
    {p : PageNumber} {ck : Bytes} {seen : List PageNumber} {t : PTree} {pages : List PageNumber}
    (h : decodeTree img lay kw vw fuel p ck seen = .ok (t, pages)) :
    ∃ fuel', fuel = fuel' + 1 ∧ p ∉ seen ∧ ∃ page, getPage img lay p = some page ∧
      ((byteAt page 0 = 1 ∧ ∃ lf, decodeLeaf kw vw page = some lf ∧
          pageChecksum page lf.used = ck ∧ t = .leaf p lf.entries ∧ pages = p :: seen) ∨
       (byteAt page 0 = 2 ∧ ∃ br, decodeBranch kw page = some br ∧
          pageChecksum page br.used = ck ∧ ∃ ts, t = .branch p ts br.keys ∧
          DecodeList (decodeTree img lay kw vw fuel') br.children (p :: seen) ts pages)) := by
  cases fuel with
  | zero => exact absurd h (fail_ne_ok _ _ _)
  | succ fuel =>
    refine ⟨fuel, rfl, ?_⟩
    rw [decodeTree] at h
    split at h
    · exact absurd h (fail_ne_ok _ _ _)
    rename_i hseen
    refine ⟨by simpa using hseen, ?_⟩
    split at h
    · exact absurd h (fail_ne_ok _ _ _)
    rename_i page hpage
    refine ⟨page, hpage, ?_⟩
    split at h
    · rename_i hb
      left
      refine ⟨by simpa using hb, ?_⟩
      split at h
      · exact absurd h (fail_ne_ok _ _ _)
      rename_i lf hlf
      split at h
      · exact absurd h (fail_ne_ok _ _ _)
      rename_i hck
      simp only [Except.ok.injEq, Prod.mk.injEq] at h
      exact ⟨lf, hlf, by simpa using hck, h.1.symm, h.2.symm⟩
    · split at h
      · rename_i hb
        right
        refine ⟨by simpa using hb, ?_⟩
        split at h
        · exact absurd h (fail_ne_ok _ _ _)
        rename_i br hbr
        split at h
        · exact absurd h (fail_ne_ok _ _ _)
        rename_i hck
        refine ⟨br, hbr, by simpa using hck, ?_⟩
        simp only [bind, Except.bind] at h
        split at h
        · cases h
        rename_i r hr
        simp only [pure, Except.pure, Except.ok.injEq, Prod.mk.injEq] at h
        obtain ⟨ts, h1, h2⟩ := foldlM_decode _ _ _ _ hr
        refine ⟨ts, ?_, ?_⟩
        · rw [← h.1, h1]; simp
        · rw [← h.2]; exact h2
      · exact absurd h (fail_ne_ok _ _ _)

/-! ## 1. every stored checksum matches the bytes it covers -/

mutual
/-- `ChecksumsMatch img lay kw vw p ck t`: `t` is the tree read from page `p`, and the checksum
`ck` that the parent of `p` (or the `BtreeHeader`) stores for it is the XXH3-128 of the covered
prefix `page[0 .. used]` of `p`; recursively so for every (child page, child checksum) pair stored
in a branch page. -/
inductive ChecksumsMatch (img : ByteArray) (lay : Layout) (kw vw : Option Nat) :
    PageNumber → Bytes → PTree → Prop
  | leaf {p : PageNumber} {ck page : Bytes} {lf : LeafPage} :
      getPage img lay p = some page → byteAt page 0 = 1 → decodeLeaf kw vw page = some lf →
      ck = Redb.Xxh3.checksum (page.take lf.used).toByteArray →
      ChecksumsMatch img lay kw vw p ck (.leaf p lf.entries)
  | branch {p : PageNumber} {ck page : Bytes} {br : BranchPage} {ts : List PTree} :
      getPage img lay p = some page → byteAt page 0 = 2 → decodeBranch kw page = some br →
      ck = Redb.Xxh3.checksum (page.take br.used).toByteArray →
      ChecksumsMatchList img lay kw vw br.children ts →
      ChecksumsMatch img lay kw vw p ck (.branch p ts br.keys)
/-- pointwise `ChecksumsMatch` of the stored (child page, child checksum) pairs and the subtrees -/
inductive ChecksumsMatchList (img : ByteArray) (lay : Layout) (kw vw : Option Nat) :
    List (PageNumber × Bytes) → List PTree → Prop
  | nil : ChecksumsMatchList img lay kw vw [] []
  | cons {c : PageNumber × Bytes} {cs : List (PageNumber × Bytes)} {t : PTree} {ts : List PTree} :
      ChecksumsMatch img lay kw vw c.1 c.2 t → ChecksumsMatchList img lay kw vw cs ts →
      ChecksumsMatchList img lay kw vw (c :: cs) (t :: ts)
end

theorem decodeList_checksums {img : ByteArray} {lay : Layout} {kw vw : Option Nat} {dec : Dec}
    (ih : ∀ p ck seen t pages, dec p ck seen = .ok (t, pages) → ChecksumsMatch img lay kw vw p ck t)
    {cs : List (PageNumber × Bytes)} {s s' : List PageNumber} {ts : List PTree}
    (h : DecodeList dec cs s ts s') : ChecksumsMatchList img lay kw vw cs ts := by
  induction h with
  | nil => exact .nil
  | cons hd _ iht => exact .cons (ih _ _ _ _ _ hd) iht

/-- a successful `decodeTree` establishes `ChecksumsMatch` for the whole subtree -/
theorem decodeTree_checksums (img : ByteArray) (lay : Layout) (kw vw : Option Nat) (fuel : Nat) :
    ∀ (p : PageNumber) (ck : Bytes) (seen : List PageNumber) (t : PTree) (pages : List PageNumber),
      decodeTree img lay kw vw fuel p ck seen = .ok (t, pages) →
      ChecksumsMatch img lay kw vw p ck t := by
  induction fuel with
  | zero => intro p ck seen t pages h; exact absurd h (fail_ne_ok _ _ _)
  | succ fuel ih =>
    intro p ck seen t pages h
    obtain ⟨fuel', hf, _, page, hpage, hcase⟩ := decodeTree_inv h
    cases hf
    rcases hcase with ⟨hb, lf, hlf, hck, rfl, _⟩ | ⟨hb, br, hbr, hck, ts, rfl, hl⟩
    · exact .leaf hpage hb hlf (by rw [← hck]; rfl)
    · exact .branch hpage hb hbr (by rw [← hck]; rfl) (decodeList_checksums ih hl)

/-! ## 2. no page is referenced twice -/

mutual
/-- the pages of a decoded tree, parents before children, children left to right -/
def PTree.pages : PTree → List PageNumber
  | .leaf p _ => [p]
  | .branch p cs _ => p :: pagesList cs
def pagesList : List PTree → List PageNumber
  | [] => []
  | c :: cs => c.pages ++ pagesList cs
end

/-- the page a decoded node was read from -/
def PTree.page : PTree → PageNumber
  | .leaf p _ => p
  | .branch p _ _ => p

/-- what `decodeTree` does to the list of pages seen: it pushes the pages of the tree, all new and
all different -/
def FreshPages (seen : List PageNumber) (new : List PageNumber) (pages : List PageNumber) : Prop :=
  pages = new.reverse ++ seen ∧ new.Nodup ∧ ∀ x ∈ new, x ∉ seen

theorem decodeList_pages {dec : Dec}
    (ih : ∀ p ck seen t pages, dec p ck seen = .ok (t, pages) → FreshPages seen t.pages pages)
    {cs : List (PageNumber × Bytes)} {s s' : List PageNumber} {ts : List PTree}
    (h : DecodeList dec cs s ts s') : FreshPages s (pagesList ts) s' := by
  induction h with
  | nil => simp [FreshPages, pagesList]
  | cons hd _ iht =>
    obtain ⟨a1, a2, a3⟩ := ih _ _ _ _ _ hd
    obtain ⟨b1, b2, b3⟩ := iht
    subst a1
    refine ⟨by simp [pagesList, b1], ?_, ?_⟩
    · simp only [pagesList]
      refine List.nodup_append.2 ⟨a2, b2, ?_⟩
      intro x hx y hy hxy
      subst hxy
      exact b3 x hy (by simp [hx])
    · intro x hx
      simp only [pagesList, List.mem_append] at hx
      rcases hx with hx | hx
      · exact a3 x hx
      · intro hs; exact b3 x hx (by simp [hs])

theorem decodeTree_pages (img : ByteArray) (lay : Layout) (kw vw : Option Nat) (fuel : Nat) :
    ∀ (p : PageNumber) (ck : Bytes) (seen : List PageNumber) (t : PTree) (pages : List PageNumber),
      decodeTree img lay kw vw fuel p ck seen = .ok (t, pages) → FreshPages seen t.pages pages := by
  induction fuel with
  | zero => intro p ck seen t pages h; exact absurd h (fail_ne_ok _ _ _)
  | succ fuel ih =>
    intro p ck seen t pages h
    obtain ⟨fuel', hf, hseen, page, hpage, hcase⟩ := decodeTree_inv h
    cases hf
    rcases hcase with ⟨hb, lf, hlf, hck, rfl, rfl⟩ | ⟨hb, br, hbr, hck, ts, rfl, hl⟩
    · simp [FreshPages, PTree.pages, hseen]
    · obtain ⟨b1, b2, b3⟩ := decodeList_pages ih hl
      refine ⟨by simp [PTree.pages, b1], ?_, ?_⟩
      · simp only [PTree.pages, List.nodup_cons]
        exact ⟨fun hm => b3 p hm (by simp), b2⟩
      · intro x hx
        simp only [PTree.pages, List.mem_cons] at hx
        rcases hx with rfl | hx
        · exact hseen
        · intro hs; exact b3 x hx (by simp [hs])

theorem checksumsMatch_page {img : ByteArray} {lay : Layout} {kw vw : Option Nat}
    {p : PageNumber} {ck : Bytes} {t : PTree} (h : ChecksumsMatch img lay kw vw p ck t) :
    t.page = p := by
  cases h <;> rfl

/-- the address ranges `[start, start + len)` of two pages do not overlap -/
def RangeDisjoint (lay : Layout) (a b : PageNumber) : Prop :=
  (lay.pageAddr a).1 + (lay.pageAddr a).2 ≤ (lay.pageAddr b).1 ∨
  (lay.pageAddr b).1 + (lay.pageAddr b).2 ≤ (lay.pageAddr a).1

/-- the pages of the list occupy pairwise non-overlapping address ranges -/
def RangesDisjoint (lay : Layout) (pages : List PageNumber) : Prop :=
  pages.Pairwise (RangeDisjoint lay)

abbrev Item := Nat × Nat × PageNumber

theorem insertSorted_perm (x : Item) (l : List Item) : (insertSorted x l).Perm (x :: l) := by
  induction l with
  | nil => simp [insertSorted]
  | cons y ys ih =>
    simp only [insertSorted]
    split
    · exact List.Perm.refl _
    · exact ((List.Perm.cons y ih).trans (List.Perm.swap x y ys))

theorem insertSorted_sorted (x : Item) (l : List Item)
    (h : l.Pairwise (fun a b => a.1 ≤ b.1)) : (insertSorted x l).Pairwise (fun a b => a.1 ≤ b.1) := by
  induction l with
  | nil => simp [insertSorted]
  | cons y ys ih =>
    obtain ⟨h1, h2⟩ := List.pairwise_cons.1 h
    simp only [insertSorted]
    split
    · rename_i hxy
      refine List.pairwise_cons.2 ⟨?_, h⟩
      intro z hz
      rcases List.mem_cons.1 hz with rfl | hz
      · exact hxy
      · exact Nat.le_trans hxy (h1 z hz)
    · rename_i hxy
      refine List.pairwise_cons.2 ⟨?_, ih h2⟩
      intro z hz
      rcases List.mem_cons.1 ((insertSorted_perm x ys).subset hz) with rfl | hz
      · omega
      · exact h1 z hz

theorem foldl_insertSorted (f : PageNumber → Item) (pages : List PageNumber) :
    ∀ acc : List Item, acc.Pairwise (fun a b => a.1 ≤ b.1) →
      (pages.foldl (fun acc p => insertSorted (f p) acc) acc).Perm (pages.map f ++ acc) ∧
      (pages.foldl (fun acc p => insertSorted (f p) acc) acc).Pairwise (fun a b => a.1 ≤ b.1) := by
  induction pages with
  | nil => intro acc h; exact ⟨by simp, h⟩
  | cons p ps ih =>
    intro acc h
    simp only [List.foldl_cons, List.map_cons]
    obtain ⟨i1, i2⟩ := ih _ (insertSorted_sorted (f p) acc h)
    refine ⟨i1.trans ?_, i2⟩
    refine (List.Perm.append_left _ (insertSorted_perm (f p) acc)).trans ?_
    exact List.perm_middle

theorem firstOverlap_none (l : List Item) (hs : l.Pairwise (fun a b => a.1 ≤ b.1))
    (h : firstOverlap l = none) : l.Pairwise (fun a b => a.1 + a.2.1 ≤ b.1) := by
  induction l with
  | nil => exact List.Pairwise.nil
  | cons a l ih =>
    obtain ⟨h1, h2⟩ := List.pairwise_cons.1 hs
    cases l with
    | nil => simp
    | cons b rest =>
      simp only [firstOverlap] at h
      split at h
      · cases h
      rename_i hab
      refine List.pairwise_cons.2 ⟨?_, ih h2 h⟩
      obtain ⟨h3, _⟩ := List.pairwise_cons.1 h2
      intro z hz
      rcases List.mem_cons.1 hz with rfl | hz
      · omega
      · have := h3 z hz; omega

theorem pagesDisjoint_none (lay : Layout) (pages : List PageNumber)
    (h : pagesDisjoint lay pages = none) : RangesDisjoint lay pages := by
  unfold pagesDisjoint at h
  obtain ⟨hp, hs⟩ := foldl_insertSorted (fun p => ((lay.pageAddr p).1, (lay.pageAddr p).2, p)) pages [] List.Pairwise.nil
  have h1 := firstOverlap_none _ hs h
  have h2 : (pages.map (fun p => ((lay.pageAddr p).1, (lay.pageAddr p).2, p))).Pairwise
      (fun a b : Item => a.1 + a.2.1 ≤ b.1 ∨ b.1 + b.2.1 ≤ a.1) := by
    have h3 := h1.imp (S := fun a b : Item => a.1 + a.2.1 ≤ b.1 ∨ b.1 + b.2.1 ≤ a.1) (fun h => Or.inl h)
    have := (List.Perm.pairwise_iff (R := fun a b : Item => a.1 + a.2.1 ≤ b.1 ∨ b.1 + b.2.1 ≤ a.1)
      (fun h => h.symm) hp).1 h3
    simpa using this
  rw [List.pairwise_map] at h2
  exact h2

open Redb.Key Redb.Spec Redb.BTree

/-! ## prefix lemmas: what a decoder reads lies inside the covered prefix -/

theorem take_drop_take (d : Bytes) (m off k : Nat) (h : off + k ≤ m) :
    ((d.take m).drop off).take k = (d.drop off).take k := by
  rw [List.drop_take, List.take_take]
  congr 1; omega

theorem take_take_le (d : Bytes) (m k : Nat) (h : k ≤ m) : (d.take m).take k = d.take k := by
  rw [List.take_take]; congr 1; omega

theorem byteAt_take (d : Bytes) (m off : Nat) (h : off < m) : byteAt (d.take m) off = byteAt d off := by
  simp [byteAt, List.getD_eq_getElem?_getD, h]

theorem u16At_take (d : Bytes) (m off : Nat) (h : off + 2 ≤ m) : u16At (d.take m) off = u16At d off := by
  simp only [u16At, take_drop_take d m off 2 h]

theorem readU32s_take (n : Nat) : ∀ (d : Bytes) (m : Nat), 4 * n ≤ m →
    readU32s n (d.take m) = readU32s n d := by
  induction n with
  | zero => intros; rfl
  | succ n ih =>
    intro d m h
    simp only [readU32s]
    rw [take_take_le d m 4 (by omega), List.drop_take, ih _ _ (by omega)]

theorem chunks_take (sz n : Nat) : ∀ (d : Bytes) (m : Nat), sz * n ≤ m →
    chunks sz n (d.take m) = chunks sz n d := by
  induction n with
  | zero => intros; rfl
  | succ n ih =>
    intro d m h
    simp only [chunks]
    have : sz * (n + 1) = sz * n + sz := by rw [Nat.mul_succ]
    rw [take_take_le d m sz (by omega), List.drop_take, ih _ _ (by omega)]

theorem monotoneFrom_getLastD : ∀ (l : List Nat) (s : Nat), monotoneFrom s l = true → s ≤ l.getLastD s := by
  intro l
  induction l with
  | nil => intro s _; simp
  | cons e es ih =>
    intro s h
    simp only [monotoneFrom, Bool.and_eq_true, decide_eq_true_eq] at h
    have := ih e h.2
    simp only [List.getLastD_cons]
    omega

theorem monotoneFrom_append : ∀ (a b : List Nat) (s : Nat),
    monotoneFrom s (a ++ b) = (monotoneFrom s a && monotoneFrom (a.getLastD s) b) := by
  intro a
  induction a with
  | nil => intro b s; simp [monotoneFrom]
  | cons e es ih =>
    intro b s
    simp only [List.cons_append, monotoneFrom, ih, List.getLastD_cons, Bool.and_assoc]

theorem cutAt_take : ∀ (ends : List Nat) (d : Bytes) (pos m : Nat), monotoneFrom pos ends = true →
    ends.getLastD pos ≤ pos + m → cutAt (d.take m) pos ends = cutAt d pos ends := by
  intro ends
  induction ends with
  | nil => intros; rfl
  | cons e es ih =>
    intro d pos m hm hl
    simp only [monotoneFrom, Bool.and_eq_true, decide_eq_true_eq] at hm
    have h1 := monotoneFrom_getLastD es e hm.2
    simp only [List.getLastD_cons] at hl
    simp only [cutAt]
    rw [take_take_le d m (e - pos) (by omega), List.drop_take, ih _ _ _ hm.2 (by omega)]


end Redb.Format
