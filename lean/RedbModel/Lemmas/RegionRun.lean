import RedbModel.Lemmas.RegionOps
import RedbModel.Lemmas.RegionResize
import RedbModel.Lemmas.RegionCheck
/-!
`allocate_helper` (retry, grow, retry) and operation sequences over the region model:
every step preserves `TrackerSound` of the in-memory state and of the saved allocator state.
-/
namespace Redb.Region
open Redb.Buddy

/-- `allocate_helper`: the block handed out was free in the state `s0` in which the successful
`alloc` took place; `s0` has the regions of `s`, or is the result of `grow` on a state with the
regions of `s` in which no region had a free block of order `≥ o` -/
theorem allocate_spec {s s' : St} {o r p : Nat} {lowest : Bool} (h : TrackerSound s)
    (ha : allocate s o lowest = some (s', r, p)) :
    TrackerSound s' ∧ s'.cap = s.cap ∧
    ∃ s0, TrackerSound s0 ∧ Allocated s0 s' r p o ∧
      (s0.regions = s.regions ∨
        ∃ s1, s1.regions = s.regions ∧ TrackerSound s1 ∧
          (∀ (r : Nat) (b : Buddy), s1.regions[r]? = some b → ¬ FreeGE b o) ∧ grow s1 o = some s0) := by
  simp only [allocate, allocNoGrow] at ha
  split at ha
  · cases ha
  · next s1 r1 p1 h1 =>
    cases ha
    obtain ⟨g1, g2, _, _, g5⟩ := retry_spec lowest o _ s h _ h1
    exact ⟨g1, g2, s, h, g5, Or.inl rfl⟩
  · next s1 h1 =>
    obtain ⟨g1, g2, _, _, g5⟩ := retry_spec lowest o _ s h _ h1
    split at ha
    · cases ha
    · next s2 h2 =>
      obtain ⟨k1, k2⟩ := grow_sound g1 h2
      split at ha
      · next s3 r3 p3 h3 =>
        cases ha
        obtain ⟨m1, m2, _, _, m5⟩ := retry_spec lowest o _ s2 k1 _ h3
        refine ⟨m1, by rw [m2, k2, g2], s2, k1, m5, Or.inr ⟨s1, g5.1, g1, ?_, h2⟩⟩
        intro r b hr
        rw [g5.1] at hr
        exact g5.2 r b hr
      · cases ha

theorem pageFreeB_iff (b : Buddy) (q : Nat) : pageFreeB b q = true ↔ PageFree b.maxOrder b.free q := by
  simp only [pageFreeB, List.any_eq_true, List.mem_range, isFreeAt_iff, PageFree]
  constructor
  · rintro ⟨k, h1, h2⟩; exact ⟨k, by omega, h2⟩
  · rintro ⟨k, h1, h2⟩; exact ⟨k, by omega, h2⟩

/-- the executable client contract of `free` -/
theorem heldB_spec {b : Buddy} {p o : Nat} (h : heldB b p o = true) :
    o ≤ b.maxOrder ∧ (p + 1) * 2 ^ o ≤ b.len ∧ ∀ q, q / 2 ^ o = p → ¬ PageFree b.maxOrder b.free q := by
  simp only [heldB, Bool.and_eq_true, decide_eq_true_eq, List.all_eq_true, List.mem_range,
    Bool.not_eq_true'] at h
  refine ⟨h.1.1, h.1.2, fun q hq hf => ?_⟩
  have hpos := Nat.two_pow_pos o
  have h1 := h.2 (q % 2 ^ o) (Nat.mod_lt _ hpos)
  have : p * 2 ^ o + q % 2 ^ o = q := by
    rw [← hq, Nat.mul_comm]; exact Nat.div_add_mod q (2 ^ o)
  rw [this] at h1
  have := (pageFreeB_iff b q).2 hf
  simp_all

/-- the in-memory state and the saved allocator state both satisfy the invariant -/
def DbSound (d : Db) : Prop :=
  TrackerSound d.mem ∧
  ∀ sv, d.disk = some sv → TrackerSound { d.mem with regions := sv.1, tracker := sv.2 }

theorem step_sound {d d' : Db} {op : Op} (h : DbSound d) (hs : step d op = some d') : DbSound d' := by
  obtain ⟨hm, hd⟩ := h
  have keep : ∀ m : St, TrackerSound m → DbSound { d with mem := m } :=
    fun m hm' => ⟨hm', fun sv hsv => (hd sv hsv).congr rfl rfl⟩
  cases op with
  | alloc o lowest =>
    simp only [step, Option.map_eq_some_iff] at hs
    obtain ⟨⟨s', r, p⟩, h1, rfl⟩ := hs
    exact keep _ (allocate_spec hm h1).1
  | free r p o =>
    simp only [step] at hs
    split at hs
    · cases hs
    · next b hb =>
      split at hs
      · next hh =>
        simp only [Option.map_eq_some_iff] at hs
        obtain ⟨m, h1, rfl⟩ := hs
        obtain ⟨g1, g2, g3⟩ := heldB_spec hh
        obtain ⟨s', _, e1, e2, _⟩ := free_sound hm hb g1 g2 g3
        rw [e1] at h1; cases h1
        exact keep _ e2
      · cases hs
  | resizeTo l =>
    simp only [step, Option.map_eq_some_iff] at hs
    obtain ⟨m, h1, rfl⟩ := hs
    exact keep _ ((resizeTo_sound hm h1).1.congr rfl rfl)
  | grow o =>
    simp only [step, Option.map_eq_some_iff] at hs
    obtain ⟨m, h1, rfl⟩ := hs
    exact keep _ (grow_sound hm h1).1
  | tryShrink force =>
    simp only [step, Option.map_eq_some_iff] at hs
    obtain ⟨⟨m, res⟩, h1, rfl⟩ := hs
    exact keep _ (tryShrink_sound hm h1).1
  | save =>
    simp only [step] at hs
    cases hs
    exact ⟨hm, fun sv hsv => by cases hsv; exact hm.congr rfl rfl⟩
  | load l =>
    simp only [step] at hs
    split at hs
    · cases hs
    · next sv hsv =>
      simp only [Option.map_eq_some_iff] at hs
      obtain ⟨m, h1, rfl⟩ := hs
      exact keep _ (load_sound (hd sv hsv) h1).1
  | reset l =>
    simp only [step] at hs
    split at hs
    · next hwf =>
      cases hs
      exact keep _ (newWith_sound _ _ _ hwf)
    · cases hs
  | recordAlloc r p o =>
    simp only [step, Option.map_eq_some_iff] at hs
    obtain ⟨m, h1, rfl⟩ := hs
    exact keep _ (recordAlloc_sound hm h1).1

theorem run_sound {d d' : Db} (ops : List Op) (h : DbSound d) (hr : run d ops = some d') : DbSound d' := by
  induction ops generalizing d with
  | nil => simp only [run] at hr; cases hr; exact h
  | cons op ops ih =>
    simp only [run] at hr
    split at hr
    · cases hr
    · next d1 h1 => exact ih (step_sound h h1) hr

end Redb.Region
