import RedbModel.Lemmas.Buddy
/-!
`allocLowest`: returns the lowest entirely free block of the requested order.
-/
namespace Redb.Buddy

/-- all pages of block `j` of order `o` are free -/
def AllFree (mo : Nat) (f : List Bits) (o j : Nat) : Prop := ∀ q, q / 2 ^ o = j → PageFree mo f q

/-! ### arithmetic -/

theorem mul_pow_sub {a o k : Nat} (h : o ≤ k) : a * 2 ^ (k - o) * 2 ^ o = a * 2 ^ k := by
  rw [Nat.mul_assoc, ← Nat.pow_add]; congr 2; omega

theorem le_of_div_eq {q k z : Nat} (h : q / 2 ^ k = z) : z * 2 ^ k ≤ q := by
  rw [← h]; exact Nat.div_mul_le_self q (2 ^ k)

theorem div_of_left_aligned {q bo oc bi yc : Nat} (hle : bo ≤ oc) (hb : bi = yc * 2 ^ (oc - bo))
    (hq : q / 2 ^ bo = bi) : q / 2 ^ oc = yc := by
  rw [div_pow_of_le hle, hq, hb, block_nonempty]

/-! ### the free-page set determines the bitmaps -/

theorem freeAt_allFree {mo : Nat} {f : List Bits} {o i : Nat} (ho : o ≤ mo) (hf : FreeAt f o i) :
    AllFree mo f o i := fun _ hq => freeAt_pageFree ho hf hq

theorem freeAt_parent_not_allFree {mo len : Nat} {f : List Bits} (h : Inv mo len f) {o i : Nat}
    (ho : o < mo) (hf : FreeAt f o i) : ¬ AllFree mo f (o + 1) (i / 2) := by
  intro hall
  obtain ⟨o2, h1, h2, hf2⟩ := cover h (o + 1) (i / 2) ho hall
  have hq := block_nonempty o i
  have hq2 : (i * 2 ^ o) / 2 ^ o2 = i / 2 / 2 ^ (o2 - (o + 1)) := by
    rw [div_pow_of_le h1, div_pow_succ, hq]
  have := h.unique (i * 2 ^ o) o o2 (by omega) h2 (by rw [hq]; exact hf) (by rw [hq2]; exact hf2)
  omega

theorem freeAt_of_allFree {mo len : Nat} {f : List Bits} (h : Inv mo len f) {o i : Nat}
    (ho : o ≤ mo) (hall : AllFree mo f o i) (hp : o < mo → ¬ AllFree mo f (o + 1) (i / 2)) :
    FreeAt f o i := by
  obtain ⟨o', h1, h2, hf⟩ := cover h o i ho hall
  by_cases e : o' = o
  · subst e; simpa using hf
  · exfalso
    have e' : o' - o = (o' - (o + 1)) + 1 := by omega
    rw [e', div_pow_succ'] at hf
    exact hp (by omega) (fun q hq => freeAt_cover_pageFree (by omega) h2 hf hq)

/-! ### extra facts about `allocInner` -/

theorem firstUnset_le (f : List Bits) (o x j : Nat) (h : firstUnset (f.getD o []) = some x)
    (hj : FreeAt f o j) : x ≤ j := by
  simp only [firstUnset] at h
  simp only [FreeAt, lenAt, getBit] at hj
  rw [List.findIdx?_eq_some_iff_getElem] at h
  obtain ⟨hx, _, hmin⟩ := h
  by_cases hlt : j < x
  · have := hmin j hlt
    grind
  · omega

/-- the block returned by `allocInner` is the leftmost sub-block of a block that is free at some
order `≥ o`, and it is not to the right of any block free at order `o` itself -/
theorem allocInner_left (mo : Nat) (f : List Bits) (o : Nat) :
    ∀ i f', allocInner mo f o = some (i, f') →
      (∃ o' y, o ≤ o' ∧ o' ≤ mo ∧ FreeAt f o' y ∧ i = y * 2 ^ (o' - o)) ∧
      (∀ x, FreeAt f o x → i ≤ x) := by
  fun_induction allocInner mo f o with
  | case1 o hgt => intro i f' ha; simp at ha
  | case2 o hle x hx =>
    intro i f' ha
    simp only [Option.some.injEq, Prod.mk.injEq] at ha
    obtain ⟨rfl, rfl⟩ := ha
    exact ⟨⟨o, x, Nat.le_refl _, by omega, firstUnset_some f o x hx, by simp⟩,
      fun j hj => firstUnset_le f o x j hx hj⟩
  | case3 o hle hnone hrec ih => intro i f' ha; simp at ha
  | case4 o hle hnone up f1 hrec ih =>
    intro i f' ha
    simp only [Option.some.injEq, Prod.mk.injEq] at ha
    obtain ⟨rfl, rfl⟩ := ha
    obtain ⟨⟨o', y, h1, h2, hf, hy⟩, _⟩ := ih up f1 hrec
    refine ⟨⟨o', y, by omega, h2, hf, ?_⟩, fun x hx => absurd hx (firstUnset_none f o hnone x)⟩
    have e : o' - o = (o' - (o + 1)) + 1 := by omega
    rw [hy, e, Nat.pow_succ]; ac_rfl

/-! ### a state that holds one left-aligned block -/

/-- `g` is `f` with exactly the pages of block `bi` of order `bo` removed from the free set,
where that block is the leftmost sub-block of a block that is free in `f`. -/
structure Held (mo len : Nat) (f g : List Bits) (bo bi : Nat) : Prop where
  inv : Inv mo len g
  ord : bo ≤ mo
  range : bi < len / 2 ^ bo
  cov : ∃ oc yc, bo ≤ oc ∧ oc ≤ mo ∧ FreeAt f oc yc ∧ bi = yc * 2 ^ (oc - bo)
  pages : ∀ q, PageFree mo g q ↔ (PageFree mo f q ∧ q / 2 ^ bo ≠ bi)

theorem Held.allFree {mo len : Nat} {f g : List Bits} {bo bi : Nat} (hh : Held mo len f g bo bi) :
    AllFree mo f bo bi := by
  obtain ⟨oc, yc, h1, h2, hf, hb⟩ := hh.cov
  intro q hq
  exact ⟨oc, h2, by rw [div_of_left_aligned h1 hb hq]; exact hf⟩

/-- a block free in `f` is still free in `g`, or it is the block that covers the held one -/
theorem Held.freeAt_of {mo len : Nat} {f g : List Bits} {bo bi : Nat} (hh : Held mo len f g bo bi)
    (h : Inv mo len f) {i x : Nat} (hi : i ≤ mo) (hf : FreeAt f i x) :
    FreeAt g i x ∨ (bo ≤ i ∧ bi = x * 2 ^ (i - bo)) := by
  obtain ⟨oc, yc, h1, h2, hfc, hb⟩ := hh.cov
  by_cases hd : ∃ q, q / 2 ^ i = x ∧ q / 2 ^ bo = bi
  · obtain ⟨q, hq1, hq2⟩ := hd
    have hq3 := div_of_left_aligned h1 hb hq2
    have := h.unique q i oc hi h2 (by rw [hq1]; exact hf) (by rw [hq3]; exact hfc)
    subst this
    have : x = yc := by rw [← hq1, hq3]
    subst this
    exact Or.inr ⟨h1, hb⟩
  · left
    have hd' : ∀ q, q / 2 ^ i = x → q / 2 ^ bo ≠ bi := fun q h1 h2 => hd ⟨q, h1, h2⟩
    apply freeAt_of_allFree hh.inv hi
    · intro q hq
      exact (hh.pages q).2 ⟨freeAt_pageFree hi hf hq, hd' q hq⟩
    · intro hlt hall
      exact freeAt_parent_not_allFree h hlt hf (fun q hq => ((hh.pages q).1 (hall q hq)).1)

/-- a block free in `g` is free in `f`, or it starts at or after the held block -/
theorem Held.freeAt_to {mo len : Nat} {f g : List Bits} {bo bi : Nat} (hh : Held mo len f g bo bi)
    (h : Inv mo len f) {o' y : Nat} (ho' : o' ≤ mo) (hf : FreeAt g o' y) :
    FreeAt f o' y ∨ bi * 2 ^ bo ≤ y * 2 ^ o' := by
  obtain ⟨oc, yc, h1, h2, hfc, hb⟩ := hh.cov
  have hall : AllFree mo f o' y := fun q hq => ((hh.pages q).1 (freeAt_pageFree ho' hf hq)).1
  by_cases hp : o' < mo ∧ AllFree mo f (o' + 1) (y / 2)
  · right
    obtain ⟨hlt, hpall⟩ := hp
    have hng := freeAt_parent_not_allFree hh.inv hlt hf
    have : ∃ q, q / 2 ^ (o' + 1) = y / 2 ∧ ¬ PageFree mo g q := by
      apply Classical.byContradiction
      intro hc
      apply hng
      intro q hq
      apply Classical.byContradiction
      intro hn
      exact hc ⟨q, hq, hn⟩
    obtain ⟨q, hq, hnq⟩ := this
    have hqb : q / 2 ^ bo = bi := by
      apply Classical.byContradiction
      intro hne
      exact hnq ((hh.pages q).2 ⟨hpall q hq, hne⟩)
    have hqc := div_of_left_aligned h1 hb hqb
    obtain ⟨o2, g1, g2, hf2⟩ := cover h (o' + 1) (y / 2) hlt hpall
    have hq2 : q / 2 ^ o2 = y / 2 / 2 ^ (o2 - (o' + 1)) := by rw [div_pow_of_le g1, hq]
    have := h.unique q o2 oc g2 h2 (by rw [hq2]; exact hf2) (by rw [hqc]; exact hfc)
    subst this
    have hq0 : (y * 2 ^ o') / 2 ^ o2 = yc := by
      rw [div_pow_of_le g1, div_pow_succ, block_nonempty, ← hq2, hqc]
    have := le_of_div_eq hq0
    have e : bi * 2 ^ bo = yc * 2 ^ o2 := by rw [hb, mul_pow_sub h1]
    omega
  · left
    exact freeAt_of_allFree h ho' hall (fun hlt hpall => hp ⟨hlt, hpall⟩)


/-! ### the search loop of `allocLowest` -/

/-- loop invariant of `alloc_lowest` before order `i` is tried -/
structure LowInv (mo len : Nat) (f : List Bits) (o : Nat) (s : LowState) (i : Nat) : Prop where
  held : Held mo len f s.f s.bestOrder s.bestIdx
  ord : o ≤ s.bestOrder
  pos : s.bestAtOrder = s.bestIdx * 2 ^ (s.bestOrder - o)
  least : ∀ o' x, o ≤ o' → o' < i → o' ≤ mo → FreeAt f o' x → s.bestAtOrder ≤ x * 2 ^ (o' - o)

/-- blocks free in `f` at the order just tried are not left of the best candidate, provided
the candidate found at that order (if any) is not -/
theorem LowInv.least_at {mo len : Nat} {f : List Bits} {o : Nat} {s : LowState} {i : Nat}
    (hl : LowInv mo len f o s i) (h : Inv mo len f) (hoi : o ≤ i) (hi : i ≤ mo) {x : Nat}
    (hf : FreeAt f i x) (hg : FreeAt s.f i x → s.bestAtOrder ≤ x * 2 ^ (i - o)) :
    s.bestAtOrder ≤ x * 2 ^ (i - o) := by
  rcases hl.held.freeAt_of h hi hf with hfg | ⟨hle, hb⟩
  · exact hg hfg
  · have h1 := mul_pow_sub (a := s.bestIdx) hl.ord
    have h2 := mul_pow_sub (a := x) hle
    have h3 := mul_pow_sub (a := x) hoi
    rw [← hb] at h2
    have : s.bestAtOrder * 2 ^ o = x * 2 ^ (i - o) * 2 ^ o := by rw [hl.pos, h1, h2, h3]
    exact Nat.le_of_eq (Nat.eq_of_mul_eq_mul_right (Nat.two_pow_pos o) this)

theorem lowestStep_inv {mo len : Nat} {f : List Bits} {o : Nat} {s : LowState} {i : Nat}
    (h : Inv mo len f) (hoi : o < i) (hi : i ≤ mo) (hl : LowInv mo len f o s i) :
    LowInv mo len f o (lowestStep mo o s i) (i + 1) := by
  unfold lowestStep
  split
  · -- nothing free at orders `≥ i`
    rename_i hnone
    refine ⟨hl.held, hl.ord, hl.pos, ?_⟩
    intro o' x h1 h2 h3 hf
    by_cases e : o' = i
    · subst e
      exact hl.least_at h h1 h3 hf (fun hfg => absurd hfg (allocInner_none mo s.f o' hnone o' (Nat.le_refl _) h3 x))
    · exact hl.least o' x h1 (by omega) h3 hf
  · rename_i index g' hsome
    obtain ⟨_, hinv', hr', hin, hout⟩ := allocInner_sound' mo len s.f i hl.held.inv index g' hsome
    obtain ⟨⟨o', y, g1, g2, hfy, hy⟩, hmin⟩ := allocInner_left mo s.f i index g' hsome
    -- pages of `g'`
    have hpg : ∀ q, PageFree mo g' q ↔ (PageFree mo s.f q ∧ q / 2 ^ i ≠ index) := by
      intro q
      by_cases e : q / 2 ^ i = index
      · exact ⟨fun hc => absurd hc (hin q e).2, fun hc => absurd e hc.2⟩
      · rw [hout q e]; exact ⟨fun a => ⟨a, e⟩, fun a => a.1⟩
    -- the new block and the held block are disjoint
    have hdisj : ∀ q, q / 2 ^ i = index → q / 2 ^ s.bestOrder ≠ s.bestIdx := fun q hq =>
      ((hl.held.pages q).1 (hin q hq).1).2
    have hleast_i : ∀ x, FreeAt f i x → min (index * 2 ^ (i - o)) s.bestAtOrder ≤ x * 2 ^ (i - o) := by
      intro x hf
      by_cases hc : s.bestAtOrder ≤ x * 2 ^ (i - o)
      · omega
      · have : ¬ (FreeAt s.f i x → s.bestAtOrder ≤ x * 2 ^ (i - o)) :=
          fun himp => hc (hl.least_at h (by omega) hi hf himp)
        have hfg : FreeAt s.f i x := Classical.byContradiction fun hn => this (fun a => absurd a hn)
        have := Nat.mul_le_mul_right (2 ^ (i - o)) (hmin x hfg)
        omega
    dsimp only
    split
    · -- the new candidate is lower: keep it, free the old one
      rename_i hlt
      have hfr := freeInner_spec' mo len g' s.bestIdx s.bestOrder hinv' hl.held.ord hl.held.range
        (fun q hq hc => ((hl.held.pages q).1 ((hpg q).1 hc).1).2 hq)
      obtain ⟨hinv2, hpf2, _⟩ := hfr
      -- the covering block of the new candidate is free in `f`
      have hcov : FreeAt f o' y := by
        rcases hl.held.freeAt_to h g2 hfy with hc | hc
        · exact hc
        · exfalso
          have h1 := mul_pow_sub (a := s.bestIdx) hl.ord
          have h2 := mul_pow_sub (a := index) (show o ≤ i by omega)
          have h3 := mul_pow_sub (a := y) g1
          rw [← hy] at h3
          have := Nat.mul_lt_mul_of_pos_right hlt (Nat.two_pow_pos o)
          rw [hl.pos, h1, h2] at this
          omega
      refine ⟨⟨hinv2, hi, hr', ⟨o', y, g1, g2, hcov, hy⟩, ?_⟩, by dsimp only; omega, rfl, ?_⟩
      · intro q
        dsimp only
        rw [hpf2 q, hpg q, hl.held.pages q]
        constructor
        · rintro (⟨⟨a, _⟩, c⟩ | b)
          · exact ⟨a, c⟩
          · exact ⟨hl.held.allFree q b, fun e => hdisj q e b⟩
        · rintro ⟨a, c⟩
          by_cases e : q / 2 ^ s.bestOrder = s.bestIdx
          · exact Or.inr e
          · exact Or.inl ⟨⟨a, e⟩, c⟩
      · intro o'' x h1 h2 h3 hf
        dsimp only
        by_cases e : o'' = i
        · subst e
          have := hleast_i x hf
          omega
        · have := hl.least o'' x h1 (by omega) h3 hf
          omega
    · -- keep the old candidate, free the new one
      rename_i hge
      have hfr := freeInner_spec' mo len g' index i hinv' hi hr' (fun q hq => (hin q hq).2)
      obtain ⟨hinv2, hpf2, _⟩ := hfr
      refine ⟨⟨hinv2, hl.held.ord, hl.held.range, hl.held.cov, ?_⟩, hl.ord, hl.pos, ?_⟩
      · intro q
        dsimp only
        rw [hpf2 q, hpg q, ← hl.held.pages q]
        constructor
        · rintro (⟨a, _⟩ | b)
          · exact a
          · exact (hin q b).1
        · intro a
          by_cases e : q / 2 ^ i = index
          · exact Or.inr e
          · exact Or.inl ⟨a, e⟩
      · intro o'' x h1 h2 h3 hf
        dsimp only
        by_cases e : o'' = i
        · subst e
          have := hleast_i x hf
          omega
        · exact hl.least o'' x h1 (by omega) h3 hf

theorem lowest_fold {mo len : Nat} {f : List Bits} {o : Nat} (h : Inv mo len f) (n : Nat) :
    ∀ (a : Nat) (s : LowState), o < a → a + n ≤ mo + 1 → LowInv mo len f o s a →
      LowInv mo len f o ((List.range' a n).foldl (lowestStep mo o) s) (a + n) := by
  induction n with
  | zero => intro a s _ _ hl; simpa using hl
  | succ n ih =>
    intro a s h1 h2 hl
    rw [List.range'_succ, List.foldl_cons]
    have := ih (a + 1) _ (by omega) (by omega) (lowestStep_inv h h1 (by omega) hl)
    rw [show a + (n + 1) = a + 1 + n by omega]
    exact this


/-! ### the split-down loop -/

theorem Held.split {mo len : Nat} {f g : List Bits} {k idx : Nat}
    (hh : Held mo len f g (k + 1) idx) :
    Held mo len f (setBit g k (2 * idx + 1) false) k (2 * idx) := by
  have hk : k ≤ mo := by have := hh.ord; omega
  have hr := hh.range
  rw [div_pow_succ] at hr
  have hx := xor_one_eq (2 * idx + 1)
  rw [if_neg (by omega)] at hx
  have hheld : ∀ q, q / 2 ^ k = 2 * idx + 1 → ¬ PageFree mo g q := fun q hq hc =>
    ((hh.pages q).1 hc).2 (by rw [div_pow_succ, hq]; omega)
  have hb : k < mo → ¬ FreeAt g k ((2 * idx + 1) ^^^ 1) := by
    intro _ hc
    rw [hx] at hc
    have hq := block_nonempty k (2 * idx + 1 - 1)
    exact ((hh.pages _).1 (freeAt_pageFree hk hc hq)).2 (by rw [div_pow_succ, hq]; omega)
  obtain ⟨hinv, hpf⟩ := mark_free hh.inv hk (j := 2 * idx + 1) (by omega) hheld hb
  obtain ⟨oc, yc, h1, h2, hfc, hbc⟩ := hh.cov
  refine ⟨hinv, hk, by omega, ⟨oc, yc, by omega, h2, hfc, ?_⟩, ?_⟩
  · have e : oc - k = (oc - (k + 1)) + 1 := by omega
    rw [hbc, e, Nat.pow_succ]; ac_rfl
  · intro q
    rw [hpf q, hh.pages q]
    have hd := div_pow_succ q k
    constructor
    · rintro (⟨a, b⟩ | b)
      · exact ⟨a, by omega⟩
      · exact ⟨hh.allFree q (by omega), by omega⟩
    · rintro ⟨a, b⟩
      by_cases e : q / 2 ^ (k + 1) = idx
      · exact Or.inr (by omega)
      · exact Or.inl ⟨a, e⟩

theorem splitDown_held {mo len : Nat} {f : List Bits} (g : List Bits) (idx ord o : Nat) :
    o ≤ ord → Held mo len f g ord idx →
      Held mo len f (splitDown g idx ord o).2 o (splitDown g idx ord o).1 ∧
      (splitDown g idx ord o).1 = idx * 2 ^ (ord - o) := by
  fun_induction splitDown g idx ord o with
  | case1 g idx ord hgt ih =>
    intro _ hh
    obtain ⟨k, rfl⟩ : ∃ k, ord = k + 1 := ⟨ord - 1, by omega⟩
    simp only [Nat.add_sub_cancel] at ih ⊢
    obtain ⟨h1, h2⟩ := ih (by omega) hh.split
    refine ⟨h1, ?_⟩
    have e : k + 1 - o = (k - o) + 1 := by omega
    rw [h2, e, Nat.pow_succ]; ac_rfl
  | case2 g idx ord hle =>
    intro h1 hh
    have : ord = o := by omega
    subst this
    exact ⟨hh, by simp⟩

/-! ### `allocLowest` -/

/-- `alloc_lowest` is sound like `alloc`, and in addition returns the LOWEST index `i` such that
block `i` of order `o` is entirely free. -/
theorem allocLowest_spec (mo len : Nat) (f f' : List Bits) (o i : Nat)
    (h : Inv mo len f) (ha : allocLowest mo f o = some (i, f')) :
    Inv mo len f' ∧ (i + 1) * 2 ^ o ≤ len ∧
    (∀ p, p / 2 ^ o = i → PageFree mo f p ∧ ¬ PageFree mo f' p) ∧
    (∀ p, p / 2 ^ o ≠ i → (PageFree mo f' p ↔ PageFree mo f p)) ∧
    (∀ j, (∀ p, p / 2 ^ o = j → PageFree mo f p) → i ≤ j) := by
  unfold allocLowest at ha
  split at ha
  · simp at ha
  · rename_i idx f1 hsome
    obtain ⟨ho, hinv1, hr1, hin, hout⟩ := allocInner_sound' mo len f o h idx f1 hsome
    obtain ⟨hcov, hmin⟩ := allocInner_left mo f o idx f1 hsome
    -- the loop invariant holds initially
    have hl0 : LowInv mo len f o
        { bestAtOrder := idx, bestIdx := idx, bestOrder := o, f := f1 } (o + 1) := by
      refine ⟨⟨hinv1, ho, hr1, hcov, ?_⟩, Nat.le_refl _, by simp, ?_⟩
      · intro q
        by_cases e : q / 2 ^ o = idx
        · exact ⟨fun hc => absurd hc (hin q e).2, fun hc => absurd e hc.2⟩
        · dsimp only; rw [hout q e]; exact ⟨fun a => ⟨a, e⟩, fun a => a.1⟩
      · intro o' x h1 h2 _ hf
        have : o' = o := by omega
        subst this
        simpa using hmin x hf
    have hl := lowest_fold h (mo - o) (o + 1) _ (by omega) (by omega) hl0
    rw [show o + 1 + (mo - o) = mo + 1 by omega] at hl
    generalize (List.range' (o + 1) (mo - o)).foldl (lowestStep mo o)
      { bestAtOrder := idx, bestIdx := idx, bestOrder := o, f := f1 } = s at hl ha
    simp only [Option.some.injEq] at ha
    obtain ⟨hh, hpos⟩ := splitDown_held (f := f) s.f s.bestIdx s.bestOrder o hl.ord hl.held
    rw [ha] at hh hpos
    dsimp only at hh hpos
    refine ⟨hh.inv, (range_iff _ _ _).2 hh.range, ?_, ?_, ?_⟩
    · intro p hp
      exact ⟨hh.allFree p hp, fun hc => ((hh.pages p).1 hc).2 hp⟩
    · intro p hp
      rw [hh.pages p]; exact ⟨fun a => a.1, fun a => ⟨a, hp⟩⟩
    · intro j hall
      obtain ⟨o', g1, g2, hf⟩ := cover h o j ho hall
      have h1 := hl.least o' _ g1 (by omega) g2 hf
      rw [hl.pos, ← hpos] at h1
      exact Nat.le_trans h1 (Nat.div_mul_le_self j _)

theorem allocLowest_eq_none_iff (mo : Nat) (f : List Bits) (o : Nat) :
    allocLowest mo f o = none ↔ allocInner mo f o = none := by
  unfold allocLowest
  split
  · simp_all
  · simp_all

/-- `alloc_lowest` refuses only when no aligned block of that order is entirely free. -/
theorem allocLowest_complete (mo len : Nat) (f : List Bits) (o : Nat)
    (h : Inv mo len f) (ha : allocLowest mo f o = none) :
    ¬ ∃ i, o ≤ mo ∧ (i + 1) * 2 ^ o ≤ len ∧ ∀ p, p / 2 ^ o = i → PageFree mo f p :=
  allocInner_complete mo len f o h ((allocLowest_eq_none_iff mo f o).1 ha)

end Redb.Buddy
