import RedbModel.Lemmas.Life2Set
/-! The post-commit epilogue of a durable commit `n`: release of the data-freed records below its
horizon, publication of the rewritten system tree as the non-durable commit `n + 1`. -/
namespace Redb.Life2

theorem core_epiRelease {n : Nat} {s : St} {fu : Nat} (h : Core n [] s) (hu : Unp s)
    (hfu1 : ∀ i ∈ liveIds s, fu ≤ i + 1) (hal : ∀ e ∈ s.dalloc ++ s.ualloc, fu ≤ e.1 + 1)
    (heq : s.lastId = n ∧ s.durId = n) :
    Core n [] (epiRelease s fu) ∧ Unp (epiRelease s fu) := by
  obtain ⟨nd1, nd2, nd3, nd4, nd5, x1, x2, x3, x4⟩ := owned_nodup_iff.mp h.own_nodup
  have inj := @pagesOf_nodup_inj s.dfreed nd3
  refine ⟨
    { own_nodup := ?_, alloc_owned := ?_, owned_alloc := ?_, ids := h.ids, rec_le := ?_,
      pin_held := ?_, img_id := h.img_id, img_data := ?_, img_sys := h.img_sys,
      pend_anc := h.pend_anc, last_pend := h.last_pend, pin_pend := h.pin_pend,
      al_nodup := h.al_nodup, al_held := ?_, sp_complete := ?_, sp_after := h.sp_after,
      sp_nodup := h.sp_nodup, sp_sorted := h.sp_sorted, sp_sid := h.sp_sid, psp_ctr := h.psp_ctr },
    { up_empty := hu.up_empty, up_pins := hu.up_pins, up_img := hu.up_img, up_dalloc := hu.up_dalloc }⟩
  · rw [owned_nodup_iff]
    refine ⟨nd1, nd2, pagesOf_notBelow_nodup nd3, nd4, nd5, ?_, ?_, ?_, x4⟩
    · intro p hp
      have := x1 p hp
      simp only [epiRelease, mem_pagesOf', mem_notBelow] at *
      grind
    · intro p hp
      have := x2 p hp
      simp only [epiRelease, mem_pagesOf', mem_notBelow] at *
      grind
    · intro p hp
      apply x3
      simp only [epiRelease, mem_pagesOf', mem_notBelow] at *
      grind
  · intro p hp
    simp only [epiRelease, mem_diff] at hp
    have := h.alloc_owned p hp.1
    have x1p := x1 p
    have x2p := x2 p
    have x3p := x3 p
    have x4p := x4 p
    simp only [mem_owned, epiRelease, mem_pagesOf', mem_notBelow, mem_below] at *
    grind
  · intro p hp
    have x1p := x1 p
    have x2p := x2 p
    have x3p := x3 p
    have x4p := x4 p
    have := h.owned_alloc p
    simp only [mem_owned, epiRelease, mem_pagesOf', mem_notBelow, mem_below, mem_diff] at *
    grind
  · intro e he
    apply h.rec_le
    simp only [epiRelease, List.mem_append, mem_notBelow] at *
    grind
  · intro π hπ
    have h1 := h.pin_held π hπ
    have h2 := hfu1 π.1 (pin_live hπ)
    refine ⟨h1.1, fun p hp => ?_⟩
    have h3 := h1.2 p hp
    simp only [held, epiRelease, mem_notBelow] at *
    grind
  · intro p hp
    have h3 := h.img_data p hp
    have hr := h.rec_le
    simp only [held, epiRelease, mem_notBelow, List.mem_append] at *
    grind
  · intro e he
    have h3 := h.al_held e he
    have h2 := hal e he
    simp only [held, epiRelease, mem_notBelow] at *
    grind
  · intro sp hsp hv hd
    have := h.sp_complete sp hsp hv hd
    simp only [epiRelease, allocatedAfter, List.mem_append, mem_notBelow] at *
    grind

/- `hu` and `hp` are not needed (the old unpersisted pages and pending commits are overwritten);
they are kept so that the statement mirrors the call site -/
set_option linter.unusedVariables false in
theorem core_epiPublish {n : Nat} {s : St} {t : Txn} (h : Core n [] s) (hu : Unp s)
    (heq : s.lastId = n ∧ s.durId = n) (hp : s.pend = [])
    (hnd : t.sys2.Nodup) (hfresh : ∀ p ∈ diff t.sys2 s.sys, p ∉ s.alloc) :
    Core (n + 1) [] (epiPublish s t n) ∧ Unp (epiPublish s t n) := by
  obtain ⟨nd1, nd2, nd3, nd4, nd5, x1, x2, x3, x4⟩ := owned_nodup_iff.mp h.own_nodup
  obtain ⟨hl, hd⟩ := heq
  have hids := h.ids
  -- gained pages are not owned
  have hfr : ∀ p ∈ diff t.sys2 s.sys, p ∉ owned s := fun p hp ho => hfresh p hp (h.owned_alloc p ho)
  refine ⟨
    { own_nodup := ?_, alloc_owned := ?_, owned_alloc := ?_, ids := ?_, rec_le := ?_,
      pin_held := ?_, img_id := h.img_id, img_data := h.img_data, img_sys := ?_,
      pend_anc := ?_, last_pend := ?_, pin_pend := ?_,
      al_nodup := h.al_nodup, al_held := h.al_held, sp_complete := h.sp_complete, sp_after := h.sp_after,
      sp_nodup := h.sp_nodup, sp_sorted := h.sp_sorted, sp_sid := h.sp_sid, psp_ctr := h.psp_ctr },
    { up_empty := ?_, up_pins := ?_, up_img := ?_, up_dalloc := ?_ }⟩
  · rw [owned_nodup_iff]
    have hlost : (diff s.sys t.sys2).Nodup := diff_nodup nd2
    refine ⟨nd1, hnd, nd3, ?_, nd5, ?_, ?_, ?_, ?_⟩
    · simp only [epiPublish, pagesOf_append, pagesOf_tag, nodup_append_iff, mem_diff]
      grind
    · intro p hp
      have := x1 p hp
      have := hfr p
      simp only [epiPublish, pagesOf_append, pagesOf_tag, List.mem_append, mem_diff, mem_owned] at *
      grind
    · intro p hp
      have := x2 p
      have := hfr p
      simp only [epiPublish, pagesOf_append, pagesOf_tag, List.mem_append, mem_diff, mem_owned] at *
      grind
    · intro p hp
      have := x3 p hp
      have := x2 p
      simp only [epiPublish, pagesOf_append, pagesOf_tag, List.mem_append, mem_diff] at *
      grind
    · intro p hp
      have := x4 p
      have := x2 p
      simp only [epiPublish, pagesOf_append, pagesOf_tag, List.mem_append, mem_diff] at *
      grind
  · intro p hp
    have := h.alloc_owned p
    simp only [epiPublish, pagesOf_append, pagesOf_tag, List.mem_append, mem_diff, mem_owned] at *
    grind
  · intro p hp
    have := h.owned_alloc p
    simp only [epiPublish, pagesOf_append, pagesOf_tag, List.mem_append, mem_diff, mem_owned] at *
    grind
  · simp only [epiPublish]
    omega
  · intro e he
    have := h.rec_le e
    simp only [epiPublish, List.mem_append, mem_tag] at *
    grind
  · intro π hπ
    have := h.pin_held π hπ
    refine ⟨?_, this.2⟩
    simp only [epiPublish]
    omega
  · intro p hp
    have := h.img_sys p hp
    simp only [sysHeld, epiPublish, List.mem_append, mem_tag, mem_diff]
    rcases this with hs | ⟨e, he, hlt, rfl⟩
    · by_cases hq : p ∈ t.sys2
      · exact Or.inl hq
      · exact Or.inr ⟨(n + 1, p), Or.inr ⟨rfl, hs, hq⟩, by simp only; omega, rfl⟩
    · exact Or.inr ⟨e, Or.inl he, hlt, rfl⟩
  · intro e he
    simp only [epiPublish, List.mem_singleton] at *
    grind
  · intro _
    simp [epiPublish, idsOf]
  · intro π hπ
    have := (h.pin_held π hπ).1
    left
    simp only [epiPublish]
    omega
  · simp only [epiPublish]
    omega
  · intro π hπ _ p hp
    have h1 := held_owned ((h.pin_held π hπ).2 p hp)
    have := hfr p
    simp only [epiPublish] at *
    grind
  · refine ⟨fun p hp => ?_, fun p hp => ?_⟩
    · have h1 := held_owned (h.img_data p hp)
      have := hfr p
      simp only [epiPublish] at *
      grind
    · have h1 := sysHeld_owned (h.img_sys p hp)
      have := hfr p
      simp only [epiPublish] at *
      grind
  · intro e he
    have h1 := held_owned (h.al_held e (List.mem_append_left _ he))
    have := hfr e.2
    simp only [epiPublish] at *
    grind

end Redb.Life2
