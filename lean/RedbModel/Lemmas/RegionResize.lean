import RedbModel.Lemmas.Region
import RedbModel.Lemmas.BuddyMore
/-!
`Allocators::new`, `Allocators::resize_to` (shrink and grow branch) and its callers `grow`,
`try_shrink`, `load_allocator_state` on the region model preserve `TrackerSound`; what the grow
branch does to the pages of the existing regions.
-/
namespace Redb.Region
open Redb.Buddy

/-- the invariant mentions the allocators and the tracker only -/
theorem TrackerSound.congr {s s' : St} (h : TrackerSound s) (hr : s'.regions = s.regions)
    (ht : s'.tracker = s.tracker) : TrackerSound s' := by
  obtain ⟨h1, h2, h3, h4, h5, h6⟩ := h
  exact ⟨by rw [ht]; exact h1, by rw [ht]; exact h2, by rw [ht, hr]; exact h3,
    by rw [ht, hr]; exact h4, by rw [ht, hr]; exact h5, by rw [hr]; exact h6⟩

/-! ### layouts -/

theorem wf_cap_pos {cap : Nat} {l : Layout} (h : l.wf cap = true) : 0 < cap := by
  simp only [Layout.wf, Bool.and_eq_true, decide_eq_true_eq] at h
  exact h.1

theorem wf_regionPages {cap : Nat} {l : Layout} (h : l.wf cap = true) (i : Nat) :
    l.regionPages cap i ≤ cap := by
  simp only [Layout.wf, Bool.and_eq_true, decide_eq_true_eq] at h
  simp only [Layout.regionPages]
  split
  · cases ht : l.trailing with
    | none => simp
    | some t => simp [ht] at h ⊢; omega
  · exact Nat.le_refl _

/-- a fresh region allocator -/
theorem new_region {cap np : Nat} (hc : 0 < cap) (hn : np ≤ cap) :
    (Buddy.new np cap).maxOrder < nOrders ∧
    Inv (Buddy.new np cap).maxOrder (Buddy.new np cap).len (Buddy.new np cap).free := by
  have h := (new_inv np cap hc hn).1
  refine ⟨?_, h⟩
  show usableOrder cap < nOrders
  simp only [usableOrder, nOrders]
  omega

/-! ### `Allocators::new` -/

/-- the loop of `Allocators::new` after `k` iterations -/
def newAcc (init cap : Nat) (l : Layout) (k : Nat) : List Buddy × List Bits :=
  (List.range k).foldl (fun (acc : List Buddy × List Bits) i =>
      ((acc.1 ++ [Buddy.new (l.regionPages cap i) cap],
        markFree acc.2 (Buddy.new (l.regionPages cap i) cap).maxOrder i) : List Buddy × List Bits))
      ([], trkNew (max init l.numRegions) nOrders)

theorem newWith_eq (init cap : Nat) (l : Layout) :
    newWith init cap l = {
      regions := (newAcc init cap l l.numRegions).1
      tracker := (newAcc init cap l l.numRegions).2
      cap := cap
      layout := l } := rfl

theorem newAcc_succ (init cap : Nat) (l : Layout) (k : Nat) :
    newAcc init cap l (k + 1) =
      ((newAcc init cap l k).1 ++ [Buddy.new (l.regionPages cap k) cap],
        markFree (newAcc init cap l k).2 (Buddy.new (l.regionPages cap k) cap).maxOrder k) := by
  simp only [newAcc, List.range_succ, List.foldl_append, List.foldl_cons, List.foldl_nil]

theorem newWith_fold (init cap : Nat) (l : Layout) (hwf : l.wf cap = true) : ∀ k, k ≤ l.numRegions →
    TrackerSound {
      regions := (newAcc init cap l k).1
      tracker := (newAcc init cap l k).2
      cap := cap
      layout := l } ∧ (newAcc init cap l k).1.length = k ∧
      trkLen (newAcc init cap l k).2 = max init l.numRegions := by
  intro k
  induction k with
  | zero =>
    intro _
    refine ⟨sound_empty _ _ _, rfl, ?_⟩
    simp [newAcc, trkLen, lenAt, trkNew, List.getD_eq_getElem?_getD, nOrders]
  | succ k ih =>
    intro hk
    obtain ⟨h1, h2, h3⟩ := ih (by omega)
    rw [newAcc_succ]
    generalize newAcc init cap l k = acc at h1 h2 h3
    have hb := new_region (wf_cap_pos hwf) (wf_regionPages hwf k)
    have := sound_push h1 hb (Buddy.new (l.regionPages cap k) cap).maxOrder
      (fun o hf => freeGE_lt hf) acc.2 h1.orders h1.rows (by simp only [h2, h3]; omega)
      (fun _ _ => rfl)
    simp only [h2] at this
    refine ⟨this, by simp [h2], by rw [trkLen_markFree, h3]⟩

theorem newWith_sound (init cap : Nat) (l : Layout) (hwf : l.wf cap = true) :
    TrackerSound (newWith init cap l) := by
  rw [newWith_eq]
  exact (newWith_fold init cap l hwf l.numRegions (Nat.le_refl _)).1

/-! ### shrink branch -/

theorem shrinkPath_sound {s s' : St} (h : TrackerSound s) (nl : Layout)
    (hs : shrinkPath s nl = some s') :
    TrackerSound s' ∧ s'.cap = s.cap ∧ s'.layout = s.layout ∧
      s'.regions.length = min nl.numRegions s.regions.length := by
  have h1 := sound_take h nl.numRegions
  simp only [shrinkPath] at hs
  split at hs
  · cases hs
  · next a ha =>
    rw [List.getLast?_eq_getElem?] at ha
    split at hs
    · next hgt =>
      split at hs
      · cases hs
      · next a' hres =>
        cases hs
        have hinv := h1.buddy _ a ha
        obtain ⟨e1, e2, _, e4, e5⟩ := (more_resize_shrink a _ hinv.2 (Nat.le_of_lt hgt)).2 a' hres
        refine ⟨?_, rfl, rfl, by simp⟩
        refine sound_set_mono h1 ha ⟨by rw [e2]; exact hinv.1, by rw [e2, e1]; exact e4⟩ ?_
        intro o hf
        exact freeGE_of_subset rfl e2 hinv.2 e4 (fun q hq => ((e5 q).1 hq).1) o hf
    · cases hs
      exact ⟨h1, rfl, rfl, by simp⟩

/-! ### grow branch -/

/-- loop invariant of the grow branch before iteration `i` -/
structure GrowInv (s : St) (i : Nat) (rs : List Buddy) (t : List Bits) : Prop where
  sound : TrackerSound { s with regions := rs, tracker := t }
  len : rs.length = max s.regions.length i
  frame : ∀ (r : Nat) (b : Buddy), s.regions[r]? = some b →
    ∃ b', rs[r]? = some b' ∧ b'.maxOrder = b.maxOrder ∧ b.len ≤ b'.len ∧
      ∀ q, PageFree b.maxOrder b'.free q ↔ (PageFree b.maxOrder b.free q ∨ (b.len ≤ q ∧ q < b'.len))

theorem growInv_init {s : St} (h : TrackerSound s) : GrowInv s 0 s.regions s.tracker := by
  refine ⟨h.congr rfl rfl, by simp, fun r b hr => ⟨b, hr, rfl, Nat.le_refl _, fun q => ?_⟩⟩
  constructor
  · exact Or.inl
  · rintro (h | h)
    · exact h
    · omega

theorem trk_maybe_resize {t : List Bits} {n i : Nat} (h1 : t.length = nOrders)
    (h2 : ∀ o, o < nOrders → lenAt t o = trkLen t) :
    (if i ≥ trkLen t then trkResize t (i + 1) else t).length = nOrders ∧
    (∀ o, o < nOrders → lenAt (if i ≥ trkLen t then trkResize t (i + 1) else t) o =
      trkLen (if i ≥ trkLen t then trkResize t (i + 1) else t)) ∧
    i < trkLen (if i ≥ trkLen t then trkResize t (i + 1) else t) ∧
    (∀ o r, getBit (if i ≥ trkLen t then trkResize t (i + 1) else t) o r = getBit t o r) := by
  have _ := n
  split
  · next hge =>
    refine ⟨by rw [length_trkResize, h1], fun o ho => ?_, ?_, fun o r => ?_⟩
    · rw [trkLen, lenAt_trkResize _ _ _ (by omega), lenAt_trkResize _ _ _ (by rw [h1]; decide)]
    · rw [trkLen, lenAt_trkResize _ _ _ (by rw [h1]; decide)]; omega
    · apply getBit_trkResize_grow
      by_cases ho : o < nOrders
      · rw [h2 o ho]; omega
      · simp only [lenAt, List.getD_eq_getElem?_getD]
        rw [List.getElem?_eq_none (by omega)]; simp
  · next hlt => exact ⟨h1, h2, by omega, fun _ _ => rfl⟩

theorem growStep_inv {s : St} {nl : Layout} (hwf : nl.wf s.cap = true) {i : Nat} {rs rs' : List Buddy}
    {t t' : List Bits} (hi : GrowInv s i rs t)
    (hstep : growStep s.cap nl s.regions.length (some (rs, t)) i = some (rs', t')) :
    GrowInv s (i + 1) rs' t' := by
  simp only [growStep] at hstep
  split at hstep
  · -- an existing region
    next hlt =>
    split at hstep
    · cases hstep
    · next a ha =>
      split at hstep
      · cases hstep
      · next hnlt =>
        split at hstep
        · next hne =>
          split at hstep
          · cases hstep
          · next a' hres =>
            split at hstep
            · cases hstep
            · next hfo hh =>
              cases hstep
              have hinv := hi.sound.buddy i a ha
              obtain ⟨b2, e0, e1, e2, _, e4, e5⟩ := more_resize_grow a (nl.regionPages s.cap i) hinv.2 (by omega)
              rw [hres] at e0; cases e0
              have hspec := highestFreeOrder_spec a'
              rw [hh] at hspec
              refine ⟨?_, ?_, ?_⟩
              · exact sound_set_markFree hi.sound ha ⟨by rw [e2]; exact hinv.1, by rw [e2, e1]; exact e4⟩ hfo
                  (fun o hf => Or.inl (hspec.2.2 o hf))
              · rw [List.length_set, hi.len]; omega
              · intro r b hr
                obtain ⟨b', f1, f2, f3, f4⟩ := hi.frame r b hr
                by_cases e : i = r
                · subst e
                  rw [ha] at f1; cases f1
                  refine ⟨a', by simp [(List.getElem?_eq_some_iff.1 ha).1], by rw [e2, f2],
                    by omega, fun q => ?_⟩
                  rw [← f2, e5 q, f2, f4 q, e1]
                  constructor
                  · rintro ((h | h) | h)
                    · exact Or.inl h
                    · exact Or.inr ⟨h.1, by omega⟩
                    · exact Or.inr ⟨by omega, h.2⟩
                  · rintro (h | h)
                    · exact Or.inl (Or.inl h)
                    · by_cases hq : q < a.len
                      · exact Or.inl (Or.inr ⟨h.1, hq⟩)
                      · exact Or.inr ⟨by omega, h.2⟩
                · exact ⟨b', by rw [List.getElem?_set, if_neg e]; exact f1, f2, f3, f4⟩
        · cases hstep
          refine ⟨hi.sound, by rw [hi.len]; omega, hi.frame⟩
  · -- a brand new region
    next hge =>
    split at hstep
    · cases hstep
    · next hfo hh =>
      cases hstep
      have hlen : rs.length = i := by rw [hi.len]; omega
      have hb := new_region (wf_cap_pos hwf) (wf_regionPages hwf i)
      have hspec := highestFreeOrder_spec (Buddy.new (nl.regionPages s.cap i) s.cap)
      rw [hh] at hspec
      obtain ⟨g1, g2, g3, g4⟩ := trk_maybe_resize (n := 0) (i := i) hi.sound.orders hi.sound.rows
      have := sound_push hi.sound hb hfo (fun o hf => hspec.2.2 o hf) _ g1 g2
        (by simp only [hlen]; exact g3) g4
      simp only [hlen] at this
      refine ⟨this, by simp [hlen]; omega, ?_⟩
      intro r b hr
      obtain ⟨b', f1, f2, f3, f4⟩ := hi.frame r b hr
      have : r < rs.length := (List.getElem?_eq_some_iff.1 f1).1
      exact ⟨b', by rw [List.getElem?_append_left this]; exact f1, f2, f3, f4⟩

theorem growStep_none (cap : Nat) (nl : Layout) (oldN i : Nat) : growStep cap nl oldN none i = none := rfl

theorem growFold_inv {s : St} (h : TrackerSound s) {nl : Layout} (hwf : nl.wf s.cap = true) :
    ∀ (n : Nat) (rs : List Buddy) (t : List Bits),
      (List.range n).foldl (growStep s.cap nl s.regions.length) (some (s.regions, s.tracker)) = some (rs, t) →
      GrowInv s n rs t := by
  intro n
  induction n with
  | zero =>
    intro rs t hf
    simp at hf
    obtain ⟨rfl, rfl⟩ := hf
    exact growInv_init h
  | succ n ih =>
    intro rs t hf
    rw [List.range_succ, List.foldl_append] at hf
    simp only [List.foldl_cons, List.foldl_nil] at hf
    cases hprev : (List.range n).foldl (growStep s.cap nl s.regions.length) (some (s.regions, s.tracker)) with
    | none => rw [hprev, growStep_none] at hf; cases hf
    | some x =>
      obtain ⟨rs0, t0⟩ := x
      rw [hprev] at hf
      exact growStep_inv hwf (ih rs0 t0 hprev) hf

/-- the grow branch of `resize_to`: the invariant is preserved; every existing region keeps its
pages' status and gains exactly the pages it grows by -/
theorem growPath_spec {s s' : St} (h : TrackerSound s) {nl : Layout} (hwf : nl.wf s.cap = true)
    (hs : growPath s nl = some s') :
    TrackerSound s' ∧ s'.cap = s.cap ∧ s'.layout = s.layout ∧
    s'.regions.length = max s.regions.length nl.numRegions ∧
    ∀ (r : Nat) (b : Buddy), s.regions[r]? = some b →
      ∃ b', s'.regions[r]? = some b' ∧ b'.maxOrder = b.maxOrder ∧ b.len ≤ b'.len ∧
        ∀ q, PageFree b.maxOrder b'.free q ↔ (PageFree b.maxOrder b.free q ∨ (b.len ≤ q ∧ q < b'.len)) := by
  simp only [growPath] at hs
  split at hs
  · cases hs
  · next rs t hf =>
    cases hs
    have := growFold_inv h hwf _ rs t hf
    exact ⟨this.sound, rfl, rfl, this.len, this.frame⟩

/-! ### `resize_to` and its callers -/

theorem resizeTo_sound {s s' : St} (h : TrackerSound s) {nl : Layout} (hs : resizeTo s nl = some s') :
    TrackerSound s' ∧ s'.cap = s.cap ∧ s'.layout = s.layout := by
  simp only [resizeTo] at hs
  split at hs
  · cases hs
  · next hwf =>
    have hwf' : nl.wf s.cap = true := by simpa using hwf
    split at hs
    · have := shrinkPath_sound h nl hs; exact ⟨this.1, this.2.1, this.2.2.1⟩
    · split at hs
      · split at hs
        · cases hs
        · split at hs
          · have := shrinkPath_sound h nl hs; exact ⟨this.1, this.2.1, this.2.2.1⟩
          · split at hs
            · cases hs; exact ⟨h, rfl, rfl⟩
            · have := growPath_spec h hwf' hs; exact ⟨this.1, this.2.1, this.2.2.1⟩
      · have := growPath_spec h hwf' hs; exact ⟨this.1, this.2.1, this.2.2.1⟩

theorem grow_sound {s s' : St} (h : TrackerSound s) {o : Nat} (hs : grow s o = some s') :
    TrackerSound s' ∧ s'.cap = s.cap := by
  simp only [grow] at hs
  split at hs
  · cases hs
  · next s1 h1 =>
    cases hs
    have := resizeTo_sound h h1
    exact ⟨this.1.congr rfl rfl, this.2.1⟩

theorem tryShrink_sound {s s' : St} {force res : Bool} (h : TrackerSound s)
    (hs : tryShrink s force = some (s', res)) : TrackerSound s' ∧ s'.cap = s.cap := by
  simp only [tryShrink] at hs
  split at hs
  · cases hs
  · split at hs
    · cases hs; exact ⟨h, rfl⟩
    · split at hs
      · cases hs; exact ⟨h, rfl⟩
      · split at hs
        · cases hs
        · next s1 h1 =>
          cases hs
          have := resizeTo_sound h h1
          exact ⟨this.1.congr rfl rfl, this.2.1⟩

theorem load_sound {s s' : St} {saved : List Buddy × List Bits} {l : Layout}
    (h : TrackerSound { s with regions := saved.1, tracker := saved.2 })
    (hs : load s saved l = some s') : TrackerSound s' ∧ s'.cap = s.cap := by
  simp only [load] at hs
  split at hs
  · cases hs
  · next s1 h1 =>
    cases hs
    have := resizeTo_sound h h1
    exact ⟨this.1.congr rfl rfl, this.2.1⟩

end Redb.Region
