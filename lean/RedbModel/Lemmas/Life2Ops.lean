import RedbModel.Lemmas.Life2Set
/-! The operations other than commit preserve the invariant: abort, reader and savepoint-handle
lifetimes, clean reopen, crash recovery; and the initial state satisfies it. -/
namespace Redb.Life2

theorem inv_init : Inv init := by decide

/-- `recover` produces a state without unpersisted pages -/
theorem unp_recover {i : Image} {b : Bool} : Unp (recover i b) :=
  { up_empty := fun _ => rfl
    up_pins := fun _ _ _ _ _ h => (by cases h)
    up_img := ⟨fun _ _ h => (by cases h), fun _ _ h => (by cases h)⟩
    up_dalloc := fun _ _ h => (by cases h) }

/-- the repair commit of a crash recovery only advances the transaction ids -/
theorem core_recover_repair {i : Image} (h : Core i.id [] (recover i false)) :
    Core (i.id + 1) [] (recover i true) := by
  refine
    { own_nodup := h.own_nodup, alloc_owned := h.alloc_owned, owned_alloc := h.owned_alloc,
      ids := ⟨Nat.le_refl _, Nat.le_refl _⟩, rec_le := ?_, pin_held := ?_, img_id := rfl,
      img_data := fun p hp => Or.inl hp, img_sys := fun p hp => Or.inl hp,
      pend_anc := fun e he => (by cases he), last_pend := fun hlt => absurd hlt (Nat.lt_irrefl _),
      pin_pend := ?_, al_nodup := h.al_nodup, al_held := h.al_held, sp_complete := h.sp_complete,
      sp_after := h.sp_after, sp_nodup := h.sp_nodup, sp_sorted := h.sp_sorted, sp_sid := h.sp_sid,
      psp_ctr := h.psp_ctr }
  · intro e he
    have := h.rec_le e he
    show e.1 ≤ i.id + 1 ∨ e.1 = i.id + 1
    have h1 : e.1 ≤ i.id ∨ e.1 = i.id := this
    omega
  · intro π hπ
    have := h.pin_held π hπ
    refine ⟨?_, this.2⟩
    have h1 : π.1 ≤ i.id := this.1
    show π.1 ≤ i.id + 1
    omega
  · intro π hπ
    have h1 : π.1 ≤ i.id := (h.pin_held π hπ).1
    left
    show π.1 ≤ i.id + 1
    omega

theorem inv_recover {s : St} (hi : Inv s) (b : Bool) : Inv (recover s.img b) := by
  cases b with
  | false =>
    exact
      { core := hi.crash, unp := unp_recover, crash := hi.crash
        psps := fun sp hsp => ⟨hsp, (hi.psps sp hsp).2⟩
        next := Nat.le_succ _ }
  | true =>
    have h := core_recover_repair hi.crash
    exact
      { core := h, unp := unp_recover, crash := h
        psps := fun sp hsp => ⟨hsp, (hi.psps sp hsp).2⟩
        next := Nat.le_succ _ }

theorem inv_abort {s : St} (hi : Inv s) (k : Nat) : Inv (step s (.abort k)) := by
  have h := hi.core
  have hu := hi.unp
  refine { core := ?_, unp := ?_, crash := hi.crash, psps := hi.psps, next := ?_ }
  · exact
      { own_nodup := h.own_nodup, alloc_owned := h.alloc_owned, owned_alloc := h.owned_alloc,
        ids := h.ids, rec_le := h.rec_le, pin_held := h.pin_held, img_id := h.img_id,
        img_data := h.img_data, img_sys := h.img_sys, pend_anc := h.pend_anc,
        last_pend := h.last_pend, pin_pend := h.pin_pend, al_nodup := h.al_nodup,
        al_held := h.al_held, sp_complete := h.sp_complete, sp_after := h.sp_after,
        sp_nodup := h.sp_nodup, sp_sorted := h.sp_sorted,
        sp_sid := fun sp hsp => Nat.le_trans (h.sp_sid sp hsp) (Nat.le_add_right _ _),
        psp_ctr := h.psp_ctr }
  · exact { up_empty := hu.up_empty, up_pins := hu.up_pins, up_img := hu.up_img, up_dalloc := hu.up_dalloc }
  · have := hi.next
    show s.lastId ≤ s.nextId + 1
    omega

theorem mem_pins_beginRead {s : St} {π : Nat × List Nat} :
    π ∈ pins { s with readers := s.readers ++ [{ id := s.lastId, pages := s.data }] } ↔
      π ∈ pins s ∨ π = (s.lastId, s.data) := by
  simp only [mem_pins, List.mem_append, List.mem_singleton]
  constructor
  · rintro (⟨r, hr | rfl, rfl⟩ | h)
    · exact Or.inl (Or.inl ⟨r, hr, rfl⟩)
    · exact Or.inr rfl
    · exact Or.inl (Or.inr h)
  · rintro ((⟨r, hr, rfl⟩ | h) | rfl)
    · exact Or.inl ⟨r, Or.inl hr, rfl⟩
    · exact Or.inr h
    · exact Or.inl ⟨_, Or.inr rfl, rfl⟩

theorem inv_beginRead {s : St} (hi : Inv s) : Inv (step s .beginRead) := by
  have h := hi.core
  have hu := hi.unp
  refine { core := ?_, unp := ?_, crash := hi.crash, psps := hi.psps, next := hi.next }
  · refine
      { own_nodup := h.own_nodup, alloc_owned := h.alloc_owned, owned_alloc := h.owned_alloc,
        ids := h.ids, rec_le := h.rec_le, pin_held := ?_, img_id := h.img_id,
        img_data := h.img_data, img_sys := h.img_sys, pend_anc := h.pend_anc,
        last_pend := h.last_pend, pin_pend := ?_, al_nodup := h.al_nodup,
        al_held := h.al_held, sp_complete := h.sp_complete, sp_after := h.sp_after,
        sp_nodup := h.sp_nodup, sp_sorted := h.sp_sorted, sp_sid := h.sp_sid, psp_ctr := h.psp_ctr }
    · intro π hπ
      rcases mem_pins_beginRead.mp hπ with hπ | rfl
      · exact h.pin_held π hπ
      · exact ⟨Nat.le_refl _, fun p hp => Or.inl hp⟩
    · intro π hπ
      rcases mem_pins_beginRead.mp hπ with hπ | rfl
      · exact h.pin_pend π hπ
      · rcases Nat.lt_or_ge s.durId s.lastId with hlt | hge
        · exact Or.inr (h.last_pend hlt)
        · exact Or.inl hge
  · refine { up_empty := hu.up_empty, up_pins := ?_, up_img := hu.up_img, up_dalloc := hu.up_dalloc }
    intro π hπ hle p hp
    rcases mem_pins_beginRead.mp hπ with hπ | rfl
    · exact hu.up_pins π hπ hle p hp
    · have : s.lastId = s.durId := Nat.le_antisymm hle h.ids.1
      have := hu.up_empty this
      show p ∉ s.upages
      rw [this]
      exact List.not_mem_nil

theorem mem_eraseReader {id : Nat} {l : List Snap} {r : Snap} (h : r ∈ eraseReader id l) : r ∈ l := by
  induction l with
  | nil => cases h
  | cons x xs ih =>
    simp only [eraseReader] at h
    split at h
    · exact List.mem_cons_of_mem _ h
    · rcases List.mem_cons.mp h with rfl | h
      · exact List.mem_cons_self
      · exact List.mem_cons_of_mem _ (ih h)

/-- the invariant survives dropping pins: any state that differs only by having fewer readers and
savepoints (a sublist of the savepoints) -/
theorem core_fewer_pins {cur : Nat} {s s' : St} (h : Core cur [] s)
    (heq : s' = { s with readers := s'.readers, sps := s'.sps })
    (hr : ∀ r ∈ s'.readers, r ∈ s.readers) (hs : s'.sps.Sublist s.sps) :
    Core cur [] s' := by
  have hsm : ∀ sp ∈ s'.sps, sp ∈ s.sps := fun sp hsp => hs.subset hsp
  have hp : ∀ π ∈ pins s', π ∈ pins s := by
    intro π hπ
    rcases mem_pins.mp hπ with ⟨r, hr', rfl⟩ | ⟨sp, hsp, rfl⟩
    · exact mem_pins.mpr (Or.inl ⟨r, hr r hr', rfl⟩)
    · exact mem_pins.mpr (Or.inr ⟨sp, hsm sp hsp, rfl⟩)
  rw [heq]
  rw [heq] at hp
  exact
    { own_nodup := h.own_nodup, alloc_owned := h.alloc_owned, owned_alloc := h.owned_alloc,
      ids := h.ids, rec_le := h.rec_le, pin_held := fun π hπ => h.pin_held π (hp π hπ),
      img_id := h.img_id, img_data := h.img_data, img_sys := h.img_sys, pend_anc := h.pend_anc,
      last_pend := h.last_pend, pin_pend := fun π hπ => h.pin_pend π (hp π hπ),
      al_nodup := h.al_nodup, al_held := h.al_held,
      sp_complete := fun sp hsp => h.sp_complete sp (hsm sp hsp),
      sp_after := fun sp hsp => h.sp_after sp (hsm sp hsp),
      sp_nodup := fun sp hsp => h.sp_nodup sp (hsm sp hsp),
      sp_sorted := h.sp_sorted.sublist hs,
      sp_sid := fun sp hsp => h.sp_sid sp (hsm sp hsp),
      psp_ctr := fun sp hsp => h.psp_ctr sp (hsm sp hsp) }

theorem unp_fewer_pins {s s' : St} (hu : Unp s)
    (heq : s' = { s with readers := s'.readers, sps := s'.sps })
    (hr : ∀ r ∈ s'.readers, r ∈ s.readers) (hs : ∀ sp ∈ s'.sps, sp ∈ s.sps) : Unp s' := by
  have hp : ∀ π ∈ pins s', π ∈ pins s := by
    intro π hπ
    rcases mem_pins.mp hπ with ⟨r, hr', rfl⟩ | ⟨sp, hsp, rfl⟩
    · exact mem_pins.mpr (Or.inl ⟨r, hr r hr', rfl⟩)
    · exact mem_pins.mpr (Or.inr ⟨sp, hs sp hsp, rfl⟩)
  rw [heq]
  rw [heq] at hp
  exact
    { up_empty := hu.up_empty, up_pins := fun π hπ => hu.up_pins π (hp π hπ), up_img := hu.up_img,
      up_dalloc := hu.up_dalloc }

theorem inv_dropReader {s : St} (hi : Inv s) (id : Nat) : Inv (step s (.dropReader id)) := by
  refine { core := ?_, unp := ?_, crash := hi.crash, psps := hi.psps, next := hi.next }
  · exact core_fewer_pins (s' := step s (.dropReader id)) hi.core rfl
      (fun r hr => mem_eraseReader hr) (List.Sublist.refl _)
  · exact unp_fewer_pins (s' := step s (.dropReader id)) hi.unp rfl
      (fun r hr => mem_eraseReader hr) (fun sp hsp => hsp)

theorem inv_dropSp {s : St} (hi : Inv s) (sid : Nat) : Inv (step s (.dropSp sid)) := by
  refine { core := ?_, unp := ?_, crash := hi.crash, psps := ?_, next := hi.next }
  · exact core_fewer_pins (s' := step s (.dropSp sid)) hi.core rfl (fun r hr => hr) List.filter_sublist
  · exact unp_fewer_pins (s' := step s (.dropSp sid)) hi.unp rfl (fun r hr => hr)
      (fun sp hsp => (List.mem_filter.mp hsp).1)
  · intro sp hsp
    obtain ⟨hm, hp⟩ := hi.psps sp hsp
    refine ⟨?_, hp⟩
    show sp ∈ s.sps.filter (fun sp => !(decide (sp.sid = sid) && !sp.persistent))
    simp [List.mem_filter, hm, hp]

end Redb.Life2
