import RedbModel.Lemmas.Region
/-!
`allocate_helper_retry`, `free_helper`, `mark_page_allocated` on the region model preserve
`TrackerSound`; soundness and completeness of the retry loop.
-/
namespace Redb.Region
open Redb.Buddy

/-- `s'` results from `s` by handing out block `p` of order `o` in region `r`: the pages of the
block were free and are not any more, every other page of the region keeps its status, every
other region is untouched -/
def Allocated (s s' : St) (r p o : Nat) : Prop :=
  ∃ b b', s.regions[r]? = some b ∧ s'.regions = s.regions.set r b' ∧
    b'.len = b.len ∧ b'.maxOrder = b.maxOrder ∧ (p + 1) * 2 ^ o ≤ b.len ∧
    (∀ q, q / 2 ^ o = p → PageFree b.maxOrder b.free q ∧ ¬ PageFree b.maxOrder b'.free q) ∧
    (∀ q, q / 2 ^ o ≠ p → (PageFree b.maxOrder b'.free q ↔ PageFree b.maxOrder b.free q))

/-- `alloc` / `alloc_lowest` of one region, in terms of the record -/
theorem buddy_alloc_spec {b b' : Buddy} {o p : Nat} (lowest : Bool)
    (hinv : Inv b.maxOrder b.len b.free)
    (ha : (if lowest then b.allocLowest o else b.alloc o) = some (p, b')) :
    b'.maxOrder = b.maxOrder ∧ b'.len = b.len ∧ b'.cap = b.cap ∧ Inv b.maxOrder b.len b'.free ∧
    (p + 1) * 2 ^ o ≤ b.len ∧
    (∀ q, q / 2 ^ o = p → PageFree b.maxOrder b.free q ∧ ¬ PageFree b.maxOrder b'.free q) ∧
    (∀ q, q / 2 ^ o ≠ p → (PageFree b.maxOrder b'.free q ↔ PageFree b.maxOrder b.free q)) := by
  cases lowest with
  | true =>
    simp only [if_true, Redb.Buddy.Buddy.allocLowest] at ha
    cases hx : Redb.Buddy.allocLowest b.maxOrder b.free o with
    | none => simp [hx] at ha
    | some x =>
      obtain ⟨i, f⟩ := x
      simp only [hx, Option.some.injEq, Prod.mk.injEq] at ha
      obtain ⟨rfl, rfl⟩ := ha
      obtain ⟨h1, h2, h3, h4, _⟩ := allocLowest_spec _ _ _ _ _ _ hinv hx
      exact ⟨rfl, rfl, rfl, h1, h2, h3, h4⟩
  | false =>
    simp only [Bool.false_eq_true, if_false, Redb.Buddy.Buddy.alloc] at ha
    cases hx : allocInner b.maxOrder b.free o with
    | none => simp [hx] at ha
    | some x =>
      obtain ⟨i, f⟩ := x
      simp only [hx, Option.some.injEq, Prod.mk.injEq] at ha
      obtain ⟨rfl, rfl⟩ := ha
      obtain ⟨h1, h2, h3, h4⟩ := allocInner_sound _ _ _ _ _ _ hinv hx
      exact ⟨rfl, rfl, rfl, h1, h2, h3, h4⟩

theorem buddy_alloc_none {b : Buddy} {o : Nat} (lowest : Bool)
    (ha : (if lowest then b.allocLowest o else b.alloc o) = none) : ¬ FreeGE b o := by
  cases lowest with
  | true => exact not_freeGE_of_allocLowest_none (by simpa using ha)
  | false => exact not_freeGE_of_alloc_none (by simpa using ha)

/-- a region with a free block of order `≥ o` shows up as a clear bit of row `o` -/
theorem findFree_none {s : St} (h : TrackerSound s) {o : Nat} (hf : findFree s.tracker o = none)
    (r : Nat) (b : Buddy) (hr : s.regions[r]? = some b) : ¬ FreeGE b o := by
  intro hg
  have h1 := h.noHide r b hr o hg
  have hrl : r < s.regions.length := (List.getElem?_eq_some_iff.1 hr).1
  have h2 := h.lt_lenAt hrl (o := o) (by have := freeGE_lt hg; have := (h.buddy r b hr).1; omega)
  exact firstUnset_none s.tracker o hf r ⟨h2, h1⟩

theorem findFree_some {s : St} (h : TrackerSound s) {o r : Nat} (hf : findFree s.tracker o = some r) :
    r < s.regions.length ∧ r < lenAt s.tracker o ∧ getBit s.tracker o r = false := by
  have := firstUnset_some s.tracker o r hf
  refine ⟨?_, this.1, this.2⟩
  apply Classical.byContradiction
  intro hn
  have := h.noGhost r o (by omega)
  simp_all [FreeAt]

/-- soundness of `allocate_helper_retry` -/
theorem retry_spec (lowest : Bool) (o : Nat) : ∀ (fuel : Nat) (s : St), TrackerSound s →
    ∀ res, retry lowest o fuel s = some res →
      TrackerSound res.1 ∧ res.1.cap = s.cap ∧ res.1.layout = s.layout ∧
      res.1.regions.length = s.regions.length ∧
      match res.2 with
      | none => res.1.regions = s.regions ∧ ∀ (r : Nat) (b : Buddy), s.regions[r]? = some b → ¬ FreeGE b o
      | some (r, p) => Allocated s res.1 r p o := by
  intro fuel
  induction fuel with
  | zero => intro s _ res h; simp [retry] at h
  | succ fuel ih =>
    intro s hs res h
    simp only [retry] at h
    split at h
    · cases h
    · split at h
      · next hf =>
        cases h
        exact ⟨hs, rfl, rfl, rfl, rfl, fun r b hr => findFree_none hs hf r b hr⟩
      · next r hf =>
        split at h
        · cases h
        · next b hr =>
          split at h
          · next p b' ha =>
            cases h
            obtain ⟨h1, h2, _, h4, h5, h6, h7⟩ := buddy_alloc_spec lowest (hs.buddy r b hr).2 ha
            have hsub : ∀ q, PageFree b.maxOrder b'.free q → PageFree b.maxOrder b.free q := by
              intro q hq
              by_cases e : q / 2 ^ o = p
              · exact (h6 q e).1
              · exact (h7 q e).1 hq
            refine ⟨?_, rfl, rfl, by simp, ?_⟩
            · refine sound_set_mono hs hr ⟨by rw [h1]; exact (hs.buddy r b hr).1, by rw [h1, h2]; exact h4⟩ ?_
              intro o' hf'
              exact freeGE_of_subset rfl h1 (hs.buddy r b hr).2 h4 hsub o' hf'
            · exact ⟨b, b', hr, rfl, h2, h1, h5, h6, h7⟩
          · next ha =>
            have hnf := buddy_alloc_none lowest ha
            have hs' : TrackerSound { s with tracker := markFull s.tracker o r } :=
              sound_markFull hs (fun b0 hb0 => by rw [hr] at hb0; cases hb0; exact hnf)
            exact ih _ hs' res h

theorem countUnset_set_true (bs : Bits) (r : Nat) (hr : r < bs.length) (hb : bs.getD r true = false) :
    countUnset (bs.set r true) + 1 = countUnset bs := by
  simp only [countUnset]
  rw [List.countP_set hr]
  have hb' : bs[r] = false := by
    rw [List.getD_eq_getElem?_getD, List.getElem?_eq_getElem hr] at hb; simpa using hb
  have : 0 < List.countP (fun b => !b) bs := by
    rw [List.countP_pos_iff]
    exact ⟨bs[r], List.getElem_mem hr, by simp [hb']⟩
  simp [hb']; omega

theorem getD_markFull_self (t : List Bits) (o r : Nat) (ho : o < t.length) :
    (markFull t o r).getD o [] = (t.getD o []).set r true := by
  simp [markFull, List.getD_eq_getElem?_getD, List.getElem?_mapIdx, List.getElem?_eq_getElem ho]

/-- the retry loop never runs out of fuel and never panics under the invariant -/
theorem retry_total (lowest : Bool) (o : Nat) (ho : o < nOrders) : ∀ (fuel : Nat) (s : St),
    TrackerSound s → countUnset (s.tracker.getD o []) < fuel →
    ∃ res, retry lowest o fuel s = some res := by
  intro fuel
  induction fuel with
  | zero => intro s _ h; omega
  | succ fuel ih =>
    intro s hs hc
    simp only [retry]
    rw [if_neg (by rw [hs.orders]; omega)]
    split
    · exact ⟨_, rfl⟩
    · next r hf =>
      obtain ⟨h1, h2, h3⟩ := findFree_some hs hf
      obtain ⟨b, hb⟩ : ∃ b, s.regions[r]? = some b := ⟨_, List.getElem?_eq_getElem h1⟩
      rw [hb]
      simp only
      split
      · exact ⟨_, rfl⟩
      · next ha =>
        have hnf := buddy_alloc_none lowest ha
        have hs' : TrackerSound { s with tracker := markFull s.tracker o r } :=
          sound_markFull hs (fun b0 hb0 => by rw [hb] at hb0; cases hb0; exact hnf)
        apply ih _ hs'
        simp only
        rw [getD_markFull_self _ _ _ (by rw [hs.orders]; omega)]
        have := countUnset_set_true (s.tracker.getD o []) r h2 h3
        omega

theorem countUnset_le (bs : Bits) : countUnset bs ≤ bs.length := List.countP_le_length

/-- completeness of `allocate_helper_retry`: if some region has a free block of order `≥ o`, the
loop hands out a block without growing the database -/
theorem allocNoGrow_complete {s : St} (h : TrackerSound s) {o : Nat} (lowest : Bool)
    (hex : ∃ (r : Nat) (b : Buddy), s.regions[r]? = some b ∧ FreeGE b o) :
    ∃ s' r p, allocNoGrow s o lowest = some (s', some (r, p)) ∧ TrackerSound s' ∧
      Allocated s s' r p o ∧ s'.layout = s.layout ∧ s'.cap = s.cap := by
  obtain ⟨r0, b0, hr0, hg0⟩ := hex
  have ho : o < nOrders := by have := freeGE_lt hg0; have := (h.buddy r0 b0 hr0).1; omega
  obtain ⟨res, hres⟩ := retry_total lowest o ho (lenAt s.tracker o + 1) s h
    (by have := countUnset_le (s.tracker.getD o []); simp only [lenAt]; omega)
  obtain ⟨h1, h2, h3, _, h5⟩ := retry_spec lowest o _ s h res hres
  obtain ⟨s', out⟩ := res
  cases out with
  | none => exact absurd hg0 (h5.2 r0 b0 hr0)
  | some rp =>
    obtain ⟨r, p⟩ := rp
    exact ⟨s', r, p, hres, h1, h5, h3, h2⟩

/-! ### `free_helper` -/

/-- after `free` of block `p` of order `o` with merged order `m`, every free block of order `> m`
was there before -/
theorem freeBlock_freeGE {b : Buddy} {p o : Nat} (hinv : Inv b.maxOrder b.len b.free)
    (ho : o ≤ b.maxOrder) (hr : (p + 1) * 2 ^ o ≤ b.len)
    (hheld : ∀ q, q / 2 ^ o = p → ¬ PageFree b.maxOrder b.free q) (k : Nat)
    (hf : FreeGE (b.freeBlock p o).1 k) : k ≤ (b.freeBlock p o).2 ∨ FreeGE b k := by
  obtain ⟨h1, h2, h3, h4, h5⟩ := freeInner_spec _ _ _ _ _ hinv ho hr hheld
  simp only [Buddy.freeBlock] at hf ⊢
  by_cases hk : k ≤ (freeInner b.maxOrder b.free p o).2
  · exact Or.inl hk
  · right
    obtain ⟨k', i, hk1, hk2, hk3⟩ := hf
    simp only at hk2 hk3
    refine FreeGE.mono (o := k') ?_ hk1
    rw [freeGE_iff rfl hinv]
    refine ⟨hk2, i, fun q hq => ?_⟩
    have hq' : PageFree b.maxOrder (freeInner b.maxOrder b.free p o).1 q := freeAt_pageFree hk2 hk3 hq
    rcases (h2 q).1 hq' with hold | hin
    · exact hold
    · exfalso
      have e : q / 2 ^ (freeInner b.maxOrder b.free p o).2 =
          p / 2 ^ ((freeInner b.maxOrder b.free p o).2 - o) := by
        rw [div_pow_of_le h3, hin]
      have := h1.unique q _ k' h4 hk2 (by rw [e]; exact h5) (by rw [hq]; exact hk3)
      omega

/-- `free_helper` under the client contract (block in range, none of its pages free) -/
theorem free_sound {s : St} (h : TrackerSound s) {r p o : Nat} {b : Buddy}
    (hr : s.regions[r]? = some b) (ho : o ≤ b.maxOrder) (hrange : (p + 1) * 2 ^ o ≤ b.len)
    (hheld : ∀ q, q / 2 ^ o = p → ¬ PageFree b.maxOrder b.free q) :
    ∃ s' b', free s r p o = some s' ∧ TrackerSound s' ∧ s'.regions = s.regions.set r b' ∧
      s'.layout = s.layout ∧ s'.cap = s.cap ∧
      b'.len = b.len ∧ b'.maxOrder = b.maxOrder ∧
      (∀ q, PageFree b.maxOrder b'.free q ↔ (PageFree b.maxOrder b.free q ∨ q / 2 ^ o = p)) ∧
      FreeGE b' o := by
  have hinv := (h.buddy r b hr).2
  obtain ⟨h1, h2, h3, h4, h5⟩ := freeInner_spec _ _ _ _ _ hinv ho hrange hheld
  refine ⟨{ s with regions := s.regions.set r (b.freeBlock p o).1, tracker := markFree s.tracker (b.freeBlock p o).2 r },
    (b.freeBlock p o).1, by simp only [free, hr], ?_, rfl, rfl, rfl, rfl, rfl, ?_, ?_⟩
  · exact sound_set_markFree (b' := (b.freeBlock p o).1) h hr ⟨(h.buddy r b hr).1, h1⟩ _
      (fun k hk => freeBlock_freeGE hinv ho hrange hheld k hk)
  · exact h2
  · exact ⟨_, _, h3, h4, h5⟩

/-! ### `mark_page_allocated` -/

theorem recordAlloc_sound {s s' : St} (h : TrackerSound s) {r p o : Nat}
    (hs : recordAlloc s r p o = some s') : TrackerSound s' ∧ s'.layout = s.layout ∧ s'.cap = s.cap := by
  simp only [recordAlloc] at hs
  split at hs
  · cases hs
  · next b hr =>
    split at hs
    · cases hs
    · next b' hb' =>
      cases hs
      simp only [Buddy.recordAlloc] at hb'
      split at hb'
      · cases hb'
      · next f' hf' =>
        cases hb'
        have hinv := (h.buddy r b hr).2
        obtain ⟨h1, h2⟩ := (recordAllocInner_spec _ _ _ p o hinv).2 f' hf'
        refine ⟨sound_set_mono h hr ⟨(h.buddy r b hr).1, h1⟩ ?_, rfl, rfl⟩
        intro o' hf
        exact freeGE_of_subset (b := b) (b' := { b with free := f' }) rfl rfl hinv h1
          (fun q hq => ((h2 q).1 hq).1) o' hf

end Redb.Region
