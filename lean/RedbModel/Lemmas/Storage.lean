import RedbModel.Model.Storage
/-!
Lemmas about the crash model and the protocol monitor of `Model/Storage.lean` (property C01).

  * `recover_safe`: the case analysis of `Recovery.recover` in terms of "the slot known to be good"
  * page-map and `StepOut` lemmas; `outcome_flush`: the disk after a sync is a crash outcome
  * `Inv`: what every crash outcome of a monitored pending list looks like (`inv_of_outcome`)
  * `safe_of_inv`: on such an outcome the recovery serves the durable commit or a newer candidate
  * `RunInv`: the invariant of the monitor, preserved by `step`
-/
set_option linter.unusedSimpArgs false
set_option linter.unusedVariables false
namespace Redb.Storage
open Redb.Recovery


theorem other_lt (i : Nat) : other i < 2 := by unfold other; split <;> omega
theorem other_other {i : Nat} (h : i < 2) : other (other i) = i := by
  unfold other; split <;> split <;> omega
theorem other_ne {i : Nat} : other i ≠ i := by unfold other; split <;> omega
theorem eq_or_other {i k : Nat} (hi : i < 2) (hk : k < 2) : k = i ∨ k = other i := by
  unfold other; split <;> omega

/-- a successful recovery serves a slot whose trees verified, unless the quick path was taken -/
theorem recover_verifies {v : HeaderView} {vf : Nat → Bool} {k : Nat}
    (h : recover v vf false = .ok k) : vf k = true := by
  unfold recover at h
  split at h
  · cases h
  · split at h
    · cases h
    · simp only [Bool.and_false, Bool.false_eq_true, if_false] at h
      split at h
      · cases h; assumption
      · split at h
        · cases h
        · split at h
          · cases h; assumption
          · cases h

theorem recover_wellFormed {v : HeaderView} {vf : Nat → Bool} {q : Bool} {k : Nat}
    (h : recover v vf q = .ok k) : v.wellFormed = true := by
  unfold recover at h
  split at h
  · cases h
  · simpa using ‹¬(!v.wellFormed) = true›

theorem recover_twoPhase {v : HeaderView} {vf : Nat → Bool} {q : Bool} {k : Nat}
    (h : recover v vf q = .ok k) (htp : v.twoPhase = true) : k = v.primary := by
  unfold recover selectSlot at h
  simp only [htp, if_true] at h
  split at h
  · cases h
  · split at h
    · cases h
    · rename_i s hs
      split at hs
      · cases hs
        split at h
        · cases h; rfl
        · split at h
          · cases h; rfl
          · simp at h
      · cases hs
theorem recover_safe (v : HeaderView) (vf : Nat → Bool) (q : Bool) (i : Nat) (hi : i < 2)
    (hp : v.primary < 2) (wf : v.wellFormed = true) (hvi : v.valid i = true) (hvfi : vf i = true)
    (h2 : v.twoPhase = true → v.primary = other i → v.valid (other i) = true ∧ vf (other i) = true) :
    ∃ k, recover v vf q = .ok k ∧ (k = i ∨ (k = other i ∧ v.valid (other i) = true ∧ vf (other i) = true ∧
       ((v.twoPhase = true ∧ v.primary = other i) ∨ v.id i < v.id (other i) ∨
        (v.primary = other i ∧ ¬ v.id (other i) < v.id i)))) := by
  have hoo := other_other hi
  rcases eq_or_other hi hp with hpi | hpj
  · -- primary = i
    unfold recover selectSlot
    simp only [wf, hpi, hvi, Bool.not_true, Bool.false_eq_true, if_false, if_true]
    cases htp : v.twoPhase <;> cases hvj : v.valid (other i) <;> cases hvfj : vf (other i) <;>
      cases q <;> by_cases hid : v.id i < v.id (other i) <;>
      simp [htp, hvj, hvfj, hid, hvfi, hoo, hpi, Nat.lt_irrefl]
  · unfold recover selectSlot
    simp only [wf, hpj, hoo, hvi, Bool.not_true, Bool.false_eq_true, if_false, if_true]
    cases htp : v.twoPhase <;> cases hvj : v.valid (other i) <;> cases hvfj : vf (other i) <;>
      cases q <;> by_cases hid : v.id (other i) < v.id i <;>
      simp [htp, hvj, hvfj, hid, hvfi, hoo, hpj, Nat.lt_asymm] <;> (try (have := h2 htp hpj; simp_all)) <;> (try omega)


theorem get_cons (e : Nat × Option Nat) (m : PageMap) (q : Nat) :
    PageMap.get (e :: m) q = if e.1 = q then e.2 else PageMap.get m q := by
  unfold PageMap.get
  by_cases h : e.1 = q
  · simp [List.find?, h]
  · have : (e.1 == q) = false := by simpa using h
    simp [List.find?, this, h]

theorem get_filter (m : PageMap) (f : Nat → Bool) (q : Nat) :
    PageMap.get (m.filter (fun e => f e.1)) q = if f q then PageMap.get m q else none := by
  induction m with
  | nil => simp [PageMap.get]
  | cons e m ih =>
    by_cases hf : f e.1 = true
    · rw [List.filter_cons_of_pos (by simpa using hf), get_cons, get_cons, ih]
      by_cases h : e.1 = q
      · subst h; simp [hf]
      · simp [h]
    · rw [List.filter_cons_of_neg (by simpa using hf), get_cons, ih]
      by_cases h : e.1 = q
      · subst h; simp [hf]
      · simp [h]

theorem get_set (m : PageMap) (p : Nat) (v : Option Nat) (q : Nat) :
    (m.set p v).get q = if q = p then v else m.get q := by
  unfold PageMap.set
  rw [get_cons, get_filter m (fun x => x != p) q]
  by_cases h : p = q
  · subst h; simp
  · have h' : ¬ q = p := fun e => h e.symm
    simp [h, h']

theorem get_trunc (m : PageMap) (n q : Nat) :
    (m.trunc n).get q = if q < n then m.get q else none := by
  unfold PageMap.trunc
  rw [get_filter m (fun x => decide (x < n)) q]
  simp

theorem get_writePages (m : PageMap) (ws : List (Nat × Nat)) (p : Nat) :
    (writePages m ws).get p = m.get p ∨ ∃ t, (p, t) ∈ ws ∧ (writePages m ws).get p = some t := by
  induction ws generalizing m with
  | nil => left; rfl
  | cons w ws ih =>
    simp only [writePages]
    rcases ih (m.set w.1 (some w.2)) with h | ⟨t, ht, h⟩
    · rw [h, get_set]
      by_cases hp : p = w.1
      · right; exact ⟨w.2, by subst hp; simp, by simp [hp]⟩
      · left; simp [hp]
    · right; exact ⟨t, List.mem_cons_of_mem _ ht, h⟩

theorem stepOut_apply (e : Ev) (d : Disk) : StepOut e d (d.apply e) := by
  cases e with
  | header h =>
    show _ ∧ _ ∧ _ ∧ _ ∧ _ ∧ _
    refine ⟨rfl, rfl, Or.inr rfl, Or.inr (Or.inl rfl), Or.inr (Or.inl rfl), ?_⟩
    by_cases hl : d.hdr.layLen = h.layLen
    · left; exact hl.symm
    · right; exact hl
  | write ws =>
    show _ ∧ _ ∧ _
    refine ⟨rfl, rfl, fun p => ?_⟩
    rcases get_writePages d.pages ws p with h | ⟨t, ht, h⟩
    · left; exact h
    · right; exact ⟨t, ht, Or.inl h⟩
  | setLen n =>
    show _ ∨ (_ ∧ _ ∧ _)
    right
    exact ⟨rfl, rfl, fun p => get_trunc _ _ _⟩
  | sync => rfl

theorem outcome_flush (D : Disk) (r : List Ev) : Outcome D r (flush D r) := by
  induction r with
  | nil => simp [Outcome, flush]
  | cons e r ih => exact ⟨flush D r, ih, stepOut_apply e _⟩

/-- one step preserves the verification of a slot whose pages the event leaves alone -/
theorem stepOut_verifies {e : Ev} {d d' : Disk} (s : SlotImg) (hs : evSafe s.pages e = true)
    (ho : StepOut e d d') (hv : verifiesImg d.pages d.len s = true) :
    verifiesImg d'.pages d'.len s = true := by
  cases s with
  | torn => simp [verifiesImg] at hv
  | good id tree =>
    simp only [verifiesImg, List.all_eq_true, Bool.and_eq_true, decide_eq_true_eq, beq_iff_eq] at hv ⊢
    intro x hx
    have hxp : x.1 ∈ (SlotImg.good id tree).pages := by
      simp only [SlotImg.pages, SlotImg.tree]; exact List.mem_map_of_mem hx
    obtain ⟨hlen, hget⟩ := hv x hx
    cases e with
    | sync => simp only [StepOut] at ho; subst ho; exact ⟨hlen, hget⟩
    | header h =>
      simp only [StepOut] at ho
      obtain ⟨hp, hl, _⟩ := ho
      rw [hp, hl]; exact ⟨hlen, hget⟩
    | write ws =>
      simp only [StepOut] at ho
      obtain ⟨_, hl, hp⟩ := ho
      simp only [evSafe, List.all_eq_true, Bool.not_eq_true', List.contains_eq_mem,
        decide_eq_false_iff_not] at hs
      refine ⟨by rw [hl]; exact hlen, ?_⟩
      rcases hp x.1 with h | ⟨t, ht, _⟩
      · rw [h]; exact hget
      · exact absurd hxp (hs (x.1, t) ht)
    | setLen n =>
      simp only [StepOut] at ho
      rcases ho with rfl | ⟨_, hl, hp⟩
      · exact ⟨hlen, hget⟩
      · simp only [evSafe, List.all_eq_true, decide_eq_true_eq] at hs
        have hlt := hs _ hxp
        refine ⟨by rw [hl]; exact hlt, ?_⟩
        rw [hp, if_pos hlt]; exact hget

theorem outcome_verifies {D : Disk} {r : List Ev} {o : Disk} (s : SlotImg)
    (hs : r.all (evSafe s.pages) = true) (ho : Outcome D r o)
    (hv : verifiesImg D.pages D.len s = true) : verifiesImg o.pages o.len s = true := by
  induction r generalizing o with
  | nil => simp only [Outcome] at ho; subst ho; exact hv
  | cons e r ih =>
    simp only [List.all_cons, Bool.and_eq_true] at hs
    obtain ⟨o', ho', hst⟩ := ho
    exact stepOut_verifies s hs.1 hst (ih hs.2 ho')

/-- every pending event passed the monitor when it was issued -/
def pendOk (D : Disk) (i : Nat) : List Ev → Bool
  | [] => true
  | e :: r => pendOk D i r && evOk D i r e

/-- the durable disk is servable: slot `i` -/
structure Good (D : Disk) (i : Nat) : Prop where
  ilt : i < 2
  plt : D.hdr.god.primary < 2
  served : D.served = .ok i
  distinct : distinctIds D i = true

theorem Good.verI {D : Disk} {i : Nat} (g : Good D i) :
    verifiesImg D.pages D.len (D.hdr.slot i) = true := by
  have := recover_verifies g.served
  simpa [Disk.verifies] using this

theorem Good.layOk {D : Disk} {i : Nat} (g : Good D i) (hrr : D.hdr.god.rr = false) :
    D.hdr.layLen ≤ D.len := by
  have := recover_wellFormed g.served
  simpa [Disk.view, hrr] using this

theorem Good.notFlipped {D : Disk} {i : Nat} (g : Good D i) (htp : D.hdr.god.tp = true) :
    D.hdr.god.primary = i := by
  have := recover_twoPhase g.served (by simpa [Disk.view] using htp)
  simpa [Disk.view] using this.symm

theorem verifies_good {pages : PageMap} {len : Nat} {s : SlotImg}
    (h : verifiesImg pages len s = true) : s.isGood = true := by
  cases s <;> simp_all [verifiesImg, SlotImg.isGood]

/-- what every crash outcome `o` of a monitored pending list `r` over `D` (serving `i`) looks like -/
structure Inv (D : Disk) (i : Nat) (r : List Ev) (o : Disk) : Prop where
  slotI : o.hdr.slot i = D.hdr.slot i
  verI : verifiesImg o.pages o.len (D.hdr.slot i) = true
  god : o.hdr.god = D.hdr.god ∨ ∃ h, pendHdr r = some h ∧ o.hdr.god = h.god
  slotJ : o.hdr.slot (other i) = D.hdr.slot (other i) ∨
    ∃ h, pendHdr r = some h ∧ (o.hdr.slot (other i) = h.slot (other i) ∨
      (h.slot (other i) ≠ D.hdr.slot (other i) ∧ o.hdr.slot (other i) = .torn))
  flip : ∀ h, pendHdr r = some h → flips h (other i) = true →
    verifiesImg o.pages o.len (D.hdr.slot (other i)) = true
  noHdr : pendHdr r = none → o.hdr = D.hdr
  noLen : hasSetLen r = false → o.len = D.len
  lay : (D.hdr.god.rr = false ∨ ∃ h, pendHdr r = some h ∧ h.god.rr = false) →
    o.len = D.len ∧ o.hdr.layLen = D.hdr.layLen ∧ D.hdr.layLen ≤ D.len

theorem slotOut_idx {d d' : Disk} {h : HeaderImg}
    (h0 : SlotOut d.hdr.slot0 h.slot0 d'.hdr.slot0) (h1 : SlotOut d.hdr.slot1 h.slot1 d'.hdr.slot1)
    (k : Nat) : SlotOut (d.hdr.slot k) (h.slot k) (d'.hdr.slot k) := by
  unfold HeaderImg.slot; split <;> assumption

theorem flipPages_eq {D : Disk} {i : Nat} {r : List Ev} {h : HeaderImg}
    (hp : pendHdr r = some h) (hf : flips h (other i) = true) :
    flipPages D i r = (D.hdr.slot (other i)).pages := by
  simp [flipPages, hp, hf]

theorem inv_of_outcome {D : Disk} {i : Nat} (g : Good D i) {r : List Ev} {o : Disk}
    (hp : pendOk D i r = true) (ho : Outcome D r o) : Inv D i r o := by
  induction r generalizing o with
  | nil =>
    simp only [Outcome] at ho; subst ho
    exact { slotI := rfl, verI := g.verI, god := Or.inl rfl, slotJ := Or.inl rfl,
            flip := by intro h hh; simp [pendHdr] at hh,
            noHdr := fun _ => rfl, noLen := fun _ => rfl,
            lay := by
              intro hl
              rcases hl with hl | ⟨h, hh, _⟩
              · exact ⟨rfl, rfl, g.layOk hl⟩
              · simp [pendHdr] at hh }
  | cons e r ih =>
    simp only [pendOk, Bool.and_eq_true] at hp
    obtain ⟨o', ho', hst⟩ := ho
    have I := ih hp.1 ho'
    have hev := hp.2
    cases e with
    | sync => simp [evOk] at hev
    | write ws =>
      simp only [evOk, Bool.and_eq_true] at hev
      have hst' := hst
      simp only [StepOut] at hst
      obtain ⟨hh, hl, _⟩ := hst
      exact { slotI := by rw [hh]; exact I.slotI
              verI := stepOut_verifies _ hev.1 hst' I.verI
              god := by rw [hh]; simpa [pendHdr] using I.god
              slotJ := by rw [hh]; simpa [pendHdr] using I.slotJ
              flip := by
                intro h hph hf
                simp only [pendHdr] at hph
                have := hev.2
                rw [flipPages_eq hph hf] at this
                exact stepOut_verifies _ this hst' (I.flip h hph hf)
              noHdr := by intro hn; rw [hh]; exact I.noHdr (by simpa [pendHdr] using hn)
              noLen := by intro hn; rw [hl]; exact I.noLen (by simpa [hasSetLen] using hn)
              lay := by
                intro hc
                rw [hh, hl]; exact I.lay (by simpa [pendHdr] using hc) }
    | setLen n =>
      simp only [evOk, Bool.and_eq_true] at hev
      obtain ⟨⟨⟨hs1, hs2⟩, hrr⟩, hprr⟩ := hev
      have hst' := hst
      simp only [StepOut] at hst
      have hhdr : o.hdr = o'.hdr := by
        rcases hst with rfl | ⟨hh, _, _⟩
        · rfl
        · exact hh
      exact { slotI := by rw [hhdr]; exact I.slotI
              verI := stepOut_verifies _ hs1 hst' I.verI
              god := by rw [hhdr]; simpa [pendHdr] using I.god
              slotJ := by rw [hhdr]; simpa [pendHdr] using I.slotJ
              flip := by
                intro h hph hf
                simp only [pendHdr] at hph
                rw [flipPages_eq hph hf] at hs2
                exact stepOut_verifies _ hs2 hst' (I.flip h hph hf)
              noHdr := by intro hn; rw [hhdr]; exact I.noHdr (by simpa [pendHdr] using hn)
              noLen := by intro hn; simp [hasSetLen] at hn
              lay := by
                intro hc
                rcases hc with hc | ⟨h, hph, hc⟩
                · simp [hc] at hrr
                · simp only [pendHdr] at hph
                  simp [hph, hc] at hprr }
    | header h =>
      simp only [evOk, hdrOk, Bool.and_eq_true, decide_eq_true_eq, Bool.or_eq_true,
        Bool.not_eq_true', Option.isNone_iff_eq_none] at hev
      obtain ⟨⟨⟨⟨⟨⟨hnone, hplt⟩, hH1⟩, hH2⟩, hH3⟩, hL1⟩, hL2⟩ := hev
      simp only [StepOut] at hst
      obtain ⟨hpg, hl, hgod, hs0, hs1, hlay⟩ := hst
      have hso := slotOut_idx hs0 hs1
      have hhdr' : o'.hdr = D.hdr := I.noHdr hnone
      have hph : pendHdr (Ev.header h :: r) = some h := rfl
      exact { slotI := by
                have := hso i
                rw [hhdr', hH1] at this
                rcases this with h1 | h1 | ⟨h1, _⟩
                · exact h1
                · exact h1
                · exact absurd rfl h1
              verI := by rw [hpg, hl]; exact I.verI
              god := by
                rcases hgod with hg | hg
                · left; rw [hg, hhdr']
                · right; exact ⟨h, hph, hg⟩
              slotJ := by
                have := hso (other i)
                rw [hhdr'] at this
                rcases this with h1 | h1 | ⟨h1, h2⟩
                · left; exact h1
                · right; exact ⟨h, hph, Or.inl h1⟩
                · right; exact ⟨h, hph, Or.inr ⟨fun e => h1 e.symm, h2⟩⟩
              flip := by
                intro h' hph' hf
                simp only [pendHdr, Option.some.injEq] at hph'
                subst hph'
                rcases hH3 with hH3 | hH3
                · simp [hH3] at hf
                · rw [hpg, hl]
                  exact outcome_verifies _ hH3.2 ho' hH3.1.2
              noHdr := by intro hn; simp [pendHdr] at hn
              noLen := by
                intro hn; rw [hl]; exact I.noLen (by simpa [hasSetLen] using hn)
              lay := by
                intro hc
                have key : o'.len = D.len ∧ h.layLen = D.hdr.layLen ∧ D.hdr.layLen ≤ D.len := by
                  rcases hc with hc | ⟨h', hph', hc⟩
                  · have := I.lay (Or.inl hc)
                    rcases hL2 with hL2 | hL2
                    · simp [hc] at hL2
                    · exact ⟨this.1, hL2, this.2.2⟩
                  · simp only [pendHdr, Option.some.injEq] at hph'
                    subst hph'
                    rcases hL1 with hL1 | hL1
                    · simp [hc] at hL1
                    · exact ⟨I.noLen hL1.1.1, hL1.1.2, hL1.2⟩
                refine ⟨by rw [hl]; exact key.1, ?_, key.2.2⟩
                rcases hlay with hlay | hlay
                · rw [hlay, hhdr']
                · rw [hhdr'] at hlay; exact absurd key.2.1.symm hlay }

theorem view_valid (o : Disk) (k : Nat) : o.view.valid k = (o.hdr.slot k).isGood := by
  unfold HeaderView.valid Disk.view HeaderImg.slot; split <;> rfl
theorem view_id (o : Disk) (k : Nat) : o.view.id k = (o.hdr.slot k).id := by
  unfold HeaderView.id Disk.view HeaderImg.slot; split <;> rfl

theorem newer_lt {s : SlotImg} {c : Nat} (h : newer s c = true) : c < s.id := by
  cases s <;> simp_all [newer, SlotImg.id]

theorem distinct_ne {D : Disk} {i : Nat} (h : distinctIds D i = true)
    (hg : (D.hdr.slot (other i)).isGood = true) : (D.hdr.slot (other i)).id ≠ (D.hdr.slot i).id := by
  unfold distinctIds at h
  cases hs : D.hdr.slot (other i) with
  | torn => simp [hs, SlotImg.isGood] at hg
  | good id t => simpa [hs, SlotImg.id] using h

/-- the facts the monitor checked for the pending header write -/
structure HdrFacts (D : Disk) (i : Nat) (h : HeaderImg) : Prop where
  plt : h.god.primary < 2
  slotI : h.slot i = D.hdr.slot i
  slotJ : h.slot (other i) = D.hdr.slot (other i) ∨ (D.hdr.slot i).id < (h.slot (other i)).id
  flip : flips h (other i) = true →
    h.slot (other i) = D.hdr.slot (other i) ∧ (D.hdr.slot i).id < (D.hdr.slot (other i)).id

theorem hdrOk_facts {D : Disk} {i : Nat} {r : List Ev} {h : HeaderImg}
    (hk : hdrOk D i r h = true) : HdrFacts D i h := by
  simp only [hdrOk, Bool.and_eq_true, decide_eq_true_eq, Bool.or_eq_true,
    Bool.not_eq_true', Option.isNone_iff_eq_none] at hk
  obtain ⟨⟨⟨⟨⟨⟨hnone, hplt⟩, hH1⟩, hH2⟩, hH3⟩, hL1⟩, hL2⟩ := hk
  refine ⟨hplt, hH1, ?_, ?_⟩
  · rcases hH2 with h2 | h2
    · exact Or.inl h2
    · exact Or.inr (newer_lt h2)
  · intro hf
    rcases hH3 with h3 | h3
    · simp [h3] at hf
    · exact ⟨h3.1.1.1, newer_lt h3.1.1.2⟩

theorem pendOk_hdr {D : Disk} {i : Nat} {r : List Ev} {h : HeaderImg}
    (hp : pendOk D i r = true) (hh : pendHdr r = some h) : HdrFacts D i h := by
  induction r with
  | nil => simp [pendHdr] at hh
  | cons e r ih =>
    simp only [pendOk, Bool.and_eq_true] at hp
    cases e with
    | header h' =>
      simp only [pendHdr, Option.some.injEq] at hh
      subst hh
      exact hdrOk_facts (by simpa [evOk] using hp.2)
    | write ws => exact ih hp.1 (by simpa [pendHdr] using hh)
    | setLen n => exact ih hp.1 (by simpa [pendHdr] using hh)
    | sync => simp [evOk] at hp

/-- slot `k` of the outcome `o` is a legitimate result of the recovery: a valid slot whose trees
verify on `o` (exactly one commit point, never a mixture), holding either the very commit the
durable disk serves, or a NEWER commit that a header write put into the other slot (durably or
pending, i.e. requested and not yet acknowledged) -/
def ServedBy (D : Disk) (i : Nat) (r : List Ev) (o : Disk) (k : Nat) : Prop :=
  k < 2 ∧ (o.hdr.slot k).isGood = true ∧ o.verifies k = true ∧
  (o.hdr.slot k = D.hdr.slot i ∨
    ((D.hdr.slot i).id < (o.hdr.slot k).id ∧
      (o.hdr.slot k = D.hdr.slot (other i) ∨
        ∃ h, pendHdr r = some h ∧ o.hdr.slot k = h.slot (other i))))

theorem safe_of_inv {D : Disk} {i : Nat} (g : Good D i) {r : List Ev} {o : Disk}
    (hp : pendOk D i r = true) (I : Inv D i r o) (vf : Nat → Bool) (q : Bool)
    (hvf : ∀ k, (o.hdr.slot k).isGood = true → vf k = o.verifies k) :
    ∃ k, recover o.view vf q = .ok k ∧ ServedBy D i r o k := by
  have hgi : (o.hdr.slot i).isGood = true := by rw [I.slotI]; exact verifies_good g.verI
  have hveri : o.verifies i = true := by unfold Disk.verifies; rw [I.slotI]; exact I.verI
  have hplt : o.view.primary < 2 := by
    show o.hdr.god.primary < 2
    rcases I.god with h | ⟨h, hh, h'⟩
    · rw [h]; exact g.plt
    · rw [h']; exact (pendOk_hdr hp hh).plt
  have hwf : o.view.wellFormed = true := by
    show (o.hdr.god.rr || decide (o.hdr.layLen ≤ o.len)) = true
    cases hrr : o.hdr.god.rr with
    | true => rfl
    | false =>
      have : D.hdr.god.rr = false ∨ ∃ h, pendHdr r = some h ∧ h.god.rr = false := by
        rcases I.god with h | ⟨h, hh, h'⟩
        · left; rw [← h]; exact hrr
        · right; exact ⟨h, hh, by rw [← h']; exact hrr⟩
      obtain ⟨h1, h2, h3⟩ := I.lay this
      simp only [Bool.false_or, decide_eq_true_eq]; omega
  have h2 : o.view.twoPhase = true → o.view.primary = other i →
      o.view.valid (other i) = true ∧ vf (other i) = true := by
    intro htp hpj
    change o.hdr.god.tp = true at htp
    change o.hdr.god.primary = other i at hpj
    rcases I.god with h | ⟨h, hh, h'⟩
    · rw [h] at htp hpj
      exact absurd (g.notFlipped htp ▸ hpj) (fun e => other_ne e.symm)
    · have hf : flips h (other i) = true := by
        rw [h'] at htp hpj
        simp [flips, htp, hpj]
      have F := pendOk_hdr hp hh
      have hv := I.flip h hh hf
      have hsl : o.hdr.slot (other i) = D.hdr.slot (other i) := by
        rcases I.slotJ with e | ⟨h2, hh2, e⟩
        · exact e
        · rw [hh] at hh2; cases hh2
          rcases e with e | ⟨e1, _⟩
          · rw [e]; exact (F.flip hf).1
          · exact absurd (F.flip hf).1 e1
      have hgj : (o.hdr.slot (other i)).isGood = true := by rw [hsl]; exact verifies_good hv
      refine ⟨by rw [view_valid]; exact hgj, ?_⟩
      rw [hvf _ hgj]; unfold Disk.verifies; rw [hsl]; exact hv
  obtain ⟨k, hk, hcase⟩ := recover_safe o.view vf q i g.ilt hplt hwf
    (by rw [view_valid]; exact hgi) (by rw [hvf _ hgi]; exact hveri) h2
  refine ⟨k, hk, ?_⟩
  rcases hcase with rfl | ⟨rfl, hvj, hvfj, hid⟩
  · exact ⟨g.ilt, hgi, hveri, Or.inl I.slotI⟩
  · rw [view_valid] at hvj
    refine ⟨other_lt i, hvj, by rw [← hvf _ hvj]; exact hvfj, Or.inr ?_⟩
    -- where the slot image comes from
    have hsrc : (o.hdr.slot (other i) = D.hdr.slot (other i)) ∨
        ∃ h, pendHdr r = some h ∧ o.hdr.slot (other i) = h.slot (other i) := by
      rcases I.slotJ with e | ⟨h, hh, e | ⟨_, e⟩⟩
      · exact Or.inl e
      · exact Or.inr ⟨h, hh, e⟩
      · rw [e] at hvj; simp [SlotImg.isGood] at hvj
    refine ⟨?_, hsrc⟩
    -- its id is not the served one
    have hne : (o.hdr.slot (other i)).id ≠ (D.hdr.slot i).id ∨
        (D.hdr.slot i).id < (o.hdr.slot (other i)).id := by
      rcases hsrc with e | ⟨h, hh, e⟩
      · left; rw [e]; exact distinct_ne g.distinct (by rw [← e]; exact hvj)
      · rcases (pendOk_hdr hp hh).slotJ with e2 | e2
        · left; rw [e, e2]; exact distinct_ne g.distinct (by rw [← e2, ← e]; exact hvj)
        · right; rw [e]; exact e2
    rw [view_id, view_id, I.slotI] at hid
    rcases hid with ⟨htp, hpj⟩ | hid | ⟨_, hid⟩
    · -- promoted by a 2-phase flip
      change o.hdr.god.tp = true at htp
      change o.hdr.god.primary = other i at hpj
      rcases I.god with h | ⟨h, hh, h'⟩
      · rw [h] at htp hpj
        exact absurd (g.notFlipped htp ▸ hpj) (fun e => other_ne e.symm)
      · have hf : flips h (other i) = true := by
          rw [h'] at htp hpj
          simp [flips, htp, hpj]
        have F := (pendOk_hdr hp hh).flip hf
        rcases hsrc with e | ⟨h2, hh2, e⟩
        · rw [e]; exact F.2
        · rw [hh] at hh2; cases hh2
          rw [e, F.1]; exact F.2
    · exact hid
    · rcases hne with hne | hne
      · omega
      · exact hne

theorem inv_plt {D : Disk} {i : Nat} (g : Good D i) {r : List Ev} {o : Disk}
    (hp : pendOk D i r = true) (I : Inv D i r o) : o.hdr.god.primary < 2 := by
  rcases I.god with h | ⟨h, hh, h'⟩
  · rw [h]; exact g.plt
  · rw [h']; exact (pendOk_hdr hp hh).plt

/-- a valid other slot of an outcome never carries the id of the served commit -/
theorem inv_idJ {D : Disk} {i : Nat} (g : Good D i) {r : List Ev} {o : Disk}
    (hp : pendOk D i r = true) (I : Inv D i r o)
    (hvj : (o.hdr.slot (other i)).isGood = true) :
    (o.hdr.slot (other i)).id ≠ (D.hdr.slot i).id := by
  rcases I.slotJ with e | ⟨h, hh, e | ⟨_, e⟩⟩
  · rw [e]; exact distinct_ne g.distinct (by rw [← e]; exact hvj)
  · rcases (pendOk_hdr hp hh).slotJ with e2 | e2
    · rw [e, e2]; exact distinct_ne g.distinct (by rw [← e2, ← e]; exact hvj)
    · rw [e]; omega
  · rw [e] at hvj; simp [SlotImg.isGood] at hvj

/-- the monitor's invariant -/
structure RunInv (s : St) : Prop where
  good : Good s.D s.i
  pend : pendOk s.D s.i s.P = true

def St.servedId (s : St) : Nat := (s.D.hdr.slot s.i).id

/-- the headline step: on every crash outcome of a monitored state the recovery succeeds and
serves a legitimate slot -/
theorem outcome_served {s : St} (hs : RunInv s) {o : Disk} (ho : Outcome s.D s.P o)
    (vf : Nat → Bool) (q : Bool)
    (hvf : ∀ k, (o.hdr.slot k).isGood = true → vf k = o.verifies k) :
    ∃ k, recover o.view vf q = .ok k ∧ ServedBy s.D s.i s.P o k :=
  safe_of_inv hs.good hs.pend (inv_of_outcome hs.good hs.pend ho) vf q hvf

/-- a crash outcome, taken as the durable disk of the next run, is servable again -/
theorem outcome_good {s : St} (hs : RunInv s) {o : Disk} (ho : Outcome s.D s.P o) {k : Nat}
    (hk : o.served = .ok k) : Good o k ∧ ServedBy s.D s.i s.P o k := by
  have I := inv_of_outcome hs.good hs.pend ho
  obtain ⟨k', hk', hsb⟩ := outcome_served hs ho o.verifies false (fun _ _ => rfl)
  have : k' = k := by
    unfold Disk.served at hk; rw [hk'] at hk; cases hk; rfl
  subst this
  refine ⟨⟨hsb.1, inv_plt hs.good hs.pend I, hk, ?_⟩, hsb⟩
  have hgi : (o.hdr.slot s.i).isGood = true := by rw [I.slotI]; exact verifies_good hs.good.verI
  rcases eq_or_other hs.good.ilt hsb.1 with e | e
  · -- serves the same slot index
    subst e
    unfold distinctIds
    cases hsl : o.hdr.slot (other s.i) with
    | torn => rfl
    | good id t =>
      have := inv_idJ hs.good hs.pend I (by rw [hsl]; rfl)
      rw [hsl, ← I.slotI] at this
      simpa [SlotImg.id] using this
  · subst e
    unfold distinctIds
    rw [other_other hs.good.ilt]
    cases hsl : o.hdr.slot s.i with
    | torn => rfl
    | good id t =>
      have := inv_idJ hs.good hs.pend I hsb.2.1
      rw [← I.slotI, hsl] at this
      simp only [SlotImg.id] at this
      simpa using fun e => this e.symm

theorem start_inv {D : Disk} {s : St} (h : start D = some s) : RunInv s ∧ s.D = D ∧ s.P = [] := by
  unfold start at h
  split at h
  · rename_i i hi
    split at h
    · rename_i hc
      cases h
      simp only [Bool.and_eq_true, decide_eq_true_eq] at hc
      have hplt := hc.1
      refine ⟨⟨⟨?_, hplt, hi, hc.2⟩, rfl⟩, rfl, rfl⟩
      -- the served slot index is 0 or 1
      have hi' := hi
      unfold Disk.served recover at hi'
      split at hi'
      · cases hi'
      · split at hi'
        · cases hi'
        · rename_i s0 hs0
          have hs0lt : s0 < 2 := by
            unfold selectSlot at hs0
            have hp : D.view.primary < 2 := hplt
            have ho := other_lt D.view.primary
            repeat' split at hs0
            all_goals first | (cases hs0; assumption) | cases hs0
          have ho := other_lt s0
          repeat' split at hi'
          all_goals first | (cases hi'; assumption) | cases hi'
    · cases h
  · cases h

theorem step_inv {s s' : St} {e : Ev} (hs : RunInv s) (h : step s e = some s') :
    RunInv s' ∧ s.servedId ≤ s'.servedId := by
  cases e with
  | sync =>
    simp only [step] at h
    split at h
    · rename_i k hk
      cases h
      obtain ⟨g, hsb⟩ := outcome_good hs (outcome_flush s.D s.P) hk
      refine ⟨⟨g, rfl⟩, ?_⟩
      unfold St.servedId
      rcases hsb.2.2.2 with e | ⟨e, _⟩
      · simp only; rw [e]; exact Nat.le_refl _
      · exact Nat.le_of_lt e
    · cases h
  | header hh =>
    simp only [step] at h
    split at h
    · rename_i hc
      cases h
      exact ⟨⟨hs.good, by simp [pendOk, hs.pend, hc]⟩, Nat.le_refl _⟩
    · cases h
  | write ws =>
    simp only [step] at h
    split at h
    · rename_i hc
      cases h
      exact ⟨⟨hs.good, by simp [pendOk, hs.pend, hc]⟩, Nat.le_refl _⟩
    · cases h
  | setLen n =>
    simp only [step] at h
    split at h
    · rename_i hc
      cases h
      exact ⟨⟨hs.good, by simp [pendOk, hs.pend, hc]⟩, Nat.le_refl _⟩
    · cases h

theorem run_inv {s s' : St} {tr : List Ev} (hs : RunInv s) (h : run s tr = some s') :
    RunInv s' ∧ s.servedId ≤ s'.servedId := by
  induction tr generalizing s with
  | nil => simp only [run] at h; cases h; exact ⟨hs, Nat.le_refl _⟩
  | cons e es ih =>
    simp only [run] at h
    split at h
    · rename_i s1 h1
      obtain ⟨hs1, hle1⟩ := step_inv hs h1
      obtain ⟨hs2, hle2⟩ := ih hs1 h
      exact ⟨hs2, Nat.le_trans hle1 hle2⟩
    · cases h

theorem run_append {s s'' : St} {a b : List Ev} (h : run s (a ++ b) = some s'') :
    ∃ s', run s a = some s' ∧ run s' b = some s'' := by
  induction a generalizing s with
  | nil => exact ⟨s, rfl, h⟩
  | cons e es ih =>
    simp only [List.cons_append, run] at h ⊢
    split at h
    · rename_i s1 h1
      obtain ⟨s', h2, h3⟩ := ih h
      exact ⟨s', by simp [h2], h3⟩
    · cases h

end Redb.Storage
