import RedbModel.Model.KeyType
namespace Redb.Key

/-- total payload length -/
def lenSum (es : List Bytes) : Nat := (es.map List.length).sum

@[simp] theorem lenSum_nil : lenSum [] = 0 := rfl

@[simp] theorem lenSum_cons (e : Bytes) (es : List Bytes) :
    lenSum (e :: es) = e.length + lenSum es := by
  simp [lenSum]

theorem lenSum_take_le (es : List Bytes) (n : Nat) : lenSum (es.take n) ≤ lenSum es := by
  induction es generalizing n with
  | nil => simp
  | cons e es ih =>
    cases n with
    | zero => simp
    | succ n =>
      have := ih n
      simp only [List.take_succ_cons, lenSum_cons]
      omega

theorem length_flatten_eq_lenSum (es : List Bytes) : es.flatten.length = lenSum es := by
  induction es with
  | nil => simp
  | cons e es ih => simp [ih]

theorem foldl_len (es : List Bytes) (c : Nat) :
    es.foldl (fun a e => a + e.length) c = c + lenSum es := by
  induction es generalizing c with
  | nil => simp
  | cons e es ih => simp [ih]; omega

theorem length_natLe (w x : Nat) : (natLe w x).length = w := by
  induction w generalizing x with
  | zero => simp [natLe]
  | succ w ih => simp [natLe, ih]

theorem leNat_natLe (w x : Nat) (h : x < 256 ^ w) : leNat (natLe w x) = x := by
  induction w generalizing x with
  | zero =>
    simp [natLe, leNat]
    simp at h
    omega
  | succ w ih =>
    have h2 : x / 256 < 256 ^ w := by
      rw [Nat.pow_succ] at h
      omega
    simp only [natLe, leNat]
    rw [ih _ h2]
    have : (UInt8.ofNat (x % 256)).toNat = x % 256 := by
      simp
    rw [this]
    omega

theorem leNat_lt (bs : Bytes) : leNat bs < 256 ^ bs.length := by
  induction bs with
  | nil => simp [leNat]
  | cons b bs ih =>
    have hb : b.toNat < 256 := UInt8.toNat_lt b
    simp only [leNat, List.length_cons, Nat.pow_succ]
    omega

theorem rdU32_lt (d : Bytes) (off : Nat) : rdU32 d off < 2 ^ 32 := by
  unfold rdU32
  have h := leNat_lt ((d.drop off).take 4)
  have h2 : ((d.drop off).take 4).length ≤ 4 := by
    simp
    omega
  have h3 : 256 ^ ((d.drop off).take 4).length ≤ 256 ^ 4 :=
    Nat.pow_le_pow_right (by decide) h2
  have h4 : (256 : Nat) ^ 4 = 2 ^ 32 := by decide
  omega

/-! ### the list of end offsets -/

/-- end offsets of the elements, the first one starting at `c` -/
def endsFrom (c : Nat) : List Bytes → List Nat
  | [] => []
  | e :: es => (c + e.length) :: endsFrom (c + e.length) es

theorem foldl_ends (es : List Bytes) (acc : Nat × List Nat) :
    (es.foldl (fun (s : Nat × List Nat) e => (s.1 + e.length, s.2 ++ [s.1 + e.length])) acc).2
      = acc.2 ++ endsFrom acc.1 es := by
  induction es generalizing acc with
  | nil => simp [endsFrom]
  | cons e es ih => simp [ih, endsFrom]

theorem length_endsFrom (c : Nat) (es : List Bytes) : (endsFrom c es).length = es.length := by
  induction es generalizing c with
  | nil => simp [endsFrom]
  | cons e es ih => simp [endsFrom, ih]

theorem getElem_endsFrom (c : Nat) (es : List Bytes) (j : Nat) (hj : j < es.length) :
    (endsFrom c es)[j]'(by rw [length_endsFrom]; exact hj) = c + lenSum (es.take (j + 1)) := by
  induction es generalizing c j with
  | nil => simp at hj
  | cons e es ih =>
    cases j with
    | zero => simp [endsFrom]
    | succ j =>
      simp only [endsFrom, List.getElem_cons_succ]
      rw [ih]
      · simp; omega
      · simpa using hj

theorem buildArray_eq (es : List Bytes) :
    buildArray es = ((endsFrom (4 * es.length) es).map (natLe 4)).flatten ++ es.flatten := by
  simp [buildArray, foldl_ends]

theorem length_chunks (l : List Nat) : ((l.map (natLe 4)).flatten).length = 4 * l.length := by
  induction l with
  | nil => simp
  | cons a l ih =>
    simp only [List.map_cons, List.flatten_cons, List.length_append, length_natLe, ih,
      List.length_cons]
    omega

theorem buildArray_length (es : List Bytes) :
    (buildArray es).length = 4 * es.length + lenSum es := by
  rw [buildArray_eq, List.length_append, length_chunks, length_endsFrom, length_flatten_eq_lenSum]

/-- dropping `4*j` from a flatten of 4-byte chunks and taking 4 gives the `j`-th chunk -/
theorem take_drop_chunks (l : List Nat) (rest : Bytes) (j : Nat) (hj : j < l.length) :
    (((l.map (natLe 4)).flatten ++ rest).drop (4 * j)).take 4 = natLe 4 l[j] := by
  induction l generalizing j with
  | nil => simp at hj
  | cons a l ih =>
    cases j with
    | zero =>
      simp only [List.map_cons, List.flatten_cons, Nat.mul_zero, List.drop_zero,
        List.append_assoc, List.getElem_cons_zero]
      rw [List.take_append_of_le_length (by rw [length_natLe]; omega)]
      rw [List.take_of_length_le (by rw [length_natLe]; omega)]
    | succ j =>
      simp only [List.map_cons, List.flatten_cons, List.append_assoc, List.getElem_cons_succ]
      have h4 : 4 * (j + 1) = (natLe 4 a).length + 4 * j := by rw [length_natLe]; omega
      rw [h4, List.drop_length_add_append]
      exact ih j (by simpa using hj)

/-- the `j`-th end offset stored in the header -/
theorem rdU32_buildArray (es : List Bytes) (h : 4 * es.length + lenSum es < 2 ^ 32)
    (j : Nat) (hj : j < es.length) :
    rdU32 (buildArray es) (4 * j) = 4 * es.length + lenSum (es.take (j + 1)) := by
  have hj' : j < (endsFrom (4 * es.length) es).length := by rw [length_endsFrom]; exact hj
  rw [buildArray_eq, rdU32, take_drop_chunks _ _ j hj', getElem_endsFrom _ _ _ hj]
  apply leNat_natLe
  have hle : lenSum (es.take (j + 1)) ≤ lenSum es := lenSum_take_le es (j + 1)
  have h4 : (256 : Nat) ^ 4 = 2 ^ 32 := by decide
  omega

theorem take_drop_flatten (es : List Bytes) (j : Nat) (hj : j < es.length) :
    (es.flatten.take (lenSum (es.take (j + 1)))).drop (lenSum (es.take j)) = es[j] := by
  induction es generalizing j with
  | nil => simp at hj
  | cons e es ih =>
    cases j with
    | zero => simp
    | succ j =>
      simp only [List.take_succ_cons, lenSum_cons, List.flatten_cons, List.getElem_cons_succ]
      rw [List.take_length_add_append, List.drop_length_add_append]
      exact ih j (by simpa using hj)

theorem slice_append_add (hdr body : Bytes) (H s e : Nat) (hH : hdr.length = H) :
    slice (hdr ++ body) (H + s) (H + e) = (body.take e).drop s := by
  subst hH
  unfold slice
  rw [List.take_length_add_append, List.drop_length_add_append]

theorem arrayElement_buildArray (es : List Bytes) (h : 4 * es.length + lenSum es < 2 ^ 32)
    (j : Nat) (hj : j < es.length) :
    arrayElement es.length (buildArray es) j = es[j] := by
  have hstart : (if j = 0 then 4 * es.length else rdU32 (buildArray es) (4 * (j - 1)))
      = 4 * es.length + lenSum (es.take j) := by
    cases j with
    | zero => simp
    | succ j =>
      simp only [Nat.add_one_ne_zero, if_false, Nat.add_sub_cancel]
      exact rdU32_buildArray es h j (by omega)
  unfold arrayElement
  simp only [hstart, rdU32_buildArray es h j hj]
  rw [buildArray_eq]
  have hl : (((endsFrom (4 * es.length) es).map (natLe 4)).flatten).length = 4 * es.length := by
    rw [length_chunks, length_endsFrom]
  rw [slice_append_add _ _ _ _ _ hl]
  exact take_drop_flatten es j hj

end Redb.Key
