import RedbModel.Model.KeyType
import RedbModel.Lemmas.KeyOrd
/-!
`cmp t` is a total preorder comparator on the valid encodings of `t`, for every `t`.
-/
namespace Redb.Key

/-! ### lexicographic product: `cmpList` -/

theorem cmpList_nil (xs ys : List Bytes) : cmpList [] xs ys = .eq := by
  rw [cmpList.eq_2]; intros; simp_all

theorem validList_cons_elim {t : KT} {ts : List KT} {xs : List Bytes}
    (h : validList (t :: ts) xs = true) :
    ∃ x xs', xs = x :: xs' ∧ valid t x = true ∧ validList ts xs' = true := by
  cases xs with
  | nil => simp [validList] at h
  | cons x xs' => simp [validList] at h; exact ⟨x, xs', rfl, h.1, h.2⟩

theorem ordLaws_cmpList_cons (t : KT) (ts : List KT)
    (ht : OrdLaws (fun a => valid t a = true) (cmp t))
    (ih : OrdLaws (fun xs => validList ts xs = true) (cmpList ts)) :
    OrdLaws (fun xs => validList (t :: ts) xs = true) (cmpList (t :: ts)) where
  refl a ha := by
    obtain ⟨x, xs, rfl, hx, hxs⟩ := validList_cons_elim ha
    simp [cmpList, ht.refl x hx, ih.refl xs hxs]
  swap a b ha hb := by
    obtain ⟨x, xs, rfl, hx, hxs⟩ := validList_cons_elim ha
    obtain ⟨y, ys, rfl, hy, hys⟩ := validList_cons_elim hb
    have s1 := ht.swap x y hx hy
    have s2 := ih.swap xs ys hxs hys
    simp only [cmpList]
    cases hxy : cmp t x y <;> simp_all [Ordering.swap]
  trans_le a b c ha hb hc := by
    obtain ⟨x, xs, rfl, hx, hxs⟩ := validList_cons_elim ha
    obtain ⟨y, ys, rfl, hy, hys⟩ := validList_cons_elim hb
    obtain ⟨z, zs, rfl, hz, hzs⟩ := validList_cons_elim hc
    have t1 := ht.trans_le x y z hx hy hz
    have t2 := ht.trans_lt x y z hx hy hz
    have t3 := ht.trans_lt' x y z hx hy hz
    have t4 := ht.trans_eq x y z hx hy hz
    have t5 := ih.trans_le xs ys zs hxs hys hzs
    simp only [cmpList]
    cases hxy : cmp t x y <;> cases hyz : cmp t y z <;> cases hxz : cmp t x z <;> simp_all
  trans_lt a b c ha hb hc := by
    obtain ⟨x, xs, rfl, hx, hxs⟩ := validList_cons_elim ha
    obtain ⟨y, ys, rfl, hy, hys⟩ := validList_cons_elim hb
    obtain ⟨z, zs, rfl, hz, hzs⟩ := validList_cons_elim hc
    have t1 := ht.trans_le x y z hx hy hz
    have t2 := ht.trans_lt x y z hx hy hz
    have t3 := ht.trans_lt' x y z hx hy hz
    have t4 := ht.trans_eq x y z hx hy hz
    have t5 := ih.trans_lt xs ys zs hxs hys hzs
    simp only [cmpList]
    cases hxy : cmp t x y <;> cases hyz : cmp t y z <;> cases hxz : cmp t x z <;> simp_all

theorem ordLaws_cmpList_nil : OrdLaws (fun xs => validList [] xs = true) (cmpList []) where
  refl a _ := cmpList_nil _ _
  swap a b _ _ := by simp [cmpList_nil, Ordering.swap]
  trans_le x y z _ _ _ _ _ := by simp [cmpList_nil]
  trans_lt x y z _ _ _ _ h := by simp [cmpList_nil] at h

theorem ordLaws_cmpList (ts : List KT)
    (h : ∀ t ∈ ts, OrdLaws (fun a => valid t a = true) (cmp t)) :
    OrdLaws (fun xs => validList ts xs = true) (cmpList ts) := by
  induction ts with
  | nil => exact ordLaws_cmpList_nil
  | cons t ts ih =>
    exact ordLaws_cmpList_cons t ts (h t (by simp)) (ih (fun t' ht' => h t' (by simp [ht'])))

/-! ### fixed-stride arrays as lists -/

def chunks (w : Nat) : Nat → Bytes → List Bytes
  | 0, _ => []
  | n + 1, d => d.take w :: chunks w n (d.drop w)

theorem cmpStride_eq (t : KT) (w n : Nat) (a b : Bytes) :
    cmpStride t w n a b = cmpList (List.replicate n t) (chunks w n a) (chunks w n b) := by
  induction n generalizing a b with
  | zero => simp [cmpStride, cmpList_nil]
  | succ n ih => simp [cmpStride, chunks, List.replicate_succ, cmpList, ih]

theorem validStride_eq (t : KT) (w n : Nat) (d : Bytes) :
    validStride t w n d = validList (List.replicate n t) (chunks w n d) := by
  induction n generalizing d with
  | zero => simp [validStride, validList, chunks]
  | succ n ih => simp [validStride, chunks, List.replicate_succ, validList, ih]

/-! ### offset-table arrays as lists -/

/-- start offset of element `i` -/
def startOf (n : Nat) (d : Bytes) (i : Nat) : Nat :=
  if i = 0 then 4 * n else rdU32 d (4 * (i - 1))

theorem arrayElement_eq (n : Nat) (d : Bytes) (i : Nat) :
    arrayElement n d i = slice d (startOf n d i) (rdU32 d (4 * i)) := rfl

theorem startOf_succ (n : Nat) (d : Bytes) (i : Nat) : startOf n d (i + 1) = rdU32 d (4 * i) := by
  simp [startOf]

def elemsFrom (n : Nat) (d : Bytes) (i : Nat) : Nat → List Bytes
  | 0 => []
  | k + 1 => arrayElement n d i :: elemsFrom n d (i + 1) k

theorem cmpOffsets_eq (t : KT) (n : Nat) (a b : Bytes) (i k : Nat) :
    cmpOffsets t a b (startOf n a i) (startOf n b i) i k =
      cmpList (List.replicate k t) (elemsFrom n a i k) (elemsFrom n b i k) := by
  induction k generalizing i with
  | zero => simp [cmpOffsets, cmpList_nil]
  | succ k ih =>
    simp only [cmpOffsets, elemsFrom, List.replicate_succ, cmpList, arrayElement_eq]
    rw [← startOf_succ n a i, ← startOf_succ n b i, ih (i + 1)]

theorem validOffsets_iff (t : KT) (n : Nat) (d : Bytes) (i k : Nat) :
    validOffsets t n d (startOf n d i) i k = true ↔
      (∀ j, i ≤ j → j < i + k → startOf n d j ≤ rdU32 d (4 * j) ∧ rdU32 d (4 * j) ≤ d.length ∧
        valid t (arrayElement n d j) = true) ∧ startOf n d (i + k) = d.length := by
  induction k generalizing i with
  | zero => simp [validOffsets]; omega
  | succ k ih =>
    simp only [validOffsets, Bool.and_eq_true, decide_eq_true_eq]
    rw [← startOf_succ n d i, ih (i + 1)]
    simp only [startOf_succ, ← arrayElement_eq]
    constructor
    · rintro ⟨⟨⟨h1, h2⟩, h3⟩, h4, h5⟩
      refine ⟨fun j hj1 hj2 => ?_, by rw [← h5]; congr 1; omega⟩
      by_cases hji : j = i
      · subst hji; exact ⟨h1, h2, h3⟩
      · exact h4 j (by omega) (by omega)
    · rintro ⟨h1, h2⟩
      have := h1 i (by omega) (by omega)
      refine ⟨⟨⟨this.1, this.2.1⟩, this.2.2⟩, fun j hj1 hj2 => h1 j (by omega) (by omega), ?_⟩
      rw [← h2]; congr 1; omega

theorem validList_elemsFrom (t : KT) (n : Nat) (d : Bytes) (i k : Nat)
    (h : ∀ j, i ≤ j → j < i + k → valid t (arrayElement n d j) = true) :
    validList (List.replicate k t) (elemsFrom n d i k) = true := by
  induction k generalizing i with
  | zero => simp [validList, elemsFrom]
  | succ k ih =>
    simp only [List.replicate_succ, elemsFrom, validList, Bool.and_eq_true]
    exact ⟨h i (by omega) (by omega), ih (i + 1) (fun j h1 h2 => h j (by omega) (by omega))⟩

/-! ### all key types -/

theorem ordLaws_cmp_option (t : KT) (ih : OrdLaws (fun a => valid t a = true) (cmp t)) :
    OrdLaws (fun a => valid (.option t) a = true) (cmp (.option t)) := by
  have key : ∀ a, valid (.option t) a = true → (a.getD 0 0).toNat ≠ 0 →
      valid t (a.drop 1) = true := by
    intro a ha h0
    cases a with
    | nil => simp [valid] at ha
    | cons tag rest =>
      simp only [List.getD_cons_zero] at h0
      simp only [valid, h0, if_false, Bool.and_eq_true] at ha
      simpa using ha.2
  constructor
  · intro a ha
    simp only [cmp]
    split
    · rfl
    · exact ih.refl _ (key a ha ‹_›)
  · intro a b ha hb
    have := fun h1 h2 => ih.swap _ _ (key a ha h1) (key b hb h2)
    simp only [cmp]
    split <;> split <;> simp_all [Ordering.swap]
  · intro x y z hx hy hz
    have := fun h1 h2 h3 => ih.trans_le _ _ _ (key x hx h1) (key y hy h2) (key z hz h3)
    simp only [cmp]
    split <;> split <;> split <;> simp_all
  · intro x y z hx hy hz
    have := fun h1 h2 h3 => ih.trans_lt _ _ _ (key x hx h1) (key y hy h2) (key z hz h3)
    simp only [cmp]
    split <;> split <;> split <;> simp_all

theorem ordLaws_cmp_array (n : Nat) (t : KT) (ih : OrdLaws (fun a => valid t a = true) (cmp t)) :
    OrdLaws (fun a => valid (.array n t) a = true) (cmp (.array n t)) := by
  have hl := ordLaws_cmpList (List.replicate n t) (fun t' ht' => by
    rw [List.mem_replicate] at ht'; rw [ht'.2]; exact ih)
  cases hfw : fixedWidth t with
  | some w =>
    have e : cmp (.array n t) = fun a b => cmpList (List.replicate n t) (chunks w n a) (chunks w n b) := by
      funext a b; simp [cmp, hfw, cmpStride_eq]
    rw [e]
    refine hl.comap (chunks w n) _ (fun d hd => ?_)
    simp only [valid, hfw, Bool.and_eq_true] at hd
    rw [← validStride_eq]; exact hd.2
  | none =>
    have e : cmp (.array n t) = fun a b =>
        cmpList (List.replicate n t) (elemsFrom n a 0 n) (elemsFrom n b 0 n) := by
      funext a b
      simp only [cmp, hfw]
      exact cmpOffsets_eq t n a b 0 n
    rw [e]
    refine hl.comap (fun d => elemsFrom n d 0 n) _ (fun d hd => ?_)
    simp only [valid, hfw, Bool.and_eq_true] at hd
    have h2 : validOffsets t n d (startOf n d 0) 0 n = true := hd.2
    rw [validOffsets_iff] at h2
    exact validList_elemsFrom t n d 0 n (fun j h1 h2' => (h2.1 j h1 h2').2.2)

theorem ordLaws_cmp_tuple (ts : List KT)
    (ih : OrdLaws (fun xs => validList ts xs = true) (cmpList ts)) :
    OrdLaws (fun a => valid (.tuple ts) a = true) (cmp (.tuple ts)) := by
  have e : cmp (.tuple ts) = fun a b => cmpList ts (tupleElements (fixedWidthList ts) a)
      (tupleElements (fixedWidthList ts) b) := by
    funext a b; simp [cmp]
  rw [e]
  refine ih.comap (tupleElements (fixedWidthList ts)) _ (fun d hd => ?_)
  simp only [valid, Bool.and_eq_true] at hd
  exact hd.2

theorem ordLaws_cmp (t : KT) : OrdLaws (fun a => valid t a = true) (cmp t) := by
  induction t using KT.rec (motive_2 := fun ts =>
      OrdLaws (fun xs => validList ts xs = true) (cmpList ts)) with
  | unit => constructor <;> simp [cmp, Ordering.swap]
  | bool =>
    have e : cmp .bool = fun a b => compare (a.getD 0 0).toNat (b.getD 0 0).toNat := by
      funext a b; simp [cmp]
    rw [e]; exact ordLaws_natCompare.comap _ _ (fun _ _ => trivial)
  | char =>
    have e : cmp .char = fun a b => compare (leNat (a.take 3)) (leNat (b.take 3)) := by
      funext a b; simp [cmp]
    rw [e]; exact ordLaws_natCompare.comap _ _ (fun _ _ => trivial)
  | uint w =>
    have e : cmp (.uint w) = fun a b => compare (leNat a) (leNat b) := by
      funext a b; simp [cmp]
    rw [e]; exact ordLaws_natCompare.comap _ _ (fun _ _ => trivial)
  | sint w =>
    have e : cmp (.sint w) = fun a b => compare (leInt a) (leInt b) := by
      funext a b; simp [cmp]
    rw [e]; exact ordLaws_intCompare.comap _ _ (fun _ _ => trivial)
  | str =>
    have e : cmp .str = lexCmp := by funext a b; simp [cmp]
    rw [e]; exact ordLaws_lexCmp.comap id _ (fun _ _ => trivial)
  | bytes =>
    have e : cmp .bytes = lexCmp := by funext a b; simp [cmp]
    rw [e]; exact ordLaws_lexCmp.comap id _ (fun _ _ => trivial)
  | fixedBytes n =>
    have e : cmp (.fixedBytes n) = lexCmp := by funext a b; simp [cmp]
    rw [e]; exact ordLaws_lexCmp.comap id _ (fun _ _ => trivial)
  | option t ih => exact ordLaws_cmp_option t ih
  | array n t ih => exact ordLaws_cmp_array n t ih
  | tuple ts ih => exact ordLaws_cmp_tuple ts ih
  | nil => exact ordLaws_cmpList_nil
  | cons t ts iht ihts => exact ordLaws_cmpList_cons t ts iht ihts

end Redb.Key
