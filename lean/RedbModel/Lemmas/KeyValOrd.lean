import RedbModel.Lemmas.KeyVal
/-!
`vcmp t` is a genuine total order on the well-typed values of `t`: it answers `eq` exactly on
equal values (so together with `encoding_order` the encoder is an order embedding), and the
preorder laws transfer from `cmp` on the encodings.
-/
namespace Redb.Key

theorem lexCmp_eq_iff (a b : Bytes) : lexCmp a b = .eq ↔ a = b := by
  fun_induction lexCmp a b with
  | case1 => simp
  | case2 => simp
  | case3 => simp
  | case4 a as b bs h => simp; intro e; subst e; exact absurd h (UInt8.lt_irrefl _)
  | case5 a as b bs h1 h2 => simp; intro e; subst e; exact absurd h2 (UInt8.lt_irrefl _)
  | case6 a as b bs h1 h2 ih =>
    have : a = b := by
      rw [UInt8.lt_iff_toNat_lt] at h1 h2
      exact UInt8.toNat_inj.1 (by omega)
    simp [this, ih]

theorem lexBy_eq_iff {α : Type} (c : α → α → Ordering) (as bs : List α)
    (h : ∀ x ∈ as, ∀ y ∈ bs, (c x y = .eq ↔ x = y)) : lexBy c as bs = .eq ↔ as = bs := by
  induction as generalizing bs with
  | nil => cases bs <;> simp [lexBy]
  | cons a as ih =>
    cases bs with
    | nil => simp [lexBy]
    | cons b bs =>
      have h1 := h a (by simp) b (by simp)
      have h2 := ih bs (fun x hx y hy => h x (by simp [hx]) y (by simp [hy]))
      simp only [lexBy, List.cons.injEq]
      cases hc : c a b <;> simp_all

theorem vcmp_eq_iff (t : KT) (a b : Val) (ha : wellTyped t a = true) (hb : wellTyped t b = true) :
    vcmp t a b = .eq ↔ a = b := by
  induction t using KT.rec (motive_2 := fun ts => ∀ as bs, wellTypedList ts as = true →
      wellTypedList ts bs = true → (vcmpList ts as bs = .eq ↔ as = bs)) generalizing a b with
  | unit => rw [wt_unit ha, wt_unit hb]; simp [vcmp]
  | bool =>
    obtain ⟨x, rfl⟩ := wt_bool ha
    obtain ⟨y, rfl⟩ := wt_bool hb
    cases x <;> cases y <;> simp [vcmp] <;> decide
  | char =>
    obtain ⟨x, rfl, _⟩ := wt_char ha
    obtain ⟨y, rfl, _⟩ := wt_char hb
    simp [vcmp]
  | uint w =>
    obtain ⟨x, rfl, _⟩ := wt_uint ha
    obtain ⟨y, rfl, _⟩ := wt_uint hb
    simp [vcmp]
  | sint w =>
    obtain ⟨x, rfl, _⟩ := wt_sint ha
    obtain ⟨y, rfl, _⟩ := wt_sint hb
    simp [vcmp]
  | str =>
    obtain ⟨x, rfl, _⟩ := wt_str ha
    obtain ⟨y, rfl, _⟩ := wt_str hb
    simp only [vcmp, Val.str.injEq]
    exact lexBy_eq_iff _ x y (fun p _ q _ => by simp)
  | bytes =>
    obtain ⟨x, rfl⟩ := wt_bytes ha
    obtain ⟨y, rfl⟩ := wt_bytes hb
    simp [vcmp, lexCmp_eq_iff]
  | fixedBytes n =>
    obtain ⟨x, rfl, _⟩ := wt_fixedBytes ha
    obtain ⟨y, rfl, _⟩ := wt_fixedBytes hb
    simp [vcmp, lexCmp_eq_iff]
  | option t ih =>
    rcases wt_option ha with rfl | ⟨x, rfl, hx⟩ <;> rcases wt_option hb with rfl | ⟨y, rfl, hy⟩
    · simp [vcmp]
    · simp [vcmp]
    · simp [vcmp]
    · simp [vcmp, ih x y hx hy]
  | array n t ih =>
    obtain ⟨xs, rfl, _, hxa, _⟩ := wt_array ha
    obtain ⟨ys, rfl, _, hya, _⟩ := wt_array hb
    simp only [vcmp, Val.arr.injEq]
    exact lexBy_eq_iff _ xs ys (fun x hx y hy => ih x y (hxa x hx) (hya y hy))
  | tuple ts ih =>
    obtain ⟨xs, rfl, hx, _⟩ := wt_tuple ha
    obtain ⟨ys, rfl, hy, _⟩ := wt_tuple hb
    simp only [vcmp, Val.tup.injEq]
    exact ih xs ys hx hy
  | nil =>
    rename_i as bs ha hb
    rw [wtl_nil_elim ha, wtl_nil_elim hb]; simp [vcmpList]
  | cons t ts iht ihts =>
    rename_i as bs ha hb
    obtain ⟨x, xs, rfl, hx, hxs⟩ := wtl_cons_elim ha
    obtain ⟨y, ys, rfl, hy, hys⟩ := wtl_cons_elim hb
    have h1 := iht x y hx hy
    have h2 := ihts xs ys hxs hys
    simp only [vcmpList, List.cons.injEq]
    cases hc : vcmp t x y <;> simp_all

end Redb.Key
