import RedbModel.Model.Buddy
/-!
Round trip of the serialization functions of the buddy allocator model.
-/
namespace Redb.Buddy

/-! ### u32 little endian -/

@[simp] theorem length_u32le (n : Nat) : (u32le n).length = 4 := rfl

theorem rdU32_cons (x : UInt8) (d : List UInt8) (off : Nat) :
    rdU32 (x :: d) (off + 1) = rdU32 d off := by
  simp [rdU32, List.getD_eq_getElem?_getD]

theorem rdU32_append_left (pre d : List UInt8) (off : Nat) :
    rdU32 (pre ++ d) (pre.length + off) = rdU32 d off := by
  induction pre with
  | nil => simp
  | cons x pre ih =>
    have : (x :: pre).length + off = (pre.length + off) + 1 := by simp; omega
    rw [this, List.cons_append, rdU32_cons, ih]

theorem rdU32_u32le_append (n : Nat) (post : List UInt8) :
    rdU32 (u32le n ++ post) 0 = n % 2 ^ 32 := by
  simp [rdU32, u32le]
  omega

/-- reading back a `u32le` at its offset gives the value modulo `2^32` -/
theorem rdU32_mid_mod (pre post : List UInt8) (n : Nat) :
    rdU32 (pre ++ u32le n ++ post) pre.length = n % 2 ^ 32 := by
  have := rdU32_append_left pre (u32le n ++ post) 0
  simp only [Nat.add_zero, ← List.append_assoc] at this
  rw [this, rdU32_u32le_append]

theorem rdU32_mid (pre post : List UInt8) (n : Nat) (hn : n < 2 ^ 32) :
    rdU32 (pre ++ u32le n ++ post) pre.length = n := by
  rw [rdU32_mid_mod, Nat.mod_eq_of_lt hn]

/-! ### offset tables -/

/-- the end offsets of consecutive chunks `ds` laid out from offset `s` -/
def offs (s : Nat) : List (List UInt8) → List Nat
  | [] => []
  | d :: ds => (s + d.length) :: offs (s + d.length) ds

@[simp] theorem length_offs (s : Nat) (ds : List (List UInt8)) : (offs s ds).length = ds.length := by
  induction ds generalizing s with
  | nil => rfl
  | cons d ds ih => simp [offs, ih]

theorem foldl_ends (ds : List (List UInt8)) (s : Nat) (acc : List Nat) :
    ds.foldl (fun (s : Nat × List Nat) d => (s.1 + d.length, s.2 ++ [s.1 + d.length])) (s, acc)
      = (s + ds.flatten.length, acc ++ offs s ds) := by
  induction ds generalizing s acc with
  | nil => simp [offs]
  | cons d ds ih => simp [offs, ih, Nat.add_assoc]

theorem getElem_offs (s : Nat) (ds : List (List UInt8)) (k : Nat) (hk : k < ds.length) :
    (offs s ds)[k]'(by simpa using hk) = s + (ds.take (k + 1)).flatten.length := by
  induction ds generalizing s k with
  | nil => simp at hk
  | cons d ds ih =>
    cases k with
    | zero => simp [offs]
    | succ k =>
      simp only [offs, List.getElem_cons_succ]
      rw [ih]
      · simp [Nat.add_assoc]
      · simpa using hk

theorem length_take_flatten_le (ds : List (List UInt8)) (k : Nat) :
    (ds.take k).flatten.length ≤ ds.flatten.length := by
  have h : ds.flatten = (ds.take k).flatten ++ (ds.drop k).flatten := by
    rw [← List.flatten_append, List.take_append_drop]
  rw [h, List.length_append]
  omega

/-- chunk `k` of `pre ++ ds.flatten` -/
theorem chunk_eq (pre : List UInt8) (ds : List (List UInt8)) (post : List UInt8) (k : Nat)
    (hk : k < ds.length) :
    ((pre ++ ds.flatten ++ post).take (pre.length + (ds.take (k + 1)).flatten.length)).drop
      (pre.length + (ds.take k).flatten.length) = ds[k] := by
  induction ds generalizing pre k with
  | nil => simp at hk
  | cons d ds ih =>
    cases k with
    | zero => simp [List.take_append]
    | succ k =>
      have := ih (pre ++ d) k (by simpa using hk)
      simpa [Nat.add_assoc] using this

/-- entry `k` of a table of `u32le` values placed after `hdr` -/
theorem rdU32_table (hdr : List UInt8) (es : List Nat) (post : List UInt8) (k : Nat)
    (hk : k < es.length) (hlt : es[k] < 2 ^ 32) :
    rdU32 (hdr ++ (es.map u32le).flatten ++ post) (hdr.length + 4 * k) = es[k] := by
  induction es generalizing hdr k with
  | nil => simp at hk
  | cons e es ih =>
    cases k with
    | zero =>
      have := rdU32_mid hdr ((es.map u32le).flatten ++ post) e (by simpa using hlt)
      simpa using this
    | succ k =>
      have := ih (hdr ++ u32le e) k (by simpa using hk) (by simpa using hlt)
      simpa [Nat.add_assoc, Nat.mul_add, Nat.add_comm] using this


theorem byteOfBits_eq (bs : Bits) :
    byteOfBits bs = UInt8.ofNat
      ((if bs.getD 0 true then 1 else 0) + (if bs.getD 1 true then 2 else 0)
      + (if bs.getD 2 true then 4 else 0) + (if bs.getD 3 true then 8 else 0)
      + (if bs.getD 4 true then 16 else 0) + (if bs.getD 5 true then 32 else 0)
      + (if bs.getD 6 true then 64 else 0) + (if bs.getD 7 true then 128 else 0)) := by
  simp [byteOfBits, List.range, List.range.loop]

theorem bits_aux : ∀ (b0 b1 b2 b3 b4 b5 b6 b7 : Bool) (i : Fin 8),
    (UInt8.ofNat
      ((if b0 then 1 else 0) + (if b1 then 2 else 0)
      + (if b2 then 4 else 0) + (if b3 then 8 else 0)
      + (if b4 then 16 else 0) + (if b5 then 32 else 0)
      + (if b6 then 64 else 0) + (if b7 then 128 else 0))).toNat.testBit i.val
      = [b0,b1,b2,b3,b4,b5,b6,b7].getD i.val true := by
  decide

theorem testBit_byteOfBits (bs : Bits) (i : Nat) (hi : i < 8) :
    (byteOfBits bs).toNat.testBit i = bs.getD i true := by
  rw [byteOfBits_eq]
  have := bits_aux (bs.getD 0 true) (bs.getD 1 true) (bs.getD 2 true) (bs.getD 3 true)
    (bs.getD 4 true) (bs.getD 5 true) (bs.getD 6 true) (bs.getD 7 true) ⟨i, hi⟩
  rw [this]
  have h : i = 0 ∨ i = 1 ∨ i = 2 ∨ i = 3 ∨ i = 4 ∨ i = 5 ∨ i = 6 ∨ i = 7 := by omega
  rcases h with h | h | h | h | h | h | h | h <;> subst h <;> rfl

theorem length_levelWords (bs : Bits) : (levelWords bs).length = (bs.length + 63) / 64 * 8 := by
  simp [levelWords]

theorem bitsOfBytes_levelWords (leaf : Bits) (post : List UInt8) :
    bitsOfBytes (levelWords leaf ++ post) leaf.length = leaf := by
  apply List.ext_getElem
  · simp [bitsOfBytes]
  · intro i h1 h2
    have hlt : i / 8 < (leaf.length + 63) / 64 * 8 := by omega
    simp only [bitsOfBytes, List.getElem_map, List.getElem_range]
    rw [List.getD_eq_getElem?_getD, List.getElem?_append_left (by rw [length_levelWords]; exact hlt)]
    simp only [levelWords, List.getElem?_map, List.getElem?_range hlt, Option.map_some,
      Option.getD_some]
    rw [testBit_byteOfBits _ _ (by omega)]
    simp only [List.getD_eq_getElem?_getD, List.getElem?_drop]
    have : 8 * (i / 8) + i % 8 = i := by omega
    rw [this, List.getElem?_eq_getElem h2]
    rfl

/-! ### one bitmap -/

theorem levelsOf_go_succ (n : Nat) (cur : Bits) (acc : List Bits) :
    ∃ init : List Bits, levelsOf.go (n + 1) cur acc = init ++ cur :: acc ∧ init.length = n := by
  induction n generalizing cur acc with
  | zero => exact ⟨[], by simp [levelsOf.go]⟩
  | succ m ih =>
    obtain ⟨init, h1, h2⟩ := ih (summary cur) (cur :: acc)
    refine ⟨init ++ [summary cur], ?_, by simp [h2]⟩
    rw [levelsOf.go, h1]
    simp

theorem levelsOf_succ (leaf : Bits) (n : Nat) :
    ∃ init : List Bits, levelsOf leaf (n + 1) = init ++ [leaf] ∧ init.length = n :=
  levelsOf_go_succ n leaf []

/-- reading the leaf level out of the `BtreeBitmap` layout, for arbitrary upper levels `pre` -/
theorem bitmapLeafOfBytes_layout_mod (pre : List (List UInt8)) (leaf : Bits) (d : List UInt8)
    (hd : d = u32le (pre.length + 1)
      ++ ((offs (4 + 4 * (pre.length + 1)) (pre ++ [u32le leaf.length ++ levelWords leaf])).map
          u32le).flatten
      ++ (pre ++ [u32le leaf.length ++ levelWords leaf]).flatten)
    (hsz : d.length < 2 ^ 32) :
    bitmapLeafOfBytes d = bitsOfBytes (levelWords leaf) (leaf.length % 2 ^ 32) := by
  have hlenT : ∀ (es : List Nat), ((es.map u32le).flatten).length = 4 * es.length := by
    intro es; induction es with
    | nil => rfl
    | cons e es ih => simp [ih]; omega
  have hdlen : d.length = 4 + 4 * (pre.length + 1) + pre.flatten.length + 4
      + (levelWords leaf).length := by
    rw [hd]; simp [hlenT]; omega
  -- the height
  have hH : rdU32 d 0 = pre.length + 1 := by
    have := rdU32_mid [] (((offs (4 + 4 * (pre.length + 1))
      (pre ++ [u32le leaf.length ++ levelWords leaf])).map u32le).flatten
      ++ (pre ++ [u32le leaf.length ++ levelWords leaf]).flatten) (pre.length + 1) (by omega)
    rw [hd]
    simpa using this
  -- the start of the leaf chunk
  have hD : (if pre.length + 1 = 1 then 4 + 4 * (pre.length + 1)
      else rdU32 d (4 + 4 * (pre.length + 1 - 2)))
      = 4 + 4 * (pre.length + 1) + pre.flatten.length := by
    split
    · next h =>
      have : pre = [] := List.eq_nil_of_length_eq_zero (by omega)
      subst this; simp
    · next h =>
      have hk : pre.length + 1 - 2 < (offs (4 + 4 * (pre.length + 1))
          (pre ++ [u32le leaf.length ++ levelWords leaf])).length := by simp; omega
      have hval : (offs (4 + 4 * (pre.length + 1))
          (pre ++ [u32le leaf.length ++ levelWords leaf]))[pre.length + 1 - 2]
          = 4 + 4 * (pre.length + 1) + pre.flatten.length := by
        rw [getElem_offs _ _ _ (by simp; omega)]
        have : pre.length + 1 - 2 + 1 = pre.length := by omega
        rw [this, List.take_left]
      have := rdU32_table (u32le (pre.length + 1)) _
        (pre ++ [u32le leaf.length ++ levelWords leaf]).flatten _ hk (by rw [hval]; omega)
      rw [hd, hval] at *
      simpa using this
  -- split `d` at the leaf chunk
  have hsplit : d = (u32le (pre.length + 1)
      ++ ((offs (4 + 4 * (pre.length + 1)) (pre ++ [u32le leaf.length ++ levelWords leaf])).map
          u32le).flatten ++ pre.flatten) ++ u32le leaf.length ++ levelWords leaf := by
    rw [hd]; simp
  have hpl : (u32le (pre.length + 1)
      ++ ((offs (4 + 4 * (pre.length + 1)) (pre ++ [u32le leaf.length ++ levelWords leaf])).map
          u32le).flatten ++ pre.flatten).length
      = 4 + 4 * (pre.length + 1) + pre.flatten.length := by
    simp [hlenT]; omega
  have hL : rdU32 d (4 + 4 * (pre.length + 1) + pre.flatten.length) = leaf.length % 2 ^ 32 := by
    have := rdU32_mid_mod (u32le (pre.length + 1)
      ++ ((offs (4 + 4 * (pre.length + 1)) (pre ++ [u32le leaf.length ++ levelWords leaf])).map
          u32le).flatten ++ pre.flatten) (levelWords leaf) leaf.length
    rw [hpl] at this
    rw [hsplit]; exact this
  have hdrop : d.drop (4 + 4 * (pre.length + 1) + pre.flatten.length + 4) = levelWords leaf := by
    rw [hsplit]
    apply List.drop_left'
    rw [List.length_append, hpl, length_u32le]
  unfold bitmapLeafOfBytes
  simp only [hH]
  rw [if_neg (by omega), hD, hL, hdrop]

theorem bitmapLeafOfBytes_layout (pre : List (List UInt8)) (leaf : Bits) (d : List UInt8)
    (hd : d = u32le (pre.length + 1)
      ++ ((offs (4 + 4 * (pre.length + 1)) (pre ++ [u32le leaf.length ++ levelWords leaf])).map
          u32le).flatten
      ++ (pre ++ [u32le leaf.length ++ levelWords leaf]).flatten)
    (hsz : d.length < 2 ^ 32) (hleaf : leaf.length < 2 ^ 32) :
    bitmapLeafOfBytes d = leaf := by
  rw [bitmapLeafOfBytes_layout_mod pre leaf d hd hsz, Nat.mod_eq_of_lt hleaf]
  simpa using bitsOfBytes_levelWords leaf []

theorem bitmapToBytes_eq (leaf : Bits) (height : Nat) :
    bitmapToBytes leaf height =
      u32le (levelsOf leaf height).length
      ++ ((offs (4 + 4 * (levelsOf leaf height).length)
            ((levelsOf leaf height).map (fun l => u32le l.length ++ levelWords l))).map
          u32le).flatten
      ++ ((levelsOf leaf height).map (fun l => u32le l.length ++ levelWords l)).flatten := by
  simp [bitmapToBytes, foldl_ends]

/-- the leaf level survives `BtreeBitmap::to_vec` / `from_bytes` -/
theorem bitmapLeafOfBytes_bitmapToBytes (leaf : Bits) (height : Nat) (hh : 1 ≤ height)
    (hleaf : leaf.length < 2 ^ 32) (hsz : (bitmapToBytes leaf height).length < 2 ^ 32) :
    bitmapLeafOfBytes (bitmapToBytes leaf height) = leaf := by
  obtain ⟨n, rfl⟩ : ∃ n, height = n + 1 := ⟨height - 1, by omega⟩
  obtain ⟨init, h1, h2⟩ := levelsOf_succ leaf n
  apply bitmapLeafOfBytes_layout (init.map (fun l => u32le l.length ++ levelWords l)) leaf _ _
    hsz hleaf
  rw [bitmapToBytes_eq, h1]
  simp [h2]

/-! ### the whole allocator -/

theorem le_heightForCapacity_go (fuel c h : Nat) : h ≤ heightForCapacity.go fuel c h := by
  induction fuel generalizing c h with
  | zero => simp [heightForCapacity.go]
  | succ fuel ih =>
    rw [heightForCapacity.go]
    split
    · exact Nat.le_trans (Nat.le_succ h) (ih _ _)
    · exact Nat.le_refl h

theorem one_le_heightForCapacity (c : Nat) : 1 ≤ heightForCapacity c :=
  le_heightForCapacity_go 8 c 1

theorem toBytes_eq (b : Buddy) :
    Buddy.toBytes b =
      ([UInt8.ofNat b.maxOrder, 0, 0, 0] ++ u32le b.len)
      ++ ((offs (8 + 4 * (b.maxOrder + 1))
            ((List.range (b.maxOrder + 1)).map (fun o =>
              bitmapToBytes (b.free.getD o []) (heightForCapacity (b.cap >>> o))))).map
          u32le).flatten
      ++ ((List.range (b.maxOrder + 1)).map (fun o =>
              bitmapToBytes (b.free.getD o []) (heightForCapacity (b.cap >>> o)))).flatten := by
  simp [Buddy.toBytes, foldl_ends]

theorem length_table (es : List Nat) : ((es.map u32le).flatten).length = 4 * es.length := by
  induction es with
  | nil => rfl
  | cons e es ih => simp [ih]; omega

/-- generic reader for the `BuddyAllocator` layout -/
theorem fromBytes_layout (mo len cap : Nat) (ser : List (List UInt8)) (d : List UInt8)
    (hd : d = ([UInt8.ofNat mo, 0, 0, 0] ++ u32le len)
      ++ ((offs (8 + 4 * (mo + 1)) ser).map u32le).flatten ++ ser.flatten)
    (hser : ser.length = mo + 1) (hmo : mo < 256) (hlen : len < 2 ^ 32)
    (hsz : d.length < 2 ^ 32) :
    Buddy.fromBytes d cap =
      { free := (List.range (mo + 1)).map (fun o => bitmapLeafOfBytes (ser.getD o []))
        len := len, maxOrder := mo, cap := cap } := by
  have hdlen : d.length = 8 + 4 * (mo + 1) + ser.flatten.length := by
    rw [hd]; simp only [List.length_append, length_table, length_offs, hser, length_u32le,
      List.length_cons, List.length_nil]
  have h0 : (d.getD 0 0).toNat = mo := by
    rw [hd]; simp; omega
  have h4 : rdU32 d 4 = len := by
    have := rdU32_mid [UInt8.ofNat mo, 0, 0, 0]
      (((offs (8 + 4 * (mo + 1)) ser).map u32le).flatten ++ ser.flatten) len hlen
    rw [hd]; simpa using this
  have hE : ∀ o, o < mo + 1 →
      rdU32 d (8 + 4 * o) = 8 + 4 * (mo + 1) + (ser.take (o + 1)).flatten.length := by
    intro o ho
    have hk : o < (offs (8 + 4 * (mo + 1)) ser).length := by simp; omega
    have hval : (offs (8 + 4 * (mo + 1)) ser)[o]
        = 8 + 4 * (mo + 1) + (ser.take (o + 1)).flatten.length :=
      getElem_offs _ _ _ (by omega)
    have hle := length_take_flatten_le ser (o + 1)
    have := rdU32_table ([UInt8.ofNat mo, 0, 0, 0] ++ u32le len) _ ser.flatten o hk
      (by rw [hval]; omega)
    rw [hval] at this
    rw [hd]; simpa using this
  have hS : ∀ o, o < mo + 1 →
      (if o = 0 then 8 + 4 * (mo + 1) else rdU32 d (8 + 4 * (o - 1)))
        = 8 + 4 * (mo + 1) + (ser.take o).flatten.length := by
    intro o ho
    split
    · next h => subst h; simp
    · next h =>
      rw [hE (o - 1) (by omega)]
      have : o - 1 + 1 = o := by omega
      rw [this]
  have hC : ∀ o, (ho : o < mo + 1) →
      (d.take (8 + 4 * (mo + 1) + (ser.take (o + 1)).flatten.length)).drop
        (8 + 4 * (mo + 1) + (ser.take o).flatten.length) = ser.getD o [] := by
    intro o ho
    have hpl : (([UInt8.ofNat mo, 0, 0, 0] ++ u32le len)
        ++ ((offs (8 + 4 * (mo + 1)) ser).map u32le).flatten).length = 8 + 4 * (mo + 1) := by
      simp only [List.length_append, length_table, length_offs, hser, length_u32le,
        List.length_cons, List.length_nil]
    have := chunk_eq (([UInt8.ofNat mo, 0, 0, 0] ++ u32le len)
        ++ ((offs (8 + 4 * (mo + 1)) ser).map u32le).flatten) ser [] o (by omega)
    rw [hpl, List.append_nil, ← hd] at this
    rw [this, List.getD_eq_getElem?_getD, List.getElem?_eq_getElem (by omega)]
    rfl
  unfold Buddy.fromBytes
  simp only [h0, h4]
  congr 1
  apply List.map_congr_left
  intro o ho
  have ho' : o < mo + 1 := by simpa using ho
  rw [hS o ho', hE o ho', hC o ho']

theorem length_le_length_flatten_of_mem (l : List UInt8) (L : List (List UInt8)) (h : l ∈ L) :
    l.length ≤ L.flatten.length := by
  induction L with
  | nil => simp at h
  | cons x L ih =>
    rcases List.mem_cons.1 h with h | h
    · subst h; simp
    · have := ih h; rw [List.flatten_cons, List.length_append]; omega

theorem length_bitmapToBytes_le_toBytes (b : Buddy) (o : Nat) (ho : o < b.maxOrder + 1) :
    (bitmapToBytes (b.free.getD o []) (heightForCapacity (b.cap >>> o))).length
      ≤ (Buddy.toBytes b).length := by
  have hmem : bitmapToBytes (b.free.getD o []) (heightForCapacity (b.cap >>> o)) ∈
      (List.range (b.maxOrder + 1)).map (fun o =>
        bitmapToBytes (b.free.getD o []) (heightForCapacity (b.cap >>> o))) :=
    List.mem_map.2 ⟨o, by simpa using ho, rfl⟩
  have := length_le_length_flatten_of_mem _ _ hmem
  rw [toBytes_eq, List.length_append]
  omega

/-- Round trip `BuddyAllocator::to_vec` / `from_bytes`.  Compared to the naive statement there
is one more hypothesis, `hbits`: every per-order bitmap has fewer than `2^32` bits (its length is
stored as a `u32`); `hsz` alone only bounds the bit count by `8 * 2^32`. -/
theorem fromBytes_toBytes_partial (b : Buddy)
    (hshape : b.free.length = b.maxOrder + 1)
    (hmo : b.maxOrder < 256)
    (hlen : b.len < 2 ^ 32)
    (hbits : ∀ bs ∈ b.free, bs.length < 2 ^ 32)
    (hsz : (Buddy.toBytes b).length < 2 ^ 32) :
    Buddy.fromBytes (Buddy.toBytes b) b.cap = b := by
  rw [fromBytes_layout b.maxOrder b.len b.cap _ _ (toBytes_eq b) (by simp) hmo hlen hsz]
  have hfree : (List.range (b.maxOrder + 1)).map (fun o => bitmapLeafOfBytes
      (((List.range (b.maxOrder + 1)).map (fun o =>
        bitmapToBytes (b.free.getD o []) (heightForCapacity (b.cap >>> o)))).getD o []))
      = b.free := by
    apply List.ext_getElem
    · simp [hshape]
    · intro o h1 h2
      have ho : o < b.maxOrder + 1 := by simpa using h1
      simp only [List.getElem_map, List.getElem_range, List.getD_eq_getElem?_getD,
        List.getElem?_map, List.getElem?_range ho, Option.map_some, Option.getD_some]
      have hle := length_bitmapToBytes_le_toBytes b o ho
      simp only [List.getD_eq_getElem?_getD, List.getElem?_eq_getElem h2, Option.getD_some] at hle
      rw [List.getElem?_eq_getElem h2, Option.getD_some]
      exact bitmapLeafOfBytes_bitmapToBytes _ _ (one_le_heightForCapacity _)
        (hbits _ (List.getElem_mem h2)) (by omega)
  rw [hfree]

/-- the same, with the `lens` clause of the allocator invariant instead of `hbits` -/
theorem fromBytes_toBytes_of_lens (b : Buddy)
    (hshape : b.free.length = b.maxOrder + 1)
    (hmo : b.maxOrder < 256)
    (hlen : b.len < 2 ^ 32)
    (hlens : ∀ o, o ≤ b.maxOrder → lenAt b.free o = b.len / 2 ^ o)
    (hsz : (Buddy.toBytes b).length < 2 ^ 32) :
    Buddy.fromBytes (Buddy.toBytes b) b.cap = b := by
  apply fromBytes_toBytes_partial b hshape hmo hlen _ hsz
  intro bs hbs
  obtain ⟨o, ho, rfl⟩ := List.getElem_of_mem hbs
  have := hlens o (by omega)
  simp only [lenAt, List.getD_eq_getElem?_getD, List.getElem?_eq_getElem ho,
    Option.getD_some] at this
  rw [this]
  exact Nat.lt_of_le_of_lt (Nat.div_le_self _ _) hlen

/-! ### why `hbits` is needed

A one-order allocator whose only bitmap has exactly `2^32` bits serializes to `12 + 12 + 2^29`
bytes, but the bit count is written as `2^32 % 2^32 = 0`, so the bitmap reads back empty. -/

theorem fromBytes_toBytes_counterexample (leaf : Bits) (hl : leaf.length = 2 ^ 32) :
    let b : Buddy := { free := [leaf], len := 0, maxOrder := 0, cap := 1 }
    b.free.length = b.maxOrder + 1 ∧ b.maxOrder < 256 ∧ b.len < 2 ^ 32 ∧
      (Buddy.toBytes b).length < 2 ^ 32 ∧ Buddy.fromBytes (Buddy.toBytes b) b.cap ≠ b := by
  intro b
  have hh : heightForCapacity (1 >>> 0) = 1 := by decide
  have hbm : bitmapToBytes leaf 1 = u32le 1 ++ ((offs 8 [u32le leaf.length ++ levelWords leaf]).map
      u32le).flatten ++ [u32le leaf.length ++ levelWords leaf].flatten := by
    rw [bitmapToBytes_eq]; rfl
  have hbl : (bitmapToBytes leaf 1).length = 12 + 2 ^ 29 := by
    rw [hbm]
    simp only [List.length_append, length_table, length_offs, length_u32le, List.flatten_cons,
      List.flatten_nil, length_levelWords, hl, List.length_cons, List.length_nil]
  have hser : (List.range (b.maxOrder + 1)).map (fun o =>
      bitmapToBytes (b.free.getD o []) (heightForCapacity (b.cap >>> o))) = [bitmapToBytes leaf 1] := by
    show [bitmapToBytes leaf (heightForCapacity (1 >>> 0))] = _
    rw [hh]
  have hsz : (Buddy.toBytes b).length < 2 ^ 32 := by
    rw [toBytes_eq, hser]
    simp only [List.length_append, length_table, length_offs, length_u32le, List.flatten_cons,
      List.flatten_nil, hbl, List.length_cons, List.length_nil]
    decide
  refine ⟨rfl, (show (0 : Nat) < 256 by decide), (show (0 : Nat) < 2 ^ 32 by decide), hsz, ?_⟩
  have hrt := fromBytes_layout b.maxOrder b.len b.cap _ _ (toBytes_eq b) (by simp)
    (show (0 : Nat) < 256 by decide) (show (0 : Nat) < 2 ^ 32 by decide) hsz
  rw [hrt, hser]
  have hleaf : bitmapLeafOfBytes (bitmapToBytes leaf 1) = [] := by
    rw [bitmapLeafOfBytes_layout_mod [] leaf _ hbm (by rw [hbl]; decide), hl]
    rfl
  intro heq
  have h2 : [bitmapLeafOfBytes (bitmapToBytes leaf 1)] = [leaf] := congrArg Buddy.free heq
  rw [hleaf] at h2
  have h3 : leaf = [] := by simpa using h2.symm
  rw [h3] at hl
  exact absurd hl (by decide)

/-- `fromBytes_toBytes` without `hbits` is false. -/
theorem not_fromBytes_toBytes_without_hbits :
    ¬ ∀ b : Buddy, b.free.length = b.maxOrder + 1 → b.maxOrder < 256 → b.len < 2 ^ 32 →
      (Buddy.toBytes b).length < 2 ^ 32 → Buddy.fromBytes (Buddy.toBytes b) b.cap = b := by
  intro h
  obtain ⟨h1, h2, h3, h4, h5⟩ :=
    fromBytes_toBytes_counterexample (List.replicate (2 ^ 32) true) List.length_replicate
  exact h5 (h _ h1 h2 h3 h4)
end Redb.Buddy
