import RedbModel.Model.Catalog
/-!
Lemmas about the catalog model (`Model/Catalog.lean`): the name order is a strict total order,
the sorted association list is a finite map, and the invariants of the transaction state.
-/
namespace Redb.Catalog

/-! ### The byte-wise name order -/

theorem cmpName_refl (a : Name) : cmpName a a = .eq := by
  induction a with
  | nil => rfl
  | cons x xs ih => simp [cmpName, ih]

theorem cmpName_eq_iff (a b : Name) : cmpName a b = .eq ↔ a = b := by
  induction a generalizing b with
  | nil => cases b <;> simp [cmpName]
  | cons x xs ih =>
    cases b with
    | nil => simp [cmpName]
    | cons y ys =>
      simp only [cmpName]
      by_cases h1 : x.toNat < y.toNat
      · simp [h1]
        intro h; subst h; omega
      · by_cases h2 : y.toNat < x.toNat
        · simp [h1, h2]
          intro h; subst h; omega
        · have : x = y := UInt8.toNat_inj.mp (by omega)
          simp [ih, this]

theorem cmpName_gt_iff (a b : Name) : cmpName a b = .gt ↔ cmpName b a = .lt := by
  induction a generalizing b with
  | nil => cases b <;> simp [cmpName]
  | cons x xs ih =>
    cases b with
    | nil => simp [cmpName]
    | cons y ys =>
      simp only [cmpName]
      by_cases h1 : x.toNat < y.toNat
      · have h2 : ¬ y.toNat < x.toNat := by omega
        simp [h1, h2]
      · by_cases h2 : y.toNat < x.toNat
        · simp [h1, h2]
        · simp [h1, h2, ih]

theorem cmpName_lt_trans {a b c : Name} (h1 : cmpName a b = .lt) (h2 : cmpName b c = .lt) :
    cmpName a c = .lt := by
  induction a generalizing b c with
  | nil =>
    cases c with
    | nil => cases b <;> simp [cmpName] at h1 h2
    | cons z zs => simp [cmpName]
  | cons x xs ih =>
    cases b with
    | nil => simp [cmpName] at h1
    | cons y ys =>
      cases c with
      | nil => simp [cmpName] at h2
      | cons z zs =>
        simp only [cmpName] at h1 h2 ⊢
        by_cases hxy : x.toNat < y.toNat
        · by_cases hyz : y.toNat < z.toNat
          · have : x.toNat < z.toNat := by omega
            simp [this]
          · by_cases hzy : z.toNat < y.toNat
            · simp [hyz, hzy] at h2
            · have : x.toNat < z.toNat := by omega
              simp [this]
        · by_cases hyx : y.toNat < x.toNat
          · simp [hxy, hyx] at h1
          · simp only [hxy, hyx, if_false] at h1
            by_cases hyz : y.toNat < z.toNat
            · have : x.toNat < z.toNat := by omega
              simp [this]
            · by_cases hzy : z.toNat < y.toNat
              · simp [hyz, hzy] at h2
              · simp only [hyz, hzy, if_false] at h2
                have e1 : ¬ x.toNat < z.toNat := by omega
                have e2 : ¬ z.toNat < x.toNat := by omega
                simp only [e1, e2, if_false]
                exact ih h1 h2

theorem cmpName_lt_irrefl (a : Name) : cmpName a a ≠ .lt := by simp [cmpName_refl]

theorem cmpName_lt_asymm {a b : Name} (h : cmpName a b = .lt) : cmpName b a ≠ .lt := by
  intro h'
  have := cmpName_lt_trans h h'
  simp [cmpName_refl] at this

theorem cmpName_ne_of_lt {a b : Name} (h : cmpName a b = .lt) : a ≠ b := by
  intro e; subst e; simp [cmpName_refl] at h

theorem cmpName_ne_of_gt {a b : Name} (h : cmpName a b = .gt) : a ≠ b := by
  intro e; subst e; simp [cmpName_refl] at h

/-- trichotomy -/
theorem cmpName_total (a b : Name) : cmpName a b = .lt ∨ a = b ∨ cmpName b a = .lt := by
  cases h : cmpName a b with
  | lt => exact .inl rfl
  | eq => exact .inr (.inl ((cmpName_eq_iff a b).1 h))
  | gt => exact .inr (.inr ((cmpName_gt_iff a b).1 h))

/-! ### The sorted association list as a finite map -/

/-- names strictly increasing (hence unique) -/
def Sorted (c : Catalog) : Prop := c.Pairwise (fun x y => cmpName x.1 y.1 = .lt)

theorem sorted_nil : Sorted [] := List.Pairwise.nil

theorem sorted_cons {e : Name × TableInfo} {c : Catalog} :
    Sorted (e :: c) ↔ (∀ x ∈ c, cmpName e.1 x.1 = .lt) ∧ Sorted c := List.pairwise_cons

theorem lookup_none_of_all_gt (c : Catalog) (n : Name)
    (h : ∀ x ∈ c, cmpName n x.1 = .lt) : lookup c n = none := by
  cases c with
  | nil => rfl
  | cons e rest =>
    obtain ⟨k, v⟩ := e
    have := h (k, v) (by simp)
    simp only at this
    simp [lookup, this]

theorem lookup_eq_some_iff_mem (c : Catalog) (hs : Sorted c) (n : Name) (i : TableInfo) :
    lookup c n = some i ↔ (n, i) ∈ c := by
  induction c with
  | nil => simp [lookup]
  | cons e rest ih =>
    obtain ⟨k, v⟩ := e
    have ⟨hk, hr⟩ := sorted_cons.1 hs
    simp only [lookup]
    cases h : cmpName n k with
    | lt =>
      simp only [List.mem_cons, Prod.mk.injEq]
      constructor
      · intro h'; cases h'
      · rintro (⟨e1, _⟩ | hm)
        · subst e1; simp [cmpName_refl] at h
        · exact absurd (hk _ hm) (cmpName_lt_asymm h)
    | eq =>
      have e := (cmpName_eq_iff n k).1 h
      subst e
      simp only [List.mem_cons, Prod.mk.injEq, true_and, Option.some.injEq]
      constructor
      · intro h'; exact .inl h'.symm
      · rintro (h' | hm)
        · exact h'.symm
        · exact absurd (hk _ hm) (cmpName_lt_irrefl n)
    | gt =>
      simp only [List.mem_cons, Prod.mk.injEq]
      rw [ih hr]
      constructor
      · intro h'; exact .inr h'
      · rintro (⟨e1, _⟩ | hm)
        · subst e1; simp [cmpName_refl] at h
        · exact hm

theorem lookup_insert (c : Catalog) (n m : Name) (i : TableInfo) :
    lookup (insert c n i) m = if m = n then some i else lookup c m := by
  induction c with
  | nil =>
    simp only [insert, lookup]
    cases h : cmpName m n with
    | lt => simp [cmpName_ne_of_lt h]
    | eq => simp [(cmpName_eq_iff m n).1 h]
    | gt => simp [cmpName_ne_of_gt h]
  | cons e rest ih =>
    obtain ⟨k, v⟩ := e
    simp only [insert]
    cases hnk : cmpName n k with
    | lt =>
      simp only [lookup]
      cases hmn : cmpName m n with
      | lt =>
        have := cmpName_lt_trans hmn hnk
        simp [cmpName_ne_of_lt hmn, this]
      | eq => simp [(cmpName_eq_iff m n).1 hmn]
      | gt => simp [cmpName_ne_of_gt hmn]
    | eq =>
      have e := (cmpName_eq_iff n k).1 hnk
      subst e
      simp only [lookup]
      cases hmn : cmpName m n with
      | lt => simp [cmpName_ne_of_lt hmn]
      | eq => simp [(cmpName_eq_iff m n).1 hmn]
      | gt => simp [cmpName_ne_of_gt hmn]
    | gt =>
      simp only [lookup]
      cases hmk : cmpName m k with
      | lt =>
        have hkn := (cmpName_gt_iff n k).1 hnk
        have := cmpName_lt_trans hmk hkn
        simp [cmpName_ne_of_lt this]
      | eq =>
        have e := (cmpName_eq_iff m k).1 hmk
        subst e
        have : m ≠ n := fun e => by subst e; simp [cmpName_refl] at hnk
        simp [this]
      | gt => simp [ih]

theorem mem_insert {c : Catalog} {n : Name} {i : TableInfo} {x : Name × TableInfo}
    (h : x ∈ insert c n i) : x.1 = n ∨ x ∈ c := by
  induction c with
  | nil => simp [insert] at h; exact .inl (by simp [h])
  | cons e rest ih =>
    obtain ⟨k, v⟩ := e
    simp only [insert] at h
    cases hnk : cmpName n k with
    | lt =>
      simp only [hnk, List.mem_cons] at h
      rcases h with h | h | h
      · exact .inl (by simp [h])
      · exact .inr (by simp [h])
      · exact .inr (by simp [h])
    | eq =>
      simp only [hnk, List.mem_cons] at h
      rcases h with h | h
      · exact .inl (by simp [h, (cmpName_eq_iff n k).1 hnk])
      · exact .inr (by simp [h])
    | gt =>
      simp only [hnk, List.mem_cons] at h
      rcases h with h | h
      · exact .inr (by simp [h])
      · rcases ih h with h' | h'
        · exact .inl h'
        · exact .inr (by simp [h'])

theorem sorted_insert (c : Catalog) (hs : Sorted c) (n : Name) (i : TableInfo) :
    Sorted (insert c n i) := by
  induction c with
  | nil => simp [insert, Sorted]
  | cons e rest ih =>
    obtain ⟨k, v⟩ := e
    have ⟨hk, hr⟩ := sorted_cons.1 hs
    simp only [insert]
    cases hnk : cmpName n k with
    | lt =>
      refine sorted_cons.2 ⟨?_, hs⟩
      intro x hx
      rcases List.mem_cons.1 hx with e | hm
      · subst e; exact hnk
      · exact cmpName_lt_trans hnk (hk x hm)
    | eq => exact sorted_cons.2 ⟨hk, hr⟩
    | gt =>
      refine sorted_cons.2 ⟨?_, ih hr⟩
      intro x hx
      rcases mem_insert hx with e | hm
      · simp only [e]; exact (cmpName_gt_iff n k).1 hnk
      · exact hk x hm

theorem erase_sublist (c : Catalog) (n : Name) : (erase c n).Sublist c := by
  induction c with
  | nil => simp [erase]
  | cons e rest ih =>
    obtain ⟨k, v⟩ := e
    simp only [erase]
    cases cmpName n k with
    | lt => exact List.Sublist.refl _
    | eq => exact List.sublist_cons_self _ _
    | gt => exact List.Sublist.cons_cons _ ih

theorem sorted_erase (c : Catalog) (hs : Sorted c) (n : Name) : Sorted (erase c n) :=
  List.Pairwise.sublist (erase_sublist c n) hs

theorem lookup_erase (c : Catalog) (hs : Sorted c) (n m : Name) :
    lookup (erase c n) m = if m = n then none else lookup c m := by
  induction c with
  | nil => simp [erase, lookup]
  | cons e rest ih =>
    obtain ⟨k, v⟩ := e
    have ⟨hk, hr⟩ := sorted_cons.1 hs
    simp only [erase]
    cases hnk : cmpName n k with
    | lt =>
      by_cases hmn : m = n
      · subst hmn; simp [lookup, hnk]
      · simp [hmn]
    | eq =>
      have e := (cmpName_eq_iff n k).1 hnk
      subst e
      simp only [lookup]
      cases hmn : cmpName m n with
      | lt =>
        have : lookup rest m = none :=
          lookup_none_of_all_gt rest m (fun x hx => cmpName_lt_trans hmn (hk x hx))
        simp [this, cmpName_ne_of_lt hmn]
      | eq =>
        have e := (cmpName_eq_iff m n).1 hmn
        subst e
        simp [lookup_none_of_all_gt rest m hk]
      | gt => simp [cmpName_ne_of_gt hmn]
    | gt =>
      simp only [lookup]
      cases hmk : cmpName m k with
      | lt =>
        have hkn := (cmpName_gt_iff n k).1 hnk
        have := cmpName_lt_trans hmk hkn
        simp [cmpName_ne_of_lt this]
      | eq =>
        have e := (cmpName_eq_iff m k).1 hmk
        subst e
        have : m ≠ n := fun e => by subst e; simp [cmpName_refl] at hnk
        simp [this]
      | gt => simp [ih hr]

/-- two sorted catalogs with the same lookups are equal in their keys' membership -/
theorem mem_listOf (c : Catalog) (hs : Sorted c) (kind : Kind) (n : Name) :
    n ∈ listOf c kind ↔ ∃ info, lookup c n = some info ∧ info.kind = kind := by
  simp only [listOf, List.mem_map, List.mem_filter, decide_eq_true_eq]
  constructor
  · rintro ⟨⟨k, v⟩, ⟨hm, hk⟩, rfl⟩
    exact ⟨v, (lookup_eq_some_iff_mem c hs k v).2 hm, hk⟩
  · rintro ⟨info, hl, hk⟩
    exact ⟨(n, info), ⟨(lookup_eq_some_iff_mem c hs n info).1 hl, hk⟩, rfl⟩

theorem listOf_sorted (c : Catalog) (hs : Sorted c) (kind : Kind) :
    (listOf c kind).Pairwise (fun a b => cmpName a b = .lt) := by
  simp only [listOf]
  rw [List.pairwise_map]
  exact List.Pairwise.sublist List.filter_sublist hs

/-! ### `check_match` -/

theorem typeMatches_iff (stored expected : TypeName) :
    typeMatches stored expected = true ↔
      (stored.cls = expected.cls ∧ stored.name = expected.name) ∨
      (expected.legacy = some stored.cls ∧ expected.name = stored.name) := by
  simp only [typeMatches, TypeName.same, TypeName.matchesLegacy, Bool.or_eq_true, Bool.and_eq_true,
    beq_iff_eq]
  cases h : expected.legacy with
  | none => simp
  | some natural => simp

theorem typeMatches_refl (t : TypeName) : typeMatches t t = true := by
  simp [typeMatches, TypeName.same]

theorem typeMatches_false_of_name_ne (stored expected : TypeName) (h : stored.name ≠ expected.name) :
    typeMatches stored expected = false := by
  cases hm : typeMatches stored expected with
  | false => rfl
  | true =>
    rcases (typeMatches_iff stored expected).1 hm with ⟨_, h'⟩ | ⟨_, h'⟩
    · exact absurd h' h
    · exact absurd h'.symm h

theorem checkMatchUntyped_ok_iff (info : TableInfo) (kind : Kind) :
    checkMatchUntyped info kind = .ok ↔ info.kind = kind ∧ info.keyAlign = 1 ∧ info.valAlign = 1 := by
  simp only [checkMatchUntyped, ALIGNMENT]
  by_cases h1 : info.kind = kind
  · by_cases h2 : info.keyAlign = 1
    · by_cases h3 : info.valAlign = 1 <;> simp [h1, h2, h3]
    · simp [h1, h2]
  · simp only [h1, ne_eq, not_false_eq_true, if_true, false_and, iff_false]
    split <;> simp

theorem checkMatchUntyped_wrong_kind (info : TableInfo) (kind : Kind) (h : info.kind ≠ kind) :
    checkMatchUntyped info kind = if info.kind = .multimap then .isMultimap else .notMultimap := by
  simp [checkMatchUntyped, h]

theorem checkMatch_wrong_kind (info : TableInfo) (req : Request) (h : info.kind ≠ req.kind) :
    checkMatch info req = if info.kind = .multimap then .isMultimap else .notMultimap := by
  simp only [checkMatch, checkMatchUntyped_wrong_kind info req.kind h]
  by_cases hm : info.kind = .multimap <;> simp [hm]

theorem checkMatch_ok_iff (info : TableInfo) (req : Request) :
    checkMatch info req = .ok ↔
      info.kind = req.kind ∧ info.keyAlign = 1 ∧ info.valAlign = 1 ∧
      typeMatches info.keyType req.key.tn = true ∧ typeMatches info.valType req.val.tn = true ∧
      info.keyWidth = req.key.width ∧ info.valWidth = req.val.width := by
  simp only [checkMatch]
  cases hu : checkMatchUntyped info req.kind with
  | ok =>
    have ⟨h1, h2, h3⟩ := (checkMatchUntyped_ok_iff info req.kind).1 hu
    simp only [h1, h2, h3, true_and]
    by_cases hk : typeMatches info.keyType req.key.tn = true
    · by_cases hv : typeMatches info.valType req.val.tn = true
      · by_cases hw : info.keyWidth = req.key.width
        · by_cases hx : info.valWidth = req.val.width <;> simp [hk, hv, hw, hx]
        · simp [hk, hv, hw]
      · simp [hk, hv]
    · simp [hk]
  | _ =>
    have : ¬ (info.kind = req.kind ∧ info.keyAlign = 1 ∧ info.valAlign = 1) := by
      intro h
      have := (checkMatchUntyped_ok_iff info req.kind).2 h
      simp [hu] at this
    simp only [reduceCtorEq, false_iff]
    intro h
    exact this ⟨h.1, h.2.1, h.2.2.1⟩

theorem checkMatch_fresh (req : Request) : checkMatch (freshInfo req) req = .ok := by
  rw [checkMatch_ok_iff]
  simp [freshInfo, typeMatches_refl]

/-! ### Invariant of the transaction state -/

/-- names unique and sorted in both catalogs; every live handle names a staged table -/
structure Inv (s : State) : Prop where
  committed : Sorted s.committed
  staged : Sorted s.staged
  openPresent : ∀ n, n ∈ s.openNames → (lookup s.staged n).isSome = true

theorem isOpen_iff (s : State) (n : Name) : isOpen s n = true ↔ n ∈ s.openNames := by
  simp [isOpen]

theorem isOpen_false_iff (s : State) (n : Name) : isOpen s n = false ↔ n ∉ s.openNames := by
  simp [isOpen]


/-! ### Case analysis of the operations -/

theorem openTable_live (s : State) (n : Name) (req : Request) (h : isOpen s n = true) :
    openTable s n req = (s, .alreadyOpen) := by simp [openTable, h]

theorem openTable_absent (s : State) (n : Name) (req : Request) (ho : isOpen s n = false)
    (hl : lookup s.staged n = none) :
    openTable s n req =
      ({ s with staged := insert s.staged n (freshInfo req), openNames := n :: s.openNames }, .ok) := by
  simp [openTable, ho, hl]

theorem openTable_present_ok (s : State) (n : Name) (req : Request) (info : TableInfo)
    (ho : isOpen s n = false) (hl : lookup s.staged n = some info) (hc : checkMatch info req = .ok) :
    openTable s n req = ({ s with openNames := n :: s.openNames }, .ok) := by
  simp [openTable, ho, hl, hc]

theorem openTable_present_err (s : State) (n : Name) (req : Request) (info : TableInfo)
    (ho : isOpen s n = false) (hl : lookup s.staged n = some info) (hc : checkMatch info req ≠ .ok) :
    openTable s n req = (s, checkMatch info req) := by
  simp only [openTable, ho, hl, Bool.false_eq_true, if_false]

theorem openTable_cases (s : State) (n : Name) (req : Request) :
    (openTable s n req).1 = s ∨
    (isOpen s n = false ∧ lookup s.staged n = none ∧
      (openTable s n req).1 =
        { s with staged := insert s.staged n (freshInfo req), openNames := n :: s.openNames }) ∨
    (∃ info, isOpen s n = false ∧ lookup s.staged n = some info ∧
      (openTable s n req).1 = { s with openNames := n :: s.openNames }) := by
  cases ho : isOpen s n with
  | true => exact .inl (by rw [openTable_live s n req ho])
  | false =>
    cases hl : lookup s.staged n with
    | none => exact .inr (.inl ⟨rfl, rfl, by rw [openTable_absent s n req ho hl]⟩)
    | some info =>
      by_cases hc : checkMatch info req = .ok
      · exact .inr (.inr ⟨info, rfl, rfl, by rw [openTable_present_ok s n req info ho hl hc]⟩)
      · exact .inl (by rw [openTable_present_err s n req info ho hl hc])

theorem rename_live (s : State) (kind : Kind) (a b : Name) (h : isOpen s a = true) :
    rename s kind a b = (s, .alreadyOpen) := by simp [rename, h]

theorem rename_absent (s : State) (kind : Kind) (a b : Name) (ho : isOpen s a = false)
    (hl : lookup s.staged a = none) : rename s kind a b = (s, .doesNotExist) := by
  simp [rename, ho, hl]

theorem rename_kind_err (s : State) (kind : Kind) (a b : Name) (info : TableInfo)
    (ho : isOpen s a = false) (hl : lookup s.staged a = some info)
    (hc : checkMatchUntyped info kind ≠ .ok) : rename s kind a b = (s, checkMatchUntyped info kind) := by
  simp only [rename, ho, hl, Bool.false_eq_true, if_false]

theorem rename_self (s : State) (kind : Kind) (a : Name) (info : TableInfo)
    (ho : isOpen s a = false) (hl : lookup s.staged a = some info)
    (hc : checkMatchUntyped info kind = .ok) : rename s kind a a = (s, .ok) := by
  simp [rename, ho, hl, hc]

theorem rename_target_present (s : State) (kind : Kind) (a b : Name) (info other : TableInfo)
    (ho : isOpen s a = false) (hl : lookup s.staged a = some info)
    (hc : checkMatchUntyped info kind = .ok) (hab : a ≠ b) (hb : lookup s.staged b = some other) :
    rename s kind a b =
      (s, if checkMatchUntyped other kind = .ok then .tableExists else checkMatchUntyped other kind) := by
  simp only [rename, ho, hl, hc, hab, hb, Bool.false_eq_true, if_false]
  split
  · rename_i h; simp [h]
  · rename_i h
    have : checkMatchUntyped other kind ≠ .ok := fun e => h e
    simp [this]

theorem rename_moves (s : State) (kind : Kind) (a b : Name) (info : TableInfo)
    (ho : isOpen s a = false) (hl : lookup s.staged a = some info)
    (hc : checkMatchUntyped info kind = .ok) (hab : a ≠ b) (hb : lookup s.staged b = none) :
    rename s kind a b = ({ s with staged := insert (erase s.staged a) b info }, .ok) := by
  simp [rename, ho, hl, hc, hab, hb]

theorem rename_cases (s : State) (kind : Kind) (a b : Name) :
    (rename s kind a b).1 = s ∨
    (∃ info, isOpen s a = false ∧ lookup s.staged a = some info ∧ a ≠ b ∧ lookup s.staged b = none ∧
      (rename s kind a b).1 = { s with staged := insert (erase s.staged a) b info }) := by
  cases ho : isOpen s a with
  | true => exact .inl (by rw [rename_live s kind a b ho])
  | false =>
    cases hl : lookup s.staged a with
    | none => exact .inl (by rw [rename_absent s kind a b ho hl])
    | some info =>
      by_cases hc : checkMatchUntyped info kind = .ok
      · by_cases hab : a = b
        · subst hab; exact .inl (by rw [rename_self s kind a info ho hl hc])
        · cases hb : lookup s.staged b with
          | some other => exact .inl (by rw [rename_target_present s kind a b info other ho hl hc hab hb])
          | none => exact .inr ⟨info, rfl, rfl, hab, rfl, by rw [rename_moves s kind a b info ho hl hc hab hb]⟩
      · exact .inl (by rw [rename_kind_err s kind a b info ho hl hc])

theorem delete_live (s : State) (kind : Kind) (a : Name) (h : isOpen s a = true) :
    delete s kind a = (s, .refused .alreadyOpen) := by simp [delete, h]

theorem delete_absent (s : State) (kind : Kind) (a : Name) (ho : isOpen s a = false)
    (hl : lookup s.staged a = none) : delete s kind a = (s, .absent) := by
  simp [delete, ho, hl]

theorem delete_kind_err (s : State) (kind : Kind) (a : Name) (info : TableInfo)
    (ho : isOpen s a = false) (hl : lookup s.staged a = some info)
    (hc : checkMatchUntyped info kind ≠ .ok) :
    delete s kind a = (s, .refused (checkMatchUntyped info kind)) := by
  simp only [delete, ho, hl, Bool.false_eq_true, if_false]

theorem delete_removes (s : State) (kind : Kind) (a : Name) (info : TableInfo)
    (ho : isOpen s a = false) (hl : lookup s.staged a = some info)
    (hc : checkMatchUntyped info kind = .ok) :
    delete s kind a = ({ s with staged := erase s.staged a }, .removed) := by
  simp [delete, ho, hl, hc]

theorem delete_cases (s : State) (kind : Kind) (a : Name) :
    (delete s kind a).1 = s ∨
    (isOpen s a = false ∧ (delete s kind a).1 = { s with staged := erase s.staged a }) := by
  cases ho : isOpen s a with
  | true => exact .inl (by rw [delete_live s kind a ho])
  | false =>
    cases hl : lookup s.staged a with
    | none => exact .inl (by rw [delete_absent s kind a ho hl])
    | some info =>
      by_cases hc : checkMatchUntyped info kind = .ok
      · exact .inr ⟨rfl, by rw [delete_removes s kind a info ho hl hc]⟩
      · exact .inl (by rw [delete_kind_err s kind a info ho hl hc])

theorem modifyContents_cases (s : State) (n : Name) (f : Contents → Contents) :
    modifyContents s n f = s ∨
    (∃ info, lookup s.staged n = some info ∧
      modifyContents s n f = { s with staged := insert s.staged n { info with contents := f info.contents } }) := by
  cases hl : lookup s.staged n with
  | none => exact .inl (by simp [modifyContents, hl])
  | some info => exact .inr ⟨info, rfl, by simp [modifyContents, hl]⟩

end Redb.Catalog
