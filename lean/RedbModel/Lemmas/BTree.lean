import RedbModel.Model.BTree
import RedbModel.Lemmas.Spec
/-!
The structural conditions checked by `wf` are exactly what makes routing by (possibly
shortened) separators agree with the sorted list of entries.
-/
namespace Redb.BTree
open Redb.Key Redb.Spec

section aux
variable {t : KT}

/-- an optional bound is absent or a valid encoding -/
def OptValid (t : KT) (o : Option Bytes) : Prop := ∀ l, o = some l → valid t l = true

theorem optValid_some {k : Bytes} (hk : valid t k = true) : OptValid t (some k) := by
  intro l hl; cases hl; exact hk

theorem keysOk_spec (hc : CmpLaws t) (ks : List Bytes) (lo hi : Option Bytes)
    (h : keysOk t lo hi ks = true) :
    (∀ k ∈ ks, valid t k = true) ∧ ks.Pairwise (fun a b => cmp t a b = .lt) ∧
    (∀ k ∈ ks, belowHi t hi k = true) ∧ (OptValid t lo → ∀ k ∈ ks, aboveLo t lo k = true) := by
  induction ks generalizing lo with
  | nil => simp
  | cons k rest ih =>
    simp only [keysOk, Bool.and_eq_true] at h
    obtain ⟨⟨⟨hk, hlo⟩, hhi⟩, hrest⟩ := h
    obtain ⟨i1, i2, i3, i4⟩ := ih (some k) hrest
    have i4 := i4 (optValid_some hk)
    have hlt : ∀ x ∈ rest, cmp t k x = .lt := by
      intro x hx; simpa [aboveLo] using i4 x hx
    refine ⟨?_, ?_, ?_, ?_⟩
    · intro x hx; rcases List.mem_cons.1 hx with rfl | hx
      · exact hk
      · exact i1 x hx
    · exact List.pairwise_cons.2 ⟨hlt, i2⟩
    · intro x hx; rcases List.mem_cons.1 hx with rfl | hx
      · exact hhi
      · exact i3 x hx
    · intro hov x hx
      rcases List.mem_cons.1 hx with rfl | hx
      · exact hlo
      · cases lo with
        | none => simp [aboveLo]
        | some l =>
          have hl := hov l rfl
          simp only [aboveLo, beq_iff_eq] at hlo ⊢
          exact hc.trans_lt _ _ _ hl hk (i1 x hx) (by simp [hlo]) (hlt x hx)

/-- sorted, valid, and inside the bounds (each bound only when it is itself valid) -/
def Good (t : KT) (lo hi : Option Bytes) (l : Map) : Prop :=
  PSorted t l ∧ KeysValid t l ∧ (OptValid t lo → ∀ e ∈ l, aboveLo t lo e.1 = true) ∧
    (OptValid t hi → ∀ e ∈ l, belowHi t hi e.1 = true)

theorem children_good (hc : CmpLaws t) (d : Nat)
    (ih : ∀ lo hi tr, wf t lo hi d tr = true → Good t lo hi (flatten tr))
    (cs : List Tree) (keys : List Bytes) (lo hi : Option Bytes)
    (hw : wfChildren t lo hi d cs keys = true) (hk : keysOk t lo hi keys = true) :
    Good t lo hi (flattenList cs) := by
  induction cs generalizing keys lo with
  | nil => cases keys <;> simp [wfChildren] at hw
  | cons c cs ihc =>
    cases keys with
    | nil =>
      cases cs with
      | nil =>
        simp only [wfChildren] at hw
        simpa [flattenList] using ih lo hi c hw
      | cons c' cs' => simp [wfChildren] at hw
    | cons s rest =>
      have hw' : wf t lo (some s) d c = true ∧ wfChildren t (some s) hi d cs rest = true := by
        cases cs with
        | nil => cases rest <;> simp [wfChildren] at hw
        | cons c' cs' => simpa [wfChildren] using hw
      simp only [keysOk, Bool.and_eq_true] at hk
      obtain ⟨⟨⟨hs, hlo⟩, hhi⟩, hrest⟩ := hk
      obtain ⟨a1, a2, a3, a4⟩ := ih lo (some s) c hw'.1
      obtain ⟨b1, b2, b3, b4⟩ := ihc rest (some s) hw'.2 hrest
      have a4 := a4 (optValid_some hs)
      have b3 := b3 (optValid_some hs)
      have hle : ∀ e ∈ flatten c, cmp t e.1 s ≠ .gt := by
        intro e he; simpa [belowHi] using a4 e he
      have hgt : ∀ e ∈ flattenList cs, cmp t s e.1 = .lt := by
        intro e he; simpa [aboveLo] using b3 e he
      simp only [flattenList]
      refine ⟨?_, ?_, ?_, ?_⟩
      · refine List.pairwise_append.2 ⟨a1, b1, ?_⟩
        intro x hx y hy
        exact hc.trans_lt _ _ _ (a2 x hx) hs (b2 y hy) (hle x hx) (hgt y hy)
      · intro e he
        rcases List.mem_append.1 he with he | he
        · exact a2 e he
        · exact b2 e he
      · intro hov e he
        rcases List.mem_append.1 he with he | he
        · exact a3 hov e he
        · cases lo with
          | none => simp [aboveLo]
          | some l =>
            have hl := hov l rfl
            simp only [aboveLo, beq_iff_eq] at hlo ⊢
            exact hc.trans_lt _ _ _ hl hs (b2 e he) (by simp [hlo]) (hgt e he)
      · intro hov e he
        rcases List.mem_append.1 he with he | he
        · cases hi with
          | none => simp [belowHi]
          | some h =>
            have hh := hov h rfl
            simp only [belowHi, bne_iff_ne] at hhi ⊢
            exact hc.trans _ _ _ (a2 e he) hs hh (hle e he) hhi
        · exact b4 hov e he

theorem flatten_good (hc : CmpLaws t) (d : Nat) :
    ∀ (lo hi : Option Bytes) (tr : Tree), wf t lo hi d tr = true → Good t lo hi (flatten tr) := by
  induction d with
  | zero =>
    intro lo hi tr h
    cases tr with
    | branch cs keys => simp [wf] at h
    | leaf es =>
      simp only [wf, Bool.and_eq_true] at h
      obtain ⟨k1, k2, k3, k4⟩ := keysOk_spec hc _ lo hi h.2
      simp only [flatten]
      refine ⟨?_, ?_, ?_, ?_⟩
      · simpa [PSorted, List.pairwise_map] using k2
      · intro e he; exact k1 e.1 (List.mem_map.2 ⟨e, he, rfl⟩)
      · intro hov e he; exact k4 hov e.1 (List.mem_map.2 ⟨e, he, rfl⟩)
      · intro _ e he; exact k3 e.1 (List.mem_map.2 ⟨e, he, rfl⟩)
  | succ d ih =>
    intro lo hi tr h
    cases tr with
    | leaf es => simp [wf] at h
    | branch cs keys =>
      simp only [wf, Bool.and_eq_true] at h
      simp only [flatten]
      exact children_good hc d ih cs keys lo hi h.2 h.1.2


theorem children_lookup (hc : CmpLaws t) {k : Bytes} (d : Nat)
    (ihg : ∀ lo hi tr, wf t lo hi d tr = true → Good t lo hi (flatten tr))
    (ihl : ∀ lo hi tr, wf t lo hi d tr = true → lookup t tr k = Spec.get t (flatten tr) k)
    (hkv : valid t k = true)
    (cs : List Tree) (keys : List Bytes) (lo hi : Option Bytes)
    (hw : wfChildren t lo hi d cs keys = true) (hk : keysOk t lo hi keys = true) :
    lookupNth t cs (childIndex t keys k) k = Spec.get t (flattenList cs) k := by
  induction cs generalizing keys lo with
  | nil => cases keys <;> simp [wfChildren] at hw
  | cons c cs ihc =>
    cases keys with
    | nil =>
      cases cs with
      | nil =>
        simp only [wfChildren] at hw
        simpa [flattenList, childIndex, lookupNth] using ihl lo hi c hw
      | cons c' cs' => simp [wfChildren] at hw
    | cons s rest =>
      have hw' : wf t lo (some s) d c = true ∧ wfChildren t (some s) hi d cs rest = true := by
        cases cs with
        | nil => cases rest <;> simp [wfChildren] at hw
        | cons c' cs' => simpa [wfChildren] using hw
      simp only [keysOk, Bool.and_eq_true] at hk
      obtain ⟨⟨⟨hs, hlo⟩, hhi⟩, hrest⟩ := hk
      obtain ⟨_, a2, _, a4⟩ := ihg lo (some s) c hw'.1
      obtain ⟨_, b2, b3, _⟩ := children_good hc d ihg cs rest (some s) hi hw'.2 hrest
      have a4 := a4 (optValid_some hs)
      have b3 := b3 (optValid_some hs)
      have hle : ∀ e ∈ flatten c, cmp t e.1 s ≠ .gt := by
        intro e he; simpa [belowHi] using a4 e he
      have hgt : ∀ e ∈ flattenList cs, cmp t s e.1 = .lt := by
        intro e he; simpa [aboveLo] using b3 e he
      simp only [flattenList, childIndex]
      by_cases hks : cmp t k s = .gt
      · simp only [hks, bne_self_eq_false, Bool.false_eq_true, if_false, lookupNth]
        rw [ihc rest (some s) hw'.2 hrest]
        symm
        apply get_append_right
        intro e he
        have hsk : cmp t s k = .lt := (cmp_gt_iff hc hkv hs).1 hks
        have : cmp t e.1 k = .lt := hc.trans_lt _ _ _ (a2 e he) hs hkv (hle e he) hsk
        exact (cmp_gt_iff hc hkv (a2 e he)).2 this
      · have : (cmp t k s != .gt) = true := by simpa using hks
        simp only [this, if_true, lookupNth]
        rw [ihl lo (some s) c hw'.1]
        symm
        apply get_append_left
        intro e he
        exact hc.trans_lt _ _ _ hkv hs (b2 e he) hks (hgt e he)

theorem lookup_good (hc : CmpLaws t) (k : Bytes) (hkv : valid t k = true) (d : Nat) :
    ∀ (lo hi : Option Bytes) (tr : Tree), wf t lo hi d tr = true →
      lookup t tr k = Spec.get t (flatten tr) k := by
  induction d with
  | zero =>
    intro lo hi tr h
    cases tr with
    | branch cs keys => simp [wf] at h
    | leaf es => simp [lookup, flatten]
  | succ d ih =>
    intro lo hi tr h
    cases tr with
    | leaf es => simp [wf] at h
    | branch cs keys =>
      simp only [wf, Bool.and_eq_true] at h
      simp only [flatten, lookup]
      exact children_lookup hc d (flatten_good hc d) ih hkv cs keys lo hi h.2 h.1.2

end aux

/-- a well-formed tree flattens to a strictly sorted list of valid keys inside its bounds
(the bounds being absent or valid encodings, as they are for every subtree of a real tree) -/
theorem flatten_sorted (t : KT) (hc : CmpLaws t) (lo hi : Option Bytes)
    (hlo : ∀ l, lo = some l → valid t l = true) (hhi : ∀ h, hi = some h → valid t h = true)
    (d : Nat) (tr : Tree) (h : wf t lo hi d tr = true) :
    Sorted t (flatten tr) ∧ KeysValid t (flatten tr) ∧
    ∀ e, e ∈ flatten tr → aboveLo t lo e.1 = true ∧ belowHi t hi e.1 = true := by
  obtain ⟨g1, g2, g3, g4⟩ := flatten_good hc d lo hi tr h
  exact ⟨(sorted_iff_psorted hc _ g2).2 g1, g2, fun e he => ⟨g3 hlo e he, g4 hhi e he⟩⟩

/-- without any assumption on the outer bounds the flattened tree is still sorted and valid -/
theorem flatten_sorted_nobounds (t : KT) (hc : CmpLaws t) (lo hi : Option Bytes) (d : Nat)
    (tr : Tree) (h : wf t lo hi d tr = true) :
    Sorted t (flatten tr) ∧ KeysValid t (flatten tr) := by
  obtain ⟨g1, g2, _, _⟩ := flatten_good hc d lo hi tr h
  exact ⟨(sorted_iff_psorted hc _ g2).2 g1, g2⟩

/-- routing finds exactly what the sorted list contains -/
theorem lookup_of_wf (t : KT) (hc : CmpLaws t) (lo hi : Option Bytes) (d : Nat) (tr : Tree)
    (h : wf t lo hi d tr = true) (k : Bytes) (hk : valid t k = true) :
    lookup t tr k = Spec.get t (flatten tr) k :=
  lookup_good hc k hk d lo hi tr h

end Redb.BTree
