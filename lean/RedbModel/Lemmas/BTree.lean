import RedbModel.Model.BTree
import RedbModel.Lemmas.Spec
/-!
The structural conditions checked by `wf` are exactly what makes routing by (possibly
shortened) separators agree with the sorted list of entries.
-/
namespace Redb.BTree
open Redb.Key Redb.Spec

/-- a well-formed tree flattens to a strictly sorted list of valid keys inside its bounds -/
theorem flatten_sorted (t : KT) (hc : CmpLaws t) (lo hi : Option Bytes)
    (hlo : ∀ l, lo = some l → valid t l = true) (hhi : ∀ h, hi = some h → valid t h = true)
    (d : Nat) (tr : Tree) (h : wf t lo hi d tr = true) :
    Sorted t (flatten tr) ∧ KeysValid t (flatten tr) ∧
    ∀ e, e ∈ flatten tr → aboveLo t lo e.1 = true ∧ belowHi t hi e.1 = true := by
  sorry

/-- routing finds exactly what the sorted list contains -/
theorem lookup_of_wf (t : KT) (hc : CmpLaws t) (lo hi : Option Bytes) (d : Nat) (tr : Tree)
    (h : wf t lo hi d tr = true) (k : Bytes) (hk : valid t k = true) :
    lookup t tr k = Spec.get t (flatten tr) k := by
  sorry

end Redb.BTree
