import RedbModel.Model.KeyVal
import RedbModel.Lemmas.KeyType
import RedbModel.Lemmas.KeyValUtf8
import RedbModel.Lemmas.KeyValTuple
/-!
The value level of the key types: every encoding of a well-typed value is a valid encoding
(`encode_valid`), the byte-level comparison of two encodings is the native order of the values
(`encoding_order`), and decoding an encoding gives the value back (`decode_encode`); all three by
induction over the descriptor `KT`. The property theorems are in `Props/C15.lean`.
-/
namespace Redb.Key

/-! ### inversion of `wellTyped` -/

theorem wt_unit {v : Val} (h : wellTyped .unit v = true) : v = .unit := by
  cases v <;> simp [wellTyped] at h ⊢

theorem wt_bool {v : Val} (h : wellTyped .bool v = true) : ∃ b, v = .bool b := by
  cases v <;> simp [wellTyped] at h ⊢

theorem wt_char {v : Val} (h : wellTyped .char v = true) : ∃ c, v = .char c ∧ isScalar c = true := by
  cases v <;> simp [wellTyped] at h ⊢; exact h

theorem wt_uint {w : Nat} {v : Val} (h : wellTyped (.uint w) v = true) :
    ∃ n, v = .uint n ∧ n < 256 ^ w := by
  cases v <;> simp [wellTyped] at h ⊢; exact h

theorem wt_sint {w : Nat} {v : Val} (h : wellTyped (.sint w) v = true) :
    ∃ i, v = .sint i ∧ 0 < w ∧ -((2 ^ (8 * w - 1) : Nat) : Int) ≤ i ∧ i < ((2 ^ (8 * w - 1) : Nat) : Int) := by
  cases v with
  | sint i =>
    simp only [wellTyped, Bool.and_eq_true, decide_eq_true_eq] at h
    exact ⟨_, rfl, h.1.1, h.1.2, h.2⟩
  | _ => simp [wellTyped] at h

theorem wt_str {v : Val} (h : wellTyped .str v = true) :
    ∃ cs, v = .str cs ∧ cs.all isScalar = true := by
  cases v with
  | str cs => exact ⟨cs, rfl, by simpa only [wellTyped] using h⟩
  | _ => simp [wellTyped] at h

theorem wt_bytes {v : Val} (h : wellTyped .bytes v = true) : ∃ b, v = .bytes b := by
  cases v <;> simp [wellTyped] at h ⊢

theorem wt_fixedBytes {n : Nat} {v : Val} (h : wellTyped (.fixedBytes n) v = true) :
    ∃ b, v = .bytes b ∧ b.length = n := by
  cases v <;> simp [wellTyped] at h ⊢; exact h

theorem wt_option {t : KT} {v : Val} (h : wellTyped (.option t) v = true) :
    v = .none ∨ ∃ x, v = .some x ∧ wellTyped t x = true := by
  cases v <;> simp [wellTyped] at h ⊢; exact h

theorem wt_array {n : Nat} {t : KT} {v : Val} (h : wellTyped (.array n t) v = true) :
    ∃ vs, v = .arr vs ∧ vs.length = n ∧ (∀ x ∈ vs, wellTyped t x = true) ∧
      (fixedWidth t = none → (buildArray (vs.map (encode t))).length < 2 ^ 32) := by
  cases v with
  | arr vs =>
    simp only [wellTyped, Bool.and_eq_true, Bool.or_eq_true, beq_iff_eq,
      List.all_eq_true, decide_eq_true_eq] at h
    refine ⟨_, rfl, h.1.1, h.1.2, fun hn => ?_⟩
    rcases h.2 with h2 | h2
    · simp [hn] at h2
    · exact h2
  | _ => simp [wellTyped] at h

theorem wt_tuple {ts : List KT} {v : Val} (h : wellTyped (.tuple ts) v = true) :
    ∃ vs, v = .tup vs ∧ wellTypedList ts vs = true ∧
      varLensOk (fixedWidthList ts).dropLast (encodeList ts vs) = true := by
  cases v with
  | tup vs =>
    simp only [wellTyped, Bool.and_eq_true] at h
    exact ⟨_, rfl, h.1, h.2⟩
  | _ => simp [wellTyped] at h

theorem wtl_cons_elim {t : KT} {ts : List KT} {vs : List Val}
    (h : wellTypedList (t :: ts) vs = true) :
    ∃ x xs, vs = x :: xs ∧ wellTyped t x = true ∧ wellTypedList ts xs = true := by
  cases vs with
  | nil => simp [wellTypedList] at h
  | cons x xs => simp [wellTypedList] at h; exact ⟨x, xs, rfl, h.1, h.2⟩

theorem wtl_nil_elim {vs : List Val} (h : wellTypedList [] vs = true) : vs = [] := by
  cases vs with
  | nil => rfl
  | cons x xs => simp [wellTypedList] at h

/-! ### integers -/

theorem pow256 (w : Nat) : 256 ^ w = 2 ^ (8 * w) := by
  rw [Nat.pow_mul]

theorem pow_half (w : Nat) (h : 0 < w) : 2 ^ (8 * w) = 2 * 2 ^ (8 * w - 1) := by
  rw [← Nat.pow_succ']; congr 1; omega

theorem length_intLe (w : Nat) (i : Int) : (intLe w i).length = w := length_natLe _ _

theorem leInt_intLe (w : Nat) (i : Int) (hw : 0 < w)
    (h1 : -((2 ^ (8 * w - 1) : Nat) : Int) ≤ i) (h2 : i < ((2 ^ (8 * w - 1) : Nat) : Int)) :
    leInt (intLe w i) = i := by
  have hp := pow256 w
  have hh := pow_half w hw
  unfold leInt
  simp only [length_intLe]
  unfold intLe
  obtain ⟨H, hH⟩ : ∃ H, 2 ^ (8 * w - 1) = H := ⟨_, rfl⟩
  obtain ⟨P, hP⟩ : ∃ P, 2 ^ (8 * w) = P := ⟨_, rfl⟩
  obtain ⟨Q, hQ⟩ : ∃ Q, 256 ^ w = Q := ⟨_, rfl⟩
  simp only [hH, hP, hQ] at hp hh h1 h2 ⊢
  split
  · rename_i h0
    rw [leNat_natLe _ _ (by rw [hQ]; omega)]
    split <;> omega
  · rename_i h0
    rw [leNat_natLe _ _ (by rw [hQ]; omega)]
    split <;> omega

/-! ### lists of elements -/

theorem chunks_eq_strideElems (w n : Nat) (d : Bytes) : chunks w n d = strideElems w n d := by
  induction n generalizing d with
  | zero => rfl
  | succ n ih => simp [chunks, strideElems, ih]

theorem strideElems_flatten (w : Nat) (es : List Bytes) (h : ∀ e ∈ es, e.length = w) :
    strideElems w es.length es.flatten = es := by
  induction es with
  | nil => rfl
  | cons e es ih =>
    have he : e.length = w := h e (by simp)
    simp only [List.length_cons, strideElems, List.flatten_cons]
    rw [← he, List.take_left, List.drop_left, he, ih (fun x hx => h x (by simp [hx]))]

theorem length_flatten_fixed (w : Nat) (es : List Bytes) (h : ∀ e ∈ es, e.length = w) :
    es.flatten.length = w * es.length := by
  induction es with
  | nil => simp
  | cons e es ih =>
    simp only [List.flatten_cons, List.length_append, List.length_cons]
    rw [ih (fun x hx => h x (by simp [hx])), h e (by simp), Nat.mul_succ]; omega

theorem elemsFrom_buildArray (es : List Bytes) (h32 : 4 * es.length + lenSum es < 2 ^ 32)
    (i k : Nat) (h : i + k ≤ es.length) :
    elemsFrom es.length (buildArray es) i k = (es.drop i).take k := by
  induction k generalizing i with
  | zero => simp [elemsFrom]
  | succ k ih =>
    rw [elemsFrom, arrayElement_buildArray es h32 i (by omega), ih (i + 1) (by omega)]
    rw [List.drop_eq_getElem_cons (by omega : i < es.length), List.take_succ_cons]

theorem range_map_arrayElement (es : List Bytes) (h32 : 4 * es.length + lenSum es < 2 ^ 32) :
    (List.range es.length).map (arrayElement es.length (buildArray es)) = es := by
  apply List.ext_getElem
  · simp
  · intro i h1 h2
    simp only [List.getElem_map, List.getElem_range]
    exact arrayElement_buildArray es h32 i (by simpa using h2)

theorem mapOpt_map {α β : Type} (f : α → Option β) (g : β → α) (vs : List β)
    (h : ∀ x ∈ vs, f (g x) = some x) : mapOpt f (vs.map g) = some vs := by
  induction vs with
  | nil => rfl
  | cons v vs ih =>
    simp only [List.map_cons, mapOpt, h v (by simp), ih (fun x hx => h x (by simp [hx]))]

theorem validList_replicate (t : KT) (es : List Bytes) (h : ∀ e ∈ es, valid t e = true) :
    validList (List.replicate es.length t) es = true := by
  induction es with
  | nil => simp [validList]
  | cons e es ih =>
    simp only [List.length_cons, List.replicate_succ, validList, Bool.and_eq_true]
    exact ⟨h e (by simp), ih (fun x hx => h x (by simp [hx]))⟩

theorem cmpList_replicate_map (t : KT) (f : Val → Bytes) (c : Val → Val → Ordering)
    (as bs : List Val) (hlen : as.length = bs.length)
    (h : ∀ x ∈ as, ∀ y ∈ bs, cmp t (f x) (f y) = c x y) :
    cmpList (List.replicate as.length t) (as.map f) (bs.map f) = lexBy c as bs := by
  induction as generalizing bs with
  | nil => cases bs <;> simp_all [cmpList_nil, lexBy]
  | cons a as ih =>
    cases bs with
    | nil => simp at hlen
    | cons b bs =>
      simp only [List.length_cons, List.replicate_succ, List.map_cons, cmpList, lexBy]
      rw [h a (by simp) b (by simp)]
      rw [ih bs (by simpa using hlen) (fun x hx y hy => h x (by simp [hx]) y (by simp [hy]))]
      cases c a b <;> rfl

theorem fitsPre_of_validList (ts : List KT) (es : List Bytes) (h : validList ts es = true) :
    fitsPre (fixedWidthList ts) es ∧ es.length = (fixedWidthList ts).length := by
  induction ts generalizing es with
  | nil => cases es <;> simp_all [validList, fitsPre, fixedWidthList]
  | cons t ts ih =>
    obtain ⟨x, xs, rfl, hx, hxs⟩ := validList_cons_elim h
    have := ih xs hxs
    simp only [fixedWidthList, List.map_cons, fitsPre, List.length_cons] at this ⊢
    exact ⟨⟨fun w hw => valid_fixedWidth t w x hw hx, this.1⟩, by omega⟩

/-! ### every encoding is valid -/

theorem encode_valid (t : KT) (v : Val) (h : wellTyped t v = true) :
    valid t (encode t v) = true := by
  induction t using KT.rec (motive_2 := fun ts => ∀ vs, wellTypedList ts vs = true →
      validList ts (encodeList ts vs) = true) generalizing v with
  | unit => simp [encode, valid]
  | bool => obtain ⟨b, rfl⟩ := wt_bool h; cases b <;> simp [encode, valid]
  | char =>
    obtain ⟨c, rfl, hc⟩ := wt_char h
    have := isScalar_lt c hc
    simp only [encode, valid, length_natLe, leNat_natLe 3 c (by omega)]
    simpa [isScalar] using hc
  | uint w => obtain ⟨n, rfl, hn⟩ := wt_uint h; simp [encode, valid, length_natLe]
  | sint w => obtain ⟨i, rfl, _⟩ := wt_sint h; simp [encode, valid, length_intLe]
  | str => obtain ⟨cs, rfl, hcs⟩ := wt_str h; simp [encode, valid, validUtf8_utf8Enc cs hcs]
  | bytes => simp [valid]
  | fixedBytes n => obtain ⟨b, rfl, hb⟩ := wt_fixedBytes h; simp [encode, valid, hb]
  | option t ih =>
    rcases wt_option h with rfl | ⟨x, rfl, hx⟩
    · cases hfw : fixedWidth t <;> simp [encode, valid, hfw]
    · simp [encode, valid, ih x hx]
  | array n t ih =>
    obtain ⟨vs, rfl, hlen, hall, h32⟩ := wt_array h
    have hv : ∀ e ∈ vs.map (encode t), valid t e = true := by
      intro e he; obtain ⟨x, hx, rfl⟩ := List.mem_map.1 he; exact ih x (hall x hx)
    cases hfw : fixedWidth t with
    | some w =>
      have hw : ∀ e ∈ vs.map (encode t), e.length = w :=
        fun e he => valid_fixedWidth t w e hfw (hv e he)
      simp only [encode, valid, hfw, Bool.and_eq_true, beq_iff_eq]
      refine ⟨?_, ?_⟩
      · rw [length_flatten_fixed w _ hw]; simp [hlen]
      · rw [validStride_eq, chunks_eq_strideElems]
        have h1 := strideElems_flatten w _ hw
        simp only [List.length_map, hlen] at h1
        rw [h1]
        have h2 := validList_replicate t _ hv
        simpa [hlen] using h2
    | none =>
      simp only [encode, hfw]
      have h32' := h32 hfw
      rw [buildArray_length] at h32'
      have h3 := valid_buildArray t (vs.map (encode t)) hfw h32'
        (fun j hj => hv _ (List.getElem_mem _))
      simpa [hlen] using h3
  | tuple ts ih =>
    obtain ⟨vs, rfl, hwt, hvl⟩ := wt_tuple h
    have hvalid := ih vs hwt
    obtain ⟨hfit, hlen⟩ := fitsPre_of_validList ts _ hvalid
    have hrt := tupleElements_tupleBytes (fixedWidthList ts) (encodeList ts vs) hlen hfit hvl
    simp only [encode, valid, hrt, Bool.and_eq_true, beq_iff_eq]
    refine ⟨⟨by simpa [fixedWidthList] using hlen, ?_⟩, hvalid⟩
    rw [foldl_len]
    unfold tupleBytes
    split
    · rw [tupleHeader_allSome _ _ (all_dropLast _ _ ‹_›)]; simp [lenSum]
    · rw [parseLens_tupleHeader _ _ _ (fitsPre_dropLast _ _ hfit) hvl]
      simp [lenSum]; omega
  | nil => rename_i vs h; rw [wtl_nil_elim h]; simp [encodeList, validList]
  | cons t ts iht ihts =>
    rename_i vs h
    obtain ⟨x, xs, rfl, hx, hxs⟩ := wtl_cons_elim h
    simp [encodeList, validList, iht x hx, ihts xs hxs]

theorem encodeList_valid (ts : List KT) (vs : List Val) (h : wellTypedList ts vs = true) :
    validList ts (encodeList ts vs) = true := by
  induction ts generalizing vs with
  | nil => rw [wtl_nil_elim h]; simp [encodeList, validList]
  | cons t ts ih =>
    obtain ⟨x, xs, rfl, hx, hxs⟩ := wtl_cons_elim h
    simp [encodeList, validList, encode_valid t x hx, ih xs hxs]

/-- `tupleElements` recovers the element encodings of an encoded tuple -/
theorem tupleElements_encode (ts : List KT) (vs : List Val)
    (h : wellTyped (.tuple ts) (.tup vs) = true) :
    tupleElements (fixedWidthList ts) (encode (.tuple ts) (.tup vs)) = encodeList ts vs := by
  obtain ⟨vs', e, hwt, hvl⟩ := wt_tuple h
  cases e
  obtain ⟨hfit, hlen⟩ := fitsPre_of_validList ts _ (encodeList_valid ts vs hwt)
  simp only [encode]
  exact tupleElements_tupleBytes (fixedWidthList ts) (encodeList ts vs) hlen hfit hvl

/-! ### byte order of encodings = value order -/

theorem encoding_order (t : KT) (a b : Val) (ha : wellTyped t a = true) (hb : wellTyped t b = true) :
    cmp t (encode t a) (encode t b) = vcmp t a b := by
  induction t using KT.rec (motive_2 := fun ts => ∀ as bs, wellTypedList ts as = true →
      wellTypedList ts bs = true →
      cmpList ts (encodeList ts as) (encodeList ts bs) = vcmpList ts as bs) generalizing a b with
  | unit => simp [cmp, vcmp]
  | bool =>
    obtain ⟨x, rfl⟩ := wt_bool ha
    obtain ⟨y, rfl⟩ := wt_bool hb
    cases x <;> cases y <;> simp [cmp, vcmp, encode] <;> decide
  | char =>
    obtain ⟨x, rfl, hx⟩ := wt_char ha
    obtain ⟨y, rfl, hy⟩ := wt_char hb
    have := isScalar_lt x hx
    have := isScalar_lt y hy
    simp only [cmp, vcmp, encode]
    rw [List.take_of_length_le (by rw [length_natLe]; omega),
      List.take_of_length_le (by rw [length_natLe]; omega),
      leNat_natLe 3 x (by omega), leNat_natLe 3 y (by omega)]
  | uint w =>
    obtain ⟨x, rfl, hx⟩ := wt_uint ha
    obtain ⟨y, rfl, hy⟩ := wt_uint hb
    simp only [cmp, vcmp, encode, leNat_natLe w x hx, leNat_natLe w y hy]
  | sint w =>
    obtain ⟨x, rfl, hw, hx1, hx2⟩ := wt_sint ha
    obtain ⟨y, rfl, _, hy1, hy2⟩ := wt_sint hb
    simp only [cmp, vcmp, encode, leInt_intLe w x hw hx1 hx2, leInt_intLe w y hw hy1 hy2]
  | str =>
    obtain ⟨x, rfl, hx⟩ := wt_str ha
    obtain ⟨y, rfl, hy⟩ := wt_str hb
    simp only [cmp, vcmp, encode, lexCmp_utf8Enc x y hx hy]
  | bytes =>
    obtain ⟨x, rfl⟩ := wt_bytes ha
    obtain ⟨y, rfl⟩ := wt_bytes hb
    simp only [cmp, vcmp, encode]
  | fixedBytes n =>
    obtain ⟨x, rfl, _⟩ := wt_fixedBytes ha
    obtain ⟨y, rfl, _⟩ := wt_fixedBytes hb
    simp only [cmp, vcmp, encode]
  | option t ih =>
    rcases wt_option ha with rfl | ⟨x, rfl, hx⟩ <;> rcases wt_option hb with rfl | ⟨y, rfl, hy⟩
    · simp [cmp, vcmp, encode]
    · simp [cmp, vcmp, encode]
    · simp [cmp, vcmp, encode]
    · simp [cmp, vcmp, encode, ih x y hx hy]
  | array n t ih =>
    obtain ⟨xs, rfl, hxl, hxa, hx32⟩ := wt_array ha
    obtain ⟨ys, rfl, hyl, hya, hy32⟩ := wt_array hb
    have hcore := cmpList_replicate_map t (encode t) (vcmp t) xs ys (by omega)
      (fun x hx y hy => ih x y (hxa x hx) (hya y hy))
    have hvx : ∀ e ∈ xs.map (encode t), valid t e = true := by
      intro e he; obtain ⟨x, hx, rfl⟩ := List.mem_map.1 he; exact encode_valid t x (hxa x hx)
    have hvy : ∀ e ∈ ys.map (encode t), valid t e = true := by
      intro e he; obtain ⟨x, hx, rfl⟩ := List.mem_map.1 he; exact encode_valid t x (hya x hx)
    cases hfw : fixedWidth t with
    | some w =>
      have h1 := strideElems_flatten w _ (fun e he => valid_fixedWidth t w e hfw (hvx e he))
      have h2 := strideElems_flatten w _ (fun e he => valid_fixedWidth t w e hfw (hvy e he))
      simp only [List.length_map, hxl, hyl] at h1 h2
      simp only [cmp, vcmp, encode, hfw, cmpStride_eq, chunks_eq_strideElems, h1, h2]
      rw [← hxl]; exact hcore
    | none =>
      have hx32' := hx32 hfw
      have hy32' := hy32 hfw
      rw [buildArray_length] at hx32' hy32'
      have h1 := elemsFrom_buildArray _ hx32' 0 n (by simp [hxl])
      have h2 := elemsFrom_buildArray _ hy32' 0 n (by simp [hyl])
      simp only [List.length_map, hxl, hyl, List.drop_zero] at h1 h2
      rw [List.take_of_length_le (by simp [hxl])] at h1
      rw [List.take_of_length_le (by simp [hyl])] at h2
      rw [cmp_array_var _ _ _ _ hfw]
      simp only [vcmp, encode, hfw, cmpElems, h1, h2]
      rw [← hxl]; exact hcore
  | tuple ts ih =>
    obtain ⟨xs, rfl, hx, _⟩ := wt_tuple ha
    obtain ⟨ys, rfl, hy, _⟩ := wt_tuple hb
    simp only [cmp, tupleElements_encode ts xs ha, tupleElements_encode ts ys hb, vcmp]
    exact ih xs ys hx hy
  | nil =>
    rename_i as bs ha hb
    simp [cmpList_nil, vcmpList]
  | cons t ts iht ihts =>
    rename_i as bs ha hb
    obtain ⟨x, xs, rfl, hx, hxs⟩ := wtl_cons_elim ha
    obtain ⟨y, ys, rfl, hy, hys⟩ := wtl_cons_elim hb
    simp only [encodeList, cmpList, vcmpList, iht x y hx hy, ihts xs ys hxs hys]
    cases vcmp t x y <;> rfl

/-! ### decoding an encoding gives the value back -/

theorem decode_encode (t : KT) (v : Val) (h : wellTyped t v = true) :
    decode t (encode t v) = some v := by
  induction t using KT.rec (motive_2 := fun ts => ∀ vs, wellTypedList ts vs = true →
      decodeList ts (encodeList ts vs) = some vs) generalizing v with
  | unit => rw [wt_unit h]; simp [decode]
  | bool => obtain ⟨b, rfl⟩ := wt_bool h; cases b <;> simp [encode, decode]
  | char =>
    obtain ⟨c, rfl, hc⟩ := wt_char h
    have := isScalar_lt c hc
    simp [encode, decode, length_natLe, leNat_natLe 3 c (by omega), hc]
  | uint w => obtain ⟨n, rfl, hn⟩ := wt_uint h; simp [encode, decode, length_natLe, leNat_natLe w n hn]
  | sint w =>
    obtain ⟨i, rfl, hw, h1, h2⟩ := wt_sint h
    simp [encode, decode, length_intLe, leInt_intLe w i hw h1 h2]
  | str =>
    obtain ⟨cs, rfl, hcs⟩ := wt_str h
    simp [encode, decode, validUtf8_utf8Enc cs hcs, utf8Dec_utf8Enc cs hcs]
  | bytes => obtain ⟨b, rfl⟩ := wt_bytes h; simp [encode, decode]
  | fixedBytes n => obtain ⟨b, rfl, hb⟩ := wt_fixedBytes h; simp [encode, decode, hb]
  | option t ih =>
    rcases wt_option h with rfl | ⟨x, rfl, hx⟩
    · simp [encode, decode]
    · simp [encode, decode, ih x hx]
  | array n t ih =>
    obtain ⟨vs, rfl, hlen, hall, h32⟩ := wt_array h
    have hm := mapOpt_map (decode t) (encode t) vs (fun x hx => ih x (hall x hx))
    cases hfw : fixedWidth t with
    | some w =>
      have h1 := strideElems_flatten w (vs.map (encode t)) (fun e he => by
        obtain ⟨x, hx, rfl⟩ := List.mem_map.1 he
        exact valid_fixedWidth t w _ hfw (encode_valid t x (hall x hx)))
      simp only [List.length_map, hlen] at h1
      simp [encode, decode, hfw, h1, hm]
    | none =>
      have h32' := h32 hfw
      rw [buildArray_length] at h32'
      have h1 := range_map_arrayElement _ h32'
      simp only [List.length_map, hlen] at h1
      simp [encode, decode, hfw, h1, hm]
  | tuple ts ih =>
    obtain ⟨vs, rfl, hwt, _⟩ := wt_tuple h
    simp only [decode, tupleElements_encode ts vs h, ih vs hwt, Option.map_some]
  | nil => rename_i vs h; rw [wtl_nil_elim h]; simp [encodeList, decodeList]
  | cons t ts iht ihts =>
    rename_i vs h
    obtain ⟨x, xs, rfl, hx, hxs⟩ := wtl_cons_elim h
    simp [encodeList, decodeList, iht x hx, ihts xs hxs]

end Redb.Key
