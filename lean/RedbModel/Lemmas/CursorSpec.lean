import RedbModel.Model.CursorSpec
import RedbModel.Lemmas.Spec
/-!
Laws of the gap-cursor specification (`Model/CursorSpec.lean`) under the comparator laws
`CmpLaws t`: the zipper is a cursor of the sorted map `Spec.Map`.
-/
namespace Redb.CursorSpec
open Redb.Key Redb.Spec

section basics

theorem toMap_eq (c : Cursor) : c.toMap = c.before.reverse ++ c.after := rfl

theorem atIndex_toMap (m : Map) (i : Nat) : (atIndex m i).toMap = m := by
  simp [atIndex, Cursor.toMap]

theorem atIndex_gap (m : Map) (i : Nat) (h : i ≤ m.length) : (atIndex m i).gap = i := by
  simp [atIndex, Cursor.gap, Nat.min_eq_left h]

/-- a cursor is determined by its map and its gap index -/
theorem eq_atIndex (c : Cursor) : c = atIndex c.toMap c.gap := by
  obtain ⟨b, a⟩ := c
  have hl : b.reverse.length = b.length := List.length_reverse
  simp only [atIndex, Cursor.toMap, Cursor.gap, Cursor.mk.injEq]
  constructor
  · rw [List.take_left' hl, List.reverse_reverse]
  · rw [List.drop_left' hl]

theorem gap_le (c : Cursor) : c.gap ≤ c.toMap.length := by
  simp [Cursor.gap, Cursor.toMap]

end basics

/-! ### (a) bounds -/

section bounds
variable {t : KT}

/-- `p` holds on a downward-closed set of keys -/
def DownClosed (t : KT) (p : Bytes → Bool) : Prop :=
  ∀ a b, valid t a = true → valid t b = true → cmp t a b = .lt → p b = true → p a = true

theorem split_spec (p : Bytes → Bool) (hp : DownClosed t p) (m : Map) (acc : List Entry)
    (hs : PSorted t m) (hv : KeysValid t m) :
    (split p acc m).toMap = acc.reverse ++ m ∧
    (∀ e ∈ (split p acc m).before, e ∈ acc ∨ p e.1 = true) ∧
    (∀ e ∈ (split p acc m).after, p e.1 = false) := by
  induction m generalizing acc with
  | nil => exact ⟨by simp [split, Cursor.toMap], fun e he => Or.inl he, by simp [split]⟩
  | cons e rest ih =>
    obtain ⟨hve, hvr⟩ := keysValid_cons.1 hv
    obtain ⟨hlt, hsr⟩ := psorted_cons.1 hs
    by_cases hpe : p e.1 = true
    · simp only [split, hpe, if_true]
      obtain ⟨i1, i2, i3⟩ := ih (e :: acc) hsr hvr
      refine ⟨by simp [i1], ?_, i3⟩
      intro x hx
      rcases i2 x hx with h | h
      · rcases List.mem_cons.1 h with rfl | h
        · exact Or.inr hpe
        · exact Or.inl h
      · exact Or.inr h
    · simp only [split, hpe, if_false, Bool.false_eq_true]
      refine ⟨rfl, fun x hx => Or.inl hx, ?_⟩
      intro x hx
      rcases List.mem_cons.1 hx with rfl | hx
      · simpa using hpe
      · cases hpx : p x.1 with
        | false => rfl
        | true => exact absurd (hp e.1 x.1 hve (hvr x hx) (hlt x hx) hpx) hpe

theorem belowLower_downClosed (hc : CmpLaws t) (b : Bound)
    (hb : ∀ x, b = .incl x ∨ b = .excl x → valid t x = true) : DownClosed t (belowLower t b) := by
  intro a k ha hk hlt hpk
  cases b with
  | unb => simp [belowLower] at hpk
  | incl x =>
    have hx := hb x (Or.inl rfl)
    simp only [belowLower, beq_iff_eq] at hpk ⊢
    exact hc.trans_lt a k x ha hk hx (by simp [hlt]) hpk
  | excl x =>
    have hx := hb x (Or.inr rfl)
    simp only [belowLower, bne_iff_ne, ne_eq] at hpk ⊢
    exact hc.trans a k x ha hk hx (by simp [hlt]) hpk

theorem belowUpper_downClosed (hc : CmpLaws t) (b : Bound)
    (hb : ∀ x, b = .incl x ∨ b = .excl x → valid t x = true) : DownClosed t (belowUpper t b) := by
  intro a k ha hk hlt hpk
  cases b with
  | unb => simp [belowUpper]
  | incl x =>
    have hx := hb x (Or.inl rfl)
    simp only [belowUpper, bne_iff_ne, ne_eq] at hpk ⊢
    exact hc.trans a k x ha hk hx (by simp [hlt]) hpk
  | excl x =>
    have hx := hb x (Or.inr rfl)
    simp only [belowUpper, beq_iff_eq] at hpk ⊢
    exact hc.trans_lt a k x ha hk hx (by simp [hlt]) hpk

/-- The gap of `lower_bound` splits the sorted map: the cursor stands for the same map, every key
before the gap is below the bound (`< x` for `Included x`, `≤ x` for `Excluded x`, nothing for
`Unbounded`), every key after it is not. -/
theorem lowerBound_gap (hc : CmpLaws t) (m : Map) (b : Bound) (hs : Sorted t m) (hv : KeysValid t m)
    (hb : ∀ x, b = .incl x ∨ b = .excl x → valid t x = true) :
    (lowerBound t m b).toMap = m ∧
    (∀ e ∈ (lowerBound t m b).before, belowLower t b e.1 = true) ∧
    (∀ e ∈ (lowerBound t m b).after, belowLower t b e.1 = false) := by
  obtain ⟨h1, h2, h3⟩ := split_spec (belowLower t b) (belowLower_downClosed hc b hb) m []
    ((sorted_iff_psorted hc m hv).1 hs) hv
  refine ⟨by simpa [lowerBound] using h1, ?_, h3⟩
  intro e he
  rcases h2 e he with h | h
  · simp at h
  · exact h

theorem upperBound_gap (hc : CmpLaws t) (m : Map) (b : Bound) (hs : Sorted t m) (hv : KeysValid t m)
    (hb : ∀ x, b = .incl x ∨ b = .excl x → valid t x = true) :
    (upperBound t m b).toMap = m ∧
    (∀ e ∈ (upperBound t m b).before, belowUpper t b e.1 = true) ∧
    (∀ e ∈ (upperBound t m b).after, belowUpper t b e.1 = false) := by
  obtain ⟨h1, h2, h3⟩ := split_spec (belowUpper t b) (belowUpper_downClosed hc b hb) m []
    ((sorted_iff_psorted hc m hv).1 hs) hv
  refine ⟨by simpa [upperBound] using h1, ?_, h3⟩
  intro e he
  rcases h2 e he with h | h
  · simp at h
  · exact h

end bounds

/-! ### (b) peek / next / prev -/

section moves

theorem peekNext_eq_getElem (c : Cursor) : peekNext c = c.toMap[c.gap]? := by
  simp only [peekNext, Cursor.toMap, Cursor.gap, List.head?_eq_getElem?]
  rw [List.getElem?_append_right (by simp)]
  simp

theorem peekPrev_eq_getElem (c : Cursor) :
    peekPrev c = if c.gap = 0 then none else c.toMap[c.gap - 1]? := by
  obtain ⟨b, a⟩ := c
  cases b with
  | nil => simp [peekPrev, Cursor.gap]
  | cons e rest =>
    simp only [peekPrev, Cursor.gap, Cursor.toMap, List.head?_cons, List.length_cons,
      Nat.add_one_ne_zero, if_false, Nat.add_sub_cancel, List.reverse_cons, List.append_assoc]
    rw [List.getElem?_append_right (by simp)]
    simp

theorem next_toMap (c : Cursor) : (next c).1.toMap = c.toMap := by
  obtain ⟨b, a⟩ := c
  cases a <;> simp [next, Cursor.toMap]

theorem next_ret (c : Cursor) : (next c).2 = peekNext c := by
  obtain ⟨b, a⟩ := c
  cases a <;> simp [next, peekNext]

theorem next_gap (c : Cursor) :
    (next c).1.gap = c.gap + (if (peekNext c).isSome then 1 else 0) := by
  obtain ⟨b, a⟩ := c
  cases a <;> simp [next, peekNext, Cursor.gap]

/-- after `next` returned `e`, `e` is the entry before the gap -/
theorem next_peekPrev (c : Cursor) (e : Entry) (h : peekNext c = some e) :
    peekPrev (next c).1 = some e := by
  obtain ⟨b, a⟩ := c
  cases a with
  | nil => simp [peekNext] at h
  | cons x rest => simpa [peekNext, next, peekPrev] using h

theorem next_at_end (c : Cursor) (h : peekNext c = none) : next c = (c, none) := by
  obtain ⟨b, a⟩ := c
  cases a with
  | nil => rfl
  | cons x rest => simp [peekNext] at h

theorem prev_toMap (c : Cursor) : (prev c).1.toMap = c.toMap := by
  obtain ⟨b, a⟩ := c
  cases b <;> simp [prev, Cursor.toMap]

theorem prev_ret (c : Cursor) : (prev c).2 = peekPrev c := by
  obtain ⟨b, a⟩ := c
  cases b <;> simp [prev, peekPrev]

theorem prev_gap (c : Cursor) :
    (prev c).1.gap + (if (peekPrev c).isSome then 1 else 0) = c.gap := by
  obtain ⟨b, a⟩ := c
  cases b <;> simp [prev, peekPrev, Cursor.gap]

theorem prev_peekNext (c : Cursor) (e : Entry) (h : peekPrev c = some e) :
    peekNext (prev c).1 = some e := by
  obtain ⟨b, a⟩ := c
  cases b with
  | nil => simp [peekPrev] at h
  | cons x rest => simpa [peekPrev, prev, peekNext] using h

theorem prev_at_start (c : Cursor) (h : peekPrev c = none) : prev c = (c, none) := by
  obtain ⟨b, a⟩ := c
  cases b with
  | nil => rfl
  | cons x rest => simp [peekPrev] at h

/-- `next` undoes `prev` unless the gap was at the start -/
theorem next_prev (c : Cursor) (h : peekPrev c ≠ none) : (next (prev c).1).1 = c := by
  obtain ⟨b, a⟩ := c
  cases b with
  | nil => simp [peekPrev] at h
  | cons x rest => simp [prev, next]

/-- `prev` undoes `next` unless the gap was at the end -/
theorem prev_next (c : Cursor) (h : peekNext c ≠ none) : (prev (next c).1).1 = c := by
  obtain ⟨b, a⟩ := c
  cases a with
  | nil => simp [peekNext] at h
  | cons x rest => simp [prev, next]

end moves

/-! ### (c) inserts -/

section inserts
variable {t : KT}

theorem fits_iff (c : Cursor) (k : Bytes) :
    fits t c k = true ↔
      (∀ p, peekPrev c = some p → cmp t p.1 k = .lt) ∧ (∀ n, peekNext c = some n → cmp t k n.1 = .lt) := by
  obtain ⟨b, a⟩ := c
  cases b <;> cases a <;> simp [fits, peekPrev, peekNext]

theorem insertBefore_isSome_iff (c : Cursor) (k v : Bytes) :
    (insertBefore t c k v).isSome = true ↔ fits t c k = true := by
  unfold insertBefore; split <;> simp_all

theorem insertAfter_isSome_iff (c : Cursor) (k v : Bytes) :
    (insertAfter t c k v).isSome = true ↔ fits t c k = true := by
  unfold insertAfter; split <;> simp_all

/-- inserting a key that sorts after all of `l1` and before the head of `l2` splices it in between,
replacing nothing -/
theorem insert_at_gap (hc : CmpLaws t) (l1 l2 : Map) (k v : Bytes) (hk : valid t k = true)
    (hv1 : KeysValid t l1) (h1 : ∀ e ∈ l1, cmp t e.1 k = .lt)
    (h2 : ∀ n, l2.head? = some n → cmp t k n.1 = .lt) :
    Spec.insert t (l1 ++ l2) k v = (l1 ++ (k, v) :: l2, none) := by
  induction l1 with
  | nil =>
    cases l2 with
    | nil => simp [Spec.insert]
    | cons n rest =>
      obtain ⟨k2, v2⟩ := n
      have := h2 (k2, v2) (by simp)
      simp only at this
      simp [Spec.insert, this]
  | cons a l1 ih =>
    obtain ⟨k', v'⟩ := a
    obtain ⟨hk', hvr⟩ := keysValid_cons.1 hv1
    have hlt : cmp t k' k = .lt := h1 (k', v') (by simp)
    have hgt : cmp t k k' = .gt := (cmp_gt_iff hc hk hk').2 hlt
    have := ih hvr (fun e he => h1 e (by simp [he]))
    simp [Spec.insert, hgt, this]

/-- in a sorted `l ++ [p]` every key of `l` is below `p` -/
theorem all_lt_of_psorted_snoc (hc : CmpLaws t) (l : Map) (p : Entry) (k : Bytes)
    (hs : PSorted t (l ++ [p])) (hv : KeysValid t (l ++ [p])) (hk : valid t k = true)
    (hpk : cmp t p.1 k = .lt) : ∀ e ∈ l ++ [p], cmp t e.1 k = .lt := by
  intro e he
  rcases List.mem_append.1 he with he' | he'
  · have h1 : cmp t e.1 p.1 = .lt := (List.pairwise_append.1 hs).2.2 e he' p (by simp)
    exact hc.trans_lt e.1 p.1 k (hv e he) (hv p (by simp)) hk (by simp [h1]) hpk
  · simp only [List.mem_singleton] at he'
    subst he'
    exact hpk

/-- every key before the gap is below `k` as soon as the nearest one is -/
theorem before_all_lt (hc : CmpLaws t) (c : Cursor) (k : Bytes)
    (hs : PSorted t c.toMap) (hv : KeysValid t c.toMap) (hk : valid t k = true)
    (h : ∀ p, peekPrev c = some p → cmp t p.1 k = .lt) :
    ∀ e ∈ c.before.reverse, cmp t e.1 k = .lt := by
  obtain ⟨b, a⟩ := c
  cases b with
  | nil => simp
  | cons p rest =>
    have hpk := h p (by simp [peekPrev])
    simp only [Cursor.toMap, List.reverse_cons] at hs hv ⊢
    have hs' : PSorted t (rest.reverse ++ [p]) := (List.pairwise_append.1 hs).1
    have hv' : KeysValid t (rest.reverse ++ [p]) := fun e he => hv e (List.mem_append.2 (Or.inl he))
    exact all_lt_of_psorted_snoc hc rest.reverse p k hs' hv' hk hpk

/-- The map of an accepted insert (either direction): `Spec.insert` of the old map, which replaced
nothing. -/
theorem insert_toMap (hc : CmpLaws t) (c : Cursor) (k v : Bytes)
    (hs : Sorted t c.toMap) (hv : KeysValid t c.toMap) (hk : valid t k = true)
    (hf : fits t c k = true) :
    Spec.insert t c.toMap k v = (c.before.reverse ++ (k, v) :: c.after, none) := by
  have hp := (sorted_iff_psorted hc _ hv).1 hs
  obtain ⟨f1, f2⟩ := (fits_iff c k).1 hf
  have h1 := before_all_lt hc c k hp hv hk f1
  have hv1 : KeysValid t c.before.reverse := fun e he => hv e (List.mem_append.2 (Or.inl he))
  exact insert_at_gap hc c.before.reverse c.after k v hk hv1 h1 f2

theorem insertBefore_spec (hc : CmpLaws t) (c c' : Cursor) (k v : Bytes)
    (hs : Sorted t c.toMap) (hv : KeysValid t c.toMap) (hk : valid t k = true)
    (h : insertBefore t c k v = some c') :
    c'.toMap = (Spec.insert t c.toMap k v).1 ∧ (Spec.insert t c.toMap k v).2 = none ∧
    Sorted t c'.toMap ∧ KeysValid t c'.toMap ∧
    peekPrev c' = some (k, v) ∧ peekNext c' = peekNext c ∧ c'.gap = c.gap + 1 := by
  unfold insertBefore at h
  split at h
  · rename_i hf
    simp only [Option.some.injEq] at h
    subst h
    have hm := insert_toMap hc c k v hs hv hk hf
    have hso := insert_sorted t hc c.toMap k v hs hv hk
    have e1 : Cursor.toMap { before := (k, v) :: c.before, after := c.after } = (Spec.insert t c.toMap k v).1 := by
      rw [hm]; simp [Cursor.toMap]
    refine ⟨e1, by rw [hm], ?_, ?_, rfl, rfl, by simp [Cursor.gap]⟩
    · rw [e1]; exact hso.1
    · rw [e1]; exact hso.2
  · simp at h

theorem insertAfter_spec (hc : CmpLaws t) (c c' : Cursor) (k v : Bytes)
    (hs : Sorted t c.toMap) (hv : KeysValid t c.toMap) (hk : valid t k = true)
    (h : insertAfter t c k v = some c') :
    c'.toMap = (Spec.insert t c.toMap k v).1 ∧ (Spec.insert t c.toMap k v).2 = none ∧
    Sorted t c'.toMap ∧ KeysValid t c'.toMap ∧
    peekNext c' = some (k, v) ∧ peekPrev c' = peekPrev c ∧ c'.gap = c.gap := by
  unfold insertAfter at h
  split at h
  · rename_i hf
    simp only [Option.some.injEq] at h
    subst h
    have hm := insert_toMap hc c k v hs hv hk hf
    have hso := insert_sorted t hc c.toMap k v hs hv hk
    have e1 : Cursor.toMap { before := c.before, after := (k, v) :: c.after } = (Spec.insert t c.toMap k v).1 := by
      rw [hm]; simp [Cursor.toMap]
    refine ⟨e1, by rw [hm], ?_, ?_, rfl, rfl, rfl⟩
    · rw [e1]; exact hso.1
    · rw [e1]; exact hso.2
  · simp at h

/-- a rejected key would break the order: acceptance is exactly "the map with `(k, v)` spliced into
the gap is still strictly sorted" -/
theorem fits_iff_splice_sorted (hc : CmpLaws t) (c : Cursor) (k v : Bytes)
    (hs : Sorted t c.toMap) (hv : KeysValid t c.toMap) (hk : valid t k = true) :
    fits t c k = true ↔ Sorted t (c.before.reverse ++ (k, v) :: c.after) := by
  have hvs : KeysValid t (c.before.reverse ++ (k, v) :: c.after) := by
    intro e he
    simp only [List.mem_append, List.mem_cons] at he
    rcases he with he | rfl | he
    · exact hv e (by simp only [Cursor.toMap, List.mem_append]; exact Or.inl he)
    · exact hk
    · exact hv e (by simp only [Cursor.toMap, List.mem_append]; exact Or.inr he)
  constructor
  · intro hf
    have hm := insert_toMap hc c k v hs hv hk hf
    have := (insert_sorted t hc c.toMap k v hs hv hk).1
    rwa [hm] at this
  · intro hso
    have hp := (sorted_iff_psorted hc _ hvs).1 hso
    obtain ⟨_, hp2, hp3⟩ := List.pairwise_append.1 hp
    rw [fits_iff]
    constructor
    · intro p hpp
      have : p ∈ c.before.reverse := by
        obtain ⟨b, a⟩ := c
        cases b with
        | nil => simp [peekPrev] at hpp
        | cons x rest => simp [peekPrev] at hpp; subst hpp; simp
      exact hp3 p this (k, v) (by simp)
    · intro n hn
      have : n ∈ c.after := by
        obtain ⟨b, a⟩ := c
        cases a with
        | nil => simp [peekNext] at hn
        | cons x rest => simp [peekNext] at hn; subst hn; simp
      exact (List.pairwise_cons.1 hp2).1 n this

end inserts

/-! ### (d) removals -/

section removals
variable {t : KT}

theorem remove_at_gap (hc : CmpLaws t) (l1 l2 : Map) (e : Entry) (he : valid t e.1 = true)
    (hv1 : KeysValid t l1) (h1 : ∀ x ∈ l1, cmp t x.1 e.1 = .lt) :
    Spec.remove t (l1 ++ e :: l2) e.1 = (l1 ++ l2, some e.2) := by
  induction l1 with
  | nil => simp [Spec.remove, hc.refl _ he]
  | cons a l1 ih =>
    obtain ⟨k', v'⟩ := a
    obtain ⟨hk', hvr⟩ := keysValid_cons.1 hv1
    have hlt : cmp t k' e.1 = .lt := h1 (k', v') (by simp)
    have hgt : cmp t e.1 k' = .gt := (cmp_gt_iff hc he hk').2 hlt
    have := ih hvr (fun x hx => h1 x (by simp [hx]))
    simp [Spec.remove, hgt, this]

theorem removeNext_spec (hc : CmpLaws t) (c : Cursor) (e : Entry)
    (hs : Sorted t c.toMap) (hv : KeysValid t c.toMap) (h : peekNext c = some e) :
    (removeNext c).2 = some e ∧
    (removeNext c).1.toMap = (Spec.remove t c.toMap e.1).1 ∧ (Spec.remove t c.toMap e.1).2 = some e.2 ∧
    peekPrev (removeNext c).1 = peekPrev c ∧ peekNext (removeNext c).1 = c.toMap[c.gap + 1]? ∧
    (removeNext c).1.gap = c.gap := by
  obtain ⟨b, a⟩ := c
  cases a with
  | nil => simp [peekNext] at h
  | cons x rest =>
    simp only [peekNext, List.head?_cons, Option.some.injEq] at h
    subst h
    have hp := (sorted_iff_psorted hc _ hv).1 hs
    simp only [Cursor.toMap] at hp hv ⊢
    have h1 : ∀ y ∈ b.reverse, cmp t y.1 x.1 = .lt :=
      fun y hy => (List.pairwise_append.1 hp).2.2 y hy x (by simp)
    have hv1 : KeysValid t b.reverse := fun y hy => hv y (List.mem_append.2 (Or.inl hy))
    have hm := remove_at_gap hc b.reverse rest x (hv x (by simp)) hv1 h1
    refine ⟨rfl, ?_, by rw [hm], rfl, ?_, rfl⟩
    · simp only [removeNext]; rw [hm]
    · simp only [removeNext, peekNext, Cursor.gap]
      rw [List.getElem?_append_right (by simp)]
      simp [List.head?_eq_getElem?]

theorem removeNext_at_end (c : Cursor) (h : peekNext c = none) : removeNext c = (c, none) := by
  obtain ⟨b, a⟩ := c
  cases a with
  | nil => rfl
  | cons x rest => simp [peekNext] at h

theorem removePrev_spec (hc : CmpLaws t) (c : Cursor) (e : Entry)
    (hs : Sorted t c.toMap) (hv : KeysValid t c.toMap) (h : peekPrev c = some e) :
    (removePrev c).2 = some e ∧
    (removePrev c).1.toMap = (Spec.remove t c.toMap e.1).1 ∧ (Spec.remove t c.toMap e.1).2 = some e.2 ∧
    peekNext (removePrev c).1 = peekNext c ∧
    peekPrev (removePrev c).1 = (if c.gap ≤ 1 then none else c.toMap[c.gap - 2]?) ∧
    (removePrev c).1.gap + 1 = c.gap := by
  obtain ⟨b, a⟩ := c
  cases b with
  | nil => simp [peekPrev] at h
  | cons x rest =>
    simp only [peekPrev, List.head?_cons, Option.some.injEq] at h
    subst h
    have hp := (sorted_iff_psorted hc _ hv).1 hs
    simp only [Cursor.toMap, List.reverse_cons, List.append_assoc, List.singleton_append] at hp hv ⊢
    have h1 : ∀ y ∈ rest.reverse, cmp t y.1 x.1 = .lt :=
      fun y hy => (List.pairwise_append.1 hp).2.2 y hy x (by simp)
    have hv1 : KeysValid t rest.reverse := fun y hy => hv y (List.mem_append.2 (Or.inl hy))
    have hm := remove_at_gap hc rest.reverse a x (hv x (by simp)) hv1 h1
    refine ⟨rfl, ?_, by rw [hm], rfl, ?_, rfl⟩
    · simp only [removePrev]; rw [hm]
    · have hpp := peekPrev_eq_getElem { before := rest, after := x :: a }
      simp only [Cursor.gap, Cursor.toMap] at hpp
      simp only [removePrev, Cursor.gap, List.length_cons]
      have e1 : (peekPrev { before := rest, after := a } : Option Entry) = peekPrev { before := rest, after := x :: a } := rfl
      rw [e1, hpp]
      cases rest with
      | nil => simp
      | cons y ys => simp

theorem removePrev_at_start (c : Cursor) (h : peekPrev c = none) : removePrev c = (c, none) := by
  obtain ⟨b, a⟩ := c
  cases b with
  | nil => rfl
  | cons x rest => simp [peekPrev] at h

end removals

/-! ### (e) whole sessions -/

section sessions
variable {t : KT}

/-- the keys a script inserts are valid encodings of the key type -/
def OpValid (t : KT) : Op → Prop
  | .insertBefore k _ => valid t k = true
  | .insertAfter k _ => valid t k = true
  | _ => True

/-- one cursor call is the corresponding edit of the sorted map (or no edit), and keeps it sorted -/
theorem step_spec (hc : CmpLaws t) (c : Cursor) (op : Op)
    (hs : Sorted t c.toMap) (hv : KeysValid t c.toMap) (hop : OpValid t op) :
    (step t c op).toMap = (match editOf t c op with
                           | some e => applyEdit t c.toMap e
                           | none => c.toMap) ∧
    Sorted t (step t c op).toMap ∧ KeysValid t (step t c op).toMap := by
  cases op with
  | peekNext => exact ⟨rfl, hs, hv⟩
  | peekPrev => exact ⟨rfl, hs, hv⟩
  | next => simp only [step, editOf, next_toMap]; exact ⟨trivial, hs, hv⟩
  | prev => simp only [step, editOf, prev_toMap]; exact ⟨trivial, hs, hv⟩
  | insertBefore k v =>
    simp only [step, editOf]
    cases hib : insertBefore t c k v with
    | none =>
      have : ¬ fits t c k = true := by
        intro hf; have := (insertBefore_isSome_iff (t := t) c k v).2 hf; simp [hib] at this
      simp only [Option.getD_none, this, Bool.false_eq_true, if_false]
      exact ⟨trivial, hs, hv⟩
    | some c' =>
      have hf : fits t c k = true := (insertBefore_isSome_iff (t := t) c k v).1 (by simp [hib])
      obtain ⟨h1, _, h3, h4, _⟩ := insertBefore_spec hc c c' k v hs hv hop hib
      simp only [Option.getD_some, hf, if_true, applyEdit]
      exact ⟨h1, h3, h4⟩
  | insertAfter k v =>
    simp only [step, editOf]
    cases hib : insertAfter t c k v with
    | none =>
      have : ¬ fits t c k = true := by
        intro hf; have := (insertAfter_isSome_iff (t := t) c k v).2 hf; simp [hib] at this
      simp only [Option.getD_none, this, Bool.false_eq_true, if_false]
      exact ⟨trivial, hs, hv⟩
    | some c' =>
      have hf : fits t c k = true := (insertAfter_isSome_iff (t := t) c k v).1 (by simp [hib])
      obtain ⟨h1, _, h3, h4, _⟩ := insertAfter_spec hc c c' k v hs hv hop hib
      simp only [Option.getD_some, hf, if_true, applyEdit]
      exact ⟨h1, h3, h4⟩
  | removeNext =>
    simp only [step, editOf]
    cases hpn : peekNext c with
    | none =>
      rw [removeNext_at_end c hpn]
      exact ⟨rfl, hs, hv⟩
    | some e =>
      obtain ⟨_, h2, _⟩ := removeNext_spec hc c e hs hv hpn
      have hr := remove_sorted t hc c.toMap e.1 hs hv (hv e (by
        rw [peekNext_eq_getElem] at hpn; exact List.mem_of_getElem? hpn))
      simp only [Option.map_some, applyEdit]
      rw [h2]
      exact ⟨rfl, hr.1, hr.2⟩
  | removePrev =>
    simp only [step, editOf]
    cases hpn : peekPrev c with
    | none =>
      rw [removePrev_at_start c hpn]
      exact ⟨rfl, hs, hv⟩
    | some e =>
      obtain ⟨_, h2, _⟩ := removePrev_spec hc c e hs hv hpn
      have hmem : e ∈ c.toMap := by
        obtain ⟨b, a⟩ := c
        cases b with
        | nil => simp [peekPrev] at hpn
        | cons x rest => simp [peekPrev] at hpn; subst hpn; simp [Cursor.toMap]
      have hr := remove_sorted t hc c.toMap e.1 hs hv (hv e hmem)
      simp only [Option.map_some, applyEdit]
      rw [h2]
      exact ⟨rfl, hr.1, hr.2⟩

/-- Closing a cursor after any script leaves exactly the map obtained by applying the script's
accepted inserts and its removals to the sorted map one by one with `Spec.insert` / `Spec.remove`.
The specification applies every insert at once; the implementation's buffering of insert runs
(spliced on move / removal / direction switch / 1 MiB / close / drop) is therefore unobservable
if and only if the implementation agrees with this specification, which is what the
correspondence run checks. -/
theorem run_eq_edits (hc : CmpLaws t) (ops : List Op) (c : Cursor)
    (hs : Sorted t c.toMap) (hv : KeysValid t c.toMap) (hops : ∀ op ∈ ops, OpValid t op) :
    (run t c ops).toMap = applyEdits t c.toMap (edits t c ops) ∧
    Sorted t (run t c ops).toMap ∧ KeysValid t (run t c ops).toMap := by
  induction ops generalizing c with
  | nil => exact ⟨rfl, hs, hv⟩
  | cons op rest ih =>
    obtain ⟨s1, s2, s3⟩ := step_spec hc c op hs hv (hops op (by simp))
    obtain ⟨i1, i2, i3⟩ := ih (step t c op) s2 s3 (fun o ho => hops o (by simp [ho]))
    have hrun : run t c (op :: rest) = run t (step t c op) rest := rfl
    rw [hrun]
    refine ⟨?_, i2, i3⟩
    rw [i1, s1]
    simp only [edits]
    cases editOf t c op <;> simp [applyEdits]

/-! #### batching: a run of `insert_before` spliced at once -/

/-- `insert_before` of every entry of `r` in turn; `none` as soon as one is rejected -/
def insertRunBefore (t : KT) (c : Cursor) : List Entry → Option Cursor
  | [] => some c
  | e :: rest =>
    match insertBefore t c e.1 e.2 with
    | some c' => insertRunBefore t c' rest
    | none => none

/-- `insert_after` of every entry of `r` in turn (so `r` is descending) -/
def insertRunAfter (t : KT) (c : Cursor) : List Entry → Option Cursor
  | [] => some c
  | e :: rest =>
    match insertAfter t c e.1 e.2 with
    | some c' => insertRunAfter t c' rest
    | none => none

/-- An accepted ascending run is the splice `before ++ run ++ after` (what `splice_insert_run`
builds in one pass) and equals inserting its entries one at a time with `Spec.insert`; the gap
ends up after the run. -/
theorem insertRunBefore_spec (hc : CmpLaws t) (r : List Entry) (c c' : Cursor)
    (hs : Sorted t c.toMap) (hv : KeysValid t c.toMap) (hr : ∀ e ∈ r, valid t e.1 = true)
    (h : insertRunBefore t c r = some c') :
    c'.before = r.reverse ++ c.before ∧ c'.after = c.after ∧
    c'.toMap = r.foldl (fun m e => (Spec.insert t m e.1 e.2).1) c.toMap ∧
    Sorted t c'.toMap ∧ KeysValid t c'.toMap := by
  induction r generalizing c with
  | nil => simp only [insertRunBefore, Option.some.injEq] at h; subst h; simp [hs, hv]
  | cons e rest ih =>
    simp only [insertRunBefore] at h
    cases hib : insertBefore t c e.1 e.2 with
    | none => simp [hib] at h
    | some c1 =>
      simp only [hib] at h
      obtain ⟨h1, _, h3, h4, _⟩ := insertBefore_spec hc c c1 e.1 e.2 hs hv (hr e (by simp)) hib
      obtain ⟨i1, i2, i3, i4, i5⟩ := ih c1 h3 h4 (fun x hx => hr x (by simp [hx])) h
      have hb : c1.before = e :: c.before ∧ c1.after = c.after := by
        unfold insertBefore at hib
        split at hib
        · simp only [Option.some.injEq] at hib; subst hib; exact ⟨rfl, rfl⟩
        · simp at hib
      refine ⟨by rw [i1, hb.1]; simp, by rw [i2, hb.2], ?_, i4, i5⟩
      rw [i3, h1]; rfl

theorem insertRunAfter_spec (hc : CmpLaws t) (r : List Entry) (c c' : Cursor)
    (hs : Sorted t c.toMap) (hv : KeysValid t c.toMap) (hr : ∀ e ∈ r, valid t e.1 = true)
    (h : insertRunAfter t c r = some c') :
    c'.before = c.before ∧ c'.after = r.reverse ++ c.after ∧
    c'.toMap = r.foldl (fun m e => (Spec.insert t m e.1 e.2).1) c.toMap ∧
    Sorted t c'.toMap ∧ KeysValid t c'.toMap := by
  induction r generalizing c with
  | nil => simp only [insertRunAfter, Option.some.injEq] at h; subst h; simp [hs, hv]
  | cons e rest ih =>
    simp only [insertRunAfter] at h
    cases hib : insertAfter t c e.1 e.2 with
    | none => simp [hib] at h
    | some c1 =>
      simp only [hib] at h
      obtain ⟨h1, _, h3, h4, _⟩ := insertAfter_spec hc c c1 e.1 e.2 hs hv (hr e (by simp)) hib
      obtain ⟨i1, i2, i3, i4, i5⟩ := ih c1 h3 h4 (fun x hx => hr x (by simp [hx])) h
      have hb : c1.before = c.before ∧ c1.after = e :: c.after := by
        unfold insertAfter at hib
        split at hib
        · simp only [Option.some.injEq] at hib; subst hib; exact ⟨rfl, rfl⟩
        · simp at hib
      refine ⟨by rw [i1, hb.1], by rw [i2, hb.2]; simp, ?_, i4, i5⟩
      rw [i3, h1]; rfl

end sessions

end Redb.CursorSpec
