import RedbModel.Lemmas.Life2Inv
/-! Elementary facts about the list-as-set operations of `Redb.Life2` and about `owned`. -/
namespace Redb.Life2

/-! ### membership -/

@[simp] theorem mem_diff {a b : List Nat} {p : Nat} : p ∈ diff a b ↔ p ∈ a ∧ p ∉ b := by
  simp [diff]

@[simp] theorem mem_inter {a b : List Nat} {p : Nat} : p ∈ inter a b ↔ p ∈ a ∧ p ∈ b := by
  simp [inter]

theorem mem_pagesOf {r : List (Nat × Nat)} {p : Nat} : p ∈ pagesOf r ↔ ∃ t, (t, p) ∈ r := by
  simp [pagesOf]

theorem mem_pagesOf' {r : List (Nat × Nat)} {p : Nat} : p ∈ pagesOf r ↔ ∃ e ∈ r, e.2 = p := by
  simp [pagesOf]

theorem mem_idsOf {r : List (Nat × Nat)} {t : Nat} : t ∈ idsOf r ↔ ∃ e ∈ r, e.1 = t := by
  simp [idsOf]

@[simp] theorem mem_tag {t : Nat} {ps : List Nat} {e : Nat × Nat} : e ∈ tag t ps ↔ e.1 = t ∧ e.2 ∈ ps := by
  obtain ⟨a, b⟩ := e
  simp [tag]
  grind

@[simp] theorem mem_below {h : Nat} {r : List (Nat × Nat)} {e : Nat × Nat} :
    e ∈ below h r ↔ e ∈ r ∧ e.1 < h := by simp [below]

@[simp] theorem mem_notBelow {h : Nat} {r : List (Nat × Nat)} {e : Nat × Nat} :
    e ∈ notBelow h r ↔ e ∈ r ∧ ¬ e.1 < h := by simp [notBelow]

@[simp] theorem mem_above {t : Nat} {r : List (Nat × Nat)} {e : Nat × Nat} :
    e ∈ above t r ↔ e ∈ r ∧ t < e.1 := by simp [above]

@[simp] theorem mem_upTo {t : Nat} {r : List (Nat × Nat)} {e : Nat × Nat} :
    e ∈ upTo t r ↔ e ∈ r ∧ e.1 ≤ t := by simp [upTo]

@[simp] theorem mem_dropPages {r : List (Nat × Nat)} {ps : List Nat} {e : Nat × Nat} :
    e ∈ dropPages r ps ↔ e ∈ r ∧ e.2 ∉ ps := by simp [dropPages]

@[simp] theorem mem_dropIds {l ids : List Nat} {i : Nat} : i ∈ dropIds l ids ↔ i ∈ l ∧ i ∉ ids := by
  simp [dropIds]

@[simp] theorem pagesOf_append {a b : List (Nat × Nat)} : pagesOf (a ++ b) = pagesOf a ++ pagesOf b := by
  simp [pagesOf]

@[simp] theorem pagesOf_tag {t : Nat} {ps : List Nat} : pagesOf (tag t ps) = ps := by
  simp [pagesOf, tag, Function.comp_def]

@[simp] theorem pagesOf_nil : pagesOf [] = [] := rfl

theorem mem_purge {h : Option Nat} {r : List (Nat × Nat)} {e : Nat × Nat} :
    e ∈ purge h r ↔ e ∈ r ∧ ∃ x, h = some x ∧ x ≤ e.1 := by
  cases h <;> simp [purge]

/-! ### duplicate-freeness -/

theorem diff_nodup {a b : List Nat} (h : a.Nodup) : (diff a b).Nodup := h.filter _

theorem inter_nodup {a b : List Nat} (h : a.Nodup) : (inter a b).Nodup := h.filter _

theorem pagesOf_filter_nodup {r : List (Nat × Nat)} (f : Nat × Nat → Bool) (h : (pagesOf r).Nodup) :
    (pagesOf (r.filter f)).Nodup := by
  unfold pagesOf at *
  exact h.sublist (List.filter_sublist.map _)

theorem pagesOf_below_nodup {r : List (Nat × Nat)} {x : Nat} (h : (pagesOf r).Nodup) : (pagesOf (below x r)).Nodup :=
  pagesOf_filter_nodup _ h
theorem pagesOf_notBelow_nodup {r : List (Nat × Nat)} {x : Nat} (h : (pagesOf r).Nodup) : (pagesOf (notBelow x r)).Nodup :=
  pagesOf_filter_nodup _ h
theorem pagesOf_above_nodup {r : List (Nat × Nat)} {x : Nat} (h : (pagesOf r).Nodup) : (pagesOf (above x r)).Nodup :=
  pagesOf_filter_nodup _ h
theorem pagesOf_upTo_nodup {r : List (Nat × Nat)} {x : Nat} (h : (pagesOf r).Nodup) : (pagesOf (upTo x r)).Nodup :=
  pagesOf_filter_nodup _ h
theorem pagesOf_dropPages_nodup {r : List (Nat × Nat)} {ps : List Nat} (h : (pagesOf r).Nodup) :
    (pagesOf (dropPages r ps)).Nodup := pagesOf_filter_nodup _ h

theorem pagesOf_purge_nodup {r : List (Nat × Nat)} {h : Option Nat} (hn : (pagesOf r).Nodup) :
    (pagesOf (purge h r)).Nodup := by
  cases h with
  | none => simp [purge]
  | some x => exact pagesOf_notBelow_nodup hn

/-- in a table that names each page once, a page determines its entry -/
theorem pagesOf_nodup_inj {r : List (Nat × Nat)} (h : (pagesOf r).Nodup) {e e' : Nat × Nat}
    (he : e ∈ r) (he' : e' ∈ r) (hp : e.2 = e'.2) : e = e' := by
  induction r with
  | nil => cases he
  | cons x xs ih =>
    have h' : (x.2 :: pagesOf xs).Nodup := h
    have hx : ∀ a ∈ xs, ¬ a.2 = x.2 := by
      intro a ha hax
      exact (List.nodup_cons.mp h').1 (List.mem_map.mpr ⟨a, ha, hax⟩)
    have hxs : (pagesOf xs).Nodup := (List.nodup_cons.mp h').2
    rcases List.mem_cons.mp he with h1 | h1 <;> rcases List.mem_cons.mp he' with h2 | h2
    · rw [h1, h2]
    · exact absurd (by rw [← hp, h1]) (hx e' h2)
    · exact absurd (by rw [hp, h2]) (hx e h1)
    · exact ih hxs h1 h2

theorem nodup_append_iff {a b : List Nat} :
    (a ++ b).Nodup ↔ a.Nodup ∧ b.Nodup ∧ ∀ p, p ∈ a → p ∉ b := by
  rw [List.nodup_append]
  constructor
  · rintro ⟨h1, h2, h3⟩
    exact ⟨h1, h2, fun p hp hq => h3 p hp p hq rfl⟩
  · rintro ⟨h1, h2, h3⟩
    exact ⟨h1, h2, fun x hx y hy hxy => h3 x hx (hxy ▸ hy)⟩

/-- "no page has two owners", spelled out: each of the five owner lists names a page at most once
and no page is named by two of them -/
theorem owned_nodup_iff {s : St} :
    (owned s).Nodup ↔
      s.data.Nodup ∧ s.sys.Nodup ∧ (pagesOf s.dfreed).Nodup ∧ (pagesOf s.sfreed).Nodup ∧
      (pagesOf s.udfreed).Nodup ∧
      (∀ p, p ∈ s.data → p ∉ s.sys ∧ p ∉ pagesOf s.dfreed ∧ p ∉ pagesOf s.sfreed ∧ p ∉ pagesOf s.udfreed) ∧
      (∀ p, p ∈ s.sys → p ∉ pagesOf s.dfreed ∧ p ∉ pagesOf s.sfreed ∧ p ∉ pagesOf s.udfreed) ∧
      (∀ p, p ∈ pagesOf s.dfreed → p ∉ pagesOf s.sfreed ∧ p ∉ pagesOf s.udfreed) ∧
      (∀ p, p ∈ pagesOf s.sfreed → p ∉ pagesOf s.udfreed) := by
  unfold owned
  simp only [nodup_append_iff, List.mem_append]
  constructor
  · rintro ⟨⟨⟨⟨h1, h2, h12⟩, h3, h123⟩, h4, h1234⟩, h5, h12345⟩
    refine ⟨h1, h2, h3, h4, h5, ?_, ?_, ?_, ?_⟩
    · intro p hp
      exact ⟨h12 p hp, h123 p (Or.inl hp), h1234 p (Or.inl (Or.inl hp)), h12345 p (Or.inl (Or.inl (Or.inl hp)))⟩
    · intro p hp
      exact ⟨h123 p (Or.inr hp), h1234 p (Or.inl (Or.inr hp)), h12345 p (Or.inl (Or.inl (Or.inr hp)))⟩
    · intro p hp
      exact ⟨h1234 p (Or.inr hp), h12345 p (Or.inl (Or.inr hp))⟩
    · intro p hp
      exact h12345 p (Or.inr hp)
  · rintro ⟨h1, h2, h3, h4, h5, a, b, c, d⟩
    refine ⟨⟨⟨⟨h1, h2, fun p hp => (a p hp).1⟩, h3, ?_⟩, h4, ?_⟩, h5, ?_⟩
    · rintro p (hp | hp)
      · exact (a p hp).2.1
      · exact (b p hp).1
    · rintro p ((hp | hp) | hp)
      · exact (a p hp).2.2.1
      · exact (b p hp).2.1
      · exact (c p hp).1
    · rintro p (((hp | hp) | hp) | hp)
      · exact (a p hp).2.2.2
      · exact (b p hp).2.2
      · exact (c p hp).2
      · exact d p hp

theorem mem_owned {s : St} {p : Nat} :
    p ∈ owned s ↔ p ∈ s.data ∨ p ∈ s.sys ∨ p ∈ pagesOf s.dfreed ∨ p ∈ pagesOf s.sfreed ∨ p ∈ pagesOf s.udfreed := by
  unfold owned
  simp only [List.mem_append, or_assoc]

/-! ### minimum -/

theorem minOpt_eq_none {l : List Nat} : minOpt l = none ↔ l = [] := by
  cases l with
  | nil => simp [minOpt]
  | cons x xs =>
    simp only [minOpt]
    split <;> simp

theorem minOpt_le {l : List Nat} {m x : Nat} (h : minOpt l = some m) (hx : x ∈ l) : m ≤ x := by
  induction l generalizing m with
  | nil => cases hx
  | cons y ys ih =>
    simp only [minOpt] at h
    split at h
    · next hn =>
      have : ys = [] := minOpt_eq_none.mp hn
      subst this
      simp at hx
      simp at h
      omega
    · next m' hm =>
      simp at h
      rcases List.mem_cons.mp hx with rfl | hx
      · omega
      · have := ih hm hx
        omega

theorem minOpt_mem {l : List Nat} {m : Nat} (h : minOpt l = some m) : m ∈ l := by
  induction l generalizing m with
  | nil => simp [minOpt] at h
  | cons y ys ih =>
    simp only [minOpt] at h
    split at h
    · simp at h; simp [h]
    · next m' hm =>
      simp at h
      have := ih hm
      rcases Nat.le_total y m' with hle | hle
      · rw [Nat.min_eq_left hle] at h; simp [h]
      · rw [Nat.min_eq_right hle] at h; subst h; simp [this]

/-- the free horizon of a durable commit does not pass a live read reference -/
theorem freeUntil_le_live {s : St} {n i : Nat} (hi : i ∈ liveIds s) : freeUntil s n ≤ i + 1 := by
  unfold freeUntil
  split
  · next x hx => have := minOpt_le hx hi; omega
  · next hn => rw [minOpt_eq_none.mp hn] at hi; cases hi

/-- ... nor the committing transaction, if every reference is on an older commit -/
theorem freeUntil_le {s : St} {n : Nat} (h : ∀ i ∈ liveIds s, i < n) : freeUntil s n ≤ n := by
  unfold freeUntil
  split
  · next x hx => have := h x (minOpt_mem hx); omega
  · omega

theorem freeUntil_nil {s : St} {n : Nat} (h : liveIds s = []) : freeUntil s n = n := by
  unfold freeUntil
  rw [h]
  rfl

theorem freeUntilND_le_live {s : St} {n i : Nat} (hi : i ∈ liveIds s) (hp : i ∈ idsOf s.pend) :
    freeUntilND s n ≤ i + 1 := by
  unfold freeUntilND
  split
  · next x hx =>
    have : i ∈ (liveIds s).filter (fun i => decide (i ∈ idsOf s.pend)) := by simp [hi, hp]
    have := minOpt_le hx this
    omega
  · next hn =>
    have : i ∈ (liveIds s).filter (fun i => decide (i ∈ idsOf s.pend)) := by simp [hi, hp]
    rw [minOpt_eq_none.mp hn] at this
    cases this

theorem freeUntilND_le {s : St} {n : Nat} (h : ∀ i ∈ liveIds s, i < n) : freeUntilND s n ≤ n := by
  unfold freeUntilND
  split
  · next x hx =>
    have hm := minOpt_mem hx
    have := h x (List.mem_filter.mp hm).1
    omega
  · omega

/-! ### pins -/

theorem mem_pins {s : St} {π : Nat × List Nat} :
    π ∈ pins s ↔ (∃ r ∈ s.readers, π = (r.id, r.pages)) ∨ (∃ sp ∈ s.sps, π = (sp.id, sp.pages)) := by
  unfold pins
  simp only [List.mem_append, List.mem_map]
  constructor
  · rintro (⟨r, hr, rfl⟩ | ⟨sp, hsp, rfl⟩)
    · exact Or.inl ⟨r, hr, rfl⟩
    · exact Or.inr ⟨sp, hsp, rfl⟩
  · rintro (⟨r, hr, rfl⟩ | ⟨sp, hsp, rfl⟩)
    · exact Or.inl ⟨r, hr, rfl⟩
    · exact Or.inr ⟨sp, hsp, rfl⟩

/-- every pinned snapshot holds a live read reference -/
theorem pin_live {s : St} {π : Nat × List Nat} (h : π ∈ pins s) : π.1 ∈ liveIds s := by
  unfold liveIds
  rcases mem_pins.mp h with ⟨r, hr, rfl⟩ | ⟨sp, hsp, rfl⟩
  · simp only [List.mem_append, List.mem_map]
    exact Or.inl (Or.inl ⟨r, hr, rfl⟩)
  · simp only [List.mem_append, List.mem_map]
    exact Or.inl (Or.inr ⟨sp, hsp, rfl⟩)

theorem mem_liveIds {s : St} {i : Nat} :
    i ∈ liveIds s ↔ (∃ π ∈ pins s, π.1 = i) ∨ (∃ e ∈ s.pend, e.2 = i) := by
  unfold liveIds pins
  simp only [List.mem_append, List.mem_map]
  constructor
  · rintro ((⟨r, hr, rfl⟩ | ⟨sp, hsp, rfl⟩) | ⟨e, he, rfl⟩)
    · exact Or.inl ⟨_, Or.inl ⟨r, hr, rfl⟩, rfl⟩
    · exact Or.inl ⟨_, Or.inr ⟨sp, hsp, rfl⟩, rfl⟩
    · exact Or.inr ⟨e, he, rfl⟩
  · rintro (⟨π, (⟨r, hr, rfl⟩ | ⟨sp, hsp, rfl⟩), rfl⟩ | ⟨e, he, rfl⟩)
    · exact Or.inl (Or.inl ⟨r, hr, rfl⟩)
    · exact Or.inl (Or.inr ⟨sp, hsp, rfl⟩)
    · exact Or.inr ⟨e, he, rfl⟩

/-- a held page is owned -/
theorem held_owned {s : St} {i p : Nat} (h : held s i p) : p ∈ owned s := by
  rw [mem_owned]
  rcases h with h | ⟨e, he, _, rfl⟩ | ⟨e, he, _, rfl⟩
  · exact Or.inl h
  · exact Or.inr (Or.inr (Or.inl (mem_pagesOf'.mpr ⟨e, he, rfl⟩)))
  · exact Or.inr (Or.inr (Or.inr (Or.inr (mem_pagesOf'.mpr ⟨e, he, rfl⟩))))

theorem sysHeld_owned {s : St} {i p : Nat} (h : sysHeld s i p) : p ∈ owned s := by
  rw [mem_owned]
  rcases h with h | ⟨e, he, _, rfl⟩
  · exact Or.inr (Or.inl h)
  · exact Or.inr (Or.inr (Or.inr (Or.inl (mem_pagesOf'.mpr ⟨e, he, rfl⟩))))

/-- `held` is monotone in the age of the snapshot -/
theorem held_mono {s : St} {i j p : Nat} (hij : j ≤ i) (h : held s i p) : held s j p := by
  rcases h with h | ⟨e, he, hlt, rfl⟩ | ⟨e, he, hlt, rfl⟩
  · exact Or.inl h
  · exact Or.inr (Or.inl ⟨e, he, by omega, rfl⟩)
  · exact Or.inr (Or.inr ⟨e, he, by omega, rfl⟩)

/-! ### savepoint order and the purge horizon -/

theorem sp_sorted_id_le {l : List Sp} (h : l.Pairwise (fun a b => a.sid < b.sid ∧ a.id ≤ b.id))
    {x y : Sp} (hx : x ∈ l) (hy : y ∈ l) (hxy : x.sid ≤ y.sid) : x.id ≤ y.id := by
  induction l with
  | nil => cases hx
  | cons a as ih =>
    rw [List.pairwise_cons] at h
    rcases List.mem_cons.mp hx with h1 | h1 <;> rcases List.mem_cons.mp hy with h2 | h2
    · rw [h1, h2]; exact Nat.le_refl _
    · rw [h1]; exact (h.1 y h2).2
    · have := (h.1 x h1).1
      rw [h2] at hxy
      omega
    · exact ih h.2 h1 h2

theorem sp_sorted_sid_inj {l : List Sp} (h : l.Pairwise (fun a b => a.sid < b.sid ∧ a.id ≤ b.id))
    {x y : Sp} (hx : x ∈ l) (hy : y ∈ l) (hxy : x.sid = y.sid) : x = y := by
  induction l with
  | nil => cases hx
  | cons a as ih =>
    rw [List.pairwise_cons] at h
    rcases List.mem_cons.mp hx with h1 | h1 <;> rcases List.mem_cons.mp hy with h2 | h2
    · rw [h1, h2]
    · have := (h.1 y h2).1; rw [h1] at hxy; omega
    · have := (h.1 x h1).1; rw [h2] at hxy; omega
    · exact ih h.2 h1 h2

/-- the horizon is the transaction id of a savepoint in the list ... -/
theorem spHorizon_mem {sps : List Sp} {w : W} {h : Nat} (hh : spHorizon sps w = some h) :
    ∃ x ∈ sps, x.id = h := by
  unfold spHorizon at hh
  cases hf : (sps.filter (fun sp => sp.valid && decide (sp.sid ∉ w.deleted))).head? with
  | none => rw [hf] at hh; cases hh
  | some x =>
    rw [hf] at hh
    simp only [Option.map_some, Option.some.injEq] at hh
    exact ⟨x, (List.mem_filter.mp (List.mem_of_head? hf)).1, hh⟩

/-- ... and, the list being ordered, not after any savepoint that stays valid -/
theorem spHorizon_le {sps : List Sp} {w : W}
    (hs : sps.Pairwise (fun a b => a.sid < b.sid ∧ a.id ≤ b.id)) {x : Sp} (hx : x ∈ sps)
    (hv : x.valid = true) (hd : x.sid ∉ w.deleted) : ∃ h, spHorizon sps w = some h ∧ h ≤ x.id := by
  unfold spHorizon
  have hxf : x ∈ sps.filter (fun sp => sp.valid && decide (sp.sid ∉ w.deleted)) := by
    simp [List.mem_filter, hx, hv, hd]
  have hsf := hs.filter (fun sp => sp.valid && decide (sp.sid ∉ w.deleted))
  cases hl : sps.filter (fun sp => sp.valid && decide (sp.sid ∉ w.deleted)) with
  | nil => rw [hl] at hxf; cases hxf
  | cons a as =>
    rw [hl] at hxf hsf
    refine ⟨a.id, rfl, ?_⟩
    rcases List.mem_cons.mp hxf with h1 | h1
    · rw [h1]; exact Nat.le_refl _
    · exact ((List.pairwise_cons.mp hsf).1 x h1).2

/-- fewer savepoints to account for: a weaker invariant -/
theorem Core.dead_mono {cur : Nat} {dead : List Nat} {s : St} (h : Core cur [] s) : Core cur dead s :=
  { h with sp_complete := fun sp hsp hv _ => h.sp_complete sp hsp hv (List.not_mem_nil) }

end Redb.Life2
