import RedbModel.Model.Backend
import RedbModel.Model.Format
/-
Lemmas behind property C20 ("the storage backend is used according to its contract").

Part 1: declarative reading of the call-stream automaton `Redb.Backend.run`: the run-length
encoded stream is expanded to the plain list of calls, and the three counters are characterised
as list functions of that expansion.
Part 2: region-layout arithmetic of `Redb.Format.Layout`: a page that is `inRange` lies entirely
inside `fileLen`, above the super header and its region header; pages of different regions (and
pages of one region with disjoint base-page intervals) have disjoint address ranges.
-/
namespace Redb.Backend

/-! ## Part 1: the temporal automaton -/

/-- the plain call sequence denoted by a run-length encoded stream -/
def expand : List (Call × Nat) → List Call
  | [] => []
  | cn :: rest => List.replicate cn.2 cn.1 ++ expand rest

/-- everything strictly after the first `close` (empty when there is no `close`) -/
def afterFirstClose (l : List Call) : List Call := (l.dropWhile (· != .close)).drop 1

/-- the calls other than `close` in a list -/
def nonClose (l : List Call) : List Call := l.filter (· != .close)

/-- number of calls other than `close` issued after the first `close` -/
def afterCloseCount (l : List Call) : Nat := (nonClose (afterFirstClose l)).length

/-- the automaton on the plain call sequence, one call at a time, from state `s` -/
def runFrom (s : BState) (l : List Call) : BState := l.foldl (fun s c => step s c 1) s

theorem step_zero (s : BState) (c : Call) : step s c 0 = s := by
  cases c <;> simp [step]

theorem step_succ (s : BState) (c : Call) (n : Nat) : step s c (n + 1) = step (step s c 1) c n := by
  cases s with | mk a b m =>
  cases c <;> simp [step, Call.mutates] <;> (try split) <;> omega

theorem runFrom_replicate (c : Call) : ∀ (n : Nat) (s : BState),
    runFrom s (List.replicate n c) = step s c n
  | 0, s => by simp [runFrom, step_zero]
  | n + 1, s => by
    have ih := runFrom_replicate c n (step s c 1)
    rw [step_succ, ← ih]
    simp [runFrom, List.replicate_succ]

theorem runFrom_append (s : BState) (a b : List Call) :
    runFrom s (a ++ b) = runFrom (runFrom s a) b := by
  simp [runFrom]

theorem foldl_eq_runFrom : ∀ (calls : List (Call × Nat)) (s : BState),
    calls.foldl (fun s c => step s c.1 c.2) s = runFrom s (expand calls)
  | [], s => by simp [expand, runFrom]
  | cn :: rest, s => by
    simp only [List.foldl_cons, expand, runFrom_append, runFrom_replicate]
    exact foldl_eq_runFrom rest _

/-- the run-length encoded automaton is the one-call-at-a-time automaton on the expansion -/
theorem run_eq_runFrom (calls : List (Call × Nat)) : run calls = runFrom {} (expand calls) :=
  foldl_eq_runFrom calls {}

instance : LawfulBEq Call where
  eq_of_beq {a b} h := by cases a <;> cases b <;> first | rfl | exact absurd h (by decide)
  rfl {a} := by cases a <;> decide

theorem ne_close_beq {c : Call} : (c != Call.close) = true ↔ c ≠ .close := by
  cases c <;> decide

theorem nonClose_cons_close (l : List Call) : nonClose (.close :: l) = nonClose l := by
  simp [nonClose]

theorem nonClose_cons_ne {c : Call} (h : c ≠ .close) (l : List Call) :
    nonClose (c :: l) = c :: nonClose l := by
  simp [nonClose, ne_close_beq.2 h]

theorem afterFirstClose_cons_close (l : List Call) : afterFirstClose (.close :: l) = l := by
  simp [afterFirstClose]

theorem afterFirstClose_cons_ne {c : Call} (h : c ≠ .close) (l : List Call) :
    afterFirstClose (c :: l) = afterFirstClose l := by
  simp [afterFirstClose, ne_close_beq.2 h]

/-- the `dropWhile` definition agrees with the decomposition at the first `close` -/
theorem afterFirstClose_spec : ∀ (pre post : List Call), Call.close ∉ pre →
    afterFirstClose (pre ++ .close :: post) = post
  | [], post, _ => afterFirstClose_cons_close post
  | c :: pre, post, h => by
    have hc : c ≠ .close := fun e => h (by simp [e])
    have hp : Call.close ∉ pre := fun m => h (List.mem_cons_of_mem _ m)
    simpa [afterFirstClose_cons_ne hc] using afterFirstClose_spec pre post hp

theorem afterFirstClose_no_close : ∀ (l : List Call), Call.close ∉ l → afterFirstClose l = []
  | [], _ => rfl
  | c :: l, h => by
    have hc : c ≠ .close := fun e => h (by simp [e])
    have hp : Call.close ∉ l := fun m => h (List.mem_cons_of_mem _ m)
    simpa [afterFirstClose_cons_ne hc] using afterFirstClose_no_close l hp

/-- every list containing a `close` splits at its first `close` -/
theorem exists_first_close : ∀ (l : List Call), Call.close ∈ l →
    ∃ pre, l = pre ++ .close :: afterFirstClose l ∧ Call.close ∉ pre
  | [], h => by simp at h
  | c :: l, h => by
    by_cases hc : c = .close
    · subst hc; exact ⟨[], by simp [afterFirstClose_cons_close]⟩
    · have hl : Call.close ∈ l := by
        rcases List.mem_cons.1 h with e | m
        · exact absurd e.symm hc
        · exact m
      obtain ⟨pre, e, hp⟩ := exists_first_close l hl
      refine ⟨c :: pre, ?_, ?_⟩
      · rw [afterFirstClose_cons_ne hc, List.cons_append, ← e]
      · intro m
        rcases List.mem_cons.1 m with e' | m'
        · exact hc e'.symm
        · exact hp m'

/-- the three counters after running the plain call sequence `l` from state `s` -/
theorem runFrom_spec : ∀ (l : List Call) (s : BState),
    (runFrom s l).closes = s.closes + l.count .close ∧
    (runFrom s l).mutations = s.mutations + (l.filter Call.mutates).length ∧
    (runFrom s l).afterClose = s.afterClose +
      (if s.closes > 0 then (nonClose l).length else afterCloseCount l)
  | [], s => by simp [runFrom, nonClose, afterCloseCount, afterFirstClose]
  | c :: l, s => by
    obtain ⟨h1, h2, h3⟩ := runFrom_spec l (step s c 1)
    have hr : runFrom s (c :: l) = runFrom (step s c 1) l := rfl
    rw [hr, h1, h2, h3]
    by_cases hc : c = .close
    · subst hc
      simp [step, Call.mutates, nonClose_cons_close, afterCloseCount, afterFirstClose_cons_close]
      omega
    · have hcount : (c :: l).count .close = l.count .close := by
        rw [List.count_cons]; simp [hc]
      have hstep : (step s c 1).closes = s.closes ∧
          (step s c 1).mutations = (if c.mutates then s.mutations + 1 else s.mutations) ∧
          (step s c 1).afterClose = (if s.closes > 0 then s.afterClose + 1 else s.afterClose) := by
        cases c <;> first | exact absurd rfl hc | simp [step]
      obtain ⟨e1, e2, e3⟩ := hstep
      rw [e1, e2, e3, hcount]
      refine ⟨rfl, ?_, ?_⟩
      · rw [List.filter_cons]; split <;> simp <;> omega
      · simp only [afterCloseCount, afterFirstClose_cons_ne hc, nonClose_cons_ne hc,
          List.length_cons]
        split <;> omega

theorem count_zero_nonClose_nil : ∀ (l : List Call), l.count .close = 0 → (nonClose l).length = 0 →
    l = []
  | [], _, _ => rfl
  | c :: l, h1, h2 => by
    by_cases hc : c = .close
    · subst hc; simp at h1
    · simp [nonClose_cons_ne hc] at h2

/-- exactly one `close` and nothing but `close` after the first one: the `close` is the last call -/
theorem close_last_of_counts : ∀ (l : List Call), l.count .close = 1 → afterCloseCount l = 0 →
    ∃ pre, l = pre ++ [.close] ∧ Call.close ∉ pre
  | [], h, _ => by simp at h
  | c :: l, h1, h2 => by
    by_cases hc : c = .close
    · subst hc
      have h1' : l.count .close = 0 := by simpa using h1
      have h2' : (nonClose l).length = 0 := by
        simpa [afterCloseCount, afterFirstClose_cons_close] using h2
      exact ⟨[], by simp [count_zero_nonClose_nil l h1' h2']⟩
    · have h1' : l.count .close = 1 := by
        rw [List.count_cons] at h1; simpa [hc] using h1
      have h2' : afterCloseCount l = 0 := by
        simpa [afterCloseCount, afterFirstClose_cons_ne hc] using h2
      obtain ⟨pre, e, hp⟩ := close_last_of_counts l h1' h2'
      refine ⟨c :: pre, by simp [e], ?_⟩
      intro m
      rcases List.mem_cons.1 m with e' | m'
      · exact hc e'.symm
      · exact hp m'

/-- converse: a sequence ending in its only `close` has the accepting counters -/
theorem counts_of_close_last (pre : List Call) (hp : Call.close ∉ pre) :
    (pre ++ [Call.close]).count Call.close = 1 ∧ afterCloseCount (pre ++ [Call.close]) = 0 := by
  refine ⟨?_, ?_⟩
  · rw [List.count_append, List.count_eq_zero_of_not_mem hp]; simp
  · simp [afterCloseCount, afterFirstClose_spec pre [] hp, nonClose]

end Redb.Backend

namespace Redb.Format

/-! ## Part 2: region-layout arithmetic -/

/-- first byte of the data section of region `r` -/
def Layout.dataBase (l : Layout) (r : Nat) : Nat :=
  l.pageSize + r * (l.regionHeaderPages + l.regionMaxDataPages) * l.pageSize
    + l.regionHeaderPages * l.pageSize

/-- first byte of region `r` (its region header) -/
def Layout.regionBase (l : Layout) (r : Nat) : Nat :=
  l.pageSize + r * (l.regionHeaderPages + l.regionMaxDataPages) * l.pageSize

/-- end of the data section of region `r` -/
def Layout.dataEnd (l : Layout) (r : Nat) : Nat := l.dataBase r + l.regionPages r * l.pageSize

/-- the address range of a page is the affine image of its base-page interval
`[index * 2^order, (index + 1) * 2^order)` inside the data section of its region -/
theorem pageAddr_eq (l : Layout) (p : PageNumber) :
    (l.pageAddr p).1 = l.dataBase p.region + (p.index * 2 ^ p.order) * l.pageSize ∧
    (l.pageAddr p).1 + (l.pageAddr p).2 = l.dataBase p.region + ((p.index + 1) * 2 ^ p.order) * l.pageSize := by
  have e1 : p.index * (l.pageSize * 2 ^ p.order) = (p.index * 2 ^ p.order) * l.pageSize := by
    rw [Nat.mul_comm l.pageSize, Nat.mul_assoc]
  have e2 : (p.index + 1) * 2 ^ p.order * l.pageSize
      = (p.index * 2 ^ p.order) * l.pageSize + l.pageSize * 2 ^ p.order := by
    rw [Nat.add_mul, Nat.add_mul, Nat.one_mul, Nat.mul_comm (2 ^ p.order)]
  simp only [Layout.pageAddr, Layout.dataBase]
  omega

theorem inRange_iff (l : Layout) (p : PageNumber) :
    l.inRange p = true ↔
      p.order ≤ 20 ∧ p.region < l.numRegions ∧ (p.index + 1) * 2 ^ p.order ≤ l.regionPages p.region := by
  simp [Layout.inRange, and_assoc]

/-- the data section of a full region ends where the next region starts -/
theorem dataEnd_full (l : Layout) (r : Nat) (h : r < l.numFullRegions) :
    l.dataEnd r = l.regionBase (r + 1) := by
  simp only [Layout.dataEnd, Layout.dataBase, Layout.regionBase, Layout.regionPages, h, if_true]
  rw [Nat.add_mul r 1, Nat.one_mul, Nat.add_mul (r * _), Nat.add_mul l.regionHeaderPages]
  omega

theorem regionBase_mono (l : Layout) {r r' : Nat} (h : r ≤ r') : l.regionBase r ≤ l.regionBase r' := by
  simp only [Layout.regionBase]
  have := Nat.mul_le_mul_right l.pageSize
    (Nat.mul_le_mul_right (l.regionHeaderPages + l.regionMaxDataPages) h)
  omega

/-- the data section of every existing region ends inside the file -/
theorem dataEnd_le_fileLen (l : Layout) (r : Nat) (h : r < l.numRegions) : l.dataEnd r ≤ l.fileLen := by
  by_cases hf : r < l.numFullRegions
  · rw [dataEnd_full l r hf]
    have := regionBase_mono l (Nat.succ_le_of_lt hf)
    rw [Nat.succ_eq_add_one] at this
    simp only [Layout.regionBase] at this
    simp only [Layout.regionBase, Layout.fileLen]
    omega
  · have ht : l.trailingPages > 0 ∧ r = l.numFullRegions := by
      simp only [Layout.numRegions] at h
      split at h <;> omega
    obtain ⟨ht, hr⟩ := ht
    subst hr
    simp only [Layout.dataEnd, Layout.dataBase, Layout.regionPages, Layout.fileLen, ht,
      Nat.lt_irrefl, if_true, if_false]
    rw [Nat.add_mul l.regionHeaderPages]
    omega

/-- an in-range page ends inside the data section of its region -/
theorem page_end_le_dataEnd (l : Layout) (p : PageNumber) (h : l.inRange p = true) :
    (l.pageAddr p).1 + (l.pageAddr p).2 ≤ l.dataEnd p.region := by
  obtain ⟨_, _, hi⟩ := (inRange_iff l p).1 h
  rw [(pageAddr_eq l p).2, Layout.dataEnd]
  exact Nat.add_le_add_left (Nat.mul_le_mul_right _ hi) _

/-- a page starts at or after the data section of its region -/
theorem dataBase_le_page_start (l : Layout) (p : PageNumber) :
    l.dataBase p.region ≤ (l.pageAddr p).1 := by
  rw [(pageAddr_eq l p).1]; omega

theorem regionBase_le_dataBase (l : Layout) (r : Nat) :
    l.regionBase r + l.regionHeaderPages * l.pageSize = l.dataBase r := rfl

end Redb.Format
