import RedbModel.Model.KeyVal
import RedbModel.Lemmas.KeyArray
/-!
Round trips of the tuple layout: `decodeVarint ∘ encodeVarint`, `parseLens` on an assembled
header, and `tupleElements (tupleBytes es) = es`.
-/
namespace Redb.Key

/-! ### varint -/

theorem length_encodeVarint_pos (n : Nat) : 0 < (encodeVarint n).length := by
  unfold encodeVarint; split
  · simp
  · split <;> simp

theorem decodeVarint_encodeVarint (n : Nat) (h : n < 2 ^ 32) (r : Bytes) :
    decodeVarint (encodeVarint n ++ r) = (n, (encodeVarint n).length) := by
  unfold encodeVarint
  split
  · rename_i h1
    have e : (UInt8.ofNat n).toNat = n := by simp; omega
    simp [decodeVarint, e, h1]
  · split
    · rename_i h1 h2
      have e : leNat (natLe 2 n) = n := leNat_natLe 2 n (by simp; omega)
      have t : (natLe 2 n ++ r).take 2 = natLe 2 n := by
        rw [List.take_append_of_le_length (by rw [length_natLe]; omega),
          List.take_of_length_le (by rw [length_natLe]; omega)]
      simp [decodeVarint, t, e, length_natLe]
    · rename_i h1 h2
      have e : leNat (natLe 4 n) = n := leNat_natLe 4 n (by simp; omega)
      have t : (natLe 4 n ++ r).take 4 = natLe 4 n := by
        rw [List.take_append_of_le_length (by rw [length_natLe]; omega),
          List.take_of_length_le (by rw [length_natLe]; omega)]
      simp [decodeVarint, t, e, length_natLe]

/-! ### `parse_lens` on an assembled header -/

/-- the elements (a prefix of `es`) have the widths the fixed-width descriptors demand -/
def fitsPre : List (Option Nat) → List Bytes → Prop
  | [], _ => True
  | fw :: fws, e :: es => (∀ w, fw = some w → e.length = w) ∧ fitsPre fws es
  | _ :: _, [] => False

def parseStep (d : Bytes) (s : Nat × List Nat) (fw : Option Nat) : Nat × List Nat :=
  match fw with
  | some w => (s.1, s.2 ++ [w])
  | none => (s.1 + (decodeVarint (d.drop s.1)).2, s.2 ++ [(decodeVarint (d.drop s.1)).1])

theorem parseLens_eq (fws : List (Option Nat)) (d : Bytes) :
    parseLens fws d = fws.foldl (parseStep d) (0, []) := by
  unfold parseLens
  congr 1

theorem parseLens_go (fws : List (Option Nat)) (es : List Bytes) (d : Bytes) (off : Nat)
    (acc : List Nat) (rest : Bytes)
    (hd : d.drop off = tupleHeader fws es ++ rest) (hfit : fitsPre fws es)
    (hv : varLensOk fws es = true) :
    fws.foldl (parseStep d) (off, acc) =
      (off + (tupleHeader fws es).length, acc ++ (es.take fws.length).map List.length) := by
  induction fws generalizing es off acc with
  | nil => simp [tupleHeader]
  | cons fw fws ih =>
    cases es with
    | nil => simp [fitsPre] at hfit
    | cons e es =>
      simp only [fitsPre] at hfit
      cases fw with
      | some w =>
        simp only [tupleHeader, varLensOk] at hd hv ⊢
        simp only [List.foldl_cons, parseStep]
        rw [ih es off _ hd hfit.2 hv]
        simp [hfit.1 w rfl]
      | none =>
        simp only [tupleHeader, varLensOk, Bool.and_eq_true, decide_eq_true_eq] at hd hv ⊢
        simp only [List.foldl_cons, parseStep]
        rw [hd, List.append_assoc, decodeVarint_encodeVarint _ hv.1]
        rw [ih es _ _ ?_ hfit.2 hv.2]
        · simp; omega
        · rw [← List.drop_drop, hd, List.append_assoc, List.drop_left]

theorem parseLens_tupleHeader (fws : List (Option Nat)) (es : List Bytes) (rest : Bytes)
    (hfit : fitsPre fws es) (hv : varLensOk fws es = true) :
    parseLens fws (tupleHeader fws es ++ rest) =
      ((tupleHeader fws es).length, (es.take fws.length).map List.length) := by
  rw [parseLens_eq, parseLens_go fws es _ 0 [] rest (by simp) hfit hv]
  simp

/-! ### cutting a byte string into consecutive slices -/

def slices (d : Bytes) : Nat → List Nat → List Bytes
  | _, [] => []
  | off, l :: ls => slice d off (off + l) :: slices d (off + l) ls

theorem foldl_slices (d : Bytes) (lens : List Nat) (off : Nat) (acc : List Bytes) :
    lens.foldl (fun (s : Nat × List Bytes) len => (s.1 + len, s.2 ++ [slice d s.1 (s.1 + len)]))
      (off, acc) = (off + lens.sum, acc ++ slices d off lens) := by
  induction lens generalizing off acc with
  | nil => simp [slices]
  | cons l ls ih => simp [ih, slices]; omega

theorem slices_flatten (p : Bytes) (es : List Bytes) (rest : Bytes) :
    slices (p ++ (es.flatten ++ rest)) p.length (es.map List.length) = es := by
  induction es generalizing p with
  | nil => simp [slices]
  | cons e es ih =>
    simp only [List.map_cons, slices, List.flatten_cons, List.append_assoc]
    congr 1
    · unfold slice
      rw [← List.append_assoc, ← List.length_append, List.take_left' rfl, List.drop_left]
    · have := ih (p ++ e)
      simp only [List.length_append, List.append_assoc] at this
      exact this

theorem sum_map_length (es : List Bytes) : (es.map List.length).sum = lenSum es := rfl

/-! ### `tupleElements` of an assembled tuple -/

theorem fitsPre_dropLast (fws : List (Option Nat)) (es : List Bytes) (h : fitsPre fws es) :
    fitsPre fws.dropLast es := by
  induction fws generalizing es with
  | nil => simp [fitsPre]
  | cons fw fws ih =>
    cases es with
    | nil => simp [fitsPre] at h
    | cons e es =>
      cases fws with
      | nil => simp [fitsPre]
      | cons fw' fws' =>
        simp only [fitsPre, List.dropLast_cons_cons] at h ⊢
        exact ⟨h.1, ih es h.2⟩

theorem tupleHeader_allSome (fws : List (Option Nat)) (es : List Bytes)
    (h : fws.all Option.isSome = true) : tupleHeader fws es = [] := by
  induction fws generalizing es with
  | nil => simp [tupleHeader]
  | cons fw fws ih =>
    simp only [List.all_cons, Bool.and_eq_true] at h
    cases fw with
    | none => simp at h
    | some w =>
      cases es with
      | nil => simp [tupleHeader]
      | cons e es => simp [tupleHeader, ih es h.2]

theorem all_dropLast {α : Type} (p : α → Bool) (l : List α) (h : l.all p = true) :
    l.dropLast.all p = true := by
  simp only [List.all_eq_true] at h ⊢
  exact fun x hx => h x (List.dropLast_subset l hx)

theorem map_getD_eq_lengths (fws : List (Option Nat)) (es : List Bytes)
    (hall : fws.all Option.isSome = true) (hfit : fitsPre fws es) (hlen : es.length = fws.length) :
    fws.map (fun fw => fw.getD 0) = es.map List.length := by
  induction fws generalizing es with
  | nil => cases es <;> simp_all
  | cons fw fws ih =>
    cases es with
    | nil => simp at hlen
    | cons e es =>
      simp only [List.all_cons, Bool.and_eq_true] at hall
      simp only [fitsPre] at hfit
      cases fw with
      | none => simp at hall
      | some w =>
        simp only [List.map_cons, Option.getD_some, hfit.1 w rfl]
        rw [ih es hall.2 hfit.2 (by simpa using hlen)]

theorem tupleElements_tupleBytes (fws : List (Option Nat)) (es : List Bytes)
    (hlen : es.length = fws.length) (hfit : fitsPre fws es)
    (hv : varLensOk fws.dropLast es = true) :
    tupleElements fws (tupleBytes fws es) = es := by
  unfold tupleElements tupleBytes
  split
  · rename_i hall
    rw [tupleHeader_allSome _ _ (all_dropLast _ _ hall), List.nil_append]
    have := foldl_slices es.flatten (fws.map (fun fw => fw.getD 0)) 0 []
    rw [List.foldl_map] at this
    rw [this, map_getD_eq_lengths fws es hall hfit hlen]
    have h2 := slices_flatten [] es []
    simp only [List.append_nil, List.nil_append, List.length_nil] at h2
    simp [h2]
  · rename_i hall
    have hne : fws ≠ [] := by intro h; subst h; simp at hall
    have hes : es ≠ [] := by intro h; subst h; simp at hlen; exact hne (List.eq_nil_of_length_eq_zero hlen.symm)
    rw [parseLens_tupleHeader _ _ _ (fitsPre_dropLast _ _ hfit) hv]
    simp only []
    rw [foldl_slices]
    obtain ⟨init, l, rfl⟩ : ∃ init l, es = init ++ [l] :=
      ⟨es.dropLast, es.getLast hes, (List.dropLast_concat_getLast hes).symm⟩
    have hil : init.length = fws.dropLast.length := by
      simp at hlen ⊢; omega
    rw [← hil, List.take_left']
    · simp only [List.flatten_append, List.flatten_cons, List.flatten_nil, List.append_nil,
        List.nil_append]
      rw [slices_flatten, sum_map_length]
      congr 1
      rw [← List.append_assoc, ← length_flatten_eq_lenSum, ← List.length_append, List.drop_left]
    · rfl

end Redb.Key
