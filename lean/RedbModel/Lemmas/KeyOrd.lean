import RedbModel.Model.KeyType
/-!
Abstract "comparator is a total preorder on a subset" laws, lexicographic products, and the
instances for `compare` on `Nat`/`Int` and for `lexCmp`.
-/
namespace Redb.Key

/-- `c` is a total preorder comparator on the subset `P` -/
structure OrdLaws {α : Type} (P : α → Prop) (c : α → α → Ordering) : Prop where
  refl : ∀ a, P a → c a a = .eq
  swap : ∀ a b, P a → P b → c b a = (c a b).swap
  trans_le : ∀ x y z, P x → P y → P z → c x y ≠ .gt → c y z ≠ .gt → c x z ≠ .gt
  trans_lt : ∀ x y z, P x → P y → P z → c x y ≠ .gt → c y z = .lt → c x z = .lt

theorem OrdLaws.comap {α β : Type} {P : α → Prop} {c : α → α → Ordering} (h : OrdLaws P c)
    (f : β → α) (Q : β → Prop) (hQ : ∀ b, Q b → P (f b)) :
    OrdLaws Q (fun a b => c (f a) (f b)) where
  refl a ha := h.refl _ (hQ a ha)
  swap a b ha hb := h.swap _ _ (hQ a ha) (hQ b hb)
  trans_le x y z hx hy hz := h.trans_le _ _ _ (hQ x hx) (hQ y hy) (hQ z hz)
  trans_lt x y z hx hy hz := h.trans_lt _ _ _ (hQ x hx) (hQ y hy) (hQ z hz)

/-- `(<, ≤) → <`, derived -/
theorem OrdLaws.trans_lt' {α : Type} {P : α → Prop} {c : α → α → Ordering} (h : OrdLaws P c)
    (x y z : α) (hx : P x) (hy : P y) (hz : P z) (h1 : c x y = .lt) (h2 : c y z ≠ .gt) :
    c x z = .lt := by
  have s1 := h.swap x y hx hy
  have s2 := h.swap y z hy hz
  have s3 := h.swap x z hx hz
  have t1 := h.trans_lt z x y hz hx hy
  have t2 := h.trans_le x y z hx hy hz
  cases hxz : c x z <;> cases hyz : c y z <;> simp_all [Ordering.swap]

/-- `(=, =) → =`, derived -/
theorem OrdLaws.trans_eq {α : Type} {P : α → Prop} {c : α → α → Ordering} (h : OrdLaws P c)
    (x y z : α) (hx : P x) (hy : P y) (hz : P z) (h1 : c x y = .eq) (h2 : c y z = .eq) :
    c x z = .eq := by
  have s1 := h.swap x y hx hy
  have s2 := h.swap y z hy hz
  have s3 := h.swap x z hx hz
  have t1 := h.trans_le z y x hz hy hx
  have t2 := h.trans_le x y z hx hy hz
  cases hxz : c x z <;> simp_all [Ordering.swap]

/-! ### `compare` on `Nat` and `Int` -/

theorem ordLaws_natCompare : OrdLaws (fun _ : Nat => True) (fun a b => compare a b) where
  refl a _ := by simp
  swap a b _ _ := by
    rcases Nat.lt_trichotomy a b with h | h | h
    · rw [Nat.compare_eq_lt.2 h, Nat.compare_eq_gt.2 h]; rfl
    · subst h; simp
    · rw [Nat.compare_eq_lt.2 h, Nat.compare_eq_gt.2 h]; rfl
  trans_le x y z _ _ _ h1 h2 := by
    simp only [ne_eq, Nat.compare_eq_gt] at *; omega
  trans_lt x y z _ _ _ h1 h2 := by
    simp only [ne_eq, Nat.compare_eq_gt, Nat.compare_eq_lt] at *; omega

theorem ordLaws_intCompare : OrdLaws (fun _ : Int => True) (fun a b => compare a b) where
  refl a _ := by simp
  swap a b _ _ := by
    rcases Int.lt_trichotomy a b with h | h | h
    · rw [Int.compare_eq_lt.2 h, Int.compare_eq_gt.2 h]; rfl
    · subst h; simp
    · rw [Int.compare_eq_lt.2 h, Int.compare_eq_gt.2 h]; rfl
  trans_le x y z _ _ _ h1 h2 := by
    simp only [ne_eq, Int.compare_eq_gt] at *; omega
  trans_lt x y z _ _ _ h1 h2 := by
    simp only [ne_eq, Int.compare_eq_gt, Int.compare_eq_lt] at *; omega

/-! ### `lexCmp` -/

theorem lexCmp_refl (a : Bytes) : lexCmp a a = .eq := by
  induction a with
  | nil => rfl
  | cons x xs ih => simp [lexCmp, ih]

theorem lexCmp_swap (a b : Bytes) : lexCmp b a = (lexCmp a b).swap := by
  fun_induction lexCmp a b <;> simp_all [lexCmp, Ordering.swap]
  all_goals grind

theorem lexCmp_trans_le (x y z : Bytes) (h1 : lexCmp x y ≠ .gt) (h2 : lexCmp y z ≠ .gt) :
    lexCmp x z ≠ .gt := by
  fun_induction lexCmp x z generalizing y <;> cases y <;> simp_all [lexCmp]
  all_goals grind

theorem lexCmp_trans_lt (x y z : Bytes) (h1 : lexCmp x y ≠ .gt) (h2 : lexCmp y z = .lt) :
    lexCmp x z = .lt := by
  fun_induction lexCmp x z generalizing y <;> cases y <;> simp_all [lexCmp]
  all_goals grind

theorem ordLaws_lexCmp : OrdLaws (fun _ : Bytes => True) lexCmp where
  refl a _ := lexCmp_refl a
  swap a b _ _ := lexCmp_swap a b
  trans_le x y z _ _ _ := lexCmp_trans_le x y z
  trans_lt x y z _ _ _ := lexCmp_trans_lt x y z

end Redb.Key
