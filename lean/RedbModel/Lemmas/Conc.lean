import RedbModel.Model.Conc
/-!
Lemmas about the interleaving model `Redb.Conc` (properties C03 / C16): the inductive reading of
`step`, the invariant `Inv` of all reachable states, monotonicity of the log and of `latest` along
executions, and the facts about the monitor's candidate sets used by `c03_monitor_sound`.
-/
namespace Redb.Conc

/-! ## `step`, case by case -/

/-- the small-step relation as an inductive predicate: one constructor per enabled (action, pc) -/
inductive StepI : Sys → Action → Sys → Prop where
  | register (s : Sys) (t : Tid) : s.pc t = .idle →
      StepI s ⟨t, .register (latest s.log)⟩ { s with pc := setPc s.pc t (.registered (latest s.log)) }
  | readRoot (s : Sys) (t : Tid) (p : Ver) : s.pc t = .registered p →
      StepI s ⟨t, .readRoot (latest s.log)⟩ { s with pc := setPc s.pc t (.reading p (latest s.log)) }
  | read (s : Sys) (t : Tid) (p r : Ver) : s.pc t = .reading p r → StepI s ⟨t, .read r⟩ s
  | drop (s : Sys) (t : Tid) (p r : Ver) : s.pc t = .reading p r →
      StepI s ⟨t, .drop⟩ { s with pc := setPc s.pc t .idle }
  | acquire (s : Sys) (t : Tid) : s.pc t = .idle → s.slot = none →
      StepI s ⟨t, .acquire⟩ { s with slot := some t, pc := setPc s.pc t .holding }
  | body (s : Sys) (t : Tid) : s.pc t = .holding →
      StepI s ⟨t, .body s.nextVer⟩
        { s with nextVer := s.nextVer + 1, pc := setPc s.pc t (.body s.nextVer) }
  | publish (s : Sys) (t : Tid) (v : Ver) : s.pc t = .body v →
      StepI s ⟨t, .publish v⟩ { s with log := (v, true) :: s.log, pc := setPc s.pc t (.published v) }
  | releaseHolding (s : Sys) (t : Tid) : s.pc t = .holding →
      StepI s ⟨t, .release⟩ { s with slot := none, pc := setPc s.pc t .idle }
  | releaseAbort (s : Sys) (t : Tid) (v : Ver) : s.pc t = .body v →
      StepI s ⟨t, .release⟩
        { s with slot := none, log := (v, false) :: s.log, pc := setPc s.pc t .idle }
  | releaseCommit (s : Sys) (t : Tid) (v : Ver) : s.pc t = .published v →
      StepI s ⟨t, .release⟩ { s with slot := none, pc := setPc s.pc t .idle }

theorem stepI_of_step {s s' : Sys} {a : Action} (h : step s a = some s') : StepI s a s' := by
  obtain ⟨t, act⟩ := a
  cases act <;> (cases hpc : s.pc t <;> simp [step, hpc] at h)
  · obtain ⟨rfl, rfl⟩ := h; exact .register s t hpc
  · obtain ⟨rfl, rfl⟩ := h; exact .readRoot s t _ hpc
  · obtain ⟨rfl, rfl⟩ := h; exact .read s t _ _ hpc
  · subst h; exact .drop s t _ _ hpc
  · obtain ⟨hs, rfl⟩ := h; exact .acquire s t hpc hs
  · obtain ⟨rfl, rfl⟩ := h; exact .body s t hpc
  · obtain ⟨rfl, rfl⟩ := h; exact .publish s t _ hpc
  · subst h; exact .releaseHolding s t hpc
  · subst h; exact .releaseAbort s t _ hpc
  · subst h; exact .releaseCommit s t _ hpc

theorem step_of_stepI {s s' : Sys} {a : Action} (h : StepI s a s') : step s a = some s' := by
  cases h <;> simp_all [step]

theorem step_iff {s s' : Sys} {a : Action} : Step s a s' ↔ StepI s a s' :=
  ⟨stepI_of_step, step_of_stepI⟩

/-! ## the log -/

/-- strictly decreasing versions (newest first) -/
def Sorted (l : List (Ver × Bool)) : Prop := l.Pairwise (fun a b => b.1 < a.1)

theorem latest_mem {l : List (Ver × Bool)} (h : ∃ v, (v, true) ∈ l) : (latest l, true) ∈ l := by
  induction l with
  | nil => simp at h
  | cons e l ih =>
    obtain ⟨v, b⟩ := e
    cases b
    · have : ∃ v, (v, true) ∈ l := by
        obtain ⟨w, hw⟩ := h; simp at hw; exact ⟨w, hw⟩
      simp [latest, ih this]
    · simp [latest]

theorem le_latest {l : List (Ver × Bool)} (hs : Sorted l) {v : Ver} (h : (v, true) ∈ l) :
    v ≤ latest l := by
  induction l with
  | nil => simp at h
  | cons e l ih =>
    obtain ⟨w, b⟩ := e
    have hs' := List.pairwise_cons.mp hs
    cases b
    · simp at h
      simp only [latest]; exact ih hs'.2 h
    · simp only [latest]
      simp at h
      rcases h with h | h
      · omega
      · have := hs'.1 _ h; simp at this; omega

theorem latest_le_of_forall_lt {l : List (Ver × Bool)} {n : Ver} (h : ∀ e ∈ l, e.1 < n) :
    latest l ≤ n := by
  induction l with
  | nil => simp [latest]
  | cons e l ih =>
    obtain ⟨w, b⟩ := e
    cases b
    · simp only [latest]; exact ih (fun e he => h e (List.mem_cons_of_mem _ he))
    · simp only [latest]; have := h (w, true) (by simp); simp at this; omega

/-- in a strictly sorted log a version has one status only -/
theorem sorted_status_unique {l : List (Ver × Bool)} (hs : Sorted l) {v : Ver}
    (h1 : (v, true) ∈ l) : (v, false) ∉ l := by
  induction l with
  | nil => simp at h1
  | cons e l ih =>
    have hs' := List.pairwise_cons.mp hs
    intro h2
    simp at h1 h2
    rcases h1 with h1 | h1 <;> rcases h2 with h2 | h2
    · rw [← h1] at h2; simp at h2
    · have := hs'.1 _ h2; rw [← h1] at this; simp at this
    · have := hs'.1 _ h1; rw [← h2] at this; simp at this
    · exact ih hs'.2 h1 h2

theorem committed_cons_true (v : Ver) (l : List (Ver × Bool)) :
    committed ((v, true) :: l) = v :: committed l := by simp [committed]

theorem committed_cons_false (v : Ver) (l : List (Ver × Bool)) :
    committed ((v, false) :: l) = committed l := by simp [committed]

theorem mem_committed {l : List (Ver × Bool)} {v : Ver} : v ∈ committed l ↔ (v, true) ∈ l := by
  simp [committed]

theorem committed_sorted {l : List (Ver × Bool)} (hs : Sorted l) :
    (committed l).Pairwise (fun a b => b < a) := by
  induction l with
  | nil => simp [committed]
  | cons e l ih =>
    obtain ⟨w, b⟩ := e
    have hs' := List.pairwise_cons.mp hs
    cases b
    · rw [committed_cons_false]; exact ih hs'.2
    · rw [committed_cons_true]
      refine List.pairwise_cons.mpr ⟨?_, ih hs'.2⟩
      intro x hx
      exact hs'.1 _ (mem_committed.mp hx)

/-! ## the invariant of reachable states -/

/-- what a program counter says about the shared state -/
def TOk (s : Sys) : PC → Prop
  | .idle => True
  | .holding => True
  | .registered p => (p, true) ∈ s.log
  | .reading p r => p ≤ r ∧ (p, true) ∈ s.log ∧ (r, true) ∈ s.log
  | .body v => v < s.nextVer ∧ ∀ e ∈ s.log, e.1 < v
  | .published v => (v, true) ∈ s.log

structure Inv (s : Sys) : Prop where
  sorted : Sorted s.log
  lt_next : ∀ e ∈ s.log, e.1 < s.nextVer
  zero : (0, true) ∈ s.log
  slot : ∀ t, s.slot = some t ↔ (s.pc t).holdsSlot = true
  thr : ∀ t, TOk s (s.pc t)

theorem inv_init : Inv init := by
  refine ⟨?_, ?_, ?_, ?_, ?_⟩ <;> simp [init, Sorted, TOk, PC.holdsSlot]

theorem Inv.latest_mem {s : Sys} (h : Inv s) : (latest s.log, true) ∈ s.log :=
  Conc.latest_mem ⟨0, h.zero⟩

/-- at most one thread holds the slot -/
theorem Inv.holder_unique {s : Sys} (h : Inv s) {t u : Tid}
    (ht : (s.pc t).holdsSlot = true) (hu : (s.pc u).holdsSlot = true) : t = u := by
  have h1 := (h.slot t).mpr ht
  have h2 := (h.slot u).mpr hu
  rw [h1] at h2; exact Option.some.inj h2

theorem setPc_same (f : Tid → PC) (t : Tid) (p : PC) : setPc f t p t = p := by simp [setPc]

theorem setPc_other (f : Tid → PC) {t u : Tid} (p : PC) (h : u ≠ t) : setPc f t p u = f u := by
  simp [setPc, h]

/-- `TOk` of a thread survives when the log only grows and `nextVer` does not shrink — for a slot
holder (whose claim in `body` is about the whole log) when the log is unchanged -/
theorem TOk.mono {s s' : Sys} {p : PC} (h : TOk s p) (hlog : ∀ e ∈ s.log, e ∈ s'.log)
    (hn : s.nextVer ≤ s'.nextVer) (hb : p.holdsSlot = true → s'.log = s.log) : TOk s' p := by
  cases p with
  | idle => trivial
  | holding => trivial
  | registered p => exact hlog _ h
  | reading p r => exact ⟨h.1, hlog _ h.2.1, hlog _ h.2.2⟩
  | body v =>
    have hl := hb rfl
    refine ⟨Nat.lt_of_lt_of_le h.1 hn, ?_⟩
    show ∀ e ∈ s'.log, e.1 < v
    rw [hl]; exact h.2
  | published v => exact hlog _ h

theorem slot_keep {s : Sys} (h : Inv s) {t : Tid} {p : PC}
    (hp : p.holdsSlot = (s.pc t).holdsSlot) (u : Tid) :
    s.slot = some u ↔ (setPc s.pc t p u).holdsSlot = true := by
  by_cases hu : u = t
  · subst hu; rw [setPc_same, hp]; exact h.slot u
  · rw [setPc_other _ _ hu]; exact h.slot u

theorem slot_acquire {s : Sys} (h : Inv s) {t : Tid} (hfree : s.slot = none) (u : Tid) :
    some t = some u ↔ (setPc s.pc t .holding u).holdsSlot = true := by
  by_cases hu : u = t
  · subst hu; rw [setPc_same]; simp [PC.holdsSlot]
  · rw [setPc_other _ _ hu]
    have := h.slot u; rw [hfree] at this
    constructor
    · intro hc; exact absurd (Option.some.inj hc).symm hu
    · intro hx; exact absurd (this.mpr hx) (by simp)

theorem slot_release {s : Sys} (h : Inv s) {t : Tid} (hhold : (s.pc t).holdsSlot = true) (u : Tid) :
    (none : Option Tid) = some u ↔ (setPc s.pc t .idle u).holdsSlot = true := by
  by_cases hu : u = t
  · subst hu; rw [setPc_same]; simp [PC.holdsSlot]
  · rw [setPc_other _ _ hu]
    constructor
    · intro hc; cases hc
    · intro hx; exact absurd (h.holder_unique hx hhold) hu

/-- the threads other than the acting one keep their `TOk`; `hb`: if another thread could hold the
slot the log must be unchanged -/
theorem thr_other {s s' : Sys} (h : Inv s) {t u : Tid} {p : PC} (hu : u ≠ t)
    (hlog : ∀ e ∈ s.log, e ∈ s'.log) (hn : s.nextVer ≤ s'.nextVer)
    (hb : (s.pc u).holdsSlot = true → s'.log = s.log) : TOk s' (setPc s.pc t p u) := by
  rw [setPc_other _ _ hu]; exact (h.thr u).mono hlog hn hb

theorem inv_step {s s' : Sys} {a : Action} (h : Inv s) (hs : StepI s a s') : Inv s' := by
  cases hs with
  | register t hpc =>
    refine ⟨h.sorted, h.lt_next, h.zero, fun u => slot_keep h (by simp [hpc, PC.holdsSlot]) u, ?_⟩
    intro u; by_cases hu : u = t
    · subst hu; show TOk _ (setPc s.pc u _ u); rw [setPc_same]; exact h.latest_mem
    · exact thr_other h hu (fun _ he => he) (Nat.le_refl _) (fun _ => rfl)
  | readRoot t p hpc =>
    refine ⟨h.sorted, h.lt_next, h.zero, fun u => slot_keep h (by simp [hpc, PC.holdsSlot]) u, ?_⟩
    intro u; by_cases hu : u = t
    · subst hu; show TOk _ (setPc s.pc u _ u); rw [setPc_same]
      have hp : (p, true) ∈ s.log := by have := h.thr u; rw [hpc] at this; exact this
      exact ⟨le_latest h.sorted hp, hp, h.latest_mem⟩
    · exact thr_other h hu (fun _ he => he) (Nat.le_refl _) (fun _ => rfl)
  | read t p r hpc => exact h
  | drop t p r hpc =>
    refine ⟨h.sorted, h.lt_next, h.zero, fun u => slot_keep h (by simp [hpc, PC.holdsSlot]) u, ?_⟩
    intro u; by_cases hu : u = t
    · subst hu; show TOk _ (setPc s.pc u _ u); rw [setPc_same]; trivial
    · exact thr_other h hu (fun _ he => he) (Nat.le_refl _) (fun _ => rfl)
  | acquire t hpc hfree =>
    refine ⟨h.sorted, h.lt_next, h.zero, fun u => slot_acquire h hfree u, ?_⟩
    intro u; by_cases hu : u = t
    · subst hu; show TOk _ (setPc s.pc u _ u); rw [setPc_same]; trivial
    · exact thr_other h hu (fun _ he => he) (Nat.le_refl _) (fun _ => rfl)
  | body t hpc =>
    refine ⟨h.sorted, fun e he => Nat.lt_succ_of_lt (h.lt_next e he), h.zero,
      fun u => slot_keep h (by simp [hpc, PC.holdsSlot]) u, ?_⟩
    intro u; by_cases hu : u = t
    · subst hu; show TOk _ (setPc s.pc u _ u); rw [setPc_same]
      exact ⟨Nat.lt_succ_self _, h.lt_next⟩
    · exact thr_other h hu (fun _ he => he) (Nat.le_succ _) (fun _ => rfl)
  | publish t v hpc =>
    have hhold : (s.pc t).holdsSlot = true := by simp [hpc, PC.holdsSlot]
    have hb : v < s.nextVer ∧ ∀ e ∈ s.log, e.1 < v := by
      have := h.thr t; rw [hpc] at this; exact this
    refine ⟨List.pairwise_cons.mpr ⟨hb.2, h.sorted⟩, ?_, List.mem_cons_of_mem _ h.zero,
      fun u => slot_keep h (by simp [hpc, PC.holdsSlot]) u, ?_⟩
    · intro e he
      rcases List.mem_cons.mp he with he | he
      · rw [he]; exact hb.1
      · exact h.lt_next e he
    · intro u; by_cases hu : u = t
      · subst hu; show TOk _ (setPc s.pc u _ u); rw [setPc_same]; exact List.mem_cons_self
      · exact thr_other h hu (fun _ he => List.mem_cons_of_mem _ he) (Nat.le_refl _)
          (fun hh => absurd (h.holder_unique hh hhold) hu)
  | releaseHolding t hpc =>
    have hhold : (s.pc t).holdsSlot = true := by simp [hpc, PC.holdsSlot]
    refine ⟨h.sorted, h.lt_next, h.zero, fun u => slot_release h hhold u, ?_⟩
    intro u; by_cases hu : u = t
    · subst hu; show TOk _ (setPc s.pc u _ u); rw [setPc_same]; trivial
    · exact thr_other h hu (fun _ he => he) (Nat.le_refl _) (fun _ => rfl)
  | releaseAbort t v hpc =>
    have hhold : (s.pc t).holdsSlot = true := by simp [hpc, PC.holdsSlot]
    have hb : v < s.nextVer ∧ ∀ e ∈ s.log, e.1 < v := by
      have := h.thr t; rw [hpc] at this; exact this
    refine ⟨List.pairwise_cons.mpr ⟨hb.2, h.sorted⟩, ?_, List.mem_cons_of_mem _ h.zero,
      fun u => slot_release h hhold u, ?_⟩
    · intro e he
      rcases List.mem_cons.mp he with he | he
      · rw [he]; exact hb.1
      · exact h.lt_next e he
    · intro u; by_cases hu : u = t
      · subst hu; show TOk _ (setPc s.pc u _ u); rw [setPc_same]; trivial
      · exact thr_other h hu (fun _ he => List.mem_cons_of_mem _ he) (Nat.le_refl _)
          (fun hh => absurd (h.holder_unique hh hhold) hu)
  | releaseCommit t v hpc =>
    have hhold : (s.pc t).holdsSlot = true := by simp [hpc, PC.holdsSlot]
    refine ⟨h.sorted, h.lt_next, h.zero, fun u => slot_release h hhold u, ?_⟩
    intro u; by_cases hu : u = t
    · subst hu; show TOk _ (setPc s.pc u _ u); rw [setPc_same]; trivial
    · exact thr_other h hu (fun _ he => he) (Nat.le_refl _) (fun _ => rfl)

theorem inv_of_reachable {s : Sys} (h : Reachable s) : Inv s := by
  induction h with
  | init => exact inv_init
  | step _ hs ih => exact inv_step ih (stepI_of_step hs)

/-! ## executions -/

theorem exec_iff {s s' : Sys} {tr : List Action} : Exec s tr s' ↔ exec s tr = some s' := by
  induction tr generalizing s with
  | nil =>
    constructor
    · intro h; cases h; rfl
    · intro h; simp [exec] at h; subst h; exact .nil s
  | cons a tr ih =>
    constructor
    · intro h; cases h with
      | cons hs he => simp only [exec]; rw [show step s a = some _ from hs]; exact ih.mp he
    · intro h
      simp only [exec] at h
      cases hst : step s a with
      | none => rw [hst] at h; simp at h
      | some m => rw [hst] at h; exact .cons hst (ih.mpr h)

theorem exec_append {s s' : Sys} {tr1 tr2 : List Action} :
    Exec s (tr1 ++ tr2) s' ↔ ∃ m, Exec s tr1 m ∧ Exec m tr2 s' := by
  induction tr1 generalizing s with
  | nil =>
    constructor
    · intro h; exact ⟨s, .nil s, h⟩
    · rintro ⟨m, h1, h2⟩; cases h1; exact h2
  | cons a tr ih =>
    constructor
    · intro h; cases h with
      | cons hs he =>
        obtain ⟨m, h1, h2⟩ := ih.mp he
        exact ⟨m, .cons hs h1, h2⟩
    · rintro ⟨m, h1, h2⟩
      cases h1 with
      | cons hs he => exact .cons hs (ih.mpr ⟨m, he, h2⟩)

theorem exec_cons {s s' : Sys} {a : Action} {tr : List Action} :
    Exec s (a :: tr) s' ↔ ∃ m, Step s a m ∧ Exec m tr s' := by
  constructor
  · intro h; cases h with
    | cons hs he => exact ⟨_, hs, he⟩
  · rintro ⟨m, h1, h2⟩; exact .cons h1 h2

theorem Exec.inv {s s' : Sys} {tr : List Action} (h : Exec s tr s') (hi : Inv s) : Inv s' := by
  induction h with
  | nil => exact hi
  | cons hs _ ih => exact ih (inv_step hi (stepI_of_step hs))

theorem Exec.reachable {s s' : Sys} {tr : List Action} (h : Exec s tr s') (hr : Reachable s) :
    Reachable s' := by
  induction h with
  | nil => exact hr
  | cons hs _ ih => exact ih (.step hr hs)

theorem reachable_iff_exec {s : Sys} : Reachable s ↔ ∃ tr, Exec init tr s := by
  constructor
  · intro h
    induction h with
    | init => exact ⟨[], .nil _⟩
    | step _ hs ih =>
      obtain ⟨tr, he⟩ := ih
      exact ⟨tr ++ [_], exec_append.mpr ⟨_, he, .cons hs (.nil _)⟩⟩
  · rintro ⟨tr, he⟩; exact he.reachable .init

/-- what one action does to the log: nothing, or it puts one entry on top — a committed one
exactly for `publish v`, an aborted one exactly for the `release` of a thread in `body v` -/
theorem stepI_log {s s' : Sys} {a : Action} (h : StepI s a s') :
    (s'.log = s.log ∧ ∀ v, a.act ≠ .publish v) ∨
    (∃ v, a.act = .publish v ∧ s.pc a.tid = .body v ∧ s'.log = (v, true) :: s.log) ∨
    (∃ v, a.act = .release ∧ s.pc a.tid = .body v ∧ s'.log = (v, false) :: s.log) := by
  cases h <;> simp_all

theorem stepI_log_mono {s s' : Sys} {a : Action} (h : StepI s a s') :
    ∀ e ∈ s.log, e ∈ s'.log := by
  intro e he
  rcases stepI_log h with h | ⟨v, _, _, h⟩ | ⟨v, _, _, h⟩
  · rw [h.1]; exact he
  · rw [h]; exact List.mem_cons_of_mem _ he
  · rw [h]; exact List.mem_cons_of_mem _ he

theorem Exec.log_mono {s s' : Sys} {tr : List Action} (h : Exec s tr s') :
    ∀ e ∈ s.log, e ∈ s'.log := by
  induction h with
  | nil => exact fun _ he => he
  | cons hs _ ih => exact fun e he => ih e (stepI_log_mono (stepI_of_step hs) e he)

theorem stepI_latest_mono {s s' : Sys} {a : Action} (hi : Inv s) (h : StepI s a s') :
    latest s.log ≤ latest s'.log := by
  rcases stepI_log h with h | ⟨v, _, hpc, h⟩ | ⟨v, _, _, h⟩
  · rw [h.1]; exact Nat.le_refl _
  · rw [h]; simp only [latest]
    have hb : v < s.nextVer ∧ ∀ e ∈ s.log, e.1 < v := by
      have := hi.thr a.tid; rw [hpc] at this; exact this
    exact Nat.le_of_lt (hb.2 _ hi.latest_mem)
  · rw [h]; simp only [latest]; exact Nat.le_refl _

theorem Exec.latest_mono {s s' : Sys} {tr : List Action} (h : Exec s tr s') (hi : Inv s) :
    latest s.log ≤ latest s'.log := by
  induction h with
  | nil => exact Nat.le_refl _
  | cons hs _ ih =>
    have h1 := stepI_latest_mono hi (stepI_of_step hs)
    have h2 := ih (inv_step hi (stepI_of_step hs))
    exact Nat.le_trans h1 h2

/-- the committed versions after an execution: those before, and on top of them the versions of
the `publish` actions of the trace, in the order in which they occurred -/
theorem Exec.committed_eq {s s' : Sys} {tr : List Action} (h : Exec s tr s') :
    committed s'.log = (pubs tr).reverse ++ committed s.log := by
  induction h with
  | nil => simp [pubs]
  | @cons s s1 s2 a tr hs _ ih =>
    rw [ih]
    rcases stepI_log (stepI_of_step hs) with h | ⟨v, ha, _, h⟩ | ⟨v, ha, _, h⟩
    · rw [h.1]
      have : pubs (a :: tr) = pubs tr := by
        obtain ⟨t, act⟩ := a
        cases act <;> simp_all [pubs]
      rw [this]
    · rw [h, committed_cons_true]
      obtain ⟨t, act⟩ := a
      simp at ha; subst ha
      simp [pubs]
    · rw [h, committed_cons_false]
      obtain ⟨t, act⟩ := a
      simp at ha; subst ha
      simp [pubs]

/-! ## inversion of single actions -/

theorem read_inv {s s' : Sys} {t : Tid} {v : Ver} (h : Step s ⟨t, .read v⟩ s') :
    s' = s ∧ ∃ p, s.pc t = .reading p v := by
  cases hpc : s.pc t <;> simp [Step, step, hpc] at h
  obtain ⟨rfl, rfl⟩ := h; exact ⟨rfl, _, rfl⟩

theorem register_inv {s s' : Sys} {t : Tid} {p : Ver} (h : Step s ⟨t, .register p⟩ s') :
    p = latest s.log ∧ s.pc t = .idle := by
  cases hpc : s.pc t <;> simp [Step, step, hpc] at h
  exact ⟨h.1, rfl⟩

theorem readRoot_inv {s s' : Sys} {t : Tid} {x : Ver} (h : Step s ⟨t, .readRoot x⟩ s') :
    x = latest s.log ∧ ∃ p, s.pc t = .registered p ∧ s'.pc t = .reading p x := by
  cases hpc : s.pc t <;> simp [Step, step, hpc] at h
  obtain ⟨rfl, rfl⟩ := h; exact ⟨rfl, _, rfl, by simp [setPc]⟩

theorem publish_inv {s s' : Sys} {t : Tid} {v : Ver} (h : Step s ⟨t, .publish v⟩ s') :
    s.pc t = .body v ∧ s'.log = (v, true) :: s.log := by
  cases hpc : s.pc t <;> simp [Step, step, hpc] at h
  obtain ⟨rfl, rfl⟩ := h; exact ⟨rfl, rfl⟩

theorem stepI_reading {s s' : Sys} {a : Action} {u : Tid} {p y : Ver} (h : StepI s a s')
    (hp : s'.pc u = .reading p y) :
    s.pc u = .reading p y ∨ (a = ⟨u, .readRoot y⟩ ∧ y = latest s.log) := by
  cases h <;> first | exact Or.inl hp | skip
  all_goals (simp only [setPc] at hp; split at hp <;> simp_all)

theorem stepI_registered {s s' : Sys} {a : Action} {u : Tid} {p : Ver} (h : StepI s a s')
    (hp : s'.pc u = .registered p) :
    s.pc u = .registered p ∨ (a = ⟨u, .register p⟩ ∧ p = latest s.log) := by
  cases h <;> first | exact Or.inl hp | skip
  all_goals (simp only [setPc] at hp; split at hp <;> simp_all)

set_option maxRecDepth 10000

/-! ## the monitor's candidate sets -/

theorem fire_step {s s' : Sys} {t : Tid} {k : Kind} (h : fire s t k = some s') :
    ∃ a, Step s ⟨t, a⟩ s' := by
  unfold fire at h
  split at h
  · exact ⟨_, h⟩
  · cases h

theorem hidden_step {c c' : Cand} {t : Tid} (h : c.hidden t = some c') :
    ∃ a, Step c.sys a c'.sys := by
  unfold Cand.hidden at h
  split at h
  · cases h
  · split at h
    · rename_i hf
      cases h
      obtain ⟨a, ha⟩ := fire_step hf
      exact ⟨_, ha⟩
    · cases h

theorem closure_exec {n : Nat} {c c' : Cand} (h : c' ∈ closure n c) :
    ∃ tr, Exec c.sys tr c'.sys := by
  induction n generalizing c with
  | zero => simp [closure] at h; subst h; exact ⟨[], .nil _⟩
  | succ n ih =>
    simp only [closure, List.mem_cons, List.mem_flatMap] at h
    rcases h with h | ⟨t, _, h⟩
    · subst h; exact ⟨[], .nil _⟩
    · split at h
      · rename_i c1 hh
        obtain ⟨a, ha⟩ := hidden_step hh
        obtain ⟨tr, htr⟩ := ih h
        exact ⟨a :: tr, .cons ha htr⟩
      · simp at h

theorem mem_dedupe {cs : List Cand} {c : Cand} (h : c ∈ dedupe cs) : c ∈ cs := by
  induction cs with
  | nil => simp [dedupe] at h
  | cons d cs ih =>
    simp only [dedupe] at h
    split at h
    · exact List.mem_cons_of_mem _ (ih h)
    · rcases List.mem_cons.mp h with h | h
      · subst h; exact List.mem_cons_self
      · exact List.mem_cons_of_mem _ (ih h)

theorem closeAll_exec {cs : List Cand} {c' : Cand} (h : c' ∈ closeAll cs) :
    ∃ c ∈ cs, ∃ tr, Exec c.sys tr c'.sys := by
  have := mem_dedupe h
  simp only [List.mem_flatMap] at this
  obtain ⟨c, hc, hcl⟩ := this
  exact ⟨c, hc, closure_exec hcl⟩

theorem applyEv_exec {m : Mon} {c c' : Cand} {e : Event} (h : applyEv m c e = some c') :
    ∃ tr, Exec c.sys tr c'.sys := by
  unfold applyEv at h
  split at h
  · split at h
    · rename_i hex; cases h; exact ⟨_, exec_iff.mpr hex⟩
    · cases h
  · cases h

/-- one `feed`: every new candidate descends from an old one by an execution of the model, through
a closed candidate that explains the event -/
theorem feed_lineage {m m' : Mon} {e : Event} (h : feed m e = .ok m') :
    m'.cands ≠ [] ∧ m'.floor = (m.note e).floor ∧ m'.wver = (m.note e).wver ∧
    ∀ c' ∈ m'.cands, ∃ c ∈ m.cands, ∃ c1 tr, c1 ∈ closeAll m.cands ∧ Exec c.sys tr c1.sys ∧
      applyEv m c1 e = some c' := by
  unfold feed at h
  split at h
  · unfold feedCore at h
    split at h
    · cases h
    · rename_i d ds hd
      cases h
      refine ⟨by simp, rfl, rfl, ?_⟩
      intro c' hc'
      have hmem : c' ∈ dedupe ((closeAll m.cands).filterMap (applyEv m · e)) := by rw [hd]; exact hc'
      have := mem_dedupe hmem
      simp only [List.mem_filterMap] at this
      obtain ⟨c1, hc1, hap⟩ := this
      obtain ⟨c, hc, tr, htr⟩ := closeAll_exec hc1
      exact ⟨c, hc, c1, tr, hc1, htr, hap⟩
  · cases h

theorem feed_exec {m m' : Mon} {e : Event} (h : feed m e = .ok m') :
    ∀ c' ∈ m'.cands, ∃ c ∈ m.cands, ∃ tr, Exec c.sys tr c'.sys := by
  intro c' hc'
  obtain ⟨c, hc, c1, tr, _, htr, hap⟩ := (feed_lineage h).2.2.2 c' hc'
  obtain ⟨tr2, htr2⟩ := applyEv_exec hap
  exact ⟨c, hc, tr ++ tr2, exec_append.mpr ⟨_, htr, htr2⟩⟩

theorem runFrom_exec {m m' : Mon} {i : Nat} {es : List Event} (h : runFrom m i es = .ok m') :
    ∀ c' ∈ m'.cands, ∃ c ∈ m.cands, ∃ tr, Exec c.sys tr c'.sys := by
  induction es generalizing m i with
  | nil => simp [runFrom] at h; subst h; exact fun c' hc' => ⟨c', hc', [], .nil _⟩
  | cons e es ih =>
    simp only [runFrom] at h
    split at h
    · rename_i m1 hf
      intro c' hc'
      obtain ⟨c1, hc1, tr1, h1⟩ := ih h c' hc'
      obtain ⟨c, hc, tr, h0⟩ := feed_exec hf c1 hc1
      exact ⟨c, hc, tr ++ tr1, exec_append.mpr ⟨_, h0, h1⟩⟩
    · cases h

theorem runFrom_append {m mf : Mon} {i : Nat} {pre : List Event} {e : Event} {post : List Event}
    (h : runFrom m i (pre ++ e :: post) = .ok mf) :
    ∃ m1 m2, runFrom m i pre = .ok m1 ∧ feed m1 e = .ok m2 ∧
      runFrom m2 (i + pre.length + 1) post = .ok mf := by
  induction pre generalizing m i with
  | nil =>
    simp only [List.nil_append, runFrom] at h
    split at h
    · rename_i m2 hf; exact ⟨m, m2, rfl, hf, by simpa using h⟩
    · cases h
  | cons e0 pre ih =>
    simp only [List.cons_append, runFrom] at h
    split at h
    · rename_i m0 hf
      obtain ⟨m1, m2, h1, h2, h3⟩ := ih h
      refine ⟨m1, m2, ?_, h2, ?_⟩
      · simp only [runFrom, hf]; exact h1
      · have : i + 1 + pre.length + 1 = i + (e0 :: pre).length + 1 := by simp; omega
        rw [← this]; exact h3
    · cases h


theorem exec_init0 : exec init setupTrace = some init0 := by rfl

theorem reachable_init0 : Reachable init0 :=
  reachable_iff_exec.mpr ⟨setupTrace, exec_iff.mpr exec_init0⟩

theorem applyEv_readEnd {m : Mon} {c c' : Cand} {t : Tid} {v v2 ce : Ver} {k : Bool}
    (h : applyEv m c (.readEnd t v v2 ce k) = some c') :
    k = true ∧ m.floor t ≤ v ∧ v2 = v ∧ c'.sys = c.sys ∧ ∃ p, c.sys.pc t = .reading p v := by
  simp only [applyEv, evActs] at h
  split at h
  · rename_i acts win heq
    split at heq
    · rename_i hg
      simp at hg
      cases heq
      split at h
      · rename_i s' hex
        cases h
        have hex' := exec_iff.mpr hex
        obtain ⟨m1, hs1, h2⟩ := exec_cons.mp hex'
        obtain ⟨m2, hs2, h3⟩ := exec_cons.mp h2
        cases h3
        obtain ⟨rfl, p, hp⟩ := read_inv hs1
        obtain ⟨rfl, p2, hp2⟩ := read_inv hs2
        rw [hp] at hp2; cases hp2
        exact ⟨hg.1, hg.2, rfl, rfl, p, hp⟩
      · cases h
    · cases heq
  · cases h

theorem applyEv_writeEnd_committed {m : Mon} {c c' : Cand} {t : Tid} {v : Ver}
    (h : applyEv m c (.writeEnd t (.committed v)) = some c') :
    (v, true) ∈ c'.sys.log ∧ m.wver t = some v := by
  simp only [applyEv, evActs] at h
  split at h
  · rename_i acts win heq
    split at heq
    · rename_i hg
      simp at hg
      cases heq
      simp [exec] at h
      cases h
      exact ⟨hg.2, hg.1.2⟩
    · cases heq
  · cases h

theorem applyEv_writeEnd_aborted {m : Mon} {c c' : Cand} {t : Tid} {v : Ver}
    (h : applyEv m c (.writeEnd t (.aborted v)) = some c') :
    (v, false) ∈ c'.sys.log ∧ m.wver t = some v := by
  simp only [applyEv, evActs] at h
  split at h
  · rename_i acts win heq
    split at heq
    · rename_i hg
      simp at hg
      cases heq
      simp [exec] at h
      cases h
      exact ⟨hg.2, hg.1.2⟩
    · cases heq
  · cases h

/-- floor of the most recent `read-begin` of thread `t` (accumulating from `f`) -/
def floorFrom (t : Tid) : Ver → List Event → Ver
  | f, [] => f
  | f, .readBegin u f' :: es => floorFrom t (if u = t then f' else f) es
  | f, _ :: es => floorFrom t f es

theorem note_floor (m : Mon) (e : Event) (t : Tid) (es : List Event) :
    floorFrom t ((m.note e).floor t) es = floorFrom t (m.floor t) (e :: es) := by
  cases e with
  | readBegin u f =>
    simp only [Mon.note, floorFrom]
    by_cases h : u = t
    · subst h; simp
    · have h' : ¬ t = u := fun e => h e.symm
      simp [h, h']
  | «at» u p => cases p <;> simp [Mon.note, floorFrom]
  | writeBegin u => simp [Mon.note, floorFrom]
  | writeStarted u v => simp [Mon.note, floorFrom]
  | _ => simp [Mon.note, floorFrom]

theorem runFrom_floor {m m1 : Mon} {i : Nat} {pre : List Event} (h : runFrom m i pre = .ok m1)
    (t : Tid) : m1.floor t = floorFrom t (m.floor t) pre := by
  induction pre generalizing m i with
  | nil => simp [runFrom] at h; subst h; rfl
  | cons e es ih =>
    simp only [runFrom] at h
    split at h
    · rename_i m0 hf
      rw [ih h, (feed_lineage hf).2.1, note_floor]
    · cases h

/-! ## "possibly visible" -/

/-- version `v` is possibly visible after the events `pre`: its writer has started it and has
passed the pause point right before the publishing state swap -/
def Possibly (pre : List Event) (v : Ver) : Prop :=
  ∃ w, Event.writeStarted w v ∈ pre ∧
    (Event.at w .memBeforeSwap ∈ pre ∨ Event.at w .ndBeforePublish ∈ pre)

theorem Possibly.mono {pre pre' : List Event} {v : Ver} (h : Possibly pre v)
    (hsub : ∀ e ∈ pre, e ∈ pre') : Possibly pre' v := by
  obtain ⟨w, h1, h2⟩ := h
  exact ⟨w, hsub _ h1, h2.imp (hsub _) (hsub _)⟩

/-- what the events seen so far say about a candidate -/
structure KInv (pre : List Event) (c : Cand) : Prop where
  body : ∀ t v, c.sys.pc t = .body v → Event.writeStarted t v ∈ pre
  win : ∀ t, c.win t = some .publish →
    (Event.at t .memBeforeSwap ∈ pre ∨ Event.at t .ndBeforePublish ∈ pre)
  log : ∀ v, (v, true) ∈ c.sys.log → v ≤ 2 ∨ Possibly pre v

theorem KInv.mono {pre pre' : List Event} {c : Cand} (h : KInv pre c)
    (hsub : ∀ e ∈ pre, e ∈ pre') : KInv pre' c :=
  ⟨fun t v hp => hsub _ (h.body t v hp), fun t hw => (h.win t hw).imp (hsub _) (hsub _),
   fun v hv => (h.log v hv).imp id (fun hp => hp.mono hsub)⟩

theorem stepI_body {s s' : Sys} {a : Action} {u : Tid} {v : Ver} (h : StepI s a s')
    (hp : s'.pc u = .body v) : s.pc u = .body v ∨ a = ⟨u, .body v⟩ := by
  cases h <;> first | exact Or.inl hp | skip
  all_goals (simp only [setPc] at hp; split at hp <;> simp_all)

theorem fire_spec {s s' : Sys} {t : Tid} {k : Kind} (h : fire s t k = some s') :
    ∃ a, StepI s ⟨t, a⟩ s' ∧ (∀ v, a ≠ .body v) ∧ (∀ v, a = .publish v → k = .publish) := by
  unfold fire at h
  split at h
  · rename_i a ha
    refine ⟨a, stepI_of_step h, ?_, ?_⟩
    · intro v hv; subst hv
      cases k <;> simp [actOf] at ha
      split at ha <;> simp at ha
    · intro v hv; subst hv
      cases k <;> simp [actOf] at ha
      rfl
  · cases h

theorem hidden_K {pre : List Event} {c c' : Cand} {t : Tid} (h : c.hidden t = some c')
    (hk : KInv pre c) : KInv pre c' := by
  unfold Cand.hidden at h
  split at h
  · cases h
  · rename_i k hwin
    split at h
    · rename_i s' hf
      cases h
      obtain ⟨a, hst, hnb, hpub⟩ := fire_spec hf
      refine ⟨?_, ?_, ?_⟩
      · intro u v hp
        rcases stepI_body hst hp with h | h
        · exact hk.body u v h
        · cases h; exact absurd rfl (hnb v)
      · intro u hw
        simp only [setWin] at hw
        split at hw
        · cases k <;> simp [Kind.next] at hw
        · exact hk.win u hw
      · intro v hv
        rcases stepI_log hst with h | ⟨v', ha, hpc, h⟩ | ⟨v', ha, hpc, h⟩
        · rw [h.1] at hv; exact hk.log v hv
        · rw [h] at hv
          rcases List.mem_cons.mp hv with hv | hv
          · cases hv
            have hkp : k = .publish := hpub v ha
            subst hkp
            exact Or.inr ⟨t, hk.body t v hpc, hk.win t hwin⟩
          · exact hk.log v hv
        · rw [h] at hv
          rcases List.mem_cons.mp hv with hv | hv
          · cases hv
          · exact hk.log v hv
    · cases h

theorem closure_K {pre : List Event} {n : Nat} {c c' : Cand} (h : c' ∈ closure n c)
    (hk : KInv pre c) : KInv pre c' := by
  induction n generalizing c with
  | zero => simp [closure] at h; subst h; exact hk
  | succ n ih =>
    simp only [closure, List.mem_cons, List.mem_flatMap] at h
    rcases h with h | ⟨t, _, h⟩
    · subst h; exact hk
    · split at h
      · rename_i c1 hh; exact ih h (hidden_K hh hk)
      · simp at h

theorem closeAll_K {pre : List Event} {cs : List Cand} {c' : Cand} (h : c' ∈ closeAll cs)
    (hk : ∀ c ∈ cs, KInv pre c) : KInv pre c' := by
  have := mem_dedupe h
  simp only [List.mem_flatMap] at this
  obtain ⟨c, hc, hcl⟩ := this
  exact closure_K hcl (hk c hc)

theorem setWin_publish {w : Tid → Option Kind} {t u : Tid} {k : Kind}
    (h : setWin w t (some k) u = some .publish) : w u = some .publish ∨ (u = t ∧ k = .publish) := by
  simp only [setWin] at h
  split at h
  · rename_i hu; cases h; exact Or.inr ⟨hu, rfl⟩
  · exact Or.inl h

theorem evActs_spec {m : Mon} {c : Cand} {e : Event} {acts : List Action}
    {win : Tid → Option Kind} (h : evActs m c e = some (acts, win)) :
    (∀ u, win u = some .publish →
      c.win u = some .publish ∨ e = .at u .memBeforeSwap ∨ e = .at u .ndBeforePublish) ∧
    (∀ a ∈ acts, (∃ t v, a = ⟨t, .read v⟩) ∨ (∃ t v, a = ⟨t, .body v⟩ ∧ e = .writeStarted t v)) := by
  cases e with
  | «at» t p =>
    cases p <;> simp only [evActs] at h <;> (repeat' split at h) <;>
      first
      | (cases h
         refine ⟨fun u hu => ?_, by simp⟩
         first
         | exact Or.inl hu
         | (rcases setWin_publish hu with h1 | ⟨h1, h2⟩
            · exact Or.inl h1
            · first
              | (subst h1; first | exact Or.inr (Or.inl rfl) | exact Or.inr (Or.inr rfl))
              | cases h2))
      | cases h
  | readBegin t f =>
    simp only [evActs] at h; split at h
    · cases h
      refine ⟨fun u hu => ?_, by simp⟩
      rcases setWin_publish hu with h1 | ⟨_, h2⟩
      · exact Or.inl h1
      · cases h2
    · cases h
  | readEnd t v v2 ce k =>
    simp only [evActs] at h; split at h
    · cases h
      refine ⟨fun u hu => Or.inl hu, ?_⟩
      intro a ha; simp at ha
      rcases ha with ha | ha <;> exact Or.inl ⟨_, _, ha⟩
    · cases h
  | readError t => simp [evActs] at h
  | writeBegin t =>
    simp only [evActs] at h; split at h
    · cases h
      refine ⟨fun u hu => ?_, by simp⟩
      rcases setWin_publish hu with h1 | ⟨_, h2⟩
      · exact Or.inl h1
      · cases h2
    · cases h
  | writeStarted t v =>
    simp only [evActs] at h; cases h
    refine ⟨fun u hu => Or.inl hu, ?_⟩
    intro a ha; simp at ha; exact Or.inr ⟨t, v, ha, rfl⟩
  | writeEnd t we =>
    cases we <;> simp only [evActs] at h <;> (try split at h) <;>
      first
      | (cases h; exact ⟨fun u hu => Or.inl hu, by simp⟩)
      | cases h
  | dropReader t p =>
    simp only [evActs] at h; split at h
    · cases h
      refine ⟨fun u hu => ?_, ?_⟩
      · rcases setWin_publish hu with h1 | ⟨_, h2⟩
        · exact Or.inl h1
        · cases h2
      · intro a ha; simp at ha; exact Or.inl ⟨_, _, ha⟩
    · cases h
  | ctlRelease b =>
    simp only [evActs] at h; cases h
    exact ⟨fun u hu => Or.inl hu, by simp⟩

theorem exec_reads_body {s s' : Sys} {acts : List Action} (hex : Exec s acts s')
    (hacts : ∀ a ∈ acts, (∃ t v, a = ⟨t, .read v⟩) ∨ (∃ t v, a = ⟨t, .body v⟩)) :
    s'.log = s.log ∧
    ∀ u v, s'.pc u = .body v → s.pc u = .body v ∨ (⟨u, .body v⟩ : Action) ∈ acts := by
  induction hex with
  | nil => exact ⟨rfl, fun u v h => Or.inl h⟩
  | @cons s s1 s2 a tr hst _ ih =>
    have ih' := ih (fun a ha => hacts a (List.mem_cons_of_mem _ ha))
    have hsI := stepI_of_step hst
    have hlog : s1.log = s.log := by
      rcases stepI_log hsI with h | ⟨v, ha, _, _⟩ | ⟨v, ha, _, _⟩
      · exact h.1
      · rcases hacts a List.mem_cons_self with ⟨t, w, h⟩ | ⟨t, w, h⟩ <;> (subst h; cases ha)
      · rcases hacts a List.mem_cons_self with ⟨t, w, h⟩ | ⟨t, w, h⟩ <;> (subst h; cases ha)
    refine ⟨ih'.1.trans hlog, ?_⟩
    intro u v hp
    rcases ih'.2 u v hp with h | h
    · rcases stepI_body hsI h with h | h
      · exact Or.inl h
      · exact Or.inr (by rw [h]; exact List.mem_cons_self)
    · exact Or.inr (List.mem_cons_of_mem _ h)

theorem applyEv_K {pre : List Event} {m : Mon} {c c' : Cand} {e : Event}
    (h : applyEv m c e = some c') (hk : KInv pre c) : KInv (pre ++ [e]) c' := by
  have hsub : ∀ x ∈ pre, x ∈ pre ++ [e] := fun x hx => List.mem_append_left _ hx
  have he : e ∈ pre ++ [e] := List.mem_append_right _ List.mem_cons_self
  unfold applyEv at h
  split at h
  · rename_i acts win hev
    obtain ⟨hwin, hacts⟩ := evActs_spec hev
    split at h
    · rename_i s' hex
      cases h
      obtain ⟨hlog, hbody⟩ := exec_reads_body (exec_iff.mpr hex)
        (fun a ha => (hacts a ha).imp id (fun ⟨t, v, h, _⟩ => ⟨t, v, h⟩))
      refine ⟨?_, ?_, ?_⟩
      · intro u v hp
        rcases hbody u v hp with h | h
        · exact hsub _ (hk.body u v h)
        · rcases hacts _ h with ⟨t, w, h'⟩ | ⟨t, w, h', he'⟩
          · cases h'
          · cases h'; rw [← he']; exact he
      · intro u hw
        rcases hwin u hw with h | h | h
        · exact (hk.win u h).imp (hsub _) (hsub _)
        · exact Or.inl (by rw [← h]; exact he)
        · exact Or.inr (by rw [← h]; exact he)
      · intro v hv
        rw [hlog] at hv
        exact (hk.log v hv).imp id (fun hp => hp.mono hsub)
    · cases h
  · cases h

theorem feed_K {pre : List Event} {m m' : Mon} {e : Event} (h : feed m e = .ok m')
    (hk : ∀ c ∈ m.cands, KInv pre c) : ∀ c ∈ m'.cands, KInv (pre ++ [e]) c := by
  unfold feed at h
  split at h
  · unfold feedCore at h
    split at h
    · cases h
    · rename_i d ds hd
      cases h
      intro c' hc'
      have hmem : c' ∈ dedupe ((closeAll m.cands).filterMap (applyEv m · e)) := by rw [hd]; exact hc'
      have := mem_dedupe hmem
      simp only [List.mem_filterMap] at this
      obtain ⟨c1, hc1, hap⟩ := this
      exact applyEv_K hap (closeAll_K hc1 hk)
  · cases h

theorem runFrom_K {pre : List Event} {m m' : Mon} {i : Nat} {es : List Event}
    (h : runFrom m i es = .ok m') (hk : ∀ c ∈ m.cands, KInv pre c) :
    ∀ c ∈ m'.cands, KInv (pre ++ es) c := by
  induction es generalizing m i pre with
  | nil => simp [runFrom] at h; subst h; simpa using hk
  | cons e es ih =>
    simp only [runFrom] at h
    split at h
    · rename_i m1 hf
      have := ih h (feed_K hf hk)
      simpa using this
    · cases h

theorem init0_log : init0.log = [(2, true), (1, true), (0, true)] := by rfl
theorem init0_slot : init0.slot = none := by rfl

theorem mon0_K : ∀ c ∈ mon0.cands, KInv [] c := by
  intro c hc
  simp [mon0] at hc; subst hc
  refine ⟨?_, ?_, ?_⟩
  · intro t v hp
    have hi := inv_of_reachable reachable_init0
    have := (hi.slot t).mpr (by rw [hp]; rfl)
    rw [init0_slot] at this; cases this
  · intro t hw; cases hw
  · intro v hv
    rw [init0_log] at hv
    simp at hv
    omega

/-! ## one writer at a time, on the event stream -/

/-- the writer side of what the events seen so far say about a candidate -/
structure WInv (pre : List Event) (c : Cand) : Prop where
  rel : ∀ u, c.win u = some .release → Event.at u .writeDrop ∈ pre
  started : ∀ u w, Event.writeStarted u w ∈ pre →
    (c.sys.pc u).holdsSlot = true ∨ Event.at u .writeDrop ∈ pre

theorem WInv.mono {pre pre' : List Event} {c : Cand} (h : WInv pre c)
    (hsub : ∀ e ∈ pre, e ∈ pre') (hnew : ∀ u w, Event.writeStarted u w ∈ pre' →
      Event.writeStarted u w ∈ pre) : WInv pre' c :=
  ⟨fun u hw => hsub _ (h.rel u hw), fun u w hs => (h.started u w (hnew u w hs)).imp id (hsub _)⟩

theorem stepI_holds {s s' : Sys} {a : Action} {u : Tid} (h : StepI s a s')
    (hp : (s.pc u).holdsSlot = true) : (s'.pc u).holdsSlot = true ∨ a = ⟨u, .release⟩ := by
  cases h with
  | register t hpc =>
    by_cases hu : u = t
    · subst hu; rw [hpc] at hp; simp [PC.holdsSlot] at hp
    · left; show (setPc s.pc t _ u).holdsSlot = true; rw [setPc_other _ _ hu]; exact hp
  | readRoot t p hpc =>
    by_cases hu : u = t
    · subst hu; rw [hpc] at hp; simp [PC.holdsSlot] at hp
    · left; show (setPc s.pc t _ u).holdsSlot = true; rw [setPc_other _ _ hu]; exact hp
  | read t p r hpc => exact Or.inl hp
  | drop t p r hpc =>
    by_cases hu : u = t
    · subst hu; rw [hpc] at hp; simp [PC.holdsSlot] at hp
    · left; show (setPc s.pc t _ u).holdsSlot = true; rw [setPc_other _ _ hu]; exact hp
  | acquire t hpc hfree =>
    by_cases hu : u = t
    · subst hu; rw [hpc] at hp; simp [PC.holdsSlot] at hp
    · left; show (setPc s.pc t _ u).holdsSlot = true; rw [setPc_other _ _ hu]; exact hp
  | body t hpc =>
    left
    by_cases hu : u = t
    · subst hu; show (setPc s.pc u _ u).holdsSlot = true; rw [setPc_same]; rfl
    · show (setPc s.pc t _ u).holdsSlot = true; rw [setPc_other _ _ hu]; exact hp
  | publish t v hpc =>
    left
    by_cases hu : u = t
    · subst hu; show (setPc s.pc u _ u).holdsSlot = true; rw [setPc_same]; rfl
    · show (setPc s.pc t _ u).holdsSlot = true; rw [setPc_other _ _ hu]; exact hp
  | releaseHolding t hpc =>
    by_cases hu : u = t
    · subst hu; exact Or.inr rfl
    · left; show (setPc s.pc t _ u).holdsSlot = true; rw [setPc_other _ _ hu]; exact hp
  | releaseAbort t v hpc =>
    by_cases hu : u = t
    · subst hu; exact Or.inr rfl
    · left; show (setPc s.pc t _ u).holdsSlot = true; rw [setPc_other _ _ hu]; exact hp
  | releaseCommit t v hpc =>
    by_cases hu : u = t
    · subst hu; exact Or.inr rfl
    · left; show (setPc s.pc t _ u).holdsSlot = true; rw [setPc_other _ _ hu]; exact hp

theorem fire_release {s s' : Sys} {t : Tid} {k : Kind} {a : Act} (h : fire s t k = some s')
    (ha : actOf s t k = some a) (hr : a = .release) : k = .release := by
  subst hr
  cases k <;> simp [actOf] at ha
  · split at ha <;> simp at ha
  · rfl

theorem hidden_W {pre : List Event} {c c' : Cand} {t : Tid} (h : c.hidden t = some c')
    (hk : WInv pre c) : WInv pre c' := by
  unfold Cand.hidden at h
  split at h
  · cases h
  · rename_i k hwin
    split at h
    · rename_i s' hf
      cases h
      refine ⟨?_, ?_⟩
      · intro u hw
        simp only [setWin] at hw
        split at hw
        · cases k <;> simp [Kind.next] at hw
        · exact hk.rel u hw
      · intro u w hs
        rcases hk.started u w hs with hh | hh
        · have hf' := hf
          unfold fire at hf'
          split at hf'
          · rename_i a ha
            rcases stepI_holds (stepI_of_step hf') hh with h1 | h1
            · exact Or.inl h1
            · cases h1
              have hkr : k = .release := fire_release hf ha rfl
              subst hkr
              exact Or.inr (hk.rel _ hwin)
          · cases hf'
        · exact Or.inr hh
    · cases h

theorem closure_W {pre : List Event} {n : Nat} {c c' : Cand} (h : c' ∈ closure n c)
    (hk : WInv pre c) : WInv pre c' := by
  induction n generalizing c with
  | zero => simp [closure] at h; subst h; exact hk
  | succ n ih =>
    simp only [closure, List.mem_cons, List.mem_flatMap] at h
    rcases h with h | ⟨t, _, h⟩
    · subst h; exact hk
    · split at h
      · rename_i c1 hh; exact ih h (hidden_W hh hk)
      · simp at h

theorem closeAll_W {pre : List Event} {cs : List Cand} {c' : Cand} (h : c' ∈ closeAll cs)
    (hk : ∀ c ∈ cs, WInv pre c) : WInv pre c' := by
  have := mem_dedupe h
  simp only [List.mem_flatMap] at this
  obtain ⟨c, hc, hcl⟩ := this
  exact closure_W hcl (hk c hc)

theorem setWin_release {w : Tid → Option Kind} {t u : Tid} {k : Kind}
    (h : setWin w t (some k) u = some .release) : w u = some .release ∨ (u = t ∧ k = .release) := by
  simp only [setWin] at h
  split at h
  · rename_i hu; cases h; exact Or.inr ⟨hu, rfl⟩
  · exact Or.inl h

theorem evActs_release {m : Mon} {c : Cand} {e : Event} {acts : List Action}
    {win : Tid → Option Kind} (h : evActs m c e = some (acts, win)) :
    ∀ u, win u = some .release → c.win u = some .release ∨ e = .at u .writeDrop := by
  cases e with
  | «at» t p =>
    cases p <;> simp only [evActs] at h <;> (repeat' split at h) <;>
      first
      | (cases h
         intro u hu
         first
         | exact Or.inl hu
         | (rcases setWin_release hu with h1 | ⟨h1, h2⟩
            · exact Or.inl h1
            · first
              | (subst h1; exact Or.inr rfl)
              | cases h2))
      | cases h
  | readBegin t f =>
    simp only [evActs] at h; split at h
    · cases h
      intro u hu
      rcases setWin_release hu with h1 | ⟨_, h2⟩
      · exact Or.inl h1
      · cases h2
    · cases h
  | readEnd t v v2 ce k =>
    simp only [evActs] at h; split at h
    · cases h; exact fun u hu => Or.inl hu
    · cases h
  | readError t => simp [evActs] at h
  | writeBegin t =>
    simp only [evActs] at h; split at h
    · cases h
      intro u hu
      rcases setWin_release hu with h1 | ⟨_, h2⟩
      · exact Or.inl h1
      · cases h2
    · cases h
  | writeStarted t v =>
    simp only [evActs] at h; cases h; exact fun u hu => Or.inl hu
  | writeEnd t we =>
    cases we <;> simp only [evActs] at h <;> (try split at h) <;>
      first
      | (cases h; exact fun u hu => Or.inl hu)
      | cases h
  | dropReader t p =>
    simp only [evActs] at h; split at h
    · cases h
      intro u hu
      rcases setWin_release hu with h1 | ⟨_, h2⟩
      · exact Or.inl h1
      · cases h2
    · cases h
  | ctlRelease b =>
    simp only [evActs] at h; cases h; exact fun u hu => Or.inl hu

theorem body_inv {s s' : Sys} {t : Tid} {v : Ver} (h : Step s ⟨t, .body v⟩ s') :
    s.pc t = .holding ∧ s'.pc t = .body v := by
  cases hpc : s.pc t <;> simp [Step, step, hpc] at h
  obtain ⟨rfl, rfl⟩ := h; exact ⟨rfl, by simp [setPc]⟩

theorem exec_holds {s s' : Sys} {acts : List Action} {u : Tid} (hex : Exec s acts s')
    (hacts : ∀ a ∈ acts, (∃ t v, a = ⟨t, .read v⟩) ∨ (∃ t v, a = ⟨t, .body v⟩))
    (hp : (s.pc u).holdsSlot = true) : (s'.pc u).holdsSlot = true := by
  induction hex with
  | nil => exact hp
  | @cons s s1 s2 a tr hst _ ih =>
    refine ih (fun a ha => hacts a (List.mem_cons_of_mem _ ha)) ?_
    rcases stepI_holds (stepI_of_step hst) hp with h | h
    · exact h
    · rcases hacts a List.mem_cons_self with ⟨t, w, h'⟩ | ⟨t, w, h'⟩ <;> (rw [h'] at h; cases h)

theorem applyEv_W {pre : List Event} {m : Mon} {c c' : Cand} {e : Event}
    (h : applyEv m c e = some c') (hk : WInv pre c) : WInv (pre ++ [e]) c' := by
  have hsub : ∀ x ∈ pre, x ∈ pre ++ [e] := fun x hx => List.mem_append_left _ hx
  have he : e ∈ pre ++ [e] := List.mem_append_right _ List.mem_cons_self
  unfold applyEv at h
  split at h
  · rename_i acts win hev
    have hrel := evActs_release hev
    have hacts := (evActs_spec hev).2
    split at h
    · rename_i s' hex
      cases h
      have hex' := exec_iff.mpr hex
      have hacts' : ∀ a ∈ acts, (∃ t v, a = ⟨t, .read v⟩) ∨ (∃ t v, a = (⟨t, .body v⟩ : Action)) :=
        fun a ha => (hacts a ha).imp id (fun ⟨t, v, h, _⟩ => ⟨t, v, h⟩)
      refine ⟨?_, ?_⟩
      · intro u hw
        rcases hrel u hw with h | h
        · exact hsub _ (hk.rel u h)
        · rw [← h]; exact he
      · intro u w hs
        rcases List.mem_append.mp hs with hs | hs
        · exact (hk.started u w hs).imp (exec_holds hex' hacts') (hsub _)
        · simp at hs; subst hs
          simp only [evActs] at hev; cases hev
          obtain ⟨m1, hst, hnil⟩ := exec_cons.mp hex'
          cases hnil
          left; rw [(body_inv hst).2]; rfl
    · cases h
  · cases h

theorem feed_W {pre : List Event} {m m' : Mon} {e : Event} (h : feed m e = .ok m')
    (hk : ∀ c ∈ m.cands, WInv pre c) : ∀ c ∈ m'.cands, WInv (pre ++ [e]) c := by
  unfold feed at h
  split at h
  · unfold feedCore at h
    split at h
    · cases h
    · rename_i d ds hd
      cases h
      intro c' hc'
      have hmem : c' ∈ dedupe ((closeAll m.cands).filterMap (applyEv m · e)) := by rw [hd]; exact hc'
      have := mem_dedupe hmem
      simp only [List.mem_filterMap] at this
      obtain ⟨c1, hc1, hap⟩ := this
      exact applyEv_W hap (closeAll_W hc1 hk)
  · cases h

theorem runFrom_W {pre : List Event} {m m' : Mon} {i : Nat} {es : List Event}
    (h : runFrom m i es = .ok m') (hk : ∀ c ∈ m.cands, WInv pre c) :
    ∀ c ∈ m'.cands, WInv (pre ++ es) c := by
  induction es generalizing m i pre with
  | nil => simp [runFrom] at h; subst h; simpa using hk
  | cons e es ih =>
    simp only [runFrom] at h
    split at h
    · rename_i m1 hf
      have := ih h (feed_W hf hk)
      simpa using this
    · cases h

theorem mon0_W : ∀ c ∈ mon0.cands, WInv [] c := by
  intro c hc
  simp [mon0] at hc; subst hc
  refine ⟨?_, ?_⟩
  · intro u hw; cases hw
  · intro u w hs; cases hs

theorem applyEv_writeStarted {m : Mon} {c c' : Cand} {t : Tid} {v : Ver}
    (h : applyEv m c (.writeStarted t v) = some c') : c.sys.pc t = .holding := by
  simp only [applyEv, evActs] at h
  split at h
  · rename_i s' hex
    obtain ⟨m1, hst, _⟩ := exec_cons.mp (exec_iff.mpr hex)
    exact (body_inv hst).1
  · cases h

end Redb.Conc
