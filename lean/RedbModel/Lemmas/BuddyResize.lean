import RedbModel.Lemmas.Buddy
/-!
`Buddy.resize` (grow and shrink paths of `BuddyAllocator::resize`): the invariant `Inv` is
preserved and the set of free pages changes by exactly the pages added / removed.
-/
namespace Redb.Buddy

/-! ### the `trailing_zeros` bit trick -/

/-- `p &&& (p ^^^ (p - 1))` isolates the lowest set bit of `p` -/
theorem lowbit_spec (p : Nat) : 0 < p → ∃ t, p &&& (p ^^^ (p - 1)) = 2 ^ t ∧ 2 ^ t ∣ p := by
  induction p using Nat.strongRecOn with
  | _ p ih =>
    intro hp
    by_cases hodd : p % 2 = 1
    · refine ⟨0, ?_, by simp⟩
      have h1 : (p ^^^ (p - 1)) / 2 = 0 := by
        rw [Nat.xor_div_two, show (p - 1) / 2 = p / 2 by omega, Nat.xor_self]
      have h2 : (p ^^^ (p - 1)) % 2 = 1 := by
        rw [Nat.xor_mod_two_eq_one]; omega
      have h3 : p ^^^ (p - 1) = 1 := by omega
      rw [h3, Nat.and_one_is_mod, hodd]
    · have hk : 0 < p / 2 := by omega
      obtain ⟨t, ht, hd⟩ := ih (p / 2) (by omega) hk
      refine ⟨t + 1, ?_, ?_⟩
      · have h1 : (p &&& (p ^^^ (p - 1))) / 2 = 2 ^ t := by
          rw [Nat.and_div_two, Nat.xor_div_two, show (p - 1) / 2 = p / 2 - 1 by omega, ht]
        have h2 : (p &&& (p ^^^ (p - 1))) % 2 ≠ 1 := by
          rw [Ne, Nat.and_mod_two_eq_one]; omega
        rw [Nat.pow_succ]; omega
      · obtain ⟨c, hc⟩ := hd
        exact ⟨c, by rw [Nat.pow_succ, Nat.mul_right_comm, ← hc]; omega⟩

/-- the order computed in the alignment loops (`trailing_zeros`, `32` for `0`) -/
def tz (p : Nat) : Nat := if p = 0 then 32 else (p &&& (p ^^^ (p - 1))).log2

theorem tz_dvd (p : Nat) : 2 ^ tz p ∣ p := by
  unfold tz
  split
  · subst p; exact Nat.dvd_zero _
  · obtain ⟨t, ht, hd⟩ := lowbit_spec p (by omega)
    rw [ht, Nat.log2_two_pow]; exact hd

/-! ### aligned blocks -/

theorem aligned_end {P k : Nat} (hd : 2 ^ k ∣ P) : (P / 2 ^ k + 1) * 2 ^ k = P + 2 ^ k := by
  rw [Nat.add_mul, Nat.div_mul_cancel hd, Nat.one_mul]

theorem aligned_mem {P k : Nat} (hd : 2 ^ k ∣ P) (q : Nat) :
    q / 2 ^ k = P / 2 ^ k ↔ (P ≤ q ∧ q < P + 2 ^ k) := by
  have hp := Nat.two_pow_pos k
  rw [Nat.div_eq_iff hp, Nat.div_mul_cancel hd]
  omega

theorem dvd_of_pow_le {P j k : Nat} (hjk : j ≤ k) (hd : 2 ^ k ∣ P) : 2 ^ j ∣ P :=
  Nat.dvd_trans (Nat.pow_dvd_pow 2 hjk) hd

/-! ### `resizeAll` -/

theorem length_resizeBits (bs : Bits) (n : Nat) : (resizeBits bs n).length = n := by
  unfold resizeBits
  split <;> simp <;> omega

theorem getD_resizeBits (bs : Bits) (n i : Nat) :
    (resizeBits bs n).getD i true = if i < n then bs.getD i true else true := by
  unfold resizeBits
  simp only [List.getD_eq_getElem?_getD]
  split
  · rw [List.getElem?_take]; split <;> simp
  · rw [List.getElem?_append]
    split
    · rw [if_pos (by omega)]
    · simp only [List.getElem?_replicate]
      split <;> split <;> simp <;> grind

theorem length_resizeAll (f : List Bits) (n : Nat) : (resizeAll f n).length = f.length := by
  simp [resizeAll]

theorem lenAt_resizeAll (f : List Bits) (n o : Nat) (ho : o < f.length) :
    lenAt (resizeAll f n) o = n / 2 ^ o := by
  simp [lenAt, resizeAll, List.getD_eq_getElem?_getD, ho, length_resizeBits,
    Nat.shiftRight_eq_div_pow]

theorem getBit_resizeAll (f : List Bits) (n o i : Nat) (ho : o < f.length) :
    getBit (resizeAll f n) o i = if i < n / 2 ^ o then getBit f o i else true := by
  simp only [getBit, resizeAll, List.getD_eq_getElem?_getD, List.getElem?_map,
    List.getElem?_range ho, Option.map_some, Option.getD_some]
  have := getD_resizeBits (f[o]?.getD []) (n >>> o) i
  simp only [List.getD_eq_getElem?_getD] at this
  rw [this, Nat.shiftRight_eq_div_pow]

theorem freeAt_resizeAll (f : List Bits) (n o i : Nat) (ho : o < f.length) :
    FreeAt (resizeAll f n) o i ↔ (FreeAt f o i ∧ i < n / 2 ^ o) := by
  simp only [FreeAt, lenAt_resizeAll f n o ho, getBit_resizeAll f n o i ho]
  constructor
  · rintro ⟨h1, h2⟩
    rw [if_pos h1] at h2
    refine ⟨⟨?_, h2⟩, h1⟩
    simp only [getBit, lenAt, List.getD_eq_getElem?_getD] at h2 ⊢
    grind
  · rintro ⟨⟨_, h2⟩, h1⟩
    exact ⟨h1, by rw [if_pos h1]; exact h2⟩

/-- resizing the bitmaps to `n` pages when no page `≥ n` is free (always the case when
growing) keeps the invariant and the set of free pages -/
theorem resizeAll_spec {mo len : Nat} {f : List Bits} (h : Inv mo len f) (n : Nat)
    (hn : ∀ q, PageFree mo f q → q < n) :
    Inv mo n (resizeAll f n) ∧
    (∀ o i, o ≤ mo → (FreeAt (resizeAll f n) o i ↔ FreeAt f o i)) ∧
    (∀ q, PageFree mo (resizeAll f n) q ↔ PageFree mo f q) := by
  have key : ∀ o i, o ≤ mo → (FreeAt (resizeAll f n) o i ↔ FreeAt f o i) := by
    intro o i ho
    rw [freeAt_resizeAll f n o i (by rw [h.size]; omega)]
    refine ⟨fun a => a.1, fun a => ⟨a, ?_⟩⟩
    have hp := Nat.two_pow_pos o
    have hq : (i * 2 ^ o + (2 ^ o - 1)) / 2 ^ o = i := by
      rw [Nat.div_eq_iff hp]; omega
    have := hn _ (freeAt_pageFree ho a hq)
    rw [← range_iff, Nat.add_mul]; omega
  refine ⟨⟨?_, ?_, ?_, ?_⟩, key, ?_⟩
  · rw [length_resizeAll, h.size]
  · intro o ho; exact lenAt_resizeAll f n o (by rw [h.size]; omega)
  · intro p o₁ o₂ h1 h2 hf1 hf2
    rw [key _ _ h1] at hf1; rw [key _ _ h2] at hf2
    exact h.unique p o₁ o₂ h1 h2 hf1 hf2
  · intro o i ho hf1 hf2
    rw [key _ _ (by omega)] at hf1 hf2
    exact h.merged o i ho hf1 hf2
  · intro q
    constructor
    · rintro ⟨o, ho, hf⟩; exact ⟨o, ho, (key _ _ ho).1 hf⟩
    · rintro ⟨o, ho, hf⟩; exact ⟨o, ho, (key _ _ ho).2 hf⟩

/-! ### grow path -/

/-- loop state of the grow path: pages `[len, P)` have been freed so far -/
structure GrowSt (mo len newSize : Nat) (f0 : List Bits) (P : Nat) (g : List Bits) : Prop where
  inv : Inv mo newSize g
  lo : len ≤ P
  hi : P ≤ newSize
  pf : ∀ q, PageFree mo g q ↔ (PageFree mo f0 q ∨ (len ≤ q ∧ q < P))

/-- `P` is aligned for every order below `k` at which a block still fits -/
def AlignedBelow (bound k P : Nat) : Prop := ∀ j, j < k → 2 ^ j ∣ P ∨ bound < P + 2 ^ j

theorem growSt_step {mo len newSize : Nat} {f0 : List Bits} {P : Nat} {g : List Bits} {k : Nat}
    (hf0 : ∀ q, PageFree mo f0 q → q < len) (h : GrowSt mo len newSize f0 P g)
    (hk : k ≤ mo) (hd : 2 ^ k ∣ P) (hle : P + 2 ^ k ≤ newSize) :
    GrowSt mo len newSize f0 (P + 2 ^ k) (freeInner mo g (P / 2 ^ k) k).1 := by
  have hp := Nat.two_pow_pos k
  have hlo := h.lo
  have hheld : ∀ q, q / 2 ^ k = P / 2 ^ k → ¬ PageFree mo g q := by
    intro q hq hc
    rw [aligned_mem hd] at hq
    rcases (h.pf q).1 hc with hc | hc
    · have := hf0 q hc; omega
    · omega
  obtain ⟨hinv, hpf, _⟩ := freeInner_spec mo newSize g (P / 2 ^ k) k h.inv hk
    (by rw [aligned_end hd]; exact hle) hheld
  refine ⟨hinv, by omega, hle, ?_⟩
  intro q
  rw [hpf q, h.pf q, aligned_mem hd]
  constructor
  · rintro ((a | a) | a)
    · exact Or.inl a
    · exact Or.inr (by omega)
    · exact Or.inr (by omega)
  · rintro (a | a)
    · exact Or.inl (Or.inl a)
    · by_cases e : q < P
      · exact Or.inl (Or.inr (by omega))
      · exact Or.inr (by omega)

theorem growAlign_succ (mo newSize fuel P : Nat) (f : List Bits) :
    growAlign mo newSize (fuel + 1) P f =
      if P < newSize then
        if (tz P ≥ mo || P + 2 ^ tz P > newSize) = true then (P, f)
        else growAlign mo newSize fuel (P + 2 ^ tz P) (freeInner mo f (P / 2 ^ tz P) (tz P)).1
      else (P, f) := rfl

theorem alignedBelow_of_dvd {bound k t P : Nat} (hd : 2 ^ t ∣ P) (h : k ≤ t + 1 ∨ bound < P + 2 ^ t) :
    AlignedBelow bound k P := by
  intro j hj
  by_cases hjt : j ≤ t
  · exact Or.inl (dvd_of_pow_le hjt hd)
  · right
    have : 2 ^ t ≤ 2 ^ j := Nat.pow_le_pow_right (by omega) (by omega)
    omega

theorem growAlign_spec {mo len newSize : Nat} {f0 : List Bits}
    (hf0 : ∀ q, PageFree mo f0 q → q < len) (fuel : Nat) :
    ∀ (P : Nat) (g : List Bits), GrowSt mo len newSize f0 P g → newSize - P < fuel →
      GrowSt mo len newSize f0 (growAlign mo newSize fuel P g).1 (growAlign mo newSize fuel P g).2 ∧
      AlignedBelow newSize (mo + 1) (growAlign mo newSize fuel P g).1 := by
  induction fuel with
  | zero => intro P g _ h; omega
  | succ fuel ih =>
    intro P g h hfuel
    rw [growAlign_succ]
    have hd := tz_dvd P
    have hp := Nat.two_pow_pos (tz P)
    split
    · split
      · rename_i hc
        refine ⟨h, alignedBelow_of_dvd hd ?_⟩
        simp only [ge_iff_le, gt_iff_lt, Bool.or_eq_true, decide_eq_true_eq] at hc
        omega
      · rename_i hc
        simp only [ge_iff_le, gt_iff_lt, Bool.or_eq_true, decide_eq_true_eq, not_or] at hc
        exact ih _ _ (growSt_step hf0 h (by omega) hd (by omega)) (by omega)
    · refine ⟨h, ?_⟩
      intro j _
      have := Nat.two_pow_pos j
      have := h.hi
      right; omega

theorem growFill_spec {mo len newSize : Nat} {f0 : List Bits}
    (hf0 : ∀ q, PageFree mo f0 q → q < len) (k : Nat) (hk : k ≤ mo) (fuel : Nat) :
    ∀ (P : Nat) (g : List Bits), GrowSt mo len newSize f0 P g → AlignedBelow newSize (k + 1) P →
      newSize - P < fuel →
      GrowSt mo len newSize f0 (growFill mo newSize k fuel P g).1 (growFill mo newSize k fuel P g).2 ∧
      AlignedBelow newSize (k + 1) (growFill mo newSize k fuel P g).1 ∧
      newSize < (growFill mo newSize k fuel P g).1 + 2 ^ k := by
  induction fuel with
  | zero => intro P g _ _ h; omega
  | succ fuel ih =>
    intro P g h hal hfuel
    have hp := Nat.two_pow_pos k
    unfold growFill
    split
    · rename_i hc
      have hd : 2 ^ k ∣ P := (hal k (by omega)).resolve_right (by omega)
      refine ih _ _ (growSt_step hf0 h hk hd hc) ?_ (by omega)
      intro j hj
      exact Or.inl ((Nat.dvd_add_right (dvd_of_pow_le (by omega) hd)).2
        (Nat.pow_dvd_pow 2 (by omega)))
    · exact ⟨h, hal, by omega⟩

theorem growFold_spec {mo len newSize : Nat} {f0 : List Bits}
    (hf0 : ∀ q, PageFree mo f0 q → q < len) (k : Nat) :
    ∀ (s : Nat × List Bits), k ≤ mo + 1 → GrowSt mo len newSize f0 s.1 s.2 →
      AlignedBelow newSize k s.1 → (k ≤ mo → newSize < s.1 + 2 ^ k) →
      GrowSt mo len newSize f0 newSize ((List.range k).reverse.foldl
        (fun (s : Nat × List Bits) o => growFill mo newSize o (newSize + 1) s.1 s.2) s).2 ∧
      ((List.range k).reverse.foldl
        (fun (s : Nat × List Bits) o => growFill mo newSize o (newSize + 1) s.1 s.2) s).1 = newSize := by
  induction k with
  | zero =>
    intro s _ h _ hlt
    have := h.hi
    have e : s.1 = newSize := by have := hlt (by omega); omega
    simp only [List.range_zero, List.reverse_nil, List.foldl_nil]
    exact ⟨e ▸ h, e⟩
  | succ k ih =>
    intro s hk h hal _
    rw [List.range_succ, List.reverse_append, List.reverse_singleton, List.singleton_append,
      List.foldl_cons]
    have := h.hi
    obtain ⟨h1, h2, h3⟩ := growFill_spec hf0 k (by omega) (newSize + 1) s.1 s.2 h hal (by omega)
    exact ih _ (by omega) h1 (fun j hj => h2 j (by omega)) (fun _ => h3)

/-- grow (no bound on `maxOrder` is needed: `2 ^ 32` divides `0`) -/
theorem resize_grow' (b : Buddy) (newSize : Nat)
    (h : Inv b.maxOrder b.len b.free) (hg : b.len < newSize) :
    ∃ b', b.resize newSize = some b' ∧ b'.len = newSize ∧ b'.maxOrder = b.maxOrder ∧ b'.cap = b.cap ∧
      Inv b.maxOrder newSize b'.free ∧
      ∀ q, PageFree b.maxOrder b'.free q ↔ (PageFree b.maxOrder b.free q ∨ (b.len ≤ q ∧ q < newSize)) := by
  have hf0 : ∀ q, PageFree b.maxOrder b.free q → q < b.len := fun q hq => pageFree_lt h hq
  obtain ⟨hinv0, _, hpf0⟩ := resizeAll_spec h newSize (fun q hq => by have := hf0 q hq; omega)
  have hf0' : ∀ q, PageFree b.maxOrder (resizeAll b.free newSize) q → q < b.len :=
    fun q hq => hf0 q ((hpf0 q).1 hq)
  have st0 : GrowSt b.maxOrder b.len newSize (resizeAll b.free newSize) b.len
      (resizeAll b.free newSize) :=
    ⟨hinv0, Nat.le_refl _, by omega, fun q => ⟨Or.inl, fun a => a.resolve_right (by omega)⟩⟩
  obtain ⟨st1, al1⟩ := growAlign_spec hf0' (newSize + 1) _ _ st0 (by omega)
  obtain ⟨st2, e2⟩ := growFold_spec hf0' (b.maxOrder + 1) _ (Nat.le_refl _) st1 al1 (by omega)
  have hres : b.resize newSize = some { b with
      free := ((List.range (b.maxOrder + 1)).reverse.foldl
        (fun (s : Nat × List Bits) o => growFill b.maxOrder newSize o (newSize + 1) s.1 s.2)
        (growAlign b.maxOrder newSize (newSize + 1) b.len (resizeAll b.free newSize))).2,
      len := newSize } := by
    simp only [Buddy.resize, gt_iff_lt, hg, if_true]
    rw [if_pos e2]
  refine ⟨_, hres, rfl, rfl, rfl, st2.inv, ?_⟩
  intro q
  rw [st2.pf q, hpf0 q]

/-! ### shrink path -/

/-- loop state of the shrink path: pages `[newSize, P)` were free and have been marked used -/
structure ShrinkSt (mo len newSize : Nat) (f0 : List Bits) (P : Nat) (g : List Bits) : Prop where
  inv : Inv mo len g
  lo : newSize ≤ P
  hi : P ≤ len
  pf : ∀ q, PageFree mo g q ↔ (PageFree mo f0 q ∧ ¬ (newSize ≤ q ∧ q < P))
  was : ∀ q, newSize ≤ q → q < P → PageFree mo f0 q

theorem shrinkSt_step {mo len newSize : Nat} {f0 : List Bits} {P : Nat} {g : List Bits} {k : Nat}
    (h : ShrinkSt mo len newSize f0 P g)
    (hk : k ≤ mo) (hd : 2 ^ k ∣ P) (hle : P + 2 ^ k ≤ len) :
    (∀ g', recordAllocInner mo g (P / 2 ^ k) k = some g' →
      ShrinkSt mo len newSize f0 (P + 2 ^ k) g') ∧
    ((∀ q, newSize ≤ q → q < len → PageFree mo f0 q) →
      (recordAllocInner mo g (P / 2 ^ k) k).isSome) := by
  have hp := Nat.two_pow_pos k
  have hlo := h.lo
  obtain ⟨hsome, hspec⟩ := recordAllocInner_spec mo len g (P / 2 ^ k) k h.inv
  constructor
  · intro g' hg'
    obtain ⟨hinv, hpf⟩ := hspec g' hg'
    have hall := (hsome.1 (by rw [hg']; rfl)).2.2
    refine ⟨hinv, by omega, hle, ?_, ?_⟩
    · intro q
      rw [hpf q, h.pf q, Ne, aligned_mem hd]
      constructor
      · rintro ⟨⟨a, b⟩, c⟩; exact ⟨a, by omega⟩
      · rintro ⟨a, b⟩; exact ⟨⟨a, by omega⟩, by omega⟩
    · intro q h1 h2
      by_cases e : q < P
      · exact h.was q h1 e
      · exact ((h.pf q).1 (hall q ((aligned_mem hd q).2 (by omega)))).1
  · intro hT
    rw [hsome]
    refine ⟨hk, by rw [aligned_end hd]; exact hle, ?_⟩
    intro q hq
    rw [aligned_mem hd] at hq
    rw [h.pf q]
    exact ⟨hT q (by omega) (by omega), by omega⟩

theorem shrinkAlign_succ (mo len fuel P : Nat) (f : List Bits) :
    shrinkAlign mo len (fuel + 1) P f =
      if P < len then
        if tz P ≥ mo then some (P, f)
        else if P + 2 ^ tz P > len then some (P, f)
        else match recordAllocInner mo f (P / 2 ^ tz P) (tz P) with
          | none => none
          | some f' => shrinkAlign mo len fuel (P + 2 ^ tz P) f'
      else some (P, f) := rfl

theorem shrinkAlign_spec {mo len newSize : Nat} {f0 : List Bits} (fuel : Nat) :
    ∀ (P : Nat) (g : List Bits), ShrinkSt mo len newSize f0 P g → len - P < fuel →
      (∀ r, shrinkAlign mo len fuel P g = some r →
        ShrinkSt mo len newSize f0 r.1 r.2 ∧ AlignedBelow len (mo + 1) r.1) ∧
      ((∀ q, newSize ≤ q → q < len → PageFree mo f0 q) →
        (shrinkAlign mo len fuel P g).isSome) := by
  induction fuel with
  | zero => intro P g _ h; omega
  | succ fuel ih =>
    intro P g h hfuel
    rw [shrinkAlign_succ]
    have hd := tz_dvd P
    have hp := Nat.two_pow_pos (tz P)
    split
    · split
      · rename_i hc
        refine ⟨?_, fun _ => rfl⟩
        intro r hr
        simp only [Option.some.injEq] at hr
        subst hr
        exact ⟨h, alignedBelow_of_dvd hd (by omega)⟩
      · split
        · rename_i hc
          refine ⟨?_, fun _ => rfl⟩
          intro r hr
          simp only [Option.some.injEq] at hr
          subst hr
          exact ⟨h, alignedBelow_of_dvd hd (by omega)⟩
        · obtain ⟨hstep, hsome⟩ := shrinkSt_step h (k := tz P) (by omega) hd (by omega)
          split
          · rename_i hnone
            refine ⟨fun r hr => by simp at hr, fun hT => ?_⟩
            have := hsome hT
            rw [hnone] at this
            exact this
          · rename_i g' hg'
            exact ih _ _ (hstep g' hg') (by omega)
    · refine ⟨?_, fun _ => rfl⟩
      intro r hr
      simp only [Option.some.injEq] at hr
      subst hr
      refine ⟨h, ?_⟩
      intro j _
      have := Nat.two_pow_pos j
      have := h.hi
      right; omega

theorem shrinkFill_spec {mo len newSize : Nat} {f0 : List Bits}
    (k : Nat) (hk : k ≤ mo) (fuel : Nat) :
    ∀ (P : Nat) (g : List Bits), ShrinkSt mo len newSize f0 P g → AlignedBelow len (k + 1) P →
      len - P < fuel →
      (∀ r, shrinkFill mo len k fuel P g = some r →
        ShrinkSt mo len newSize f0 r.1 r.2 ∧ AlignedBelow len (k + 1) r.1 ∧ len < r.1 + 2 ^ k) ∧
      ((∀ q, newSize ≤ q → q < len → PageFree mo f0 q) →
        (shrinkFill mo len k fuel P g).isSome) := by
  induction fuel with
  | zero => intro P g _ _ h; omega
  | succ fuel ih =>
    intro P g h hal hfuel
    have hp := Nat.two_pow_pos k
    unfold shrinkFill
    split
    · rename_i hc
      have hd : 2 ^ k ∣ P := (hal k (by omega)).resolve_right (by omega)
      obtain ⟨hstep, hsome⟩ := shrinkSt_step h hk hd hc
      split
      · rename_i hnone
        refine ⟨fun r hr => by simp at hr, fun hT => ?_⟩
        have := hsome hT
        rw [hnone] at this
        exact this
      · rename_i g' hg'
        refine ih _ _ (hstep g' hg') ?_ (by omega)
        intro j hj
        exact Or.inl ((Nat.dvd_add_right (dvd_of_pow_le (by omega) hd)).2
          (Nat.pow_dvd_pow 2 (by omega)))
    · refine ⟨?_, fun _ => rfl⟩
      intro r hr
      simp only [Option.some.injEq] at hr
      subst hr
      exact ⟨h, hal, by omega⟩

/-- the step function of the fill fold in the shrink path -/
abbrev shrinkFoldFn (mo len : Nat) : Option (Nat × List Bits) → Nat → Option (Nat × List Bits) :=
  fun s o =>
    match s with
    | none => none
    | some (p, f) => shrinkFill mo len o (len + 1) p f

theorem shrinkFold_none (mo len : Nat) (l : List Nat) :
    l.foldl (shrinkFoldFn mo len) none = none := by
  induction l with
  | nil => rfl
  | cons a l ih => exact ih

theorem shrinkFold_spec {mo len newSize : Nat} {f0 : List Bits} (k : Nat) :
    ∀ (P : Nat) (g : List Bits), k ≤ mo + 1 → ShrinkSt mo len newSize f0 P g →
      AlignedBelow len k P → (k ≤ mo → len < P + 2 ^ k) →
      (∀ r, (List.range k).reverse.foldl (shrinkFoldFn mo len) (some (P, g)) = some r →
        ShrinkSt mo len newSize f0 r.1 r.2 ∧ r.1 = len) ∧
      ((∀ q, newSize ≤ q → q < len → PageFree mo f0 q) →
        ((List.range k).reverse.foldl (shrinkFoldFn mo len) (some (P, g))).isSome) := by
  induction k with
  | zero =>
    intro P g _ h _ hlt
    have := h.hi
    have e : P = len := by have := hlt (by omega); omega
    simp only [List.range_zero, List.reverse_nil, List.foldl_nil]
    refine ⟨?_, fun _ => rfl⟩
    intro r hr
    simp only [Option.some.injEq] at hr
    subst hr
    exact ⟨h, e⟩
  | succ k ih =>
    intro P g hk h hal _
    rw [List.range_succ, List.reverse_append, List.reverse_singleton, List.singleton_append,
      List.foldl_cons]
    have := h.hi
    obtain ⟨h1, h2⟩ := shrinkFill_spec k (by omega) (len + 1) P g h hal (by omega)
    show (∀ r, (List.range k).reverse.foldl (shrinkFoldFn mo len)
        (shrinkFill mo len k (len + 1) P g) = some r → _) ∧
      (_ → ((List.range k).reverse.foldl (shrinkFoldFn mo len)
        (shrinkFill mo len k (len + 1) P g)).isSome)
    cases hres : shrinkFill mo len k (len + 1) P g with
    | none =>
      rw [shrinkFold_none]
      refine ⟨fun r hr => by simp at hr, fun hT => ?_⟩
      have := h2 hT
      rw [hres] at this
      exact this
    | some r' =>
      obtain ⟨P', g'⟩ := r'
      obtain ⟨a1, a2, a3⟩ := h1 _ hres
      exact ih P' g' (by omega) a1 (fun j hj => a2 j (by omega)) (fun _ => a3)

theorem resize_shrink_eq (b : Buddy) (newSize : Nat) (hs : newSize ≤ b.len) :
    b.resize newSize =
      match shrinkAlign b.maxOrder b.len (b.len + 1) newSize b.free with
      | none => none
      | some (p1, f1) =>
        match (List.range (b.maxOrder + 1)).reverse.foldl (shrinkFoldFn b.maxOrder b.len)
          (some (p1, f1)) with
        | none => none
        | some (p, f) =>
          if p = b.len then some { b with free := resizeAll f newSize, len := newSize } else none := by
  unfold Buddy.resize
  simp only [gt_iff_lt]
  rw [if_neg (by omega)]
  rfl

/-- shrink (no bound on `maxOrder` is needed) -/
theorem resize_shrink' (b : Buddy) (newSize : Nat)
    (h : Inv b.maxOrder b.len b.free) (hs : newSize ≤ b.len) :
    ((b.resize newSize).isSome ↔ ∀ q, newSize ≤ q → q < b.len → PageFree b.maxOrder b.free q) ∧
    ∀ b', b.resize newSize = some b' → b'.len = newSize ∧ b'.maxOrder = b.maxOrder ∧ b'.cap = b.cap ∧
      Inv b.maxOrder newSize b'.free ∧
      ∀ q, PageFree b.maxOrder b'.free q ↔ (PageFree b.maxOrder b.free q ∧ q < newSize) := by
  have st0 : ShrinkSt b.maxOrder b.len newSize b.free newSize b.free :=
    ⟨h, Nat.le_refl _, hs, fun q => ⟨fun a => ⟨a, by omega⟩, fun a => a.1⟩,
      fun q h1 h2 => by omega⟩
  obtain ⟨hA1, hA2⟩ := shrinkAlign_spec (b.len + 1) newSize b.free st0 (by omega)
  rw [resize_shrink_eq b newSize hs]
  cases hres1 : shrinkAlign b.maxOrder b.len (b.len + 1) newSize b.free with
  | none =>
    refine ⟨⟨fun a => by simp at a, fun hT => ?_⟩, fun b' hb' => by simp at hb'⟩
    have := hA2 hT
    rw [hres1] at this
    exact this
  | some r1 =>
    obtain ⟨p1, f1⟩ := r1
    obtain ⟨st1, al1⟩ := hA1 _ hres1
    obtain ⟨hB1, hB2⟩ := shrinkFold_spec (b.maxOrder + 1) p1 f1 (Nat.le_refl _) st1 al1 (by omega)
    simp only []
    cases hres2 : (List.range (b.maxOrder + 1)).reverse.foldl (shrinkFoldFn b.maxOrder b.len)
        (some (p1, f1)) with
    | none =>
      refine ⟨⟨fun a => by simp at a, fun hT => ?_⟩, fun b' hb' => by simp at hb'⟩
      have := hB2 hT
      rw [hres2] at this
      exact this
    | some r2 =>
      obtain ⟨p, f⟩ := r2
      obtain ⟨st2, e2⟩ := hB1 _ hres2
      simp only at e2 st2
      subst e2
      simp only [if_true]
      have hlt : ∀ q, PageFree b.maxOrder f q → q < newSize := by
        intro q hq
        obtain ⟨a1, a2⟩ := (st2.pf q).1 hq
        have := pageFree_lt h a1
        omega
      obtain ⟨hinv, _, hpf⟩ := resizeAll_spec st2.inv newSize hlt
      refine ⟨⟨fun _ => st2.was, fun _ => rfl⟩, ?_⟩
      intro b' hb'
      simp only [Option.some.injEq] at hb'
      subst hb'
      refine ⟨rfl, rfl, rfl, hinv, ?_⟩
      intro q
      show PageFree b.maxOrder (resizeAll f newSize) q ↔ _
      rw [hpf q, st2.pf q]
      constructor
      · rintro ⟨a1, a2⟩
        have := pageFree_lt h a1
        exact ⟨a1, by omega⟩
      · rintro ⟨a1, a2⟩
        exact ⟨a1, by omega⟩

/-! ### the contract statements -/

-- `hmo` is part of the contract statement (the model uses 32 for `trailing_zeros(0)`); the
-- proof does not need it because `2 ^ 32` divides `0`.
set_option linter.unusedVariables false in
/-- grow -/
theorem resize_grow (b : Buddy) (newSize : Nat) (hmo : b.maxOrder ≤ 32)
    (h : Inv b.maxOrder b.len b.free) (hg : b.len < newSize) :
    ∃ b', b.resize newSize = some b' ∧ b'.len = newSize ∧ b'.maxOrder = b.maxOrder ∧ b'.cap = b.cap ∧
      Inv b.maxOrder newSize b'.free ∧
      ∀ q, PageFree b.maxOrder b'.free q ↔ (PageFree b.maxOrder b.free q ∨ (b.len ≤ q ∧ q < newSize)) :=
  resize_grow' b newSize h hg

set_option linter.unusedVariables false in
/-- shrink -/
theorem resize_shrink (b : Buddy) (newSize : Nat) (hmo : b.maxOrder ≤ 32)
    (h : Inv b.maxOrder b.len b.free) (hs : newSize ≤ b.len) :
    ((b.resize newSize).isSome ↔ ∀ q, newSize ≤ q → q < b.len → PageFree b.maxOrder b.free q) ∧
    ∀ b', b.resize newSize = some b' → b'.len = newSize ∧ b'.maxOrder = b.maxOrder ∧ b'.cap = b.cap ∧
      Inv b.maxOrder newSize b'.free ∧
      ∀ q, PageFree b.maxOrder b'.free q ↔ (PageFree b.maxOrder b.free q ∧ q < newSize) :=
  resize_shrink' b newSize h hs

end Redb.Buddy
