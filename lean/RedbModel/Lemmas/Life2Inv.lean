import RedbModel.Model.Life2
/-!
The invariant of the algorithmic page-bookkeeping model `Redb.Life2` (properties C06, C02, C05,
C07, C11, C13). Every clause is written with bounded quantifiers, so that `Core cur s` is decidable
and can be evaluated on concrete states (by `decide` in examples, and by the driver on the states
the real code goes through).

`cur` is the id up to which records may exist: the id of the latest commit at a transaction
boundary, the id of the committing transaction inside `commit`.
-/
namespace Redb.Life2

/-- page `p` of a snapshot taken at transaction `i` is still where a snapshot of that age finds
it: in the latest data tree, or in the data-freed record (persisted or in memory) of a later
transaction -/
def held (s : St) (i p : Nat) : Prop :=
  p ∈ s.data ∨ (∃ e ∈ s.dfreed, i < e.1 ∧ e.2 = p) ∨ (∃ e ∈ s.udfreed, i < e.1 ∧ e.2 = p)

def sysHeld (s : St) (i p : Nat) : Prop :=
  p ∈ s.sys ∨ ∃ e ∈ s.sfreed, i < e.1 ∧ e.2 = p

instance (s : St) (i p : Nat) : Decidable (held s i p) := by unfold held; infer_instance
instance (s : St) (i p : Nat) : Decidable (sysHeld s i p) := by unfold sysHeld; infer_instance

/-- the snapshots that must stay readable: (transaction id, pages of its data tree) of every read
transaction and of every savepoint that still holds its reference -/
def pins (s : St) : List (Nat × List Nat) :=
  s.readers.map (fun r => (r.id, r.pages)) ++ s.sps.map (fun sp => (sp.id, sp.pages))

/-- page `p` has an allocation record of a transaction after `i` -/
def allocatedAfter (s : St) (i p : Nat) : Prop :=
  (∃ e ∈ s.dalloc, i < e.1 ∧ e.2 = p) ∨ (∃ e ∈ s.ualloc, i < e.1 ∧ e.2 = p)

instance (s : St) (i p : Nat) : Decidable (allocatedAfter s i p) := by unfold allocatedAfter; infer_instance

/-- `cur`: the id up to which records may exist (the id of the latest commit at a transaction
boundary, the id of the committing transaction inside `commit`). `dead`: ids of the savepoints
whose deletion or invalidation is staged in the committing transaction (none at a boundary). -/
structure Core (cur : Nat) (dead : List Nat) (s : St) : Prop where
  /-- (1) no page has two owners ... -/
  own_nodup : (owned s).Nodup
  /-- ... every allocated page has an owner and every owned page is allocated -/
  alloc_owned : ∀ p ∈ s.alloc, p ∈ owned s
  owned_alloc : ∀ p ∈ owned s, p ∈ s.alloc
  ids : s.durId ≤ s.lastId ∧ s.lastId ≤ cur
  /-- records belong to committed transactions, or to the one that is committing -/
  rec_le : ∀ e ∈ s.dfreed ++ s.sfreed ++ s.udfreed ++ s.dalloc ++ s.ualloc, e.1 ≤ s.lastId ∨ e.1 = cur
  /-- (2) every page of a pinned snapshot is held -/
  pin_held : ∀ π ∈ pins s, π.1 ≤ s.lastId ∧ ∀ p ∈ π.2, held s π.1 p
  /-- (3) the trees of the durable image are held -/
  img_id : s.img.id = s.durId
  img_data : ∀ p ∈ s.img.data, held s s.durId p
  img_sys : ∀ p ∈ s.img.sys, sysHeld s s.durId p
  /-- pending non-durable commits pin the last durable commit, and exist whenever the latest
  commit is not the durable one (then it is itself pending) -/
  pend_anc : ∀ e ∈ s.pend, e.2 = s.durId
  last_pend : s.durId < s.lastId → s.lastId ∈ idsOf s.pend
  /-- a pinned snapshot is durable or one of the pending non-durable commits -/
  pin_pend : ∀ π ∈ pins s, π.1 ≤ s.durId ∨ π.1 ∈ idsOf s.pend
  /-- allocation records name each page once, and only pages that are still held -/
  al_nodup : (pagesOf s.dalloc ++ pagesOf s.ualloc).Nodup
  al_held : ∀ e ∈ s.dalloc ++ s.ualloc, held s e.1 e.2
  /-- for a valid savepoint (that stays valid) the allocation records are complete: a held page is
  part of the savepoint's tree or was allocated after it -/
  sp_complete : ∀ sp ∈ s.sps, sp.valid = true → sp.sid ∉ dead →
    (∀ p ∈ s.data, p ∈ sp.pages ∨ allocatedAfter s sp.id p) ∧
    (∀ e ∈ s.dfreed ++ s.udfreed, sp.id < e.1 → e.2 ∈ sp.pages ∨ allocatedAfter s sp.id e.2)
  /-- a page allocated after a savepoint is not part of its tree -/
  sp_after : ∀ sp ∈ s.sps, ∀ e ∈ s.dalloc ++ s.ualloc, sp.id < e.1 → e.2 ∉ sp.pages
  sp_nodup : ∀ sp ∈ s.sps, sp.pages.Nodup
  /-- savepoints are listed in the order of their ids, which is also the order of their
  transaction ids -/
  sp_sorted : s.sps.Pairwise (fun a b => a.sid < b.sid ∧ a.id ≤ b.id)
  sp_sid : ∀ sp ∈ s.sps, sp.sid ≤ s.nextSp
  psp_ctr : ∀ sp ∈ s.sps, sp.persistent = true → sp.sid < s.pspCounter

/-- unpersisted pages (allocated by non-durable commits since the last durable one): none when
nothing is pending; never part of a durable snapshot or of a persisted allocation record -/
structure Unp (s : St) : Prop where
  up_empty : s.lastId = s.durId → s.upages = []
  up_pins : ∀ π ∈ pins s, π.1 ≤ s.durId → ∀ p ∈ π.2, p ∉ s.upages
  up_img : (∀ p ∈ s.img.data, p ∉ s.upages) ∧ (∀ p ∈ s.img.sys, p ∉ s.upages)
  up_dalloc : ∀ e ∈ s.dalloc, e.2 ∉ s.upages

set_option synthInstance.maxSize 4096 in
set_option synthInstance.maxHeartbeats 400000 in
instance (cur : Nat) (dead : List Nat) (s : St) : Decidable (Core cur dead s) :=
  decidable_of_iff
    ((owned s).Nodup ∧ (∀ p ∈ s.alloc, p ∈ owned s) ∧ (∀ p ∈ owned s, p ∈ s.alloc) ∧
     (s.durId ≤ s.lastId ∧ s.lastId ≤ cur) ∧
     (∀ e ∈ s.dfreed ++ s.sfreed ++ s.udfreed ++ s.dalloc ++ s.ualloc, e.1 ≤ s.lastId ∨ e.1 = cur) ∧
     (∀ π ∈ pins s, π.1 ≤ s.lastId ∧ ∀ p ∈ π.2, held s π.1 p) ∧
     s.img.id = s.durId ∧ (∀ p ∈ s.img.data, held s s.durId p) ∧ (∀ p ∈ s.img.sys, sysHeld s s.durId p) ∧
     (∀ e ∈ s.pend, e.2 = s.durId) ∧ (s.durId < s.lastId → s.lastId ∈ idsOf s.pend) ∧
     (∀ π ∈ pins s, π.1 ≤ s.durId ∨ π.1 ∈ idsOf s.pend) ∧
     (pagesOf s.dalloc ++ pagesOf s.ualloc).Nodup ∧
     (∀ e ∈ s.dalloc ++ s.ualloc, held s e.1 e.2) ∧
     (∀ sp ∈ s.sps, sp.valid = true → sp.sid ∉ dead →
       (∀ p ∈ s.data, p ∈ sp.pages ∨ allocatedAfter s sp.id p) ∧
       (∀ e ∈ s.dfreed ++ s.udfreed, sp.id < e.1 → e.2 ∈ sp.pages ∨ allocatedAfter s sp.id e.2)) ∧
     (∀ sp ∈ s.sps, ∀ e ∈ s.dalloc ++ s.ualloc, sp.id < e.1 → e.2 ∉ sp.pages) ∧
     (∀ sp ∈ s.sps, sp.pages.Nodup) ∧
     s.sps.Pairwise (fun a b => a.sid < b.sid ∧ a.id ≤ b.id) ∧
     (∀ sp ∈ s.sps, sp.sid ≤ s.nextSp) ∧
     (∀ sp ∈ s.sps, sp.persistent = true → sp.sid < s.pspCounter))
    ⟨fun ⟨a1, a2, a3, a4, a5, a6, a7, a8, a9, a10, a11, a12, a13, a14, a15, a16, a17, a18, a19, a20⟩ =>
      ⟨a1, a2, a3, a4, a5, a6, a7, a8, a9, a10, a11, a12, a13, a14, a15, a16, a17, a18, a19, a20⟩,
     fun ⟨a1, a2, a3, a4, a5, a6, a7, a8, a9, a10, a11, a12, a13, a14, a15, a16, a17, a18, a19, a20⟩ =>
      ⟨a1, a2, a3, a4, a5, a6, a7, a8, a9, a10, a11, a12, a13, a14, a15, a16, a17, a18, a19, a20⟩⟩

instance (s : St) : Decidable (Unp s) :=
  decidable_of_iff
    ((s.lastId = s.durId → s.upages = []) ∧ (∀ π ∈ pins s, π.1 ≤ s.durId → ∀ p ∈ π.2, p ∉ s.upages) ∧
     ((∀ p ∈ s.img.data, p ∉ s.upages) ∧ (∀ p ∈ s.img.sys, p ∉ s.upages)) ∧ (∀ e ∈ s.dalloc, e.2 ∉ s.upages))
    ⟨fun ⟨a, b, c, d⟩ => ⟨a, b, c, d⟩, fun ⟨a, b, c, d⟩ => ⟨a, b, c, d⟩⟩

/-- The invariant at a transaction boundary: the bookkeeping is sound (`Core`, `Unp`), the state a
crash would recover to is sound as well, and every persistent savepoint of the durable image is
still registered (so its pages are pinned in the running state, too). -/
structure Inv (s : St) : Prop where
  core : Core s.lastId [] s
  unp : Unp s
  crash : Core s.img.id [] (recover s.img false)
  psps : ∀ sp ∈ s.img.psps, sp ∈ s.sps ∧ sp.persistent = true
  /-- the next write transaction gets an id above every commit -/
  next : s.lastId ≤ s.nextId

instance (s : St) : Decidable (Inv s) :=
  decidable_of_iff (Core s.lastId [] s ∧ Unp s ∧ Core s.img.id [] (recover s.img false) ∧
      (∀ sp ∈ s.img.psps, sp ∈ s.sps ∧ sp.persistent = true) ∧ s.lastId ≤ s.nextId)
    ⟨fun ⟨a, b, c, d, e⟩ => ⟨a, b, c, d, e⟩, fun ⟨a, b, c, d, e⟩ => ⟨a, b, c, d, e⟩⟩

end Redb.Life2
