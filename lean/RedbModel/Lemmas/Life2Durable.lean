import RedbModel.Lemmas.Life2Set
/-! The steps of a durable commit after the data tree: merge of the in-memory records, release of
the records below the free horizon, DATA_ALLOCATED_TABLE, system tree and publication, savepoint
state; and the state a crash right after the commit recovers to. -/
namespace Redb.Life2

theorem held_mergeStep {s : St} {i p : Nat} : held (mergeStep s) i p ↔ held s i p := by
  simp only [held, mergeStep, List.mem_append, List.not_mem_nil]
  grind

theorem core_mergeStep {cur : Nat} {dead : List Nat} {s : St} (h : Core cur dead s) :
    Core cur dead (mergeStep s) := by
  obtain ⟨nd1, nd2, nd3, nd4, nd5, x1, x2, x3, x4⟩ := owned_nodup_iff.mp h.own_nodup
  refine
    { own_nodup := ?_, alloc_owned := ?_, owned_alloc := ?_, ids := h.ids, rec_le := ?_,
      pin_held := ?_, img_id := h.img_id, img_data := ?_, img_sys := h.img_sys,
      pend_anc := h.pend_anc, last_pend := h.last_pend, pin_pend := h.pin_pend,
      al_nodup := h.al_nodup, al_held := ?_, sp_complete := ?_, sp_after := h.sp_after,
      sp_nodup := h.sp_nodup, sp_sorted := h.sp_sorted, sp_sid := h.sp_sid, psp_ctr := h.psp_ctr }
  · rw [owned_nodup_iff]
    simp only [mergeStep, pagesOf_append, pagesOf_nil, nodup_append_iff, List.mem_append]
    grind
  · intro p hp
    have := h.alloc_owned p hp
    simp only [mem_owned, mergeStep, pagesOf_append, pagesOf_nil, List.mem_append] at *
    grind
  · intro p hp
    apply h.owned_alloc
    simp only [mem_owned, mergeStep, pagesOf_append, pagesOf_nil, List.mem_append] at *
    grind
  · intro e he
    apply h.rec_le
    simp only [mergeStep, List.mem_append, List.append_nil] at *
    grind
  · intro π hπ
    have := h.pin_held π hπ
    exact ⟨this.1, fun p hp => held_mergeStep.mpr (this.2 p hp)⟩
  · intro p hp
    exact held_mergeStep.mpr (h.img_data p hp)
  · intro e he
    exact held_mergeStep.mpr (h.al_held e he)
  · intro sp hsp hv hd
    have := h.sp_complete sp hsp hv hd
    simp only [mergeStep, allocatedAfter, List.mem_append, List.append_nil] at *
    grind

theorem held_release_dalloc {s : St} {w : W} {fu i p : Nat} (hi : fu ≤ i + 1) (h : held s i p) :
    held (dallocStep (releaseStep s fu) w) i p := by
  simp only [held, dallocStep, releaseStep, mem_notBelow] at *
  grind

theorem sp_mem_liveIds {s : St} {sp : Sp} (h : sp ∈ s.sps) : sp.id ∈ liveIds s :=
  pin_live (π := (sp.id, sp.pages)) (mem_pins.mpr (Or.inr ⟨sp, h, rfl⟩))

/-- `process_freed_pages` followed by `flush_data_allocated_pages`: `fu` does not pass a live read
reference nor the committing transaction -/
theorem core_release_dalloc {n : Nat} {dead : List Nat} {s : St} {w : W} {fu : Nat}
    (h : Core n dead s) (hud : s.udfreed = [])
    (hfu1 : ∀ i ∈ liveIds s, fu ≤ i + 1) (hfu2 : fu ≤ n) (hlast : s.lastId < n)
    (hdel : ∀ x ∈ w.deleted, x ∈ dead) :
    Core n dead (dallocStep (releaseStep s fu) w) := by
  obtain ⟨nd1, nd2, nd3, nd4, nd5, x1, x2, x3, x4⟩ := owned_nodup_iff.mp h.own_nodup
  have hlast' : s.lastId < n := hlast
  have inj3 := @pagesOf_nodup_inj _ nd3
  have inj4 := @pagesOf_nodup_inj _ nd4
  have key : ∀ e ∈ s.dfreed ++ s.sfreed, s.durId < e.1 → ¬ e.1 < fu := by
    intro e he hlt
    have hr := h.rec_le e (by simp only [List.mem_append] at *; grind)
    by_cases hp : s.pend = []
    · have h1 : ¬ s.durId < s.lastId := by
        intro hc
        have := h.last_pend hc
        rw [hp] at this
        cases this
      have := h.ids
      omega
    · obtain ⟨a, ha⟩ := List.exists_mem_of_ne_nil _ hp
      have := hfu1 s.durId (mem_liveIds.mpr (Or.inr ⟨a, ha, h.pend_anc a ha⟩))
      omega
  refine
    { own_nodup := ?_, alloc_owned := ?_, owned_alloc := ?_, ids := h.ids, rec_le := ?_,
      pin_held := ?_, img_id := h.img_id, img_data := ?_, img_sys := ?_,
      pend_anc := h.pend_anc, last_pend := h.last_pend, pin_pend := h.pin_pend,
      al_nodup := ?_, al_held := ?_, sp_complete := ?_, sp_after := ?_,
      sp_nodup := h.sp_nodup, sp_sorted := h.sp_sorted, sp_sid := h.sp_sid, psp_ctr := h.psp_ctr }
  · rw [owned_nodup_iff]
    refine ⟨nd1, nd2, pagesOf_notBelow_nodup nd3, pagesOf_notBelow_nodup nd4, nd5, ?_, ?_, ?_, ?_⟩ <;>
    · simp only [dallocStep, releaseStep, mem_pagesOf', mem_notBelow] at *
      grind
  · intro p hp
    simp only [dallocStep, releaseStep, mem_diff] at hp
    have := h.alloc_owned p hp.1
    simp only [mem_owned, dallocStep, releaseStep, List.mem_append, mem_pagesOf', mem_notBelow, mem_below] at *
    grind
  · intro p hp
    have hp' : p ∈ owned s := by
      simp only [mem_owned, dallocStep, releaseStep, mem_pagesOf', mem_notBelow] at *
      grind
    have := h.owned_alloc p hp'
    simp only [mem_owned, dallocStep, releaseStep, List.mem_append, mem_pagesOf', mem_notBelow, mem_below, mem_diff] at *
    grind
  · intro e he
    have := h.rec_le e
    simp only [dallocStep, releaseStep, List.mem_append, mem_notBelow, mem_purge, List.not_mem_nil] at *
    grind
  · intro π hπ
    have := h.pin_held π hπ
    exact ⟨this.1, fun p hp => held_release_dalloc (hfu1 _ (pin_live hπ)) (this.2 p hp)⟩
  · intro p hp
    have := h.img_data p hp
    simp only [held, dallocStep, releaseStep, mem_notBelow, List.mem_append, hud, List.not_mem_nil] at *
    grind
  · intro p hp
    have := h.img_sys p hp
    simp only [sysHeld, dallocStep, releaseStep, mem_notBelow, List.mem_append] at *
    grind
  · have := h.al_nodup
    rw [← pagesOf_append] at this
    simpa [dallocStep, releaseStep] using pagesOf_purge_nodup this
  · intro e he
    simp only [dallocStep, releaseStep, List.append_nil, mem_purge] at he
    obtain ⟨he, x, hx, hxe⟩ := he
    obtain ⟨sp, hsp, rfl⟩ := spHorizon_mem hx
    have := hfu1 _ (sp_mem_liveIds hsp)
    exact held_release_dalloc (by omega) (h.al_held e he)
  · intro sp hsp hv hd
    obtain ⟨hz, hhz, hle⟩ := spHorizon_le (w := w) h.sp_sorted hsp hv (fun hc => hd (hdel _ hc))
    have := h.sp_complete sp hsp hv hd
    simp only [dallocStep, releaseStep, allocatedAfter, List.mem_append, mem_purge,
      mem_notBelow, hhz, List.not_mem_nil] at *
    grind
  · intro sp hsp e he
    have := h.sp_after sp hsp e
    simp only [dallocStep, releaseStep, List.mem_append, List.append_nil, mem_purge] at *
    grind

/-- pinned pages survive `process_freed_pages` (so the system tree written after it cannot be
handed one of them) -/
theorem pins_release_alloc {n : Nat} {dead : List Nat} {s : St} {fu : Nat}
    (h : Core n dead s) (hfu1 : ∀ i ∈ liveIds s, fu ≤ i + 1) :
    ∀ π ∈ pins s, ∀ p ∈ π.2, p ∈ (releaseStep s fu).alloc := by
  obtain ⟨nd1, nd2, nd3, nd4, nd5, x1, x2, x3, x4⟩ := owned_nodup_iff.mp h.own_nodup
  intro π hπ p hp
  have hh := (h.pin_held π hπ).2 p hp
  have hal := h.owned_alloc p (held_owned hh)
  have hf := hfu1 π.1 (pin_live hπ)
  have inj := @pagesOf_nodup_inj _ nd3
  simp only [releaseStep, mem_diff, List.mem_append, mem_pagesOf', mem_below, held] at *
  grind

theorem held_publishDurable {s : St} {w : W} {t : Txn} {n i p : Nat} :
    held (publishDurable s w t n) i p ↔ held s i p := Iff.rfl

theorem core_publishDurable {n : Nat} {dead : List Nat} {s : St} {w : W} {t : Txn}
    (h : Core n dead s) (hud : s.udfreed = []) (hua : s.ualloc = []) (hlast : s.lastId < n)
    (hnd : t.sys.Nodup) (hfresh : ∀ p ∈ diff t.sys s.sys, p ∉ s.alloc)
    (hrec : ∀ p ∈ t.sysRec, p ∈ diff s.sys t.sys) (hrnd : t.sysRec.Nodup) :
    Core n dead (publishDurable s w t n) ∧ Unp (publishDurable s w t n) := by
  obtain ⟨nd1, nd2, nd3, nd4, nd5, x1, x2, x3, x4⟩ := owned_nodup_iff.mp h.own_nodup
  have _ := hud
  have _ := hua
  have hoa := h.owned_alloc
  have hao := h.alloc_owned
  have hids := h.ids
  constructor
  · refine
      { own_nodup := ?_, alloc_owned := ?_, owned_alloc := ?_, ids := ⟨Nat.le_refl _, Nat.le_refl _⟩,
        rec_le := ?_, pin_held := ?_, img_id := rfl, img_data := fun p hp => Or.inl hp,
        img_sys := fun p hp => Or.inl hp,
        pend_anc := fun e he => (by cases he), last_pend := fun hc => absurd hc (Nat.lt_irrefl _),
        pin_pend := ?_,
        al_nodup := h.al_nodup, al_held := h.al_held, sp_complete := h.sp_complete,
        sp_after := h.sp_after,
        sp_nodup := h.sp_nodup, sp_sorted := h.sp_sorted, sp_sid := h.sp_sid, psp_ctr := h.psp_ctr }
    · rw [owned_nodup_iff]
      simp only [publishDurable, pagesOf_append, pagesOf_tag, nodup_append_iff]
      refine ⟨nd1, hnd, nd3, ⟨nd4, hrnd, ?_⟩, nd5, ?_, ?_, ?_, ?_⟩ <;>
      · simp only [mem_owned, mem_diff, List.mem_append] at *
        grind
    · intro p hp
      simp only [mem_owned, publishDurable, pagesOf_append, pagesOf_tag, mem_diff, List.mem_append] at *
      grind
    · intro p hp
      simp only [mem_owned, publishDurable, pagesOf_append, pagesOf_tag, mem_diff, List.mem_append] at *
      grind
    · intro e he
      have := h.rec_le e
      simp only [publishDurable, List.mem_append, mem_tag] at *
      grind
    · intro π hπ
      have := h.pin_held π hπ
      exact ⟨by simp only [publishDurable]; omega, this.2⟩
    · intro π hπ
      have := h.pin_held π hπ
      exact Or.inl (by simp only [publishDurable]; omega)
  · exact
      { up_empty := fun _ => rfl
        up_pins := fun _ _ _ _ _ hc => by cases hc
        up_img := ⟨fun _ _ hc => (by cases hc), fun _ _ hc => (by cases hc)⟩
        up_dalloc := fun _ _ hc => by cases hc }

theorem mem_persistentTable {sps : List Sp} {w : W} {sp : Sp} :
    sp ∈ persistentTable sps w ↔ sp ∈ sps ∧ sp.persistent = true ∧ sp.sid ∉ w.deleted := by
  simp [persistentTable, List.mem_filter]

/-- the state a crash right after the commit recovers to is sound -/
theorem crash_publishDurable {n : Nat} {dead : List Nat} {s : St} {w : W} {t : Txn}
    (hc : Core n dead (publishDurable s w t n)) (hud : s.udfreed = []) (hua : s.ualloc = [])
    (hinv : ∀ x ∈ s.sps, x.persistent = true → x.sid ∈ dead → x.sid ∈ w.deleted) :
    Core n [] (recover (publishDurable s w t n).img false) := by
  have hnd := owned_nodup_iff.mp hc.own_nodup
  have hpin : ∀ sp ∈ persistentTable s.sps w, (sp.id, sp.pages) ∈ pins (publishDurable s w t n) :=
    fun sp hsp => mem_pins.mpr (Or.inr ⟨sp, (mem_persistentTable.mp hsp).1, rfl⟩)
  refine
    { own_nodup := ?_, alloc_owned := ?_, owned_alloc := ?_, ids := ⟨Nat.le_refl _, Nat.le_refl _⟩,
      rec_le := ?_, pin_held := ?_, img_id := rfl, img_data := fun p hp => Or.inl hp,
      img_sys := fun p hp => Or.inl hp,
      pend_anc := fun e he => (by cases he), last_pend := fun hc => absurd hc (Nat.lt_irrefl _),
      pin_pend := ?_,
      al_nodup := ?_, al_held := ?_, sp_complete := ?_, sp_after := ?_,
      sp_nodup := ?_, sp_sorted := ?_, sp_sid := ?_, psp_ctr := ?_ }
  · rw [owned_nodup_iff]
    simp only [recover, publishDurable, hud, pagesOf_nil, List.not_mem_nil] at *
    exact hnd
  · intro p hp
    simp only [recover, publishDurable, mem_owned, Image.owned, List.mem_append] at *
    grind
  · intro p hp
    simp only [recover, publishDurable, mem_owned, Image.owned, List.mem_append, pagesOf_nil,
      List.not_mem_nil] at *
    grind
  · intro e he
    have := hc.rec_le e
    simp only [recover, publishDurable, List.mem_append, List.not_mem_nil] at *
    grind
  · intro π hπ
    obtain ⟨r, hr, _⟩ | ⟨sp, hsp, rfl⟩ := mem_pins.mp hπ
    · cases hr
    · have := hc.pin_held _ (hpin sp hsp)
      refine ⟨this.1, fun p hp => ?_⟩
      have := this.2 p hp
      simp only [held, recover, publishDurable, hud, List.not_mem_nil] at *
      grind
  · intro π hπ
    obtain ⟨r, hr, _⟩ | ⟨sp, hsp, rfl⟩ := mem_pins.mp hπ
    · cases hr
    · exact Or.inl (hc.pin_held _ (hpin sp hsp)).1
  · have := hc.al_nodup
    simp only [recover, publishDurable, hua, pagesOf_nil] at *
    exact this
  · intro e he
    have := hc.al_held e
    simp only [held, recover, publishDurable, hud, hua, List.not_mem_nil, List.mem_append] at *
    grind
  · intro sp hsp hv _
    obtain ⟨h1, h2, h3⟩ := mem_persistentTable.mp hsp
    have := hc.sp_complete sp h1 hv (fun hd => h3 (hinv sp h1 h2 hd))
    simp only [allocatedAfter, recover, publishDurable, hud, hua, List.not_mem_nil, List.mem_append] at *
    grind
  · intro sp hsp e he
    have := hc.sp_after sp (mem_persistentTable.mp hsp).1 e
    simp only [recover, publishDurable, hua, List.not_mem_nil, List.mem_append] at *
    grind
  · intro sp hsp
    exact hc.sp_nodup sp (mem_persistentTable.mp hsp).1
  · exact hc.sp_sorted.filter _
  · intro sp hsp
    obtain ⟨h1, h2, h3⟩ := mem_persistentTable.mp hsp
    exact Nat.le_of_lt (hc.psp_ctr sp h1 h2)
  · intro sp hsp hp
    exact hc.psp_ctr sp (mem_persistentTable.mp hsp).1 hp

theorem applySps_src {sps : List Sp} {w : W} {sp' : Sp} (h : sp' ∈ applySps sps w) :
    ∃ sp ∈ sps, sp.sid = sp'.sid ∧ sp.id = sp'.id ∧ sp.pages = sp'.pages ∧
      sp.persistent = sp'.persistent ∧ sp.sid ∉ w.deleted ∧
      (sp'.valid = true → sp.valid = true ∧ sp.sid ∉ w.invalidated) := by
  unfold applySps at h
  obtain ⟨sp, hsp, rfl⟩ := List.mem_map.mp h
  have hf := List.mem_filter.mp hsp
  refine ⟨sp, hf.1, ?_⟩
  have hd : sp.sid ∉ w.deleted := by simpa using hf.2
  by_cases hi : sp.sid ∈ w.invalidated <;> simp [hi, hd]

theorem applySps_sorted {sps : List Sp} {w : W}
    (h : sps.Pairwise (fun a b => a.sid < b.sid ∧ a.id ≤ b.id)) :
    (applySps sps w).Pairwise (fun a b => a.sid < b.sid ∧ a.id ≤ b.id) := by
  unfold applySps
  rw [List.pairwise_map]
  refine (h.filter _).imp ?_
  intro a b hab
  by_cases ha : a.sid ∈ w.invalidated <;> by_cases hb : b.sid ∈ w.invalidated <;> simp [ha, hb, hab]

theorem pins_applyStep {s : St} {w : W} {π : Nat × List Nat} (h : π ∈ pins (applyStep s w)) :
    π ∈ pins s := by
  rw [mem_pins] at *
  rcases h with h | ⟨sp', hsp', rfl⟩
  · exact Or.inl h
  · obtain ⟨sp, hsp, _, h2, h3, _⟩ := applySps_src hsp'
    exact Or.inr ⟨sp, hsp, by rw [h2, h3]⟩

theorem held_applyStep {s : St} {w : W} {i p : Nat} : held (applyStep s w) i p ↔ held s i p := Iff.rfl

theorem unp_applyStep {s : St} {w : W} (hu : Unp s) : Unp (applyStep s w) :=
  { up_empty := hu.up_empty
    up_pins := fun π hπ => hu.up_pins π (pins_applyStep hπ)
    up_img := hu.up_img
    up_dalloc := hu.up_dalloc }

theorem core_applyStep {n : Nat} {s : St} {w : W} (h : Core n (w.deleted ++ w.invalidated) s) :
    Core n [] (applyStep s w) := by
  refine
    { own_nodup := h.own_nodup, alloc_owned := h.alloc_owned, owned_alloc := h.owned_alloc,
      ids := h.ids, rec_le := h.rec_le,
      pin_held := fun π hπ => h.pin_held π (pins_applyStep hπ),
      img_id := h.img_id, img_data := h.img_data, img_sys := h.img_sys,
      pend_anc := h.pend_anc, last_pend := h.last_pend,
      pin_pend := fun π hπ => h.pin_pend π (pins_applyStep hπ),
      al_nodup := h.al_nodup, al_held := h.al_held, sp_complete := ?_, sp_after := ?_,
      sp_nodup := ?_, sp_sorted := applySps_sorted h.sp_sorted, sp_sid := ?_, psp_ctr := ?_ }
  · intro sp' hsp' hv _
    obtain ⟨sp, hsp, h1, h2, h3, h4, h5, h6⟩ := applySps_src hsp'
    have := h.sp_complete sp hsp (h6 hv).1 (by simp [h5, (h6 hv).2])
    rw [h2, h3] at this
    exact this
  · intro sp' hsp'
    obtain ⟨sp, hsp, h1, h2, h3, h4, h5, h6⟩ := applySps_src hsp'
    have := h.sp_after sp hsp
    rw [h2, h3] at this
    exact this
  · intro sp' hsp'
    obtain ⟨sp, hsp, h1, h2, h3, h4, h5, h6⟩ := applySps_src hsp'
    have := h.sp_nodup sp hsp
    rw [h3] at this
    exact this
  · intro sp' hsp'
    obtain ⟨sp, hsp, h1, h2, h3, h4, h5, h6⟩ := applySps_src hsp'
    have := h.sp_sid sp hsp
    rw [h1] at this
    exact this
  · intro sp' hsp'
    obtain ⟨sp, hsp, h1, h2, h3, h4, h5, h6⟩ := applySps_src hsp'
    have := h.psp_ctr sp hsp
    rw [h1, h4] at this
    exact this

/-- persistent savepoints that are neither deleted nor invalidated stay registered as they are -/
theorem mem_applySps {sps : List Sp} {w : W} {sp : Sp} (h : sp ∈ sps) (hd : sp.sid ∉ w.deleted)
    (hi : sp.sid ∉ w.invalidated) : sp ∈ applySps sps w := by
  unfold applySps
  refine List.mem_map.mpr ⟨sp, ?_, ?_⟩
  · simp [List.mem_filter, h, hd]
  · simp [hi]

end Redb.Life2
