import RedbModel.Model.KeyVal
import RedbModel.Lemmas.KeyUtf8
import RedbModel.Lemmas.KeyOrd
/-!
UTF-8 lemmas for the value level of `str` keys: the encoding of a sequence of scalar values is
well formed, decodes to the same sequence, and orders (as bytes) exactly as the scalar values
order lexicographically.
-/
namespace Redb.Key

theorem toNat_ofNat_lt (x : Nat) (h : x < 256) : (UInt8.ofNat x).toNat = x := by
  simp; omega

theorem lexCmp_cons (a b : UInt8) (as bs : Bytes) :
    lexCmp (a :: as) (b :: bs) =
      if a.toNat < b.toNat then .lt else if b.toNat < a.toNat then .gt else lexCmp as bs := by
  simp [lexCmp, UInt8.lt_iff_toNat_lt]

theorem utf8Char_cases (c : Nat) (P : Bytes → Prop)
    (h1 : c < 0x80 → P [UInt8.ofNat c])
    (h2 : 0x80 ≤ c → c < 0x800 → P [UInt8.ofNat (0xC0 + c / 64), UInt8.ofNat (0x80 + c % 64)])
    (h3 : 0x800 ≤ c → c < 0x10000 → P [UInt8.ofNat (0xE0 + c / 4096), UInt8.ofNat (0x80 + c / 64 % 64), UInt8.ofNat (0x80 + c % 64)])
    (h4 : 0x10000 ≤ c → P [UInt8.ofNat (0xF0 + c / 262144), UInt8.ofNat (0x80 + c / 4096 % 64),
      UInt8.ofNat (0x80 + c / 64 % 64), UInt8.ofNat (0x80 + c % 64)]) : P (utf8Char c) := by
  unfold utf8Char
  split
  · exact h1 ‹_›
  · split
    · exact h2 (by omega) ‹_›
    · split
      · exact h3 (by omega) ‹_›
      · exact h4 (by omega)

theorem validUtf8_utf8Char_append (c : Nat) (h : isScalar c = true) (r : Bytes) :
    validUtf8 (utf8Char c ++ r) = validUtf8 r := by
  simp only [isScalar, Bool.or_eq_true, Bool.and_eq_true, decide_eq_true_eq] at h
  apply utf8Char_cases c (fun e => validUtf8 (e ++ r) = validUtf8 r)
  · intro h1
    exact validUtf8_1 _ _ (by rw [toNat_ofNat_lt _ (by omega)]; exact h1)
  · intro h1 h2
    simp only [List.cons_append, List.nil_append]
    rw [validUtf8_2 _ _ _ (by rw [toNat_ofNat_lt _ (by omega)]; omega) (by rw [toNat_ofNat_lt _ (by omega)]; omega)]
    simp [isCont]
    omega
  · intro h1 h2
    simp only [List.cons_append, List.nil_append]
    rw [validUtf8_3 _ _ _ _ (by rw [toNat_ofNat_lt _ (by omega)]; omega) (by rw [toNat_ofNat_lt _ (by omega)]; omega)]
    have e1 : (UInt8.ofNat (0xE0 + c / 4096)).toNat = 0xE0 + c / 4096 := toNat_ofNat_lt _ (by omega)
    have e2 : (UInt8.ofNat (0x80 + c / 64 % 64)).toNat = 0x80 + c / 64 % 64 := toNat_ofNat_lt _ (by omega)
    have e3 : (UInt8.ofNat (0x80 + c % 64)).toNat = 0x80 + c % 64 := toNat_ofNat_lt _ (by omega)
    simp only [isCont, utf8Sec3, e1, e2, e3]
    have : (0x80 + c % 64) / 64 = 2 := by omega
    simp only [this, decide_true, Bool.and_true]
    split
    · simp; omega
    · split
      · simp; omega
      · simp; omega
  · intro h1
    simp only [List.cons_append, List.nil_append]
    rw [validUtf8_4 _ _ _ _ _ (by rw [toNat_ofNat_lt _ (by omega)]; omega) (by rw [toNat_ofNat_lt _ (by omega)]; omega)]
    have e1 : (UInt8.ofNat (0xF0 + c / 262144)).toNat = 0xF0 + c / 262144 := toNat_ofNat_lt _ (by omega)
    have e2 : (UInt8.ofNat (0x80 + c / 4096 % 64)).toNat = 0x80 + c / 4096 % 64 := toNat_ofNat_lt _ (by omega)
    have e3 : (UInt8.ofNat (0x80 + c / 64 % 64)).toNat = 0x80 + c / 64 % 64 := toNat_ofNat_lt _ (by omega)
    have e4 : (UInt8.ofNat (0x80 + c % 64)).toNat = 0x80 + c % 64 := toNat_ofNat_lt _ (by omega)
    simp only [isCont, utf8Sec4, e1, e2, e3, e4]
    have : (0x80 + c % 64) / 64 = 2 := by omega
    have : (0x80 + c / 64 % 64) / 64 = 2 := by omega
    simp only [*, decide_true, Bool.and_true]
    split
    · simp; omega
    · split
      · simp; omega
      · simp; omega

theorem validUtf8_utf8Enc (cs : List Nat) (h : cs.all isScalar = true) :
    validUtf8 (utf8Enc cs) = true := by
  induction cs with
  | nil => simp [utf8Enc, validUtf8]
  | cons c cs ih =>
    simp only [List.all_cons, Bool.and_eq_true] at h
    rw [utf8Enc, validUtf8_utf8Char_append c h.1, ih h.2]

theorem utf8Dec_utf8Char_append (c : Nat) (h : c < 0x110000) (r : Bytes) :
    utf8Dec (utf8Char c ++ r) = c :: utf8Dec r := by
  apply utf8Char_cases c (fun e => utf8Dec (e ++ r) = c :: utf8Dec r)
  · intro h1
    have e1 := toNat_ofNat_lt c (by omega)
    simp only [List.cons_append, List.nil_append]
    rw [utf8Dec.eq_def]
    simp only [e1, h1, if_true]
  · intro h1 h2
    have e1 : (UInt8.ofNat (0xC0 + c / 64)).toNat = 0xC0 + c / 64 := toNat_ofNat_lt _ (by omega)
    have e2 : (UInt8.ofNat (0x80 + c % 64)).toNat = 0x80 + c % 64 := toNat_ofNat_lt _ (by omega)
    simp only [List.cons_append, List.nil_append, utf8Dec, e1, e2]
    rw [if_neg (by omega), if_pos (by omega)]
    congr 1; omega
  · intro h1 h2
    have e1 : (UInt8.ofNat (0xE0 + c / 4096)).toNat = 0xE0 + c / 4096 := toNat_ofNat_lt _ (by omega)
    have e2 : (UInt8.ofNat (0x80 + c / 64 % 64)).toNat = 0x80 + c / 64 % 64 := toNat_ofNat_lt _ (by omega)
    have e3 : (UInt8.ofNat (0x80 + c % 64)).toNat = 0x80 + c % 64 := toNat_ofNat_lt _ (by omega)
    simp only [List.cons_append, List.nil_append, utf8Dec, e1, e2, e3]
    rw [if_neg (by omega), if_neg (by omega), if_pos (by omega)]
    congr 1; omega
  · intro h1
    have e1 : (UInt8.ofNat (0xF0 + c / 262144)).toNat = 0xF0 + c / 262144 := toNat_ofNat_lt _ (by omega)
    have e2 : (UInt8.ofNat (0x80 + c / 4096 % 64)).toNat = 0x80 + c / 4096 % 64 := toNat_ofNat_lt _ (by omega)
    have e3 : (UInt8.ofNat (0x80 + c / 64 % 64)).toNat = 0x80 + c / 64 % 64 := toNat_ofNat_lt _ (by omega)
    have e4 : (UInt8.ofNat (0x80 + c % 64)).toNat = 0x80 + c % 64 := toNat_ofNat_lt _ (by omega)
    simp only [List.cons_append, List.nil_append, utf8Dec, e1, e2, e3, e4]
    rw [if_neg (by omega), if_neg (by omega), if_neg (by omega)]
    congr 1; omega

theorem isScalar_lt (c : Nat) (h : isScalar c = true) : c < 0x110000 := by
  simp only [isScalar, Bool.or_eq_true, Bool.and_eq_true, decide_eq_true_eq] at h; omega

theorem utf8Dec_utf8Enc (cs : List Nat) (h : cs.all isScalar = true) :
    utf8Dec (utf8Enc cs) = cs := by
  induction cs with
  | nil => simp [utf8Enc, utf8Dec]
  | cons c cs ih =>
    simp only [List.all_cons, Bool.and_eq_true] at h
    rw [utf8Enc, utf8Dec_utf8Char_append c (isScalar_lt c h.1), ih h.2]

theorem lexCmp_utf8Char_lt (c d : Nat) (hcd : c < d) (hd : d < 0x110000) (x y : Bytes) :
    lexCmp (utf8Char c ++ x) (utf8Char d ++ y) = .lt := by
  apply utf8Char_cases c (fun e => lexCmp (e ++ x) (utf8Char d ++ y) = .lt) <;> intros <;>
    apply utf8Char_cases d (fun e => lexCmp (_ ++ x) (e ++ y) = .lt) <;> intros <;>
    simp only [List.cons_append, List.nil_append, lexCmp_cons, UInt8.toNat_ofNat'] <;>
    repeat' split
  all_goals first | rfl | omega

theorem lexCmp_append_left (p x y : Bytes) : lexCmp (p ++ x) (p ++ y) = lexCmp x y := by
  induction p with
  | nil => rfl
  | cons a p ih => simp [lexCmp_cons, ih]

theorem utf8Char_eq_cons (c : Nat) : ∃ b bs, utf8Char c = b :: bs := by
  apply utf8Char_cases c (fun e => ∃ b bs, e = b :: bs) <;> intros <;> exact ⟨_, _, rfl⟩

/-- UTF-8 byte order is scalar value order (the `str` case of the order theorem) -/
theorem lexCmp_utf8Enc (a b : List Nat) (ha : a.all isScalar = true) (hb : b.all isScalar = true) :
    lexCmp (utf8Enc a) (utf8Enc b) = lexBy (fun (p q : Nat) => compare p q) a b := by
  induction a generalizing b with
  | nil =>
    cases b with
    | nil => rfl
    | cons d ds =>
      obtain ⟨x, xs, h⟩ := utf8Char_eq_cons d
      simp [utf8Enc, h, lexCmp, lexBy]
  | cons c cs ih =>
    cases b with
    | nil =>
      obtain ⟨x, xs, h⟩ := utf8Char_eq_cons c
      simp [utf8Enc, h, lexCmp, lexBy]
    | cons d ds =>
      simp only [List.all_cons, Bool.and_eq_true] at ha hb
      simp only [utf8Enc, lexBy]
      rcases Nat.lt_trichotomy c d with h | h | h
      · rw [lexCmp_utf8Char_lt c d h (isScalar_lt d hb.1), Nat.compare_eq_lt.2 h]
      · subst h
        rw [lexCmp_append_left, ih ds ha.2 hb.2]
        simp
      · rw [lexCmp_swap, lexCmp_utf8Char_lt d c h (isScalar_lt c ha.1), Nat.compare_eq_gt.2 h]
        rfl

end Redb.Key
