import RedbModel.Lemmas.Life2Set
/-! The savepoint operations of a write transaction (`runSpOps`): what they leave behind for the
commit, and that the state they produce (new savepoints registered) is still sound. -/
namespace Redb.Life2

/-- what the savepoint operations of a transaction leave behind for the commit -/
structure WSpec (s : St) (w : W) (durable : Bool) : Prop where
  /-- no restore: the transaction works on the latest tree -/
  plain : w.restored = none →
    w.base = s.data ∧ w.queued = [] ∧ w.dfreed = s.dfreed ∧ w.invalidated = []
  /-- a restore (the last operation): the working tree is the savepoint's, the records of later
  transactions are dropped, the pages allocated after the savepoint are queued, later savepoints
  are invalidated -/
  restored : ∀ r, w.restored = some r → ∃ sp ∈ s.sps,
    sp.valid = true ∧ sp.sid ∉ w.deleted ∧ sp.sid ∉ w.invalidated ∧ sp.id = r ∧
    w.base = sp.pages ∧
    w.queued = pagesOf (above r s.dalloc) ++ pagesOf (above r s.ualloc) ∧
    w.dfreed = upTo r s.dfreed ∧
    (∀ x ∈ s.sps, x.valid = true → sp.sid < x.sid → x.sid ∈ w.invalidated)
  /-- an invalidated persistent savepoint is deleted -/
  inv_del : ∀ x ∈ s.sps, x.persistent = true → x.sid ∈ w.invalidated → x.sid ∈ w.deleted
  /-- only a durable transaction deletes persistent savepoints -/
  nd_del : durable = false → w.deleted = []

/-- the savepoint operations change the savepoint list and counters only, and keep the
savepoints that were there -/
structure Frame (s s1 : St) : Prop where
  eq : s1 = { s with sps := s1.sps, nextSp := s1.nextSp, pspCounter := s1.pspCounter }
  keep : ∀ sp ∈ s.sps, sp ∈ s1.sps

theorem Frame.refl (s : St) : Frame s s := ⟨rfl, fun _ h => h⟩

theorem Frame.trans {a b c : St} (h1 : Frame a b) (h2 : Frame b c) : Frame a c := by
  refine ⟨?_, fun sp h => h2.keep sp (h1.keep sp h)⟩
  have e1 := h1.eq
  have e2 := h2.eq
  cases a; cases b; cases c
  simp only [St.mk.injEq] at *
  grind

theorem Frame.lastId {s s1 : St} (h : Frame s s1) : s1.lastId = s.lastId := by rw [h.eq]

/-- registration of a new savepoint on the latest commit -/
def addSp (s : St) (b : Bool) (c : Nat) : St :=
  { s with sps := s.sps ++ [newSp s b], nextSp := s.nextSp + 1, pspCounter := c }

theorem frame_addSp {s : St} {b : Bool} {c : Nat} : Frame s (addSp s b c) :=
  ⟨rfl, fun sp h => by simp only [addSp, List.mem_append]; exact Or.inl h⟩

theorem mem_pins_addSp {s : St} {b : Bool} {c : Nat} {π : Nat × List Nat} :
    π ∈ pins (addSp s b c) ↔ π ∈ pins s ∨ π = (s.lastId, s.data) := by
  simp only [mem_pins, addSp, newSp, List.mem_append, List.mem_singleton]
  grind

theorem core_addSp {s : St} {b : Bool} {c : Nat} (h : Core s.lastId [] s) (hu : Unp s)
    (hc1 : s.pspCounter ≤ c) (hc2 : b = true → s.nextSp + 1 < c) :
    Core s.lastId [] (addSp s b c) ∧ Unp (addSp s b c) := by
  obtain ⟨nd1, -⟩ := owned_nodup_iff.mp h.own_nodup
  have hrec : ∀ e ∈ s.dfreed ++ s.sfreed ++ s.udfreed ++ s.dalloc ++ s.ualloc, e.1 ≤ s.lastId := by
    intro e he
    have := h.rec_le e he
    omega
  have hspid : ∀ sp ∈ s.sps, sp.id ≤ s.lastId := by
    intro sp hsp
    exact (h.pin_held (sp.id, sp.pages) (mem_pins.mpr (Or.inr ⟨sp, hsp, rfl⟩))).1
  constructor
  · refine
      { own_nodup := h.own_nodup, alloc_owned := h.alloc_owned, owned_alloc := h.owned_alloc,
        ids := h.ids, rec_le := h.rec_le, pin_held := ?_, img_id := h.img_id,
        img_data := h.img_data, img_sys := h.img_sys, pend_anc := h.pend_anc,
        last_pend := h.last_pend, pin_pend := ?_, al_nodup := h.al_nodup, al_held := h.al_held,
        sp_complete := ?_, sp_after := ?_, sp_nodup := ?_, sp_sorted := ?_, sp_sid := ?_,
        psp_ctr := ?_ }
    · intro π hπ
      rcases mem_pins_addSp.mp hπ with hπ | rfl
      · exact h.pin_held π hπ
      · exact ⟨Nat.le_refl _, fun p hp => Or.inl hp⟩
    · intro π hπ
      rcases mem_pins_addSp.mp hπ with hπ | rfl
      · exact h.pin_pend π hπ
      · rcases Nat.lt_or_ge s.durId s.lastId with hlt | hge
        · exact Or.inr (h.last_pend hlt)
        · exact Or.inl hge
    · intro sp hsp hv hd
      simp only [addSp, List.mem_append, List.mem_singleton] at hsp
      rcases hsp with hsp | rfl
      · exact h.sp_complete sp hsp hv hd
      · refine ⟨fun p hp => Or.inl hp, ?_⟩
        intro e he hlt
        have := hrec e (by simp only [addSp, List.mem_append] at *; grind)
        simp only [newSp] at hlt
        omega
    · intro sp hsp e he hlt
      simp only [addSp, List.mem_append, List.mem_singleton] at hsp
      rcases hsp with hsp | rfl
      · exact h.sp_after sp hsp e he hlt
      · have := hrec e (by simp only [addSp, List.mem_append] at *; grind)
        simp only [newSp] at hlt
        omega
    · intro sp hsp
      simp only [addSp, List.mem_append, List.mem_singleton] at hsp
      rcases hsp with hsp | rfl
      · exact h.sp_nodup sp hsp
      · exact nd1
    · simp only [addSp]
      rw [List.pairwise_append]
      refine ⟨h.sp_sorted, List.pairwise_singleton _ _, ?_⟩
      intro a ha x hx
      rw [List.mem_singleton] at hx
      subst hx
      have := h.sp_sid a ha
      have := hspid a ha
      simp only [newSp]
      omega
    · intro sp hsp
      simp only [addSp, List.mem_append, List.mem_singleton] at hsp
      rcases hsp with hsp | rfl
      · have := h.sp_sid sp hsp
        simp only [addSp]
        omega
      · simp only [addSp, newSp]
        omega
    · intro sp hsp hp
      simp only [addSp, List.mem_append, List.mem_singleton] at hsp
      rcases hsp with hsp | rfl
      · have := h.psp_ctr sp hsp hp
        simp only [addSp]
        omega
      · simp only [newSp] at hp
        have := hc2 hp
        simp only [addSp, newSp]
        omega
  · refine { up_empty := hu.up_empty, up_pins := ?_, up_img := hu.up_img, up_dalloc := hu.up_dalloc }
    intro π hπ hle p hp
    rcases mem_pins_addSp.mp hπ with hπ | rfl
    · exact hu.up_pins π hπ hle p hp
    · have h1 := h.ids.1
      have : s.lastId = s.durId := by
        have : s.lastId ≤ s.durId := hle
        omega
      have := hu.up_empty this
      simp only [addSp, this]
      exact List.not_mem_nil

theorem wspec_addSp {s : St} {w : W} {d b o : Bool} {c : Nat} (hw : WSpec s w d)
    (hr : w.restored = none) : WSpec (addSp s b c) { w with ok := o } d := by
  obtain ⟨-, -, -, hi⟩ := hw.plain hr
  refine ⟨hw.plain, ?_, ?_, hw.nd_del⟩
  · intro r h
    change w.restored = some r at h
    rw [hr] at h
    cases h
  · intro x _ _ hx
    change x.sid ∈ w.invalidated at hx
    rw [hi] at hx
    cases hx

theorem wspec_del {s : St} {w : W} {d o : Bool} {sid : Nat} (hw : WSpec s w d)
    (hr : w.restored = none) (hd : d = true) :
    WSpec s { w with deleted := w.deleted ++ [sid], ok := o } d := by
  obtain ⟨-, -, -, hi⟩ := hw.plain hr
  refine ⟨hw.plain, ?_, ?_, ?_⟩
  · intro r h
    change w.restored = some r at h
    rw [hr] at h
    cases h
  · intro x _ _ hx
    change x.sid ∈ w.invalidated at hx
    rw [hi] at hx
    cases hx
  · intro hd'
    rw [hd] at hd'
    cases hd'

theorem mem_laterPersistent {s : St} {w : W} {sid y : Nat} :
    y ∈ laterPersistent s w sid ↔
      ∃ x ∈ s.sps, x.persistent = true ∧ sid < x.sid ∧ x.sid ∉ w.deleted ∧ x.sid = y := by
  simp only [laterPersistent, List.mem_map, List.mem_filter, Bool.and_eq_true, decide_eq_true_eq]
  grind

theorem wspec_restore {s : St} {w : W} {d o : Bool} {sid : Nat} {sp : Sp} (hw : WSpec s w d)
    (hr : w.restored = none) (hfs : findSp s sid = some sp) (hv : sp.valid = true)
    (hni : sid ∉ w.invalidated) (hnd : sid ∉ w.deleted)
    (hd : d = true ∨ laterPersistent s w sid = []) :
    WSpec s
      { base := sp.pages,
        queued := pagesOf (above sp.id s.dalloc) ++ pagesOf (above sp.id s.ualloc),
        restored := some sp.id,
        deleted := w.deleted ++ laterPersistent s w sid,
        invalidated := w.invalidated ++
          (s.sps.filter (fun x => x.valid && decide (sid < x.sid))).map (·.sid),
        dfreed := upTo sp.id w.dfreed,
        ok := o } d := by
  have hmem : sp ∈ s.sps := List.mem_of_find?_eq_some hfs
  have hsid : sp.sid = sid := by
    have := List.find?_some hfs
    simpa using this
  obtain ⟨-, -, hdf, hi⟩ := hw.plain hr
  refine ⟨?_, ?_, ?_, ?_⟩
  · intro h
    cases h
  · intro r hr'
    simp only [Option.some.injEq] at hr'
    subst hr'
    refine ⟨sp, hmem, hv, ?_, ?_, rfl, rfl, rfl, by rw [hdf], ?_⟩
    · simp only [List.mem_append, mem_laterPersistent, hsid]
      grind
    · simp only [List.mem_append, List.mem_map, List.mem_filter, Bool.and_eq_true,
        decide_eq_true_eq, hsid]
      grind
    · intro x hx hxv hlt
      simp only [List.mem_append, List.mem_map, List.mem_filter, Bool.and_eq_true,
        decide_eq_true_eq]
      exact Or.inr ⟨x, ⟨hx, hxv, by omega⟩, rfl⟩
  · intro x hx hp hxi
    simp only [hi, List.nil_append, List.mem_map, List.mem_filter, Bool.and_eq_true,
      decide_eq_true_eq] at hxi
    obtain ⟨y, ⟨hy, hyv, hlt⟩, hxy⟩ := hxi
    simp only [List.mem_append, mem_laterPersistent]
    by_cases hdel : x.sid ∈ w.deleted
    · exact Or.inl hdel
    · exact Or.inr ⟨x, hx, hp, by omega, hdel, rfl⟩
  · intro hd'
    have h1 := hw.nd_del hd'
    rcases hd with hd | hd
    · rw [hd] at hd'
      cases hd'
    · simp only [h1, hd, List.append_nil]

/-- the loop invariant of `runSpOps`: as long as every operation was accepted -/
def SpInv (s0 : St) (d : Bool) (x : St × W) : Prop :=
  x.2.ok = true → Core s0.lastId [] x.1 ∧ Unp x.1 ∧ WSpec x.1 x.2 d ∧ Frame s0 x.1

theorem spInv_step {s0 : St} {d : Bool} {x : St × W} (op : SpOp) (h : SpInv s0 d x) :
    SpInv s0 d (spStep d x op) := by
  obtain ⟨s, w⟩ := x
  cases op with
  | eph =>
    intro hok
    simp only [spStep, Bool.and_eq_true, Option.isNone_iff_eq_none] at hok
    obtain ⟨hc, hu, hw, hf⟩ := h hok.1
    have hl : s.lastId = s0.lastId := hf.lastId
    rw [← hl] at hc
    have := core_addSp (b := false) (c := s.pspCounter) hc hu (Nat.le_refl _) (by simp)
    rw [hl] at this
    exact ⟨this.1, this.2, wspec_addSp hw hok.2, hf.trans frame_addSp⟩
  | pers =>
    intro hok
    simp only [spStep, Bool.and_eq_true, Option.isNone_iff_eq_none] at hok
    obtain ⟨hc, hu, hw, hf⟩ := h hok.1.1
    have hl : s.lastId = s0.lastId := hf.lastId
    rw [← hl] at hc
    have := core_addSp (b := true) (c := max (s.nextSp + 2) s.pspCounter) hc hu
      (Nat.le_max_right _ _) (fun _ => by omega)
    rw [hl] at this
    exact ⟨this.1, this.2, wspec_addSp hw hok.1.2, hf.trans frame_addSp⟩
  | del sid =>
    intro hok
    simp only [spStep, Bool.and_eq_true, Option.isNone_iff_eq_none] at hok
    obtain ⟨⟨⟨⟨hok1, hd⟩, hr⟩, -⟩, -⟩ := hok
    obtain ⟨hc, hu, hw, hf⟩ := h hok1
    exact ⟨hc, hu, wspec_del hw hr hd, hf⟩
  | restore sid =>
    intro hok
    cases hfs : findSp s sid with
    | none =>
      simp only [spStep, hfs] at hok
      cases hok
    | some sp =>
      simp only [spStep, hfs, Bool.and_eq_true, Option.isNone_iff_eq_none, decide_eq_true_eq,
        Bool.or_eq_true, List.isEmpty_iff] at hok ⊢
      obtain ⟨⟨⟨⟨⟨hok1, hr⟩, hv⟩, hni⟩, hnd⟩, hd⟩ := hok
      obtain ⟨hc, hu, hw, hf⟩ := h hok1
      exact ⟨hc, hu, wspec_restore hw hr hfs hv hni hnd hd, hf⟩

theorem spInv_foldl {s0 : St} {d : Bool} (ops : List SpOp) {x : St × W} (h : SpInv s0 d x) :
    SpInv s0 d (ops.foldl (spStep d) x) := by
  induction ops generalizing x with
  | nil => exact h
  | cons op ops ih => exact ih (spInv_step op h)

theorem spInv_start {s : St} {d : Bool} (h : Core s.lastId [] s) (hu : Unp s) :
    SpInv s d (s, W.start s) := by
  intro _
  refine ⟨h, hu, ⟨fun _ => ⟨rfl, rfl, rfl, rfl⟩, ?_, ?_, fun _ => rfl⟩, Frame.refl s⟩
  · intro r hr
    cases hr
  · intro x _ _ hx
    cases hx

theorem runSpOps_spec {d : Bool} {s : St} {ops : List SpOp} (h : Core s.lastId [] s) (hu : Unp s)
    (hok : (runSpOps d s ops).2.ok = true) :
    Core s.lastId [] (runSpOps d s ops).1 ∧ Unp (runSpOps d s ops).1 ∧
    WSpec (runSpOps d s ops).1 (runSpOps d s ops).2 d ∧ Frame s (runSpOps d s ops).1 :=
  spInv_foldl ops (spInv_start h hu) hok

end Redb.Life2
