import RedbModel.Model.Spec
import RedbModel.Lemmas.KeyType
/-!
Laws of the sorted-map specification (`Model/Spec.lean`) under the comparator laws `CmpLaws t`.
-/
namespace Redb.Spec
open Redb.Key


section cmpfacts
variable {t : KT}

theorem cmp_gt_iff (hc : CmpLaws t) {a b : Bytes} (ha : valid t a = true) (hb : valid t b = true) :
    cmp t a b = .gt ↔ cmp t b a = .lt := (hc.antisymm b a hb ha).symm

theorem cmp_le_of_not_lt (hc : CmpLaws t) {a b : Bytes} (ha : valid t a = true) (hb : valid t b = true)
    (h : cmp t a b ≠ .lt) : cmp t b a ≠ .gt := by
  intro h'
  exact h ((hc.antisymm a b ha hb).2 h')

theorem cmp_lt_of_lt_of_le (hc : CmpLaws t) {a b c : Bytes} (ha : valid t a = true)
    (hb : valid t b = true) (hcv : valid t c = true)
    (h1 : cmp t a b = .lt) (h2 : cmp t b c ≠ .gt) : cmp t a c = .lt := by
  false_or_by_contra
  rename_i h
  have h3 : cmp t c a ≠ .gt := cmp_le_of_not_lt hc ha hcv h
  have h4 : cmp t b a ≠ .gt := hc.trans b c a hb hcv ha h2 h3
  exact h4 ((hc.antisymm a b ha hb).1 h1)

theorem cmp_congr_left (hc : CmpLaws t) {a b c : Bytes} (ha : valid t a = true)
    (hb : valid t b = true) (hcv : valid t c = true)
    (h : cmp t a b = .eq) : cmp t a c = cmp t b c := by
  have hab : cmp t a b ≠ .gt := by simp [h]
  have hba : cmp t b a ≠ .gt := by simp [(hc.eq_symm a b ha hb).1 h]
  cases hbc : cmp t b c with
  | lt => exact hc.trans_lt a b c ha hb hcv hab hbc
  | gt =>
    have : cmp t c b = .lt := (cmp_gt_iff hc hb hcv).1 hbc
    have : cmp t c a = .lt := cmp_lt_of_lt_of_le hc hcv hb ha this hba
    exact (cmp_gt_iff hc ha hcv).2 this
  | eq =>
    have h1 : cmp t a c ≠ .gt := hc.trans a b c ha hb hcv hab (by simp [hbc])
    have hcb : cmp t c b ≠ .gt := by simp [(hc.eq_symm b c hb hcv).1 hbc]
    have h2 : cmp t c a ≠ .gt := hc.trans c b a hcv hb ha hcb hba
    have h3 : cmp t a c ≠ .lt := fun h' => h2 ((hc.antisymm a c ha hcv).1 h')
    cases hac : cmp t a c <;> simp_all

theorem cmp_congr_right (hc : CmpLaws t) {a b c : Bytes} (ha : valid t a = true)
    (hb : valid t b = true) (hcv : valid t c = true)
    (h : cmp t b c = .eq) : cmp t a b = cmp t a c := by
  have hbc : cmp t b c ≠ .gt := by simp [h]
  have hcb : cmp t c b ≠ .gt := by simp [(hc.eq_symm b c hb hcv).1 h]
  cases hab : cmp t a b with
  | lt => exact (cmp_lt_of_lt_of_le hc ha hb hcv hab hbc).symm
  | gt =>
    have : cmp t b a = .lt := (cmp_gt_iff hc ha hb).1 hab
    have : cmp t c a = .lt := hc.trans_lt c b a hcv hb ha hcb this
    exact ((cmp_gt_iff hc ha hcv).2 this).symm
  | eq =>
    rw [cmp_congr_left hc ha hb hcv hab, h]

end cmpfacts
/-- all keys of the map are valid encodings -/
def KeysValid (t : KT) (m : Map) : Prop := ∀ e, e ∈ m → valid t e.1 = true

/-- pairwise form of `Sorted` -/
def PSorted (t : KT) (m : Map) : Prop := m.Pairwise (fun a b => cmp t a.1 b.1 = .lt)

theorem keysValid_cons {t : KT} {a : Entry} {m : Map} :
    KeysValid t (a :: m) ↔ valid t a.1 = true ∧ KeysValid t m := by
  simp [KeysValid]

theorem keysValid_nil {t : KT} : KeysValid t [] := by simp [KeysValid]

theorem sorted_iff_psorted {t : KT} (hc : CmpLaws t) (m : Map) (hv : KeysValid t m) :
    Sorted t m ↔ PSorted t m := by
  induction m with
  | nil => simp [Sorted, PSorted]
  | cons a m ih =>
    cases m with
    | nil => simp [Sorted, PSorted]
    | cons b rest =>
      have hv' := (keysValid_cons.1 hv)
      have ih := ih hv'.2
      have hb := (keysValid_cons.1 hv'.2)
      simp only [Sorted, PSorted] at ih ⊢
      rw [List.pairwise_cons, ← ih]
      constructor
      · rintro ⟨h1, h2⟩
        refine ⟨?_, h2⟩
        intro x hx
        rcases List.mem_cons.1 hx with rfl | hx
        · exact h1
        · have := (List.pairwise_cons.1 (ih.1 h2)).1 x hx
          exact hc.trans_lt _ _ _ hv'.1 hb.1 (hb.2 x hx) (by simp [h1]) this
      · rintro ⟨h1, h2⟩
        exact ⟨h1 b (by simp), h2⟩
section aux
variable {t : KT}

theorem psorted_cons {a : Entry} {m : Map} :
    PSorted t (a :: m) ↔ (∀ x ∈ m, cmp t a.1 x.1 = .lt) ∧ PSorted t m := by
  simp [PSorted]

theorem insert_keys (m : Map) (k v : Bytes) :
    ∀ e ∈ (insert t m k v).1, e.1 = k ∨ ∃ e' ∈ m, e'.1 = e.1 := by
  induction m with
  | nil => simp [insert]
  | cons a m ih =>
    obtain ⟨k', v'⟩ := a
    cases h : cmp t k k' with
    | lt =>
      simp only [insert, h]
      intro e he
      rcases List.mem_cons.1 he with rfl | he
      · exact Or.inl rfl
      · exact Or.inr ⟨e, he, rfl⟩
    | eq =>
      simp only [insert, h]
      intro e he
      rcases List.mem_cons.1 he with rfl | he
      · exact Or.inr ⟨(k', v'), by simp, rfl⟩
      · exact Or.inr ⟨e, by simp [he], rfl⟩
    | gt =>
      simp only [insert, h]
      intro e he
      rcases List.mem_cons.1 he with rfl | he
      · exact Or.inr ⟨(k', v'), by simp, rfl⟩
      · rcases ih e he with h1 | ⟨e', he', h2⟩
        · exact Or.inl h1
        · exact Or.inr ⟨e', by simp [he'], h2⟩

theorem insert_psorted (hc : CmpLaws t) (m : Map) (k v : Bytes)
    (hs : PSorted t m) (hv : KeysValid t m) (hk : valid t k = true) :
    PSorted t (insert t m k v).1 ∧ KeysValid t (insert t m k v).1 := by
  induction m with
  | nil => simp [insert, PSorted, KeysValid, hk]
  | cons a m ih =>
    obtain ⟨k', v'⟩ := a
    obtain ⟨hk', hvm⟩ := keysValid_cons.1 hv
    obtain ⟨hlt, hsm⟩ := psorted_cons.1 hs
    simp only at hk' hlt
    cases h : cmp t k k' with
    | lt =>
      simp only [insert, h]
      refine ⟨psorted_cons.2 ⟨?_, hs⟩, keysValid_cons.2 ⟨hk, hv⟩⟩
      intro x hx
      rcases List.mem_cons.1 hx with rfl | hx
      · exact h
      · exact hc.trans_lt _ _ _ hk hk' (hvm x hx) (by simp [h]) (hlt x hx)
    | eq =>
      simp only [insert, h]
      exact ⟨psorted_cons.2 ⟨hlt, hsm⟩, keysValid_cons.2 ⟨hk', hvm⟩⟩
    | gt =>
      simp only [insert, h]
      obtain ⟨ih1, ih2⟩ := ih hsm hvm
      refine ⟨psorted_cons.2 ⟨?_, ih1⟩, keysValid_cons.2 ⟨hk', ih2⟩⟩
      intro x hx
      rcases insert_keys m k v x hx with h1 | ⟨e', he', h2⟩
      · rw [h1]; exact (cmp_gt_iff hc hk hk').1 h
      · rw [← h2]; exact hlt e' he'

theorem remove_sublist (m : Map) (k : Bytes) : (remove t m k).1.Sublist m := by
  induction m with
  | nil => simp [remove]
  | cons a m ih =>
    obtain ⟨k', v'⟩ := a
    cases h : cmp t k k' <;> simp [remove, h, ih]

theorem keysValid_sublist {m m' : Map} (h : m'.Sublist m) (hv : KeysValid t m) : KeysValid t m' :=
  fun e he => hv e (h.subset he)

theorem psorted_sublist {m m' : Map} (h : m'.Sublist m) (hs : PSorted t m) : PSorted t m' :=
  List.Pairwise.sublist h hs

theorem get_none_of_all_lt (m : Map) (k : Bytes) (h : ∀ e ∈ m, cmp t k e.1 = .lt) :
    get t m k = none := by
  cases m with
  | nil => simp [get]
  | cons a m =>
    obtain ⟨k', v'⟩ := a
    have := h (k', v') (by simp)
    simp only at this
    simp [get, this]

theorem get_append_left (l1 l2 : Map) (k : Bytes) (h : ∀ e ∈ l2, cmp t k e.1 = .lt) :
    get t (l1 ++ l2) k = get t l1 k := by
  induction l1 with
  | nil => simpa [get] using get_none_of_all_lt l2 k h
  | cons a m ih =>
    obtain ⟨k', v'⟩ := a
    cases h' : cmp t k k' <;> simp [get, h', ih]

theorem get_append_right (l1 l2 : Map) (k : Bytes) (h : ∀ e ∈ l1, cmp t k e.1 = .gt) :
    get t (l1 ++ l2) k = get t l2 k := by
  induction l1 with
  | nil => simp
  | cons a m ih =>
    obtain ⟨k', v'⟩ := a
    have := h (k', v') (by simp)
    simp only at this
    simp only [List.cons_append, get, this]
    exact ih (fun e he => h e (by simp [he]))

theorem get_insert_p (hc : CmpLaws t) (m : Map) (k v k' : Bytes)
    (hs : PSorted t m) (hv : KeysValid t m) (hk : valid t k = true) (hk' : valid t k' = true) :
    get t (insert t m k v).1 k' = if cmp t k' k = .eq then some v else get t m k' := by
  induction m with
  | nil => cases h : cmp t k' k <;> simp [insert, get, h]
  | cons a m ih =>
    obtain ⟨k0, v0⟩ := a
    obtain ⟨hk0, hvm⟩ := keysValid_cons.1 hv
    obtain ⟨hlt, hsm⟩ := psorted_cons.1 hs
    simp only at hk0 hlt
    cases h : cmp t k k0 with
    | lt =>
      simp only [insert, h]
      cases h' : cmp t k' k with
      | lt =>
        have : cmp t k' k0 = .lt := hc.trans_lt _ _ _ hk' hk hk0 (by simp [h']) h
        simp [get, h', this]
      | eq => simp [get, h']
      | gt => simp [get, h']
    | eq =>
      simp only [insert, h]
      have : cmp t k' k = cmp t k' k0 := cmp_congr_right hc hk' hk hk0 h
      rw [this]
      cases h' : cmp t k' k0 <;> simp [get, h']
    | gt =>
      simp only [insert, h]
      have hlt0 : cmp t k0 k = .lt := (cmp_gt_iff hc hk hk0).1 h
      cases h' : cmp t k' k0 with
      | lt =>
        have : cmp t k' k = .lt := cmp_lt_of_lt_of_le hc hk' hk0 hk h' (by simp [hlt0])
        simp [get, h', this]
      | eq =>
        have : cmp t k' k = .lt := by rw [cmp_congr_left hc hk' hk0 hk h']; exact hlt0
        simp [get, h', this]
      | gt =>
        simp only [get, h']
        exact ih hsm hvm

theorem get_remove_p (hc : CmpLaws t) (m : Map) (k k' : Bytes)
    (hs : PSorted t m) (hv : KeysValid t m) (hk : valid t k = true) (hk' : valid t k' = true) :
    get t (remove t m k).1 k' = if cmp t k' k = .eq then none else get t m k' := by
  induction m with
  | nil => simp [remove, get]
  | cons a m ih =>
    obtain ⟨k0, v0⟩ := a
    obtain ⟨hk0, hvm⟩ := keysValid_cons.1 hv
    obtain ⟨hlt, hsm⟩ := psorted_cons.1 hs
    simp only at hk0 hlt
    cases h : cmp t k k0 with
    | lt =>
      simp only [remove, h]
      split
      · rename_i h'
        have : cmp t k' k0 = .lt := by rw [cmp_congr_left hc hk' hk hk0 h']; exact h
        simp [get, this]
      · rfl
    | eq =>
      simp only [remove, h]
      have e1 : cmp t k' k = cmp t k' k0 := cmp_congr_right hc hk' hk hk0 h
      rw [e1]
      cases h' : cmp t k' k0 with
      | lt =>
        simp only [get, h']
        apply get_none_of_all_lt
        intro e he
        exact cmp_lt_of_lt_of_le hc hk' hk0 (hvm e he) h' (by simp [hlt e he])
      | eq =>
        simp only [if_true]
        apply get_none_of_all_lt
        intro e he
        rw [cmp_congr_left hc hk' hk0 (hvm e he) h']; exact hlt e he
      | gt => simp [get, h']
    | gt =>
      simp only [remove, h]
      have hlt0 : cmp t k0 k = .lt := (cmp_gt_iff hc hk hk0).1 h
      cases h' : cmp t k' k0 with
      | lt =>
        have : cmp t k' k = .lt := cmp_lt_of_lt_of_le hc hk' hk0 hk h' (by simp [hlt0])
        simp [get, h', this]
      | eq =>
        have : cmp t k' k = .lt := by rw [cmp_congr_left hc hk' hk0 hk h']; exact hlt0
        simp [get, h', this]
      | gt =>
        simp only [get, h']
        exact ih hsm hvm

theorem get_mem_p (hc : CmpLaws t) (m : Map) (hs : PSorted t m) (hv : KeysValid t m)
    (e : Entry) (he : e ∈ m) : get t m e.1 = some e.2 := by
  induction m with
  | nil => simp at he
  | cons a m ih =>
    obtain ⟨k0, v0⟩ := a
    obtain ⟨hk0, hvm⟩ := keysValid_cons.1 hv
    obtain ⟨hlt, hsm⟩ := psorted_cons.1 hs
    simp only at hk0 hlt
    rcases List.mem_cons.1 he with rfl | he
    · simp [get, hc.refl _ hk0]
    · have : cmp t e.1 k0 = .gt := (cmp_gt_iff hc (hvm e he) hk0).2 (hlt e he)
      simp only [get, this]
      exact ih hsm hvm he


theorem psorted_unique (hc : CmpLaws t) (m : Map) (hs : PSorted t m) (hv : KeysValid t m)
    (e g : Entry) (he : e ∈ m) (hg : g ∈ m) (h : cmp t e.1 g.1 = .eq) : e = g := by
  induction m with
  | nil => simp at he
  | cons a m ih =>
    obtain ⟨ha, hvm⟩ := keysValid_cons.1 hv
    obtain ⟨hlt, hsm⟩ := psorted_cons.1 hs
    rcases List.mem_cons.1 he with rfl | he' <;> rcases List.mem_cons.1 hg with rfl | hg'
    · rfl
    · rw [hlt g hg'] at h; cases h
    · have := (cmp_gt_iff hc (hvm e he') ha).2 (hlt e he')
      rw [this] at h; cases h
    · exact ih hsm hvm he' hg'

theorem mem_remove_p (hc : CmpLaws t) (m : Map) (k : Bytes)
    (hs : PSorted t m) (hv : KeysValid t m) (hk : valid t k = true) (e : Entry) :
    e ∈ (remove t m k).1 ↔ e ∈ m ∧ cmp t e.1 k ≠ .eq := by
  induction m with
  | nil => simp [remove]
  | cons a m ih =>
    obtain ⟨k0, v0⟩ := a
    obtain ⟨hk0, hvm⟩ := keysValid_cons.1 hv
    obtain ⟨hlt, hsm⟩ := psorted_cons.1 hs
    simp only at hk0 hlt
    cases h : cmp t k k0 with
    | lt =>
      simp only [remove, h]
      constructor
      · intro he
        refine ⟨he, ?_⟩
        have hve := hv e he
        have : cmp t k e.1 = .lt := by
          rcases List.mem_cons.1 he with rfl | he
          · exact h
          · exact hc.trans_lt _ _ _ hk hk0 hve (by simp [h]) (hlt e he)
        rw [(cmp_gt_iff hc hve hk).2 this]; simp
      · exact fun h => h.1
    | eq =>
      simp only [remove, h]
      constructor
      · intro he
        refine ⟨by simp [he], ?_⟩
        have hve := hvm e he
        have : cmp t k e.1 = .lt := by rw [cmp_congr_left hc hk hk0 hve h]; exact hlt e he
        rw [(cmp_gt_iff hc hve hk).2 this]; simp
      · rintro ⟨he, hne⟩
        rcases List.mem_cons.1 he with rfl | he
        · exact absurd ((hc.eq_symm _ _ hk hk0).1 h) hne
        · exact he
    | gt =>
      simp only [remove, h, List.mem_cons, ih hsm hvm]
      constructor
      · rintro (rfl | ⟨he, hne⟩)
        · refine ⟨Or.inl rfl, ?_⟩
          rw [(cmp_gt_iff hc hk hk0).1 h]; simp
        · exact ⟨Or.inr he, hne⟩
      · rintro ⟨rfl | he, hne⟩
        · exact Or.inl rfl
        · exact Or.inr ⟨he, hne⟩

theorem foldl_remove_p (hc : CmpLaws t) (got : List Entry) (m : Map)
    (hs : PSorted t m) (hv : KeysValid t m) (hg : ∀ g ∈ got, valid t g.1 = true) :
    PSorted t (got.foldl (fun acc e => (remove t acc e.1).1) m) ∧
    KeysValid t (got.foldl (fun acc e => (remove t acc e.1).1) m) ∧
    ∀ e, e ∈ got.foldl (fun acc e => (remove t acc e.1).1) m ↔
      e ∈ m ∧ ∀ g ∈ got, cmp t e.1 g.1 ≠ .eq := by
  induction got generalizing m with
  | nil => simp [hs, hv]
  | cons g got ih =>
    simp only [List.foldl_cons]
    have hsub := remove_sublist (t := t) m g.1
    have hs' := psorted_sublist hsub hs
    have hv' := keysValid_sublist hsub hv
    obtain ⟨i1, i2, i3⟩ := ih (remove t m g.1).1 hs' hv' (fun x hx => hg x (by simp [hx]))
    refine ⟨i1, i2, ?_⟩
    intro e
    rw [i3 e, mem_remove_p hc m g.1 hs hv (hg g (by simp)) e]
    simp only [List.mem_cons, forall_eq_or_imp]
    constructor
    · rintro ⟨⟨h1, h2⟩, h3⟩; exact ⟨h1, h2, h3⟩
    · rintro ⟨h1, h2, h3⟩; exact ⟨⟨h1, h2⟩, h3⟩

theorem consume_go_mem (fuel : Nat) (front : Bool) (l acc : List Entry) :
    ∀ e ∈ consume.go fuel front l acc, e ∈ l ∨ e ∈ acc := by
  induction fuel generalizing front l acc with
  | zero => intro e he; simp [consume.go] at he; exact Or.inr he
  | succ fuel ih =>
    intro e he
    cases l with
    | nil => simp [consume.go] at he; exact Or.inr he
    | cons x rest =>
      cases front with
      | true =>
        simp only [consume.go, if_true] at he
        rcases ih _ _ _ e he with h | h
        · exact Or.inl (by simp [h])
        · rcases List.mem_cons.1 h with rfl | h
          · exact Or.inl (by simp)
          · exact Or.inr h
      | false =>
        simp only [consume.go, Bool.false_eq_true, if_false] at he
        split at he
        · simp at he; exact Or.inr he
        · rename_i y hy
          rcases ih _ _ _ e he with h | h
          · exact Or.inl (List.dropLast_subset _ h)
          · rcases List.mem_cons.1 h with rfl | h
            · exact Or.inl (List.mem_of_getLast? hy)
            · exact Or.inr h

theorem consume_mem (l : List Entry) (mode : Mode) (limit : Nat) :
    ∀ e ∈ consume l mode limit, e ∈ l := by
  intro e he
  cases mode with
  | fwd => exact List.mem_of_mem_take he
  | rev => exact List.mem_reverse.1 (List.mem_of_mem_take he)
  | alt =>
    simp only [consume] at he
    rcases consume_go_mem _ _ _ _ e he with h | h
    · exact h
    · simp at h


theorem sorted_tail {a : Entry} {m : Map} (hs : Sorted t (a :: m)) : Sorted t m := by
  cases m with
  | nil => simp [Sorted]
  | cons b rest => exact hs.2

theorem sorted_dropLast : ∀ m : Map, Sorted t m → Sorted t m.dropLast
  | [], _ => by simp [Sorted]
  | [_], _ => by simp [Sorted]
  | [_, _], _ => by simp [Sorted]
  | a :: b :: c :: rest, h => by
    have ih := sorted_dropLast (b :: c :: rest) h.2
    simp only [List.dropLast_cons_cons] at ih ⊢
    exact ⟨h.1, ih⟩

end aux

theorem insert_sorted (t : KT) (hc : CmpLaws t) (m : Map) (k v : Bytes)
    (hs : Sorted t m) (hv : KeysValid t m) (hk : valid t k = true) :
    Sorted t (insert t m k v).1 ∧ KeysValid t (insert t m k v).1 := by
  obtain ⟨h1, h2⟩ := insert_psorted hc m k v ((sorted_iff_psorted hc m hv).1 hs) hv hk
  exact ⟨(sorted_iff_psorted hc _ h2).2 h1, h2⟩

theorem insert_returns_old (t : KT) (m : Map) (k v : Bytes) :
    (insert t m k v).2 = get t m k := by
  induction m with
  | nil => simp [insert, get]
  | cons a m ih =>
    obtain ⟨k', v'⟩ := a
    simp only [insert, get]
    cases cmp t k k' <;> simp [ih]

theorem get_insert (t : KT) (hc : CmpLaws t) (m : Map) (k v k' : Bytes)
    (hs : Sorted t m) (hv : KeysValid t m) (hk : valid t k = true) (hk' : valid t k' = true) :
    get t (insert t m k v).1 k' = if cmp t k' k = .eq then some v else get t m k' :=
  get_insert_p hc m k v k' ((sorted_iff_psorted hc m hv).1 hs) hv hk hk'

theorem remove_sorted (t : KT) (hc : CmpLaws t) (m : Map) (k : Bytes)
    (hs : Sorted t m) (hv : KeysValid t m) (hk : valid t k = true) :
    Sorted t (remove t m k).1 ∧ KeysValid t (remove t m k).1 := by
  have _hk := hk  -- not needed: removal never inspects validity of the removed key
  have hsub := remove_sublist (t := t) m k
  have h2 := keysValid_sublist hsub hv
  exact ⟨(sorted_iff_psorted hc _ h2).2 (psorted_sublist hsub ((sorted_iff_psorted hc m hv).1 hs)), h2⟩

theorem remove_returns_old (t : KT) (m : Map) (k : Bytes) :
    (remove t m k).2 = get t m k := by
  induction m with
  | nil => simp [remove, get]
  | cons a m ih =>
    obtain ⟨k', v'⟩ := a
    simp only [remove, get]
    cases cmp t k k' <;> simp [ih]

theorem get_remove (t : KT) (hc : CmpLaws t) (m : Map) (k k' : Bytes)
    (hs : Sorted t m) (hv : KeysValid t m) (hk : valid t k = true) (hk' : valid t k' = true) :
    get t (remove t m k).1 k' = if cmp t k' k = .eq then none else get t m k' :=
  get_remove_p hc m k k' ((sorted_iff_psorted hc m hv).1 hs) hv hk hk'

/-- `len` after an insert: grows by one exactly when the key was absent -/
theorem insert_length (t : KT) (m : Map) (k v : Bytes) :
    (insert t m k v).1.length = m.length + (if (get t m k).isSome then 0 else 1) := by
  induction m with
  | nil => simp [insert, get]
  | cons a m ih =>
    obtain ⟨k', v'⟩ := a
    cases h : cmp t k k' <;> simp [insert, get, h, ih] <;> omega

theorem remove_length (t : KT) (m : Map) (k : Bytes) :
    (remove t m k).1.length + (if (get t m k).isSome then 1 else 0) = m.length := by
  induction m with
  | nil => simp [remove, get]
  | cons a m ih =>
    obtain ⟨k', v'⟩ := a
    cases h : cmp t k k' <;> simp [remove, get, h, ← ih] <;> omega

/-- a sorted map has no two entries with equal keys, and `get` finds every entry -/
theorem get_mem (t : KT) (hc : CmpLaws t) (m : Map) (hs : Sorted t m) (hv : KeysValid t m)
    (e : Entry) (he : e ∈ m) : get t m e.1 = some e.2 :=
  get_mem_p hc m ((sorted_iff_psorted hc m hv).1 hs) hv e he

/-- first / pop_first is the minimum, last / pop_last the maximum -/
theorem head_is_min (t : KT) (hc : CmpLaws t) (m : Map) (hs : Sorted t m) (hv : KeysValid t m)
    (e x : Entry) (hh : m.head? = some e) (hx : x ∈ m) : cmp t e.1 x.1 ≠ .gt := by
  cases m with
  | nil => simp at hh
  | cons a rest =>
    simp only [List.head?_cons, Option.some.injEq] at hh
    subst hh
    obtain ⟨hlt, _⟩ := psorted_cons.1 ((sorted_iff_psorted hc _ hv).1 hs)
    rcases List.mem_cons.1 hx with rfl | hx
    · rw [hc.refl _ (hv _ (by simp))]; simp
    · rw [hlt x hx]; simp

theorem last_is_max (t : KT) (hc : CmpLaws t) (m : Map) (hs : Sorted t m) (hv : KeysValid t m)
    (e x : Entry) (hh : m.getLast? = some e) (hx : x ∈ m) : cmp t x.1 e.1 ≠ .gt := by
  obtain ⟨ys, hm⟩ := List.getLast?_eq_some_iff.1 hh
  have hp := (sorted_iff_psorted hc m hv).1 hs
  rw [hm] at hx hp
  have hp' := (List.pairwise_append.1 hp).2.2
  rcases List.mem_append.1 hx with hx | hx
  · rw [hp' x hx e (by simp)]; simp
  · simp only [List.mem_singleton] at hx
    subst hx
    rw [hc.refl _ (hv _ (List.mem_of_getLast? hh))]; simp

theorem popFirst_sorted (t : KT) (m : Map) (hs : Sorted t m) : Sorted t (popFirst m).1 := by
  cases m with
  | nil => simp [popFirst, Sorted]
  | cons a rest => exact sorted_tail hs

theorem popLast_sorted (t : KT) (m : Map) (hs : Sorted t m) : Sorted t (popLast m).1 := by
  unfold popLast
  split
  · exact hs
  · exact sorted_dropLast m hs

/-- any sublist obtained by filtering stays sorted (range, retain, retain_in) -/
theorem filter_sorted (t : KT) (hc : CmpLaws t) (m : Map) (hs : Sorted t m) (hv : KeysValid t m)
    (p : Entry → Bool) : Sorted t (m.filter p) ∧ KeysValid t (m.filter p) := by
  have hsub : (m.filter p).Sublist m := List.filter_sublist
  have h2 := keysValid_sublist hsub hv
  exact ⟨(sorted_iff_psorted hc _ h2).2 (psorted_sublist hsub ((sorted_iff_psorted hc m hv).1 hs)), h2⟩

/-- `extract_if` removes exactly the yielded entries and yields only entries that were present,
in range, and satisfied the predicate -/
theorem extractIf_spec (t : KT) (hc : CmpLaws t) (m : Map) (lo hi : Bound) (p : Bytes → Bytes → Bool)
    (mode : Mode) (limit : Nat) (hs : Sorted t m) (hv : KeysValid t m) :
    Sorted t (extractIf t m lo hi p mode limit).1 ∧
    (∀ e, e ∈ (extractIf t m lo hi p mode limit).2 → e ∈ m ∧ inRange t lo hi e.1 = true ∧ p e.1 e.2 = true) ∧
    (∀ e, e ∈ m → (e ∈ (extractIf t m lo hi p mode limit).1 ↔ e ∉ (extractIf t m lo hi p mode limit).2)) := by
  simp only [extractIf]
  generalize hgot : consume (m.filter (fun e => inRange t lo hi e.1 && p e.1 e.2)) mode limit = got
  have hsel : ∀ e ∈ got, e ∈ m ∧ inRange t lo hi e.1 = true ∧ p e.1 e.2 = true := by
    intro e he
    rw [← hgot] at he
    have := consume_mem _ _ _ e he
    simpa [List.mem_filter, and_assoc] using this
  have hp := (sorted_iff_psorted hc m hv).1 hs
  obtain ⟨f1, f2, f3⟩ := foldl_remove_p hc got m hp hv (fun g hg => hv g (hsel g hg).1)
  refine ⟨(sorted_iff_psorted hc _ f2).2 f1, hsel, ?_⟩
  intro e he
  rw [f3 e]
  constructor
  · rintro ⟨_, h⟩ hin
    exact h e hin (hc.refl _ (hv e he))
  · intro hnot
    refine ⟨he, ?_⟩
    intro g hg heq
    have := psorted_unique hc m hp hv e g he (hsel g hg).1 heq
    exact hnot (this ▸ hg)

end Redb.Spec
