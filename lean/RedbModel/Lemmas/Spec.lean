import RedbModel.Model.Spec
import RedbModel.Lemmas.KeyType
/-!
Laws of the sorted-map specification (`Model/Spec.lean`) under the comparator laws `CmpLaws t`.
-/
namespace Redb.Spec
open Redb.Key

/-- all keys of the map are valid encodings -/
def KeysValid (t : KT) (m : Map) : Prop := ∀ e, e ∈ m → valid t e.1 = true

theorem insert_sorted (t : KT) (hc : CmpLaws t) (m : Map) (k v : Bytes)
    (hs : Sorted t m) (hv : KeysValid t m) (hk : valid t k = true) :
    Sorted t (insert t m k v).1 ∧ KeysValid t (insert t m k v).1 := by
  sorry

theorem insert_returns_old (t : KT) (m : Map) (k v : Bytes) :
    (insert t m k v).2 = get t m k := by
  sorry

theorem get_insert (t : KT) (hc : CmpLaws t) (m : Map) (k v k' : Bytes)
    (hs : Sorted t m) (hv : KeysValid t m) (hk : valid t k = true) (hk' : valid t k' = true) :
    get t (insert t m k v).1 k' = if cmp t k' k = .eq then some v else get t m k' := by
  sorry

theorem remove_sorted (t : KT) (hc : CmpLaws t) (m : Map) (k : Bytes)
    (hs : Sorted t m) (hv : KeysValid t m) (hk : valid t k = true) :
    Sorted t (remove t m k).1 ∧ KeysValid t (remove t m k).1 := by
  sorry

theorem remove_returns_old (t : KT) (m : Map) (k : Bytes) :
    (remove t m k).2 = get t m k := by
  sorry

theorem get_remove (t : KT) (hc : CmpLaws t) (m : Map) (k k' : Bytes)
    (hs : Sorted t m) (hv : KeysValid t m) (hk : valid t k = true) (hk' : valid t k' = true) :
    get t (remove t m k).1 k' = if cmp t k' k = .eq then none else get t m k' := by
  sorry

/-- `len` after an insert: grows by one exactly when the key was absent -/
theorem insert_length (t : KT) (m : Map) (k v : Bytes) :
    (insert t m k v).1.length = m.length + (if (get t m k).isSome then 0 else 1) := by
  sorry

theorem remove_length (t : KT) (m : Map) (k : Bytes) :
    (remove t m k).1.length + (if (get t m k).isSome then 1 else 0) = m.length := by
  sorry

/-- a sorted map has no two entries with equal keys, and `get` finds every entry -/
theorem get_mem (t : KT) (hc : CmpLaws t) (m : Map) (hs : Sorted t m) (hv : KeysValid t m)
    (e : Entry) (he : e ∈ m) : get t m e.1 = some e.2 := by
  sorry

/-- first / pop_first is the minimum, last / pop_last the maximum -/
theorem head_is_min (t : KT) (hc : CmpLaws t) (m : Map) (hs : Sorted t m) (hv : KeysValid t m)
    (e x : Entry) (hh : m.head? = some e) (hx : x ∈ m) : cmp t e.1 x.1 ≠ .gt := by
  sorry

theorem last_is_max (t : KT) (hc : CmpLaws t) (m : Map) (hs : Sorted t m) (hv : KeysValid t m)
    (e x : Entry) (hh : m.getLast? = some e) (hx : x ∈ m) : cmp t x.1 e.1 ≠ .gt := by
  sorry

theorem popFirst_sorted (t : KT) (m : Map) (hs : Sorted t m) : Sorted t (popFirst m).1 := by
  sorry

theorem popLast_sorted (t : KT) (m : Map) (hs : Sorted t m) : Sorted t (popLast m).1 := by
  sorry

/-- any sublist obtained by filtering stays sorted (range, retain, retain_in) -/
theorem filter_sorted (t : KT) (hc : CmpLaws t) (m : Map) (hs : Sorted t m) (hv : KeysValid t m)
    (p : Entry → Bool) : Sorted t (m.filter p) ∧ KeysValid t (m.filter p) := by
  sorry

/-- `extract_if` removes exactly the yielded entries and yields only entries that were present,
in range, and satisfied the predicate -/
theorem extractIf_spec (t : KT) (hc : CmpLaws t) (m : Map) (lo hi : Bound) (p : Bytes → Bytes → Bool)
    (mode : Mode) (limit : Nat) (hs : Sorted t m) (hv : KeysValid t m) :
    Sorted t (extractIf t m lo hi p mode limit).1 ∧
    (∀ e, e ∈ (extractIf t m lo hi p mode limit).2 → e ∈ m ∧ inRange t lo hi e.1 = true ∧ p e.1 e.2 = true) ∧
    (∀ e, e ∈ m → (e ∈ (extractIf t m lo hi p mode limit).1 ↔ e ∉ (extractIf t m lo hi p mode limit).2)) := by
  sorry

end Redb.Spec
