import RedbModel.Lemmas.Region
/-!
The checkable form of `TrackerSound` (`Model/Region.lean`: `firstViolation`, evaluated by the
driver on decoded snapshots of the implementation) is equivalent to the invariant itself.
-/
namespace Redb.Region
open Redb.Buddy

theorem getD_false_lt (bs : Bits) (i : Nat) (h : bs.getD i true = false) : i < bs.length := by
  rw [List.getD_eq_getElem?_getD] at h
  by_cases hi : i < bs.length
  · exact hi
  · rw [List.getElem?_eq_none (by omega)] at h; simp at h

theorem isFreeAt_iff (f : List Bits) (o i : Nat) : isFreeAt f o i = true ↔ FreeAt f o i := by
  simp only [isFreeAt, FreeAt, lenAt, Bool.not_eq_true']
  constructor
  · intro h; exact ⟨getD_false_lt _ _ h, h⟩
  · exact fun h => h.2

theorem mem_freeIdxs (bs : Bits) (i : Nat) :
    i ∈ freeIdxs bs ↔ (i < bs.length ∧ bs.getD i true = false) := by
  simp only [freeIdxs, List.mem_filterMap, Prod.exists, List.mem_zipIdx_iff_getElem?]
  constructor
  · rintro ⟨a, b, h1, h2⟩
    cases a <;> simp at h2
    subst h2
    have := (List.getElem?_eq_some_iff.1 h1).1
    exact ⟨this, by rw [List.getD_eq_getElem?_getD, h1]; rfl⟩
  · rintro ⟨h1, h2⟩
    refine ⟨false, i, ?_, by simp⟩
    rw [List.getD_eq_getElem?_getD, List.getElem?_eq_getElem h1] at h2
    simp at h2
    simp [List.getElem?_eq_getElem h1, h2]

theorem mem_freeIdxs' (f : List Bits) (o i : Nat) : i ∈ freeIdxs (f.getD o []) ↔ FreeAt f o i := by
  rw [mem_freeIdxs]; rfl
theorem isFreeAt_false_iff (f : List Bits) (o i : Nat) : isFreeAt f o i = false ↔ ¬ FreeAt f o i := by
  rw [← isFreeAt_iff]; simp

theorem invB_prop (mo len : Nat) (f : List Bits) : invB mo len f = true ↔
    (f.length = mo + 1 ∧ (∀ o, o ≤ mo → lenAt f o = len / 2 ^ o) ∧
      ∀ o, o ≤ mo → ∀ i, FreeAt f o i →
        (∀ o2, o < o2 → o2 ≤ mo → ¬ FreeAt f o2 (i / 2 ^ (o2 - o))) ∧
        (o = mo ∨ ¬ FreeAt f o (i ^^^ 1))) := by
  simp only [invB, Bool.and_eq_true, beq_iff_eq, List.all_eq_true, List.mem_range, mem_freeIdxs',
    List.mem_range'_1, Bool.or_eq_true, Bool.not_eq_true', isFreeAt_false_iff, Nat.lt_succ_iff]
  constructor
  · rintro ⟨⟨h1, h2⟩, h3⟩
    refine ⟨h1, h2, fun o ho i hi => ⟨fun o2 h4 h5 => (h3 o ho i hi).1 o2 ⟨by omega, by omega⟩, (h3 o ho i hi).2⟩⟩
  · rintro ⟨h1, h2, h3⟩
    refine ⟨⟨h1, h2⟩, fun o ho i hi => ⟨fun o2 h4 => (h3 o ho i hi).1 o2 (by omega) (by omega), (h3 o ho i hi).2⟩⟩

/-- the Boolean form of the buddy invariant is exact -/
theorem invB_iff (mo len : Nat) (f : List Bits) : invB mo len f = true ↔ Inv mo len f := by
  rw [invB_prop]
  constructor
  · rintro ⟨h1, h2, h3⟩
    have key : ∀ p o₁ o₂, o₁ ≤ mo → o₂ ≤ mo → o₁ < o₂ →
        FreeAt f o₁ (p / 2 ^ o₁) → FreeAt f o₂ (p / 2 ^ o₂) → False := by
      intro p o₁ o₂ ho₁ ho₂ hlt hf1 hf2
      have := (h3 o₁ ho₁ _ hf1).1 o₂ hlt ho₂
      rw [← div_pow_of_le (Nat.le_of_lt hlt)] at this
      exact this hf2
    refine ⟨h1, h2, ?_, ?_⟩
    · intro p o₁ o₂ ho₁ ho₂ hf1 hf2
      rcases Nat.lt_trichotomy o₁ o₂ with hlt | heq | hgt
      · exact (key p o₁ o₂ ho₁ ho₂ hlt hf1 hf2).elim
      · exact heq
      · exact (key p o₂ o₁ ho₂ ho₁ hgt hf2 hf1).elim
    · intro o i ho hf
      rcases (h3 o (by omega) i hf).2 with h | h
      · omega
      · exact h
  · intro h
    refine ⟨h.size, h.lens, fun o ho i hf => ⟨fun o2 hlt ho2 hf2 => ?_, ?_⟩⟩
    · have := h.unique (i * 2 ^ o) o o2 ho ho2 (by rw [block_nonempty]; exact hf)
        (by rw [div_pow_of_le (Nat.le_of_lt hlt), block_nonempty]; exact hf2)
      omega
    · by_cases e : o = mo
      · exact Or.inl e
      · exact Or.inr (h.merged o i (by omega) hf)
theorem all_rows_iff (t : List Bits) (L : Nat) :
    t.all (fun row => row.length == L) = true ↔ ∀ o, o < t.length → lenAt t o = L := by
  simp only [List.all_eq_true, beq_iff_eq, lenAt]
  constructor
  · intro h o ho
    apply h
    rw [List.getD_eq_getElem?_getD, List.getElem?_eq_getElem ho]
    exact List.getElem_mem ho
  · intro h row hrow
    obtain ⟨o, ho, rfl⟩ := List.getElem_of_mem hrow
    have := h o ho
    rw [List.getD_eq_getElem?_getD, List.getElem?_eq_getElem ho] at this
    exact this

theorem shapeOk_iff (s : St) :
    shapeOk s = true ↔ (s.tracker.length = nOrders ∧ (∀ o, o < nOrders → lenAt s.tracker o = trkLen s.tracker) ∧
      s.regions.length ≤ trkLen s.tracker) := by
  simp only [shapeOk, Bool.and_eq_true, beq_iff_eq, all_rows_iff, decide_eq_true_eq]
  constructor
  · rintro ⟨⟨h1, h2⟩, h3⟩
    exact ⟨h1, fun o ho => h2 o (by omega), h3⟩
  · rintro ⟨h1, h2, h3⟩
    exact ⟨⟨h1, fun o ho => h2 o (by omega)⟩, h3⟩

theorem hiddenAt_none_iff (t : List Bits) (r : Nat) (b : Buddy) :
    hiddenAt t r b = none ↔ ∀ o, FreeGE b o → getBit t o r = false := by
  have hs := highestFreeOrder_spec b
  simp only [hiddenAt]
  split <;> rename_i heq <;> simp only [heq] at hs
  · simp only [true_iff]
    intro o ho; exact absurd ho (hs o)
  · rename_i h
    simp only [List.find?_eq_none, List.mem_range, Bool.not_eq_true]
    obtain ⟨h1, ⟨i, h2⟩, h3⟩ := hs
    constructor
    · intro hh o ho
      exact hh o (by have := h3 o ho; omega)
    · intro hh o ho
      exact hh o ⟨h, i, by omega, h1, h2⟩

theorem hiddenAt_some (t : List Bits) (r : Nat) (b : Buddy) (o : Nat) (h : hiddenAt t r b = some o) :
    FreeGE b o ∧ getBit t o r = true := by
  have hs := highestFreeOrder_spec b
  simp only [hiddenAt] at h
  split at h <;> rename_i heq <;> simp only [heq] at hs
  · cases h
  · rename_i hh
    obtain ⟨h1, ⟨i, h2⟩, h3⟩ := hs
    have hm := List.mem_of_find?_eq_some h
    have hp := List.find?_some h
    simp only [List.mem_range] at hm
    exact ⟨⟨hh, i, by omega, h1, h2⟩, hp⟩

theorem drop_findIdx_none (row : Bits) (n : Nat) :
    (row.drop n).findIdx? (fun b => !b) = none ↔ ∀ r, n ≤ r → row.getD r true = true := by
  simp only [List.findIdx?_eq_none_iff]
  constructor
  · intro h r hr
    rw [List.getD_eq_getElem?_getD]
    by_cases hl : r < row.length
    · rw [List.getElem?_eq_getElem hl]
      have := h row[r] (by
        rw [List.mem_iff_getElem]
        exact ⟨r - n, by simp; omega, by simp; congr 1; omega⟩)
      simpa using this
    · rw [List.getElem?_eq_none (by omega)]; rfl
  · intro h x hx
    obtain ⟨j, hj, rfl⟩ := List.getElem_of_mem hx
    simp only [List.length_drop] at hj
    have := h (n + j) (by omega)
    rw [List.getD_eq_getElem?_getD, List.getElem?_eq_getElem (by omega)] at this
    simpa using this

theorem drop_findIdx_some (row : Bits) (n j : Nat)
    (h : (row.drop n).findIdx? (fun b => !b) = some j) : row.getD (n + j) true = false := by
  rw [List.findIdx?_eq_some_iff_getElem] at h
  obtain ⟨hj, h1, _⟩ := h
  simp only [List.length_drop] at hj
  rw [List.getD_eq_getElem?_getD, List.getElem?_eq_getElem (by omega)]
  simpa using h1

theorem ghostAt_none_iff (t : List Bits) (n : Nat) :
    ghostAt t n = none ↔ ∀ r o, n ≤ r → getBit t o r = true := by
  simp only [ghostAt, List.findSome?_eq_none_iff, List.mem_range]
  constructor
  · intro h r o hr
    by_cases ho : o < t.length
    · have := h o ho
      split at this
      · next he => exact (drop_findIdx_none _ _).1 he r hr
      · cases this
    · have : t[o]? = none := List.getElem?_eq_none (by omega)
      simp [getBit, List.getD_eq_getElem?_getD, this]
  · intro h o ho
    split
    · rfl
    · next j he =>
      have := drop_findIdx_some _ _ _ he
      have := h (n + j) o (by omega)
      simp only [getBit] at this
      simp_all

theorem ghostAt_some (t : List Bits) (n r o : Nat) (h : ghostAt t n = some (r, o)) :
    n ≤ r ∧ getBit t o r = false := by
  simp only [ghostAt] at h
  obtain ⟨o', _, h2⟩ := List.exists_of_findSome?_eq_some h
  split at h2
  · cases h2
  · next j he =>
    simp only [Option.some.injEq, Prod.mk.injEq] at h2
    obtain ⟨rfl, rfl⟩ := h2
    exact ⟨by omega, drop_findIdx_some _ _ _ he⟩

theorem buddyOk_iff (b : Buddy) :
    buddyOk b = true ↔ (b.maxOrder < nOrders ∧ Inv b.maxOrder b.len b.free) := by
  simp only [buddyOk, Bool.and_eq_true, decide_eq_true_eq, invB_iff]

theorem buddy_none_iff (rs : List Buddy) :
    rs.findIdx? (fun b => !buddyOk b) = none ↔
      ∀ (r : Nat) (b : Buddy), rs[r]? = some b → b.maxOrder < nOrders ∧ Inv b.maxOrder b.len b.free := by
  simp only [List.findIdx?_eq_none_iff, Bool.not_eq_false', buddyOk_iff]
  constructor
  · intro h r b hr
    exact h b (List.mem_of_getElem? hr)
  · intro h b hb
    obtain ⟨r, hr, rfl⟩ := List.getElem_of_mem hb
    exact h r _ (List.getElem?_eq_getElem hr)

theorem hides_none_iff (t : List Bits) (rs : List Buddy) :
    rs.zipIdx.findSome? (fun x => (hiddenAt t x.2 x.1).map (fun o => (x.2, o))) = none ↔
      ∀ (r : Nat) (b : Buddy), rs[r]? = some b → ∀ o, FreeGE b o → getBit t o r = false := by
  simp only [List.findSome?_eq_none_iff, Option.map_eq_none_iff, hiddenAt_none_iff, Prod.forall,
    List.mem_zipIdx_iff_getElem?]
  constructor
  · intro h r b hr; exact h b r hr
  · intro h b r hr; exact h r b hr

theorem hides_some (t : List Bits) (rs : List Buddy) (r o : Nat)
    (h : rs.zipIdx.findSome? (fun x => (hiddenAt t x.2 x.1).map (fun o => (x.2, o))) = some (r, o)) :
    ∃ b, rs[r]? = some b ∧ FreeGE b o ∧ getBit t o r = true := by
  obtain ⟨⟨b, r'⟩, h1, h2⟩ := List.exists_of_findSome?_eq_some h
  simp only [Option.map_eq_some_iff, Prod.mk.injEq] at h2
  obtain ⟨o', h3, rfl, rfl⟩ := h2
  rw [List.mem_zipIdx_iff_getElem?] at h1
  exact ⟨b, h1, hiddenAt_some _ _ _ _ h3⟩

/-- the driver's check is exactly the invariant -/
theorem firstViolation_none_iff (s : St) : firstViolation s = none ↔ TrackerSound s := by
  have key : firstViolation s = none ↔ (shapeOk s = true ∧
      s.regions.findIdx? (fun b => !buddyOk b) = none ∧
      s.regions.zipIdx.findSome? (fun x => (hiddenAt s.tracker x.2 x.1).map (fun o => (x.2, o))) = none ∧
      ghostAt s.tracker s.regions.length = none) := by
    simp only [firstViolation]
    cases shapeOk s
    · simp
    · simp only [Bool.not_true, Bool.false_eq_true, if_false, true_and]
      cases s.regions.findIdx? (fun b => !buddyOk b)
      · simp only [true_and]
        cases s.regions.zipIdx.findSome? (fun x => (hiddenAt s.tracker x.2 x.1).map (fun o => (x.2, o)))
        · simp only [true_and]
          cases ghostAt s.tracker s.regions.length <;> simp
        · simp
      · simp
  rw [key, shapeOk_iff, buddy_none_iff, hides_none_iff, ghostAt_none_iff]
  constructor
  · rintro ⟨⟨h1, h2, h3⟩, h4, h5, h6⟩
    exact ⟨h1, h2, h3, h5, h6, h4⟩
  · intro h
    exact ⟨⟨h.orders, h.rows, h.fits⟩, h.buddy, h.noHide, h.noGhost⟩

/-- what a reported violation means -/
theorem firstViolation_some (s : St) (v : Violation) (h : firstViolation s = some v) :
    match v with
    | .shape => ¬ (s.tracker.length = nOrders ∧ (∀ o, o < nOrders → lenAt s.tracker o = trkLen s.tracker) ∧
        s.regions.length ≤ trkLen s.tracker)
    | .buddy r => ∃ b, s.regions[r]? = some b ∧ ¬ (b.maxOrder < nOrders ∧ Inv b.maxOrder b.len b.free)
    | .hides r o => ∃ b, s.regions[r]? = some b ∧ FreeGE b o ∧ getBit s.tracker o r = true
    | .ghost r o => s.regions.length ≤ r ∧ getBit s.tracker o r = false := by
  simp only [firstViolation] at h
  split at h
  · next hs =>
    cases h
    simp only [← shapeOk_iff]
    simpa using hs
  · split at h
    · next r hr =>
      cases h
      rw [List.findIdx?_eq_some_iff_getElem] at hr
      obtain ⟨hlt, h1, _⟩ := hr
      refine ⟨_, List.getElem?_eq_getElem hlt, ?_⟩
      rw [← buddyOk_iff]
      simpa using h1
    · split at h
      · next r o hr =>
        cases h
        exact hides_some _ _ _ _ hr
      · split at h
        · next r o hr =>
          cases h
          exact ghostAt_some _ _ _ _ hr
        · cases h

instance (s : St) : Decidable (TrackerSound s) :=
  decidable_of_iff _ (firstViolation_none_iff s)

end Redb.Region
