import RedbModel.Model.KeyType
/-!
UTF-8 lemmas for the `str` separator: `roundUpToCharBoundary` returns a char boundary at or
after its argument, and cutting well-formed UTF-8 at a char boundary leaves it well-formed.
-/
namespace Redb.Key

theorem roundUp_ge (r : Bytes) (k : Nat) : k ≤ roundUpToCharBoundary r k := by
  fun_induction roundUpToCharBoundary r k with
  | case1 k h hc ih => omega
  | case2 k h hc => omega
  | case3 k h => omega

theorem roundUp_not_cont (r : Bytes) (k : Nat) (h : roundUpToCharBoundary r k < r.length) :
    isCont r[roundUpToCharBoundary r k] = false := by
  fun_induction roundUpToCharBoundary r k with
  | case1 k h' hc ih => exact ih h
  | case2 k h' hc => simpa using hc
  | case3 k h' => omega

/-- second-byte range condition of a 3-byte sequence with lead byte `a` -/
def utf8Sec3 (a x : Nat) : Bool :=
  if a = 0xE0 then 0xA0 ≤ x && x ≤ 0xBF
  else if a = 0xED then 0x80 ≤ x && x ≤ 0x9F
  else 0x80 ≤ x && x ≤ 0xBF

/-- second-byte range condition of a 4-byte sequence with lead byte `a` -/
def utf8Sec4 (a x : Nat) : Bool :=
  if a = 0xF0 then 0x90 ≤ x && x ≤ 0xBF
  else if a = 0xF4 then 0x80 ≤ x && x ≤ 0x8F
  else 0x80 ≤ x && x ≤ 0xBF

theorem utf8Sec3_cont (a : Nat) (b : UInt8) (h : utf8Sec3 a b.toNat = true) : isCont b = true := by
  unfold utf8Sec3 at h
  simp only [isCont, decide_eq_true_eq]
  split at h
  · simp at h; omega
  · split at h <;> simp at h <;> omega

theorem utf8Sec4_cont (a : Nat) (b : UInt8) (h : utf8Sec4 a b.toNat = true) : isCont b = true := by
  unfold utf8Sec4 at h
  simp only [isCont, decide_eq_true_eq]
  split at h
  · simp at h; omega
  · split at h <;> simp at h <;> omega

theorem validUtf8_1 (b : UInt8) (rest : Bytes) (h : b.toNat < 0x80) :
    validUtf8 (b :: rest) = validUtf8 rest := by
  rw [validUtf8.eq_def]; simp [h]

theorem validUtf8_2 (b b1 : UInt8) (r : Bytes) (h1 : 0xC2 ≤ b.toNat) (h2 : b.toNat < 0xE0) :
    validUtf8 (b :: b1 :: r) = (isCont b1 && validUtf8 r) := by
  rw [validUtf8.eq_def]
  have : ¬ b.toNat < 0x80 := by omega
  have : ¬ b.toNat < 0xC2 := by omega
  simp [*]

theorem validUtf8_3 (b b1 b2 : UInt8) (r : Bytes) (h1 : 0xE0 ≤ b.toNat) (h2 : b.toNat < 0xF0) :
    validUtf8 (b :: b1 :: b2 :: r) = (utf8Sec3 b.toNat b1.toNat && isCont b2 && validUtf8 r) := by
  rw [validUtf8.eq_def]
  have : ¬ b.toNat < 0x80 := by omega
  have : ¬ b.toNat < 0xC2 := by omega
  have : ¬ b.toNat < 0xE0 := by omega
  simp [*, utf8Sec3]

theorem validUtf8_4 (b b1 b2 b3 : UInt8) (r : Bytes) (h1 : 0xF0 ≤ b.toNat) (h2 : b.toNat < 0xF5) :
    validUtf8 (b :: b1 :: b2 :: b3 :: r) =
      (utf8Sec4 b.toNat b1.toNat && isCont b2 && isCont b3 && validUtf8 r) := by
  rw [validUtf8.eq_def]
  have : ¬ b.toNat < 0x80 := by omega
  have : ¬ b.toNat < 0xC2 := by omega
  have : ¬ b.toNat < 0xE0 := by omega
  have : ¬ b.toNat < 0xF0 := by omega
  simp [*, utf8Sec4]

/-- cutting a well-formed UTF-8 string in front of a non-continuation byte leaves it well-formed -/
theorem validUtf8_take_boundary (r : Bytes) (n : Nat) (hv : validUtf8 r = true)
    (hn : n < r.length) (hc : isCont r[n] = false) : validUtf8 (r.take n) = true := by
  induction r using validUtf8.induct generalizing n with
  | case1 => simp at hn
  | case2 b bs a ha ih =>
    rw [validUtf8_1 b bs ha] at hv
    cases n with
    | zero => simp [validUtf8]
    | succ m =>
      simp only [List.take_succ_cons]
      rw [validUtf8_1 _ _ ha]
      simp only [List.length_cons, List.getElem_cons_succ] at hn hc
      exact ih m hv (by omega) hc
  | case3 b bs a h1 h2 =>
    rw [validUtf8.eq_def] at hv; simp [a] at h1 h2; simp [h2] at hv; omega
  | case4 b a h1 h2 h3 b1 r ih =>
    simp only [a] at h1 h2 h3
    rw [validUtf8_2 b b1 r (by omega) h3] at hv
    simp only [Bool.and_eq_true] at hv
    match n with
    | 0 => simp [validUtf8]
    | 1 => simp [hv.1] at hc
    | m + 2 =>
      simp only [List.take_succ_cons]
      rw [validUtf8_2 _ _ _ (by omega) h3]
      simp only [List.length_cons, List.getElem_cons_succ] at hn hc
      simp only [hv.1, Bool.true_and]
      exact ih m hv.2 (by omega) hc
  | case5 b bs a h1 h2 h3 hne =>
    exfalso
    simp only [a] at h1 h2 h3
    rw [validUtf8.eq_def] at hv
    cases bs with
    | nil => simp [h1, h2, h3] at hv
    | cons x xs => exact hne x xs rfl
  | case6 b a h1 h2 h3 h4 b1 b2 r ih =>
    simp only [a] at h1 h2 h3 h4
    rw [validUtf8_3 b b1 b2 r (by omega) h4] at hv
    simp only [Bool.and_eq_true] at hv
    match n with
    | 0 => simp [validUtf8]
    | 1 => simp [utf8Sec3_cont _ _ hv.1.1] at hc
    | 2 => simp [hv.1.2] at hc
    | m + 3 =>
      simp only [List.take_succ_cons]
      rw [validUtf8_3 _ _ _ _ (by omega) h4]
      simp only [List.length_cons, List.getElem_cons_succ] at hn hc
      simp only [hv.1.1, hv.1.2, Bool.true_and]
      exact ih m hv.2 (by omega) hc
  | case7 b bs a h1 h2 h3 h4 hne =>
    exfalso
    simp only [a] at h1 h2 h3 h4
    rw [validUtf8.eq_def] at hv
    match bs, hne with
    | [], _ => simp [h1, h2, h3, h4] at hv
    | [x], _ => simp [h1, h2, h3, h4] at hv
    | x :: y :: xs, hne => exact hne x y xs rfl
  | case8 b a h1 h2 h3 h4 h5 b1 b2 b3 r ih =>
    simp only [a] at h1 h2 h3 h4 h5
    rw [validUtf8_4 b b1 b2 b3 r (by omega) h5] at hv
    simp only [Bool.and_eq_true] at hv
    match n with
    | 0 => simp [validUtf8]
    | 1 => simp [utf8Sec4_cont _ _ hv.1.1.1] at hc
    | 2 => simp [hv.1.1.2] at hc
    | 3 => simp [hv.1.2] at hc
    | m + 4 =>
      simp only [List.take_succ_cons]
      rw [validUtf8_4 _ _ _ _ _ (by omega) h5]
      simp only [List.length_cons, List.getElem_cons_succ] at hn hc
      simp only [hv.1.1.1, hv.1.1.2, hv.1.2, Bool.true_and]
      exact ih m hv.2 (by omega) hc
  | case9 b bs a h1 h2 h3 h4 h5 hne =>
    exfalso
    simp only [a] at h1 h2 h3 h4 h5
    rw [validUtf8.eq_def] at hv
    match bs, hne with
    | [], _ => simp [h1, h2, h3, h4, h5] at hv
    | [x], _ => simp [h1, h2, h3, h4, h5] at hv
    | [x, y], _ => simp [h1, h2, h3, h4, h5] at hv
    | x :: y :: z :: xs, hne => exact hne x y z xs rfl
  | case10 b bs a h1 h2 h3 h4 h5 =>
    simp only [a] at h1 h2 h3 h4 h5
    rw [validUtf8.eq_def] at hv; simp [h1, h2, h3, h4, h5] at hv

end Redb.Key
