import RedbModel.Lemmas.BuddyLowest
/-!
Further proved facts about the buddy allocator model, beyond the C14 obligations.
The proofs live in the imported files; this file collects the headline statements.

* (a) `allocLowest` (`BuddyLowest.lean`): sound like `alloc`, returns the least entirely free
  block of the requested order, complete.
-/
namespace Redb.Buddy

/-- (a) `alloc_lowest` preserves `Inv`, hands out a block of free pages only, removes exactly
those pages from the free set, and the index returned is the least `i` such that block `i` of
order `o` is entirely free. -/
theorem more_allocLowest_least (mo len : Nat) (f f' : List Bits) (o i : Nat)
    (h : Inv mo len f) (ha : allocLowest mo f o = some (i, f')) :
    Inv mo len f' ∧ (i + 1) * 2 ^ o ≤ len ∧
    (∀ p, p / 2 ^ o = i → PageFree mo f p ∧ ¬ PageFree mo f' p) ∧
    (∀ p, p / 2 ^ o ≠ i → (PageFree mo f' p ↔ PageFree mo f p)) ∧
    (∀ j, (∀ p, p / 2 ^ o = j → PageFree mo f p) → i ≤ j) :=
  allocLowest_spec mo len f f' o i h ha

/-- (a) `alloc_lowest` fails only if no aligned block of that order is entirely free. -/
theorem more_allocLowest_complete (mo len : Nat) (f : List Bits) (o : Nat)
    (h : Inv mo len f) (ha : allocLowest mo f o = none) :
    ¬ ∃ i, o ≤ mo ∧ (i + 1) * 2 ^ o ≤ len ∧ ∀ p, p / 2 ^ o = i → PageFree mo f p :=
  allocLowest_complete mo len f o h ha

end Redb.Buddy
