import RedbModel.Lemmas.BuddyLowest
import RedbModel.Lemmas.BuddyResize
import RedbModel.Lemmas.BuddySerial
/-!
Further proved facts about the buddy allocator model, beyond the C14 obligations.
The proofs live in the imported files; this file collects the headline statements.

* (a) `allocLowest` (`BuddyLowest.lean`): sound like `alloc`, returns the least entirely free
  block of the requested order, complete.
* (b) `Buddy.resize` (`BuddyResize.lean`): growing always succeeds, preserves `Inv` for the new
  length and frees exactly the new pages; shrinking succeeds iff the tail pages are all free and
  then preserves `Inv` and keeps exactly the free pages below the new length.
* (c) serialization (`BuddySerial.lean`): `fromBytes (toBytes b) b.cap = b` under explicit
  well-formedness hypotheses. The version WITHOUT a bound on the per-order bitmap lengths is
  false (`not_fromBytes_toBytes_without_hbits`), hence the `_partial` suffix on the general one;
  under the `lens` clause of `Inv` the bound follows from `b.len < 2^32`.
-/
namespace Redb.Buddy

/-- (a) `alloc_lowest` preserves `Inv`, hands out a block of free pages only, removes exactly
those pages from the free set, and the index returned is the least `i` such that block `i` of
order `o` is entirely free. -/
theorem more_allocLowest_least (mo len : Nat) (f f' : List Bits) (o i : Nat)
    (h : Inv mo len f) (ha : allocLowest mo f o = some (i, f')) :
    Inv mo len f' ∧ (i + 1) * 2 ^ o ≤ len ∧
    (∀ p, p / 2 ^ o = i → PageFree mo f p ∧ ¬ PageFree mo f' p) ∧
    (∀ p, p / 2 ^ o ≠ i → (PageFree mo f' p ↔ PageFree mo f p)) ∧
    (∀ j, (∀ p, p / 2 ^ o = j → PageFree mo f p) → i ≤ j) :=
  allocLowest_spec mo len f f' o i h ha

/-- (a) `alloc_lowest` fails only if no aligned block of that order is entirely free. -/
theorem more_allocLowest_complete (mo len : Nat) (f : List Bits) (o : Nat)
    (h : Inv mo len f) (ha : allocLowest mo f o = none) :
    ¬ ∃ i, o ≤ mo ∧ (i + 1) * 2 ^ o ≤ len ∧ ∀ p, p / 2 ^ o = i → PageFree mo f p :=
  allocLowest_complete mo len f o h ha

/-- (b) grow: always succeeds; `Inv` holds for the new length; exactly the pages in
`[len, newSize)` become free in addition. -/
theorem more_resize_grow (b : Buddy) (newSize : Nat)
    (h : Inv b.maxOrder b.len b.free) (hg : b.len < newSize) :
    ∃ b', b.resize newSize = some b' ∧ b'.len = newSize ∧ b'.maxOrder = b.maxOrder ∧
      b'.cap = b.cap ∧ Inv b.maxOrder newSize b'.free ∧
      ∀ q, PageFree b.maxOrder b'.free q ↔
        (PageFree b.maxOrder b.free q ∨ (b.len ≤ q ∧ q < newSize)) :=
  resize_grow' b newSize h hg

/-- (b) shrink: succeeds exactly when all tail pages are free (otherwise a Rust `assert!` would
fire); then `Inv` holds for the new length and the free pages are those below `newSize`. -/
theorem more_resize_shrink (b : Buddy) (newSize : Nat)
    (h : Inv b.maxOrder b.len b.free) (hs : newSize ≤ b.len) :
    ((b.resize newSize).isSome ↔
      ∀ q, newSize ≤ q → q < b.len → PageFree b.maxOrder b.free q) ∧
    ∀ b', b.resize newSize = some b' → b'.len = newSize ∧ b'.maxOrder = b.maxOrder ∧
      b'.cap = b.cap ∧ Inv b.maxOrder newSize b'.free ∧
      ∀ q, PageFree b.maxOrder b'.free q ↔ (PageFree b.maxOrder b.free q ∧ q < newSize) :=
  resize_shrink' b newSize h hs

/-- (c) round trip of the on-disk format for an allocator state satisfying `Inv`, with the
numeric fields fitting their on-disk widths. -/
theorem more_fromBytes_toBytes (b : Buddy)
    (h : Inv b.maxOrder b.len b.free)
    (hmo : b.maxOrder < 256) (hlen : b.len < 2 ^ 32)
    (hsz : (Buddy.toBytes b).length < 2 ^ 32) :
    Buddy.fromBytes (Buddy.toBytes b) b.cap = b :=
  fromBytes_toBytes_of_lens b h.size hmo hlen h.lens hsz

end Redb.Buddy
