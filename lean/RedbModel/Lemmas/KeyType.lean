import RedbModel.Model.KeyType
import RedbModel.Lemmas.KeyOrd
import RedbModel.Lemmas.KeyCmp
import RedbModel.Lemmas.KeyArray
import RedbModel.Lemmas.KeyUtf8
/-!
Helper lemmas for the key-type model. The property theorems that use them are in
`Props/C15.lean`.

Supporting files: `KeyOrd` (abstract comparator laws, `lexCmp`, `compare`), `KeyCmp` (`cmp t` is a
total preorder on valid encodings, by induction over `KT`), `KeyArray` (`buildArray` round trip),
`KeyUtf8` (cutting well-formed UTF-8 at a character boundary).
-/
namespace Redb.Key

/-- `cmp t` restricted to valid encodings is a total preorder whose equivalence is respected:
the four laws below are what "iteration order equals value order and lookups route correctly"
needs from a comparator. -/
structure CmpLaws (t : KT) : Prop where
  refl : ∀ a, valid t a = true → cmp t a a = .eq
  antisymm : ∀ a b, valid t a = true → valid t b = true → (cmp t a b = .lt ↔ cmp t b a = .gt)
  eq_symm : ∀ a b, valid t a = true → valid t b = true → (cmp t a b = .eq ↔ cmp t b a = .eq)
  trans : ∀ a b c, valid t a = true → valid t b = true → valid t c = true →
    cmp t a b ≠ .gt → cmp t b c ≠ .gt → cmp t a c ≠ .gt
  trans_lt : ∀ a b c, valid t a = true → valid t b = true → valid t c = true →
    cmp t a b ≠ .gt → cmp t b c = .lt → cmp t a c = .lt

theorem cmp_laws (t : KT) : CmpLaws t := by
  have h := ordLaws_cmp t
  constructor
  · exact h.refl
  · intro a b ha hb
    have := h.swap a b ha hb
    cases hab : cmp t a b <;> simp_all [Ordering.swap]
  · intro a b ha hb
    have := h.swap a b ha hb
    cases hab : cmp t a b <;> simp_all [Ordering.swap]
  · exact h.trans_le
  · exact h.trans_lt

/-! ### fixed widths -/

theorem fixedWidths_all_isSome (ts : List KT) (w : Nat) (h : fixedWidths ts = some w) :
    (fixedWidthList ts).all Option.isSome = true := by
  induction ts generalizing w with
  | nil => simp [fixedWidthList]
  | cons t ts ih =>
    simp only [fixedWidths] at h
    split at h
    · rename_i a b ha hb
      simp [fixedWidthList, ha] 
      have := ih b hb
      simpa [fixedWidthList] using this
    · simp at h

theorem valid_fixedWidth (t : KT) (w : Nat) (a : Bytes)
    (h : fixedWidth t = some w) (ha : valid t a = true) : a.length = w := by
  induction t using KT.rec (motive_2 := fun ts => ∀ w es, fixedWidths ts = some w →
      validList ts es = true → lenSum es = w) generalizing w a with
  | unit => simp_all [fixedWidth, valid]
  | bool => simp_all [fixedWidth, valid]
  | char => simp_all [fixedWidth, valid]
  | uint w' => simp_all [fixedWidth, valid]
  | sint w' => simp_all [fixedWidth, valid]
  | str => simp [fixedWidth] at h
  | bytes => simp [fixedWidth] at h
  | fixedBytes n => simp_all [fixedWidth, valid]
  | option t ih =>
    simp only [fixedWidth] at h
    split at h
    · rename_i w' hw'
      cases a with
      | nil => simp [valid] at ha
      | cons tag rest =>
        simp only [valid, hw'] at ha
        split at ha
        · simp at ha h; simp; omega
        · simp at ha h
          have := ih w' rest hw' ha.2
          simp; omega
    · simp at h
  | array n t ih =>
    simp only [fixedWidth] at h
    split at h
    · rename_i w' hw'
      simp only [valid, hw', Bool.and_eq_true, beq_iff_eq] at ha
      simp at h; omega
    · simp at h
  | tuple ts ih =>
    simp only [fixedWidth] at h
    have hall := fixedWidths_all_isSome ts w h
    simp only [valid, hall, if_true, Bool.and_eq_true, beq_iff_eq, foldl_len] at ha
    have := ih w _ h ha.2
    omega
  | nil =>
    rename_i w es h hv
    cases es <;> simp_all [fixedWidths, validList]
  | cons t ts iht ihts =>
    rename_i w es h hv
    obtain ⟨x, xs, rfl, hx, hxs⟩ := validList_cons_elim hv
    simp only [fixedWidths] at h
    split at h
    · rename_i a b ha hb
      have h1 := iht a x ha hx
      have h2 := ihts b xs hb hxs
      simp at h; simp; omega
    · simp at h

theorem branchSeparator_fixed (t : KT) (w : Nat) (a b : Bytes) (h : fixedWidth t = some w) :
    branchSeparator t a b = a := by
  simp [branchSeparator, h]

/-! ### minKey -/

theorem tupleElements_single (t : KT) (m : Bytes) (h : valid t m = true) :
    tupleElements (fixedWidthList [t]) m = [m] := by
  cases hfw : fixedWidth t with
  | some w =>
    have := valid_fixedWidth t w m hfw h
    simp [tupleElements, fixedWidthList, hfw, slice, ← this]
  | none =>
    simp [tupleElements, fixedWidthList, hfw, parseLens]

theorem valid_tuple_single_elim (t : KT) (a : Bytes) (h : valid (.tuple [t]) a = true) :
    ∃ x, tupleElements (fixedWidthList [t]) a = [x] ∧ valid t x = true := by
  simp only [valid, Bool.and_eq_true] at h
  obtain ⟨x, xs, hx, hv, hxs⟩ := validList_cons_elim h.2
  cases xs with
  | nil => exact ⟨x, hx, hv⟩
  | cons y ys => simp [validList] at hxs

theorem minKey_least (t : KT) (m : Bytes) (h : minKey t = some m) :
    valid t m = true ∧ ∀ a, valid t a = true → cmp t m a ≠ .gt := by
  fun_induction minKey t generalizing m with
  | case1 t w hw =>
    simp at h; subst h
    constructor
    · simp [valid, List.replicate_succ, hw]
    · intro a _; simp only [cmp, List.replicate_succ]; simp; split <;> simp
  | case2 t hw =>
    simp at h; subst h
    constructor
    · simp [valid, hw]
    · intro a _; simp only [cmp]; simp; split <;> simp
  | case3 =>
    simp at h; subst h
    refine ⟨by simp [valid], fun a _ => ?_⟩
    cases a <;> simp [cmp, lexCmp]
  | case4 =>
    simp at h; subst h
    refine ⟨by simp [valid, validUtf8], fun a _ => ?_⟩
    cases a <;> simp [cmp, lexCmp]
  | case5 t ih =>
    obtain ⟨hv, hle⟩ := ih m h
    have hm := tupleElements_single t m hv
    constructor
    · simp only [valid, hm, Bool.and_eq_true]
      refine ⟨⟨by simp, ?_⟩, by simp [validList, hv]⟩
      cases hfw : fixedWidth t <;> simp [fixedWidthList, hfw, parseLens]
    · intro a ha
      obtain ⟨x, hx, hvx⟩ := valid_tuple_single_elim t a ha
      have := hle x hvx
      simp only [cmp, hm, hx, cmpList, cmpList_nil]
      cases hc : cmp t m x <;> simp_all
  | case6 t h1 h2 h3 h4 => simp at h

/-! ### separators of byte strings, options -/

theorem lexCmp_take_left (l r : Bytes) (n : Nat) (hlt : lexCmp l r = .lt)
    (h1 : commonPrefixLen l r + 1 ≤ n) : lexCmp l (r.take n) = .lt := by
  fun_induction commonPrefixLen l r generalizing n with
  | case1 as bs a ih =>
    obtain ⟨n', rfl⟩ : ∃ n', n = n' + 1 := ⟨n - 1, by omega⟩
    simp_all [lexCmp]
  | case2 a as b bs hne =>
    obtain ⟨n', rfl⟩ : ∃ n', n = n' + 1 := ⟨n - 1, by omega⟩
    simp_all [lexCmp]
    grind
  | case3 l r hne =>
    obtain ⟨n', rfl⟩ : ∃ n', n = n' + 1 := ⟨n - 1, by omega⟩
    cases l <;> cases r
    · simp [lexCmp] at hlt
    · simp [lexCmp]
    · simp [lexCmp] at hlt
    · exact (hne _ _ _ _ rfl rfl).elim

theorem lexCmp_take_right (r : Bytes) (n : Nat) (hn : n < r.length) :
    lexCmp (r.take n) r = .lt := by
  induction r generalizing n with
  | nil => simp at hn
  | cons b bs ih =>
    cases n with
    | zero => simp [lexCmp]
    | succ n => simp at hn; simp [lexCmp, ih n hn]

theorem sepOk_self (t : KT) (a b : Bytes) (ha : valid t a = true) (hlt : cmp t a b = .lt) :
    sepOk t a b a = true := by
  simp [sepOk, ha, hlt, (ordLaws_cmp t).refl a ha]

theorem sepOk_bytes (a b : Bytes) (hlt : cmp .bytes a b = .lt) :
    sepOk .bytes a b (sep .bytes a b) = true := by
  simp only [sep]
  split
  · rename_i h
    simp only [Bool.and_eq_true, decide_eq_true_eq] at h
    simp only [cmp] at hlt
    simp [sepOk, valid, cmp, lexCmp_take_left a b _ hlt (Nat.le_refl _),
      lexCmp_take_right b _ h.2]
    omega
  · exact sepOk_self _ _ _ (by simp [valid]) hlt

theorem sepOk_str (a b : Bytes) (ha : valid .str a = true) (hb : valid .str b = true)
    (hlt : cmp .str a b = .lt) :
    sepOk .str a b (sep .str a b) = true := by
  simp only [sep]
  split
  · rename_i h
    simp only [Bool.and_eq_true, decide_eq_true_eq] at h
    simp only [cmp] at hlt
    simp only [valid] at hb
    have hv := validUtf8_take_boundary b _ hb h.2 (roundUp_not_cont b _ h.2)
    simp [sepOk, valid, cmp, lexCmp_take_left a b _ hlt (roundUp_ge b _),
      lexCmp_take_right b _ h.2, hv]
    omega
  · exact sepOk_self _ _ _ ha hlt

theorem sepOk_option (t : KT) (a b : Bytes)
    (ih : ∀ a b, valid t a = true → valid t b = true → cmp t a b = .lt →
      sepOk t a b (sep t a b) = true)
    (ha : valid (.option t) a = true) (hb : valid (.option t) b = true)
    (hlt : cmp (.option t) a b = .lt) :
    sepOk (.option t) a b (sep (.option t) a b) = true := by
  simp only [sep]
  split
  · exact sepOk_self _ _ _ ha hlt
  · split
    · exact sepOk_self _ _ _ ha hlt
    · split
      · exact sepOk_self _ _ _ ha hlt
      · rename_i hfw h0 hlen
        cases a with
        | nil => simp [valid] at ha
        | cons ta ra =>
        cases b with
        | nil => simp [valid] at hb
        | cons tb rb =>
        simp only [List.getD_cons_zero] at h0
        simp only [cmp, List.getD_cons_zero, h0, if_false, List.drop_succ_cons, List.drop_zero] at hlt
        split at hlt
        · simp at hlt
        · rename_i h0b
          simp only [valid, h0, h0b, if_false, Bool.and_eq_true, beq_iff_eq] at ha hb
          have := ih ra rb ha.2 hb.2 hlt
          simp only [sepOk, Bool.and_eq_true, bne_iff_ne, ne_eq, beq_iff_eq, decide_eq_true_eq] at this ⊢
          simp only [List.drop_succ_cons, List.drop_zero] at hlen ⊢
          obtain ⟨⟨⟨s1, s2⟩, s3⟩, s4⟩ := this
          refine ⟨⟨⟨?_, ?_⟩, ?_⟩, ?_⟩
          · simp [valid, s1]
          · simp [cmp, h0]; exact s2
          · simp [cmp, h0b]; exact s3
          · simp at hlen ⊢; omega

/-! ### variable-width arrays -/

/-- comparison of elements `i .. i+k` -/
def cmpElems (t : KT) (n : Nat) (a b : Bytes) (i k : Nat) : Ordering :=
  cmpList (List.replicate k t) (elemsFrom n a i k) (elemsFrom n b i k)

theorem cmpElems_zero (t : KT) (n : Nat) (a b : Bytes) (i : Nat) : cmpElems t n a b i 0 = .eq := by
  simp [cmpElems, cmpList_nil]

theorem cmpElems_succ (t : KT) (n : Nat) (a b : Bytes) (i k : Nat) :
    cmpElems t n a b i (k + 1) =
      match cmp t (arrayElement n a i) (arrayElement n b i) with
      | .eq => cmpElems t n a b (i + 1) k
      | o => o := by
  simp only [cmpElems, elemsFrom, List.replicate_succ, cmpList]
  generalize cmp t (arrayElement n a i) (arrayElement n b i) = o
  cases o <;> rfl

theorem cmp_array_var (t : KT) (n : Nat) (a b : Bytes) (hfw : fixedWidth t = none) :
    cmp (.array n t) a b = cmpElems t n a b 0 n := by
  simp only [cmp, hfw]
  exact cmpOffsets_eq t n a b 0 n

theorem cmpElems_all_eq (t : KT) (n : Nat) (a b : Bytes) (i k : Nat)
    (h : ∀ j, i ≤ j → j < i + k → cmp t (arrayElement n a j) (arrayElement n b j) = .eq) :
    cmpElems t n a b i k = .eq := by
  induction k generalizing i with
  | zero => exact cmpElems_zero ..
  | succ k ih =>
    rw [cmpElems_succ, h i (by omega) (by omega)]
    exact ih (i + 1) (fun j h1 h2 => h j (by omega) (by omega))

theorem cmpElems_first (t : KT) (n : Nat) (a b : Bytes) (i0 k i : Nat) (o : Ordering)
    (h : ∀ j, i0 ≤ j → j < i → cmp t (arrayElement n a j) (arrayElement n b j) = .eq)
    (hi : i0 ≤ i) (hik : i < i0 + k)
    (ho : cmp t (arrayElement n a i) (arrayElement n b i) = o) (hne : o ≠ .eq) :
    cmpElems t n a b i0 k = o := by
  induction k generalizing i0 with
  | zero => omega
  | succ k ih =>
    rw [cmpElems_succ]
    by_cases hii : i0 = i
    · subst hii; rw [ho]; cases o <;> simp_all
    · rw [h i0 (by omega) (by omega)]
      exact ih (i0 + 1) (fun j h1 h2 => h j (by omega) h2) (by omega) (by omega)

theorem valid_array_var (t : KT) (n : Nat) (d : Bytes) (hfw : fixedWidth t = none) :
    valid (.array n t) d = true ↔
      4 * n ≤ d.length ∧
      (∀ j, j < n → startOf n d j ≤ rdU32 d (4 * j) ∧ rdU32 d (4 * j) ≤ d.length ∧
        valid t (arrayElement n d j) = true) ∧ startOf n d n = d.length := by
  simp only [valid, hfw, Bool.and_eq_true, decide_eq_true_eq]
  have := validOffsets_iff t n d 0 n
  have e : startOf n d 0 = 4 * n := by simp [startOf]
  rw [e] at this
  rw [this]
  simp

theorem lenSum_take_succ (es : List Bytes) (j : Nat) (hj : j < es.length) :
    lenSum (es.take (j + 1)) = lenSum (es.take j) + es[j].length := by
  induction es generalizing j with
  | nil => simp at hj
  | cons e es ih =>
    cases j with
    | zero => simp
    | succ j => simp at hj; simp [ih j hj]; omega

theorem startOf_buildArray (es : List Bytes) (h : 4 * es.length + lenSum es < 2 ^ 32)
    (j : Nat) (hj : j ≤ es.length) :
    startOf es.length (buildArray es) j = 4 * es.length + lenSum (es.take j) := by
  cases j with
  | zero => simp [startOf]
  | succ j => rw [startOf_succ, rdU32_buildArray es h j (by omega)]

theorem valid_buildArray (t : KT) (es : List Bytes) (hfw : fixedWidth t = none)
    (h : 4 * es.length + lenSum es < 2 ^ 32)
    (hv : ∀ j (hj : j < es.length), valid t es[j] = true) :
    valid (.array es.length t) (buildArray es) = true := by
  rw [valid_array_var _ _ _ hfw]
  refine ⟨by rw [buildArray_length]; omega, fun j hj => ⟨?_, ?_, ?_⟩, ?_⟩
  · rw [startOf_buildArray es h j (by omega), rdU32_buildArray es h j hj, lenSum_take_succ es j hj]
    omega
  · rw [rdU32_buildArray es h j hj, buildArray_length]
    have := lenSum_take_le es (j + 1); omega
  · rw [arrayElement_buildArray es h j hj]; exact hv j hj
  · rw [startOf_buildArray es h _ (Nat.le_refl _), buildArray_length]; simp

/-- the assembled separator is fine as soon as the element list has the right shape -/
theorem sepOk_build (t : KT) (n : Nat) (l r : Bytes) (hfw : fixedWidth t = none) (es : List Bytes)
    (hlen : es.length = n)
    (hl : valid (.array n t) l = true)
    (i : Nat) (hi : i < n)
    (hpre : ∀ j, j < i → cmp t (arrayElement n l j) (arrayElement n r j) = .eq)
    (hv : ∀ j (hj : j < es.length), valid t es[j] = true)
    (hes : ∀ j (hj : j < es.length), j < i → es[j] = arrayElement n l j)
    (hs1 : cmp t (arrayElement n l i) (es[i]'(by omega)) ≠ .gt)
    (hs2 : cmp t (es[i]'(by omega)) (arrayElement n r i) = .lt)
    (htail : cmp t (arrayElement n l i) (es[i]'(by omega)) = .eq →
      ∀ j (hj : j < es.length), i < j → es[j] = arrayElement n l j)
    (htot : 4 * n + lenSum es < l.length) :
    sepOk (.array n t) l r (buildArray es) = true := by
  subst hlen
  have hl' := (valid_array_var _ _ _ hfw).1 hl
  have h32 : 4 * es.length + lenSum es < 2 ^ 32 := by
    have : startOf es.length l es.length < 2 ^ 32 := by
      obtain ⟨m, hm⟩ : ∃ m, es.length = m + 1 := ⟨es.length - 1, by omega⟩
      rw [hm, startOf_succ]; exact rdU32_lt _ _
    omega
  have hrefl := fun j (hj : j < es.length) => (ordLaws_cmp t).refl _ (hl'.2.1 j hj).2.2
  simp only [sepOk, Bool.and_eq_true, bne_iff_ne, ne_eq, beq_iff_eq, decide_eq_true_eq]
  refine ⟨⟨⟨valid_buildArray t es hfw h32 hv, ?_⟩, ?_⟩, by rw [buildArray_length]; omega⟩
  · rw [cmp_array_var _ _ _ _ hfw]
    cases hc : cmp t (arrayElement es.length l i) es[i] with
    | gt => exact absurd hc hs1
    | lt =>
      rw [cmpElems_first t _ l _ 0 _ i .lt ?_ (by omega) (by omega) ?_ (by simp)]
      · simp
      · intro j _ hj
        rw [arrayElement_buildArray es h32 j (by omega), hes j (by omega) hj]
        exact hrefl j (by omega)
      · rw [arrayElement_buildArray es h32 i hi]; exact hc
    | eq =>
      rw [cmpElems_all_eq]
      · simp
      · intro j _ hj
        rw [arrayElement_buildArray es h32 j (by omega)]
        rcases Nat.lt_trichotomy j i with h | h | h
        · rw [hes j (by omega) h]; exact hrefl j (by omega)
        · subst h; exact hc
        · rw [htail hc j (by omega) h]; exact hrefl j (by omega)
  · rw [cmp_array_var _ _ _ _ hfw]
    apply cmpElems_first t _ _ r 0 _ i .lt ?_ (by omega) (by omega) ?_ (by simp)
    · intro j _ hj
      rw [arrayElement_buildArray es h32 j (by omega), hes j (by omega) hj]
      exact hpre j hj
    · rw [arrayElement_buildArray es h32 i hi]; exact hs2

/-- the element list assembled by the array separator at the first differing element `i` -/
def sepElemsWith (n : Nat) (l : Bytes) (i : Nat) (s : Bytes) (tail : Option Bytes) : List Bytes :=
  (List.range i).map (arrayElement n l) ++ [s] ++
    (List.range (n - (i + 1))).map (fun j =>
      match tail with
      | some m => m
      | none => arrayElement n l (i + 1 + j))

def sepTail (t : KT) (n : Nat) (l r : Bytes) (i : Nat) : Option Bytes :=
  if (decide (i + 1 < n) && cmp t (arrayElement n l i)
      (sep t (arrayElement n l i) (arrayElement n r i)) == .lt) = true
  then minKey t else none

def sepElems (t : KT) (n : Nat) (l r : Bytes) (i : Nat) : List Bytes :=
  sepElemsWith n l i (sep t (arrayElement n l i) (arrayElement n r i)) (sepTail t n l r i)

theorem sepArray_succ (t : KT) (n : Nat) (l r : Bytes) (i k : Nat) :
    sepArray t n l r i (k + 1) =
      if cmp t (arrayElement n l i) (arrayElement n r i) = .eq then sepArray t n l r (i + 1) k
      else if 4 * n + lenSum (sepElems t n l r i) ≥ l.length then l
      else buildArray (sepElems t n l r i) := by
  rw [sepArray]
  simp only [foldl_len, beq_iff_eq]
  rfl

theorem length_sepElemsWith (n : Nat) (l : Bytes) (i : Nat) (s : Bytes) (tail : Option Bytes)
    (hi : i < n) : (sepElemsWith n l i s tail).length = n := by
  simp [sepElemsWith]; omega

theorem sepElemsWith_lt (n : Nat) (l : Bytes) (i : Nat) (s : Bytes) (tail : Option Bytes)
    (j : Nat) (hj : j < i) (h : j < (sepElemsWith n l i s tail).length) :
    (sepElemsWith n l i s tail)[j] = arrayElement n l j := by
  simp [sepElemsWith, hj]

theorem sepElemsWith_eq (n : Nat) (l : Bytes) (i : Nat) (s : Bytes) (tail : Option Bytes)
    (h : i < (sepElemsWith n l i s tail).length) :
    (sepElemsWith n l i s tail)[i] = s := by
  simp [sepElemsWith]

theorem sepElemsWith_gt (n : Nat) (l : Bytes) (i : Nat) (s : Bytes) (tail : Option Bytes)
    (j : Nat) (hj : i < j) (h : j < (sepElemsWith n l i s tail).length) :
    (sepElemsWith n l i s tail)[j] = tail.getD (arrayElement n l j) := by
  cases tail <;>
    simp [sepElemsWith, List.getElem_append, show ¬ j < i by omega, List.getElem_cons,
      show j - i ≠ 0 by omega, show i + 1 + (j - i - 1) = j by omega]


theorem sepElems_lt (t : KT) (n : Nat) (l r : Bytes) (i j : Nat) (hj : j < i)
    (h : j < (sepElems t n l r i).length) : (sepElems t n l r i)[j] = arrayElement n l j :=
  sepElemsWith_lt _ _ _ _ _ j hj h

theorem sepElems_eq (t : KT) (n : Nat) (l r : Bytes) (i : Nat)
    (h : i < (sepElems t n l r i).length) :
    (sepElems t n l r i)[i] = sep t (arrayElement n l i) (arrayElement n r i) :=
  sepElemsWith_eq _ _ _ _ _ h

theorem sepElems_gt (t : KT) (n : Nat) (l r : Bytes) (i j : Nat) (hj : i < j)
    (h : j < (sepElems t n l r i).length) :
    (sepElems t n l r i)[j] = (sepTail t n l r i).getD (arrayElement n l j) :=
  sepElemsWith_gt _ _ _ _ _ j hj h

theorem sepOk_sepArray (t : KT) (n : Nat) (l r : Bytes) (hfw : fixedWidth t = none)
    (ih : ∀ a b, valid t a = true → valid t b = true → cmp t a b = .lt →
      sepOk t a b (sep t a b) = true)
    (hl : valid (.array n t) l = true) (hr : valid (.array n t) r = true)
    (hlt : cmp (.array n t) l r = .lt) (k i : Nat) (hik : i + k = n)
    (hpre : ∀ j, j < i → cmp t (arrayElement n l j) (arrayElement n r j) = .eq)
    (hc : cmpElems t n l r i k = .lt) :
    sepOk (.array n t) l r (sepArray t n l r i k) = true := by
  induction k generalizing i with
  | zero => simp only [sepArray]; exact sepOk_self _ _ _ hl hlt
  | succ k ihk =>
    rw [sepArray_succ]
    rw [cmpElems_succ] at hc
    split
    · rename_i heq
      rw [heq] at hc
      refine ihk (i + 1) (by omega) (fun j hj => ?_) hc
      by_cases hji : j = i
      · subst hji; exact heq
      · exact hpre j (by omega)
    · rename_i hne
      have hlt' : cmp t (arrayElement n l i) (arrayElement n r i) = .lt := by
        cases h : cmp t (arrayElement n l i) (arrayElement n r i) <;> simp_all
      split
      · exact sepOk_self _ _ _ hl hlt
      · rename_i htot
        have hi : i < n := by omega
        have hl' := (valid_array_var _ _ _ hfw).1 hl
        have hr' := (valid_array_var _ _ _ hfw).1 hr
        have hs := ih _ _ (hl'.2.1 i hi).2.2 (hr'.2.1 i hi).2.2 hlt'
        simp only [sepOk, Bool.and_eq_true, bne_iff_ne, ne_eq, beq_iff_eq, decide_eq_true_eq] at hs
        obtain ⟨⟨⟨s1, s2⟩, s3⟩, _⟩ := hs
        have hlen : (sepElems t n l r i).length = n := length_sepElemsWith _ _ _ _ _ hi
        refine sepOk_build t n l r hfw (sepElems t n l r i) hlen hl i hi hpre ?_ ?_ ?_ ?_ ?_
          (by omega)
        · intro j hj
          rcases Nat.lt_trichotomy j i with h | h | h
          · rw [sepElems_lt _ _ _ _ _ j h]
            exact (hl'.2.1 j (by omega)).2.2
          · subst h
            rw [sepElems_eq]
            exact s1
          · rw [sepElems_gt _ _ _ _ _ j h]
            cases htl : sepTail t n l r i with
            | none => exact (hl'.2.1 j (by omega)).2.2
            | some m =>
              have hm : minKey t = some m := by
                simp only [sepTail] at htl
                split at htl
                · exact htl
                · simp at htl
              exact (minKey_least t m hm).1
        · intro j hj h
          exact sepElems_lt _ _ _ _ _ j h hj
        · rw [sepElems_eq]
          exact s2
        · rw [sepElems_eq]
          exact s3
        · rw [sepElems_eq]
          intro heq j hj h
          rw [sepElems_gt _ _ _ _ _ j h]
          have : sepTail t n l r i = none := by simp [sepTail, heq]
          rw [this]; rfl

/-! ### the separator contract -/

theorem sep_contract (t : KT) (a b : Bytes)
    (ha : valid t a = true) (hb : valid t b = true) (hlt : cmp t a b = .lt) :
    sepOk t a b (sep t a b) = true := by
  induction t using KT.rec (motive_2 := fun _ => True) generalizing a b with
  | unit => simp only [sep]; exact sepOk_self _ _ _ ha hlt
  | bool => simp only [sep]; exact sepOk_self _ _ _ ha hlt
  | char => simp only [sep]; exact sepOk_self _ _ _ ha hlt
  | uint w => simp only [sep]; exact sepOk_self _ _ _ ha hlt
  | sint w => simp only [sep]; exact sepOk_self _ _ _ ha hlt
  | str => exact sepOk_str a b ha hb hlt
  | bytes => exact sepOk_bytes a b hlt
  | fixedBytes n => simp only [sep]; exact sepOk_self _ _ _ ha hlt
  | option t ih => exact sepOk_option t a b ih ha hb hlt
  | array n t ih =>
    simp only [sep]
    split
    · exact sepOk_self _ _ _ ha hlt
    · rename_i hfw
      exact sepOk_sepArray t n a b hfw ih ha hb hlt n 0 (by omega) (by omega)
        (by rw [← cmp_array_var _ _ _ _ hfw]; exact hlt)
  | tuple ts _ => simp only [sep]; exact sepOk_self _ _ _ ha hlt
  | nil => trivial
  | cons _ _ _ _ => trivial

theorem branchSeparator_contract (t : KT) (a b : Bytes)
    (ha : valid t a = true) (hb : valid t b = true) (hlt : cmp t a b = .lt) :
    sepOk t a b (branchSeparator t a b) = true := by
  simp only [branchSeparator]
  split
  · exact sepOk_self _ _ _ ha hlt
  · exact sep_contract t a b ha hb hlt

end Redb.Key
