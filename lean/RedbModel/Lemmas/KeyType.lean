import RedbModel.Model.KeyType
/-!
Helper lemmas for the key-type model. The property theorems that use them are in
`Props/C15.lean`.
-/
namespace Redb.Key

/-- `cmp t` restricted to valid encodings is a total preorder whose equivalence is respected:
the four laws below are what "iteration order equals value order and lookups route correctly"
needs from a comparator. -/
structure CmpLaws (t : KT) : Prop where
  refl : ∀ a, valid t a = true → cmp t a a = .eq
  antisymm : ∀ a b, valid t a = true → valid t b = true → (cmp t a b = .lt ↔ cmp t b a = .gt)
  eq_symm : ∀ a b, valid t a = true → valid t b = true → (cmp t a b = .eq ↔ cmp t b a = .eq)
  trans : ∀ a b c, valid t a = true → valid t b = true → valid t c = true →
    cmp t a b ≠ .gt → cmp t b c ≠ .gt → cmp t a c ≠ .gt
  trans_lt : ∀ a b c, valid t a = true → valid t b = true → valid t c = true →
    cmp t a b ≠ .gt → cmp t b c = .lt → cmp t a c = .lt

theorem cmp_laws (t : KT) : CmpLaws t := by
  sorry

theorem sep_contract (t : KT) (a b : Bytes)
    (ha : valid t a = true) (hb : valid t b = true) (hlt : cmp t a b = .lt) :
    sepOk t a b (sep t a b) = true := by
  sorry

theorem branchSeparator_contract (t : KT) (a b : Bytes)
    (ha : valid t a = true) (hb : valid t b = true) (hlt : cmp t a b = .lt) :
    sepOk t a b (branchSeparator t a b) = true := by
  sorry

theorem branchSeparator_fixed (t : KT) (w : Nat) (a b : Bytes) (h : fixedWidth t = some w) :
    branchSeparator t a b = a := by
  sorry

theorem minKey_least (t : KT) (m : Bytes) (h : minKey t = some m) :
    valid t m = true ∧ ∀ a, valid t a = true → cmp t m a ≠ .gt := by
  sorry

theorem valid_fixedWidth (t : KT) (w : Nat) (a : Bytes)
    (h : fixedWidth t = some w) (ha : valid t a = true) : a.length = w := by
  sorry

end Redb.Key
