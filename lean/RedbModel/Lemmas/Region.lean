import RedbModel.Model.Region
import RedbModel.Lemmas.Buddy
import RedbModel.Lemmas.BuddyLowest
/-!
The invariant `TrackerSound` of the region level of the page allocator
(`Model/Region.lean`) and the basic facts about the tracker bitmaps and about "the allocator of a
region has a free block of order ≥ o". The property theorems are in `Props/C14.lean`.
-/
namespace Redb.Region
open Redb.Buddy

/-- the allocator has a free block of order `≥ o` -/
def FreeGE (b : Buddy) (o : Nat) : Prop := ∃ k i, o ≤ k ∧ k ≤ b.maxOrder ∧ FreeAt b.free k i

/-- The invariant of the region level.

* `noHide` (clause 1): a region whose allocator has a free block of order `≥ o` is not reported
  full for `o` — the tracker never hides space. (The converse is NOT part of the invariant and not
  true of the code: the tracker is an optimistic cache; a region reported "not full" may turn out
  to be full, `allocate_helper_retry` then marks it.)
* `noGhost` (clause 2): every index that is not a region is reported full for every order.
* `buddy` (clause 3): every region allocator satisfies the buddy invariant.
* `orders`, `rows`, `fits`: the shape the code relies on when it indexes the bitmaps (`nOrders`
  bitmaps of one common length, at least one bit per region). -/
structure TrackerSound (s : St) : Prop where
  orders : s.tracker.length = nOrders
  rows : ∀ o, o < nOrders → lenAt s.tracker o = trkLen s.tracker
  fits : s.regions.length ≤ trkLen s.tracker
  noHide : ∀ (r : Nat) (b : Buddy), s.regions[r]? = some b → ∀ o, FreeGE b o → getBit s.tracker o r = false
  noGhost : ∀ r o, s.regions.length ≤ r → getBit s.tracker o r = true
  buddy : ∀ (r : Nat) (b : Buddy), s.regions[r]? = some b → b.maxOrder < nOrders ∧ Inv b.maxOrder b.len b.free

/-! ### tracker bitmaps -/

theorem length_markFree (t : List Bits) (o r : Nat) : (markFree t o r).length = t.length := by
  simp [markFree]

theorem length_markFull (t : List Bits) (o r : Nat) : (markFull t o r).length = t.length := by
  simp [markFull]

theorem lenAt_markFree (t : List Bits) (o r o' : Nat) : lenAt (markFree t o r) o' = lenAt t o' := by
  simp only [lenAt, markFree, List.getD_eq_getElem?_getD, List.getElem?_mapIdx]
  cases t[o']? <;> simp
  split <;> simp

theorem lenAt_markFull (t : List Bits) (o r o' : Nat) : lenAt (markFull t o r) o' = lenAt t o' := by
  simp only [lenAt, markFull, List.getD_eq_getElem?_getD, List.getElem?_mapIdx]
  cases t[o']? <;> simp
  split <;> simp

theorem getBit_markFree (t : List Bits) (o r o' r' : Nat) :
    getBit (markFree t o r) o' r' =
      if o' ≤ o ∧ r' = r ∧ r < lenAt t o' then false else getBit t o' r' := by
  simp only [getBit, lenAt, markFree, List.getD_eq_getElem?_getD, List.getElem?_mapIdx]
  cases h : t[o']? <;> simp
  split <;> simp [List.getElem?_set] <;> grind

theorem getBit_markFull (t : List Bits) (o r o' r' : Nat) :
    getBit (markFull t o r) o' r' = if o ≤ o' ∧ r' = r then true else getBit t o' r' := by
  simp only [getBit, markFull, List.getD_eq_getElem?_getD, List.getElem?_mapIdx]
  cases h : t[o']? <;> simp
  split <;> simp [List.getElem?_set] <;> grind

theorem trkLen_markFree (t : List Bits) (o r : Nat) : trkLen (markFree t o r) = trkLen t :=
  lenAt_markFree t o r 0

theorem trkLen_markFull (t : List Bits) (o r : Nat) : trkLen (markFull t o r) = trkLen t :=
  lenAt_markFull t o r 0

theorem length_trkResize (t : List Bits) (n : Nat) : (trkResize t n).length = t.length := by
  simp [trkResize]

theorem lenAt_trkResize (t : List Bits) (n o : Nat) (ho : o < t.length) :
    lenAt (trkResize t n) o = n := by
  simp only [lenAt, trkResize, List.getD_eq_getElem?_getD, List.getElem?_map]
  rw [List.getElem?_eq_getElem ho]
  simp [resizeBits]
  split <;> simp <;> omega

theorem getBit_trkResize_grow (t : List Bits) (n o r : Nat) (hn : lenAt t o ≤ n) :
    getBit (trkResize t n) o r = getBit t o r := by
  simp only [getBit, lenAt, trkResize, List.getD_eq_getElem?_getD, List.getElem?_map] at *
  cases h : t[o]? with
  | none => simp
  | some row =>
    simp only [h, Option.getD_some, Option.map_some] at *
    simp only [resizeBits]
    split
    · have : n = row.length := by omega
      subst this; simp
    · simp only [List.getElem?_append, List.getElem?_replicate]
      grind

/-! ### free blocks of order ≥ o -/

/-- semantic form of `FreeGE` under the buddy invariant: some aligned block of order `o` consists
of free pages only -/
theorem freeGE_iff {mo len : Nat} {b : Buddy} (hmo : b.maxOrder = mo) (h : Inv mo len b.free)
    (o : Nat) :
    FreeGE b o ↔ (o ≤ mo ∧ ∃ i, ∀ q, q / 2 ^ o = i → PageFree mo b.free q) := by
  subst hmo
  constructor
  · rintro ⟨k, i, hok, hk, hf⟩
    refine ⟨by omega, i * 2 ^ (k - o), fun q hq => ⟨k, hk, ?_⟩⟩
    rw [div_of_left_aligned hok rfl hq]; exact hf
  · rintro ⟨ho, i, hall⟩
    obtain ⟨o', h1, h2, hf⟩ := cover h o i ho hall
    exact ⟨o', _, h1, h2, hf⟩

theorem FreeGE.mono {b : Buddy} {o o' : Nat} (h : FreeGE b o) (hle : o' ≤ o) : FreeGE b o' := by
  obtain ⟨k, i, h1, h2, h3⟩ := h
  exact ⟨k, i, by omega, h2, h3⟩

/-- if every free page of `b'` is a free page of `b`, then `b'` has no larger free blocks -/
theorem freeGE_of_subset {mo len len' : Nat} {b b' : Buddy} (hmo : b.maxOrder = mo)
    (hmo' : b'.maxOrder = mo) (h : Inv mo len b.free) (h' : Inv mo len' b'.free)
    (hsub : ∀ q, PageFree mo b'.free q → PageFree mo b.free q) (o : Nat) (hf : FreeGE b' o) :
    FreeGE b o := by
  rw [freeGE_iff hmo' h'] at hf
  rw [freeGE_iff hmo h]
  obtain ⟨ho, i, hall⟩ := hf
  exact ⟨ho, i, fun q hq => hsub q (hall q hq)⟩

/-- `alloc` fails only if there is no free block of that order or above -/
theorem not_freeGE_of_alloc_none {b : Buddy} {o : Nat} (h : b.alloc o = none) : ¬ FreeGE b o := by
  rintro ⟨k, i, h1, h2, h3⟩
  have hn : allocInner b.maxOrder b.free o = none := by
    cases hn : allocInner b.maxOrder b.free o with
    | none => rfl
    | some x => simp [Buddy.alloc, hn] at h
  exact allocInner_none _ _ _ hn k h1 h2 i h3

theorem not_freeGE_of_allocLowest_none {b : Buddy} {o : Nat} (h : b.allocLowest o = none) :
    ¬ FreeGE b o := by
  rintro ⟨k, i, h1, h2, h3⟩
  have hn : Redb.Buddy.allocLowest b.maxOrder b.free o = none := by
    cases hn : Redb.Buddy.allocLowest b.maxOrder b.free o with
    | none => rfl
    | some x => simp [Redb.Buddy.Buddy.allocLowest, hn] at h
  exact allocInner_none _ _ _ ((allocLowest_eq_none_iff _ _ _).1 hn) k h1 h2 i h3

theorem find_rev_range (p : Nat → Bool) (n : Nat) :
    match (List.range n).reverse.find? p with
    | none => ∀ k, k < n → p k = false
    | some h => h < n ∧ p h = true ∧ ∀ k, h < k → k < n → p k = false := by
  induction n with
  | zero => simp
  | succ n ih =>
    rw [List.range_succ, List.reverse_append]
    simp only [List.reverse_cons, List.reverse_nil, List.nil_append, List.cons_append, List.find?_cons]
    cases hp : p n with
    | true => simp; exact ⟨hp, fun k h1 h2 => by omega⟩
    | false =>
      simp only
      split at ih
      · next hn =>
        intro k hk
        by_cases e : k = n
        · subst e; exact hp
        · exact ih k (by omega)
      · next h hs =>
        refine ⟨by omega, ih.2.1, fun k h1 h2 => ?_⟩
        by_cases e : k = n
        · subst e; exact hp
        · exact ih.2.2 k h1 (by omega)

theorem any_unset_iff (f : List Bits) (o : Nat) :
    (f.getD o []).any (fun x => !x) = true ↔ ∃ i, FreeAt f o i := by
  simp only [List.any_eq_true, FreeAt, lenAt, getBit]
  constructor
  · rintro ⟨x, hx, hb⟩
    obtain ⟨i, hi, rfl⟩ := List.getElem_of_mem hx
    exact ⟨i, hi, by rw [List.getD_eq_getElem?_getD, List.getElem?_eq_getElem hi]; simpa using hb⟩
  · rintro ⟨i, hi, hb⟩
    refine ⟨(f.getD o [])[i], List.getElem_mem hi, ?_⟩
    rw [List.getD_eq_getElem?_getD, List.getElem?_eq_getElem hi] at hb; simpa using hb

theorem highestFreeOrder_spec (b : Buddy) :
    match b.highestFreeOrder with
    | none => ∀ o, ¬ FreeGE b o
    | some h => h ≤ b.maxOrder ∧ (∃ i, FreeAt b.free h i) ∧ ∀ o, FreeGE b o → o ≤ h := by
  have := find_rev_range (fun o => (b.free.getD o []).any (fun x => !x)) (b.maxOrder + 1)
  simp only [Buddy.highestFreeOrder]
  split at this
  · next hn =>
    rintro o ⟨k, i, h1, h2, h3⟩
    have := this k (by omega)
    have h4 := (any_unset_iff b.free k).2 ⟨i, h3⟩
    simp_all
  · next h hs =>
    refine ⟨by omega, (any_unset_iff _ _).1 this.2.1, ?_⟩
    rintro o ⟨k, i, h1, h2, h3⟩
    have h4 := (any_unset_iff b.free k).2 ⟨i, h3⟩
    by_cases hk : h < k
    · have := this.2.2 k hk (by omega); simp_all
    · omega

/-! ### elementary transitions preserving `TrackerSound` -/

theorem TrackerSound.lt_lenAt {s : St} (h : TrackerSound s) {r o : Nat} (hr : r < s.regions.length)
    (ho : o < nOrders) : r < lenAt s.tracker o := by
  rw [h.rows o ho]; exact Nat.lt_of_lt_of_le hr h.fits

theorem freeGE_lt {b : Buddy} {o : Nat} (h : FreeGE b o) : o ≤ b.maxOrder := by
  obtain ⟨k, i, h1, h2, _⟩ := h; omega

/-- the allocator of region `r` is replaced by one whose free blocks of order `> m` were already
there, and the region is marked free up to `m` -/
theorem sound_set_markFree {s : St} (h : TrackerSound s) {r : Nat} {b b' : Buddy}
    (hr : s.regions[r]? = some b)
    (hb' : b'.maxOrder < nOrders ∧ Inv b'.maxOrder b'.len b'.free) (m : Nat)
    (hfree : ∀ o, FreeGE b' o → o ≤ m ∨ FreeGE b o) :
    TrackerSound { s with regions := s.regions.set r b', tracker := markFree s.tracker m r } := by
  have hrl : r < s.regions.length := (List.getElem?_eq_some_iff.1 hr).1
  refine ⟨?_, ?_, ?_, ?_, ?_, ?_⟩
  · simpa [length_markFree] using h.orders
  · intro o ho; simp only [lenAt_markFree, trkLen_markFree]; exact h.rows o ho
  · simpa [trkLen_markFree] using h.fits
  · intro r' b'' hr' o hf
    simp only [List.getElem?_set] at hr'
    simp only [getBit_markFree]
    by_cases e : r = r'
    · subst e
      rw [if_pos rfl, if_pos hrl] at hr'
      cases hr'
      have hlt := h.lt_lenAt hrl (o := o) (by have := freeGE_lt hf; omega)
      rcases hfree o hf with hm | hold
      · rw [if_pos ⟨hm, rfl, hlt⟩]
      · split
        · rfl
        · exact h.noHide r b hr o hold
    · rw [if_neg e] at hr'
      rw [if_neg (by omega)]
      exact h.noHide r' b'' hr' o hf
  · intro r' o hr'
    simp only [List.length_set] at hr'
    simp only [getBit_markFree]
    rw [if_neg (by omega)]
    exact h.noGhost r' o hr'
  · intro r' b'' hr'
    simp only [List.getElem?_set] at hr'
    by_cases e : r = r'
    · subst e
      rw [if_pos rfl, if_pos hrl] at hr'
      cases hr'; exact hb'
    · rw [if_neg e] at hr'
      exact h.buddy r' b'' hr'

/-- the allocator of region `r` is replaced by one with no new free blocks; tracker unchanged -/
theorem sound_set_mono {s : St} (h : TrackerSound s) {r : Nat} {b b' : Buddy}
    (hr : s.regions[r]? = some b)
    (hb' : b'.maxOrder < nOrders ∧ Inv b'.maxOrder b'.len b'.free)
    (hfree : ∀ o, FreeGE b' o → FreeGE b o) :
    TrackerSound { s with regions := s.regions.set r b' } := by
  have hrl : r < s.regions.length := (List.getElem?_eq_some_iff.1 hr).1
  refine ⟨h.orders, h.rows, ?_, ?_, ?_, ?_⟩
  · simpa using h.fits
  · intro r' b'' hr' o hf
    simp only [List.getElem?_set] at hr'
    by_cases e : r = r'
    · subst e
      rw [if_pos rfl, if_pos hrl] at hr'
      cases hr'
      exact h.noHide r b hr o (hfree o hf)
    · rw [if_neg e] at hr'
      exact h.noHide r' b'' hr' o hf
  · intro r' o hr'
    simp only [List.length_set] at hr'
    exact h.noGhost r' o hr'
  · intro r' b'' hr'
    simp only [List.getElem?_set] at hr'
    by_cases e : r = r'
    · subst e
      rw [if_pos rfl, if_pos hrl] at hr'
      cases hr'; exact hb'
    · rw [if_neg e] at hr'
      exact h.buddy r' b'' hr'

/-- `mark_full(o, r)` for a region without a free block of order `≥ o` (or for an index that is
not a region) -/
theorem sound_markFull {s : St} (h : TrackerSound s) {r o : Nat}
    (hnone : ∀ b, s.regions[r]? = some b → ¬ FreeGE b o) :
    TrackerSound { s with tracker := markFull s.tracker o r } := by
  refine ⟨?_, ?_, ?_, ?_, ?_, h.buddy⟩
  · simpa [length_markFull] using h.orders
  · intro o' ho; simp only [lenAt_markFull, trkLen_markFull]; exact h.rows o' ho
  · simpa [trkLen_markFull] using h.fits
  · intro r' b hr' o' hf
    simp only [getBit_markFull]
    split
    · next hc =>
      obtain ⟨h1, rfl⟩ := hc
      exact absurd (hf.mono h1) (hnone b hr')
    · exact h.noHide r' b hr' o' hf
  · intro r' o' hr'
    simp only [getBit_markFull]
    split
    · rfl
    · exact h.noGhost r' o' hr'

/-- a new last region is appended and marked free up to `m`; `t'` is the tracker, possibly
resized before -/
theorem sound_push {s : St} (h : TrackerSound s) {b : Buddy}
    (hb : b.maxOrder < nOrders ∧ Inv b.maxOrder b.len b.free) (m : Nat)
    (hfree : ∀ o, FreeGE b o → o ≤ m) (t' : List Bits) (ht1 : t'.length = nOrders)
    (ht2 : ∀ o, o < nOrders → lenAt t' o = trkLen t') (ht3 : s.regions.length < trkLen t')
    (ht4 : ∀ o r, getBit t' o r = getBit s.tracker o r) :
    TrackerSound { s with regions := s.regions ++ [b], tracker := markFree t' m s.regions.length } := by
  refine ⟨?_, ?_, ?_, ?_, ?_, ?_⟩
  · simpa [length_markFree] using ht1
  · intro o ho; simp only [lenAt_markFree, trkLen_markFree]; exact ht2 o ho
  · simp only [List.length_append, List.length_singleton, trkLen_markFree]; omega
  · intro r' b'' hr' o hf
    simp only [getBit_markFree]
    rw [List.getElem?_append] at hr'
    split at hr'
    · next hlt =>
      rw [if_neg (by omega), ht4]
      exact h.noHide r' b'' hr' o hf
    · next hge =>
      have : r' = s.regions.length := by
        have := (List.getElem?_eq_some_iff.1 hr').1
        simp at this; omega
      subst this
      simp at hr'; subst hr'
      have ho : o < nOrders := by have := freeGE_lt hf; omega
      rw [if_pos ⟨hfree o hf, rfl, by rw [ht2 o ho]; exact ht3⟩]
  · intro r' o hr'
    simp only [List.length_append, List.length_singleton] at hr'
    simp only [getBit_markFree]
    rw [if_neg (by omega), ht4]
    exact h.noGhost r' o (by omega)
  · intro r' b'' hr'
    rw [List.getElem?_append] at hr'
    split at hr'
    · exact h.buddy r' b'' hr'
    · have : r' = s.regions.length := by
        have := (List.getElem?_eq_some_iff.1 hr').1
        simp at this; omega
      subst this
      simp at hr'; subst hr'; exact hb

/-! dropping trailing regions -/

theorem foldl_markFull_spec (n k : Nat) (t : List Bits) :
    ((List.range' n k).foldl (fun t i => markFull t 0 i) t).length = t.length ∧
    (∀ o, lenAt ((List.range' n k).foldl (fun t i => markFull t 0 i) t) o = lenAt t o) ∧
    (∀ o r, getBit ((List.range' n k).foldl (fun t i => markFull t 0 i) t) o r =
      if n ≤ r ∧ r < n + k then true else getBit t o r) := by
  induction k generalizing n t with
  | zero => simp; intro o r h1 h2; omega
  | succ k ih =>
    simp only [List.range'_succ, List.foldl_cons]
    obtain ⟨h1, h2, h3⟩ := ih (n + 1) (markFull t 0 n)
    refine ⟨by rw [h1, length_markFull], fun o => by rw [h2, lenAt_markFull], fun o r => ?_⟩
    rw [h3, getBit_markFull]
    grind

/-- `resize_to`, shrink branch, first half: regions `n..` are marked full and dropped -/
theorem sound_take {s : St} (h : TrackerSound s) (n : Nat) :
    TrackerSound { s with
      regions := s.regions.take n
      tracker := (List.range' n (s.regions.length - n)).foldl (fun t i => markFull t 0 i) s.tracker } := by
  obtain ⟨h1, h2, h3⟩ := foldl_markFull_spec n (s.regions.length - n) s.tracker
  refine ⟨?_, ?_, ?_, ?_, ?_, ?_⟩
  · simpa [h1] using h.orders
  · intro o ho; simp only [trkLen, h2]; exact h.rows o ho
  · simp only [trkLen, h2, List.length_take]
    have := h.fits; simp only [trkLen] at this; omega
  · intro r b hr o hf
    simp only [List.getElem?_take] at hr
    split at hr
    · next hlt =>
      simp only [h3]
      rw [if_neg (by omega)]
      exact h.noHide r b hr o hf
    · cases hr
  · intro r o hr
    simp only [List.length_take] at hr
    simp only [h3]
    split
    · rfl
    · next hc => exact h.noGhost r o (by omega)
  · intro r b hr
    simp only [List.getElem?_take] at hr
    split at hr
    · exact h.buddy r b hr
    · cases hr

/-- the empty set of regions with an all-full tracker -/
theorem sound_empty (k cap : Nat) (l : Layout) :
    TrackerSound { regions := [], tracker := trkNew k nOrders, cap := cap, layout := l } := by
  have hg : ∀ o r, getBit (trkNew k nOrders) o r = true := by
    intro o r
    simp only [getBit, trkNew, List.getD_eq_getElem?_getD, List.getElem?_replicate]
    split <;> simp [List.getElem?_replicate]
    split <;> simp
  have hl : ∀ o, o < nOrders → lenAt (trkNew k nOrders) o = k := by
    intro o ho
    simp [lenAt, trkNew, List.getD_eq_getElem?_getD, ho]
  refine ⟨by simp [trkNew], ?_, by simp, ?_, fun r o _ => hg o r, ?_⟩
  · intro o ho; rw [trkLen, hl o ho, hl 0 (by decide)]
  · intro r b hr; simp at hr
  · intro r b hr; simp at hr

end Redb.Region
