import RedbModel.Model.MultiSpec
import RedbModel.Lemmas.KeyType
/-!
Laws of the multimap specification under the comparator laws of the key and value types.
-/
namespace Redb.MultiSpec
open Redb.Key

def KeysValid (kt vt : KT) (m : MMap) : Prop :=
  ∀ e, e ∈ m → valid kt e.1 = true ∧ ∀ v, v ∈ e.2 → valid vt v = true

/-- membership of a pair, read through `get` -/
def Has (kt vt : KT) (m : MMap) (k v : Bytes) : Prop := ∃ x, x ∈ get kt m k ∧ cmp vt v x = .eq

theorem insert_wf (kt vt : KT) (hk : CmpLaws kt) (hv : CmpLaws vt) (m : MMap) (k v : Bytes)
    (h : WF kt vt m) (hval : KeysValid kt vt m) (hkv : valid kt k = true) (hvv : valid vt v = true) :
    WF kt vt (insert kt vt m k v).1 ∧ KeysValid kt vt (insert kt vt m k v).1 := by
  sorry

theorem remove_wf (kt vt : KT) (hk : CmpLaws kt) (hv : CmpLaws vt) (m : MMap) (k v : Bytes)
    (h : WF kt vt m) (hval : KeysValid kt vt m) (hkv : valid kt k = true) (hvv : valid vt v = true) :
    WF kt vt (remove kt vt m k v).1 ∧ KeysValid kt vt (remove kt vt m k v).1 := by
  sorry

/-- the returned flag says whether the pair was present; inserting a present pair changes nothing
(no duplicate pairs) -/
theorem insert_present_iff (kt vt : KT) (hk : CmpLaws kt) (hv : CmpLaws vt) (m : MMap) (k v : Bytes)
    (h : WF kt vt m) (hval : KeysValid kt vt m) (hkv : valid kt k = true) (hvv : valid vt v = true) :
    ((insert kt vt m k v).2 = true ↔ Has kt vt m k v) ∧
    ((insert kt vt m k v).2 = true → (insert kt vt m k v).1 = m) := by
  sorry

theorem remove_present_iff (kt vt : KT) (hk : CmpLaws kt) (hv : CmpLaws vt) (m : MMap) (k v : Bytes)
    (h : WF kt vt m) (hval : KeysValid kt vt m) (hkv : valid kt k = true) (hvv : valid vt v = true) :
    ((remove kt vt m k v).2 = true ↔ Has kt vt m k v) ∧
    ((remove kt vt m k v).2 = false → (remove kt vt m k v).1 = m) := by
  sorry

/-- `len` counts pairs -/
theorem len_insert (kt vt : KT) (m : MMap) (k v : Bytes) :
    len (insert kt vt m k v).1 = len m + (if (insert kt vt m k v).2 then 0 else 1) := by
  sorry

theorem len_remove (kt vt : KT) (m : MMap) (k v : Bytes) :
    len (remove kt vt m k v).1 + (if (remove kt vt m k v).2 then 1 else 0) = len m := by
  sorry

theorem len_removeAll (kt : KT) (m : MMap) (k : Bytes) :
    len (removeAll kt m k).1 + (removeAll kt m k).2.length = len m := by
  sorry

/-- values of a key iterate in value order, and a present key has at least one value -/
theorem get_sorted (kt vt : KT) (m : MMap) (k : Bytes) (h : WF kt vt m) :
    SetSorted vt (get kt m k) := by
  sorry

/-- after an insert the pair is present; other keys are untouched -/
theorem get_insert (kt vt : KT) (hk : CmpLaws kt) (hv : CmpLaws vt) (m : MMap) (k v k' : Bytes)
    (h : WF kt vt m) (hval : KeysValid kt vt m) (hkv : valid kt k = true) (hvv : valid vt v = true)
    (hk' : valid kt k' = true) :
    Has kt vt (insert kt vt m k v).1 k v ∧
    (cmp kt k' k ≠ .eq → get kt (insert kt vt m k v).1 k' = get kt m k') := by
  sorry

/-- after a remove the pair is absent; a key disappears exactly when its set becomes empty;
other keys are untouched -/
theorem get_remove (kt vt : KT) (hk : CmpLaws kt) (hv : CmpLaws vt) (m : MMap) (k v k' : Bytes)
    (h : WF kt vt m) (hval : KeysValid kt vt m) (hkv : valid kt k = true) (hvv : valid vt v = true)
    (hk' : valid kt k' = true) :
    ¬ Has kt vt (remove kt vt m k v).1 k v ∧
    (cmp kt k' k ≠ .eq → get kt (remove kt vt m k v).1 k' = get kt m k') ∧
    (get kt (remove kt vt m k v).1 k = (setRemove vt (get kt m k) v).1) := by
  sorry

theorem get_removeAll (kt vt : KT) (hk : CmpLaws kt) (m : MMap) (k k' : Bytes)
    (h : WF kt vt m) (hval : KeysValid kt vt m) (hkv : valid kt k = true) (hk' : valid kt k' = true) :
    (removeAll kt m k).2 = get kt m k ∧ get kt (removeAll kt m k).1 k = [] ∧
    (cmp kt k' k ≠ .eq → get kt (removeAll kt m k).1 k' = get kt m k') ∧ WF kt vt (removeAll kt m k).1 := by
  sorry

end Redb.MultiSpec
