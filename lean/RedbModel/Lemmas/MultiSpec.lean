import RedbModel.Model.MultiSpec
import RedbModel.Lemmas.KeyType
/-!
Laws of the multimap specification under the comparator laws of the key and value types.
-/
namespace Redb.MultiSpec
open Redb.Key

def KeysValid (kt vt : KT) (m : MMap) : Prop :=
  ∀ e, e ∈ m → valid kt e.1 = true ∧ ∀ v, v ∈ e.2 → valid vt v = true

/-- membership of a pair, read through `get` -/
def Has (kt vt : KT) (m : MMap) (k v : Bytes) : Prop := ∃ x, x ∈ get kt m k ∧ cmp vt v x = .eq

/-! ### order facts derived from `CmpLaws` -/
section Ord
variable {t : KT} (hc : CmpLaws t)
include hc

theorem cl_gt_iff {a b : Bytes} (ha : valid t a = true) (hb : valid t b = true) :
    cmp t a b = .gt ↔ cmp t b a = .lt := (hc.antisymm b a hb ha).symm

theorem cl_lt_trans {a b c : Bytes} (ha : valid t a = true) (hb : valid t b = true)
    (hcv : valid t c = true) (h1 : cmp t a b = .lt) (h2 : cmp t b c = .lt) : cmp t a c = .lt :=
  hc.trans_lt a b c ha hb hcv (by simp [h1]) h2

theorem cl_eq_lt {a b c : Bytes} (ha : valid t a = true) (hb : valid t b = true)
    (hcv : valid t c = true) (h1 : cmp t a b = .eq) (h2 : cmp t b c = .lt) : cmp t a c = .lt :=
  hc.trans_lt a b c ha hb hcv (by simp [h1]) h2

theorem cl_lt_eq {a b c : Bytes} (ha : valid t a = true) (hb : valid t b = true)
    (hcv : valid t c = true) (h1 : cmp t a b = .lt) (h2 : cmp t b c = .eq) : cmp t a c = .lt := by
  have h2' := (hc.eq_symm b c hb hcv).1 h2
  cases h : cmp t a c with
  | lt => rfl
  | eq =>
    have h' := (hc.eq_symm a c ha hcv).1 h
    have := hc.trans_lt c a b hcv ha hb (by simp [h']) h1
    simp [this] at h2'
  | gt =>
    have h' := (cl_gt_iff hc ha hcv).1 h
    have := hc.trans_lt c a b hcv ha hb (by simp [h']) h1
    simp [this] at h2'

theorem cl_eq_trans {a b c : Bytes} (ha : valid t a = true) (hb : valid t b = true)
    (hcv : valid t c = true) (h1 : cmp t a b = .eq) (h2 : cmp t b c = .eq) : cmp t a c = .eq := by
  have h1' := (hc.eq_symm a b ha hb).1 h1
  cases h : cmp t a c with
  | eq => rfl
  | lt =>
    have := hc.trans_lt b a c hb ha hcv (by simp [h1']) h
    simp [this] at h2
  | gt =>
    exact absurd h (hc.trans a b c ha hb hcv (by simp [h1]) (by simp [h2]))


end Ord

/-! ### set level -/

theorem setSorted_cons_cons (vt : KT) (a b : Bytes) (s : VSet) :
    SetSorted vt (a :: b :: s) ↔ cmp vt a b = .lt ∧ SetSorted vt (b :: s) := by
  simp [SetSorted]

theorem setSorted_tail (vt : KT) (a : Bytes) (s : VSet) (h : SetSorted vt (a :: s)) :
    SetSorted vt s := by
  cases s with
  | nil => trivial
  | cons b s => exact ((setSorted_cons_cons vt a b s).1 h).2

theorem setSorted_cons_iff (vt : KT) (hv : CmpLaws vt) (a : Bytes) (s : VSet)
    (hval : ∀ x, x ∈ a :: s → valid vt x = true) :
    SetSorted vt (a :: s) ↔ (∀ x, x ∈ s → cmp vt a x = .lt) ∧ SetSorted vt s := by
  induction s generalizing a with
  | nil => simp [SetSorted]
  | cons b s ih =>
    rw [setSorted_cons_cons]
    have ihb := ih b (fun x hx => hval x (List.mem_cons_of_mem _ hx))
    constructor
    · rintro ⟨hab, hs⟩
      refine ⟨?_, hs⟩
      intro x hx
      rcases List.mem_cons.1 hx with rfl | hx
      · exact hab
      · exact cl_lt_trans hv (hval a (by simp)) (hval b (by simp)) (hval x (by simp [hx])) hab
          ((ihb.1 hs).1 x hx)
    · rintro ⟨hall, hs⟩
      exact ⟨hall b (by simp), hs⟩

theorem setInsert_mem (vt : KT) (s : VSet) (v x : Bytes) (h : x ∈ (setInsert vt s v).1) :
    x = v ∨ x ∈ s := by
  induction s with
  | nil => simp [setInsert] at h; exact Or.inl h
  | cons a s ih =>
    simp only [setInsert] at h
    cases hc : cmp vt v a <;> simp only [hc] at h
    · simpa using h
    · exact Or.inr h
    · rcases List.mem_cons.1 h with rfl | h
      · simp
      · rcases ih h with h | h
        · exact Or.inl h
        · exact Or.inr (List.mem_cons_of_mem _ h)

theorem setInsert_ne_nil (vt : KT) (s : VSet) (v : Bytes) : (setInsert vt s v).1 ≠ [] := by
  cases s with
  | nil => simp [setInsert]
  | cons a s => simp only [setInsert]; cases cmp vt v a <;> simp

theorem setInsert_sorted (vt : KT) (hv : CmpLaws vt) (s : VSet) (v : Bytes)
    (hs : SetSorted vt s) (hval : ∀ x, x ∈ s → valid vt x = true) (hvv : valid vt v = true) :
    SetSorted vt (setInsert vt s v).1 := by
  induction s with
  | nil => simp [setInsert, SetSorted]
  | cons a s ih =>
    simp only [setInsert]
    cases hc : cmp vt v a <;> simp only
    · exact (setSorted_cons_cons vt v a s).2 ⟨hc, hs⟩
    · exact hs
    · have hval' : ∀ x, x ∈ s → valid vt x = true := fun x hx => hval x (List.mem_cons_of_mem _ hx)
      have h1 := (setSorted_cons_iff vt hv a s hval).1 hs
      have hva : ∀ x, x ∈ a :: (setInsert vt s v).1 → valid vt x = true := by
        intro x hx
        rcases List.mem_cons.1 hx with rfl | hx
        · exact hval _ (by simp)
        · rcases setInsert_mem vt s v x hx with rfl | hx
          · exact hvv
          · exact hval' x hx
      refine (setSorted_cons_iff vt hv a _ hva).2 ⟨?_, ih h1.2 hval'⟩
      intro x hx
      rcases setInsert_mem vt s v x hx with rfl | hx
      · exact (cl_gt_iff hv hvv (hval a (by simp))).1 hc
      · exact h1.1 x hx

theorem setInsert_flag_iff (vt : KT) (hv : CmpLaws vt) (s : VSet) (v : Bytes)
    (hs : SetSorted vt s) (hval : ∀ x, x ∈ s → valid vt x = true) (hvv : valid vt v = true) :
    (setInsert vt s v).2 = true ↔ ∃ x, x ∈ s ∧ cmp vt v x = .eq := by
  induction s with
  | nil => simp [setInsert]
  | cons a s ih =>
    have hval' : ∀ x, x ∈ s → valid vt x = true := fun x hx => hval x (List.mem_cons_of_mem _ hx)
    have h1 := (setSorted_cons_iff vt hv a s hval).1 hs
    simp only [setInsert]
    cases hc : cmp vt v a <;> simp only
    · simp only [Bool.false_eq_true, false_iff]
      rintro ⟨x, hx, hvx⟩
      rcases List.mem_cons.1 hx with rfl | hx
      · simp [hc] at hvx
      · have := cl_lt_trans hv hvv (hval a (by simp)) (hval' x hx) hc (h1.1 x hx)
        simp [this] at hvx
    · simp only [true_iff]
      exact ⟨a, by simp, hc⟩
    · rw [ih h1.2 hval']
      constructor
      · rintro ⟨x, hx, hvx⟩; exact ⟨x, List.mem_cons_of_mem _ hx, hvx⟩
      · rintro ⟨x, hx, hvx⟩
        rcases List.mem_cons.1 hx with rfl | hx
        · simp [hc] at hvx
        · exact ⟨x, hx, hvx⟩

theorem setInsert_unchanged (vt : KT) (s : VSet) (v : Bytes) (h : (setInsert vt s v).2 = true) :
    (setInsert vt s v).1 = s := by
  induction s with
  | nil => simp [setInsert] at h
  | cons a s ih =>
    simp only [setInsert] at h ⊢
    cases hc : cmp vt v a <;> simp only [hc] at h ⊢
    · simp at h
    · rw [ih h]

theorem setInsert_has (vt : KT) (hv : CmpLaws vt) (s : VSet) (v : Bytes) (hvv : valid vt v = true) :
    ∃ x, x ∈ (setInsert vt s v).1 ∧ cmp vt v x = .eq := by
  induction s with
  | nil => exact ⟨v, by simp [setInsert], hv.refl v hvv⟩
  | cons a s ih =>
    simp only [setInsert]
    cases hc : cmp vt v a <;> simp only
    · exact ⟨v, by simp, hv.refl v hvv⟩
    · exact ⟨a, by simp, hc⟩
    · obtain ⟨x, hx, hvx⟩ := ih
      exact ⟨x, List.mem_cons_of_mem _ hx, hvx⟩

theorem setInsert_length (vt : KT) (s : VSet) (v : Bytes) :
    (setInsert vt s v).1.length = s.length + (if (setInsert vt s v).2 then 0 else 1) := by
  induction s with
  | nil => simp [setInsert]
  | cons a s ih =>
    cases hc : cmp vt v a <;> simp only [setInsert, hc]
    · simp
    · simp
    · simp only [List.length_cons, ih]; omega

theorem setRemove_mem (vt : KT) (s : VSet) (v x : Bytes) (h : x ∈ (setRemove vt s v).1) :
    x ∈ s := by
  induction s with
  | nil => simp [setRemove] at h
  | cons a s ih =>
    simp only [setRemove] at h
    cases hc : cmp vt v a <;> simp only [hc] at h
    · exact h
    · exact List.mem_cons_of_mem _ h
    · rcases List.mem_cons.1 h with rfl | h
      · simp
      · exact List.mem_cons_of_mem _ (ih h)

theorem setRemove_sorted (vt : KT) (hv : CmpLaws vt) (s : VSet) (v : Bytes)
    (hs : SetSorted vt s) (hval : ∀ x, x ∈ s → valid vt x = true) :
    SetSorted vt (setRemove vt s v).1 := by
  induction s with
  | nil => simp [setRemove, SetSorted]
  | cons a s ih =>
    have hval' : ∀ x, x ∈ s → valid vt x = true := fun x hx => hval x (List.mem_cons_of_mem _ hx)
    have h1 := (setSorted_cons_iff vt hv a s hval).1 hs
    simp only [setRemove]
    cases hc : cmp vt v a <;> simp only
    · exact hs
    · exact h1.2
    · have hva : ∀ x, x ∈ a :: (setRemove vt s v).1 → valid vt x = true := by
        intro x hx
        rcases List.mem_cons.1 hx with rfl | hx
        · exact hval _ (by simp)
        · exact hval' x (setRemove_mem vt s v x hx)
      refine (setSorted_cons_iff vt hv a _ hva).2 ⟨?_, ih h1.2 hval'⟩
      intro x hx
      exact h1.1 x (setRemove_mem vt s v x hx)

theorem setRemove_flag_iff (vt : KT) (hv : CmpLaws vt) (s : VSet) (v : Bytes)
    (hs : SetSorted vt s) (hval : ∀ x, x ∈ s → valid vt x = true) (hvv : valid vt v = true) :
    (setRemove vt s v).2 = true ↔ ∃ x, x ∈ s ∧ cmp vt v x = .eq := by
  induction s with
  | nil => simp [setRemove]
  | cons a s ih =>
    have hval' : ∀ x, x ∈ s → valid vt x = true := fun x hx => hval x (List.mem_cons_of_mem _ hx)
    have h1 := (setSorted_cons_iff vt hv a s hval).1 hs
    simp only [setRemove]
    cases hc : cmp vt v a <;> simp only
    · simp only [Bool.false_eq_true, false_iff]
      rintro ⟨x, hx, hvx⟩
      rcases List.mem_cons.1 hx with rfl | hx
      · simp [hc] at hvx
      · have := cl_lt_trans hv hvv (hval a (by simp)) (hval' x hx) hc (h1.1 x hx)
        simp [this] at hvx
    · simp only [true_iff]
      exact ⟨a, by simp, hc⟩
    · rw [ih h1.2 hval']
      constructor
      · rintro ⟨x, hx, hvx⟩; exact ⟨x, List.mem_cons_of_mem _ hx, hvx⟩
      · rintro ⟨x, hx, hvx⟩
        rcases List.mem_cons.1 hx with rfl | hx
        · simp [hc] at hvx
        · exact ⟨x, hx, hvx⟩

theorem setRemove_unchanged (vt : KT) (s : VSet) (v : Bytes) (h : (setRemove vt s v).2 = false) :
    (setRemove vt s v).1 = s := by
  induction s with
  | nil => simp [setRemove]
  | cons a s ih =>
    simp only [setRemove] at h ⊢
    cases hc : cmp vt v a <;> simp only [hc] at h ⊢
    · simp at h
    · rw [ih h]

theorem setRemove_not_has (vt : KT) (hv : CmpLaws vt) (s : VSet) (v : Bytes)
    (hs : SetSorted vt s) (hval : ∀ x, x ∈ s → valid vt x = true) (hvv : valid vt v = true) :
    ¬ ∃ x, x ∈ (setRemove vt s v).1 ∧ cmp vt v x = .eq := by
  induction s with
  | nil => simp [setRemove]
  | cons a s ih =>
    have hval' : ∀ x, x ∈ s → valid vt x = true := fun x hx => hval x (List.mem_cons_of_mem _ hx)
    have h1 := (setSorted_cons_iff vt hv a s hval).1 hs
    simp only [setRemove]
    cases hc : cmp vt v a <;> simp only
    · rintro ⟨x, hx, hvx⟩
      rcases List.mem_cons.1 hx with rfl | hx
      · simp [hc] at hvx
      · have := cl_lt_trans hv hvv (hval a (by simp)) (hval' x hx) hc (h1.1 x hx)
        simp [this] at hvx
    · rintro ⟨x, hx, hvx⟩
      have := cl_eq_lt hv hvv (hval a (by simp)) (hval' x hx) hc (h1.1 x hx)
      simp [this] at hvx
    · rintro ⟨x, hx, hvx⟩
      rcases List.mem_cons.1 hx with rfl | hx
      · simp [hc] at hvx
      · exact ih h1.2 hval' ⟨x, hx, hvx⟩

theorem setRemove_length (vt : KT) (s : VSet) (v : Bytes) :
    (setRemove vt s v).1.length + (if (setRemove vt s v).2 then 1 else 0) = s.length := by
  induction s with
  | nil => simp [setRemove]
  | cons a s ih =>
    cases hc : cmp vt v a <;> simp only [setRemove, hc]
    · simp
    · simp
    · simp only [List.length_cons]; omega


/-! ### map level -/

theorem foldl_len_acc (m : MMap) (a : Nat) :
    m.foldl (fun a e => a + e.2.length) a = a + m.foldl (fun a e => a + e.2.length) 0 := by
  induction m generalizing a with
  | nil => simp
  | cons e m ih => simp only [List.foldl_cons]; rw [ih (a + _), ih (0 + _)]; omega

theorem len_nil : len [] = 0 := rfl

theorem len_cons (e : Bytes × VSet) (m : MMap) : len (e :: m) = e.2.length + len m := by
  simp only [len, List.foldl_cons]; rw [foldl_len_acc]; omega

theorem wf_cons_cons (kt vt : KT) (a b : Bytes × VSet) (m : MMap) :
    WF kt vt (a :: b :: m) ↔
      cmp kt a.1 b.1 = .lt ∧ a.2 ≠ [] ∧ SetSorted vt a.2 ∧ WF kt vt (b :: m) := by
  simp [WF]

theorem wf_cons_iff (kt vt : KT) (hk : CmpLaws kt) (a : Bytes × VSet) (m : MMap)
    (hval : ∀ e, e ∈ a :: m → valid kt e.1 = true) :
    WF kt vt (a :: m) ↔
      a.2 ≠ [] ∧ SetSorted vt a.2 ∧ (∀ e, e ∈ m → cmp kt a.1 e.1 = .lt) ∧ WF kt vt m := by
  induction m generalizing a with
  | nil => simp [WF]
  | cons b m ih =>
    rw [wf_cons_cons]
    have ihb := ih b (fun x hx => hval x (List.mem_cons_of_mem _ hx))
    constructor
    · rintro ⟨hab, hne, hs, hw⟩
      refine ⟨hne, hs, ?_, hw⟩
      intro x hx
      rcases List.mem_cons.1 hx with rfl | hx
      · exact hab
      · exact cl_lt_trans hk (hval a (by simp)) (hval b (by simp)) (hval x (by simp [hx])) hab
          ((ihb.1 hw).2.2.1 x hx)
    · rintro ⟨hne, hs, hall, hw⟩
      exact ⟨hall b (by simp), hne, hs, hw⟩

theorem keysValid_nil (kt vt : KT) : KeysValid kt vt [] := by
  intro e he; simp at he

theorem keysValid_cons (kt vt : KT) (a : Bytes × VSet) (m : MMap) :
    KeysValid kt vt (a :: m) ↔
      (valid kt a.1 = true ∧ ∀ v, v ∈ a.2 → valid vt v = true) ∧ KeysValid kt vt m := by
  simp only [KeysValid, List.mem_cons]
  constructor
  · intro h
    exact ⟨h a (Or.inl rfl), fun e he => h e (Or.inr he)⟩
  · rintro ⟨h1, h2⟩ e (rfl | he)
    · exact h1
    · exact h2 e he

theorem get_nil_of_lt (kt : KT) (m : MMap) (k : Bytes)
    (h : ∀ e, e ∈ m → cmp kt k e.1 = .lt) : get kt m k = [] := by
  cases m with
  | nil => rfl
  | cons a m =>
    obtain ⟨k0, s⟩ := a
    have := h (k0, s) (by simp)
    simp only at this
    simp [get, this]

theorem insert_key_mem (kt vt : KT) (m : MMap) (k v : Bytes) (e : Bytes × VSet)
    (h : e ∈ (insert kt vt m k v).1) : e.1 = k ∨ ∃ e', e' ∈ m ∧ e'.1 = e.1 := by
  induction m with
  | nil => simp [insert] at h; simp [h]
  | cons a m ih =>
    obtain ⟨k0, s⟩ := a
    simp only [insert] at h
    cases hc : cmp kt k k0 <;> simp only [hc] at h
    · rcases List.mem_cons.1 h with rfl | h
      · simp
      · exact Or.inr ⟨e, h, rfl⟩
    · rcases List.mem_cons.1 h with rfl | h
      · exact Or.inr ⟨(k0, s), by simp, rfl⟩
      · exact Or.inr ⟨e, List.mem_cons_of_mem _ h, rfl⟩
    · rcases List.mem_cons.1 h with rfl | h
      · exact Or.inr ⟨(k0, s), by simp, rfl⟩
      · rcases ih h with h | ⟨e', he', h'⟩
        · exact Or.inl h
        · exact Or.inr ⟨e', List.mem_cons_of_mem _ he', h'⟩

theorem insert_valid (kt vt : KT) (m : MMap) (k v : Bytes)
    (hval : KeysValid kt vt m) (hkv : valid kt k = true) (hvv : valid vt v = true) :
    KeysValid kt vt (insert kt vt m k v).1 := by
  induction m with
  | nil =>
    simp only [insert]
    rw [keysValid_cons]
    exact ⟨⟨hkv, by simpa using hvv⟩, keysValid_nil kt vt⟩
  | cons a m ih =>
    obtain ⟨k0, s⟩ := a
    have h1 := (keysValid_cons kt vt _ _).1 hval
    simp only [insert]
    cases hc : cmp kt k k0 <;> simp only
    · rw [keysValid_cons]
      exact ⟨⟨hkv, by simpa using hvv⟩, hval⟩
    · rw [keysValid_cons]
      refine ⟨⟨h1.1.1, ?_⟩, h1.2⟩
      intro x hx
      rcases setInsert_mem vt s v x hx with rfl | hx
      · exact hvv
      · exact h1.1.2 x hx
    · rw [keysValid_cons]
      exact ⟨h1.1, ih h1.2⟩

theorem remove_key_mem (kt vt : KT) (m : MMap) (k v : Bytes) (e : Bytes × VSet)
    (h : e ∈ (remove kt vt m k v).1) : ∃ e', e' ∈ m ∧ e'.1 = e.1 := by
  induction m with
  | nil => simp [remove] at h
  | cons a m ih =>
    obtain ⟨k0, s⟩ := a
    simp only [remove] at h
    cases hc : cmp kt k k0 <;> simp only [hc] at h
    · exact ⟨e, h, rfl⟩
    · split at h
      · exact ⟨e, List.mem_cons_of_mem _ h, rfl⟩
      · rcases List.mem_cons.1 h with rfl | h
        · exact ⟨(k0, s), by simp, rfl⟩
        · exact ⟨e, List.mem_cons_of_mem _ h, rfl⟩
    · rcases List.mem_cons.1 h with rfl | h
      · exact ⟨(k0, s), by simp, rfl⟩
      · obtain ⟨e', he', h'⟩ := ih h
        exact ⟨e', List.mem_cons_of_mem _ he', h'⟩

theorem remove_valid (kt vt : KT) (m : MMap) (k v : Bytes) (hval : KeysValid kt vt m) :
    KeysValid kt vt (remove kt vt m k v).1 := by
  induction m with
  | nil => simp only [remove]; exact keysValid_nil kt vt
  | cons a m ih =>
    obtain ⟨k0, s⟩ := a
    have h1 := (keysValid_cons kt vt _ _).1 hval
    simp only [remove]
    cases hc : cmp kt k k0 <;> simp only
    · exact hval
    · split
      · exact h1.2
      · rw [keysValid_cons]
        exact ⟨⟨h1.1.1, fun x hx => h1.1.2 x (setRemove_mem vt s v x hx)⟩, h1.2⟩
    · rw [keysValid_cons]
      exact ⟨h1.1, ih h1.2⟩

theorem removeAll_key_mem (kt : KT) (m : MMap) (k : Bytes) (e : Bytes × VSet)
    (h : e ∈ (removeAll kt m k).1) : e ∈ m := by
  induction m with
  | nil => simp [removeAll] at h
  | cons a m ih =>
    obtain ⟨k0, s⟩ := a
    simp only [removeAll] at h
    cases hc : cmp kt k k0 <;> simp only [hc] at h
    · exact h
    · exact List.mem_cons_of_mem _ h
    · rcases List.mem_cons.1 h with rfl | h
      · simp
      · exact List.mem_cons_of_mem _ (ih h)

/-! ### the laws -/


theorem insert_wf (kt vt : KT) (hk : CmpLaws kt) (hv : CmpLaws vt) (m : MMap) (k v : Bytes)
    (h : WF kt vt m) (hval : KeysValid kt vt m) (hkv : valid kt k = true) (hvv : valid vt v = true) :
    WF kt vt (insert kt vt m k v).1 ∧ KeysValid kt vt (insert kt vt m k v).1 := by
  refine ⟨?_, insert_valid kt vt m k v hval hkv hvv⟩
  induction m with
  | nil => simp [insert, WF, SetSorted]
  | cons a m ih =>
    obtain ⟨k0, s⟩ := a
    have hv1 := (keysValid_cons kt vt _ _).1 hval
    have hkeys : ∀ e, e ∈ (k0, s) :: m → valid kt e.1 = true := fun e he => (hval e he).1
    have h1 := (wf_cons_iff kt vt hk _ _ hkeys).1 h
    have hnew := insert_valid kt vt ((k0, s) :: m) k v hval hkv hvv
    simp only [insert] at hnew ⊢
    cases hc : cmp kt k k0 <;> simp only [hc] at hnew ⊢
    · exact (wf_cons_cons kt vt _ _ _).2 ⟨hc, by simp, by simp [SetSorted], h⟩
    · refine (wf_cons_iff kt vt hk _ _ (fun e he => (hnew e he).1)).2
        ⟨setInsert_ne_nil vt s v, setInsert_sorted vt hv s v h1.2.1 hv1.1.2 hvv, h1.2.2.1, h1.2.2.2⟩
    · refine (wf_cons_iff kt vt hk _ _ (fun e he => (hnew e he).1)).2
        ⟨h1.1, h1.2.1, ?_, ih h1.2.2.2 hv1.2⟩
      intro e he
      rcases insert_key_mem kt vt m k v e he with h' | ⟨e', he', h'⟩
      · rw [h']; exact (cl_gt_iff hk hkv hv1.1.1).1 hc
      · rw [← h']; exact h1.2.2.1 e' he'

theorem remove_wf (kt vt : KT) (hk : CmpLaws kt) (hv : CmpLaws vt) (m : MMap) (k v : Bytes)
    (h : WF kt vt m) (hval : KeysValid kt vt m) (hkv : valid kt k = true) (hvv : valid vt v = true) :
    WF kt vt (remove kt vt m k v).1 ∧ KeysValid kt vt (remove kt vt m k v).1 := by
  refine ⟨?_, remove_valid kt vt m k v hval⟩
  induction m with
  | nil => simp [remove, WF]
  | cons a m ih =>
    obtain ⟨k0, s⟩ := a
    have hv1 := (keysValid_cons kt vt _ _).1 hval
    have hkeys : ∀ e, e ∈ (k0, s) :: m → valid kt e.1 = true := fun e he => (hval e he).1
    have h1 := (wf_cons_iff kt vt hk _ _ hkeys).1 h
    have hnew := remove_valid kt vt ((k0, s) :: m) k v hval
    simp only [remove] at hnew ⊢
    cases hc : cmp kt k k0 <;> simp only [hc] at hnew ⊢
    · exact h
    · split
      · exact h1.2.2.2
      · rename_i hne
        rw [if_neg hne] at hnew
        refine (wf_cons_iff kt vt hk _ _ (fun e he => (hnew e he).1)).2
          ⟨by simpa using hne, setRemove_sorted vt hv s v h1.2.1 hv1.1.2, h1.2.2.1, h1.2.2.2⟩
    · refine (wf_cons_iff kt vt hk _ _ (fun e he => (hnew e he).1)).2
        ⟨h1.1, h1.2.1, ?_, ih h1.2.2.2 hv1.2⟩
      intro e he
      obtain ⟨e', he', h'⟩ := remove_key_mem kt vt m k v e he
      rw [← h']; exact h1.2.2.1 e' he'

/-- the returned flag says whether the pair was present; inserting a present pair changes nothing
(no duplicate pairs) -/
theorem insert_present_iff (kt vt : KT) (hk : CmpLaws kt) (hv : CmpLaws vt) (m : MMap) (k v : Bytes)
    (h : WF kt vt m) (hval : KeysValid kt vt m) (hkv : valid kt k = true) (hvv : valid vt v = true) :
    ((insert kt vt m k v).2 = true ↔ Has kt vt m k v) ∧
    ((insert kt vt m k v).2 = true → (insert kt vt m k v).1 = m) := by
  induction m with
  | nil => simp [insert, Has, get]
  | cons a m ih =>
    obtain ⟨k0, s⟩ := a
    have hv1 := (keysValid_cons kt vt _ _).1 hval
    have hkeys : ∀ e, e ∈ (k0, s) :: m → valid kt e.1 = true := fun e he => (hval e he).1
    have h1 := (wf_cons_iff kt vt hk _ _ hkeys).1 h
    simp only [insert, Has, get]
    cases hc : cmp kt k k0 <;> simp only
    · simp
    · exact ⟨setInsert_flag_iff vt hv s v h1.2.1 hv1.1.2 hvv,
        fun hf => by rw [setInsert_unchanged vt s v hf]⟩
    · have := ih h1.2.2.2 hv1.2
      exact ⟨this.1, fun hf => by rw [this.2 hf]⟩

theorem remove_present_iff (kt vt : KT) (hk : CmpLaws kt) (hv : CmpLaws vt) (m : MMap) (k v : Bytes)
    (h : WF kt vt m) (hval : KeysValid kt vt m) (hkv : valid kt k = true) (hvv : valid vt v = true) :
    ((remove kt vt m k v).2 = true ↔ Has kt vt m k v) ∧
    ((remove kt vt m k v).2 = false → (remove kt vt m k v).1 = m) := by
  induction m with
  | nil => simp [remove, Has, get]
  | cons a m ih =>
    obtain ⟨k0, s⟩ := a
    have hv1 := (keysValid_cons kt vt _ _).1 hval
    have hkeys : ∀ e, e ∈ (k0, s) :: m → valid kt e.1 = true := fun e he => (hval e he).1
    have h1 := (wf_cons_iff kt vt hk _ _ hkeys).1 h
    simp only [remove, Has, get]
    cases hc : cmp kt k k0 <;> simp only
    · simp
    · have hflag := setRemove_flag_iff vt hv s v h1.2.1 hv1.1.2 hvv
      split
      · rename_i he
        refine ⟨hflag, fun hf => ?_⟩
        have := setRemove_unchanged vt s v hf
        rw [this] at he
        exact absurd (by simpa using he) h1.1
      · refine ⟨hflag, fun hf => ?_⟩
        rw [setRemove_unchanged vt s v hf]
    · have := ih h1.2.2.2 hv1.2
      exact ⟨this.1, fun hf => by rw [this.2 hf]⟩

/-- `len` counts pairs -/
theorem len_insert (kt vt : KT) (m : MMap) (k v : Bytes) :
    len (insert kt vt m k v).1 = len m + (if (insert kt vt m k v).2 then 0 else 1) := by
  induction m with
  | nil => simp [insert, len]
  | cons a m ih =>
    obtain ⟨k0, s⟩ := a
    cases hc : cmp kt k k0 <;> simp only [insert, hc]
    · simp [len_cons]; omega
    · have := setInsert_length vt s v
      simp only [len_cons]; omega
    · simp only [len_cons]; omega

theorem len_remove (kt vt : KT) (m : MMap) (k v : Bytes) :
    len (remove kt vt m k v).1 + (if (remove kt vt m k v).2 then 1 else 0) = len m := by
  induction m with
  | nil => simp [remove, len]
  | cons a m ih =>
    obtain ⟨k0, s⟩ := a
    cases hc : cmp kt k k0 <;> simp only [remove, hc]
    · simp
    · have := setRemove_length vt s v
      split
      · rename_i he
        have : (setRemove vt s v).1.length = 0 := by
          simpa using he
        simp only [len_cons]; omega
      · simp only [len_cons]; omega
    · simp only [len_cons]; omega

theorem len_removeAll (kt : KT) (m : MMap) (k : Bytes) :
    len (removeAll kt m k).1 + (removeAll kt m k).2.length = len m := by
  induction m with
  | nil => simp [removeAll, len]
  | cons a m ih =>
    obtain ⟨k0, s⟩ := a
    cases hc : cmp kt k k0 <;> simp only [removeAll, hc]
    · simp
    · simp only [len_cons]; omega
    · simp only [len_cons]; omega

/-- values of a key iterate in value order, and a present key has at least one value -/
theorem get_sorted (kt vt : KT) (m : MMap) (k : Bytes) (h : WF kt vt m) :
    SetSorted vt (get kt m k) := by
  induction m with
  | nil => simp [get, SetSorted]
  | cons a m ih =>
    obtain ⟨k0, s⟩ := a
    have h1 : SetSorted vt s ∧ WF kt vt m := by
      cases m with
      | nil => exact ⟨h.2, trivial⟩
      | cons b m => exact ⟨h.2.2.1, h.2.2.2⟩
    simp only [get]
    cases hc : cmp kt k k0 <;> simp only
    · simp [SetSorted]
    · exact h1.1
    · exact ih h1.2

/-- after an insert the pair is present; other keys are untouched -/
theorem get_insert (kt vt : KT) (hk : CmpLaws kt) (hv : CmpLaws vt) (m : MMap) (k v k' : Bytes)
    (h : WF kt vt m) (hval : KeysValid kt vt m) (hkv : valid kt k = true) (hvv : valid vt v = true)
    (hk' : valid kt k' = true) :
    Has kt vt (insert kt vt m k v).1 k v ∧
    (cmp kt k' k ≠ .eq → get kt (insert kt vt m k v).1 k' = get kt m k') := by
  induction m with
  | nil =>
    refine ⟨?_, fun hne => ?_⟩
    · simp only [insert, Has, get, hk.refl k hkv]
      exact ⟨v, by simp, hv.refl v hvv⟩
    · simp only [insert, get]
      cases hc : cmp kt k' k <;> simp_all
  | cons a m ih =>
    obtain ⟨k0, s⟩ := a
    have hv1 := (keysValid_cons kt vt _ _).1 hval
    have hkeys : ∀ e, e ∈ (k0, s) :: m → valid kt e.1 = true := fun e he => (hval e he).1
    have h1 := (wf_cons_iff kt vt hk _ _ hkeys).1 h
    have hk0 := hv1.1.1
    have ih' := ih h1.2.2.2 hv1.2
    simp only [insert, Has]
    cases hc : cmp kt k k0 <;> simp only
    · refine ⟨?_, fun hne => ?_⟩
      · simp only [get, hk.refl k hkv]
        exact ⟨v, by simp, hv.refl v hvv⟩
      · cases hc' : cmp kt k' k with
        | eq => exact absurd hc' hne
        | lt =>
          have := cl_lt_trans hk hk' hkv hk0 hc' hc
          simp [get, hc', this]
        | gt => simp [get, hc']
    · refine ⟨?_, fun hne => ?_⟩
      · simp only [get, hc]
        exact setInsert_has vt hv s v hvv
      · cases hc' : cmp kt k' k0 with
        | eq =>
          have := cl_eq_trans hk hk' hk0 hkv hc' ((hk.eq_symm k k0 hkv hk0).1 hc)
          exact absurd this hne
        | lt => simp [get, hc']
        | gt => simp [get, hc']
    · refine ⟨?_, fun hne => ?_⟩
      · simp only [get, hc]
        exact ih'.1
      · cases hc' : cmp kt k' k0 with
        | eq => simp [get, hc']
        | lt => simp [get, hc']
        | gt => simp only [get, hc']; exact ih'.2 hne

/-- after a remove the pair is absent; a key disappears exactly when its set becomes empty;
other keys are untouched -/
theorem get_remove (kt vt : KT) (hk : CmpLaws kt) (hv : CmpLaws vt) (m : MMap) (k v k' : Bytes)
    (h : WF kt vt m) (hval : KeysValid kt vt m) (hkv : valid kt k = true) (hvv : valid vt v = true)
    (hk' : valid kt k' = true) :
    ¬ Has kt vt (remove kt vt m k v).1 k v ∧
    (cmp kt k' k ≠ .eq → get kt (remove kt vt m k v).1 k' = get kt m k') ∧
    (get kt (remove kt vt m k v).1 k = (setRemove vt (get kt m k) v).1) := by
  have key : (cmp kt k' k ≠ .eq → get kt (remove kt vt m k v).1 k' = get kt m k') ∧
      (get kt (remove kt vt m k v).1 k = (setRemove vt (get kt m k) v).1) := by
    induction m with
    | nil => simp [remove, get, setRemove]
    | cons a m ih =>
      obtain ⟨k0, s⟩ := a
      have hv1 := (keysValid_cons kt vt _ _).1 hval
      have hkeys : ∀ e, e ∈ (k0, s) :: m → valid kt e.1 = true := fun e he => (hval e he).1
      have h1 := (wf_cons_iff kt vt hk _ _ hkeys).1 h
      have hk0 := hv1.1.1
      have ih' := ih h1.2.2.2 hv1.2
      simp only [remove]
      cases hc : cmp kt k k0 <;> simp only
      · refine ⟨fun _ => trivial, ?_⟩
        simp [get, hc, setRemove]
      · have hrest : ∀ k'', valid kt k'' = true → cmp kt k'' k0 ≠ .gt → get kt m k'' = [] := by
          intro k'' hk'' hle
          apply get_nil_of_lt
          intro e he
          exact hk.trans_lt k'' k0 e.1 hk'' hk0 (hval e (List.mem_cons_of_mem _ he)).1 hle
            (h1.2.2.1 e he)
        split
        · rename_i he
          refine ⟨fun hne => ?_, ?_⟩
          · cases hc' : cmp kt k' k0 with
            | eq =>
              have := cl_eq_trans hk hk' hk0 hkv hc' ((hk.eq_symm k k0 hkv hk0).1 hc)
              exact absurd this hne
            | lt => simp [get, hc', hrest k' hk' (by simp [hc'])]
            | gt => simp [get, hc']
          · simp only [get, hc]
            rw [hrest k hkv (by simp [hc])]
            exact (by simpa using he : (setRemove vt s v).1 = []).symm
        · refine ⟨fun hne => ?_, ?_⟩
          · cases hc' : cmp kt k' k0 with
            | eq =>
              have := cl_eq_trans hk hk' hk0 hkv hc' ((hk.eq_symm k k0 hkv hk0).1 hc)
              exact absurd this hne
            | lt => simp [get, hc']
            | gt => simp [get, hc']
          · simp [get, hc]
      · refine ⟨fun hne => ?_, ?_⟩
        · cases hc' : cmp kt k' k0 with
          | eq => simp [get, hc']
          | lt => simp [get, hc']
          | gt => simp only [get, hc']; exact ih'.1 hne
        · simp only [get, hc]; exact ih'.2
  refine ⟨?_, key⟩
  simp only [Has]
  rw [key.2]
  have hs := get_sorted kt vt m k h
  refine setRemove_not_has vt hv _ v hs ?_ hvv
  intro x hx
  clear key hs
  induction m with
  | nil => simp [get] at hx
  | cons a m ih =>
    obtain ⟨k0, s⟩ := a
    have hv1 := (keysValid_cons kt vt _ _).1 hval
    have hw : WF kt vt m := by
      cases m with
      | nil => trivial
      | cons b m => exact h.2.2.2
    simp only [get] at hx
    cases hc : cmp kt k k0 <;> simp only [hc] at hx
    · simp at hx
    · exact hv1.1.2 x hx
    · exact ih hw hv1.2 hx

theorem get_removeAll (kt vt : KT) (hk : CmpLaws kt) (m : MMap) (k k' : Bytes)
    (h : WF kt vt m) (hval : KeysValid kt vt m) (hkv : valid kt k = true) (hk' : valid kt k' = true) :
    (removeAll kt m k).2 = get kt m k ∧ get kt (removeAll kt m k).1 k = [] ∧
    (cmp kt k' k ≠ .eq → get kt (removeAll kt m k).1 k' = get kt m k') ∧ WF kt vt (removeAll kt m k).1 := by
  induction m with
  | nil => simp [removeAll, get, WF]
  | cons a m ih =>
    obtain ⟨k0, s⟩ := a
    have hv1 := (keysValid_cons kt vt _ _).1 hval
    have hkeys : ∀ e, e ∈ (k0, s) :: m → valid kt e.1 = true := fun e he => (hval e he).1
    have h1 := (wf_cons_iff kt vt hk _ _ hkeys).1 h
    have hk0 := hv1.1.1
    have ih' := ih h1.2.2.2 hv1.2
    simp only [removeAll]
    cases hc : cmp kt k k0 <;> simp only
    · exact ⟨by simp [get, hc], by simp [get, hc], fun _ => trivial, h⟩
    · have hrest : ∀ k'', valid kt k'' = true → cmp kt k'' k0 ≠ .gt → get kt m k'' = [] := by
        intro k'' hk'' hle
        apply get_nil_of_lt
        intro e he
        exact hk.trans_lt k'' k0 e.1 hk'' hk0 (hval e (List.mem_cons_of_mem _ he)).1 hle
          (h1.2.2.1 e he)
      refine ⟨by simp [get, hc], hrest k hkv (by simp [hc]), fun hne => ?_, h1.2.2.2⟩
      cases hc' : cmp kt k' k0 with
      | eq =>
        have := cl_eq_trans hk hk' hk0 hkv hc' ((hk.eq_symm k k0 hkv hk0).1 hc)
        exact absurd this hne
      | lt => simp [get, hc', hrest k' hk' (by simp [hc'])]
      | gt => simp [get, hc']
    · refine ⟨by simp only [get, hc]; exact ih'.1, by simp only [get, hc]; exact ih'.2.1,
        fun hne => ?_, ?_⟩
      · cases hc' : cmp kt k' k0 with
        | eq => simp [get, hc']
        | lt => simp [get, hc']
        | gt => simp only [get, hc']; exact ih'.2.2.1 hne
      · have hnewv : ∀ e, e ∈ (k0, s) :: (removeAll kt m k).1 → valid kt e.1 = true := by
          intro e he
          rcases List.mem_cons.1 he with rfl | he
          · exact hk0
          · exact (hv1.2 e (removeAll_key_mem kt m k e he)).1
        refine (wf_cons_iff kt vt hk _ _ hnewv).2 ⟨h1.1, h1.2.1, ?_, ih'.2.2.2⟩
        intro e he
        exact h1.2.2.1 e (removeAll_key_mem kt m k e he)

end Redb.MultiSpec
