import RedbModel.Model.CloseGuard
/-!
Lemmas for the close-guard interleaving model (property C20): executions, the list reading of
`callAfterClose`, the inductive invariant of the guarded model, the latch lemma (all variants) and
the drain lemma behind the progress statement.
-/
namespace Redb.CloseGuard

/-! ## executions -/

theorem exec_iff {v : Variant} {s s' : Sys} {tr : List Action} :
    Exec v s tr s' ↔ exec v s tr = some s' := by
  constructor
  · intro h
    induction h with
    | nil s => rfl
    | cons hs _ ih => simp only [exec]; rw [hs]; exact ih
  · intro h
    induction tr generalizing s with
    | nil => simp only [exec, Option.some.injEq] at h; subst h; exact .nil _
    | cons a tr ih =>
      simp only [exec] at h
      cases hs : step v s a with
      | none => rw [hs] at h; cases h
      | some s1 => rw [hs] at h; exact .cons hs (ih h)

theorem exec_append {v : Variant} {s s' s'' : Sys} {tr1 tr2 : List Action}
    (h1 : Exec v s tr1 s') (h2 : Exec v s' tr2 s'') : Exec v s (tr1 ++ tr2) s'' := by
  induction h1 with
  | nil s => exact h2
  | cons hs _ ih => exact .cons hs (ih h2)

theorem reachable_exec {v : Variant} {s s' : Sys} {tr : List Action}
    (hr : Reachable v s) (h : Exec v s tr s') : Reachable v s' := by
  induction h with
  | nil s => exact hr
  | cons hs _ ih => exact ih (.step hr hs)

theorem reachable_iff_exec {v : Variant} {s : Sys} :
    Reachable v s ↔ ∃ tr, Exec v init tr s := by
  constructor
  · intro h
    induction h with
    | init => exact ⟨[], .nil _⟩
    | step _ hs ih =>
      obtain ⟨tr, htr⟩ := ih
      exact ⟨tr ++ [_], exec_append htr (.cons hs (.nil _))⟩
  · rintro ⟨tr, h⟩
    exact reachable_exec .init h

/-! ## the event log -/

theorem callAfterClose_iff (l : List Ev) :
    callAfterClose l = true ↔ ∃ pre post t, l = pre ++ .close :: post ∧ Ev.call t ∈ post := by
  induction l with
  | nil => simp [callAfterClose]
  | cons e l ih =>
    cases e with
    | close =>
      simp only [callAfterClose, List.any_eq_true, bne_iff_ne, ne_eq]
      constructor
      · rintro ⟨e, he, hne⟩
        cases e with
        | close => exact absurd rfl hne
        | call t => exact ⟨[], l, t, rfl, he⟩
      · rintro ⟨pre, post, t, e, ht⟩
        cases pre with
        | nil =>
          simp only [List.nil_append, List.cons.injEq, true_and] at e
          subst e
          exact ⟨_, ht, by simp⟩
        | cons x pre =>
          simp only [List.cons_append, List.cons.injEq] at e
          refine ⟨.call t, ?_, by simp⟩
          rw [e.2]; simp [ht]
    | call u =>
      simp only [callAfterClose, ih]
      constructor
      · rintro ⟨pre, post, t, e, ht⟩
        exact ⟨.call u :: pre, post, t, by simp [e], ht⟩
      · rintro ⟨pre, post, t, e, ht⟩
        cases pre with
        | nil => simp at e
        | cons x pre =>
          simp only [List.cons_append, List.cons.injEq] at e
          exact ⟨pre, post, t, e.2, ht⟩

theorem callAfterClose_calls (cs : List Nat) (l : List Ev) :
    callAfterClose (cs.map Ev.call ++ l) = callAfterClose l := by
  induction cs with
  | nil => rfl
  | cons c cs ih => simpa [callAfterClose] using ih

theorem count_close_calls (cs : List Nat) : (cs.map Ev.call).count .close = 0 := by
  induction cs with
  | nil => rfl
  | cons c cs ih => simp [ih]

/-! ## shared holders -/

/-- `hs` lists the shared holders of the lock, each once, and the lock's count is their number -/
def Holders (pc : Nat → PC) (n : Nat) (hs : List Nat) : Prop :=
  hs.Nodup ∧ hs.length = n ∧ ∀ t, t ∈ hs ↔ (pc t).holds = true

theorem holders_same {pc : Nat → PC} {n : Nat} {hs : List Nat} (h : Holders pc n hs) (t : Nat)
    (p : PC) (hp : p.holds = (pc t).holds) : Holders (setPc pc t p) n hs := by
  refine ⟨h.1, h.2.1, fun u => ?_⟩
  by_cases hu : u = t
  · subst hu; simp [setPc, hp, h.2.2]
  · simp [setPc, hu, h.2.2]

theorem holders_acquire {pc : Nat → PC} {n : Nat} {hs : List Nat} (h : Holders pc n hs) (t : Nat)
    (p : PC) (hp : p.holds = true) (ht : (pc t).holds = false) :
    Holders (setPc pc t p) (n + 1) (t :: hs) := by
  have hnot : t ∉ hs := by rw [h.2.2, ht]; simp
  refine ⟨List.nodup_cons.2 ⟨hnot, h.1⟩, by simp [h.2.1], fun u => ?_⟩
  by_cases hu : u = t
  · subst hu; simp [setPc, hp]
  · simp [setPc, hu, h.2.2]

theorem holders_release {pc : Nat → PC} {n : Nat} {hs : List Nat} (h : Holders pc n hs) (t : Nat)
    (p : PC) (hp : p.holds = false) (ht : (pc t).holds = true) :
    Holders (setPc pc t p) (n - 1) (hs.erase t) := by
  have hmem : t ∈ hs := (h.2.2 t).2 ht
  refine ⟨h.1.erase t, by rw [List.length_erase_of_mem hmem, h.2.1], fun u => ?_⟩
  rw [h.1.mem_erase_iff]
  by_cases hu : u = t
  · subst hu; simp [setPc, hp]
  · simp [setPc, hu, h.2.2]

theorem holders_zero {pc : Nat → PC} {hs : List Nat} (h : Holders pc 0 hs) (t : Nat) :
    (pc t).holds = false := by
  have : hs = [] := List.eq_nil_of_length_eq_zero h.2.1
  have := h.2.2 t
  simp_all

/-! ## the invariant of the guarded model -/

def CPC.pastFlags : CPC → Bool
  | .start => false
  | _ => true

def CPC.pastAcquire : CPC → Bool
  | .exclusive | .closedB | .finished => true
  | _ => false

def CPC.pastClose : CPC → Bool
  | .closedB | .finished => true
  | _ => false

structure Inv (s : Sys) : Prop where
  holders : ∃ hs, Holders s.pc s.readers hs
  /-- every call holds the guard from its latch test until it has left the backend -/
  guardedPc : ∀ t, (s.pc t).committed = true → (s.pc t).holds = true
  writer : s.writer = s.cpc.holdsExclusive
  excl : s.writer = true → s.readers = 0
  closed : s.backendClosed = s.cpc.pastClose
  flag : s.closedFlag = s.cpc.pastFlags
  log : ∃ cs : List Nat, s.log = cs.map Ev.call ++ (if s.backendClosed then [.close] else [])
  /-- once the closer has the lock exclusively, no call is between its latch test and its return,
  and that stays so for ever -/
  quiet : s.cpc.pastAcquire = true → ∀ t, (s.pc t).committed = false

theorem inv_init : Inv init := by
  refine ⟨⟨[], ?_⟩, ?_, rfl, ?_, rfl, rfl, ⟨[], rfl⟩, ?_⟩
  · exact ⟨List.nodup_nil, rfl, fun t => by simp [init, PC.holds]⟩
  · intro t; simp [init, PC.committed]
  · intro _; rfl
  · intro h; simp [init, CPC.pastAcquire] at h

theorem committed_setPc_other {pc : Nat → PC} {t u : Nat} {p : PC} (h : u ≠ t) :
    setPc pc t p u = pc u := by simp [setPc, h]

theorem setPc_self {pc : Nat → PC} {t : Nat} {p : PC} : setPc pc t p t = p := by simp [setPc]

/-! ## the step function, case by case -/

inductive StepI (v : Variant) (s : Sys) : Action → Sys → Prop where
  | acquire (t : Nat) : s.pc t = .idle → v.mayGuard = true → s.writer = false →
      StepI v s (.caller t .acquireShared)
        { s with readers := s.readers + 1, pc := setPc s.pc t .holdsShared }
  | refuseG (t : Nat) : s.pc t = .holdsShared → s.latchShut = true →
      StepI v s (.caller t .testLatch)
        { s with readers := s.readers - 1, pc := setPc s.pc t .refused }
  | passG (t : Nat) : s.pc t = .holdsShared → s.latchShut = false →
      StepI v s (.caller t .testLatch) { s with pc := setPc s.pc t (.passedLatch true) }
  | refuseU (t : Nat) : s.pc t = .idle → v.maySkip = true → s.latchShut = true →
      StepI v s (.caller t .testLatch) { s with pc := setPc s.pc t .refused }
  | passU (t : Nat) : s.pc t = .idle → v.maySkip = true → s.latchShut = false →
      StepI v s (.caller t .testLatch) { s with pc := setPc s.pc t (.passedLatch false) }
  | enter (t : Nat) (g : Bool) : s.pc t = .passedLatch g →
      StepI v s (.caller t .enterBackend)
        { s with log := s.log ++ [.call t], pc := setPc s.pc t (.inBackend g) }
  | leave (t : Nat) (g failed : Bool) : s.pc t = .inBackend g →
      StepI v s (.caller t (.leaveBackend failed))
        { s with
          readers := if g then s.readers - 1 else s.readers
          ioFailed := s.ioFailed || failed
          pc := setPc s.pc t .done }
  | nextDone (t : Nat) : s.pc t = .done →
      StepI v s (.caller t .next) { s with pc := setPc s.pc t .idle }
  | nextRefused (t : Nat) : s.pc t = .refused →
      StepI v s (.caller t .next) { s with pc := setPc s.pc t .idle }
  | setFlags : s.cpc = .start →
      StepI v s (.closer .setFlags) { s with closedFlag := true, ioFailed := true, cpc := .flagged }
  | acquireX : s.cpc = .flagged → s.readers = 0 →
      StepI v s (.closer .acquireExclusive) { s with writer := true, cpc := .exclusive }
  | close : s.cpc = .exclusive →
      StepI v s (.closer .backendClose)
        { s with backendClosed := true, log := s.log ++ [.close], cpc := .closedB }
  | releaseX : s.cpc = .closedB →
      StepI v s (.closer .releaseExclusive) { s with writer := false, cpc := .finished }

theorem stepI_of_step {v : Variant} {s s' : Sys} {a : Action} (h : StepV v s a s') :
    StepI v s a s' := by
  unfold StepV at h
  cases a with
  | caller t a =>
    cases a <;> cases hpc : s.pc t <;> simp only [step, hpc] at h
    all_goals first
      | cases h
      | (split at h <;> first | cases h | (split at h <;> cases h))
    all_goals first | exact .nextRefused _ hpc | (constructor <;> simp_all)
  | closer a =>
    cases a <;> cases hc : s.cpc <;> simp only [step, hc] at h
    all_goals first
      | cases h
      | (split at h <;> first | cases h | (split at h <;> cases h))
    all_goals (constructor <;> simp_all)

theorem guardedPc_setPc {pc : Nat → PC} {t : Nat} {p : PC}
    (hg : ∀ u, (pc u).committed = true → (pc u).holds = true)
    (hp : p.committed = true → p.holds = true) :
    ∀ u, (setPc pc t p u).committed = true → (setPc pc t p u).holds = true := by
  intro u
  by_cases hu : u = t
  · subst hu; simpa [setPc] using hp
  · simpa [setPc, hu] using hg u

theorem quiet_setPc {pc : Nat → PC} {t : Nat} {p : PC} (hq : ∀ u, (pc u).committed = false)
    (hp : p.committed = false) : ∀ u, (setPc pc t p u).committed = false := by
  intro u
  by_cases hu : u = t
  · subst hu; simpa [setPc] using hp
  · simpa [setPc, hu] using hq u

theorem pastClose_pastAcquire {c : CPC} (h : c.pastClose = true) : c.pastAcquire = true := by
  cases c <;> simp_all [CPC.pastClose, CPC.pastAcquire]

theorem pastAcquire_pastFlags {c : CPC} (h : c.pastAcquire = true) : c.pastFlags = true := by
  cases c <;> simp_all [CPC.pastFlags, CPC.pastAcquire]

/-- the invariant is inductive -/
theorem inv_step {s s' : Sys} {a : Action} (hi : Inv s) (h : StepV .guarded s a s') : Inv s' := by
  obtain ⟨⟨hs, hh⟩, hg, hw, hx, hc, hf, ⟨cs, hl⟩, hq⟩ := hi
  cases stepI_of_step h with
  | acquire t hpc _ hwr =>
    refine ⟨⟨t :: hs, holders_acquire hh t _ rfl (by simp [hpc, PC.holds])⟩,
      guardedPc_setPc hg (by simp [PC.committed]), hw, ?_, hc, hf, ⟨cs, hl⟩,
      fun hp => quiet_setPc (hq hp) rfl⟩
    intro hwt; simp [hwr] at hwt
  | refuseG t hpc _ =>
    refine ⟨⟨hs.erase t, holders_release hh t _ rfl (by simp [hpc, PC.holds])⟩,
      guardedPc_setPc hg (by simp [PC.committed]), hw, ?_, hc, hf, ⟨cs, hl⟩,
      fun hp => quiet_setPc (hq hp) rfl⟩
    intro hwt; simp [hx hwt]
  | passG t hpc hlatch =>
    refine ⟨⟨hs, holders_same hh t _ (by simp [hpc, PC.holds])⟩,
      guardedPc_setPc hg (by simp [PC.holds]), hw, hx, hc, hf, ⟨cs, hl⟩, ?_⟩
    intro hp
    have := pastAcquire_pastFlags hp
    simp [Sys.latchShut, hf, this] at hlatch
  | refuseU t _ hv _ => simp [Variant.maySkip] at hv
  | passU t _ hv _ => simp [Variant.maySkip] at hv
  | enter t g hpc =>
    have hnq : s.cpc.pastAcquire = false := by
      cases hpa : s.cpc.pastAcquire with
      | false => rfl
      | true => have := hq hpa t; simp [hpc, PC.committed] at this
    have hbc : s.backendClosed = false := by
      cases hb : s.backendClosed with
      | false => rfl
      | true => rw [hc] at hb; rw [pastClose_pastAcquire hb] at hnq; cases hnq
    have hgt := hg t
    refine ⟨⟨hs, holders_same hh t _ (by simp [hpc, PC.holds])⟩,
      guardedPc_setPc hg (by simpa [hpc, PC.committed, PC.holds] using hgt), hw, hx, hc, hf,
      ⟨cs ++ [t], ?_⟩, ?_⟩
    · simp [hl, hbc]
    · intro hp; simp [hnq] at hp
  | leave t g failed hpc =>
    have hgt : g = true := by simpa [hpc, PC.committed, PC.holds] using hg t
    subst hgt
    refine ⟨⟨hs.erase t, holders_release hh t _ rfl (by simp [hpc, PC.holds])⟩,
      guardedPc_setPc hg (by simp [PC.committed]), hw, ?_, hc, hf, ⟨cs, hl⟩,
      fun hp => quiet_setPc (hq hp) rfl⟩
    intro hwt; simp [hx hwt]
  | nextDone t hpc =>
    exact ⟨⟨hs, holders_same hh t _ (by simp [hpc, PC.holds])⟩,
      guardedPc_setPc hg (by simp [PC.committed]), hw, hx, hc, hf, ⟨cs, hl⟩,
      fun hp => quiet_setPc (hq hp) rfl⟩
  | nextRefused t hpc =>
    exact ⟨⟨hs, holders_same hh t _ (by simp [hpc, PC.holds])⟩,
      guardedPc_setPc hg (by simp [PC.committed]), hw, hx, hc, hf, ⟨cs, hl⟩,
      fun hp => quiet_setPc (hq hp) rfl⟩
  | setFlags hcpc =>
    refine ⟨⟨hs, hh⟩, hg, ?_, ?_, ?_, rfl, ⟨cs, hl⟩, ?_⟩
    · simpa [hcpc, CPC.holdsExclusive] using hw
    · intro hwt; exact hx hwt
    · simpa [hcpc, CPC.pastClose] using hc
    · intro hp; simp [CPC.pastAcquire] at hp
  | acquireX hcpc hr =>
    refine ⟨⟨hs, hh⟩, hg, rfl, fun _ => hr, ?_, ?_, ⟨cs, hl⟩, ?_⟩
    · simpa [hcpc, CPC.pastClose] using hc
    · simpa [hcpc, CPC.pastFlags] using hf
    · intro _ t
      have h0 : (s.pc t).holds = false := holders_zero (hr ▸ hh) t
      cases hcm : (s.pc t).committed with
      | false => rfl
      | true => rw [hg t hcm] at h0; cases h0
  | close hcpc =>
    have hbc : s.backendClosed = false := by simpa [hcpc, CPC.pastClose] using hc
    refine ⟨⟨hs, hh⟩, hg, ?_, hx, rfl, ?_, ⟨cs, ?_⟩, fun _ => hq (by simp [hcpc, CPC.pastAcquire])⟩
    · simpa [hcpc, CPC.holdsExclusive] using hw
    · simpa [hcpc, CPC.pastFlags] using hf
    · simp [hl, hbc]
  | releaseX hcpc =>
    refine ⟨⟨hs, hh⟩, hg, rfl, ?_, ?_, ?_, ⟨cs, hl⟩, fun _ => hq (by simp [hcpc, CPC.pastAcquire])⟩
    · intro hwt; cases hwt
    · simpa [hcpc, CPC.pastClose] using hc
    · simpa [hcpc, CPC.pastFlags] using hf

theorem inv_reachable {s : Sys} (h : Reachable .guarded s) : Inv s := by
  induction h with
  | init => exact inv_init
  | step _ hs ih => exact inv_step ih hs

/-! ## the latch (all variants) -/

/-- once the flags are set, a thread that is not past the latch test never gets past it -/
theorem latch_step {v : Variant} {s s' : Sys} {a : Action} {t : Nat} (h : StepV v s a s')
    (hf : s.closedFlag = true) (hb : (s.pc t).committed = false) :
    s'.closedFlag = true ∧ (s'.pc t).committed = false ∧ a ≠ .caller t .enterBackend ∧
      s'.log.count (.call t) = s.log.count (.call t) := by
  cases stepI_of_step h with
  | enter u g hpc =>
    have hu : t ≠ u := by rintro rfl; simp [hpc, PC.committed] at hb
    have hu' : u ≠ t := fun e => hu e.symm
    simp [setPc, hu, hu', hf, hb, List.count_append]
  | passG u hpc hl => simp [Sys.latchShut, hf] at hl
  | passU u hpc _ hl => simp [Sys.latchShut, hf] at hl
  | acquire u | refuseG u | refuseU u | leave u | nextDone u | nextRefused u =>
    refine ⟨hf, ?_, by simp, rfl⟩
    by_cases hu : t = u
    · subst hu; simp [setPc, PC.committed]
    · simp [setPc, hu, hb]
  | setFlags | acquireX | releaseX => exact ⟨by simp [hf], hb, by simp, rfl⟩
  | close => exact ⟨hf, hb, by simp, by simp [List.count_append]⟩

theorem latch_exec {v : Variant} {s s' : Sys} {tr : List Action} {t : Nat} (h : Exec v s tr s')
    (hf : s.closedFlag = true) (hb : (s.pc t).committed = false) :
    s'.closedFlag = true ∧ (s'.pc t).committed = false ∧ Action.caller t .enterBackend ∉ tr ∧
      s'.log.count (.call t) = s.log.count (.call t) := by
  induction h with
  | nil s => exact ⟨hf, hb, by simp, rfl⟩
  | cons hs _ ih =>
    obtain ⟨h1, h2, h3, h4⟩ := latch_step hs hf hb
    obtain ⟨i1, i2, i3, i4⟩ := ih h1 h2
    refine ⟨i1, i2, ?_, i4.trans h4⟩
    simp only [List.mem_cons, not_or]
    exact ⟨fun e => h3 e.symm, i3⟩

/-! ## draining the shared holders -/

/-- the caller actions that wait for nothing -/
def CAct.nonBlocking : CAct → Bool
  | .testLatch | .enterBackend | .leaveBackend _ => true
  | _ => false

theorem holders_pop {pc : Nat → PC} {n t : Nat} {hs : List Nat} (h : Holders pc n (t :: hs))
    (p : PC) (hp : p.holds = false) : Holders (setPc pc t p) (n - 1) hs := by
  obtain ⟨hnd, hlen, hm⟩ := h
  have hnot : t ∉ hs := (List.nodup_cons.1 hnd).1
  refine ⟨(List.nodup_cons.1 hnd).2, by simp at hlen; omega, fun u => ?_⟩
  by_cases hu : u = t
  · subst hu; simp [setPc, hp, hnot]
  · have := hm u
    simp only [List.mem_cons, hu, false_or] at this
    simp [setPc, hu, this]

/-- a shared holder finishes its call in at most two steps of its own, none of which can be
blocked, once the flags are set (`holdsShared` is then refused at once) -/
theorem holder_finishes {v : Variant} {s : Sys} {t : Nat} {hs : List Nat}
    (hf : s.closedFlag = true) (hh : Holders s.pc s.readers (t :: hs)) :
    ∃ tr s', Exec v s tr s' ∧ tr.length ≤ 2 ∧ Holders s'.pc s'.readers hs ∧ s'.cpc = s.cpc ∧
      s'.closedFlag = true ∧ s'.writer = s.writer ∧
      ∀ a ∈ tr, ∃ c, a = .caller t c ∧ c.nonBlocking = true := by
  have ht : (s.pc t).holds = true := (hh.2.2 t).1 (by simp)
  cases hpc : s.pc t with
  | idle => simp [hpc, PC.holds] at ht
  | done => simp [hpc, PC.holds] at ht
  | refused => simp [hpc, PC.holds] at ht
  | holdsShared =>
    refine ⟨[.caller t .testLatch],
      { s with readers := s.readers - 1, pc := setPc s.pc t .refused }, exec_iff.2 ?_, by simp,
      holders_pop hh _ rfl, rfl, hf, rfl, ?_⟩
    · simp [exec, step, hpc, Sys.latchShut, hf]
    · intro a ha; simp at ha; exact ⟨_, ha, rfl⟩
  | inBackend g =>
    have hgt : g = true := by simpa [hpc, PC.holds] using ht
    subst hgt
    refine ⟨[.caller t (.leaveBackend false)],
      { s with readers := s.readers - 1, ioFailed := s.ioFailed || false,
               pc := setPc s.pc t .done }, exec_iff.2 ?_, by simp,
      holders_pop hh _ rfl, rfl, hf, rfl, ?_⟩
    · simp [exec, step, hpc]
    · intro a ha; simp at ha; exact ⟨_, ha, rfl⟩
  | passedLatch g =>
    have hgt : g = true := by simpa [hpc, PC.holds] using ht
    subst hgt
    refine ⟨[.caller t .enterBackend, .caller t (.leaveBackend false)],
      { s with readers := s.readers - 1, ioFailed := s.ioFailed || false,
               log := s.log ++ [.call t],
               pc := setPc (setPc s.pc t (.inBackend true)) t .done }, exec_iff.2 ?_, by simp,
      ?_, rfl, hf, rfl, ?_⟩
    · simp [exec, step, hpc, setPc]
    · exact holders_pop (holders_same hh t (.inBackend true) (by simp [hpc, PC.holds])) _ rfl
    · intro a ha
      simp only [List.mem_cons, List.not_mem_nil, or_false] at ha
      rcases ha with rfl | rfl <;> exact ⟨_, rfl, rfl⟩

/-- all shared holders finish: at most two steps each, all of them non-blocking steps of threads
that hold the guard now -/
theorem drain {v : Variant} (hs : List Nat) : ∀ (s : Sys), s.closedFlag = true →
    Holders s.pc s.readers hs →
    ∃ tr s', Exec v s tr s' ∧ tr.length ≤ 2 * hs.length ∧ s'.readers = 0 ∧ s'.cpc = s.cpc ∧
      s'.closedFlag = true ∧ s'.writer = s.writer ∧
      ∀ a ∈ tr, ∃ t c, a = .caller t c ∧ (s.pc t).holds = true ∧ c.nonBlocking = true := by
  induction hs with
  | nil =>
    intro s hf hh
    exact ⟨[], s, .nil _, by simp, by simpa using hh.2.1.symm, rfl, hf, rfl, by simp⟩
  | cons t hs ih =>
    intro s hf hh
    obtain ⟨tr1, s1, e1, l1, hh1, c1, f1, w1, a1⟩ := holder_finishes (v := v) hf hh
    obtain ⟨tr2, s2, e2, l2, r2, c2, f2, w2, a2⟩ := ih s1 f1 hh1
    refine ⟨tr1 ++ tr2, s2, exec_append e1 e2, by simp; omega, r2, c2.trans c1, f2, w2.trans w1, ?_⟩
    intro a ha
    rcases List.mem_append.1 ha with ha | ha
    · obtain ⟨c, rfl, hc⟩ := a1 a ha
      exact ⟨t, c, rfl, (hh.2.2 t).1 (by simp), hc⟩
    · obtain ⟨u, c, rfl, hu, hc⟩ := a2 a ha
      refine ⟨u, c, rfl, ?_, hc⟩
      have : u ∈ hs := (hh1.2.2 u).2 hu
      exact (hh.2.2 u).1 (by simp [this])

/-- a non-blocking action of a thread that holds the guard is enabled whatever the other threads
and the closer do: nothing in `step` makes it wait -/
theorem holder_never_waits {v : Variant} {s : Sys} {t : Nat} (h : (s.pc t).holds = true) :
    ∃ c s', c.nonBlocking = true ∧ StepV v s (.caller t c) s' := by
  cases hpc : s.pc t with
  | idle => simp [hpc, PC.holds] at h
  | done => simp [hpc, PC.holds] at h
  | refused => simp [hpc, PC.holds] at h
  | holdsShared =>
    cases hl : s.latchShut with
    | true => exact ⟨.testLatch, _, rfl, by simp [StepV, step, hpc, hl]; rfl⟩
    | false => exact ⟨.testLatch, _, rfl, by simp [StepV, step, hpc, hl]; rfl⟩
  | passedLatch g => exact ⟨.enterBackend, _, rfl, by simp [StepV, step, hpc]; rfl⟩
  | inBackend g => exact ⟨.leaveBackend false, _, rfl, by simp [StepV, step, hpc]; rfl⟩

theorem exec_log_witness {v : Variant} {tr : List Action} {l : List Ev}
    (h : (exec v init tr).map Sys.log = some l) : ∃ s, Exec v init tr s ∧ s.log = l := by
  cases he : exec v init tr with
  | none => rw [he] at h; cases h
  | some s =>
    rw [he] at h
    simp only [Option.map_some, Option.some.injEq] at h
    exact ⟨s, exec_iff.2 he, h⟩

end Redb.CloseGuard
