import RedbModel.Lemmas.Life2Set
/-! The steps of a non-durable commit after the data tree: reclaiming unpersisted pages named by
the records in the scanned range, system tree and publication. -/
namespace Redb.Life2

/-- `reclaimStep` with the selection of the reclaimed records abstracted: the in-memory data-freed
records chosen by `fD` and the SYSTEM_FREED records chosen by `fS` are removed, the pages they name
are released -/
def reclaimGen (s : St) (fD fS : Nat × Nat → Bool) (un : List Nat) : St :=
  { s with
    alloc := diff s.alloc (pagesOf (s.udfreed.filter fD) ++ pagesOf (s.sfreed.filter fS)),
    udfreed := s.udfreed.filter (fun e => !fD e),
    sfreed := s.sfreed.filter (fun e => !fS e),
    upages := diff s.upages (pagesOf (s.udfreed.filter fD) ++ pagesOf (s.sfreed.filter fS)),
    pca := diff s.pca (pagesOf (s.udfreed.filter fD) ++ pagesOf (s.sfreed.filter fS)),
    ualloc := dropPages s.ualloc (pagesOf (s.udfreed.filter fD) ++ pagesOf (s.sfreed.filter fS)),
    unproc := un }

theorem mem_claimed {s : St} {fD fS : Nat × Nat → Bool} {p : Nat} :
    p ∈ pagesOf (s.udfreed.filter fD) ++ pagesOf (s.sfreed.filter fS) ↔
      (∃ e ∈ s.udfreed, fD e = true ∧ e.2 = p) ∨ (∃ e ∈ s.sfreed, fS e = true ∧ e.2 = p) := by
  simp only [List.mem_append, mem_pagesOf', List.mem_filter]
  grind

/-- the selected records name unpersisted pages only, and no in-memory data-freed record of a
transaction after a pinned pending non-durable commit is selected -/
theorem core_reclaimGen {n : Nat} {dead : List Nat} {s : St} {fD fS : Nat × Nat → Bool} {un : List Nat}
    (h : Core n dead s) (hu : Unp s)
    (hD : ∀ e ∈ s.udfreed, fD e = true →
      e.2 ∈ s.upages ∧ ∀ π ∈ pins s, π.1 ∈ idsOf s.pend → e.1 ≤ π.1)
    (hS : ∀ e ∈ s.sfreed, fS e = true → e.2 ∈ s.upages) :
    Core n dead (reclaimGen s fD fS un) ∧ Unp (reclaimGen s fD fS un) := by
  obtain ⟨nd1, nd2, nd3, nd4, nd5, x1, x2, x3, x4⟩ := owned_nodup_iff.mp h.own_nodup
  have injU := @pagesOf_nodup_inj s.udfreed nd5
  have injS := @pagesOf_nodup_inj s.sfreed nd4
  refine ⟨
    { own_nodup := ?_, alloc_owned := ?_, owned_alloc := ?_, ids := h.ids, rec_le := ?_,
      pin_held := ?_, img_id := h.img_id, img_data := ?_, img_sys := ?_,
      pend_anc := h.pend_anc, last_pend := h.last_pend, pin_pend := h.pin_pend,
      al_nodup := ?_, al_held := ?_, sp_complete := ?_, sp_after := ?_,
      sp_nodup := h.sp_nodup, sp_sorted := h.sp_sorted, sp_sid := h.sp_sid, psp_ctr := h.psp_ctr },
    { up_empty := ?_, up_pins := ?_, up_img := ?_, up_dalloc := ?_ }⟩
  · rw [owned_nodup_iff]
    refine ⟨nd1, nd2, nd3, pagesOf_filter_nodup _ nd4, pagesOf_filter_nodup _ nd5, ?_, ?_, ?_, ?_⟩
    · intro p hp
      have := x1 p hp
      simp only [reclaimGen, mem_pagesOf', List.mem_filter] at *
      grind
    · intro p hp
      have := x2 p hp
      simp only [reclaimGen, mem_pagesOf', List.mem_filter] at *
      grind
    · intro p hp
      have := x3 p hp
      simp only [reclaimGen, mem_pagesOf', List.mem_filter] at *
      grind
    · intro p hp
      have := x4 p
      simp only [reclaimGen, mem_pagesOf', List.mem_filter] at *
      grind
  · intro p hp
    simp only [reclaimGen, mem_diff, mem_claimed] at hp
    have := h.alloc_owned p hp.1
    simp only [mem_owned, reclaimGen, mem_pagesOf', List.mem_filter] at *
    grind
  · intro p hp
    have := h.owned_alloc p
    have := x1 p
    have := x2 p
    have := x3 p
    have := x4 p
    simp only [mem_owned, reclaimGen, mem_diff, mem_claimed] at *
    simp only [mem_pagesOf', List.mem_filter] at *
    grind
  · intro e he
    apply h.rec_le
    simp only [reclaimGen, List.mem_append, List.mem_filter, mem_dropPages] at *
    grind
  · intro π hπ
    have h1 := h.pin_held π hπ
    have h2 := h.pin_pend π hπ
    have h3 := hu.up_pins π hπ
    refine ⟨h1.1, fun p hp => ?_⟩
    have h4 := h1.2 p hp
    have h5 := fun e he hf => (hD e he hf).2 π hπ
    have h6 := fun e he hf => (hD e he hf).1
    simp only [held, reclaimGen, List.mem_filter] at *
    grind
  · intro p hp
    have h3 := h.img_data p hp
    have h4 := hu.up_img.1 p hp
    have h6 := fun e he hf => (hD e he hf).1
    simp only [held, reclaimGen, List.mem_filter] at *
    grind
  · intro p hp
    have h3 := h.img_sys p hp
    have h4 := hu.up_img.2 p hp
    simp only [sysHeld, reclaimGen, List.mem_filter] at *
    grind
  · have := h.al_nodup
    simp only [reclaimGen, nodup_append_iff] at *
    refine ⟨this.1, pagesOf_dropPages_nodup this.2.1, ?_⟩
    intro p hp
    have := this.2.2 p hp
    simp only [mem_pagesOf', mem_dropPages] at *
    grind
  · intro e he
    have h6 := fun e he hf => (hD e he hf).1
    have h7 := hu.up_dalloc e
    have h8 := h.al_held e
    simp only [held, reclaimGen, mem_dropPages, List.mem_filter, List.mem_append, mem_pagesOf'] at *
    grind
  · intro sp hsp hv hd
    have := h.sp_complete sp hsp hv hd
    have := x1
    have := x3
    have := x4
    simp only [reclaimGen, allocatedAfter, mem_dropPages, mem_pagesOf', List.mem_append, List.mem_filter] at *
    grind
  · intro sp hsp e he
    apply h.sp_after sp hsp
    simp only [reclaimGen, List.mem_append, mem_dropPages] at *
    grind
  · intro he
    have := hu.up_empty he
    simp only [reclaimGen] at *
    rw [this]
    rfl
  · intro π hπ hle p hp
    have := hu.up_pins π hπ hle p hp
    simp only [reclaimGen, mem_diff] at *
    grind
  · have := hu.up_img
    simp only [reclaimGen, mem_diff] at *
    grind
  · intro e he
    have := hu.up_dalloc e he
    simp only [reclaimGen, mem_diff] at *
    grind

/- `hlast` is not needed; it is kept so that the statement mirrors the call site -/
set_option linter.unusedVariables false in
theorem core_reclaimStep {n : Nat} {dead : List Nat} {s : St} (h : Core n dead s) (hu : Unp s)
    (hlast : s.lastId < n) :
    Core n dead (reclaimStep s n) ∧ Unp (reclaimStep s n) := by
  apply core_reclaimGen h hu
  · intro e he hf
    simp only [hitD, inRange, Bool.and_eq_true, decide_eq_true_eq] at hf
    refine ⟨hf.2, fun π hπ hpe => ?_⟩
    have := freeUntilND_le_live (n := n) (pin_live hπ) hpe
    omega
  · intro e he hf
    simp only [hitS, Bool.and_eq_true, decide_eq_true_eq, mem_diff] at hf
    exact hf.2.1

theorem core_publishND {n : Nat} {dead : List Nat} {s : St} {t : Txn} {gainD : List Nat} {b : Bool}
    (h : Core n dead s) (hu : Unp s) (hlast : s.lastId < n)
    (hnd : t.sys.Nodup) (hfresh : ∀ p ∈ diff t.sys s.sys, p ∉ s.alloc)
    (hg : ∀ p ∈ gainD, (∀ π ∈ pins s, p ∉ π.2) ∧ p ∉ s.img.data ∧ p ∉ s.img.sys ∧ p ∉ pagesOf s.dalloc) :
    Core n dead (publishND s t n gainD b) ∧ Unp (publishND s t n gainD b) := by
  obtain ⟨nd1, nd2, nd3, nd4, nd5, x1, x2, x3, x4⟩ := owned_nodup_iff.mp h.own_nodup
  have hids := h.ids
  -- gained pages are not owned
  have hfr : ∀ p ∈ diff t.sys s.sys, p ∉ owned s := fun p hp ho => hfresh p hp (h.owned_alloc p ho)
  refine ⟨
    { own_nodup := ?_, alloc_owned := ?_, owned_alloc := ?_, ids := ?_, rec_le := ?_,
      pin_held := ?_, img_id := h.img_id, img_data := h.img_data, img_sys := ?_,
      pend_anc := ?_, last_pend := ?_, pin_pend := ?_,
      al_nodup := h.al_nodup, al_held := h.al_held, sp_complete := h.sp_complete, sp_after := h.sp_after,
      sp_nodup := h.sp_nodup, sp_sorted := h.sp_sorted, sp_sid := h.sp_sid, psp_ctr := h.psp_ctr },
    { up_empty := ?_, up_pins := ?_, up_img := ?_, up_dalloc := ?_ }⟩
  · rw [owned_nodup_iff]
    have hlost : (diff (diff s.sys t.sys) s.upages).Nodup := diff_nodup (diff_nodup nd2)
    refine ⟨nd1, hnd, nd3, ?_, nd5, ?_, ?_, ?_, ?_⟩
    · simp only [publishND, pagesOf_append, pagesOf_tag, nodup_append_iff, mem_diff]
      grind
    · intro p hp
      have := x1 p hp
      have := hfr p
      simp only [publishND, pagesOf_append, pagesOf_tag, List.mem_append, mem_diff, mem_owned] at *
      grind
    · intro p hp
      have := x2 p
      have := hfr p
      simp only [publishND, pagesOf_append, pagesOf_tag, List.mem_append, mem_diff, mem_owned] at *
      grind
    · intro p hp
      have := x3 p hp
      have := x2 p
      simp only [publishND, pagesOf_append, pagesOf_tag, List.mem_append, mem_diff] at *
      grind
    · intro p hp
      have := x4 p
      have := x2 p
      simp only [publishND, pagesOf_append, pagesOf_tag, List.mem_append, mem_diff] at *
      grind
  · intro p hp
    have := h.alloc_owned p
    simp only [publishND, pagesOf_append, pagesOf_tag, List.mem_append, mem_diff, mem_inter, mem_owned] at *
    grind
  · intro p hp
    have := h.owned_alloc p
    have := x1 p
    have := x2 p
    simp only [publishND, pagesOf_append, pagesOf_tag, List.mem_append, mem_diff, mem_inter, mem_owned] at *
    grind
  · simp only [publishND]
    omega
  · intro e he
    have := h.rec_le e
    simp only [publishND, List.mem_append, mem_tag] at *
    grind
  · intro π hπ
    have := h.pin_held π hπ
    refine ⟨?_, this.2⟩
    simp only [publishND]
    omega
  · intro p hp
    have := h.img_sys p hp
    have hup := hu.up_img.2 p hp
    simp only [sysHeld, publishND, List.mem_append, mem_tag, mem_diff]
    rcases this with hs | ⟨e, he, hlt, rfl⟩
    · by_cases hq : p ∈ t.sys
      · exact Or.inl hq
      · exact Or.inr ⟨(n, p), Or.inr ⟨rfl, ⟨hs, hq⟩, hup⟩, by simp only; omega, rfl⟩
    · exact Or.inr ⟨e, Or.inl he, hlt, rfl⟩
  · intro e he
    have := h.pend_anc e
    simp only [publishND, List.mem_append, List.mem_singleton] at *
    grind
  · intro _
    simp [publishND, idsOf]
  · intro π hπ
    have := h.pin_pend π hπ
    simp only [publishND, idsOf, List.map_append, List.mem_append] at *
    grind
  · simp only [publishND]
    omega
  · intro π hπ hle p hp
    have h1 := held_owned ((h.pin_held π hπ).2 p hp)
    have := hfr p
    have := hu.up_pins π hπ hle p hp
    have := (hg p · |>.1 π hπ)
    simp only [publishND, mem_diff, List.mem_append] at *
    grind
  · refine ⟨fun p hp => ?_, fun p hp => ?_⟩
    · have h1 := held_owned (h.img_data p hp)
      have := hfr p
      have := hu.up_img.1 p hp
      have := hg p
      simp only [publishND, mem_diff, List.mem_append] at *
      grind
    · have h1 := sysHeld_owned (h.img_sys p hp)
      have := hfr p
      have := hu.up_img.2 p hp
      have := hg p
      simp only [publishND, mem_diff, List.mem_append] at *
      grind
  · intro e he
    have h1 := held_owned (h.al_held e (List.mem_append_left _ he))
    have := hfr e.2
    have := hu.up_dalloc e he
    have := hg e.2
    have : e.2 ∈ pagesOf s.dalloc := mem_pagesOf'.mpr ⟨e, he, rfl⟩
    simp only [publishND, mem_diff, List.mem_append] at *
    grind

end Redb.Life2
