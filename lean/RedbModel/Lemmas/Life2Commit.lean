import RedbModel.Lemmas.Life2SpOps
import RedbModel.Lemmas.Life2Data
import RedbModel.Lemmas.Life2Durable
import RedbModel.Lemmas.Life2Epi
import RedbModel.Lemmas.Life2ND
/-! A committing write transaction preserves the invariant: the per-step lemmas chained along
`durableCommit` / `nonDurableCommit`, with the facts `commitGuard` provides. -/
namespace Redb.Life2

theorem core_beginWrite {c : Nat} {d : List Nat} {s : St} (h : Core c d s) : Core c d (beginWrite s) := by
  cases h
  constructor <;> assumption

theorem unp_beginWrite {s : St} (h : Unp s) : Unp (beginWrite s) := by
  cases h
  constructor <;> assumption

theorem disjoint_iff {a b : List Nat} : disjoint a b = true ↔ ∀ p ∈ a, p ∉ b := by
  simp [disjoint]

theorem subset_iff {a b : List Nat} : subset a b = true ↔ ∀ p ∈ a, p ∈ b := by
  simp [subset]

/-- every live read reference is on a commit older than the committing transaction -/
theorem live_lt {cur : Nat} {dead : List Nat} {s : St} {n : Nat} (h : Core cur dead s) (hn : s.lastId < n) :
    ∀ i ∈ liveIds s, i < n := by
  intro i hi
  rcases mem_liveIds.mp hi with ⟨π, hπ, rfl⟩ | ⟨e, he, rfl⟩
  · have := (h.pin_held π hπ).1
    omega
  · have := h.pend_anc e he
    have := h.ids.1
    omega

/-- pages that are free are in no pinned snapshot, not in the durable trees and not named by an
allocation record -/
theorem fresh_unpinned {cur : Nat} {dead : List Nat} {s : St} (h : Core cur dead s) {p : Nat} (hp : p ∉ s.alloc) :
    (∀ π ∈ pins s, p ∉ π.2) ∧ p ∉ s.img.data ∧ p ∉ s.img.sys ∧ p ∉ pagesOf s.dalloc := by
  refine ⟨?_, ?_, ?_, ?_⟩
  · intro π hπ hm
    exact hp (h.owned_alloc p (held_owned ((h.pin_held π hπ).2 p hm)))
  · intro hm
    exact hp (h.owned_alloc p (held_owned (h.img_data p hm)))
  · intro hm
    exact hp (h.owned_alloc p (sysHeld_owned (h.img_sys p hm)))
  · intro hm
    obtain ⟨e, he, rfl⟩ := mem_pagesOf'.mp hm
    exact hp (h.owned_alloc _ (held_owned (h.al_held e (List.mem_append_left _ he))))

/-- the data step, whichever way the savepoint operations left the transaction -/
theorem core_dataStep {s : St} {w : W} {t : Txn} {n : Nat} {d : Bool}
    (hc : Core s.lastId [] s) (hu : Unp s) (hw : WSpec s w d) (hn : s.lastId < n)
    (hdn : t.data.Nodup) (hgd : ∀ p ∈ dataGain w t, p ∉ s.alloc) :
    Core n (w.deleted ++ w.invalidated) (dataStep s w t n) ∧ Unp (dataStep s w t n) := by
  cases hr : w.restored with
  | none =>
    obtain ⟨hb, hq, hdf, _⟩ := hw.plain hr
    exact core_dataStep_plain hc hu hn hr hb hq hdf hdn hgd
  | some r =>
    obtain ⟨sp, hsp, hv, _, _, hid, hb, hq, hdf, hinv⟩ := hw.restored r hr
    subst hid
    exact core_dataStep_restore hc hu hn hsp hv hr hb hq hdf
      (fun x hx hxv hlt => List.mem_append_right _ (hinv x hx hxv hlt)) hdn hgd

theorem psps_applySps {s : St} {w : W} {d : Bool} (hw : WSpec s w d) {sp : Sp} (hsp : sp ∈ s.sps)
    (hp : sp.persistent = true) (hd : sp.sid ∉ w.deleted) : sp ∈ applySps s.sps w :=
  mem_applySps hsp hd (fun hi => hd (hw.inv_del sp hsp hp hi))

/-- the states a durable commit goes through are sound: after the merge of the in-memory records,
after release and DATA_ALLOCATED_TABLE, after publication and savepoint state -/
theorem durable_states {s : St} {w : W} {t : Txn} {n : Nat}
    (hc : Core s.lastId [] s) (hu : Unp s) (hw : WSpec s w true) (hn : s.lastId < n)
    (hdn : t.data.Nodup) (hsn : t.sys.Nodup)
    (hgd : ∀ p ∈ dataGain w t, p ∉ s.alloc)
    (hrec : ∀ p ∈ t.sysRec, p ∈ diff s.sys t.sys) (hrnd : t.sysRec.Nodup)
    (hgs : ∀ p ∈ diff t.sys s.sys, p ∉ (durableReleased s w t n).alloc) :
    Core n (w.deleted ++ w.invalidated) (mergeStep (dataStep s w t n)) ∧
    Core n (w.deleted ++ w.invalidated) (dallocStep (durableReleased s w t n) w) ∧
    Core n [] (durableCommitted s w t n) ∧ Unp (durableCommitted s w t n) ∧
    Core n [] (recover (durableCommitted s w t n).img false) := by
  have hd1 := core_dataStep hc hu hw hn hdn hgd
  have hm := core_mergeStep hd1.1
  have hlive : ∀ i ∈ liveIds s, i < n := live_lt hc hn
  have hrl : Core n (w.deleted ++ w.invalidated)
      (dallocStep (releaseStep (mergeStep (dataStep s w t n)) (freeUntil s n)) w) :=
    core_release_dalloc hm rfl (fun i hi => freeUntil_le_live (s := s) hi) (freeUntil_le hlive) hn
      (fun x hx => List.mem_append_left _ hx)
  have hp := core_publishDurable (w := w) (t := t) hrl rfl rfl hn hsn hgs hrec hrnd
  have hinv : ∀ x ∈ s.sps, x.persistent = true → x.sid ∈ w.deleted ++ w.invalidated → x.sid ∈ w.deleted := by
    intro x hx hxp hm
    rcases List.mem_append.mp hm with h1 | h1
    · exact h1
    · exact hw.inv_del x hx hxp h1
  exact ⟨hm, hrl, core_applyStep hp.1, unp_applyStep hp.2, crash_publishDurable hp.1 rfl rfl hinv⟩

/-- the horizon of the epilogue does not pass a live read reference nor an allocation record -/
theorem epilogueUntil_le {s : St} {w : W} {t : Txn} {n : Nat} :
    (∀ i ∈ liveIds (durableCommitted s w t n),
      epilogueUntil (durableCommitted s w t n) n (spHorizon s.sps w) ≤ i + 1) ∧
    (∀ e ∈ (durableCommitted s w t n).dalloc ++ (durableCommitted s w t n).ualloc,
      epilogueUntil (durableCommitted s w t n) n (spHorizon s.sps w) ≤ e.1 + 1) := by
  constructor
  · intro i hi
    have := freeUntil_le_live (n := n + 1) hi
    unfold epilogueUntil
    split <;> omega
  · intro e he
    have he0 : e ∈ (dallocStep (durableReleased s w t n) w).dalloc ++ [] := he
    rw [List.append_nil] at he0
    have he' : e ∈ purge (spHorizon s.sps w)
        ((durableReleased s w t n).dalloc ++ (durableReleased s w t n).ualloc) := he0
    obtain ⟨_, x, hx, hxe⟩ := mem_purge.mp he'
    unfold epilogueUntil
    rw [hx]
    simp only
    omega

/-- a durable commit preserves the invariant -/
theorem inv_durableCommit {s : St} {w : W} {t : Txn} {n : Nat}
    (hc : Core s.lastId [] s) (hu : Unp s) (hw : WSpec s w true) (hn : s.lastId < n) (hnext : s.nextId = n)
    (hdn : t.data.Nodup) (hsn : t.sys.Nodup)
    (hgd : ∀ p ∈ dataGain w t, p ∉ s.alloc)
    (hrec : ∀ p ∈ t.sysRec, p ∈ diff s.sys t.sys) (hrnd : t.sysRec.Nodup)
    (hgs : ∀ p ∈ diff t.sys s.sys, p ∉ (durableReleased s w t n).alloc)
    (hepi : t.epilogue = true →
      epilogueRuns (durableCommitted s w t n) n (spHorizon s.sps w) = true →
      t.sys2.Nodup ∧ ∀ p ∈ diff t.sys2 t.sys,
        p ∉ (epiRelease (durableCommitted s w t n)
              (epilogueUntil (durableCommitted s w t n) n (spHorizon s.sps w))).alloc) :
    Inv (durableCommit s w t n) := by
  obtain ⟨_, _, ha, hau, hcr⟩ := durable_states hc hu hw hn hdn hsn hgd hrec hrnd hgs
  have hpsps : ∀ sp ∈ (durableCommitted s w t n).img.psps,
      sp ∈ (durableCommitted s w t n).sps ∧ sp.persistent = true := by
    intro sp hsp
    have hsp' : sp ∈ persistentTable s.sps w := hsp
    simp only [persistentTable, List.mem_filter, Bool.and_eq_true, decide_eq_true_eq] at hsp'
    exact ⟨psps_applySps hw hsp'.1 hsp'.2.1 hsp'.2.2, hsp'.2.1⟩
  have hinvc : Inv (durableCommitted s w t n) :=
    { core := ha, unp := hau, crash := hcr, psps := hpsps, next := Nat.le_of_eq hnext.symm }
  unfold durableCommit
  split
  · next hE =>
    unfold epilogue
    split
    · next hR =>
      obtain ⟨hn2, hf2⟩ := hepi hE hR
      have her := core_epiRelease ha hau epilogueUntil_le.1 epilogueUntil_le.2 ⟨rfl, rfl⟩
      have hep := core_epiPublish (t := t) her.1 her.2 ⟨rfl, rfl⟩ rfl hn2 hf2
      exact
        { core := hep.1, unp := hep.2, crash := hcr, psps := hpsps, next := Nat.le_refl _ }
    · exact hinvc
  · exact hinvc

/-- the states a non-durable commit goes through are sound -/
theorem nonDurable_states {s : St} {w : W} {t : Txn} {n : Nat}
    (hc : Core s.lastId [] s) (hu : Unp s) (hw : WSpec s w false) (hn : s.lastId < n)
    (hdn : t.data.Nodup) (hgd : ∀ p ∈ dataGain w t, p ∉ s.alloc) :
    Core n (w.deleted ++ w.invalidated) (nonDurableReclaimed s w t n) ∧ Unp (nonDurableReclaimed s w t n) := by
  have hd1 := core_dataStep hc hu hw hn hdn hgd
  exact core_reclaimStep hd1.1 hd1.2 hn

/-- a non-durable commit preserves the invariant -/
theorem inv_nonDurableCommit {s0 s : St} {w : W} {t : Txn} {n : Nat}
    (hi : Inv s0) (himg : s.img = s0.img) (hkeep : ∀ sp ∈ s0.sps, sp ∈ s.sps)
    (hc : Core s.lastId [] s) (hu : Unp s) (hw : WSpec s w false) (hn : s.lastId < n) (hnext : s.nextId = n)
    (hdn : t.data.Nodup) (hsn : t.sys.Nodup)
    (hgd : ∀ p ∈ dataGain w t, p ∉ s.alloc)
    (hgs : ∀ p ∈ diff t.sys s.sys, p ∉ (nonDurableReclaimed s w t n).alloc) :
    Inv (nonDurableCommit s w t n) := by
  have hr := nonDurable_states hc hu hw hn hdn hgd
  have hg : ∀ p ∈ dataGain w t,
      (∀ π ∈ pins (nonDurableReclaimed s w t n), p ∉ π.2) ∧ p ∉ (nonDurableReclaimed s w t n).img.data ∧
      p ∉ (nonDurableReclaimed s w t n).img.sys ∧ p ∉ pagesOf (nonDurableReclaimed s w t n).dalloc :=
    fun p hp => fresh_unpinned hc (hgd p hp)
  have hp := core_publishND (t := t) (gainD := dataGain w t) (b := (dataLost w t).isEmpty) hr.1 hr.2 hn hsn hgs hg
  have ha : Core n [] (nonDurableCommit s w t n) := core_applyStep hp.1
  have hau : Unp (nonDurableCommit s w t n) := unp_applyStep hp.2
  have hdel : w.deleted = [] := hw.nd_del rfl
  refine { core := ha, unp := hau, crash := ?_, psps := ?_, next := Nat.le_of_eq hnext.symm }
  · have : (nonDurableCommit s w t n).img = s0.img := himg
    rw [this]
    exact hi.crash
  · intro sp hsp
    have hsp0 : sp ∈ s0.img.psps := by
      have : (nonDurableCommit s w t n).img = s0.img := himg
      rw [this] at hsp
      exact hsp
    obtain ⟨hm, hpers⟩ := hi.psps sp hsp0
    exact ⟨psps_applySps hw (hkeep sp hm) hpers (by rw [hdel]; exact List.not_mem_nil), hpers⟩

theorem epilogueGuard_iff {c : St} {t : Txn} {n : Nat} {h : Option Nat} :
    epilogueGuard c t n h = true ↔
      (t.epilogue = true → epilogueRuns c n h = true →
        t.sys2.Nodup ∧ ∀ p ∈ diff t.sys2 t.sys, p ∉ (epiRelease c (epilogueUntil c n h)).alloc) := by
  unfold epilogueGuard
  split
  · next hc =>
    simp only [Bool.and_eq_true] at hc
    simp only [Bool.and_eq_true, decide_eq_true_eq, disjoint_iff]
    exact ⟨fun h _ _ => h, fun h => h hc.1 hc.2⟩
  · next hc =>
    simp only [Bool.and_eq_true, not_and] at hc
    simp only [true_iff]
    intro h1 h2
    exact absurd h2 (hc h1)

/-- the state after `begin_write` and the savepoint operations of a committing transaction, what
these operations staged, and the transaction's id -/
def txState (s : St) (t : Txn) : St := (runSpOps t.durable (beginWrite s) t.spOps).1
def txW (s : St) (t : Txn) : W := (runSpOps t.durable (beginWrite s) t.spOps).2
def txId (s : St) : Nat := s.nextId + 1

/-- everything `Inv` and `commitGuard` say about a committing transaction -/
structure CommitFacts (s : St) (t : Txn) : Prop where
  core : Core (txState s t).lastId [] (txState s t)
  unp : Unp (txState s t)
  wspec : WSpec (txState s t) (txW s t) t.durable
  frame : Frame (beginWrite s) (txState s t)
  lt : (txState s t).lastId < txId s
  next : (txState s t).nextId = txId s
  data_nodup : t.data.Nodup
  sys_nodup : t.sys.Nodup
  data_fresh : ∀ p ∈ dataGain (txW s t) t, p ∉ (txState s t).alloc
  rec_lost : ∀ p ∈ t.sysRec, p ∈ diff (txState s t).sys t.sys
  rec_nodup : t.sysRec.Nodup
  durable : t.durable = true →
    (∀ p ∈ diff t.sys (txState s t).sys, p ∉ (durableReleased (txState s t) (txW s t) t (txId s)).alloc) ∧
    (t.epilogue = true →
      epilogueRuns (durableCommitted (txState s t) (txW s t) t (txId s)) (txId s) (spHorizon (txState s t).sps (txW s t)) = true →
      t.sys2.Nodup ∧ ∀ p ∈ diff t.sys2 t.sys,
        p ∉ (epiRelease (durableCommitted (txState s t) (txW s t) t (txId s))
              (epilogueUntil (durableCommitted (txState s t) (txW s t) t (txId s)) (txId s)
                (spHorizon (txState s t).sps (txW s t)))).alloc)
  nonDurable : t.durable = false →
    ∀ p ∈ diff t.sys (txState s t).sys, p ∉ (nonDurableReclaimed (txState s t) (txW s t) t (txId s)).alloc

theorem commit_facts {s : St} {t : Txn} (hi : Inv s) (hg : commitGuard s t = true) : CommitFacts s t := by
  have hc0 : Core (beginWrite s).lastId [] (beginWrite s) := core_beginWrite hi.core
  have hu0 : Unp (beginWrite s) := unp_beginWrite hi.unp
  unfold commitGuard at hg
  simp only [Bool.and_eq_true, decide_eq_true_eq, disjoint_iff, subset_iff] at hg
  obtain ⟨⟨⟨⟨⟨⟨⟨hok, hdn⟩, hsn⟩, hgd⟩, hrec⟩, hrnd⟩, _⟩, hrest⟩ := hg
  obtain ⟨hc1, hu1, hw, hf⟩ := runSpOps_spec hc0 hu0 hok
  have hlast : (runSpOps t.durable (beginWrite s) t.spOps).1.lastId = s.lastId := by rw [hf.eq]; rfl
  have hnextEq : (runSpOps t.durable (beginWrite s) t.spOps).1.nextId = (beginWrite s).nextId := by rw [hf.eq]
  refine
    { core := by rw [txState, hlast]; exact hc1, unp := hu1, wspec := hw, frame := hf, lt := ?_,
      next := hnextEq, data_nodup := hdn, sys_nodup := hsn, data_fresh := hgd, rec_lost := hrec,
      rec_nodup := hrnd, durable := ?_, nonDurable := ?_ }
  · rw [txState, hlast]
    have := hi.next
    show s.lastId < s.nextId + 1
    omega
  · intro hd
    rw [hd] at hrest
    simp only [if_true, durableGuard, Bool.and_eq_true, disjoint_iff, epilogueGuard_iff] at hrest
    simp only [txState, txW, hd]
    exact hrest
  · intro hd
    rw [hd] at hrest
    simp only [Bool.false_eq_true, if_false, nonDurableGuard, Bool.and_eq_true, disjoint_iff] at hrest
    simp only [txState, txW, hd]
    exact hrest.2

theorem commit_eq {s : St} {t : Txn} :
    commit s t =
      if t.durable then durableCommit (txState s t) (txW s t) t (txId s)
      else nonDurableCommit (txState s t) (txW s t) t (txId s) := rfl

/-- `commit` preserves the invariant -/
theorem inv_commit {s : St} {t : Txn} (hi : Inv s) (hg : commitGuard s t = true) : Inv (commit s t) := by
  have hf := commit_facts hi hg
  rw [commit_eq]
  cases hd : t.durable with
  | true =>
    have hw := hf.wspec
    rw [hd] at hw
    obtain ⟨hgs, hepi⟩ := hf.durable hd
    simp only [if_true]
    exact inv_durableCommit hf.core hf.unp hw hf.lt hf.next hf.data_nodup hf.sys_nodup hf.data_fresh
      hf.rec_lost hf.rec_nodup hgs hepi
  | false =>
    have hw := hf.wspec
    rw [hd] at hw
    have himg : (txState s t).img = s.img := by rw [hf.frame.eq]; rfl
    simp only [Bool.false_eq_true, if_false]
    exact inv_nonDurableCommit hi himg hf.frame.keep hf.core hf.unp hw hf.lt hf.next hf.data_nodup
      hf.sys_nodup hf.data_fresh (hf.nonDurable hd)

end Redb.Life2
