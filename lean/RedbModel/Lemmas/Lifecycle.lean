/-
Lemmas about the page life-cycle monitor `RedbModel/Model/Lifecycle.lean`: what the decidable
conditions `ownOk`, `pinOk`, `moveOk`, `stepOk`, `accept` mean, for all states and traces.
Headline theorems are restated in `RedbModel/Props/Life.lean`.
-/
import RedbModel.Model.Lifecycle

namespace Redb.Life

deriving instance ReflBEq, LawfulBEq for PinKind
deriving instance ReflBEq, LawfulBEq for Owner

/-! ### generic list facts -/

theorem fst_nodup_unique {α β} {l : List (α × β)} (h : (l.map (·.1)).Nodup)
    {a : α} {b b' : β} (h1 : (a, b) ∈ l) (h2 : (a, b') ∈ l) : b = b' := by
  induction l with
  | nil => cases h1
  | cons x xs ih =>
    simp only [List.map_cons, List.nodup_cons, List.mem_map] at h
    simp only [List.mem_cons] at h1 h2
    rcases h1 with h1 | h1 <;> rcases h2 with h2 | h2
    · subst h1; cases h2; rfl
    · subst h1; exact absurd ⟨_, h2, rfl⟩ h.1
    · subst h2; exact absurd ⟨_, h1, rfl⟩ h.1
    · exact ih h.2 h1 h2

/-! ### membership in `claims`, `owned`, `reachableFrom` -/

theorem mem_claims {s : St} {p : Page} {o : Owner} :
    (p, o) ∈ claims s ↔
      (o = .data ∧ p ∈ s.data) ∨ (o = .sys ∧ p ∈ s.sys) ∨
      (∃ r ∈ s.dfreed, o = .dfreed r.1 ∧ p ∈ r.2) ∨
      (∃ r ∈ s.sfreed, o = .sfreed r.1 ∧ p ∈ r.2) := by
  simp only [claims, List.mem_append, List.mem_map, List.mem_flatMap, Prod.mk.injEq]
  constructor
  · rintro (((⟨a, ha, rfl, rfl⟩ | ⟨a, ha, rfl, rfl⟩) | ⟨r, hr, a, ha, rfl, rfl⟩) |
      ⟨r, hr, a, ha, rfl, rfl⟩)
    · exact .inl ⟨rfl, ha⟩
    · exact .inr (.inl ⟨rfl, ha⟩)
    · exact .inr (.inr (.inl ⟨r, hr, rfl, ha⟩))
    · exact .inr (.inr (.inr ⟨r, hr, rfl, ha⟩))
  · rintro (⟨rfl, h⟩ | ⟨rfl, h⟩ | ⟨r, hr, rfl, h⟩ | ⟨r, hr, rfl, h⟩)
    · exact .inl (.inl (.inl ⟨p, h, rfl, rfl⟩))
    · exact .inl (.inl (.inr ⟨p, h, rfl, rfl⟩))
    · exact .inl (.inr ⟨r, hr, p, h, rfl, rfl⟩)
    · exact .inr ⟨r, hr, p, h, rfl, rfl⟩

theorem mem_owned {s : St} {p : Page} : p ∈ owned s ↔ ∃ o, (p, o) ∈ claims s := by
  simp only [owned, List.mem_map]
  constructor
  · rintro ⟨⟨q, o⟩, h, rfl⟩; exact ⟨o, h⟩
  · rintro ⟨o, h⟩; exact ⟨(p, o), h, rfl⟩

theorem mem_reachableFrom {s : St} {id : Nat} {p : Page} :
    p ∈ reachableFrom s id ↔ p ∈ s.data ∨ ∃ r ∈ s.dfreed, id < r.1 ∧ p ∈ r.2 := by
  simp only [reachableFrom, List.mem_append, List.mem_flatMap, List.mem_filter,
    decide_eq_true_eq]
  constructor
  · rintro (h | ⟨r, ⟨hr, hlt⟩, hp⟩)
    · exact .inl h
    · exact .inr ⟨r, hr, hlt, hp⟩
  · rintro (h | ⟨r, hr, hlt, hp⟩)
    · exact .inl h
    · exact .inr ⟨r, ⟨hr, hlt⟩, hp⟩

theorem mem_sysReachableFrom {s : St} {id : Nat} {p : Page} :
    p ∈ sysReachableFrom s id ↔ p ∈ s.sys ∨ ∃ r ∈ s.sfreed, id < r.1 ∧ p ∈ r.2 := by
  simp only [sysReachableFrom, List.mem_append, List.mem_flatMap, List.mem_filter,
    decide_eq_true_eq]
  constructor
  · rintro (h | ⟨r, ⟨hr, hlt⟩, hp⟩)
    · exact .inl h
    · exact .inr ⟨r, hr, hlt, hp⟩
  · rintro (h | ⟨r, hr, hlt, hp⟩)
    · exact .inl h
    · exact .inr ⟨r, ⟨hr, hlt⟩, hp⟩

/-- a page reachable from a snapshot of age `id` is claimed by `data` or a later record -/
theorem claims_of_reachable {s : St} {id : Nat} {p : Page} (h : p ∈ reachableFrom s id) :
    (p, Owner.data) ∈ claims s ∨ ∃ t, id < t ∧ (p, Owner.dfreed t) ∈ claims s := by
  rcases mem_reachableFrom.1 h with h | ⟨r, hr, hlt, hp⟩
  · exact .inl (mem_claims.2 (.inl ⟨rfl, h⟩))
  · exact .inr ⟨r.1, hlt, mem_claims.2 (.inr (.inr (.inl ⟨r, hr, rfl, hp⟩)))⟩

theorem claims_of_sysReachable {s : St} {id : Nat} {p : Page} (h : p ∈ sysReachableFrom s id) :
    (p, Owner.sys) ∈ claims s ∨ ∃ t, id < t ∧ (p, Owner.sfreed t) ∈ claims s := by
  rcases mem_sysReachableFrom.1 h with h | ⟨r, hr, hlt, hp⟩
  · exact .inr (.inl ⟨rfl, h⟩) |> mem_claims.2 |> .inl
  · exact .inr ⟨r.1, hlt, mem_claims.2 (.inr (.inr (.inr ⟨r, hr, rfl, hp⟩)))⟩

/-! ### `ownOk` -/

theorem ownOk_iff {s : St} :
    ownOk s = true ↔ ((owned s).Nodup ∧ s.alloc.Nodup ∧ (∀ p, p ∈ s.alloc ↔ p ∈ owned s)) := by
  simp only [ownOk, Bool.and_eq_true, decide_eq_true_eq, List.all_eq_true,
    List.contains_iff_mem]
  constructor
  · rintro ⟨⟨⟨h1, h2⟩, h3⟩, h4⟩
    exact ⟨h1, h2, fun p => ⟨h4 p, h3 p⟩⟩
  · rintro ⟨h1, h2, h3⟩
    exact ⟨⟨⟨h1, h2⟩, fun p hp => (h3 p).2 hp⟩, fun p hp => (h3 p).1 hp⟩

theorem claim_unique {s : St} {p : Page} {o₁ o₂ : Owner} (h : ownOk s = true)
    (h1 : (p, o₁) ∈ claims s) (h2 : (p, o₂) ∈ claims s) : o₁ = o₂ :=
  fst_nodup_unique (ownOk_iff.1 h).1 h1 h2

theorem owner_some_mem {s : St} {p : Page} {o : Owner} (h : owner s p = some o) :
    (p, o) ∈ claims s := by
  simp only [owner, Option.map_eq_some_iff] at h
  obtain ⟨⟨q, o'⟩, hf, rfl⟩ := h
  have hm := List.mem_of_find?_eq_some hf
  have hq := List.find?_some hf
  simp only [beq_iff_eq] at hq
  subst hq; exact hm

theorem owner_eq_some_iff {s : St} {p : Page} {o : Owner} (h : ownOk s = true) :
    owner s p = some o ↔ (p, o) ∈ claims s := by
  constructor
  · exact owner_some_mem
  · intro hm
    cases ho : owner s p with
    | some o' => rw [claim_unique h (owner_some_mem ho) hm]
    | none =>
      simp only [owner, Option.map_eq_none_iff, List.find?_eq_none] at ho
      exact absurd (by simp) (ho _ hm)

theorem owner_none_iff_not_owned {s : St} {p : Page} : owner s p = none ↔ p ∉ owned s := by
  simp only [owner, Option.map_eq_none_iff, List.find?_eq_none, mem_owned, beq_iff_eq]
  constructor
  · rintro h ⟨o, ho⟩; exact h _ ho rfl
  · rintro h ⟨q, o⟩ hm rfl; exact h ⟨o, hm⟩

theorem owner_eq_none_iff {s : St} {p : Page} (h : ownOk s = true) :
    owner s p = none ↔ p ∉ s.alloc := by
  rw [owner_none_iff_not_owned, (ownOk_iff.1 h).2.2 p]

theorem mem_alloc_of_owner {s : St} {p : Page} {o : Owner} (h : ownOk s = true)
    (ho : owner s p = some o) : p ∈ s.alloc := by
  apply Classical.byContradiction
  intro hn
  rw [(owner_eq_none_iff h).2 hn] at ho
  cases ho

theorem mem_alloc_of_claim {s : St} {p : Page} {o : Owner} (h : ownOk s = true)
    (hc : (p, o) ∈ claims s) : p ∈ s.alloc :=
  ((ownOk_iff.1 h).2.2 p).2 (mem_owned.2 ⟨o, hc⟩)

/-! ### `pinOk` -/

theorem durable_clause_iff {k : PinKind} {a b : Nat} :
    (k != PinKind.durable || a == b) = true ↔ (k = .durable → a = b) := by
  by_cases h : k = .durable <;> simp [h]

theorem pin_iff {s : St} :
    pinOk s = true ↔
      (∀ π ∈ s.pins, ∀ p ∈ π.pages, p ∈ reachableFrom s π.id) ∧
      (∀ p ∈ s.dsys, p ∈ sysReachableFrom s s.dur) ∧
      (∀ π ∈ s.pins, π.kind = .durable → π.id = s.dur) ∧
      (∀ π ∈ s.pins, π.id ≤ s.id) := by
  simp only [pinOk, Bool.and_eq_true, List.all_eq_true, List.contains_iff_mem,
    durable_clause_iff, decide_eq_true_eq, and_assoc]

/-- no pin is from the future -/
theorem pin_id_le' {s : St} {π : Pin} (hp : pinOk s = true) (hπ : π ∈ s.pins) : π.id ≤ s.id :=
  (pin_iff.1 hp).2.2.2 π hπ

/-- the durable pin is the snapshot of the last durable commit -/
theorem durable_pin_id' {s : St} {π : Pin} (hp : pinOk s = true) (hπ : π ∈ s.pins)
    (hk : π.kind = .durable) : π.id = s.dur :=
  (pin_iff.1 hp).2.2.1 π hπ hk

theorem pin_owner_cases {s : St} {π : Pin} {p : Page} (h : ownOk s = true) (hp : pinOk s = true)
    (hπ : π ∈ s.pins) (hpp : p ∈ π.pages) :
    owner s p = some .data ∨ ∃ t, π.id < t ∧ owner s p = some (.dfreed t) := by
  rcases claims_of_reachable ((pin_iff.1 hp).1 π hπ p hpp) with hc | ⟨t, ht, hc⟩
  · exact .inl ((owner_eq_some_iff h).2 hc)
  · exact .inr ⟨t, ht, (owner_eq_some_iff h).2 hc⟩

theorem dsys_owner_cases {s : St} {p : Page} (h : ownOk s = true) (hp : pinOk s = true)
    (hd : p ∈ s.dsys) :
    owner s p = some .sys ∨ ∃ t, s.dur < t ∧ owner s p = some (.sfreed t) := by
  rcases claims_of_sysReachable ((pin_iff.1 hp).2.1 p hd) with hc | ⟨t, ht, hc⟩
  · exact .inl ((owner_eq_some_iff h).2 hc)
  · exact .inr ⟨t, ht, (owner_eq_some_iff h).2 hc⟩

theorem pin_mem_alloc {s : St} {π : Pin} {p : Page} (h : ownOk s = true)
    (hp : pinOk s = true) (hπ : π ∈ s.pins) (hpp : p ∈ π.pages) : p ∈ s.alloc := by
  rcases pin_owner_cases h hp hπ hpp with ho | ⟨t, _, ho⟩ <;> exact mem_alloc_of_owner h ho

theorem dsys_mem_alloc {s : St} {p : Page} (h : ownOk s = true)
    (hp : pinOk s = true) (hd : p ∈ s.dsys) : p ∈ s.alloc := by
  rcases dsys_owner_cases h hp hd with ho | ⟨t, _, ho⟩ <;> exact mem_alloc_of_owner h ho

/-! ### pins across a step -/

theorem Pin.same_iff {a b : Pin} : a.same b = true ↔ a = b := by
  cases a; cases b
  simp [Pin.same, and_assoc]

theorem mem_surviving {s s' : St} {π : Pin} : π ∈ surviving s s' ↔ π ∈ s.pins ∧ π ∈ s'.pins := by
  simp only [surviving, List.mem_filter, List.any_eq_true, Pin.same_iff]
  constructor
  · rintro ⟨h, π', h', rfl⟩; exact ⟨h, h'⟩
  · rintro ⟨h, h'⟩; exact ⟨h, π, h', rfl⟩

theorem unpinned_false_of_pin {s s' : St} {π : Pin} {p : Page} (hπ : π ∈ surviving s s')
    (hpp : p ∈ π.pages) : unpinned s s' p = false := by
  cases hu : unpinned s s' p with
  | false => rfl
  | true =>
    simp only [unpinned, Bool.and_eq_true, List.all_eq_true] at hu
    exact absurd hpp (by simpa using hu.1 π hπ)

theorem unpinned_false_of_dsys {s s' : St} {p : Page} (hd : s.dur = s'.dur) (hp : p ∈ s.dsys) :
    unpinned s s' p = false := by
  simp [unpinned, hd, hp]

/-- The legal owner changes of a page that a surviving pin still reaches. -/
inductive PinnedMove (s : St) (p : Page) : Owner → Owner → Prop
  /-- nothing happened to the page -/
  | same (o : Owner) : PinnedMove s p o o
  /-- the page left the latest data tree into the record of a later transaction -/
  | freed (t : Nat) : s.id < t → PinnedMove s p .data (.dfreed t)
  /-- the page's record was merged into a later one -/
  | later (t t' : Nat) : t ≤ t' → PinnedMove s p (.dfreed t) (.dfreed t')
  /-- the page came back into the latest data tree, and a savepoint older than its record
  pins it (a savepoint restore) -/
  | restored (t : Nat) :
    (∃ σ ∈ s.pins, σ.kind = .savepoint ∧ σ.id < t ∧ p ∈ σ.pages) →
    PinnedMove s p (.dfreed t) .data

/-- The legal owner changes of a page of the durable system tree while `dur` is unchanged. -/
inductive DsysMove (s : St) : Owner → Owner → Prop
  | same (o : Owner) : DsysMove s o o
  | freed (t : Nat) : s.id < t → DsysMove s .sys (.sfreed t)
  | later (t t' : Nat) : t ≤ t' → DsysMove s (.sfreed t) (.sfreed t')

/-- `o` is the latest data tree or a data pending-free record -/
def Owner.isDataSide : Owner → Prop
  | .data => True
  | .dfreed _ => True
  | _ => False

/-- `o` is the latest system tree or a system pending-free record -/
def Owner.isSysSide : Owner → Prop
  | .sys => True
  | .sfreed _ => True
  | _ => False

theorem Owner.isDataSide_iff {o : Owner} : o.isDataSide ↔ o = .data ∨ ∃ t, o = .dfreed t := by
  cases o <;> simp [Owner.isDataSide]

theorem Owner.isSysSide_iff {o : Owner} : o.isSysSide ↔ o = .sys ∨ ∃ t, o = .sfreed t := by
  cases o <;> simp [Owner.isSysSide]

theorem PinnedMove.dataSide {s p o o'} (h : PinnedMove s p o o') (ho : o.isDataSide) :
    o'.isDataSide := by
  cases h <;> first | exact ho | trivial

theorem DsysMove.sysSide {s o o'} (h : DsysMove s o o') (ho : o.isSysSide) : o'.isSysSide := by
  cases h <;> first | exact ho | trivial

theorem stepOk_false_iff {s s' : St} :
    stepOk false s s' = true ↔
      (∀ p ∈ s.alloc, moveOk s s' p = true) ∧ s.id ≤ s'.id ∧ s.dur ≤ s'.dur ∧
      (s.dur = s'.dur → s.dsys = s'.dsys) := by
  have hd : (s.dur != s'.dur || s.dsys == s'.dsys) = true ↔ (s.dur = s'.dur → s.dsys = s'.dsys) := by
    by_cases h : s.dur = s'.dur <;> simp [h]
  simp only [stepOk, Bool.false_eq_true, if_false, Bool.and_eq_true, List.all_eq_true,
    decide_eq_true_eq, hd, and_assoc]

theorem step_moveOk {s s' : St} {p : Page} (hs : stepOk false s s' = true) (hp : p ∈ s.alloc) :
    moveOk s s' p = true := (stepOk_false_iff.1 hs).1 p hp

theorem step_id_le {s s' : St} (hs : stepOk false s s' = true) : s.id ≤ s'.id :=
  (stepOk_false_iff.1 hs).2.1

theorem step_dsys_eq {s s' : St} (hs : stepOk false s s' = true) (hd : s.dur = s'.dur) :
    s.dsys = s'.dsys := (stepOk_false_iff.1 hs).2.2.2 hd

theorem step_dur_le {c : Bool} {s s' : St} (hs : stepOk c s s' = true) : s.dur ≤ s'.dur := by
  cases c
  · exact (stepOk_false_iff.1 hs).2.2.1
  · simpa [stepOk] using hs

theorem unpinned_iff {s s' : St} {p : Page} :
    unpinned s s' p = true ↔
      (∀ π ∈ surviving s s', p ∉ π.pages) ∧ (s.dur = s'.dur → p ∉ s.dsys) := by
  have hd : (s.dur != s'.dur || !s.dsys.contains p) = true ↔ (s.dur = s'.dur → p ∉ s.dsys) := by
    by_cases h : s.dur = s'.dur <;> simp [h]
  have hc : ∀ π : Pin, (!π.pages.contains p) = true ↔ p ∉ π.pages := by
    intro π; simp
  simp only [unpinned, Bool.and_eq_true, List.all_eq_true, hd, hc]

/-- All owner changes `moveOk` allows for a page that is owned in `s` and not `unpinned`. -/
inductive LegalMove (s : St) (p : Page) : Owner → Owner → Prop
  | same (o : Owner) : LegalMove s p o o
  | dfreed (t : Nat) : s.id < t → LegalMove s p .data (.dfreed t)
  | sfreed (t : Nat) : s.id < t → LegalMove s p .sys (.sfreed t)
  | dlater (t t' : Nat) : t ≤ t' → LegalMove s p (.dfreed t) (.dfreed t')
  | slater (t t' : Nat) : t ≤ t' → LegalMove s p (.sfreed t) (.sfreed t')
  | restored (t : Nat) :
    (∃ σ ∈ s.pins, σ.kind = .savepoint ∧ σ.id < t ∧ p ∈ σ.pages) →
    LegalMove s p (.dfreed t) .data

theorem moveOk_legal {s s' : St} {p : Page} {o : Owner} (hm : moveOk s s' p = true)
    (ho : owner s p = some o) (hu : unpinned s s' p = false) :
    ∃ o', owner s' p = some o' ∧ LegalMove s p o o' := by
  unfold moveOk at hm
  rw [ho] at hm
  cases ho' : owner s' p with
  | none => rw [ho'] at hm; simp [hu] at hm
  | some o' =>
    rw [ho'] at hm
    refine ⟨o', rfl, ?_⟩
    by_cases he : o = o'
    · subst he; exact .same _
    · cases o <;> cases o' <;>
        simp_all <;>
        first
          | exact .dfreed _ hm
          | exact .sfreed _ hm
          | exact .dlater _ _ hm
          | exact .slater _ _ hm
          | (refine .restored _ ?_
             obtain ⟨σ, h1, ⟨h2, h3⟩, h4⟩ := hm
             exact ⟨σ, h1, h2, h3, h4⟩)

theorem moveOk_of_legal {s s' : St} {p : Page} {o o' : Owner} (ho : owner s p = some o)
    (ho' : owner s' p = some o') (hl : LegalMove s p o o') : moveOk s s' p = true := by
  unfold moveOk
  rw [ho, ho']
  cases hl with
  | same => simp
  | dfreed t h => simpa using h
  | sfreed t h => simpa using h
  | dlater t t' h => by_cases he : t = t' <;> simp [he, h]
  | slater t t' h => by_cases he : t = t' <;> simp [he, h]
  | restored t h =>
    obtain ⟨σ, h1, h2, h3, h4⟩ := h
    simp only [reduceCtorEq, beq_iff_eq, if_false, Bool.or_eq_true, List.any_eq_true,
      Bool.and_eq_true, decide_eq_true_eq, List.contains_iff_mem]
    exact .inl ⟨σ, h1, ⟨h2, h3⟩, h4⟩

/-- declarative reading of `moveOk` for an owned page that some surviving pin or the unchanged
durable system tree still reaches -/
theorem moveOk_iff_of_pinned {s s' : St} {p : Page} {o : Owner}
    (ho : owner s p = some o) (hu : unpinned s s' p = false) :
    moveOk s s' p = true ↔ ∃ o', owner s' p = some o' ∧ LegalMove s p o o' :=
  ⟨fun hm => moveOk_legal hm ho hu, fun ⟨_, ho', hl⟩ => moveOk_of_legal ho ho' hl⟩

/-- every accepted move is: the page was free, or nothing pins it, or it is a `LegalMove` -/
theorem moveOk_cases {s s' : St} {p : Page} (hm : moveOk s s' p = true) :
    owner s p = none ∨ unpinned s s' p = true ∨
      ∃ o o', owner s p = some o ∧ owner s' p = some o' ∧ LegalMove s p o o' := by
  cases ho : owner s p with
  | none => exact .inl rfl
  | some o =>
    cases hu : unpinned s s' p with
    | true => exact .inr (.inl rfl)
    | false =>
      obtain ⟨o', ho', hl⟩ := moveOk_legal hm ho hu
      exact .inr (.inr ⟨o, o', rfl, ho', hl⟩)

/-- `moveOk` for a page whose owner in `s` is data-side and which is not `unpinned` -/
theorem moveOk_pinned {s s' : St} {p : Page} {o : Owner} (hm : moveOk s s' p = true)
    (ho : owner s p = some o) (hd : o.isDataSide) (hu : unpinned s s' p = false) :
    ∃ o', owner s' p = some o' ∧ PinnedMove s p o o' := by
  obtain ⟨o', ho', hl⟩ := moveOk_legal hm ho hu
  refine ⟨o', ho', ?_⟩
  cases hl with
  | same => exact .same _
  | dfreed t h => exact .freed t h
  | sfreed t h => cases hd
  | dlater t t' h => exact .later t t' h
  | slater t t' h => cases hd
  | restored t h => exact .restored t h

theorem moveOk_dsys {s s' : St} {p : Page} {o : Owner} (hm : moveOk s s' p = true)
    (ho : owner s p = some o) (hd : o.isSysSide) (hu : unpinned s s' p = false) :
    ∃ o', owner s' p = some o' ∧ DsysMove s o o' := by
  obtain ⟨o', ho', hl⟩ := moveOk_legal hm ho hu
  refine ⟨o', ho', ?_⟩
  cases hl with
  | same => exact .same _
  | dfreed t h => cases hd
  | sfreed t h => exact .freed t h
  | dlater t t' h => cases hd
  | slater t t' h => exact .later t t' h
  | restored t h => cases hd

/-- Core safety lemma: across a legal non-crash step a page reached by a surviving pin stays
allocated, and its owner changes only by a `PinnedMove`; in particular it stays data-side. -/
theorem step_pinned {s s' : St} {π : Pin} {p : Page}
    (h : ownOk s = true) (hp : pinOk s = true) (h' : ownOk s' = true)
    (hs : stepOk false s s' = true) (hπ : π ∈ surviving s s') (hpp : p ∈ π.pages) :
    p ∈ s'.alloc ∧ ∃ o o', owner s p = some o ∧ owner s' p = some o' ∧
      (o = .data ∨ ∃ t, π.id < t ∧ o = .dfreed t) ∧ PinnedMove s p o o' ∧
      (o' = .data ∨ ∃ t, π.id < t ∧ o' = .dfreed t) := by
  have hπs := (mem_surviving.1 hπ).1
  have hle := pin_id_le' hp hπs
  have hal := pin_mem_alloc h hp hπs hpp
  have hm := step_moveOk hs hal
  have hu := unpinned_false_of_pin hπ hpp
  have hex : ∃ o, owner s p = some o ∧ (o = .data ∨ ∃ t, π.id < t ∧ o = .dfreed t) := by
    rcases pin_owner_cases h hp hπs hpp with ho | ⟨t, ht, ho⟩
    · exact ⟨_, ho, .inl rfl⟩
    · exact ⟨_, ho, .inr ⟨t, ht, rfl⟩⟩
  obtain ⟨o, ho, hx⟩ := hex
  have hd : o.isDataSide := by
    rcases hx with rfl | ⟨t, _, rfl⟩ <;> trivial
  obtain ⟨o', ho', hmv⟩ := moveOk_pinned hm ho hd hu
  refine ⟨mem_alloc_of_owner h' ho', o, o', ho, ho', hx, hmv, ?_⟩
  cases hmv with
  | same => exact hx
  | freed t ht => exact .inr ⟨t, by omega, rfl⟩
  | later t t' ht =>
    rcases hx with hx | ⟨t₀, h0, hx⟩
    · cases hx
    · cases hx; exact .inr ⟨t', by omega, rfl⟩
  | restored t _ => exact .inl rfl

/-- a page released by a legal non-crash step was reached by no surviving pin and, if the
durable commit did not advance, was not in the durable system tree -/
theorem released_unpinned {s s' : St} {p : Page} (h : ownOk s = true) (h' : ownOk s' = true)
    (hs : stepOk false s s' = true) (hp : p ∈ s.alloc) (hp' : p ∉ s'.alloc) :
    (∀ π ∈ surviving s s', p ∉ π.pages) ∧ (s.dur = s'.dur → p ∉ s.dsys) := by
  have hm := step_moveOk hs hp
  have hn' := (owner_eq_none_iff h').2 hp'
  cases ho : owner s p with
  | none => exact absurd hp ((owner_eq_none_iff h).1 ho)
  | some o =>
    unfold moveOk at hm
    rw [ho, hn'] at hm
    exact unpinned_iff.1 hm

/-- the same for the durable system tree while the durable commit does not advance -/
theorem step_dsys {s s' : St} {p : Page}
    (h : ownOk s = true) (hp : pinOk s = true) (h' : ownOk s' = true)
    (hs : stepOk false s s' = true) (hdur : s.dur = s'.dur) (hd : p ∈ s.dsys) :
    p ∈ s'.alloc ∧ ∃ o o', owner s p = some o ∧ owner s' p = some o' ∧
      (o = .sys ∨ ∃ t, s.dur < t ∧ o = .sfreed t) ∧ DsysMove s o o' ∧
      (o' = .sys ∨ ∃ t, o' = .sfreed t) := by
  have hal := dsys_mem_alloc h hp hd
  have hm := step_moveOk hs hal
  have hu := unpinned_false_of_dsys hdur hd
  have hex : ∃ o, owner s p = some o ∧ (o = .sys ∨ ∃ t, s.dur < t ∧ o = .sfreed t) := by
    rcases dsys_owner_cases h hp hd with ho | ⟨t, ht, ho⟩
    · exact ⟨_, ho, .inl rfl⟩
    · exact ⟨_, ho, .inr ⟨t, ht, rfl⟩⟩
  obtain ⟨o, ho, hx⟩ := hex
  have hsd : o.isSysSide := by
    rcases hx with rfl | ⟨t, _, rfl⟩ <;> trivial
  obtain ⟨o', ho', hmv⟩ := moveOk_dsys hm ho hsd hu
  exact ⟨mem_alloc_of_owner h' ho',
    o, o', ho, ho', hx, hmv, Owner.isSysSide_iff.1 (hmv.sysSide hsd)⟩

/-! ### traces -/

/-- `R` holds between every two consecutive elements of `l` -/
def Consec {α} (R : α → α → Prop) (l : List α) : Prop :=
  ∀ pre x y post, l = pre ++ x :: y :: post → R x y

theorem consec_nil {α} {R : α → α → Prop} : Consec R [] := by
  intro pre x y post h; cases pre <;> simp at h

theorem consec_single {α} {R : α → α → Prop} {a : α} : Consec R [a] := by
  intro pre x y post h
  cases pre with
  | nil => simp at h
  | cons c pre => cases pre <;> simp at h

theorem consec_cons2 {α} {R : α → α → Prop} {a b : α} {l : List α} :
    Consec R (a :: b :: l) ↔ R a b ∧ Consec R (b :: l) := by
  constructor
  · intro h
    exact ⟨h [] a b l rfl, fun pre x y post e => h (a :: pre) x y post (by rw [e]; rfl)⟩
  · rintro ⟨h1, h2⟩ pre x y post e
    cases pre with
    | nil =>
      simp only [List.nil_append, List.cons.injEq] at e
      obtain ⟨rfl, rfl, rfl⟩ := e; exact h1
    | cons c pre =>
      simp only [List.cons_append, List.cons.injEq] at e
      exact h2 pre x y post e.2

theorem consec_tail {α} {R : α → α → Prop} {a : α} {l : List α} (h : Consec R (a :: l)) :
    Consec R l := by
  cases l with
  | nil => exact consec_nil
  | cons b l => exact (consec_cons2.1 h).2

/-- in a decomposition `pre ++ x :: y :: post` the second element lies in the tail -/
theorem mem_tail_of_split {α} {l pre post : List α} {x y : α} (h : l = pre ++ x :: y :: post) :
    x ∈ l ∧ y ∈ l.tail := by
  subst h
  cases pre <;> simp

/-- the transition relation checked by `accept` between consecutive trace elements -/
def StepRel (x y : Bool × St) : Prop := stepOk y.1 x.2 y.2 = true

theorem accept_head {x : Bool × St} {tr : List (Bool × St)} (h : accept (x :: tr) = true) :
    ownOk x.2 = true ∧ pinOk x.2 = true ∧ accept tr = true ∧
      ∀ y ∈ tr.head?, stepOk y.1 x.2 y.2 = true := by
  cases tr with
  | nil =>
    simp only [accept, Bool.and_eq_true] at h
    exact ⟨h.1, h.2, rfl, by simp⟩
  | cons y rest =>
    simp only [accept, Bool.and_eq_true] at h
    exact ⟨h.1.1.1, h.1.1.2, h.2, by simpa using h.1.2⟩

/-- what `accept` means: every state passes `ownOk` and `pinOk`, every transition `stepOk` -/
theorem accept_iff {tr : List (Bool × St)} :
    accept tr = true ↔
      (∀ x ∈ tr, ownOk x.2 = true ∧ pinOk x.2 = true) ∧ Consec StepRel tr := by
  induction tr with
  | nil => simp [accept, consec_nil]
  | cons a l ih =>
    cases l with
    | nil => simp [accept, consec_single]
    | cons b l =>
      rw [consec_cons2]
      simp only [accept, Bool.and_eq_true]
      rw [ih]
      constructor
      · rintro ⟨⟨⟨h1, h2⟩, h3⟩, h4, h5⟩
        refine ⟨?_, h3, h5⟩
        intro x hx
        rcases List.mem_cons.1 hx with rfl | hx
        · exact ⟨h1, h2⟩
        · exact h4 x hx
      · rintro ⟨h1, h3, h5⟩
        exact ⟨⟨h1 a (List.mem_cons_self), h3⟩, fun x hx => h1 x (List.mem_cons_of_mem _ hx), h5⟩

theorem accept_all_states {tr : List (Bool × St)} (h : accept tr = true) :
    ∀ x ∈ tr, ownOk x.2 = true ∧ pinOk x.2 = true := (accept_iff.1 h).1

theorem accept_all_steps {tr : List (Bool × St)} (h : accept tr = true) :
    ∀ pre x y post, tr = pre ++ x :: y :: post → stepOk y.1 x.2 y.2 = true := (accept_iff.1 h).2

/-- Trace-level safety of pins. -/
theorem pinned_trace {tr : List (Bool × St)} {π : Pin} {p : Page}
    (hacc : accept tr = true)
    (hnc : ∀ x ∈ tr.tail, x.1 = false)
    (hpin : ∀ x ∈ tr, x.2.pins.any (fun π' => π.same π') = true)
    (hp : p ∈ π.pages) :
    (∀ x ∈ tr, p ∈ x.2.alloc ∧
      (owner x.2 p = some .data ∨ ∃ t, π.id < t ∧ owner x.2 p = some (.dfreed t))) ∧
    (∀ pre x y post, tr = pre ++ x :: y :: post →
      ∃ o o', owner x.2 p = some o ∧ owner y.2 p = some o' ∧ PinnedMove x.2 p o o') := by
  have hmem : ∀ x ∈ tr, π ∈ x.2.pins := by
    intro x hx
    have := hpin x hx
    simp only [List.any_eq_true, Pin.same_iff] at this
    obtain ⟨π', h', rfl⟩ := this; exact h'
  have hst := accept_all_states hacc
  refine ⟨fun x hx => ?_, fun pre x y post e => ?_⟩
  · obtain ⟨ho, hpk⟩ := hst x hx
    exact ⟨pin_mem_alloc ho hpk (hmem x hx) hp, pin_owner_cases ho hpk (hmem x hx) hp⟩
  · obtain ⟨hx, hy⟩ := mem_tail_of_split e
    have hy' : y ∈ tr := List.mem_of_mem_tail hy
    have hstep := accept_all_steps hacc pre x y post e
    rw [hnc y hy] at hstep
    obtain ⟨_, o, o', h1, h2, _, h3, _⟩ :=
      step_pinned (hst x hx).1 (hst x hx).2 (hst y hy').1 hstep
        (mem_surviving.2 ⟨hmem x hx, hmem y hy'⟩) hp
    exact ⟨o, o', h1, h2, h3⟩

/-- Trace-level safety of the durable system tree, PARTIAL: it needs the page to be listed in
`dsys` of every state (the monitor does not force `dsys` to stay put while `dur` does). -/
theorem dsys_trace {tr : List (Bool × St)} {d : Nat} {p : Page}
    (hacc : accept tr = true)
    (hnc : ∀ x ∈ tr.tail, x.1 = false)
    (hdur : ∀ x ∈ tr, x.2.dur = d)
    (hd : ∀ x ∈ tr, p ∈ x.2.dsys) :
    (∀ x ∈ tr, p ∈ x.2.alloc ∧
      (owner x.2 p = some .sys ∨ ∃ t, d < t ∧ owner x.2 p = some (.sfreed t))) ∧
    (∀ pre x y post, tr = pre ++ x :: y :: post →
      ∃ o o', owner x.2 p = some o ∧ owner y.2 p = some o' ∧ DsysMove x.2 o o') := by
  have hst := accept_all_states hacc
  refine ⟨fun x hx => ?_, fun pre x y post e => ?_⟩
  · obtain ⟨ho, hpk⟩ := hst x hx
    have := dsys_owner_cases ho hpk (hd x hx)
    rw [hdur x hx] at this
    exact ⟨dsys_mem_alloc ho hpk (hd x hx), this⟩
  · obtain ⟨hx, hy⟩ := mem_tail_of_split e
    have hy' : y ∈ tr := List.mem_of_mem_tail hy
    have hstep := accept_all_steps hacc pre x y post e
    rw [hnc y hy] at hstep
    obtain ⟨_, o, o', h1, h2, _, h3, _⟩ :=
      step_dsys (hst x hx).1 (hst x hx).2 (hst y hy').1 hstep
        ((hdur x hx).trans (hdur y hy').symm) (hd x hx)
    exact ⟨o, o', h1, h2, h3⟩

theorem dsys_const {x0 : Bool × St} {tr : List (Bool × St)}
    (hnc : ∀ x ∈ tr, x.1 = false)
    (hdur : ∀ x ∈ tr, x.2.dur = x0.2.dur)
    (hstep : Consec StepRel (x0 :: tr)) :
    ∀ x ∈ x0 :: tr, x.2.dsys = x0.2.dsys := by
  induction tr generalizing x0 with
  | nil => intro x hx; simp at hx; rw [hx]
  | cons y l ih =>
    obtain ⟨h1, h2⟩ := consec_cons2.1 hstep
    have hy : y.2.dur = x0.2.dur := hdur y (by simp)
    have hds : x0.2.dsys = y.2.dsys := by
      unfold StepRel at h1
      rw [hnc y (by simp)] at h1
      exact step_dsys_eq h1 hy.symm
    intro x hx
    rcases List.mem_cons.1 hx with rfl | hx
    · rfl
    · rw [hds]
      exact ih (fun z hz => hnc z (List.mem_cons_of_mem _ hz))
        (fun z hz => (hdur z (List.mem_cons_of_mem _ hz)).trans hy.symm) h2 x hx

/-- Trace-level safety of the durable system tree: every page of the durable system tree of
the first state stays allocated and `sys`-side while `dur` does not change. -/
theorem dsys_trace_full {x0 : Bool × St} {tr : List (Bool × St)} {p : Page}
    (hacc : accept (x0 :: tr) = true)
    (hnc : ∀ x ∈ tr, x.1 = false)
    (hdur : ∀ x ∈ tr, x.2.dur = x0.2.dur)
    (hp : p ∈ x0.2.dsys) :
    (∀ x ∈ x0 :: tr, p ∈ x.2.alloc ∧ p ∈ x.2.dsys ∧
      (owner x.2 p = some .sys ∨ ∃ t, x0.2.dur < t ∧ owner x.2 p = some (.sfreed t))) ∧
    (∀ pre x y post, x0 :: tr = pre ++ x :: y :: post →
      ∃ o o', owner x.2 p = some o ∧ owner y.2 p = some o' ∧ DsysMove x.2 o o') := by
  have hdur' : ∀ x ∈ x0 :: tr, x.2.dur = x0.2.dur := by
    intro x hx
    rcases List.mem_cons.1 hx with rfl | hx
    · rfl
    · exact hdur x hx
  have hc := dsys_const hnc hdur (accept_iff.1 hacc).2
  have hd : ∀ x ∈ x0 :: tr, p ∈ x.2.dsys := fun x hx => by rw [hc x hx]; exact hp
  obtain ⟨h1, h2⟩ := dsys_trace hacc hnc hdur' hd
  exact ⟨fun x hx => ⟨(h1 x hx).1, hd x hx, (h1 x hx).2⟩, h2⟩

/-! ### abandoned transactions (`abortOk`) -/

theorem sameSet_iff {a b : List Page} : sameSet a b = true ↔ ∀ p, p ∈ a ↔ p ∈ b := by
  simp only [sameSet, Bool.and_eq_true, List.all_eq_true, List.contains_iff_mem]
  exact ⟨fun ⟨h1, h2⟩ p => ⟨h1 p, h2 p⟩, fun h => ⟨fun p => (h p).1, fun p => (h p).2⟩⟩

theorem records_half {a b : List (Nat × List Page)}
    (h : a.all (fun r => b.any (fun r' => r.1 == r'.1 && sameSet r.2 r'.2)) = true)
    {Q : Nat → Prop} {p : Page} (hx : ∃ r ∈ a, Q r.1 ∧ p ∈ r.2) : ∃ r ∈ b, Q r.1 ∧ p ∈ r.2 := by
  obtain ⟨r, hr, hq, hp⟩ := hx
  simp only [List.all_eq_true, List.any_eq_true, Bool.and_eq_true, beq_iff_eq] at h
  obtain ⟨r', hr', he, hs⟩ := h r hr
  exact ⟨r', hr', he ▸ hq, (sameSet_iff.1 hs p).1 hp⟩

theorem sameRecords_iff_mem {a b : List (Nat × List Page)} (h : sameRecords a b = true)
    {Q : Nat → Prop} {p : Page} :
    (∃ r ∈ a, Q r.1 ∧ p ∈ r.2) ↔ (∃ r ∈ b, Q r.1 ∧ p ∈ r.2) := by
  simp only [sameRecords, Bool.and_eq_true] at h
  exact ⟨records_half h.1, records_half h.2⟩

theorem abortOk_iff {s s' : St} :
    abortOk s s' = true ↔
      sameSet s.alloc s'.alloc = true ∧ sameSet s.data s'.data = true ∧
      sameSet s.sys s'.sys = true ∧ sameRecords s.dfreed s'.dfreed = true ∧
      sameRecords s.sfreed s'.sfreed = true ∧ s.id = s'.id ∧ s.dur = s'.dur ∧
      sameSet s.dsys s'.dsys = true := by
  simp only [abortOk, Bool.and_eq_true, beq_iff_eq, and_assoc]

theorem abort_claims {s s' : St} (h : abortOk s s' = true) {p : Page} {o : Owner} :
    (p, o) ∈ claims s ↔ (p, o) ∈ claims s' := by
  obtain ⟨_, hd, hs, hdf, hsf, _⟩ := abortOk_iff.1 h
  rw [mem_claims, mem_claims, sameSet_iff.1 hd p, sameSet_iff.1 hs p,
    sameRecords_iff_mem hdf (Q := fun t => o = .dfreed t),
    sameRecords_iff_mem hsf (Q := fun t => o = .sfreed t)]

theorem abort_owner {s s' : St} (h : ownOk s = true) (h' : ownOk s' = true)
    (ha : abortOk s s' = true) (p : Page) : owner s' p = owner s p := by
  cases ho : owner s p with
  | some o => exact (owner_eq_some_iff h').2 ((abort_claims ha).1 ((owner_eq_some_iff h).1 ho))
  | none =>
    have hal := (abortOk_iff.1 ha).1
    rw [owner_eq_none_iff h'] 
    rw [owner_eq_none_iff h] at ho
    exact fun hp => ho ((sameSet_iff.1 hal p).2 hp)

theorem abort_no_trace' {s s' : St} (h : ownOk s = true) (h' : ownOk s' = true)
    (ha : abortOk s s' = true) :
    (∀ p, p ∈ s'.alloc ↔ p ∈ s.alloc) ∧ (∀ p, owner s' p = owner s p) ∧
      s'.id = s.id ∧ s'.dur = s.dur := by
  obtain ⟨hal, _, _, _, _, hid, hdur, _⟩ := abortOk_iff.1 ha
  exact ⟨fun p => (sameSet_iff.1 hal p).symm, abort_owner h h' ha, hid.symm, hdur.symm⟩

theorem abort_reachable {s s' : St} (ha : abortOk s s' = true) {id : Nat} {p : Page} :
    p ∈ reachableFrom s id ↔ p ∈ reachableFrom s' id := by
  obtain ⟨_, hd, _, hdf, _⟩ := abortOk_iff.1 ha
  rw [mem_reachableFrom, mem_reachableFrom, sameSet_iff.1 hd p,
    sameRecords_iff_mem hdf (Q := fun t => id < t)]

theorem abort_sysReachable {s s' : St} (ha : abortOk s s' = true) {id : Nat} {p : Page} :
    p ∈ sysReachableFrom s id ↔ p ∈ sysReachableFrom s' id := by
  obtain ⟨_, _, hs, _, hsf, _⟩ := abortOk_iff.1 ha
  rw [mem_sysReachableFrom, mem_sysReachableFrom, sameSet_iff.1 hs p,
    sameRecords_iff_mem hsf (Q := fun t => id < t)]

theorem abort_pinOk {s s' : St} (ha : abortOk s s' = true) (hp : pinOk s = true)
    (hpins : s'.pins = s.pins) : pinOk s' = true := by
  obtain ⟨_, _, _, _, _, hid, hdur, hds⟩ := abortOk_iff.1 ha
  obtain ⟨h1, h2, h3, h4⟩ := pin_iff.1 hp
  rw [pin_iff, hpins, ← hid, ← hdur]
  refine ⟨fun π hπ p hpp => (abort_reachable ha).1 (h1 π hπ p hpp),
    fun p hpd => (abort_sysReachable ha).1 (h2 p ((sameSet_iff.1 hds p).2 hpd)), h3, h4⟩

theorem abort_moves {s s' : St} (h : ownOk s = true) (h' : ownOk s' = true)
    (ha : abortOk s s' = true) : s.alloc.all (moveOk s s') = true := by
  rw [List.all_eq_true]
  intro p _
  unfold moveOk
  rw [abort_owner h h' ha p]
  cases owner s p with
  | none => rfl
  | some o => simp

end Redb.Life
