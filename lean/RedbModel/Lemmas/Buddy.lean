import RedbModel.Model.Buddy
/-!
Definitions (`FreeAt`, `PageFree`, `Inv`) and helper lemmas for the buddy allocator model.
The property theorems that use them are in `Props/C14.lean`.
-/
namespace Redb.Buddy

/-- block `i` of order `o` exists and is free at exactly this order -/
def FreeAt (f : List Bits) (o i : Nat) : Prop := i < lenAt f o ∧ getBit f o i = false

/-- order-0 page `p` is free: covered by a free block of some order `≤ mo` -/
def PageFree (mo : Nat) (f : List Bits) (p : Nat) : Prop := ∃ o, o ≤ mo ∧ FreeAt f o (p / 2 ^ o)

/-- The allocator invariant: shape, "a page is free at one order at most" (no double
allocation possible), and "buddies are merged" (space is available at the largest order). -/
structure Inv (mo len : Nat) (f : List Bits) : Prop where
  size : f.length = mo + 1
  lens : ∀ o, o ≤ mo → lenAt f o = len / 2 ^ o
  unique : ∀ p o₁ o₂, o₁ ≤ mo → o₂ ≤ mo →
    FreeAt f o₁ (p / 2 ^ o₁) → FreeAt f o₂ (p / 2 ^ o₂) → o₁ = o₂
  merged : ∀ o i, o < mo → FreeAt f o i → ¬ FreeAt f o (i ^^^ 1)

theorem new_inv (n cap : Nat) (hc : 0 < cap) (hn : n ≤ cap) :
    Inv (usableOrder cap) n (Buddy.new n cap).free ∧
    ∀ p, p < n → PageFree (usableOrder cap) (Buddy.new n cap).free p := by
  sorry

theorem allocInner_sound (mo len : Nat) (f f' : List Bits) (o i : Nat)
    (h : Inv mo len f) (ha : allocInner mo f o = some (i, f')) :
    Inv mo len f' ∧ (i + 1) * 2 ^ o ≤ len ∧
    (∀ p, p / 2 ^ o = i → PageFree mo f p ∧ ¬ PageFree mo f' p) ∧
    (∀ p, p / 2 ^ o ≠ i → (PageFree mo f' p ↔ PageFree mo f p)) := by
  sorry

theorem allocInner_complete (mo len : Nat) (f : List Bits) (o : Nat)
    (h : Inv mo len f) (ha : allocInner mo f o = none) :
    ¬ ∃ i, o ≤ mo ∧ (i + 1) * 2 ^ o ≤ len ∧ ∀ p, p / 2 ^ o = i → PageFree mo f p := by
  sorry

theorem freeInner_spec (mo len : Nat) (f : List Bits) (p o : Nat)
    (h : Inv mo len f) (ho : o ≤ mo) (hr : (p + 1) * 2 ^ o ≤ len)
    (hheld : ∀ q, q / 2 ^ o = p → ¬ PageFree mo f q) :
    Inv mo len (freeInner mo f p o).1 ∧
    (∀ q, PageFree mo (freeInner mo f p o).1 q ↔ (PageFree mo f q ∨ q / 2 ^ o = p)) ∧
    o ≤ (freeInner mo f p o).2 ∧ (freeInner mo f p o).2 ≤ mo ∧
    FreeAt (freeInner mo f p o).1 (freeInner mo f p o).2 (p / 2 ^ ((freeInner mo f p o).2 - o)) := by
  sorry

theorem recordAllocInner_spec (mo len : Nat) (f : List Bits) (p o : Nat) (h : Inv mo len f) :
    ((recordAllocInner mo f p o).isSome ↔
      (o ≤ mo ∧ (p + 1) * 2 ^ o ≤ len ∧ ∀ q, q / 2 ^ o = p → PageFree mo f q)) ∧
    (∀ f', recordAllocInner mo f p o = some f' →
      Inv mo len f' ∧ (∀ q, PageFree mo f' q ↔ (PageFree mo f q ∧ q / 2 ^ o ≠ p))) := by
  sorry

end Redb.Buddy
