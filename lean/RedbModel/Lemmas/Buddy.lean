import RedbModel.Model.Buddy
/-!
Definitions (`FreeAt`, `PageFree`, `Inv`) and helper lemmas for the buddy allocator model.
The property theorems that use them are in `Props/C14.lean`.
-/
namespace Redb.Buddy

/-- block `i` of order `o` exists and is free at exactly this order -/
def FreeAt (f : List Bits) (o i : Nat) : Prop := i < lenAt f o ∧ getBit f o i = false

/-- order-0 page `p` is free: covered by a free block of some order `≤ mo` -/
def PageFree (mo : Nat) (f : List Bits) (p : Nat) : Prop := ∃ o, o ≤ mo ∧ FreeAt f o (p / 2 ^ o)

/-- The allocator invariant: shape, "a page is free at one order at most" (no double
allocation possible), and "buddies are merged" (space is available at the largest order). -/
structure Inv (mo len : Nat) (f : List Bits) : Prop where
  size : f.length = mo + 1
  lens : ∀ o, o ≤ mo → lenAt f o = len / 2 ^ o
  unique : ∀ p o₁ o₂, o₁ ≤ mo → o₂ ≤ mo →
    FreeAt f o₁ (p / 2 ^ o₁) → FreeAt f o₂ (p / 2 ^ o₂) → o₁ = o₂
  merged : ∀ o i, o < mo → FreeAt f o i → ¬ FreeAt f o (i ^^^ 1)

/-! ### bit-level basics -/

theorem length_setBit (f : List Bits) (o i : Nat) (v : Bool) :
    (setBit f o i v).length = f.length := by
  simp [setBit]

theorem lenAt_setBit (f : List Bits) (o i : Nat) (v : Bool) (o' : Nat) :
    lenAt (setBit f o i v) o' = lenAt f o' := by
  simp [lenAt, setBit, List.getD_eq_getElem?_getD, List.getElem?_modify]
  grind

theorem getBit_setBit (f : List Bits) (o i : Nat) (v : Bool) (o' i' : Nat) :
    getBit (setBit f o i v) o' i' =
      if o' = o ∧ i' = i ∧ i < lenAt f o then v else getBit f o' i' := by
  simp [getBit, lenAt, setBit, List.getD_eq_getElem?_getD, List.getElem?_modify]
  grind

theorem freeAt_setBit_true (f : List Bits) (o i o' i' : Nat) :
    FreeAt (setBit f o i true) o' i' ↔ FreeAt f o' i' ∧ ¬ (o' = o ∧ i' = i) := by
  simp only [FreeAt, lenAt_setBit, getBit_setBit]
  grind

theorem freeAt_setBit_false (f : List Bits) (o i o' i' : Nat) (hi : i < lenAt f o) :
    FreeAt (setBit f o i false) o' i' ↔ FreeAt f o' i' ∨ (o' = o ∧ i' = i) := by
  simp only [FreeAt, lenAt_setBit, getBit_setBit]
  grind

theorem firstUnset_some (f : List Bits) (o x : Nat) (h : firstUnset (f.getD o []) = some x) :
    FreeAt f o x := by
  simp only [firstUnset] at h
  simp only [FreeAt, lenAt, getBit]
  rw [List.findIdx?_eq_some_iff_getElem] at h
  grind

theorem firstUnset_none (f : List Bits) (o : Nat) (h : firstUnset (f.getD o []) = none) (i : Nat) :
    ¬ FreeAt f o i := by
  simp only [firstUnset, List.findIdx?_eq_none_iff] at h
  simp only [FreeAt, lenAt, getBit]
  intro ⟨h1, h2⟩
  have := h _ (List.getElem_mem h1)
  grind

/-! ### arithmetic -/

theorem xor_one_div (i : Nat) : (i ^^^ 1) / 2 = i / 2 := by simp [Nat.xor_div_two]
theorem xor_one_mod (i : Nat) : (i ^^^ 1) % 2 = (i + 1) % 2 := by
  have := @Nat.xor_mod_two_eq_one i 1
  omega
theorem xor_one_eq (i : Nat) : i ^^^ 1 = if i % 2 = 0 then i + 1 else i - 1 := by
  have := xor_one_div i; have := xor_one_mod i; split <;> omega

theorem div_pow_succ (p o : Nat) : p / 2 ^ (o + 1) = p / 2 ^ o / 2 := by
  rw [Nat.pow_succ, Nat.div_div_eq_div_mul]

theorem div_pow_succ' (p o : Nat) : p / 2 ^ (o + 1) = p / 2 / 2 ^ o := by
  rw [Nat.pow_succ', Nat.div_div_eq_div_mul]

theorem div_pow_add (p a b : Nat) : p / 2 ^ (a + b) = p / 2 ^ a / 2 ^ b := by
  rw [Nat.pow_add, Nat.div_div_eq_div_mul]

theorem range_iff (i o len : Nat) : (i + 1) * 2 ^ o ≤ len ↔ i < len / 2 ^ o := by
  rw [Nat.lt_iff_add_one_le, Nat.le_div_iff_mul_le (Nat.two_pow_pos o)]


/-! ### abstract state transitions -/

theorem pageFree_lt {mo len : Nat} {f : List Bits} (h : Inv mo len f) {q : Nat}
    (hq : PageFree mo f q) : q < len := by
  obtain ⟨o, ho, h1, _⟩ := hq
  rw [h.lens o ho] at h1
  have := (range_iff (q / 2 ^ o) o len).2 h1
  have := Nat.lt_succ_iff.2 (Nat.div_mul_le_self q (2 ^ o))
  have hp := Nat.two_pow_pos o
  have := Nat.lt_div_mul_add (a := q) hp
  rw [Nat.add_mul] at *
  omega

theorem block_nonempty (o j : Nat) : (j * 2 ^ o) / 2 ^ o = j :=
  Nat.mul_div_cancel j (Nat.two_pow_pos o)

theorem freeAt_pageFree {mo : Nat} {f : List Bits} {o j q : Nat} (ho : o ≤ mo)
    (h : FreeAt f o j) (hq : q / 2 ^ o = j) : PageFree mo f q :=
  ⟨o, ho, hq ▸ h⟩

/-- marking a block that is free at order `o` as used -/
theorem mark_used {mo len : Nat} {f : List Bits} {o j : Nat} (h : Inv mo len f) (ho : o ≤ mo)
    (hf : FreeAt f o j) :
    Inv mo len (setBit f o j true) ∧
    ∀ q, PageFree mo (setBit f o j true) q ↔ (PageFree mo f q ∧ q / 2 ^ o ≠ j) := by
  refine ⟨⟨?_, ?_, ?_, ?_⟩, ?_⟩
  · rw [length_setBit, h.size]
  · intro o' ho'; rw [lenAt_setBit, h.lens o' ho']
  · intro p o₁ o₂ h1 h2 hf1 hf2
    rw [freeAt_setBit_true] at hf1 hf2
    exact h.unique p o₁ o₂ h1 h2 hf1.1 hf2.1
  · intro o' i ho' hf1 hf2
    rw [freeAt_setBit_true] at hf1 hf2
    exact h.merged o' i ho' hf1.1 hf2.1
  · intro q
    constructor
    · rintro ⟨o', ho', hf'⟩
      rw [freeAt_setBit_true] at hf'
      refine ⟨⟨o', ho', hf'.1⟩, ?_⟩
      intro hq
      have := h.unique q o' o ho' ho hf'.1 (hq ▸ hf)
      exact hf'.2 ⟨this, this ▸ hq⟩
    · rintro ⟨⟨o', ho', hf'⟩, hq⟩
      refine ⟨o', ho', ?_⟩
      rw [freeAt_setBit_true]
      refine ⟨hf', ?_⟩
      rintro ⟨rfl, h2⟩
      exact hq h2

/-- marking a block none of whose pages is free as free at order `o`, when its buddy is not
free at that order (or `o` is the top order) -/
theorem mark_free {mo len : Nat} {f : List Bits} {o j : Nat} (h : Inv mo len f) (ho : o ≤ mo)
    (hr : j < len / 2 ^ o) (hheld : ∀ q, q / 2 ^ o = j → ¬ PageFree mo f q)
    (hb : o < mo → ¬ FreeAt f o (j ^^^ 1)) :
    Inv mo len (setBit f o j false) ∧
    ∀ q, PageFree mo (setBit f o j false) q ↔ (PageFree mo f q ∨ q / 2 ^ o = j) := by
  have hj : j < lenAt f o := by rw [h.lens o ho]; exact hr
  refine ⟨⟨?_, ?_, ?_, ?_⟩, ?_⟩
  · rw [length_setBit, h.size]
  · intro o' ho'; rw [lenAt_setBit, h.lens o' ho']
  · intro p o₁ o₂ h1 h2 hf1 hf2
    rw [freeAt_setBit_false _ _ _ _ _ hj] at hf1 hf2
    rcases hf1 with hf1 | ⟨d1, e1⟩ <;> rcases hf2 with hf2 | ⟨d2, e2⟩
    · exact h.unique p o₁ o₂ h1 h2 hf1 hf2
    · subst d2; exact absurd (freeAt_pageFree h1 hf1 rfl) (hheld p e2)
    · subst d1; exact absurd (freeAt_pageFree h2 hf2 rfl) (hheld p e1)
    · omega
  · intro o' i ho' hf1 hf2
    rw [freeAt_setBit_false _ _ _ _ _ hj] at hf1 hf2
    have hx := xor_one_eq i
    have hx' := xor_one_eq j
    rcases hf1 with hf1 | ⟨d1, e1⟩ <;> rcases hf2 with hf2 | ⟨d2, e2⟩
    · exact h.merged o' i ho' hf1 hf2
    · subst d2
      apply hb ho'
      have : j ^^^ 1 = i := by subst e2; split at hx <;> split at hx' <;> omega
      rw [this]; exact hf1
    · subst d1; subst e1; exact hb ho' hf2
    · split at hx <;> omega
  · intro q
    constructor
    · rintro ⟨o', ho', hf'⟩
      rw [freeAt_setBit_false _ _ _ _ _ hj] at hf'
      rcases hf' with hf' | ⟨rfl, e⟩
      · exact Or.inl ⟨o', ho', hf'⟩
      · exact Or.inr e
    · rintro (⟨o', ho', hf'⟩ | e)
      · exact ⟨o', ho', (freeAt_setBit_false _ _ _ _ _ hj).2 (Or.inl hf')⟩
      · exact ⟨o, ho, (freeAt_setBit_false _ _ _ _ _ hj).2 (Or.inr ⟨rfl, e⟩)⟩


/-- pages of a block lie in its ancestors -/
theorem div_pow_of_le {q o o' : Nat} (h : o ≤ o') : q / 2 ^ o' = q / 2 ^ o / 2 ^ (o' - o) := by
  rw [← div_pow_add]; congr 2; omega

/-- a free block covers all sub-blocks -/
theorem freeAt_cover_pageFree {mo : Nat} {f : List Bits} {o o' i q : Nat} (hoo : o ≤ o')
    (ho' : o' ≤ mo) (hf : FreeAt f o' (i / 2 ^ (o' - o))) (hq : q / 2 ^ o = i) :
    PageFree mo f q :=
  ⟨o', ho', by rw [div_pow_of_le hoo, hq]; exact hf⟩

/-- Key fact: under `Inv`, an aligned block all of whose pages are free is contained in a
block that is free at some order `≥` its own. -/
theorem cover {mo len : Nat} {f : List Bits} (h : Inv mo len f) (o : Nat) :
    ∀ i, o ≤ mo → (∀ q, q / 2 ^ o = i → PageFree mo f q) →
      ∃ o', o ≤ o' ∧ o' ≤ mo ∧ FreeAt f o' (i / 2 ^ (o' - o)) := by
  induction o with
  | zero =>
    intro i _ hall
    obtain ⟨o', ho', hf⟩ := hall i (by simp)
    exact ⟨o', Nat.zero_le _, ho', by simpa using hf⟩
  | succ o ih =>
    intro i ho hall
    have hlo : o ≤ mo := by omega
    obtain ⟨o1, h1, h1', hf1⟩ := ih (2 * i) hlo (fun q hq => hall q (by rw [div_pow_succ, hq]; omega))
    obtain ⟨o2, h2, h2', hf2⟩ := ih (2 * i + 1) hlo (fun q hq => hall q (by rw [div_pow_succ, hq]; omega))
    by_cases e1 : o1 = o
    · by_cases e2 : o2 = o
      · subst e1; subst e2
        simp only [Nat.sub_self, Nat.pow_zero, Nat.div_one] at hf1 hf2
        have hx := xor_one_eq (2 * i)
        rw [if_pos (by omega)] at hx
        exact absurd (hx ▸ hf2) (h.merged _ _ (by omega) hf1)
      · refine ⟨o2, by omega, h2', ?_⟩
        have e : o2 - o = (o2 - (o + 1)) + 1 := by omega
        rw [e, div_pow_succ'] at hf2
        have : (2 * i + 1) / 2 = i := by omega
        rwa [this] at hf2
    · refine ⟨o1, by omega, h1', ?_⟩
      have e : o1 - o = (o1 - (o + 1)) + 1 := by omega
      rw [e, div_pow_succ'] at hf1
      have : (2 * i) / 2 = i := by omega
      rwa [this] at hf1

/-! ### `allocInner` -/

theorem allocInner_sound' (mo len : Nat) (f : List Bits) (o : Nat) (h : Inv mo len f) :
    ∀ i f', allocInner mo f o = some (i, f') →
    o ≤ mo ∧ Inv mo len f' ∧ i < len / 2 ^ o ∧
    (∀ p, p / 2 ^ o = i → PageFree mo f p ∧ ¬ PageFree mo f' p) ∧
    (∀ p, p / 2 ^ o ≠ i → (PageFree mo f' p ↔ PageFree mo f p)) := by
  fun_induction allocInner mo f o with
  | case1 o hgt => intro i f' ha; simp at ha
  | case2 o hle x hx =>
    intro i f' ha
    simp only [Option.some.injEq, Prod.mk.injEq] at ha
    obtain ⟨rfl, rfl⟩ := ha
    have ho : o ≤ mo := by omega
    have hf := firstUnset_some f o x hx
    obtain ⟨hinv, hpf⟩ := mark_used h ho hf
    refine ⟨ho, hinv, ?_, ?_, ?_⟩
    · rw [← h.lens o ho]; exact hf.1
    · intro p hp
      exact ⟨freeAt_pageFree ho hf hp, fun hc => ((hpf p).1 hc).2 hp⟩
    · intro p hp
      rw [hpf p]; exact ⟨fun a => a.1, fun a => ⟨a, hp⟩⟩
  | case3 o hle hnone hrec ih => intro i f' ha; simp at ha
  | case4 o hle hnone up f1 hrec ih =>
    intro i f' ha
    simp only [Option.some.injEq, Prod.mk.injEq] at ha
    obtain ⟨rfl, rfl⟩ := ha
    have ho : o ≤ mo := by omega
    obtain ⟨ho1, hinv1, hr1, hin, hout⟩ := ih up f1 hrec
    rw [div_pow_succ] at hr1
    have hx := xor_one_eq (2 * up + 1)
    rw [if_neg (by omega)] at hx
    have hheld : ∀ q, q / 2 ^ o = 2 * up + 1 → ¬ PageFree mo f1 q := fun q hq =>
      (hin q (by rw [div_pow_succ, hq]; omega)).2
    have hb : o < mo → ¬ FreeAt f1 o ((2 * up + 1) ^^^ 1) := by
      intro _ hc
      rw [hx] at hc
      have hq := block_nonempty o (2 * up + 1 - 1)
      exact (hin _ (by rw [div_pow_succ, hq]; omega)).2 (freeAt_pageFree ho hc hq)
    obtain ⟨hinv, hpf⟩ := mark_free hinv1 ho (j := 2 * up + 1) (by omega) hheld hb
    refine ⟨ho, hinv, by omega, ?_, ?_⟩
    · intro p hp
      have hp1 : p / 2 ^ (o + 1) = up := by rw [div_pow_succ, hp]; omega
      refine ⟨(hin p hp1).1, ?_⟩
      rw [hpf p]
      rintro (hc | hc)
      · exact (hin p hp1).2 hc
      · omega
    · intro p hp
      rw [hpf p]
      by_cases hp1 : p / 2 ^ (o + 1) = up
      · have : p / 2 ^ o = 2 * up + 1 := by rw [div_pow_succ] at hp1; omega
        exact ⟨fun _ => (hin p hp1).1, fun _ => Or.inr this⟩
      · have : p / 2 ^ o ≠ 2 * up + 1 := by rw [div_pow_succ] at hp1; omega
        rw [← hout p hp1]
        exact ⟨fun a => a.resolve_right this, Or.inl⟩

theorem allocInner_none (mo : Nat) (f : List Bits) (o : Nat) (ha : allocInner mo f o = none) :
    ∀ o', o ≤ o' → o' ≤ mo → ∀ i, ¬ FreeAt f o' i := by
  fun_induction allocInner mo f o with
  | case1 o hgt => intro o' h1 h2; omega
  | case2 o hle x hx => simp at ha
  | case3 o hle hnone hrec ih =>
    intro o' h1 h2 i
    by_cases e : o' = o
    · subst e; exact firstUnset_none f o' hnone i
    · exact ih hrec o' (by omega) h2 i
  | case4 o hle hnone up f1 hrec ih => simp at ha

theorem allocInner_sound (mo len : Nat) (f f' : List Bits) (o i : Nat)
    (h : Inv mo len f) (ha : allocInner mo f o = some (i, f')) :
    Inv mo len f' ∧ (i + 1) * 2 ^ o ≤ len ∧
    (∀ p, p / 2 ^ o = i → PageFree mo f p ∧ ¬ PageFree mo f' p) ∧
    (∀ p, p / 2 ^ o ≠ i → (PageFree mo f' p ↔ PageFree mo f p)) := by
  obtain ⟨_, h1, h2, h3, h4⟩ := allocInner_sound' mo len f o h i f' ha
  exact ⟨h1, (range_iff _ _ _).2 h2, h3, h4⟩

theorem allocInner_complete (mo len : Nat) (f : List Bits) (o : Nat)
    (h : Inv mo len f) (ha : allocInner mo f o = none) :
    ¬ ∃ i, o ≤ mo ∧ (i + 1) * 2 ^ o ≤ len ∧ ∀ p, p / 2 ^ o = i → PageFree mo f p := by
  rintro ⟨i, ho, _, hall⟩
  obtain ⟨o', h1, h2, hf⟩ := cover h o i ho hall
  exact allocInner_none mo f o ha o' h1 h2 _ hf


/-! ### `recordAllocInner` -/

theorem xor_one_xor_one (i : Nat) : (i ^^^ 1) ^^^ 1 = i := by
  have h1 := xor_one_eq i
  have h2 := xor_one_eq (i ^^^ 1)
  split at h1 <;> split at h2 <;> omega

theorem half_eq_iff (i j : Nat) : j / 2 = i / 2 ↔ (j = i ∨ j = i ^^^ 1) := by
  have h1 := xor_one_eq i
  split at h1 <;> omega

theorem recordAllocInner_some (mo len : Nat) (f : List Bits) (p o : Nat) (h : Inv mo len f) :
    ∀ f', recordAllocInner mo f p o = some f' →
      o ≤ mo ∧ p < len / 2 ^ o ∧ (∀ q, q / 2 ^ o = p → PageFree mo f q) ∧
      Inv mo len f' ∧ (∀ q, PageFree mo f' q ↔ (PageFree mo f q ∧ q / 2 ^ o ≠ p)) := by
  fun_induction recordAllocInner mo f p o with
  | case1 p o hgt => intro f' ha; simp at ha
  | case2 p o hle hlen => intro f' ha; simp at ha
  | case3 p o hle hlen hbit hrec ih => intro f' ha; simp at ha
  | case4 p o hle hlen hbit f1 hrec ih =>
    intro f' ha
    simp only [Option.some.injEq] at ha
    subst ha
    have ho : o ≤ mo := by omega
    obtain ⟨ho1, hr1, hall1, hinv1, hpf1⟩ := ih f1 hrec
    rw [div_pow_succ] at hr1
    have hpl : p < len / 2 ^ o := by rw [← h.lens o ho]; omega
    have hd := xor_one_div p
    have hx := xor_one_eq p
    have hheld : ∀ q, q / 2 ^ o = p ^^^ 1 → ¬ PageFree mo f1 q := fun q hq hc =>
      ((hpf1 q).1 hc).2 (by rw [div_pow_succ, hq, hd])
    have hb : o < mo → ¬ FreeAt f1 o ((p ^^^ 1) ^^^ 1) := by
      intro _ hc
      rw [xor_one_xor_one] at hc
      have hq := block_nonempty o p
      exact ((hpf1 _).1 (freeAt_pageFree ho hc hq)).2 (by rw [div_pow_succ, hq])
    obtain ⟨hinv, hpf⟩ := mark_free hinv1 ho (j := p ^^^ 1) (by split at hx <;> omega) hheld hb
    refine ⟨ho, hpl, fun q hq => hall1 q (by rw [div_pow_succ, hq]), hinv, ?_⟩
    intro q
    rw [hpf q, hpf1 q, div_pow_succ]
    have hh := half_eq_iff p (q / 2 ^ o)
    constructor
    · rintro (⟨a, b⟩ | b)
      · exact ⟨a, fun e => b (by rw [e])⟩
      · exact ⟨hall1 q (by rw [div_pow_succ, b, hd]), by rw [b]; split at hx <;> omega⟩
    · rintro ⟨a, b⟩
      by_cases e : q / 2 ^ o / 2 = p / 2
      · exact Or.inr ((hh.1 e).resolve_left b)
      · exact Or.inl ⟨a, e⟩
  | case5 p o hle hlen hbit =>
    intro f' ha
    simp only [Option.some.injEq] at ha
    subst ha
    have ho : o ≤ mo := by omega
    have hf : FreeAt f o p := ⟨by omega, by simpa using hbit⟩
    obtain ⟨hinv, hpf⟩ := mark_used h ho hf
    refine ⟨ho, by rw [← h.lens o ho]; exact hf.1, fun q hq => freeAt_pageFree ho hf hq, hinv, hpf⟩

theorem recordAllocInner_isSome (mo len : Nat) (f : List Bits) (p o : Nat) (h : Inv mo len f)
    (ho : o ≤ mo) (hr : p < len / 2 ^ o) (hall : ∀ q, q / 2 ^ o = p → PageFree mo f q) :
    (recordAllocInner mo f p o).isSome := by
  fun_induction recordAllocInner mo f p o with
  | case1 p o hgt => omega
  | case2 p o hle hlen => rw [h.lens o ho] at hlen; omega
  | case3 p o hle hlen hbit hrec ih
  | case4 p o hle hlen hbit f1 hrec ih =>
    obtain ⟨o', h1, h2, hf⟩ := cover h o p ho hall
    have hne : o' ≠ o := by
      rintro rfl
      simp only [Nat.sub_self, Nat.pow_zero, Nat.div_one] at hf
      rw [hf.2] at hbit; simp at hbit
    have e : o' - o = (o' - (o + 1)) + 1 := by omega
    rw [e, div_pow_succ'] at hf
    have hall' : ∀ q, q / 2 ^ (o + 1) = p / 2 → PageFree mo f q := fun q hq =>
      freeAt_cover_pageFree (by omega) h2 hf hq
    have hr' : p / 2 < len / 2 ^ (o + 1) := by
      have := hf.1
      rw [h.lens o' h2, div_pow_of_le (show o + 1 ≤ o' by omega)] at this
      exact Nat.lt_of_div_lt_div this
    have := ih (by omega) hr' hall'
    first | (simp [hrec] at this; done) | simp
  | case5 p o hle hlen hbit => simp

theorem recordAllocInner_spec (mo len : Nat) (f : List Bits) (p o : Nat) (h : Inv mo len f) :
    ((recordAllocInner mo f p o).isSome ↔
      (o ≤ mo ∧ (p + 1) * 2 ^ o ≤ len ∧ ∀ q, q / 2 ^ o = p → PageFree mo f q)) ∧
    (∀ f', recordAllocInner mo f p o = some f' →
      Inv mo len f' ∧ (∀ q, PageFree mo f' q ↔ (PageFree mo f q ∧ q / 2 ^ o ≠ p))) := by
  refine ⟨⟨?_, ?_⟩, ?_⟩
  · intro hs
    obtain ⟨f', hf'⟩ := Option.isSome_iff_exists.1 hs
    obtain ⟨h1, h2, h3, _⟩ := recordAllocInner_some mo len f p o h f' hf'
    exact ⟨h1, (range_iff _ _ _).2 h2, h3⟩
  · rintro ⟨h1, h2, h3⟩
    exact recordAllocInner_isSome mo len f p o h h1 ((range_iff _ _ _).1 h2) h3
  · intro f' hf'
    obtain ⟨_, _, _, h4, h5⟩ := recordAllocInner_some mo len f p o h f' hf'
    exact ⟨h4, h5⟩


/-! ### `freeInner` -/

theorem freeInner_spec' (mo len : Nat) (f : List Bits) (p o : Nat) :
    Inv mo len f → o ≤ mo → p < len / 2 ^ o → (∀ q, q / 2 ^ o = p → ¬ PageFree mo f q) →
    Inv mo len (freeInner mo f p o).1 ∧
    (∀ q, PageFree mo (freeInner mo f p o).1 q ↔ (PageFree mo f q ∨ q / 2 ^ o = p)) ∧
    o ≤ (freeInner mo f p o).2 ∧ (freeInner mo f p o).2 ≤ mo ∧
    FreeAt (freeInner mo f p o).1 (freeInner mo f p o).2 (p / 2 ^ ((freeInner mo f p o).2 - o)) := by
  fun_induction freeInner mo f p o with
  | case1 f p o hge =>
    intro h ho hr hheld
    obtain ⟨hinv, hpf⟩ := mark_free h ho hr hheld (by omega)
    refine ⟨hinv, hpf, Nat.le_refl _, ho, ?_⟩
    simp only [Nat.sub_self, Nat.pow_zero, Nat.div_one]
    exact (freeAt_setBit_false _ _ _ _ _ (by rw [h.lens o ho]; exact hr)).2 (Or.inr ⟨rfl, rfl⟩)
  | case2 f p o hlt buddy hcond =>
    intro h ho hr hheld
    have hb : ¬ FreeAt f o (p ^^^ 1) := by
      intro hc
      simp only [Bool.or_eq_true, decide_eq_true_eq] at hcond
      rcases hcond with hc1 | hc1
      · exact absurd hc.1 (by omega)
      · rw [hc.2] at hc1; simp at hc1
    obtain ⟨hinv, hpf⟩ := mark_free h ho hr hheld (fun _ => hb)
    refine ⟨hinv, hpf, Nat.le_refl _, ho, ?_⟩
    simp only [Nat.sub_self, Nat.pow_zero, Nat.div_one]
    exact (freeAt_setBit_false _ _ _ _ _ (by rw [h.lens o ho]; exact hr)).2 (Or.inr ⟨rfl, rfl⟩)
  | case3 f p o hlt buddy hcond ih =>
    intro h ho hr hheld
    have hb : FreeAt f o (p ^^^ 1) := by
      simp only [Bool.or_eq_true, decide_eq_true_eq, not_or] at hcond
      exact ⟨by omega, by simpa using hcond.2⟩
    obtain ⟨hinv1, hpf1⟩ := mark_used h ho hb
    have hd := xor_one_div p
    have hx := xor_one_eq p
    have hbl : p ^^^ 1 < len / 2 ^ o := by rw [← h.lens o ho]; exact hb.1
    have hh := fun j => half_eq_iff p j
    have hheld1 : ∀ q, q / 2 ^ (o + 1) = p / 2 → ¬ PageFree mo (setBit f o buddy true) q := by
      intro q hq hc
      rw [div_pow_succ] at hq
      have hc' := (hpf1 q).1 hc
      rcases (hh _).1 hq with e | e
      · exact hheld q e hc'.1
      · exact hc'.2 e
    obtain ⟨hinv, hpf, hlo, hhi, hfree⟩ := ih hinv1 (by omega)
      (by rw [div_pow_succ]; split at hx <;> omega) hheld1
    refine ⟨hinv, ?_, by omega, hhi, ?_⟩
    · intro q
      rw [hpf q, hpf1 q, div_pow_succ]
      constructor
      · rintro (⟨a, _⟩ | b)
        · exact Or.inl a
        · rcases (hh _).1 b with e | e
          · exact Or.inr e
          · exact Or.inl (freeAt_pageFree ho hb e)
      · rintro (a | b)
        · by_cases e : q / 2 ^ o = p ^^^ 1
          · exact Or.inr (by rw [e, hd])
          · exact Or.inl ⟨a, e⟩
        · exact Or.inr (by rw [b])
    · have e : (freeInner mo (setBit f o buddy true) (p / 2) (o + 1)).2 - o =
          ((freeInner mo (setBit f o buddy true) (p / 2) (o + 1)).2 - (o + 1)) + 1 := by omega
      rw [e, div_pow_succ']
      exact hfree

theorem freeInner_spec (mo len : Nat) (f : List Bits) (p o : Nat)
    (h : Inv mo len f) (ho : o ≤ mo) (hr : (p + 1) * 2 ^ o ≤ len)
    (hheld : ∀ q, q / 2 ^ o = p → ¬ PageFree mo f q) :
    Inv mo len (freeInner mo f p o).1 ∧
    (∀ q, PageFree mo (freeInner mo f p o).1 q ↔ (PageFree mo f q ∨ q / 2 ^ o = p)) ∧
    o ≤ (freeInner mo f p o).2 ∧ (freeInner mo f p o).2 ≤ mo ∧
    FreeAt (freeInner mo f p o).1 (freeInner mo f p o).2 (p / 2 ^ ((freeInner mo f p o).2 - o)) :=
  freeInner_spec' mo len f p o h ho ((range_iff _ _ _).1 hr) hheld


/-! ### `Buddy.new` -/

/-- state of the greedy marking in `new` after all orders `≥ k` have been processed -/
structure Marked (mo n k : Nat) (f : List Bits) : Prop where
  size : f.length = mo + 1
  lens : ∀ o, o ≤ mo → lenAt f o = n / 2 ^ o
  free : ∀ o i, o ≤ mo →
    (FreeAt f o i ↔ (k ≤ o ∧ i < n / 2 ^ o ∧ (o < mo → n / 2 ^ (o + 1) ≤ i / 2)))

theorem markFreeAt_spec (num o : Nat) (fuel : Nat) :
    ∀ (a : Nat) (f : List Bits), a ≤ num / 2 ^ o → num / 2 ^ o - a < fuel →
      num / 2 ^ o ≤ lenAt f o →
      (markFreeAt num o fuel (a * 2 ^ o) f).1 = num / 2 ^ o * 2 ^ o ∧
      (markFreeAt num o fuel (a * 2 ^ o) f).2.length = f.length ∧
      (∀ o', lenAt (markFreeAt num o fuel (a * 2 ^ o) f).2 o' = lenAt f o') ∧
      (∀ o' i', FreeAt (markFreeAt num o fuel (a * 2 ^ o) f).2 o' i' ↔
        (FreeAt f o' i' ∨ (o' = o ∧ a ≤ i' ∧ i' < num / 2 ^ o))) := by
  induction fuel with
  | zero => intro a f _ h; omega
  | succ fuel ih =>
    intro a f ha hfuel hlen
    have hcond : a * 2 ^ o + 2 ^ o ≤ num ↔ a < num / 2 ^ o := by
      rw [← range_iff, Nat.add_mul, Nat.one_mul]
    unfold markFreeAt
    by_cases hc : a < num / 2 ^ o
    · rw [if_pos (hcond.2 hc)]
      have e : a * 2 ^ o + 2 ^ o = (a + 1) * 2 ^ o := by rw [Nat.add_mul, Nat.one_mul]
      rw [e, block_nonempty]
      have hal : a < lenAt f o := by omega
      obtain ⟨h1, h2, h3, h4⟩ := ih (a + 1) (setBit f o a false) (by omega) (by omega)
        (by rw [lenAt_setBit]; exact hlen)
      refine ⟨h1, by rw [h2, length_setBit], fun o' => by rw [h3, lenAt_setBit], ?_⟩
      intro o' i'
      rw [h4, freeAt_setBit_false _ _ _ _ _ hal]
      constructor
      · rintro ((h | ⟨rfl, rfl⟩) | ⟨rfl, h5, h6⟩)
        · exact Or.inl h
        · exact Or.inr ⟨rfl, Nat.le_refl _, hc⟩
        · exact Or.inr ⟨rfl, by omega, h6⟩
      · rintro (h | ⟨rfl, h5, h6⟩)
        · exact Or.inl (Or.inl h)
        · by_cases e : i' = a
          · exact Or.inl (Or.inr ⟨rfl, e⟩)
          · exact Or.inr ⟨rfl, by omega, h6⟩
    · rw [if_neg (fun h => hc (hcond.1 h))]
      have : a = num / 2 ^ o := by omega
      refine ⟨by simp [this], rfl, fun _ => rfl, ?_⟩
      intro o' i'
      constructor
      · exact Or.inl
      · rintro (h | ⟨_, h5, h6⟩)
        · exact h
        · omega


/-- value of the `accounted` counter after all orders `≥ k` have been processed -/
def accOf (mo n k : Nat) : Nat := if k ≤ mo then n / 2 ^ k * 2 ^ k else 0

theorem marked_step (mo n k : Nat) (f : List Bits) (hk : k ≤ mo) (h : Marked mo n (k + 1) f) :
    (markFreeAt n k (n + 1) (accOf mo n (k + 1)) f).1 = accOf mo n k ∧
    Marked mo n k (markFreeAt n k (n + 1) (accOf mo n (k + 1)) f).2 := by
  have hdiv : n / 2 ^ k ≤ n := Nat.div_le_self _ _
  have hsucc := div_pow_succ n k
  -- the starting block index at order `k`
  have hacc : ∃ a, accOf mo n (k + 1) = a * 2 ^ k ∧ a ≤ n / 2 ^ k ∧
      (∀ i, i < n / 2 ^ k → (a ≤ i ↔ (k < mo → n / 2 ^ (k + 1) ≤ i / 2))) := by
    unfold accOf
    by_cases hkm : k + 1 ≤ mo
    · refine ⟨2 * (n / 2 ^ (k + 1)), ?_, by omega, fun i hi => by omega⟩
      rw [if_pos hkm, Nat.pow_succ]
      ac_rfl
    · exact ⟨0, by rw [if_neg hkm]; simp, Nat.zero_le _, fun i hi => by omega⟩
  obtain ⟨a, ha, hale, hai⟩ := hacc
  rw [ha]
  obtain ⟨h1, h2, h3, h4⟩ := markFreeAt_spec n k (n + 1) a f hale (by omega)
    (by rw [h.lens k hk]; exact Nat.le_refl _)
  refine ⟨by rw [h1, accOf, if_pos hk], ⟨by rw [h2, h.size], fun o ho => by rw [h3, h.lens o ho], ?_⟩⟩
  intro o i ho
  rw [h4, h.free o i ho]
  constructor
  · rintro (⟨a1, a2, a3⟩ | ⟨rfl, a2, a3⟩)
    · exact ⟨by omega, a2, a3⟩
    · exact ⟨Nat.le_refl _, a3, (hai i a3).1 a2⟩
  · rintro ⟨a1, a2, a3⟩
    by_cases e : o = k
    · subst e; exact Or.inr ⟨rfl, (hai i a2).2 a3, a2⟩
    · exact Or.inl ⟨by omega, a2, a3⟩

theorem marked_fold (mo n : Nat) (k : Nat) :
    ∀ (s : Nat × List Bits), k ≤ mo + 1 → s.1 = accOf mo n k → Marked mo n k s.2 →
      Marked mo n 0 ((List.range k).reverse.foldl
        (fun (s : Nat × List Bits) o => markFreeAt n o (n + 1) s.1 s.2) s).2 := by
  induction k with
  | zero => intro s _ _ h; simpa using h
  | succ k ih =>
    intro s hk hs h
    rw [List.range_succ, List.reverse_append, List.reverse_singleton, List.singleton_append,
      List.foldl_cons]
    obtain ⟨h1, h2⟩ := marked_step mo n k s.2 (by omega) h
    rw [← hs] at h1 h2
    exact ih _ (by omega) h1 h2

theorem marked_init (mo n : Nat) :
    Marked mo n (mo + 1)
      ((List.range (mo + 1)).map (fun o => List.replicate (n >>> o) true)) := by
  refine ⟨by simp, ?_, ?_⟩
  · intro o ho
    have : o < mo + 1 := by omega
    simp [lenAt, List.getD_eq_getElem?_getD, this, Nat.shiftRight_eq_div_pow]
  · intro o i ho
    have : o < mo + 1 := by omega
    constructor
    · rintro ⟨h1, h2⟩
      simp [getBit, lenAt, List.getD_eq_getElem?_getD, this] at h1 h2
      simp [h1] at h2
    · intro h; omega

theorem marked_inv (mo n : Nat) (f : List Bits) (h : Marked mo n 0 f) :
    Inv mo n f ∧ ∀ p, p < n → PageFree mo f p := by
  refine ⟨⟨h.size, h.lens, ?_, ?_⟩, ?_⟩
  · -- a page is free at one order at most
    have key : ∀ p o₁ o₂, o₁ < o₂ → o₂ ≤ mo → FreeAt f o₁ (p / 2 ^ o₁) →
        FreeAt f o₂ (p / 2 ^ o₂) → False := by
      intro p o₁ o₂ hlt h2 hf1 hf2
      obtain ⟨_, _, a⟩ := (h.free o₁ _ (by omega)).1 hf1
      obtain ⟨_, b, _⟩ := (h.free o₂ _ h2).1 hf2
      have a := a (by omega)
      rw [← div_pow_succ] at a
      rw [div_pow_of_le (show o₁ + 1 ≤ o₂ by omega) (q := p),
        div_pow_of_le (show o₁ + 1 ≤ o₂ by omega) (q := n)] at b
      exact absurd (Nat.div_le_div_right (c := 2 ^ (o₂ - (o₁ + 1))) a) (by omega)
    intro p o₁ o₂ h1 h2 hf1 hf2
    rcases Nat.lt_trichotomy o₁ o₂ with hlt | heq | hgt
    · exact (key p o₁ o₂ hlt h2 hf1 hf2).elim
    · exact heq
    · exact (key p o₂ o₁ hgt h1 hf2 hf1).elim
  · intro o i ho hf1 hf2
    obtain ⟨_, a1, a2⟩ := (h.free o i (by omega)).1 hf1
    obtain ⟨_, b1, b2⟩ := (h.free o _ (by omega)).1 hf2
    have a2 := a2 ho
    have hx := xor_one_eq i
    rw [div_pow_succ] at a2
    split at hx <;> omega
  · intro p hp
    -- descending search for the order at which `p` is free
    have key : ∀ d, d ≤ mo → PageFree mo f p ∨ n / 2 ^ (mo - d) ≤ p / 2 ^ (mo - d) := by
      intro d
      induction d with
      | zero =>
        intro _
        by_cases hc : p / 2 ^ mo < n / 2 ^ mo
        · exact Or.inl ⟨mo, Nat.le_refl _,
            (h.free mo _ (Nat.le_refl _)).2 ⟨Nat.zero_le _, hc, fun hh => absurd hh (Nat.lt_irrefl _)⟩⟩
        · exact Or.inr (by simpa using hc)
      | succ d ih =>
        intro hd
        rcases ih (by omega) with hfree | hge
        · exact Or.inl hfree
        · have e : mo - d = (mo - (d + 1)) + 1 := by omega
          rw [e] at hge
          by_cases hc : p / 2 ^ (mo - (d + 1)) < n / 2 ^ (mo - (d + 1))
          · refine Or.inl ⟨mo - (d + 1), by omega, (h.free _ _ (by omega)).2
              ⟨Nat.zero_le _, hc, fun _ => ?_⟩⟩
            rw [← div_pow_succ]; exact hge
          · exact Or.inr (by omega)
    rcases key mo (Nat.le_refl _) with hfree | hge
    · exact hfree
    · simp at hge; omega

-- `hc`, `hn` are part of the contract statement; the proof does not need them.
set_option linter.unusedVariables false in
theorem new_inv (n cap : Nat) (hc : 0 < cap) (hn : n ≤ cap) :
    Inv (usableOrder cap) n (Buddy.new n cap).free ∧
    ∀ p, p < n → PageFree (usableOrder cap) (Buddy.new n cap).free p := by
  apply marked_inv
  unfold Buddy.new
  exact marked_fold (usableOrder cap) n (usableOrder cap + 1) _ (Nat.le_refl _)
    (by rw [accOf, if_neg (by omega)]) (marked_init _ _)

end Redb.Buddy
