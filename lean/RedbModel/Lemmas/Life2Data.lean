import RedbModel.Lemmas.Life2Set
/-! `dataStep`: the data tree of the committing transaction replaces the latest one; the pages it
made unreachable are recorded, the pages it gained are allocated (and tracked). With a restored
savepoint the working tree is the savepoint's and the pages allocated after it are queued. -/
namespace Redb.Life2

theorem mem_queued {s : St} {i p : Nat} :
    p ∈ pagesOf (above i s.dalloc) ++ pagesOf (above i s.ualloc) ↔ allocatedAfter s i p := by
  simp only [allocatedAfter, List.mem_append, mem_pagesOf', mem_above]
  grind

theorem queued_nodup {s : St} {i : Nat} (h : (pagesOf s.dalloc ++ pagesOf s.ualloc).Nodup) :
    (pagesOf (above i s.dalloc) ++ pagesOf (above i s.ualloc)).Nodup := by
  rw [nodup_append_iff] at *
  refine ⟨pagesOf_above_nodup h.1, pagesOf_above_nodup h.2.1, ?_⟩
  intro p hp hq
  simp only [mem_pagesOf', mem_above] at hp hq
  apply h.2.2 p
  · obtain ⟨e, he, rfl⟩ := hp
    exact mem_pagesOf'.mpr ⟨e, he.1, rfl⟩
  · obtain ⟨e, he, rfl⟩ := hq
    exact mem_pagesOf'.mpr ⟨e, he.1, rfl⟩

theorem allocatedAfter_mono {s : St} {i j p : Nat} (hij : i ≤ j) (h : allocatedAfter s j p) :
    allocatedAfter s i p := by
  rcases h with ⟨e, he, h1, h2⟩ | ⟨e, he, h1, h2⟩
  · exact Or.inl ⟨e, he, by omega, h2⟩
  · exact Or.inr ⟨e, he, by omega, h2⟩

theorem allocatedAfter_dataStep {s : St} {w : W} {t : Txn} {n i p : Nat} (h : allocatedAfter s i p) :
    allocatedAfter (dataStep s w t n) i p := by
  rcases h with ⟨e, he, h1, h2⟩ | ⟨e, he, h1, h2⟩
  · exact Or.inl ⟨e, he, h1, h2⟩
  · exact Or.inr ⟨e, List.mem_append.mpr (Or.inl he), h1, h2⟩

theorem allocatedAfter_gain {s : St} {w : W} {t : Txn} {n i p : Nat} (hany : s.sps.any (·.valid) = true)
    (hp : p ∈ dataGain w t) (hi : i < n) : allocatedAfter (dataStep s w t n) i p := by
  refine Or.inr ⟨(n, p), ?_, hi, rfl⟩
  show (n, p) ∈ s.ualloc ++ (if s.sps.any (·.valid) = true then tag n (dataGain w t) else [])
  rw [if_pos hany]
  exact List.mem_append.mpr (Or.inr (mem_tag.mpr ⟨rfl, hp⟩))

/-- a held page has no other owner, and its record (if any) is the one that holds it -/
theorem held_unique {cur : Nat} {dead : List Nat} {s : St} {i p : Nat} (h : Core cur dead s) (hp : held s i p) :
    p ∉ s.sys ∧ (∀ e ∈ s.sfreed, e.2 ≠ p) ∧ (∀ e ∈ s.dfreed, e.2 = p → i < e.1) ∧
      (∀ e ∈ s.udfreed, e.2 = p → i < e.1) := by
  obtain ⟨nd1, nd2, nd3, nd4, nd5, x1, x2, x3, x4⟩ := owned_nodup_iff.mp h.own_nodup
  have i3 := @pagesOf_nodup_inj _ nd3
  have i5 := @pagesOf_nodup_inj _ nd5
  have y1 := x1 p
  have y2 := x2 p
  have y3 := x3 p
  have y4 := x4 p
  simp only [held, mem_pagesOf'] at *
  grind

theorem held_dataStep_restore {s : St} {w : W} {t : Txn} {n i p : Nat} {sp : Sp}
    (hr : w.restored = some sp.id) (hb : w.base = sp.pages) (hd : w.dfreed = upTo sp.id s.dfreed)
    (hQ : ∀ p, p ∈ w.queued ↔ allocatedAfter s sp.id p)
    (c1 : ∀ p ∈ s.data, p ∈ sp.pages ∨ allocatedAfter s sp.id p)
    (c2 : ∀ e ∈ s.dfreed ++ s.udfreed, sp.id < e.1 → e.2 ∈ sp.pages ∨ allocatedAfter s sp.id e.2)
    (hi : i < n) (hp : held s i p) : held (dataStep s w t n) i p := by
  simp only [held, dataStep, udfreedKept, dataLost, hr, hb, hd, List.mem_append, mem_upTo, mem_tag, mem_diff, hQ]
    at hp c2 ⊢
  have key : p ∈ sp.pages ∨ allocatedAfter s sp.id p →
      p ∈ t.data ∨ (∃ e, (e ∈ s.dfreed ∧ e.1 ≤ sp.id) ∧ i < e.1 ∧ e.2 = p) ∨
        ∃ e, (e ∈ s.udfreed ∧ e.1 ≤ sp.id ∨ e.1 = n ∧ (allocatedAfter s sp.id e.2 ∨ e.2 ∈ sp.pages ∧ e.2 ∉ t.data)) ∧
          i < e.1 ∧ e.2 = p := by
    intro hk
    by_cases hpt : p ∈ t.data
    · exact Or.inl hpt
    · refine Or.inr (Or.inr ⟨(n, p), Or.inr ⟨rfl, ?_⟩, hi, rfl⟩)
      rcases hk with hk | hk
      · exact Or.inr ⟨hk, hpt⟩
      · exact Or.inl hk
  rcases hp with hp | ⟨e, he, h1, h2⟩ | ⟨e, he, h1, h2⟩
  · exact key (c1 p hp)
  · by_cases hle : e.1 ≤ sp.id
    · exact Or.inr (Or.inl ⟨e, ⟨he, hle⟩, h1, h2⟩)
    · exact key (h2 ▸ c2 e (Or.inl he) (by omega))
  · by_cases hle : e.1 ≤ sp.id
    · exact Or.inr (Or.inr ⟨e, Or.inl ⟨he, hle⟩, h1, h2⟩)
    · exact key (h2 ▸ c2 e (Or.inr he) (by omega))

theorem any_valid {sps : List Sp} {sp : Sp} (h : sp ∈ sps) (hv : sp.valid = true) :
    sps.any (·.valid) = true := List.any_eq_true.mpr ⟨sp, h, hv⟩

theorem al_nodup_add {a b : List (Nat × Nat)} {G : List Nat} {n : Nat} {c : Bool}
    (h : (pagesOf a ++ pagesOf b).Nodup) (hG : G.Nodup) (hd : ∀ p ∈ G, p ∉ pagesOf a ++ pagesOf b) :
    (pagesOf a ++ pagesOf (b ++ if c = true then tag n G else [])).Nodup := by
  cases c
  · simpa using h
  · simp only [if_true, pagesOf_append, pagesOf_tag, nodup_append_iff, List.mem_append] at *
    grind

theorem held_dataStep_plain {s : St} {w : W} {t : Txn} {n i p : Nat}
    (hw : w.restored = none) (hb : w.base = s.data) (hq : w.queued = []) (hd : w.dfreed = s.dfreed)
    (hi : i < n) (hp : held s i p) : held (dataStep s w t n) i p := by
  simp only [held, dataStep, udfreedKept, dataLost, hw, hb, hq, hd, List.mem_append, mem_tag, mem_diff,
    List.nil_append] at *
  rcases hp with hp | hp | ⟨e, he, h1, h2⟩
  · by_cases hpt : p ∈ t.data
    · exact Or.inl hpt
    · exact Or.inr (Or.inr ⟨(n, p), Or.inr ⟨rfl, hp, hpt⟩, hi, rfl⟩)
  · exact Or.inr (Or.inl hp)
  · exact Or.inr (Or.inr ⟨e, Or.inl he, h1, h2⟩)

theorem core_dataStep_plain {s : St} {w : W} {t : Txn} {n : Nat} {dead : List Nat}
    (h : Core s.lastId [] s) (hu : Unp s) (hn : s.lastId < n)
    (hw : w.restored = none) (hb : w.base = s.data) (hq : w.queued = []) (hd : w.dfreed = s.dfreed)
    (hnd : t.data.Nodup) (hfresh : ∀ p ∈ dataGain w t, p ∉ s.alloc) :
    Core n dead (dataStep s w t n) ∧ Unp (dataStep s w t n) := by
  obtain ⟨nd1, nd2, nd3, nd4, nd5, x1, x2, x3, x4⟩ := owned_nodup_iff.mp h.own_nodup
  have hheld : ∀ i p, i < n → held s i p → held (dataStep s w t n) i p :=
    fun i p hi hp => held_dataStep_plain hw hb hq hd hi hp
  have hfr : ∀ p, p ∈ t.data → p ∉ s.data → p ∉ owned s := by
    intro p h1 h2 h3
    exact hfresh p (by simp [dataGain, hb, h1, h2]) (h.owned_alloc p h3)
  have hpinid : ∀ x ∈ s.sps, x.id ≤ s.lastId ∧ ∀ p ∈ x.pages, held s x.id p := by
    intro x hx
    exact h.pin_held (x.id, x.pages) (mem_pins.mpr (Or.inr ⟨x, hx, rfl⟩))
  refine ⟨
    { own_nodup := ?_, alloc_owned := ?_, owned_alloc := ?_, ids := ⟨h.ids.1, Nat.le_of_lt hn⟩, rec_le := ?_,
      pin_held := ?_, img_id := h.img_id, img_data := ?_, img_sys := h.img_sys,
      pend_anc := h.pend_anc, last_pend := h.last_pend, pin_pend := h.pin_pend,
      al_nodup := ?_, al_held := ?_, sp_complete := ?_, sp_after := ?_,
      sp_nodup := h.sp_nodup, sp_sorted := h.sp_sorted, sp_sid := h.sp_sid, psp_ctr := h.psp_ctr },
    { up_empty := hu.up_empty, up_pins := hu.up_pins, up_img := hu.up_img, up_dalloc := hu.up_dalloc }⟩
  · rw [owned_nodup_iff]
    simp only [mem_owned] at hfr
    have := diff_nodup (b := t.data) nd1
    simp only [dataStep, udfreedKept, dataLost, hw, hb, hq, hd, pagesOf_append, pagesOf_tag, nodup_append_iff,
      List.mem_append, mem_diff, List.nil_append]
    grind
  · intro p hp
    simp only [mem_owned] at hfr
    simp only [dataStep, dataGain, hb, List.mem_append, mem_diff] at hp
    have := h.alloc_owned p
    simp only [mem_owned, dataStep, udfreedKept, dataLost, hw, hb, hq, hd, pagesOf_append, pagesOf_tag,
      List.mem_append, mem_diff, List.nil_append] at *
    grind
  · intro p hp
    have := h.owned_alloc p
    simp only [mem_owned, dataStep, udfreedKept, dataLost, dataGain, hw, hb, hq, hd, pagesOf_append, pagesOf_tag,
      List.mem_append, mem_diff, List.nil_append] at *
    grind
  · intro e he
    have := h.rec_le e
    simp only [dataStep, udfreedKept, dataLost, dataGain, hw, hb, hq, hd, List.mem_append, mem_tag,
      List.mem_ite_nil_right, List.nil_append] at *
    grind
  · intro π hπ
    have := h.pin_held π hπ
    exact ⟨this.1, fun p hp => hheld _ _ (by omega) (this.2 p hp)⟩
  · intro p hp
    exact hheld s.durId _ (by have := h.ids; omega) (h.img_data p hp)
  · refine al_nodup_add h.al_nodup (diff_nodup hnd) ?_
    intro p hp hm
    simp only [dataGain, hb, mem_diff] at hp
    rw [← pagesOf_append, mem_pagesOf'] at hm
    obtain ⟨e, he, rfl⟩ := hm
    exact hfr _ hp.1 hp.2 (held_owned (h.al_held e he))
  · intro e he
    have h1 := h.al_held e
    have h2 := h.rec_le e
    simp only [dataStep, dataGain, hb, List.mem_append, List.mem_ite_nil_right, mem_tag, mem_diff] at he h1 h2
    rcases he with he | he | ⟨_, he1, he2, he3⟩
    · exact hheld _ _ (by grind) (h1 (Or.inl he))
    · exact hheld _ _ (by grind) (h1 (Or.inr he))
    · exact Or.inl he2
  · intro x hx hv _
    have hc := h.sp_complete x hx hv List.not_mem_nil
    have hany := any_valid hx hv
    have := (hpinid x hx).1
    simp only [dataStep, udfreedKept, dataLost, dataGain, hw, hb, hq, hd, allocatedAfter, List.mem_append, mem_tag,
      mem_diff, List.mem_ite_nil_right, List.nil_append] at *
    constructor
    · intro p hp
      by_cases hps : p ∈ s.data
      · grind
      · exact Or.inr (Or.inr ⟨(n, p), Or.inr ⟨hany, rfl, hp, hps⟩, by simp; omega, rfl⟩)
    · grind
  · intro x hx e he hlt hmem
    have h1 := h.sp_after x hx e
    have h2 := (hpinid x hx).2 e.2 hmem
    simp only [dataStep, dataGain, hb, List.mem_append, List.mem_ite_nil_right, mem_tag, mem_diff] at he h1
    have := hfr e.2
    have := held_owned h2
    grind

theorem core_dataStep_restore {s : St} {w : W} {t : Txn} {n : Nat} {dead : List Nat} {sp : Sp}
    (h : Core s.lastId [] s) (hu : Unp s) (hn : s.lastId < n)
    (hsp : sp ∈ s.sps) (hv : sp.valid = true) (hr : w.restored = some sp.id) (hb : w.base = sp.pages)
    (hq : w.queued = pagesOf (above sp.id s.dalloc) ++ pagesOf (above sp.id s.ualloc))
    (hd : w.dfreed = upTo sp.id s.dfreed)
    (hdead : ∀ x ∈ s.sps, x.valid = true → sp.sid < x.sid → x.sid ∈ dead)
    (hnd : t.data.Nodup) (hfresh : ∀ p ∈ dataGain w t, p ∉ s.alloc) :
    Core n dead (dataStep s w t n) ∧ Unp (dataStep s w t n) := by
  obtain ⟨nd1, nd2, nd3, nd4, nd5, x1, x2, x3, x4⟩ := owned_nodup_iff.mp h.own_nodup
  have hpinid : ∀ x ∈ s.sps, x.id ≤ s.lastId ∧ ∀ p ∈ x.pages, held s x.id p := by
    intro x hx
    exact h.pin_held (x.id, x.pages) (mem_pins.mpr (Or.inr ⟨x, hx, rfl⟩))
  have hQ : ∀ p, p ∈ w.queued ↔ allocatedAfter s sp.id p := by
    intro p; rw [hq]; exact mem_queued
  have hQnd : w.queued.Nodup := by rw [hq]; exact queued_nodup h.al_nodup
  obtain ⟨c1, c2⟩ := h.sp_complete sp hsp hv List.not_mem_nil
  have hheld : ∀ i p, i < n → held s i p → held (dataStep s w t n) i p :=
    fun i p hi hp => held_dataStep_restore hr hb hd hQ c1 c2 hi hp
  have hspid := (hpinid sp hsp).1
  have hsph := (hpinid sp hsp).2
  -- a page with an allocation record after the savepoint is held at the savepoint
  have hQheld : ∀ p, allocatedAfter s sp.id p → held s sp.id p := by
    intro p hp
    rcases hp with ⟨e, he, h1, rfl⟩ | ⟨e, he, h1, rfl⟩
    · exact held_mono (Nat.le_of_lt h1) (h.al_held e (List.mem_append.mpr (Or.inl he)))
    · exact held_mono (Nat.le_of_lt h1) (h.al_held e (List.mem_append.mpr (Or.inr he)))
  have hQsp : ∀ p ∈ sp.pages, ¬ allocatedAfter s sp.id p := by
    intro p hp hq
    rcases hq with ⟨e, he, h1, rfl⟩ | ⟨e, he, h1, rfl⟩
    · exact h.sp_after sp hsp e (List.mem_append.mpr (Or.inl he)) h1 hp
    · exact h.sp_after sp hsp e (List.mem_append.mpr (Or.inr he)) h1 hp
  have huniq : ∀ p, held s sp.id p → p ∉ s.sys ∧ (∀ e ∈ s.sfreed, e.2 ≠ p) ∧
      (∀ e ∈ s.dfreed, e.2 = p → sp.id < e.1) ∧ (∀ e ∈ s.udfreed, e.2 = p → sp.id < e.1) :=
    fun p hp => held_unique h hp
  have hfr : ∀ p, p ∈ t.data → p ∉ sp.pages → p ∉ owned s := by
    intro p h1 h2 h3
    exact hfresh p (by simp [dataGain, hb, h1, h2]) (h.owned_alloc p h3)
  have hd1 : ∀ p, p ∈ s.data → held s sp.id p := fun p hp => Or.inl hp
  have hd2 : ∀ e ∈ s.dfreed, sp.id < e.1 → held s sp.id e.2 := fun e he hlt => Or.inr (Or.inl ⟨e, he, hlt, rfl⟩)
  have hd3 : ∀ e ∈ s.udfreed, sp.id < e.1 → held s sp.id e.2 := fun e he hlt => Or.inr (Or.inr ⟨e, he, hlt, rfl⟩)
  have hown : ∀ p, held s sp.id p → p ∈ owned s := fun p hp => held_owned hp
  refine ⟨
    { own_nodup := ?_, alloc_owned := ?_, owned_alloc := ?_, ids := ⟨h.ids.1, Nat.le_of_lt hn⟩, rec_le := ?_,
      pin_held := ?_, img_id := h.img_id, img_data := ?_, img_sys := h.img_sys,
      pend_anc := h.pend_anc, last_pend := h.last_pend, pin_pend := h.pin_pend,
      al_nodup := ?_, al_held := ?_, sp_complete := ?_, sp_after := ?_,
      sp_nodup := h.sp_nodup, sp_sorted := h.sp_sorted, sp_sid := h.sp_sid, psp_ctr := h.psp_ctr },
    { up_empty := hu.up_empty, up_pins := hu.up_pins, up_img := hu.up_img, up_dalloc := hu.up_dalloc }⟩
  · rw [owned_nodup_iff]
    have n1 := pagesOf_upTo_nodup (x := sp.id) nd3
    have n2 := pagesOf_upTo_nodup (x := sp.id) nd5
    have n3 := diff_nodup (b := t.data) (h.sp_nodup sp hsp)
    simp only [mem_owned, mem_pagesOf'] at hfr hown x1 x2 x3 x4
    simp only [dataStep, udfreedKept, dataLost, hr, hb, hd, pagesOf_append, pagesOf_tag, nodup_append_iff,
      List.mem_append, mem_diff, mem_pagesOf', mem_upTo, hQ]
    clear hheld hfresh hdead hpinid hq hu
    refine ⟨hnd, nd2, n1, nd4, ⟨n2, ⟨hQnd, n3, ?_⟩, ?_⟩, ?_, ?_, ?_, ?_⟩
    all_goals
      intro p hp
      have a1 := hsph p
      have a2 := hQheld p
      have a3 := hQsp p
      have a4 := huniq p
      have a5 := hfr p
      have a6 := hown p
      have a7 := hd1 p
      have y1 := x1 p
      have y2 := x2 p
      have y3 := x3 p
      have y4 := x4 p
      grind
  · intro p hp
    have a0 := h.alloc_owned p
    have a1 := hsph p
    have a2 := hQheld p
    have a4 := huniq p
    have a7 := hd1 p
    have a8 := c1 p
    simp only [mem_owned, mem_pagesOf'] at a0
    simp only [List.mem_append] at c2
    simp only [dataStep, dataGain, hb, List.mem_append, mem_diff] at hp
    simp only [mem_owned, dataStep, udfreedKept, dataLost, hr, hb, hd, pagesOf_append, pagesOf_tag,
      List.mem_append, mem_diff, mem_pagesOf', mem_upTo, hQ]
    clear hheld hfresh hdead hpinid hq hu x1 x2 x3 x4 hfr hown
    grind
  · intro p hp
    have a0 := h.owned_alloc p
    have a1 := hsph p
    have a2 := hQheld p
    have a6 := hown p
    simp only [mem_owned, mem_pagesOf'] at a0 a6
    simp only [mem_owned, dataStep, udfreedKept, dataLost, hr, hb, hd, pagesOf_append, pagesOf_tag,
      List.mem_append, mem_diff, mem_pagesOf', mem_upTo, hQ] at hp
    simp only [dataStep, dataGain, hb, List.mem_append, mem_diff]
    clear hheld hfresh hdead hpinid hq hu x1 x2 x3 x4 hfr hown c1 c2
    grind
  · intro e he
    have := h.rec_le e
    show e.1 ≤ s.lastId ∨ e.1 = n
    simp only [dataStep, udfreedKept, dataLost, dataGain, hr, hb, hd, List.mem_append, mem_tag, mem_upTo,
      List.mem_ite_nil_right] at he this
    clear hheld hfresh hdead hpinid hq hu x1 x2 x3 x4 hfr hown c1 c2
    grind
  · intro π hπ
    have := h.pin_held π hπ
    exact ⟨this.1, fun p hp => hheld _ _ (by omega) (this.2 p hp)⟩
  · intro p hp
    exact hheld s.durId _ (by have := h.ids; omega) (h.img_data p hp)
  · refine al_nodup_add h.al_nodup (diff_nodup hnd) ?_
    intro p hp hm
    simp only [dataGain, hb, mem_diff] at hp
    rw [← pagesOf_append, mem_pagesOf'] at hm
    obtain ⟨e, he, rfl⟩ := hm
    exact hfr _ hp.1 hp.2 (held_owned (h.al_held e he))
  · intro e he
    have h1 := h.al_held e
    have h2 := h.rec_le e
    simp only [dataStep, dataGain, hb, List.mem_append, List.mem_ite_nil_right, mem_tag, mem_diff] at he h1 h2
    rcases he with he | he | ⟨_, he1, he2, he3⟩
    · exact hheld _ _ (by grind) (h1 (Or.inl he))
    · exact hheld _ _ (by grind) (h1 (Or.inr he))
    · exact Or.inl he2
  · intro x hx hxv hxd
    have hc := h.sp_complete x hx hxv List.not_mem_nil
    have hany := any_valid hsp hv
    have hxs : x.sid ≤ sp.sid := by
      have := hdead x hx hxv
      grind
    have hxi : x.id ≤ sp.id := sp_sorted_id_le h.sp_sorted hx hsp hxs
    -- a page held at `sp.id` is, for `x`, part of its tree or allocated after it
    have hk : ∀ p, held s sp.id p → p ∈ x.pages ∨ allocatedAfter s x.id p := by
      intro p hp
      rcases hp with hp | ⟨e, he, h1, rfl⟩ | ⟨e, he, h1, rfl⟩
      · exact hc.1 p hp
      · exact hc.2 e (List.mem_append.mpr (Or.inl he)) (by omega)
      · exact hc.2 e (List.mem_append.mpr (Or.inr he)) (by omega)
    constructor
    · intro p hp
      by_cases hps : p ∈ sp.pages
      · rcases hk p (hsph p hps) with h1 | h1
        · exact Or.inl h1
        · exact Or.inr (allocatedAfter_dataStep h1)
      · exact Or.inr (allocatedAfter_gain hany (by simp [dataGain, hb]; exact ⟨hp, hps⟩) (by omega))
    · intro e he hlt
      have key : ∀ p, held s sp.id p → p ∈ x.pages ∨ allocatedAfter (dataStep s w t n) x.id p := by
        intro p hp
        rcases hk p hp with h1 | h1
        · exact Or.inl h1
        · exact Or.inr (allocatedAfter_dataStep h1)
      simp only [dataStep, udfreedKept, dataLost, hr, hb, hd, List.mem_append, mem_tag, mem_upTo, mem_diff, hQ] at he
      rcases he with ⟨he, hle⟩ | ⟨he, hle⟩ | ⟨_, he | he⟩
      · rcases hc.2 e (List.mem_append.mpr (Or.inl he)) hlt with h1 | h1
        · exact Or.inl h1
        · exact Or.inr (allocatedAfter_dataStep h1)
      · rcases hc.2 e (List.mem_append.mpr (Or.inr he)) hlt with h1 | h1
        · exact Or.inl h1
        · exact Or.inr (allocatedAfter_dataStep h1)
      · exact key _ (hQheld _ he)
      · exact key _ (hsph _ he.1)
  · intro x hx e he hlt hmem
    have h1 := h.sp_after x hx e
    have h2 := (hpinid x hx).2 e.2 hmem
    simp only [dataStep, dataGain, hb, List.mem_append, List.mem_ite_nil_right, mem_tag, mem_diff] at he h1
    have := hfr e.2
    have := held_owned h2
    have := hsph e.2
    clear hheld hfresh hdead hpinid hq hu x1 x2 x3 x4 hown c1 c2
    grind

end Redb.Life2
