import RedbModel.Props.C10
import RedbModel.Props.C15
/-!
# C19 — Files stay readable across releases that share the file format

redb 3.0.0 and this code share file format v3. What this version changed is that branch pages
may hold *shortened* routing keys instead of copies of real keys. An older reader never decodes
a routing key: it only compares it with the key type's comparator (unchanged between the
releases) while descending. The theorems say why that is enough, for every key type, every tree
and every query:

* `c19_old_reader_routes`: on any tree that passes the format checker, routing by comparison
  alone finds exactly the entries of the sorted list — whatever the separators are, as long as
  they bound their subtrees (which the checker verifies on every image both versions write).
* `c19_separator_is_plain_key`: a shortened separator is itself a valid encoding of the key type
  that sorts between its neighbours, so nothing an old reader does with it (compare, copy into a
  new branch page when it splits or merges) can go wrong.
* `c19_fixed_width_never_shortened`: fixed-width keys are stored at their stride and are never
  shortened, so the page layout an old reader assumes is unchanged.
* `c19_format_constants`: the constants of the format as decoded by the model.

That the two implementations actually agree on whole files (both directions, clean and
crash-recovered, including continued writing by the other version) is the correspondence run.
-/
namespace Redb.Format
open Redb.Key Redb.Spec Redb.BTree

theorem c19_old_reader_routes (kt : KT) (what : String) (pt : PTree)
    (h : checkTree kt what pt = .ok ()) (k : Bytes) (hk : valid kt k = true) :
    lookup kt pt.erase k = Spec.get kt (flatten pt.erase) k :=
  c10_tree_lookup kt what pt h k hk

theorem c19_separator_is_plain_key (t : KT) (a b : Bytes)
    (ha : valid t a = true) (hb : valid t b = true) (hlt : cmp t a b = .lt) :
    valid t (sep t a b) = true ∧ cmp t a (sep t a b) ≠ .gt ∧ cmp t (sep t a b) b = .lt ∧
      (sep t a b).length ≤ a.length :=
  Redb.Key.c15_sep_contract t a b ha hb hlt

theorem c19_fixed_width_never_shortened (t : KT) (w : Nat) (a b : Bytes)
    (h : fixedWidth t = some w) : branchSeparator t a b = a :=
  Redb.Key.c15_branch_separator_fixed t w a b h

/-- magic number of the file format, as the model decodes it -/
theorem c19_format_constants :
    magic = [0x72, 0x65, 0x64, 0x62, 0x1A, 0x0A, 0xA9, 0x0D, 0x0A] ∧ magic.length = 9 := by
  decide

end Redb.Format
