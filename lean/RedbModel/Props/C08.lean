import RedbModel.Model.Latch
import RedbModel.Props.C01
/-!
# C08 — Storage errors never corrupt or silently lose data

Two parts. (1) The error latch (`Model/Latch.lean`, a transcription of `CheckedBackend`): once a
required backend call has failed, every later request is answered with an error and the backend
is not reached again until `close`; a request never reports success unless the backend did the
work. (2) Whatever the backend received before the failure is a prefix of a stream the protocol
monitor of C01 accepts, so `c01_crash_recover` applies to the storage as left behind by a failed
run: reopening serves one commit point, with the failing commit applied entirely or not at all.
The harness injects a failure at every backend call index of generated workloads (once /
permanently) and checks the API-level consequences on the real code.
-/
namespace Redb.Latch

/-- after a failure has been latched, a request never reaches the backend (except `close`) and
never reports success -/
theorem c08_latched_request (s : LState) (h : s.ioFailed = true) (okb : Bool) :
    (step s (.io okb)).2.2 = false ∧ (step s (.io okb)).2.1 ≠ .ok ∧
    (step s (.bestEffortWrite okb)).2.2 = false ∧ (step s (.bestEffortWrite okb)).2.1 ≠ .ok ∧
    (step s (.io okb)).1 = s := by
  cases hc : s.closed <;> simp [step, h, hc]

/-- the latch is sticky: it is never cleared by any request -/
theorem c08_latch_sticky (s : LState) (r : Req) (h : s.ioFailed = true) :
    (step s r).1.ioFailed = true := by
  cases r <;> simp [step, h]

theorem c08_latch_sticky_run (s : LState) (rs : List Req) (h : s.ioFailed = true) :
    (run s rs).1.ioFailed = true ∧
    ∀ x, x ∈ (run s rs).2 → (x.1 ≠ .ok ∧ x.2 = false) ∨ x = (.ok, true) := by
  induction rs generalizing s with
  | nil => simp [run, h]
  | cons r rest ih =>
    have hs := c08_latch_sticky s r h
    obtain ⟨ih1, ih2⟩ := ih (step s r).1 hs
    simp only [run]
    refine ⟨ih1, ?_⟩
    intro x hx
    simp only [List.mem_cons] at hx
    rcases hx with hx | hx
    · subst hx
      cases r with
      | close => right; simp [step]
      | io okb => left; cases hc : s.closed <;> simp [step, h, hc]
      | bestEffortWrite okb => left; cases hc : s.closed <;> simp [step, h, hc]
    · exact ih2 x hx

/-- a failing required call latches and is reported as an error; success is reported only when
the backend was reached and succeeded -/
theorem c08_failure_reported (s : LState) (h : s.ioFailed = false) :
    (step s (.io false)).2.1 = .ioError ∧ (step s (.io false)).1.ioFailed = true ∧
    (step s (.bestEffortWrite false)).2.1 = .ioError := by
  simp [step, h]

theorem c08_success_means_done (s : LState) (r : Req) (h : (step s r).2.1 = .ok) :
    (step s r).2.2 = true ∧ (r = .close ∨ r = .io true ∨ r = .bestEffortWrite true) := by
  cases r with
  | close => simp [step]
  | io okb =>
    cases hf : s.ioFailed <;> cases hc : s.closed <;> cases okb <;> simp_all [step]
  | bestEffortWrite okb =>
    cases hf : s.ioFailed <;> cases hc : s.closed <;> cases okb <;> simp_all [step]

/-- after close every request is refused with `DatabaseClosed` and does not reach the backend -/
theorem c08_closed_refuses (s : LState) (okb : Bool) :
    (step (step s .close).1 (.io okb)).2 = (.databaseClosed, false) := by
  simp [step]

example : (run {} [.io true, .io false, .io true, .bestEffortWrite true, .close, .io true]).2 =
    [(.ok, true), (.ioError, true), (.previousIo, false), (.previousIo, false), (.ok, true),
     (.databaseClosed, false)] := by decide

end Redb.Latch

namespace Redb.Storage

/-- The storage left behind by a run that stopped (because of a latched failure) after the
events `pre` of an accepted stream is covered by the crash theorem: every crash outcome of that
moment recovers to the served commit or to the commit in flight. -/
theorem c08_failed_prefix_is_crash (D0 : Disk) (tr : List Ev) (hacc : accept D0 tr = true)
    (pre : List Ev) (hpre : pre <+: tr) :
    ∃ s, stateAfter D0 pre = some s ∧
      ∀ o, Outcome s.D s.P o → ∀ (vf : Nat → Bool) (q : Bool), Faithful o vf →
        ∃ k, Redb.Recovery.recover o.view vf q = .ok k ∧ ServedBy s.D s.i s.P o k :=
  c01_crash_recover D0 tr hacc pre hpre

end Redb.Storage
