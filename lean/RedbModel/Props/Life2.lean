import RedbModel.Lemmas.Life2Commit
import RedbModel.Lemmas.Life2Ops
/-!
# The bookkeeping algorithm of redb keeps every page with exactly one owner (C06) — for every history

`Redb.Life2` (Model/Life2.lean) is a state machine of redb's page bookkeeping at transaction
granularity: `step : St → Op → St` follows `commit_inner_helper`, `durable_commit`,
`non_durable_commit`, `process_freed_pages(_nondurable)`, the post-commit epilogue,
`restore_savepoint_inner`, the abort path, `TransactionTracker` and `UnpersistedState`. The driver
runs it alongside the real code (one prediction per observed state, Driver/Life2.lean).

This file proves, by induction over arbitrary operation lists, that the algorithm keeps the
invariant `Inv` (Lemmas/Life2Inv.lean):

1. every allocated page has exactly one owner among {data tree, system tree, DATA_FREED record,
   SYSTEM_FREED record, in-memory data-freed record}, and every owned page is allocated;
2. every page of a pinned snapshot (read transaction, savepoint) is *held*: in the latest data tree
   or in the pending-free record of a later transaction — hence allocated, and never handed out;
3. the trees of the last durable commit are held likewise, and the state a crash would recover to
   satisfies the same invariant (with the persistent savepoints registered again).

and derives the corollaries that correspond to the properties resting on this machinery:
no early reuse (C06/C02), abort leaves no trace (C05), restore (C07), crash recovery (C11),
return to the previous level after quiescence (C06/C13).

The B-tree layer is not modelled: a commit is given by the page sets of the trees it produces, and
`guard` demands that pages a tree gained were free when they were handed out.
-/
namespace Redb.Life2

/-! ## The inductive invariant -/

theorem life2_inv_init : Inv init := inv_init

theorem life2_inv_step {s : St} {op : Op} (hi : Inv s) (hg : guard s op) : Inv (step s op) := by
  cases op with
  | commit t => exact inv_commit hi hg
  | abort k => exact inv_abort hi k
  | beginRead => exact inv_beginRead hi
  | dropReader id => exact inv_dropReader hi id
  | dropSp sid => exact inv_dropSp hi sid
  | reopen => exact inv_recover hi false
  | crash => exact inv_recover hi _

theorem life2_inv_run {s : St} {ops : List Op} (hi : Inv s) (hg : guardAll s ops = true) :
    Inv (run s ops) := by
  induction ops generalizing s with
  | nil => exact hi
  | cons op ops ih =>
    simp only [guardAll, Bool.and_eq_true] at hg
    exact ih (life2_inv_step hi hg.1) hg.2

/-- **Main theorem.** Every state the bookkeeping algorithm reaches from the empty database, by
any list of operations each of which is enabled when it is applied, satisfies the invariant. -/
theorem life2_inv_reachable {ops : List Op} (hg : guardAll init ops = true) : Inv (run init ops) :=
  life2_inv_run life2_inv_init hg

/-! ## What the invariant says -/

/-- (1) exactly one owner: no page is claimed twice, and the allocated pages are exactly the
claimed ones -/
theorem life2_one_owner {s : St} (hi : Inv s) :
    (owned s).Nodup ∧ ∀ p, p ∈ s.alloc ↔ p ∈ owned s :=
  ⟨hi.core.own_nodup, fun p => ⟨hi.core.alloc_owned p, hi.core.owned_alloc p⟩⟩

/-- (2) frozen snapshots: every page of a live reader's or savepoint's tree is allocated and is
still where a snapshot of that age finds it (latest data tree or pending-free record of a later
transaction) -/
theorem life2_pinned_frozen {s : St} (hi : Inv s) {π : Nat × List Nat} (hπ : π ∈ pins s) {p : Nat}
    (hp : p ∈ π.2) : p ∈ s.alloc ∧ held s π.1 p :=
  ⟨hi.core.owned_alloc p (held_owned ((hi.core.pin_held π hπ).2 p hp)), (hi.core.pin_held π hπ).2 p hp⟩

/-- (3) the durable image is intact: the pages of its data tree, of its system tree and of the
trees of its persistent savepoints are allocated (and held) -/
theorem life2_durable_intact {s : St} (hi : Inv s) :
    (∀ p ∈ s.img.data, p ∈ s.alloc ∧ held s s.durId p) ∧
    (∀ p ∈ s.img.sys, p ∈ s.alloc ∧ sysHeld s s.durId p) ∧
    (∀ sp ∈ s.img.psps, ∀ p ∈ sp.pages, p ∈ s.alloc ∧ held s sp.id p) := by
  refine ⟨fun p hp => ⟨hi.core.owned_alloc p (held_owned (hi.core.img_data p hp)), hi.core.img_data p hp⟩,
    fun p hp => ⟨hi.core.owned_alloc p (sysHeld_owned (hi.core.img_sys p hp)), hi.core.img_sys p hp⟩, ?_⟩
  intro sp hsp p hp
  have hπ : (sp.id, sp.pages) ∈ pins s := mem_pins.mpr (Or.inr ⟨sp, (hi.psps sp hsp).1, rfl⟩)
  exact life2_pinned_frozen hi hπ hp

/-- after a crash the allocator is rebuilt from the durable image, and that state is sound:
exactly the owned pages are allocated, each with one owner -/
theorem life2_crash_image_sound {s : St} (hi : Inv s) (b : Bool) :
    Inv (recover s.img b) ∧ (recover s.img b).data = s.img.data ∧ (recover s.img b).sys = s.img.sys ∧
    (recover s.img b).dfreed = s.img.dfreed ∧ (recover s.img b).sfreed = s.img.sfreed ∧
    (recover s.img b).udfreed = [] ∧ (recover s.img b).readers = [] ∧ (recover s.img b).sps = s.img.psps ∧
    (recover s.img b).pend = [] ∧ (recover s.img b).upages = [] :=
  ⟨inv_recover hi b, rfl, rfl, rfl, rfl, rfl, rfl, rfl, rfl, rfl⟩

/-! ## No early reuse (C06, C02)

The pages the allocator hands out in a commit are `dataGain` (data tree), `diff t.sys s.sys`
(system tree, written before the commit is published) and, for a durable commit whose epilogue
runs, `diff t.sys2 t.sys` (system tree of the epilogue). -/

theorem txState_frame {s : St} {t : Txn} (hf : CommitFacts s t) :
    (txState s t).sys = s.sys ∧ (txState s t).img = s.img ∧ (txState s t).alloc = s.alloc ∧
    (txState s t).readers = s.readers ∧ (∀ sp ∈ s.sps, sp ∈ (txState s t).sps) := by
  refine ⟨?_, ?_, ?_, ?_, hf.frame.keep⟩ <;> (rw [hf.frame.eq]; rfl)

theorem pins_txState {s : St} {t : Txn} (hf : CommitFacts s t) {π : Nat × List Nat} (hπ : π ∈ pins s) :
    π ∈ pins (txState s t) := by
  obtain ⟨_, _, _, hr, hk⟩ := txState_frame hf
  rcases mem_pins.mp hπ with ⟨r, hr', rfl⟩ | ⟨sp, hsp, rfl⟩
  · exact mem_pins.mpr (Or.inl ⟨r, by rw [hr]; exact hr', rfl⟩)
  · exact mem_pins.mpr (Or.inr ⟨sp, hk sp hsp, rfl⟩)

/-- **No early reuse.** No page of a snapshot that is pinned when a write transaction commits
(by a reader, or by a savepoint — even one the transaction itself deletes or invalidates), and no
page of the trees of the last durable commit, is among the pages the commit allocates for its data
tree or for the system tree it publishes. -/
theorem life2_no_early_reuse {s : St} {t : Txn} (hi : Inv s) (hg : commitGuard s t = true) :
    (∀ π ∈ pins s, ∀ p ∈ π.2, p ∉ dataGain (txW s t) t ∧ p ∉ diff t.sys s.sys) ∧
    (∀ p ∈ s.img.data ++ s.img.sys, p ∉ dataGain (txW s t) t ∧ p ∉ diff t.sys s.sys) := by
  have hf := commit_facts hi hg
  obtain ⟨hsys, himg, halloc, _, _⟩ := txState_frame hf
  -- pages that stay allocated while the system tree is written are not handed to it
  have key : ∀ p, p ∈ s.alloc →
      (t.durable = true → p ∈ (durableReleased (txState s t) (txW s t) t (txId s)).alloc) →
      (t.durable = false → p ∈ (nonDurableReclaimed (txState s t) (txW s t) t (txId s)).alloc) →
      p ∉ dataGain (txW s t) t ∧ p ∉ diff t.sys s.sys := by
    intro p hp hD hN
    refine ⟨fun hm => hf.data_fresh p hm (by rw [halloc]; exact hp), fun hm => ?_⟩
    rw [← hsys] at hm
    cases hd : t.durable with
    | true => exact (hf.durable hd).1 p hm (hD hd)
    | false => exact hf.nonDurable hd p hm (hN hd)
  constructor
  · intro π hπ p hp
    have hπ1 := pins_txState hf hπ
    refine key p (life2_pinned_frozen hi hπ hp).1 ?_ ?_
    · intro hd
      have hw := hf.wspec
      rw [hd] at hw
      obtain ⟨hm, _, _, _, _⟩ := durable_states hf.core hf.unp hw hf.lt hf.data_nodup hf.sys_nodup
        hf.data_fresh hf.rec_lost hf.rec_nodup (hf.durable hd).1
      exact pins_release_alloc hm (fun i hi' => freeUntil_le_live (s := txState s t) hi') π hπ1 p hp
    · intro hd
      have hw := hf.wspec
      rw [hd] at hw
      have hr := (nonDurable_states hf.core hf.unp hw hf.lt hf.data_nodup hf.data_fresh).1
      exact hr.owned_alloc p (held_owned ((hr.pin_held π hπ1).2 p hp))
  · intro p hp
    have hpa : p ∈ s.alloc := by
      rcases List.mem_append.mp hp with h | h
      · exact (life2_durable_intact hi).1 p h |>.1
      · exact (life2_durable_intact hi).2.1 p h |>.1
    refine key p hpa ?_ ?_
    · intro hd
      have hw := hf.wspec
      rw [hd] at hw
      obtain ⟨_, hrl, _, _, _⟩ := durable_states hf.core hf.unp hw hf.lt hf.data_nodup hf.sys_nodup
        hf.data_fresh hf.rec_lost hf.rec_nodup (hf.durable hd).1
      rcases List.mem_append.mp hp with h | h
      · exact hrl.owned_alloc p (held_owned (hrl.img_data p (by rw [← himg] at h; exact h)))
      · exact hrl.owned_alloc p (sysHeld_owned (hrl.img_sys p (by rw [← himg] at h; exact h)))
    · intro hd
      have hw := hf.wspec
      rw [hd] at hw
      have hr := (nonDurable_states hf.core hf.unp hw hf.lt hf.data_nodup hf.data_fresh).1
      rcases List.mem_append.mp hp with h | h
      · exact hr.owned_alloc p (held_owned (hr.img_data p (by rw [← himg] at h; exact h)))
      · exact hr.owned_alloc p (sysHeld_owned (hr.img_sys p (by rw [← himg] at h; exact h)))

/-- ... and the pages the post-commit epilogue of a durable commit allocates are disjoint from
every snapshot that is still pinned after the commit and from the data tree the commit has just
made durable (its system tree is what the epilogue rewrites). -/
theorem life2_no_early_reuse_epilogue {s : St} {t : Txn} (hi : Inv s) (hg : commitGuard s t = true)
    (hd : t.durable = true) (he : t.epilogue = true)
    (hr : epilogueRuns (durableCommitted (txState s t) (txW s t) t (txId s)) (txId s)
      (spHorizon (txState s t).sps (txW s t)) = true) :
    (∀ π ∈ pins (durableCommitted (txState s t) (txW s t) t (txId s)), ∀ p ∈ π.2, p ∉ diff t.sys2 t.sys) ∧
    (∀ p ∈ t.data, p ∉ diff t.sys2 t.sys) := by
  have hf := commit_facts hi hg
  have hw := hf.wspec
  rw [hd] at hw
  obtain ⟨_, _, ha, hau, _⟩ := durable_states hf.core hf.unp hw hf.lt hf.data_nodup hf.sys_nodup
    hf.data_fresh hf.rec_lost hf.rec_nodup (hf.durable hd).1
  obtain ⟨_, hfresh⟩ := (hf.durable hd).2 he hr
  have her := (core_epiRelease ha hau epilogueUntil_le.1 epilogueUntil_le.2 ⟨rfl, rfl⟩).1
  constructor
  · intro π hπ p hp hm
    exact hfresh p hm (her.owned_alloc p (held_owned ((her.pin_held π hπ).2 p hp)))
  · intro p hp hm
    exact hfresh p hm (her.owned_alloc p (held_owned (her.img_data p hp)))

/-! ## Abort leaves no trace (C05) -/

/-- A write transaction that ends without a commit changes nothing but the id counters: the
allocator, the trees, every pending-free and allocation record, the unpersisted state, the pins and
the durable image are what they were. -/
theorem life2_abort_no_trace (s : St) (k : Nat) :
    (step s (.abort k)).alloc = s.alloc ∧ (step s (.abort k)).data = s.data ∧
    (step s (.abort k)).sys = s.sys ∧ (step s (.abort k)).dfreed = s.dfreed ∧
    (step s (.abort k)).sfreed = s.sfreed ∧ (step s (.abort k)).udfreed = s.udfreed ∧
    (step s (.abort k)).dalloc = s.dalloc ∧ (step s (.abort k)).ualloc = s.ualloc ∧
    (step s (.abort k)).upages = s.upages ∧ (step s (.abort k)).pca = s.pca ∧
    (step s (.abort k)).lastId = s.lastId ∧ (step s (.abort k)).durId = s.durId ∧
    (step s (.abort k)).readers = s.readers ∧ (step s (.abort k)).sps = s.sps ∧
    (step s (.abort k)).pend = s.pend ∧ (step s (.abort k)).unproc = s.unproc ∧
    (step s (.abort k)).img = s.img ∧ owned (step s (.abort k)) = owned s :=
  ⟨rfl, rfl, rfl, rfl, rfl, rfl, rfl, rfl, rfl, rfl, rfl, rfl, rfl, rfl, rfl, rfl, rfl, rfl⟩

/-! ## Shape of the state after a commit -/

theorem commit_data (s : St) (t : Txn) : (commit s t).data = t.data := by
  rw [commit_eq]
  cases t.durable with
  | false => rfl
  | true =>
    simp only [if_true, durableCommit, epilogue]
    split
    · split <;> rfl
    · rfl

theorem commit_sps (s : St) (t : Txn) : (commit s t).sps = applySps (txState s t).sps (txW s t) := by
  rw [commit_eq]
  cases t.durable with
  | false => rfl
  | true =>
    simp only [if_true, durableCommit, epilogue]
    split
    · split <;> rfl
    · rfl

theorem commit_readers (s : St) (t : Txn) : (commit s t).readers = (txState s t).readers := by
  rw [commit_eq]
  cases t.durable with
  | false => rfl
  | true =>
    simp only [if_true, durableCommit, epilogue]
    split
    · split <;> rfl
    · rfl

/-! ## Savepoint restore (C07) -/

/-- **Restore.** A transaction that restores savepoint `sp` and commits (with whatever further
edits, durable or not): the new data tree consists of pages of the savepoint's tree and of pages
that were free; every page of the savepoint's tree is still allocated (the savepoint stays
registered); if the transaction edits nothing, the data tree is exactly the savepoint's tree; and
every savepoint created after `sp` is dead — deleted if persistent, invalid if ephemeral. The
resulting state satisfies the invariant, so each of these pages has exactly one owner. -/
theorem life2_restore {s : St} {t : Txn} {sid : Nat} {sp : Sp} (hi : Inv s)
    (hg : commitGuard s t = true) (hops : t.spOps = [.restore sid]) (hsp : findSp s sid = some sp) :
    Inv (commit s t) ∧ (commit s t).data = t.data ∧
    (∀ p ∈ t.data, p ∈ sp.pages ∨ p ∉ s.alloc) ∧
    (∀ p ∈ sp.pages, p ∈ (commit s t).alloc ∧ held (commit s t) sp.id p) ∧
    (t.data = sp.pages → (commit s t).data = sp.pages) ∧
    (∀ x ∈ (commit s t).sps, sid < x.sid → x.valid = false) := by
  have hf := commit_facts hi hg
  have hinv := inv_commit hi hg
  have hfind : findSp (beginWrite s) sid = some sp := hsp
  have hmem : sp ∈ s.sps := List.mem_of_find?_eq_some hsp
  have hsid : sp.sid = sid := by
    have := List.find?_some hsp
    simpa using this
  have hS : txState s t = beginWrite s := by
    simp [txState, runSpOps, hops, spStep, hfind]
  have hW : (txW s t).base = sp.pages ∧
      (txW s t).deleted = laterPersistent (beginWrite s) (W.start (beginWrite s)) sid ∧
      (txW s t).invalidated = ((beginWrite s).sps.filter (fun x => x.valid && decide (sid < x.sid))).map (·.sid) := by
    simp [txW, runSpOps, hops, spStep, hfind, W.start]
  have hbase := hW.1
  have hnd : sp.sid ∉ (txW s t).deleted := by
    rw [hW.2.1]
    simp only [laterPersistent, List.mem_map, List.mem_filter, Bool.and_eq_true, decide_eq_true_eq, not_exists, not_and]
    intro x hx hxs
    have := hx.2.1.2
    omega
  have hni : sp.sid ∉ (txW s t).invalidated := by
    rw [hW.2.2]
    simp only [List.mem_map, List.mem_filter, Bool.and_eq_true, decide_eq_true_eq, not_exists, not_and]
    intro x hx hxs
    have := hx.2.2
    omega
  have hstay : sp ∈ (commit s t).sps := by
    rw [commit_sps, hS]
    exact mem_applySps hmem hnd hni
  refine ⟨hinv, commit_data s t, ?_, ?_, fun h => by rw [commit_data, h], ?_⟩
  · intro p hp
    by_cases hps : p ∈ sp.pages
    · exact Or.inl hps
    · right
      have hg' : p ∈ dataGain (txW s t) t := by
        simp only [dataGain, mem_diff, hbase]
        exact ⟨hp, hps⟩
      have := hf.data_fresh p hg'
      rw [(txState_frame hf).2.2.1] at this
      exact this
  · intro p hp
    have hπ : (sp.id, sp.pages) ∈ pins (commit s t) := mem_pins.mpr (Or.inr ⟨sp, hstay, rfl⟩)
    exact life2_pinned_frozen hinv hπ hp
  · intro x hx hlt
    rw [commit_sps, hS] at hx
    obtain ⟨y, hy, hys, _, _, _, _, hval⟩ := applySps_src hx
    cases hv : x.valid with
    | false => rfl
    | true =>
      obtain ⟨hyv, hyi⟩ := hval hv
      exfalso
      apply hyi
      rw [hW.2.2]
      simp only [List.mem_map, List.mem_filter, Bool.and_eq_true, decide_eq_true_eq]
      exact ⟨y, ⟨hy, hyv, by omega⟩, rfl⟩

/-! ## Crash recovery (C11) -/

/-- **Crash-reopen.** Recovery yields the durable image — its trees, its pending-free and
allocation records, its persistent savepoints, nothing else — with an allocator that marks exactly
the pages the image owns, each with one owner; the recovered state satisfies the invariant (and so
does everything reachable from it). -/
theorem life2_crash {s : St} (hi : Inv s) :
    Inv (step s .crash) ∧
    (step s .crash).data = s.img.data ∧ (step s .crash).sys = s.img.sys ∧
    (step s .crash).dfreed = s.img.dfreed ∧ (step s .crash).sfreed = s.img.sfreed ∧
    (step s .crash).dalloc = s.img.dalloc ∧ (step s .crash).sps = s.img.psps ∧
    (step s .crash).readers = [] ∧ (step s .crash).udfreed = [] ∧ (step s .crash).upages = [] ∧
    (step s .crash).pend = [] ∧ (step s .crash).alloc = s.img.owned ∧
    (owned (step s .crash)).Nodup ∧ (∀ p, p ∈ (step s .crash).alloc ↔ p ∈ owned (step s .crash)) := by
  have h := inv_recover hi (!s.img.qr)
  exact ⟨h, rfl, rfl, rfl, rfl, rfl, rfl, rfl, rfl, rfl, rfl, rfl, (life2_one_owner h).1, (life2_one_owner h).2⟩

/-! ## Return to the previous level (C06, C13) -/

/-- an empty durable commit: no savepoint operations, the data tree unchanged, allocator state not
saved (so no lost system page is recorded), epilogue enabled — `begin_write().commit()` -/
structure EmptyCommit (s : St) (t : Txn) : Prop where
  durable : t.durable = true
  noqr : t.qr = false
  epi : t.epilogue = true
  noSp : t.spOps = []
  same : t.data = s.data

theorem diff_self (a : List Nat) : diff a a = [] := by
  simp [diff]

theorem eq_nil_of_forall_not_mem {α} {l : List α} (h : ∀ x, x ∉ l) : l = [] := by
  cases l with
  | nil => rfl
  | cons a as => exact absurd List.mem_cons_self (h a)

/-- the state right after the commit proper of an empty durable commit, when no reader or
savepoint exists -/
theorem empty_commit_committed {s : St} {t : Txn} (hg : commitGuard s t = true)
    (he : EmptyCommit s t) (hr : s.readers = []) (hs : s.sps = []) :
    txState s t = beginWrite s ∧ txW s t = W.start (beginWrite s) ∧
    (durableCommitted (txState s t) (txW s t) t (txId s)).dfreed =
      notBelow (freeUntil s (txId s)) (s.dfreed ++ s.udfreed) ∧
    (durableCommitted (txState s t) (txW s t) t (txId s)).sfreed = notBelow (freeUntil s (txId s)) s.sfreed ∧
    (durableCommitted (txState s t) (txW s t) t (txId s)).udfreed = [] ∧
    (durableCommitted (txState s t) (txW s t) t (txId s)).readers = [] ∧
    (durableCommitted (txState s t) (txW s t) t (txId s)).sps = [] ∧
    (durableCommitted (txState s t) (txW s t) t (txId s)).pend = [] ∧
    spHorizon (txState s t).sps (txW s t) = none := by
  have hS : txState s t = beginWrite s := by simp [txState, runSpOps, he.noSp]
  have hW : txW s t = W.start (beginWrite s) := by simp [txW, runSpOps, he.noSp]
  have hrec : t.sysRec = [] := by
    unfold commitGuard at hg
    simp only [Bool.and_eq_true, Bool.or_eq_true] at hg
    have := hg.1.2
    rw [he.noqr] at this
    simpa using this
  have hlost : dataLost (W.start (beginWrite s)) t = [] := by
    simp only [dataLost, W.start, he.same, List.nil_append]
    exact diff_self _
  refine ⟨hS, hW, ?_, ?_, ?_, ?_, ?_, ?_, ?_⟩
  · rw [hS, hW]
    show notBelow (freeUntil (beginWrite s) (txId s))
      ((W.start (beginWrite s)).dfreed ++ (udfreedKept (beginWrite s) (W.start (beginWrite s)) ++
        tag (txId s) (dataLost (W.start (beginWrite s)) t))) = _
    rw [hlost]
    simp [udfreedKept, W.start, tag, beginWrite, freeUntil, liveIds]
  · rw [hS, hW]
    show notBelow (freeUntil (beginWrite s) (txId s)) (beginWrite s).sfreed ++ tag (txId s) t.sysRec = _
    rw [hrec]
    simp [tag, beginWrite, freeUntil, liveIds]
  · rfl
  · rw [hS]; exact hr
  · rw [hS, hW]
    show applySps (beginWrite s).sps (W.start (beginWrite s)) = []
    have : (beginWrite s).sps = [] := hs
    rw [this]
    rfl
  · rfl
  · rw [hS, hW]
    have : (beginWrite s).sps = [] := hs
    rw [this]
    rfl

/-- after an empty durable commit without readers and savepoints no data-freed record is left -/
theorem empty_commit_dfreed {s : St} {t : Txn} (hi : Inv s) (hg : commitGuard s t = true)
    (he : EmptyCommit s t) (hr : s.readers = []) (hs : s.sps = []) :
    (commit s t).dfreed = [] ∧ (commit s t).udfreed = [] ∧ (commit s t).readers = [] ∧
    (commit s t).sps = [] ∧ (commit s t).data = s.data := by
  obtain ⟨hS, hW, _, _, hud, hrd, hsp, hpd, hhz⟩ := empty_commit_committed hg he hr hs
  have hf := commit_facts hi hg
  have hw := hf.wspec
  rw [he.durable] at hw
  obtain ⟨_, _, ha, _, _⟩ := durable_states hf.core hf.unp hw hf.lt hf.data_nodup hf.sys_nodup
    hf.data_fresh hf.rec_lost hf.rec_nodup (hf.durable he.durable).1
  -- every record of the committed state belongs to a transaction up to the committing one
  have hle : ∀ e ∈ (durableCommitted (txState s t) (txW s t) t (txId s)).dfreed, e.1 < txId s + 1 := by
    intro e he'
    have := ha.rec_le e (by simp [he'])
    have h1 : (durableCommitted (txState s t) (txW s t) t (txId s)).lastId = txId s := rfl
    omega
  have hlive : liveIds (durableCommitted (txState s t) (txW s t) t (txId s)) = [] := by
    simp [liveIds, hrd, hsp, hpd]
  have hfu : epilogueUntil (durableCommitted (txState s t) (txW s t) t (txId s)) (txId s)
      (spHorizon (txState s t).sps (txW s t)) = txId s + 1 := by
    rw [hhz]
    simp only [epilogueUntil]
    exact freeUntil_nil hlive
  refine ⟨?_, ?_, ?_, ?_, by rw [commit_data, he.same]⟩
  · rw [commit_eq, he.durable]
    simp only [if_true, durableCommit, he.epi, epilogue]
    split
    · show notBelow _ (durableCommitted (txState s t) (txW s t) t (txId s)).dfreed = []
      rw [hfu]
      apply eq_nil_of_forall_not_mem
      intro e hm
      have := mem_notBelow.mp hm
      exact this.2 (hle e this.1)
    · next hrun =>
      apply eq_nil_of_forall_not_mem
      intro e hm
      simp only [epilogueRuns, hfu, Bool.not_eq_eq_eq_not, Bool.not_true,
        Bool.not_eq_false, List.isEmpty_iff] at hrun
      have : e ∈ below (txId s + 1) (durableCommitted (txState s t) (txW s t) t (txId s)).dfreed :=
        mem_below.mpr ⟨hm, hle e hm⟩
      rw [hrun] at this
      cases this
  · rw [commit_eq, he.durable]
    simp only [if_true, durableCommit, he.epi, epilogue]
    split <;> exact hud
  · rw [commit_readers, hS]; exact hr
  · rw [commit_sps, hS, hW]
    have : (beginWrite s).sps = [] := hs
    rw [this]
    rfl

/-- ... and if there was none before either, the epilogue does not run: nothing is pending -/
theorem empty_commit_settled {s : St} {t : Txn} (hg : commitGuard s t = true)
    (he : EmptyCommit s t) (hr : s.readers = []) (hs : s.sps = [])
    (hd : s.dfreed = []) (hu : s.udfreed = []) :
    commit s t = durableCommitted (txState s t) (txW s t) t (txId s) ∧ (commit s t).pend = [] := by
  obtain ⟨_, _, hdf, _, _, _, _, hpd, _⟩ := empty_commit_committed hg he hr hs
  have hnil : (durableCommitted (txState s t) (txW s t) t (txId s)).dfreed = [] := by
    rw [hdf, hd, hu]
    rfl
  have hno : epilogueRuns (durableCommitted (txState s t) (txW s t) t (txId s)) (txId s)
      (spHorizon (txState s t).sps (txW s t)) = false := by
    simp [epilogueRuns, hnil, below]
  have heq : commit s t = durableCommitted (txState s t) (txW s t) t (txId s) := by
    rw [commit_eq, he.durable]
    simp only [if_true, durableCommit, he.epi, epilogue, hno, Bool.false_eq_true, if_false]
  exact ⟨heq, by rw [heq]; exact hpd⟩

/-- ... and if nothing was pending before, no system-freed record is left either -/
theorem empty_commit_sfreed {s : St} {t : Txn} (hi : Inv s) (hg : commitGuard s t = true)
    (he : EmptyCommit s t) (hr : s.readers = []) (hs : s.sps = [])
    (hd : s.dfreed = []) (hu : s.udfreed = []) (hp : s.pend = []) :
    (commit s t).sfreed = [] := by
  obtain ⟨_, _, _, hsf, _, _, _, _, _⟩ := empty_commit_committed hg he hr hs
  rw [(empty_commit_settled hg he hr hs hd hu).1, hsf]
  have hlive : liveIds s = [] := by simp [liveIds, hr, hs, hp]
  rw [freeUntil_nil hlive]
  apply eq_nil_of_forall_not_mem
  intro e hm
  have hm' := mem_notBelow.mp hm
  have := hi.core.rec_le e (by simp [hm'.1])
  have := hi.next
  apply hm'.2
  show e.1 < s.nextId + 1
  omega

/-- **Quiescence.** Once no reader and no savepoint is left — whatever pending-free records,
unpersisted pages and pending non-durable commits the history has accumulated — three empty
durable commits release everything: all pending-free records are empty and the allocated pages
are exactly the pages of the two trees (storage use is back at the level the data needs). The
data tree is the one the history ended with. (Three are needed in general: the first flushes the
in-memory records and its epilogue releases every data record, leaving the system pages that
epilogue replaced in a record of the epilogue's own id; the second, still held back by the
epilogue's pin on the first, releases the older system records; the third releases the
epilogue's.) -/
theorem life2_quiesce {s : St} {t1 t2 t3 : Txn} (hi : Inv s) (hr : s.readers = []) (hs : s.sps = [])
    (h1 : EmptyCommit s t1) (g1 : commitGuard s t1 = true)
    (h2 : EmptyCommit (commit s t1) t2) (g2 : commitGuard (commit s t1) t2 = true)
    (h3 : EmptyCommit (commit (commit s t1) t2) t3)
    (g3 : commitGuard (commit (commit s t1) t2) t3 = true) :
    (commit (commit (commit s t1) t2) t3).dfreed = [] ∧
    (commit (commit (commit s t1) t2) t3).sfreed = [] ∧
    (commit (commit (commit s t1) t2) t3).udfreed = [] ∧
    (commit (commit (commit s t1) t2) t3).data = s.data ∧
    Inv (commit (commit (commit s t1) t2) t3) ∧
    (∀ p, p ∈ (commit (commit (commit s t1) t2) t3).alloc ↔
      p ∈ (commit (commit (commit s t1) t2) t3).data ∨ p ∈ (commit (commit (commit s t1) t2) t3).sys) := by
  have i1 := inv_commit hi g1
  obtain ⟨d1, u1, r1, s1, e1⟩ := empty_commit_dfreed hi g1 h1 hr hs
  have i2 := inv_commit i1 g2
  obtain ⟨d2, u2, r2, s2, e2⟩ := empty_commit_dfreed i1 g2 h2 r1 s1
  have p2 := (empty_commit_settled g2 h2 r1 s1 d1 u1).2
  have i3 := inv_commit i2 g3
  obtain ⟨d3, u3, _, _, e3⟩ := empty_commit_dfreed i2 g3 h3 r2 s2
  have f3 := empty_commit_sfreed i2 g3 h3 r2 s2 d2 u2 p2
  refine ⟨d3, f3, u3, by rw [e3, e2, e1], i3, ?_⟩
  intro p
  rw [(life2_one_owner i3).2 p, mem_owned, d3, f3, u3]
  simp [pagesOf]

/-! ## Compaction (C13)

`Database::compact()` is refused while a savepoint or a user's reader exists. Otherwise it is, for
the bookkeeping, a sequence of aborted probe transactions and durable commits without savepoint
operations (drain commits that keep the data tree, relocating commits that move it to lower pages;
each with its epilogue). Its intermediate trees cannot be observed from outside, so the driver
checks only its postcondition; the theorems cover every such sequence. -/

def IsCompaction (ops : List Op) : Prop :=
  ∀ op ∈ ops, (∃ k, op = .abort k) ∨ (∃ t, op = .commit t ∧ t.durable = true ∧ t.spOps = [])

/-- compaction keeps the invariant and creates no pins; when it ends with three empty commits
(the drain loop runs until no pending-free record is left) `life2_quiesce` applies -/
theorem life2_compact {s : St} {ops : List Op} (hi : Inv s) (hc : IsCompaction ops)
    (hg : guardAll s ops = true) (hr : s.readers = []) (hs : s.sps = []) :
    Inv (run s ops) ∧ (run s ops).readers = [] ∧ (run s ops).sps = [] := by
  induction ops generalizing s with
  | nil => exact ⟨hi, hr, hs⟩
  | cons op ops ih =>
    simp only [guardAll, Bool.and_eq_true] at hg
    have hi' := life2_inv_step hi hg.1
    have hc' : IsCompaction ops := fun o ho => hc o (List.mem_cons_of_mem _ ho)
    rcases hc op List.mem_cons_self with ⟨k, rfl⟩ | ⟨t, rfl, _, hsp⟩
    · exact ih hi' hc' hg.2 hr hs
    · have hS : txState s t = beginWrite s := by simp [txState, runSpOps, hsp]
      refine ih hi' hc' hg.2 ?_ ?_
      · show (commit s t).readers = []
        rw [commit_readers, hS]
        exact hr
      · show (commit s t).sps = []
        rw [commit_sps, hS]
        have : (beginWrite s).sps = [] := hs
        rw [this]
        rfl

/-! ## Non-vacuity: concrete histories (evaluated by `decide`) -/

/-- durable commit with the given savepoint operations, new data tree, system tree, and system
tree after the epilogue -/
def dcommit (sp : List SpOp) (data sys sys2 : List Nat) : Op :=
  .commit { durable := true, qr := false, epilogue := true, spOps := sp, data := data, sys := sys,
            sysRec := [], sys2 := sys2 }

def ncommit (sp : List SpOp) (data sys : List Nat) : Op :=
  .commit { durable := false, qr := false, epilogue := true, spOps := sp, data := data, sys := sys,
            sysRec := [], sys2 := sys }

/-- a reader on a durable commit, an ephemeral savepoint, two non-durable commits with a reader
between them, an aborted transaction, a non-durable restore of the savepoint -/
def exHistory : List Op := [
  dcommit [] [0, 1, 2] [3] [3],
  .beginRead,
  dcommit [.eph] [0, 1, 4] [5] [5],
  ncommit [] [0, 4, 6] [7],
  .beginRead,
  ncommit [] [0, 8] [9],
  .abort 0,
  ncommit [.restore 1] [0, 1, 2] [10] ]

/-- the history is enabled step by step and ends with three pending non-durable commits pinning
the durable commit 2, two readers, a savepoint, pages waiting in in-memory records of the
restoring transaction, unpersisted pages — and the restored tree -/
example :
    guardAll init exHistory = true ∧
    (run init exHistory).pend = [(3, 2), (4, 2), (6, 2)] ∧
    (run init exHistory).readers.map (·.id) = [1, 3] ∧
    (run init exHistory).sps.map (fun x => (x.sid, x.id, x.valid)) = [(1, 1, true)] ∧
    (run init exHistory).udfreed = [(6, 4), (6, 6), (6, 8)] ∧
    (run init exHistory).upages = [6, 8, 10] ∧
    (run init exHistory).data = [0, 1, 2] ∧
    (run init exHistory).durId = 2 ∧ (run init exHistory).lastId = 6 := by decide

/-- hence (by the main theorem) the invariant holds there; `decide` agrees -/
example : Inv (run init exHistory) := life2_inv_reachable (by decide)
example : Inv (run init exHistory) := by decide

/-- handing the pinned page 2 (in the reader's snapshot, pending free in a record) to the data
tree is rejected by the guard -/
example :
    guardAll init [dcommit [] [0, 1, 2] [3] [3], .beginRead, dcommit [] [0, 1, 4] [5] [5],
      dcommit [] [0, 1, 4, 2] [6] [6]] = false := by decide

/-- dropping the pins and three empty durable commits: everything is released (`life2_quiesce`) -/
def exQuiesce : List Op := exHistory ++ [
  .dropReader 1, .dropReader 3, .dropSp 1,
  dcommit [] [0, 1, 2] [11] [12],
  dcommit [] [0, 1, 2] [13] [13],
  dcommit [] [0, 1, 2] [14] [14] ]

example :
    guardAll init exQuiesce = true ∧
    (run init exQuiesce).alloc = [0, 1, 2, 14] ∧ (run init exQuiesce).dfreed = [] ∧
    (run init exQuiesce).sfreed = [] ∧ (run init exQuiesce).udfreed = [] := by decide

/-- two commits are not enough in general -/
example : (run init (exQuiesce.take 13)).sfreed = [(8, 11)] := by decide

/-- a persistent savepoint, a non-durable commit lost in a crash (recovery with a repair commit),
and a durable restore of the savepoint in the recovered database -/
def exCrash : List Op := [
  dcommit [] [0, 1, 2] [3] [3],
  dcommit [.pers] [0, 1, 4] [5] [5],
  ncommit [] [0, 4, 6] [7],
  .crash,
  .abort 0,
  dcommit [.restore 1] [0, 1, 2] [8] [9] ]

example :
    guardAll init exCrash = true ∧
    -- after the crash: the durable image, with the savepoint registered again
    (run init (exCrash.take 4)).data = [0, 1, 4] ∧ (run init (exCrash.take 4)).lastId = 3 ∧
    (run init (exCrash.take 4)).sps.map (·.sid) = [1] ∧
    -- after the restore: the savepoint's tree; page 4 waits in the record of the restoring commit
    (run init exCrash).data = [0, 1, 2] ∧ (run init exCrash).dfreed = [(6, 4)] := by decide

end Redb.Life2
