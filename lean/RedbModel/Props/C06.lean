import RedbModel.Props.Life
/-!
# C06 — Every page has exactly one owner; no leak, no early reuse

The driver evaluates `accept` (`ownOk`, `pinOk` on every observed state, `stepOk` on every
transition) on traces recorded from the real database. These theorems say what acceptance means:
`ownOk` is "allocated = claimed, each page claimed once" (no leak: every allocated page has an
owner; no double use: at most one), and a page can be released (and so reused) only when no
surviving pin and no unchanged durable root reaches it; pages of a live pin or of the durable
system tree stay allocated with a data-side / sys-side owner over whole traces.
NOT covered: that the recorded `St` is a faithful abstraction of the file (done by the harness
decoder), byte contents of pages, and what happens between two observation points.
-/
namespace Redb.Life

/-- `ownOk` = no page claimed twice, allocator list duplicate-free, allocated = claimed. -/
theorem c06_own_iff {s : St} :
    ownOk s = true ↔ ((owned s).Nodup ∧ s.alloc.Nodup ∧ (∀ p, p ∈ s.alloc ↔ p ∈ owned s)) :=
  own_iff

/-- at most one owner -/
theorem c06_owner_unique {s : St} {p : Page} {o₁ o₂ : Owner} (h : ownOk s = true)
    (h1 : (p, o₁) ∈ claims s) (h2 : (p, o₂) ∈ claims s) : o₁ = o₂ :=
  owner_unique h h1 h2

/-- no owner iff free: no leaked (allocated but unowned) page, no owned but free page -/
theorem c06_owner_none_iff {s : St} {p : Page} (h : ownOk s = true) :
    owner s p = none ↔ p ∉ s.alloc :=
  owner_none_iff h

/-- every page of every pin is allocated -/
theorem c06_pin_pages_allocated {s : St} {π : Pin} {p : Page} (h : ownOk s = true)
    (hp : pinOk s = true) (hπ : π ∈ s.pins) (hpp : p ∈ π.pages) : p ∈ s.alloc :=
  pin_pages_allocated h hp hπ hpp

/-- every page of the durable system tree is allocated -/
theorem c06_dsys_pages_allocated {s : St} {p : Page} (h : ownOk s = true)
    (hp : pinOk s = true) (hd : p ∈ s.dsys) : p ∈ s.alloc :=
  dsys_pages_allocated h hp hd

/-- no early reuse: a page released by a legal step was reached by no surviving pin and not by
the durable system tree (unless the durable commit advanced) -/
theorem c06_released_only_unpinned {s s' : St} {p : Page} (h : ownOk s = true)
    (h' : ownOk s' = true) (hs : stepOk false s s' = true) (hp : p ∈ s.alloc)
    (hp' : p ∉ s'.alloc) :
    (∀ π ∈ surviving s s', p ∉ π.pages) ∧ (s.dur = s'.dur → p ∉ s.dsys) :=
  released_only_unpinned h h' hs hp hp'

/-- trace level: pages of a pin that lives through the trace stay allocated and data-side -/
theorem c06_pinned_never_released {tr : List (Bool × St)} {π : Pin} {p : Page}
    (hacc : accept tr = true)
    (hnc : ∀ x ∈ tr.tail, x.1 = false)
    (hpin : ∀ x ∈ tr, x.2.pins.any (fun π' => π.same π') = true)
    (hp : p ∈ π.pages) :
    (∀ x ∈ tr, p ∈ x.2.alloc ∧
      (owner x.2 p = some .data ∨ ∃ t, π.id < t ∧ owner x.2 p = some (.dfreed t))) ∧
    (∀ pre x y post, tr = pre ++ x :: y :: post →
      ∃ o o', owner x.2 p = some o ∧ owner y.2 p = some o' ∧ PinnedMove x.2 p o o') :=
  pinned_never_released hacc hnc hpin hp

/-- trace level: pages of the durable system tree stay allocated and sys-side while `dur` is
unchanged -/
theorem c06_durable_sys_never_released {x0 : Bool × St} {tr : List (Bool × St)} {p : Page}
    (hacc : accept (x0 :: tr) = true)
    (hnc : ∀ x ∈ tr, x.1 = false)
    (hdur : ∀ x ∈ tr, x.2.dur = x0.2.dur)
    (hp : p ∈ x0.2.dsys) :
    (∀ x ∈ x0 :: tr, p ∈ x.2.alloc ∧ p ∈ x.2.dsys ∧
      (owner x.2 p = some .sys ∨ ∃ t, x0.2.dur < t ∧ owner x.2 p = some (.sfreed t))) ∧
    (∀ pre x y post, x0 :: tr = pre ++ x :: y :: post →
      ∃ o o', owner x.2 p = some o ∧ owner y.2 p = some o' ∧ DsysMove x.2 o o') :=
  durable_sys_never_released hacc hnc hdur hp

/-- `accept` = all states well accounted, all transitions legal -/
theorem c06_accept_spec {tr : List (Bool × St)} :
    accept tr = true ↔
      (∀ x ∈ tr, ownOk x.2 = true ∧ pinOk x.2 = true) ∧
      (∀ pre x y post, tr = pre ++ x :: y :: post → stepOk y.1 x.2 y.2 = true) :=
  accept_spec

end Redb.Life
