import RedbModel.Model.Catalog
import RedbModel.Lemmas.Catalog
/-!
# C17 — The table catalog is consistent and type-safe

The catalog model (`Model/Catalog.lean`) is a map from name to (kind, key type, value type, fixed
widths, alignments, contents) that changes atomically with the transaction. The theorems below
are the decision logic of open / rename / delete / list, stated for **all** catalogs, names and
requests, plus the invariant "names unique and sorted, every live handle names a staged table"
proved by induction over arbitrary operation sequences. The implementation is held to the model
by the correspondence run (`harness catalog` / `Driver/Catalog.lean`).
-/
namespace Redb.Catalog

/-! ## open: kind, types, widths -/

/-- A table stored as one kind and requested as the other is refused with the kind error,
whatever the key and value types of either side are. -/
theorem c17_open_wrong_kind (info : TableInfo) (req : Request) :
    (info.kind = .multimap → req.kind = .normal → checkMatch info req = .isMultimap) ∧
    (info.kind = .normal → req.kind = .multimap → checkMatch info req = .notMultimap) := by
  constructor
  · intro h1 h2
    have := checkMatch_wrong_kind info req (by rw [h1, h2]; decide)
    simpa [h1] using this
  · intro h1 h2
    have := checkMatch_wrong_kind info req (by rw [h1, h2]; decide)
    simpa [h1] using this

/-- the same through `open_table` in a write transaction, when no handle is live -/
theorem c17_open_wrong_kind_txn (s : State) (n : Name) (req : Request) (info : TableInfo)
    (ho : isOpen s n = false) (hl : lookup s.staged n = some info) (hk : info.kind ≠ req.kind) :
    openTable s n req = (s, if info.kind = .multimap then .isMultimap else .notMultimap) := by
  have hc := checkMatch_wrong_kind info req hk
  simp only [openTable, ho, hl, Bool.false_eq_true, if_false]
  by_cases hm : info.kind = .multimap <;> simp [hm] at hc ⊢ <;> simp [hc]

/-- Same kind (and the alignment of this version): a different key or value type name is a
type mismatch; equal names with a different fixed width is a changed type definition; a stored
alignment other than 1 is a changed type definition. None of these is ever `ok`. -/
theorem c17_open_wrong_types (info : TableInfo) (req : Request) (hk : info.kind = req.kind) :
    -- different type (neither the current nor the legacy spelling)
    (info.keyAlign = 1 → info.valAlign = 1 →
      (typeMatches info.keyType req.key.tn = false ∨ typeMatches info.valType req.val.tn = false) →
      checkMatch info req = .typeMismatch) ∧
    -- same types, different widths
    (info.keyAlign = 1 → info.valAlign = 1 →
      typeMatches info.keyType req.key.tn = true → typeMatches info.valType req.val.tn = true →
      (info.keyWidth ≠ req.key.width ∨ info.valWidth ≠ req.val.width) →
      checkMatch info req = .typeDefinitionChanged) ∧
    -- foreign alignment
    ((info.keyAlign ≠ 1 ∨ info.valAlign ≠ 1) → checkMatch info req = .typeDefinitionChanged) := by
  refine ⟨?_, ?_, ?_⟩
  · intro ha hb hm
    have hu : checkMatchUntyped info req.kind = .ok := (checkMatchUntyped_ok_iff _ _).2 ⟨hk, ha, hb⟩
    simp only [checkMatch, hu]
    rcases hm with hm | hm <;> simp [hm]
  · intro ha hb h1 h2 hw
    have hu : checkMatchUntyped info req.kind = .ok := (checkMatchUntyped_ok_iff _ _).2 ⟨hk, ha, hb⟩
    simp only [checkMatch, hu, h1, h2]
    rcases hw with hw | hw
    · simp [hw]
    · by_cases hw' : info.keyWidth = req.key.width <;> simp [hw, hw']
  · intro ha
    have hu : checkMatchUntyped info req.kind = .typeDefinitionChanged := by
      simp only [checkMatchUntyped, ALIGNMENT, hk, ne_eq, not_true_eq_false, if_false]
      by_cases h1 : info.keyAlign = 1
      · rcases ha with ha | ha
        · exact absurd h1 ha
        · simp [h1, ha]
      · simp [h1]
    simp [checkMatch, hu]

/-- type names with different name strings never match, so such an open is a type mismatch -/
theorem c17_open_different_name (info : TableInfo) (req : Request) (hk : info.kind = req.kind)
    (ha : info.keyAlign = 1) (hb : info.valAlign = 1)
    (hn : info.keyType.name ≠ req.key.tn.name ∨ info.valType.name ≠ req.val.tn.name) :
    checkMatch info req = .typeMismatch := by
  refine (c17_open_wrong_types info req hk).1 ha hb ?_
  rcases hn with hn | hn
  · exact .inl (typeMatches_false_of_name_ne _ _ hn)
  · exact .inr (typeMatches_false_of_name_ne _ _ hn)

/-- a user-defined type never matches a built-in type of the same name string, nor a built-in
composite (classification 4) the user composite of the same name, in either direction, when the
stored spelling is the current one -/
theorem c17_user_builtin_do_not_alias (stored expected : TypeName)
    (hc : stored.cls ≠ expected.cls) (hl : expected.legacy ≠ some stored.cls) :
    typeMatches stored expected = false := by
  cases hm : typeMatches stored expected with
  | false => rfl
  | true =>
    rcases (typeMatches_iff stored expected).1 hm with ⟨h, _⟩ | ⟨h, _⟩
    · exact absurd h hc
    · exact absurd h hl

/-- `check_match` answers ok exactly when kind, alignments, both type names (current or legacy
spelling) and both fixed widths agree -/
theorem c17_check_match_ok_iff (info : TableInfo) (req : Request) :
    checkMatch info req = .ok ↔
      info.kind = req.kind ∧ info.keyAlign = 1 ∧ info.valAlign = 1 ∧
      typeMatches info.keyType req.key.tn = true ∧ typeMatches info.valType req.val.tn = true ∧
      info.keyWidth = req.key.width ∧ info.valWidth = req.val.width := checkMatch_ok_iff info req

/-- `open` succeeds exactly when the name has no live handle and is either absent (then it is
created with the requested definition) or stored with a matching definition (then the catalog is
unchanged); in every other case nothing changes at all. -/
theorem c17_open_ok_iff (s : State) (n : Name) (req : Request) :
    ((openTable s n req).2 = .ok ↔
      isOpen s n = false ∧
      (lookup s.staged n = none ∨ ∃ info, lookup s.staged n = some info ∧ checkMatch info req = .ok)) ∧
    ((openTable s n req).2 ≠ .ok → (openTable s n req).1 = s) ∧
    (isOpen s n = false → lookup s.staged n = none →
      lookup (openTable s n req).1.staged n = some (freshInfo req) ∧
      ∀ m, m ≠ n → lookup (openTable s n req).1.staged m = lookup s.staged m) ∧
    (∀ info, lookup s.staged n = some info → (openTable s n req).1.staged = s.staged) ∧
    (openTable s n req).1.committed = s.committed := by
  cases ho : isOpen s n with
  | true => simp [openTable_live s n req ho]
  | false =>
    cases hl : lookup s.staged n with
    | none =>
      rw [openTable_absent s n req ho hl]
      refine ⟨by simp, by simp, ?_, by simp, rfl⟩
      intro _ _
      refine ⟨by simp [lookup_insert], ?_⟩
      intro m hm; simp [lookup_insert, hm]
    | some info =>
      by_cases hc : checkMatch info req = .ok
      · rw [openTable_present_ok s n req info ho hl hc]
        simp [hc]
      · rw [openTable_present_err s n req info ho hl hc]
        simp [hc]

/-- A second open while the handle is live is refused with already-open (whatever is requested);
after the handle is dropped the same open succeeds again. -/
theorem c17_open_twice (s : State) (n : Name) (req req' : Request)
    (h : (openTable s n req).2 = .ok) :
    openTable (openTable s n req).1 n req' = ((openTable s n req).1, .alreadyOpen) ∧
    (openTable (closeHandle (openTable s n req).1 n) n req).2 = .ok := by
  have h0 := (c17_open_ok_iff s n req).1.1 h
  have hopen : isOpen (openTable s n req).1 n = true := by
    rcases h0.2 with hnone | ⟨info, hl, hc⟩
    · rw [openTable_absent s n req h0.1 hnone]; simp [isOpen]
    · rw [openTable_present_ok s n req info h0.1 hl hc]; simp [isOpen]
  refine ⟨openTable_live _ n req' hopen, ?_⟩
  -- after the drop: not open, and the staged entry matches the request
  have hclosed : isOpen (closeHandle (openTable s n req).1 n) n = false := by
    simp [isOpen, closeHandle]
  have hstaged : (closeHandle (openTable s n req).1 n).staged = (openTable s n req).1.staged := rfl
  have hentry : ∃ info, lookup (openTable s n req).1.staged n = some info ∧ checkMatch info req = .ok := by
    rcases h0.2 with hnone | ⟨info, hl, hc⟩
    · exact ⟨freshInfo req, ((c17_open_ok_iff s n req).2.2.1 h0.1 hnone).1, checkMatch_fresh req⟩
    · exact ⟨info, by rw [(c17_open_ok_iff s n req).2.2.2.1 info hl]; exact hl, hc⟩
  obtain ⟨info, hl, hc⟩ := hentry
  exact ((c17_open_ok_iff _ n req).1.2 ⟨hclosed, .inr ⟨info, by rw [hstaged]; exact hl, hc⟩⟩)

/-- a live handle stays live (and keeps refusing a second open, a rename and a delete of its
name) across any operations other than its own drop and the end of the transaction -/
theorem c17_handle_stays_live (s : State) (n : Name) (ops : List Op) (h : isOpen s n = true)
    (hops : ∀ op ∈ ops, op ≠ .close n ∧ op ≠ .commitT ∧ op ≠ .abortT) :
    isOpen (run s ops) n = true := by
  induction ops generalizing s with
  | nil => exact h
  | cons op rest ih =>
    have hop := hops op (by simp)
    refine ih (step s op) ?_ (fun o ho => hops o (by simp [ho]))
    rw [isOpen_iff] at h ⊢
    cases op with
    | openT m req =>
      simp only [step]
      rcases openTable_cases s m req with e | ⟨_, _, e⟩ | ⟨_, _, _, e⟩ <;> rw [e] <;> simp [h]
    | close m =>
      have : m ≠ n := fun e => hop.1 (by rw [e])
      simp only [step, closeHandle, List.mem_filter, h, true_and, ne_eq, decide_not,
        Bool.not_eq_eq_eq_not, Bool.not_true, decide_eq_false_iff_not]
      exact fun e => this e.symm
    | renameT k a b =>
      simp only [step]
      rcases rename_cases s k a b with e | ⟨_, _, _, _, _, e⟩ <;> rw [e] <;> exact h
    | deleteT k a =>
      simp only [step]
      rcases delete_cases s k a with e | ⟨_, e⟩ <;> rw [e] <;> exact h
    | modify m f =>
      simp only [step]
      split
      · rcases modifyContents_cases s m f with e | ⟨_, _, e⟩ <;> rw [e] <;> exact h
      · exact h
    | commitT => exact absurd rfl hop.2.1
    | abortT => exact absurd rfl hop.2.2

/-! ## rename -/

/-- `rename_table(a → b)` for a requested kind: refused while `a` has a live handle; an absent
source does not exist; a source of the other kind gives the kind error; renaming to itself is a
no-op; an existing target is refused (with the kind error if it is of the other kind, otherwise
`exists`); otherwise the entry moves to `b` with its definition and contents (including the
uncommitted modifications, which live in the staged entry), `a` disappears, every other name and
the committed catalog are untouched. -/
theorem c17_rename_semantics (s : State) (kind : Kind) (a b : Name) (hs : Sorted s.staged) :
    (isOpen s a = true → rename s kind a b = (s, .alreadyOpen)) ∧
    (isOpen s a = false → lookup s.staged a = none → rename s kind a b = (s, .doesNotExist)) ∧
    (∀ info, isOpen s a = false → lookup s.staged a = some info →
      (checkMatchUntyped info kind ≠ .ok → rename s kind a b = (s, checkMatchUntyped info kind)) ∧
      (checkMatchUntyped info kind = .ok → a = b → rename s kind a b = (s, .ok)) ∧
      (checkMatchUntyped info kind = .ok → a ≠ b →
        (∀ other, lookup s.staged b = some other →
          rename s kind a b =
            (s, if checkMatchUntyped other kind = .ok then .tableExists else checkMatchUntyped other kind)) ∧
        (lookup s.staged b = none →
          (rename s kind a b).2 = .ok ∧
          lookup (rename s kind a b).1.staged b = some info ∧
          lookup (rename s kind a b).1.staged a = none ∧
          (∀ m, m ≠ a → m ≠ b → lookup (rename s kind a b).1.staged m = lookup s.staged m) ∧
          (rename s kind a b).1.committed = s.committed ∧
          (rename s kind a b).1.openNames = s.openNames))) := by
  refine ⟨rename_live s kind a b, rename_absent s kind a b, ?_⟩
  intro info ho hl
  refine ⟨rename_kind_err s kind a b info ho hl, ?_, ?_⟩
  · intro hc hab
    subst hab
    exact rename_self s kind a info ho hl hc
  · intro hc hab
    refine ⟨fun other hb => rename_target_present s kind a b info other ho hl hc hab hb, ?_⟩
    intro hb
    rw [rename_moves s kind a b info ho hl hc hab hb]
    refine ⟨rfl, by simp [lookup_insert], ?_, ?_, rfl, rfl⟩
    · simp [lookup_insert, hab, lookup_erase s.staged hs]
    · intro m hma hmb
      simp [lookup_insert, hmb, lookup_erase s.staged hs, hma]

/-- the listing after a successful rename: `b` appears (under the table's kind), `a` is gone,
every other name is listed exactly as before -/
theorem c17_rename_list (s : State) (kind : Kind) (a b : Name) (hs : Sorted s.staged)
    (info : TableInfo) (ho : isOpen s a = false) (hl : lookup s.staged a = some info)
    (hc : checkMatchUntyped info kind = .ok) (hab : a ≠ b) (hb : lookup s.staged b = none)
    (k : Kind) (m : Name) :
    m ∈ list (rename s kind a b).1 k ↔ (m = b ∧ info.kind = k) ∨ (m ≠ a ∧ m ≠ b ∧ m ∈ list s k) := by
  have hr := ((c17_rename_semantics s kind a b hs).2.2 info ho hl).2.2 hc hab
  obtain ⟨_, hlb, hla, hother, _, _⟩ := hr.2 hb
  have hs' : Sorted (rename s kind a b).1.staged := by
    rw [rename_moves s kind a b info ho hl hc hab hb]
    exact sorted_insert _ (sorted_erase _ hs a) b info
  simp only [list, mem_listOf _ hs', mem_listOf _ hs]
  by_cases hmb : m = b
  · subst hmb
    simp [hlb, hb]
  · by_cases hma : m = a
    · subst hma
      simp [hla, hmb]
    · simp [hother m hma hmb, hma, hmb]

/-! ## delete -/

/-- `delete_table(a)` for a requested kind: refused while `a` has a live handle; false for an
absent name; the kind error for a table of the other kind; otherwise true, the entry (with all of
its contents) is gone, every other name and the committed catalog are untouched. -/
theorem c17_delete_semantics (s : State) (kind : Kind) (a : Name) (hs : Sorted s.staged) :
    (isOpen s a = true → delete s kind a = (s, .refused .alreadyOpen)) ∧
    (isOpen s a = false → lookup s.staged a = none → delete s kind a = (s, .absent)) ∧
    (∀ info, isOpen s a = false → lookup s.staged a = some info →
      (checkMatchUntyped info kind ≠ .ok → delete s kind a = (s, .refused (checkMatchUntyped info kind))) ∧
      (checkMatchUntyped info kind = .ok →
        (delete s kind a).2 = .removed ∧
        lookup (delete s kind a).1.staged a = none ∧
        (∀ m, m ≠ a → lookup (delete s kind a).1.staged m = lookup s.staged m) ∧
        (∀ k, ∀ m, m ∈ list (delete s kind a).1 k ↔ m ≠ a ∧ m ∈ list s k) ∧
        (delete s kind a).1.committed = s.committed ∧
        (delete s kind a).1.openNames = s.openNames)) := by
  refine ⟨delete_live s kind a, delete_absent s kind a, ?_⟩
  intro info ho hl
  refine ⟨delete_kind_err s kind a info ho hl, ?_⟩
  intro hc
  rw [delete_removes s kind a info ho hl hc]
  refine ⟨rfl, by simp [lookup_erase s.staged hs], ?_, ?_, rfl, rfl⟩
  · intro m hm; simp [lookup_erase s.staged hs, hm]
  · intro k m
    simp only [list, mem_listOf _ (sorted_erase _ hs a), mem_listOf _ hs, lookup_erase s.staged hs]
    by_cases hm : m = a <;> simp [hm]

/-- number of rows held by all tables of a catalog -/
def totalRows (c : Catalog) : Nat := (c.map (fun e => e.2.contents.length)).sum

/-- In the model a delete releases exactly the rows of the deleted table. (Only the abstract
contents: the release of *pages* is checked on the implementation by the harness's
`catalog-leak` oracle, not proved here.) -/
theorem c17_delete_releases_rows_partial (c : Catalog) (hs : Sorted c) (a : Name) (info : TableInfo)
    (hl : lookup c a = some info) :
    totalRows (erase c a) + info.contents.length = totalRows c := by
  induction c with
  | nil => simp [lookup] at hl
  | cons e rest ih =>
    obtain ⟨k, v⟩ := e
    have ⟨_, hr⟩ := sorted_cons.1 hs
    simp only [lookup] at hl
    simp only [erase]
    cases hak : cmpName a k with
    | lt => simp [hak] at hl
    | eq =>
      simp only [hak, Option.some.injEq] at hl
      subst hl
      simp only [totalRows, List.map_cons, List.sum_cons]
      omega
    | gt =>
      simp only [hak] at hl
      have := ih hr hl
      simp only [totalRows, List.map_cons, List.sum_cons] at this ⊢
      omega

/-! ## list -/

/-- `list_tables` / `list_multimap_tables`: strictly increasing in the byte-wise name order (so
duplicate-free), and exactly the staged names of the requested kind -/
theorem c17_list_sorted (s : State) (hs : Sorted s.staged) (kind : Kind) :
    (list s kind).Pairwise (fun a b => cmpName a b = .lt) ∧
    ∀ n, n ∈ list s kind ↔ ∃ info, lookup s.staged n = some info ∧ info.kind = kind :=
  ⟨listOf_sorted _ hs kind, mem_listOf _ hs kind⟩

/-- every stored name is listed under exactly one of the two kinds -/
theorem c17_list_partition (s : State) (hs : Sorted s.staged) (n : Name) :
    (lookup s.staged n).isSome = true ↔ (n ∈ list s .normal ∨ n ∈ list s .multimap) := by
  simp only [list, mem_listOf _ hs]
  constructor
  · intro h
    obtain ⟨info, hi⟩ := Option.isSome_iff_exists.1 h
    cases hk : info.kind with
    | normal => exact .inl ⟨info, hi, hk⟩
    | multimap => exact .inr ⟨info, hi, hk⟩
  · rintro (⟨info, hi, _⟩ | ⟨info, hi, _⟩) <;> simp [hi]

/-! ## transactions -/

/-- abort: the staged catalog is the committed one again; commit: the committed catalog becomes
the staged one; no other operation touches the committed catalog -/
theorem c17_txn_atomic (s : State) :
    ((abort s).staged = s.committed ∧ (abort s).committed = s.committed ∧ (abort s).openNames = []) ∧
    ((commit s).committed = s.staged ∧ (commit s).staged = s.staged ∧ (commit s).openNames = []) ∧
    (∀ op, op ≠ .commitT → (step s op).committed = s.committed) := by
  refine ⟨⟨rfl, rfl, rfl⟩, ⟨rfl, rfl, rfl⟩, ?_⟩
  intro op hop
  cases op with
  | openT n req => exact (c17_open_ok_iff s n req).2.2.2.2
  | close n => rfl
  | renameT k a b =>
    simp only [step]
    rcases rename_cases s k a b with e | ⟨_, _, _, _, _, e⟩ <;> rw [e]
  | deleteT k a =>
    simp only [step]
    rcases delete_cases s k a with e | ⟨_, e⟩ <;> rw [e]
  | modify n f =>
    simp only [step]
    split
    · rcases modifyContents_cases s n f with e | ⟨_, _, e⟩ <;> rw [e]
    · rfl
  | commitT => exact absurd rfl hop
  | abortT => rfl

/-- whatever a transaction does, as long as it does not commit, the committed catalog is
unchanged, and aborting it restores the staged catalog to the committed one -/
theorem c17_txn_atomic_run (s : State) (ops : List Op) (h : ∀ op ∈ ops, op ≠ .commitT) :
    (run s ops).committed = s.committed ∧ (run s (ops ++ [.abortT])).staged = s.committed := by
  have key : ∀ (ops : List Op) (s : State), (∀ op ∈ ops, op ≠ .commitT) → (run s ops).committed = s.committed := by
    intro ops
    induction ops with
    | nil => intro s _; rfl
    | cons op rest ih =>
      intro s h
      have h1 := (c17_txn_atomic s).2.2 op (h op (by simp))
      have h2 := ih (step s op) (fun o ho => h o (by simp [ho]))
      simp only [run, List.foldl_cons] at h2 ⊢
      rw [h2, h1]
  refine ⟨key ops s h, ?_⟩
  simp only [run, List.foldl_append, List.foldl_cons, List.foldl_nil, step, abort]
  exact key ops s h

/-! ## invariants over arbitrary operation sequences -/

theorem c17_inv_init : Inv init := ⟨sorted_nil, sorted_nil, by simp [init]⟩

/-- every operation preserves: names unique and sorted (committed and staged), and every live
handle names a table of the staged catalog -/
theorem c17_inv_step (s : State) (op : Op) (h : Inv s) : Inv (step s op) := by
  obtain ⟨hc, hst, hop⟩ := h
  cases op with
  | openT n req =>
    simp only [step]
    rcases openTable_cases s n req with e | ⟨_, _, e⟩ | ⟨info, _, hl, e⟩ <;> rw [e]
    · exact ⟨hc, hst, hop⟩
    · refine ⟨hc, sorted_insert _ hst _ _, ?_⟩
      intro m hm
      simp only [List.mem_cons] at hm
      simp only [lookup_insert]
      by_cases hmn : m = n
      · simp [hmn]
      · rcases hm with hm | hm
        · exact absurd hm hmn
        · simp [hmn, hop m hm]
    · refine ⟨hc, hst, ?_⟩
      intro m hm
      simp only [List.mem_cons] at hm
      rcases hm with hm | hm
      · simp [hm, hl]
      · exact hop m hm
  | close n =>
    refine ⟨hc, hst, ?_⟩
    intro m hm
    simp only [step, closeHandle, List.mem_filter] at hm
    exact hop m hm.1
  | renameT k a b =>
    simp only [step]
    rcases rename_cases s k a b with e | ⟨info, ho, _, _, _, e⟩ <;> rw [e]
    · exact ⟨hc, hst, hop⟩
    · refine ⟨hc, sorted_insert _ (sorted_erase _ hst a) b info, ?_⟩
      intro m hm
      have hma : m ≠ a := by
        intro e; subst e
        exact absurd ((isOpen_iff s m).2 hm) (by simp [ho])
      simp only [lookup_insert, lookup_erase s.staged hst, hma, if_false]
      by_cases hmb : m = b
      · simp [hmb]
      · simp [hmb, hop m hm]
  | deleteT k a =>
    simp only [step]
    rcases delete_cases s k a with e | ⟨ho, e⟩ <;> rw [e]
    · exact ⟨hc, hst, hop⟩
    · refine ⟨hc, sorted_erase _ hst a, ?_⟩
      intro m hm
      have hma : m ≠ a := by
        intro e; subst e
        exact absurd ((isOpen_iff s m).2 hm) (by simp [ho])
      simp only [lookup_erase s.staged hst, hma, if_false]
      exact hop m hm
  | modify n f =>
    simp only [step]
    split
    · rcases modifyContents_cases s n f with e | ⟨info, _, e⟩ <;> rw [e]
      · exact ⟨hc, hst, hop⟩
      · refine ⟨hc, sorted_insert _ hst _ _, ?_⟩
        intro m hm
        simp only [lookup_insert]
        by_cases hmn : m = n
        · simp [hmn]
        · simp [hmn, hop m hm]
    · exact ⟨hc, hst, hop⟩
  | commitT => exact ⟨hst, hst, by simp [step, commit]⟩
  | abortT => exact ⟨hc, hc, by simp [step, abort]⟩

/-- the invariant holds after any sequence of operations from the empty database -/
theorem c17_inv_run (ops : List Op) : Inv (run init ops) := by
  have key : ∀ (ops : List Op) (s : State), Inv s → Inv (run s ops) := by
    intro ops
    induction ops with
    | nil => intro s h; exact h
    | cons op rest ih =>
      intro s h
      simp only [run, List.foldl_cons]
      exact ih (step s op) (c17_inv_step s op h)
  exact key ops init c17_inv_init

/-- consequently, after any sequence of operations: both listings are strictly sorted, and a name
is never listed under both kinds -/
theorem c17_run_lists_sorted (ops : List Op) (kind : Kind) :
    (list (run init ops) kind).Pairwise (fun a b => cmpName a b = .lt) :=
  (c17_list_sorted _ (c17_inv_run ops).staged kind).1

theorem c17_run_kinds_disjoint (ops : List Op) (n : Name) :
    ¬ (n ∈ list (run init ops) .normal ∧ n ∈ list (run init ops) .multimap) := by
  have hs := (c17_inv_run ops).staged
  simp only [list, mem_listOf _ hs]
  rintro ⟨⟨i1, h1, k1⟩, ⟨i2, h2, k2⟩⟩
  rw [h1] at h2
  cases h2
  rw [k1] at k2
  cases k2

/-! ## the read path -/

/-- a read transaction refuses an absent table with does-not-exist and otherwise applies exactly
`check_match` (typed) or the kind/alignment check (untyped) -/
theorem c17_read_open (c : Catalog) (n : Name) (req : Request) :
    (lookup c n = none → readOpen c n req = .doesNotExist ∧ readOpenUntyped c n req.kind = .doesNotExist) ∧
    (∀ info, lookup c n = some info →
      readOpen c n req = checkMatch info req ∧ readOpenUntyped c n req.kind = checkMatchUntyped info req.kind) := by
  constructor
  · intro h; simp [readOpen, readOpenUntyped, h]
  · intro info h; simp [readOpen, readOpenUntyped, h]

end Redb.Catalog
