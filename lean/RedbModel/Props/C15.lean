import RedbModel.Model.KeyType
import RedbModel.Lemmas.KeyType
/-!
# C15 — Built-in key types order correctly and separators are valid

Property theorems about the model `RedbModel/Model/KeyType.lean` of `src/types.rs`,
`src/tuple_types.rs`, `src/complex_types.rs`, `src/types/uuid.rs` and `branch_separator`.
`t` ranges over every descriptor `KT` (integers of every width and sign, bool, char, str,
byte slices and arrays, Option, fixed arrays, tuples, nested arbitrarily); `a b c` over all valid
encodings.
-/
namespace Redb.Key

/-- The byte-level comparison is a total order on valid encodings (reflexive, antisymmetric,
transitive — the pair and triple quantifier of the property). -/
theorem c15_cmp_total_order (t : KT) : CmpLaws t := cmp_laws t

/-- The separator computed for any two keys `a < b` is a valid encoding `s` of the same type
with `a ≤ s < b` and no longer than `a`. -/
theorem c15_sep_contract (t : KT) (a b : Bytes)
    (ha : valid t a = true) (hb : valid t b = true) (hlt : cmp t a b = .lt) :
    valid t (sep t a b) = true ∧ cmp t a (sep t a b) ≠ .gt ∧ cmp t (sep t a b) b = .lt ∧
      (sep t a b).length ≤ a.length := by
  have h := sep_contract t a b ha hb hlt
  simp only [sepOk, Bool.and_eq_true, bne_iff_ne, ne_eq, beq_iff_eq, decide_eq_true_eq] at h
  exact ⟨h.1.1.1, h.1.1.2, h.1.2, h.2⟩

/-- The same for the separator actually stored in branch pages. -/
theorem c15_branch_separator_contract (t : KT) (a b : Bytes)
    (ha : valid t a = true) (hb : valid t b = true) (hlt : cmp t a b = .lt) :
    sepOk t a b (branchSeparator t a b) = true := branchSeparator_contract t a b ha hb hlt

/-- Fixed-width key types never get a shortened branch key (it would corrupt the stride). -/
theorem c15_branch_separator_fixed (t : KT) (w : Nat) (a b : Bytes) (h : fixedWidth t = some w) :
    branchSeparator t a b = a := branchSeparator_fixed t w a b h

/-- `min_encoded_key` is a valid encoding that sorts below (or equal to) every other one. -/
theorem c15_min_key_least (t : KT) (m : Bytes) (h : minKey t = some m) :
    valid t m = true ∧ ∀ a, valid t a = true → cmp t m a ≠ .gt := minKey_least t m h

/-- Valid encodings of a fixed-width type have exactly that width. -/
theorem c15_valid_fixed_width (t : KT) (w : Nat) (a : Bytes)
    (h : fixedWidth t = some w) (ha : valid t a = true) : a.length = w := valid_fixedWidth t w a h ha

end Redb.Key
